(** C16 proofs, part 8: witnesses for what stays excluded from the round trip of the pinned from_buffers, and the
    trees on which the pinned code and the proposed repair coincide. *)
From Coq Require Import ZArith List Bool Lia ZifyBool.
From AwkV Require Import Base Layout LayoutInd Valid Types Proofs_Lists Proofs_C11 Proofs_Typing Proofs_ToList Proofs_Carry.
From AwkBuffers Require Import Buffers Proofs_C16 Proofs_C16b Proofs_C16c Proofs_C16f.
Import ListNotations.
Open Scope Z_scope.

Definition N5 : content := Numpy DInt64 [5] [DZ 0; DZ 1; DZ 2; DZ 3; DZ 4].
Definition R5 : content := Record [N5] (Some [[120]]) 5.

(* what a witness says: valid, has a value, is outside the fragment of the pinned code for exactly the clause named,
   the pinned round trip is refused or gives a layout without a value, and (where stated) the repair restores it *)
Definition rt_value (fixed : bool) (c : content) : res (list value) :=
  match from_buffers_gen fixed (to_buffers c) with Ok c' => to_list c' | Err e => Err e end.

(** (b1) ByteMaskedArray over a content that does not come back whole, the parent asking for less than the mask:
    ALREADY the smallest case needs no list above it — a RegularArray whose content has a remainder.
    Registered finding: buffers-trimmed-content-under-untrimmed-parent. *)
Example bytemasked_over_record_refuted :
  let c := Regular (ByteMasked [1; 1; 0; 1; 1] true R5) 2 0 in
  validb None c = true /\ fragG false false c = false /\ offs_in c = true /\
  to_list c = Ok [VList [VRec [([120], VNum (DZ 0))]; VRec [([120], VNum (DZ 1))]]; VList [VNone; VRec [([120], VNum (DZ 3))]]] /\
  from_buffers (to_buffers c) = Err EValue /\ rt_value true c = to_list c.
Proof. vm_compute. repeat split. Qed.

(** (b2) ListArray over such a content below a node that asks for fewer lists: from_buffers SUCCEEDS but the layout
    it returns is invalid (the second list points outside the two rows that came back), it has no value in the model
    (ak.is_valid false in the library).  Same registered finding ("or an invalid array for valid inputs"). *)
Example listarray_over_record_refuted :
  let c := ListOffset I64 [0; 1] (ListA I64 [0; 3] [2; 5] R5) in
  validb None c = true /\ fragG false false c = false /\ offs_in c = true /\
  to_list c = Ok [VList [VList [VRec [([120], VNum (DZ 0))]; VRec [([120], VNum (DZ 1))]]]] /\
  from_buffers (to_buffers c) = Ok (ListOffset I64 [0; 1] (ListA I64 [0; 3] [2; 5] (Record [N5] (Some [[120]]) 2))) /\
  (forall c', from_buffers (to_buffers c) = Ok c' -> validb None c' = false /\ to_list c' = Err EOob) /\
  rt_value true c = to_list c.
Proof.
  cbv zeta. split; [vm_compute; reflexivity|]. split; [vm_compute; reflexivity|]. split; [vm_compute; reflexivity|].
  split; [vm_compute; reflexivity|]. split; [vm_compute; reflexivity|]. split; [|vm_compute; reflexivity].
  intros c' H. vm_compute in H. injection H as <-. split; vm_compute; reflexivity.
Qed.

(** (b3) UnionArray over such a content: again an invalid layout comes back.  Same registered finding. *)
Example union_over_record_refuted :
  let c := ListOffset I64 [0; 1] (Union I64 [0; 1; 0] [0; 0; 4] [R5; Numpy DBool [1] [DZ 1]]) in
  validb None c = true /\ fragG false false c = false /\ offs_in c = true /\
  to_list c = Ok [VList [VRec [([120], VNum (DZ 0))]]] /\
  (exists c', from_buffers (to_buffers c) = Ok c' /\ validb None c' = false /\ to_list c' = Err EOob) /\
  rt_value true c = to_list c.
Proof.
  cbv zeta. split; [vm_compute; reflexivity|]. split; [vm_compute; reflexivity|]. split; [vm_compute; reflexivity|].
  split; [vm_compute; reflexivity|]. split; [|vm_compute; reflexivity].
  eexists. split; [vm_compute; reflexivity|]. split; vm_compute; reflexivity.
Qed.

(** (b4) the same through a content that is a RegularArray of size 0 (its length is whatever is asked).  Same finding. *)
Example bytemasked_over_regular0_refuted :
  let c := ListOffset I64 [0; 1] (ByteMasked [1; 0] true (Regular N5 0 4)) in
  validb None c = true /\ fragG false false c = false /\ offs_in c = true /\
  to_list c = Ok [VList [VList []]] /\ from_buffers (to_buffers c) = Err EValue /\ rt_value true c = to_list c.
Proof. vm_compute. repeat split. Qed.

(** (a') NumpyArray with a zero inner dimension is in the fragment now, but it does not come back whole: below a
    ByteMaskedArray that is asked for less than its mask the pinned code refuses it.  An instance of the same
    registered finding on a node class the finding's text does not name (NumpyArray of zero-size items). *)
Example bytemasked_over_zero_items_refuted :
  let c := ListOffset I64 [0; 2] (ByteMasked [1; 1; 1] true (Numpy DInt64 [3; 0] [])) in
  validb None c = true /\ fragG false false c = false /\ offs_in c = true /\
  to_list c = Ok [VList [VList []; VList []]] /\ from_buffers (to_buffers c) = Err EValue /\ rt_value true c = to_list c.
Proof. vm_compute. repeat split. Qed.

(** (c) BitMaskedArray over such a content where to_buffers range-slices it (below a keyed RecordArray), the record
    being asked for less than its length.  Same registered finding.  At a place that is not sliced the node is fine. *)
Example bitmasked_sliced_over_record_refuted :
  let c := ListOffset I64 [0; 2] (Record [BitMasked [27] true true 5 R5] (Some [[121]]) 4) in
  validb None c = true /\ fragG false false c = false /\ offs_in c = true /\
  to_list c = Ok [VList [VRec [([121], VRec [([120], VNum (DZ 0))])]; VRec [([121], VRec [([120], VNum (DZ 1))])]]] /\
  from_buffers (to_buffers c) = Err EValue /\ rt_value true c = to_list c /\
  let c2 := ListOffset I64 [0; 2] (BitMasked [27] true true 5 R5) in
  validb None c2 = true /\ fragG false false c2 = true /\ frag16 c2 = false /\ rt_value false c2 = to_list c2.
Proof. vm_compute. repeat split. Qed.

(** (d) all lists empty, offsets outside the content: refused by BOTH variants (the repair does not touch the
    ListOffsetArray branch).  Registered finding: buffers-empty-lists-offsets-beyond-content. *)
Example offsets_beyond_content_refuted :
  let c := ListOffset I64 [100; 100] (Numpy DInt64 [3] [DZ 1; DZ 2; DZ 3]) in
  validb None c = true /\ offs_in c = false /\ to_list c = Ok [VList []] /\
  from_buffers (to_buffers c) = Err EValue /\ from_buffers_gen true (to_buffers c) = Err EValue.
Proof. vm_compute. repeat split. Qed.
(** (d') the same branch with NEGATIVE equal offsets (valid: start = stop is never checked against the content): the
    negative offsets[-1] is passed down as a length; a RecordArray content is refused, a RegularArray of size 0 comes
    back with a negative length (no value).  Same branch as the registered finding, whose text only speaks of offsets
    beyond the content: the negative variant is NOT registered. *)
Example offsets_negative_refuted :
  let c1 := ListOffset I64 [-5; -5] R5 in
  let c2 := ListOffset I64 [-5; -5] (Regular N5 0 2) in
  validb None c1 = true /\ validb None c2 = true /\ offs_in c1 = false /\ offs_in c2 = false /\
  to_list c1 = Ok [VList []] /\ to_list c2 = Ok [VList []] /\
  from_buffers (to_buffers c1) = Err EValue /\ from_buffers_gen true (to_buffers c1) = Err EValue /\
  from_buffers (to_buffers c2) = Ok (ListOffset I64 [-5; -5] (Regular N5 0 (-5))) /\ rt_value false c2 = Err EValue /\
  rt_value true c2 = Err EValue.
Proof. vm_compute. repeat split. Qed.

(* Props-style existence statements *)
Theorem buffers_roundtrip_invalid_result_refuted_thm :
  exists c c', Valid None c /\ from_buffers (to_buffers c) = Ok c' /\ validb None c' = false /\
               (exists vs, to_list c = Ok vs) /\ to_list c' = Err EOob /\ rt_value true c = to_list c.
Proof.
  exists (ListOffset I64 [0; 1] (ListA I64 [0; 3] [2; 5] R5)). eexists.
  split; [apply validity_exact_gen; vm_compute; reflexivity|]. split; [vm_compute; reflexivity|].
  split; [vm_compute; reflexivity|]. split; [eexists; vm_compute; reflexivity|]. split; vm_compute; reflexivity.
Qed.
Theorem buffers_roundtrip_top_level_refuted_thm :
  exists c, Valid None c /\ from_buffers (to_buffers c) = Err EValue /\ (exists vs, to_list c = Ok vs) /\
            rt_value true c = to_list c /\ exists c0 size zl, c = Regular c0 size zl.
Proof.
  exists (Regular (ByteMasked [1; 1; 0; 1; 1] true R5) 2 0).
  split; [apply validity_exact_gen; vm_compute; reflexivity|]. split; [vm_compute; reflexivity|].
  split; [eexists; vm_compute; reflexivity|]. split; [vm_compute; reflexivity|]. eexists _, _, _. reflexivity.
Qed.
Theorem buffers_offsets_outside_content_refuted_thm :
  exists c, Valid None c /\ (exists vs, to_list c = Ok vs) /\ forall fixed, from_buffers_gen fixed (to_buffers c) = Err EValue.
Proof.
  exists (ListOffset I64 [100; 100] (Numpy DInt64 [3] [DZ 1; DZ 2; DZ 3])).
  split; [apply validity_exact_gen; vm_compute; reflexivity|]. split; [eexists; vm_compute; reflexivity|].
  intros []; vm_compute; reflexivity.
Qed.
Theorem buffers_offsets_negative_refuted_thm :
  exists c c', Valid None c /\ to_list c = Ok [VList []] /\
               (forall fixed, from_buffers_gen fixed (to_buffers c) = Ok c') /\ to_list c' = Err EValue.
Proof.
  exists (ListOffset I64 [-5; -5] (Regular N5 0 2)), (ListOffset I64 [-5; -5] (Regular N5 0 (-5))).
  split; [apply validity_exact_gen; vm_compute; reflexivity|]. split; [vm_compute; reflexivity|].
  split; [intros []; vm_compute; reflexivity|]. vm_compute. reflexivity.
Qed.

(* ================================================================================================================ *)
(** where the pinned code and the repair coincide: every node that keeps a whole index buffer while it passes a
    length down (ByteMaskedArray: mask, ListArray: starts, UnionArray: tags) is asked for exactly that buffer's length *)
Fixpoint exact_tree (t : ftree) (len : Z) {struct t} : bool :=
  match t with
  | TNumpy _ _ _ | TEmpty => true
  | TListOffset _ o t' => exact_tree t' (match last_z o with Ok x => x | Err _ => 0 end)
  | TList _ s e t' => (zlen s =? len) && exact_tree t' (max_or0 (live_stops (take len s) (take len e)))
  | TRegular t' size => exact_tree t' (len * size)
  | TIndexed _ ix t' => exact_tree t' (match ix with [] => 0 | _ => max_or0 ix + 1 end)
  | TIndexedOption _ ix t' => exact_tree t' (match ix with [] => 0 | _ => Z.max 0 (max_or0 ix + 1) end)
  | TByteMasked m _ t' => (zlen m =? len) && exact_tree t' len
  | TBitMasked _ _ _ t' | TUnmasked t' | TPar _ _ t' => exact_tree t' len
  | TUnion _ tg ix ts =>
      (zlen tg =? len) &&
      (fix all (l : list ftree) (i : Z) : bool :=
         match l with
         | [] => true
         | x :: xs => exact_tree x (match mine (take len tg) (take len ix) i with [] => 0 | l' => max_or0 l' + 1 end) && all xs (i + 1)
         end) ts 0
  | TRecord ts _ =>
      (fix all (l : list ftree) : bool := match l with [] => true | x :: xs => exact_tree x len && all xs end) ts
  end.

Fixpoint exact_un (tg ix : list Z) (l : list ftree) (i : Z) : bool :=
  match l with
  | [] => true
  | x :: xs => exact_tree x (match mine tg ix i with [] => 0 | l' => max_or0 l' + 1 end) && exact_un tg ix xs (i + 1)
  end.
Lemma exact_tree_Union w tg ix ts len :
  exact_tree (TUnion w tg ix ts) len = (zlen tg =? len) && exact_un (take len tg) (take len ix) ts 0.
Proof.
  cbn [exact_tree]. f_equal.
  assert (E : forall l i, (fix all (l : list ftree) (i : Z) : bool :=
         match l with
         | [] => true
         | x :: xs => exact_tree x (match mine (take len tg) (take len ix) i with [] => 0 | l' => max_or0 l' + 1 end) && all xs (i + 1)
         end) l i = exact_un (take len tg) (take len ix) l i).
  { induction l as [|x xs IH]; intros i; [reflexivity|]. cbn [exact_un]. rewrite IH. reflexivity. }
  apply E.
Qed.
Lemma exact_tree_Record ts ks len : exact_tree (TRecord ts ks) len = forallb (fun x => exact_tree x len) ts.
Proof. cbn [exact_tree]. induction ts as [|x xs IH]; [reflexivity|]. cbn [forallb]. rewrite IH. reflexivity. Qed.

Definition agree_at (t : ftree) : Prop := forall len, exact_tree t len = true -> of_ftree false t len = of_ftree true t len.

Lemma of_ftree_agree t : agree_at t.
Proof.
  induction t using ftree_ind'; intros len He.
  - reflexivity.
  - reflexivity.
  - cbn [exact_tree] in He. cbn [of_ftree]. destruct (zlen o - 1 <? len); [reflexivity|]. destruct (last_z o) as [x|e]; [|reflexivity]. cbn [bind].
    rewrite (IHt x He). reflexivity.
  - cbn [exact_tree] in He. apply andb_true_iff in He as [H1 H2]. cbn [of_ftree]. replace (zlen s) with len by lia. rewrite (IHt _ H2). reflexivity.
  - cbn [exact_tree] in He. cbn [of_ftree]. rewrite (IHt _ He). reflexivity.
  - cbn [exact_tree] in He. cbn [of_ftree]. rewrite (IHt _ He). reflexivity.
  - cbn [exact_tree] in He. cbn [of_ftree]. rewrite (IHt _ He). reflexivity.
  - cbn [exact_tree] in He. apply andb_true_iff in He as [H1 H2]. cbn [of_ftree]. replace (zlen m) with len by lia. rewrite (IHt _ H2). reflexivity.
  - cbn [exact_tree] in He. cbn [of_ftree]. rewrite (IHt _ He). reflexivity.
  - cbn [exact_tree] in He. cbn [of_ftree]. rewrite (IHt _ He). reflexivity.
  - rewrite exact_tree_Union in He. apply andb_true_iff in He as [H1 H2]. rewrite !of_ftree_Union. cbv zeta.
    replace (zlen tg) with len by lia.
    assert (E : forall tg' ix' i, exact_un tg' ix' ts i = true -> of_all_un false tg' ix' ts i = of_all_un true tg' ix' ts i).
    { clear - H. intros tg' ix'. induction H as [|x xs Hx _ IH]; intros i He; [reflexivity|]. cbn [exact_un] in He.
      apply andb_true_iff in He as [E1 E2]. cbn [of_all_un]. rewrite (Hx _ E1), (IH _ E2). reflexivity. }
    rewrite (E _ _ 0 H2). reflexivity.
  - rewrite exact_tree_Record in He. rewrite !of_ftree_Record.
    assert (E : of_all_rec false ts len = of_all_rec true ts len).
    { clear - H He. induction H as [|x xs Hx _ IH]; [reflexivity|]. cbn [forallb] in He. apply andb_true_iff in He as [E1 E2].
      cbn [of_all_rec]. rewrite (Hx _ E1), (IH E2). reflexivity. }
    rewrite E. reflexivity.
  - cbn [exact_tree] in He. cbn [of_ftree]. rewrite (IHt _ He). reflexivity.
Qed.

(** on such trees the pinned from_buffers IS the repaired one *)
Theorem pinned_is_fixed_when_exact_thm c :
  exact_tree (to_ftree c None) (clen c) = true -> from_buffers (to_buffers c) = from_buffers_gen true (to_buffers c).
Proof. intros He. unfold from_buffers. rewrite !from_buffers_is_of_ftree. apply of_ftree_agree. exact He. Qed.

(** hence the pinned round trip holds on them: any node class over any content (records below masks, below
    ListArrays, below unions), as long as no such node is asked for less than it keeps *)
Theorem buffers_roundtrip_exact_partial_thm c :
  Valid None c -> offs_in c = true -> chars_ok c = true -> exact_tree (to_ftree c None) (clen c) = true ->
  exists c', from_buffers (to_buffers c) = Ok c' /\ to_list c' = to_list c /\ type_of c' = type_of c /\ clen c' = clen c.
Proof.
  intros HV Ho Hch He. rewrite (pinned_is_fixed_when_exact_thm c He). exact (buffers_roundtrip_fixed_partial_thm c HV Ho Hch).
Qed.

(* outside fragG false (records below ByteMasked, ListArray, Union; a sliced BitMasked over a record), yet exact:
   the mask is shorter than the record (unreachable rows), the strings have unreachable characters *)
Example buffers_roundtrip_exact_ex :
  let str := Par (Some AString) None (ListOffset I64 [1; 3; 3; 4; 6] (Par (Some AChar) None (Numpy DUInt8 [7] [DZ 0; DZ 104; DZ 105; DZ 33; DZ 97; DZ 0; DZ 9]))) in
  let rec := Record [N5; Unmasked (Numpy DFloat64 [6] [DZ 1; DZ 2; DZ 3; DZ 4; DZ 5; DNaN])] (Some [[120]; [121]]) 5 in
  let c := Record [ByteMasked [1; 0; 1] true rec;
                   ListA I64 [3; 0; 3] [5; 2; 3] rec;
                   Union I32 [0; 1; 0] [4; 2; 0] [rec; str];
                   BitMasked [5] true true 3 (Record [N5] None 4)]
                  (Some [[97]; [98]; [99]; [100]]) 3 in
  validb None c = true /\ fragG false false c = false /\ offs_in c = true /\ chars_ok c = true /\
  exact_tree (to_ftree c None) (clen c) = true /\
  exists c', from_buffers (to_buffers c) = Ok c' /\ to_list c' = to_list c /\ c' <> c /\ exists vs, to_list c = Ok vs.
Proof.
  cbv zeta. split; [vm_compute; reflexivity|]. split; [vm_compute; reflexivity|]. split; [vm_compute; reflexivity|].
  split; [vm_compute; reflexivity|]. split; [vm_compute; reflexivity|].
  eexists. split; [vm_compute; reflexivity|]. split; [vm_compute; reflexivity|]. split; [discriminate|].
  eexists. vm_compute. reflexivity.
Qed.

(* the wider fragments are inhabited beyond frag16 *)
Example buffers_roundtrip_partial2_ex :
  (* zero-size items, a BitMaskedArray over a record where it is not sliced, lists of them, option, record *)
  let c := Record [ListOffset I64 [0; 2; 2; 3] (Numpy DInt64 [4; 0; 2] []);
                   ListOffset I32 [1; 1; 3; 4] (BitMasked [29] true true 5 R5);
                   Regular (BitMasked [80] false false 4 (Record [N5; Regular N5 0 9] None 5)) 1 0]
                  None 3 in
  validb None c = true /\ frag16 c = false /\ fragG false false c = true /\ chars_ok c = true /\
  exists c', from_buffers (to_buffers c) = Ok c' /\ to_list c' = to_list c /\ c' <> c /\ exists vs, to_list c = Ok vs.
Proof.
  cbv zeta. split; [vm_compute; reflexivity|]. split; [vm_compute; reflexivity|]. split; [vm_compute; reflexivity|].
  split; [vm_compute; reflexivity|].
  eexists. split; [vm_compute; reflexivity|]. split; [vm_compute; reflexivity|]. split; [discriminate|].
  eexists. vm_compute. reflexivity.
Qed.
Example buffers_roundtrip_fixed_ex2 :
  (* every excluded shape of the pinned code at once, under the repair *)
  let c := Record [ListOffset I64 [0; 1; 1] (ListA I64 [0; 3] [2; 5] R5);
                   Regular (ByteMasked [1; 1; 0; 1; 1] true R5) 2 0;
                   ListOffset I64 [0; 1; 1] (Union I64 [0; 1; 0] [0; 0; 4] [R5; Numpy DBool [1] [DZ 1]]);
                   ListOffset I64 [0; 2; 2] (Record [BitMasked [27] true true 5 R5] (Some [[121]]) 4);
                   ListOffset I64 [0; 2; 2] (ByteMasked [1; 1; 1] true (Numpy DInt64 [3; 0] []))]
                  (Some [[97]; [98]; [99]; [100]; [101]]) 2 in
  validb None c = true /\ fragG false false c = false /\ offs_in c = true /\ chars_ok c = true /\
  from_buffers (to_buffers c) = Err EValue /\
  exists c', from_buffers_gen true (to_buffers c) = Ok c' /\ to_list c' = to_list c /\ exists vs, to_list c = Ok vs.
Proof.
  cbv zeta. split; [vm_compute; reflexivity|]. split; [vm_compute; reflexivity|]. split; [vm_compute; reflexivity|].
  split; [vm_compute; reflexivity|]. split; [vm_compute; reflexivity|].
  eexists. split; [vm_compute; reflexivity|]. split; [vm_compute; reflexivity|].
  eexists. vm_compute. reflexivity.
Qed.
