(** Proofs_C13h6.v -- k_safe for awkward_NumpyArray_contiguous_copy_from_many (model of Kernels2.v): [len] elements of
    [stride] bytes are gathered from the rows of [fromptrs]; row k provides fromlens[k] >= 1 elements at the byte positions
    pos[0 .. fromlens[k]) (the counter j restarts at 0 for every row). *)
From Coq Require Import ZArith List Bool Lia ZifyBool.
From AwkV Require Import Base.
From AwkKernels Require Import Kernels KLemmas Proofs_C13 Proofs_C13b Proofs_C13c Proofs_C13d.
From AwkKernels Require Export Kernels2.
From AwkKernels Require Import Proofs_C13e Proofs_C13f Proofs_C13g Proofs_C13h Proofs_C13h2 Proofs_C13h3.
Import ListNotations.
Open Scope Z_scope.

Ltac Zify.zify_post_hook ::= Z.to_euclidean_division_equations.

Theorem NumpyArray_contiguous_copy_from_many_safe toptr fromptrs fromlens len stride pos :
  0 <= stride -> len * stride <= zlen toptr -> zlen fromlens = zlen fromptrs ->
  (forall k, 0 <= k < zlen fromptrs -> 1 <= at_ fromlens k <= zlen pos /\
     forall j, 0 <= j < at_ fromlens k -> 0 <= at_ pos j /\ at_ pos j + stride <= zlen (nth (Z.to_nat k) fromptrs [])) ->
  len <= psum (at_ fromlens) (Z.to_nat (zlen fromptrs)) ->
  NumpyArray_contiguous_copy_from_many toptr fromptrs fromlens len stride pos <> KOob.
Proof.
  intros H0 H1 H2 Hr Hl. unfold NumpyArray_contiguous_copy_from_many. apply (np_noob _ (fun _ => True)).
  set (nr := zlen fromptrs) in *. pose proof (zlen_nonneg fromptrs) as Nr. fold nr in Nr.
  apply np_bind_kfor with
    (P := fun i (st : list Z * Z * Z) => let '(out, k, j) := st in
            zlen out = zlen toptr /\ 0 <= k <= nr /\ 0 <= j /\ (k = nr -> j = 0) /\ (k < nr -> j < at_ fromlens k) /\
            i = psum (at_ fromlens) (Z.to_nat k) + j).
  - cbn [psum]. repeat split; try lia. intros K. destruct (Hr 0); lia.
  - intros i [[out k] j] Hi (L & K & J & J0 & J1 & I). red_st.
    assert (Kn : k < nr) by (destruct (Z.eq_dec k nr); [specialize (J0 e); subst; lia|lia]).
    destruct (Hr k) as (F1 & F2); [lia|]. destruct (F2 j) as (P1 & P2); [lia|].
    pose proof (psum_S (at_ fromlens) k (proj1 K)) as PS.
    apply np_bind_krow; [lia|]. np_auto.
    eapply np_bind.
    + apply (np_kfor_c _ (fun o => zlen o = zlen toptr)); auto. intros b o Hb Lo.
      assert (0 <= i * stride + b < zlen toptr) by nia. np_auto. now rewrite zlen_set_nth.
    + intros out' Lo. cbv beta in Lo. np_auto; red_st; repeat split; try lia.
      intros K1. destruct (Hr (k + 1)); lia.
  - intros [[out k] j] _. red_st. now apply np_ret.
Qed.

Example NumpyArray_contiguous_copy_from_many_example :
  NumpyArray_contiguous_copy_from_many [9;9;9;9;9;9] [[1;2;3;4]; [5;6;7;8]] [2; 1] 3 2 [0; 2] = KOk [1;2;3;4;5;6].
Proof. vm_compute. reflexivity. Qed.
