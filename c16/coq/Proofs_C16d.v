(** C16 proofs, part 5: NumPy (from_numpy / to_numpy on rectilinear and masked data) and the two Arrow buffer steps. *)
From Coq Require Import ZArith List Bool Lia ZifyBool.
From AwkV Require Import Base Layout LayoutInd Valid Types Proofs_Lists Proofs_C11 Proofs_Typing Proofs_ToList.
From AwkBuffers Require Import Buffers Proofs_C16 Proofs_C16b.
Import ListNotations.
Open Scope Z_scope.

(* a well-formed ndarray: at least one dimension, inner dimensions positive, data and mask of the right size *)
Definition wf_nd (x : ndarr) : Prop :=
  match nd_shape x with
  | [] => False
  | n :: dims =>
      0 <= n /\ Forall (fun d => 0 < d) dims /\ zlen (nd_data x) = prodZ (nd_shape x) /\
      match nd_mask x with None => True | Some m => length m = length (nd_data x) end
  end.

Lemma prodZ_pos dims : Forall (fun d => 0 < d) dims -> 0 < prodZ dims.
Proof. induction 1 as [|d ds Hd _ IH]; [reflexivity|]. rewrite prodZ_cons. nia. Qed.
Lemma existsb_neg_pos n dims : 0 <= n -> Forall (fun d => 0 < d) dims -> existsb (fun d => d <? 0) (n :: dims) = false.
Proof.
  intros Hn HF. apply Forall_nonneg_existsb. constructor; [exact Hn|]. eapply Forall_impl; [|exact HF]. cbn. intros; lia.
Qed.

(* ---------------------------------------------------------------- to_numpy of a RegularArray chain *)
Lemma to_numpy_chain am : forall dims count leaf dt data mask,
  Forall (fun d => 0 < d) dims -> 0 <= count ->
  to_numpy_model am leaf = Ok (mk_nd dt [count * prodZ dims] data mask) ->
  zlen data = count * prodZ dims -> (forall m, mask = Some m -> zlen m = count * prodZ dims) ->
  to_numpy_model am (regular_chain dims count leaf) = Ok (mk_nd dt (count :: dims) data mask).
Proof.
  induction dims as [|d ds IH]; intros count leaf dt data mask HF Hc Hleaf Hz Hm.
  - cbn [regular_chain]. rewrite Hleaf. unfold prodZ. cbn [fold_right]. rewrite Z.mul_1_r. reflexivity.
  - inversion HF as [|? ? Hd HF']; subst. cbn [regular_chain to_numpy_model].
    rewrite prodZ_cons in *. pose proof (prodZ_pos ds HF') as Hp.
    rewrite (IH (count * d) leaf dt data mask HF' ltac:(nia)); [| | |].
    + cbn [bind nd_shape nd_dt nd_data nd_mask]. replace (d <? 0) with false by lia. replace (d =? 0) with false by lia.
      rewrite Z.div_mul by lia. f_equal. f_equal.
      * apply take_all. nia.
      * destruct mask as [m|]; [|reflexivity]. f_equal. apply take_all. rewrite (Hm m eq_refl). nia.
    + rewrite Hleaf. f_equal. f_equal. f_equal. lia.
    + lia.
    + intros m E. rewrite (Hm m E). lia.
Qed.

(* ---------------------------------------------------------------- masks *)
Lemma miss_bool_mask m : map (fun b => negb (Bool.eqb (negb (b =? 0)) false)) (bool_mask m) = m.
Proof. unfold bool_mask. rewrite map_map. induction m as [|b m IH]; [reflexivity|]. cbn [map]. rewrite IH. destruct b; reflexivity. Qed.
Lemma zlen_bool_mask m : zlen (bool_mask m) = zlen m.
Proof. unfold bool_mask. apply zlen_map. Qed.
Lemma or_mask_no_mask {A} m (data : list A) : length m = length data -> or_mask m (no_mask data) = m.
Proof.
  unfold or_mask, no_mask. revert data. induction m as [|b m IH]; intros [|x data] H; try discriminate H; [reflexivity|].
  cbn [map zip fst snd]. rewrite (IH data) by (cbn in H; lia). rewrite orb_false_r. reflexivity.
Qed.
Lemma any_true_false_no_mask {A} m (data : list A) : any_true m = false -> length m = length data -> m = no_mask data.
Proof.
  unfold any_true, no_mask. revert data. induction m as [|b m IH]; intros [|x data] E H; try discriminate H; [reflexivity|].
  cbn [existsb] in E. apply orb_false_iff in E as [-> E]. cbn [map]. f_equal. apply IH; [exact E|cbn in H; lia].
Qed.

(* leaves of a masked result *)
Lemma leaves_blank dt m data : length m = length data ->
  nd_leaves (mk_nd dt [zlen m] (blank m data) (Some m)) = nd_leaves (mk_nd dt [zlen m] data (Some m)).
Proof.
  unfold nd_leaves, blank. cbn [nd_mask nd_data nd_dt]. revert data. induction m as [|b m IH]; intros [|x data] H; try discriminate H; [reflexivity|].
  cbn [zip map fst snd]. rewrite (IH data) by (cbn in H; lia). destruct b; reflexivity.
Qed.
Lemma leaves_no_mask dt sh sh' data : nd_leaves (mk_nd dt sh data (Some (no_mask data))) = nd_leaves (mk_nd dt sh' data None).
Proof.
  unfold nd_leaves, no_mask. cbn [nd_mask nd_data nd_dt]. induction data as [|x data IH]; [reflexivity|].
  cbn [map zip fst snd]. rewrite IH. reflexivity.
Qed.

(** to_numpy inverts from_numpy on rectilinear and masked data (up to the data hidden under the mask). *)
Theorem numpy_roundtrip_thm ra x : wf_nd x ->
  exists y, to_numpy_model true (from_numpy_model ra x) = Ok y /\ nd_equiv y x.
Proof.
  destruct x as [dt shape data mask]. unfold wf_nd, from_numpy_model. cbn [nd_shape nd_data nd_mask nd_dt].
  destruct shape as [|n dims]; [intros []|]. intros (Hn & HF & Hz & Hm).
  pose proof (prodZ_pos dims HF) as Hp. rewrite prodZ_cons in Hz.
  assert (HP : prodZ (n :: dims) = n * prodZ dims) by apply prodZ_cons.
  destruct mask as [m|].
  - (* masked: RegularArray chain over ByteMaskedArray(valid_when = false) over the flat data *)
    assert (Hzm : zlen m = n * prodZ dims) by (unfold zlen in *; lia).
    assert (Hleaf : exists mk d', to_numpy_model true (ByteMasked (bool_mask m) false (Numpy dt [prodZ (n :: dims)] data)) =
                                  Ok (mk_nd dt [n * prodZ dims] d' (Some mk)) /\ zlen d' = n * prodZ dims /\ zlen mk = n * prodZ dims /\
                                  nd_leaves (mk_nd dt [zlen m] d' (Some mk)) = nd_leaves (mk_nd dt [zlen m] data (Some m))).
    { assert (E1 : forall z, prodZ [z] = z) by (intros z; unfold prodZ; cbn [fold_right]; lia).
      cbn [to_numpy_model]. cbn [existsb]. rewrite HP, !E1. replace (n * prodZ dims <? 0) with false by nia. cbn [orb].
      replace (zlen data <? n * prodZ dims) with false by lia.
      cbn [bind nd_shape nd_dt nd_data nd_mask]. rewrite zlen_bool_mask, Hzm. replace (n * prodZ dims <? n * prodZ dims) with false by lia.
      rewrite miss_bool_mask. rewrite !take_all by lia. unfold masked_result.
      destruct (any_true m) eqn:Ea.
      - rewrite (or_mask_no_mask m data Hm). rewrite Hzm. exists m, (blank m data). split; [reflexivity|].
        split; [unfold blank; rewrite zlen_map, zlen_zip; lia|]. split; [exact Hzm|]. rewrite <- Hzm. apply leaves_blank. exact Hm.
      - rewrite Hzm. exists (no_mask data), data. split; [reflexivity|]. split; [lia|]. split; [unfold no_mask; rewrite zlen_map; lia|].
        rewrite (any_true_false_no_mask m data Ea Hm). reflexivity. }
    destruct Hleaf as (mk & d' & Hleaf & Hzd & Hzmk & Hlv).
    eexists. split.
    + apply to_numpy_chain; [exact HF|exact Hn|exact Hleaf|exact Hzd|]. intros m0 E. injection E as <-. exact Hzmk.
    + unfold nd_equiv. cbn [nd_shape nd_dt]. split; [reflexivity|]. split; [reflexivity|].
      unfold nd_leaves in *. cbn [nd_mask nd_data nd_dt] in *. exact Hlv.
  - destruct ra.
    + eexists. split.
      * apply to_numpy_chain with (mask := None); [exact HF|exact Hn| |exact Hz|discriminate].
        assert (E1 : forall z, prodZ [z] = z) by (intros z; unfold prodZ; cbn [fold_right]; lia).
        cbn [to_numpy_model existsb]. rewrite HP, !E1. replace (n * prodZ dims <? 0) with false by nia. cbn [orb].
        replace (zlen data <? n * prodZ dims) with false by lia.
        rewrite take_all by lia. reflexivity.
      * unfold nd_equiv. auto.
    + eexists. split.
      * cbn [to_numpy_model]. rewrite (existsb_neg_pos n dims Hn HF). rewrite HP. replace (zlen data <? n * prodZ dims) with false by lia.
        rewrite take_all by lia. reflexivity.
      * unfold nd_equiv. auto.
Qed.
