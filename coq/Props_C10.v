(** C10 property theorems (proofs in Proofs_C10.v). *)
From AwkV Require Import Layout Ops_Getitem Proofs_C10.

Theorem field_commutes_with_integer : forall k t l l' i x,
  mapM (proj_v k t) l = Ok l' -> get l i = Ok x ->
  exists y, proj_v k t x = Ok y /\ get l' i = Ok y.
Proof. exact field_commutes_with_integer_index. Qed.
Print Assumptions field_commutes_with_integer.

Theorem field_commutes_with_positional : forall k t l l' ix xs,
  mapM (proj_v k t) l = Ok l' -> mapM (get l) ix = Ok xs ->
  exists ys, mapM (proj_v k t) xs = Ok ys /\ mapM (get l') ix = Ok ys.
Proof. exact field_commutes_with_positional_selection. Qed.
Print Assumptions field_commutes_with_positional.

Theorem projection_keeps_list_structure : forall k sz t l,
  proj_v k (TList sz None t) (VList l) = rmap VList (mapM (proj_v k t) l).
Proof. exact field_through_lists. Qed.
Print Assumptions projection_keeps_list_structure.

Theorem projection_keeps_none : forall k t, proj_v k (TOpt t) VNone = Ok VNone.
Proof. exact field_through_option. Qed.
Print Assumptions projection_keeps_none.

Theorem record_to_value_order : forall ks cols i v,
  row (Some ks) cols i = Ok v -> exists vs, v = VRec (zip ks vs) /\ map fst (zip ks vs) = ks.
Proof. exact record_fields_in_declaration_order. Qed.
Print Assumptions record_to_value_order.

Theorem unnamed_fields_give_tuples : forall cols i v, row None cols i = Ok v -> exists vs, v = VTup vs.
Proof. exact unnamed_records_are_tuples. Qed.
Print Assumptions unnamed_fields_give_tuples.

(* ---- refinement of field projection: [field_content] (item IField of getitem, the field operation) computes
        exactly [proj_ty] / [proj_v] -- for EVERY valid layout (unions, strings, n-d leaves included), through
        every wrapper node, positional fall-back of [field_pos] included; values and error status ---- *)
From AwkV Require Import Valid Types Carry AtAxis Proofs_AtAxis Proofs_Field.

Theorem field_refines_spec : forall k c vs,
  Valid None c -> to_list c = Ok vs ->
  obs (field_content k c) = (do _ <- proj_ty k (type_of c); mapM (proj_v k (type_of c)) vs).
Proof. exact Proofs_Field.field_refines_spec. Qed.
Print Assumptions field_refines_spec.

(* the only failure is "no such field": never an out-of-bounds access, never fuel *)
Theorem field_fails_only_for_missing_field : forall k c vs e,
  Valid None c -> to_list c = Ok vs -> field_content k c = Err e -> e = EValue /\ proj_ty k (type_of c) = Err EValue.
Proof. exact field_error_is_value_error. Qed.
Print Assumptions field_fails_only_for_missing_field.

(* where the projected type exists, the projection of the array's own values never fails *)
Theorem field_succeeds_when_typed : forall k c vs t',
  Valid None c -> to_list c = Ok vs -> proj_ty k (type_of c) = Ok t' ->
  exists c' ws, field_content k c = Ok c' /\ to_list c' = Ok ws /\ mapM (proj_v k (type_of c)) vs = Ok ws.
Proof. exact field_ok_when_typed. Qed.
Print Assumptions field_succeeds_when_typed.
