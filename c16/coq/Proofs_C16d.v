(** C16 proofs, part 5: NumPy (from_numpy / to_numpy on rectilinear and masked data) and the two Arrow buffer steps. *)
From Coq Require Import ZArith List Bool Lia ZifyBool.
From AwkV Require Import Base Layout LayoutInd Valid Types Proofs_Lists Proofs_C11 Proofs_Typing Proofs_ToList.
From AwkBuffers Require Import Buffers Proofs_C16 Proofs_C16b.
Import ListNotations.
Open Scope Z_scope.

(* a well-formed ndarray: at least one dimension, inner dimensions positive, data and mask of the right size *)
Definition wf_nd (x : ndarr) : Prop :=
  match nd_shape x with
  | [] => False
  | n :: dims =>
      0 <= n /\ Forall (fun d => 0 < d) dims /\ zlen (nd_data x) = prodZ (nd_shape x) /\
      match nd_mask x with None => True | Some m => length m = length (nd_data x) end
  end.

Lemma prodZ_pos dims : Forall (fun d => 0 < d) dims -> 0 < prodZ dims.
Proof. induction 1 as [|d ds Hd _ IH]; [reflexivity|]. rewrite prodZ_cons. nia. Qed.
Lemma existsb_neg_pos n dims : 0 <= n -> Forall (fun d => 0 < d) dims -> existsb (fun d => d <? 0) (n :: dims) = false.
Proof.
  intros Hn HF. apply Forall_nonneg_existsb. constructor; [exact Hn|]. eapply Forall_impl; [|exact HF]. cbn. intros; lia.
Qed.

(* ---------------------------------------------------------------- to_numpy of a RegularArray chain *)
Lemma to_numpy_chain am : forall dims count leaf dt data mask,
  Forall (fun d => 0 < d) dims -> 0 <= count ->
  to_numpy_model am leaf = Ok (mk_nd dt [count * prodZ dims] data mask) ->
  zlen data = count * prodZ dims -> (forall m, mask = Some m -> zlen m = count * prodZ dims) ->
  to_numpy_model am (regular_chain dims count leaf) = Ok (mk_nd dt (count :: dims) data mask).
Proof.
  induction dims as [|d ds IH]; intros count leaf dt data mask HF Hc Hleaf Hz Hm.
  - cbn [regular_chain]. rewrite Hleaf. unfold prodZ. cbn [fold_right]. rewrite Z.mul_1_r. reflexivity.
  - inversion HF as [|? ? Hd HF']; subst. cbn [regular_chain to_numpy_model].
    rewrite prodZ_cons in *. pose proof (prodZ_pos ds HF') as Hp.
    rewrite (IH (count * d) leaf dt data mask HF' ltac:(nia)); [| | |].
    + cbn [bind nd_shape nd_dt nd_data nd_mask]. replace (d <? 0) with false by lia. replace (d =? 0) with false by lia.
      rewrite Z.div_mul by lia. f_equal. f_equal.
      * apply take_all. nia.
      * destruct mask as [m|]; [|reflexivity]. f_equal. apply take_all. rewrite (Hm m eq_refl). nia.
    + rewrite Hleaf. f_equal. f_equal. f_equal. lia.
    + lia.
    + intros m E. rewrite (Hm m E). lia.
Qed.

(* ---------------------------------------------------------------- masks *)
Lemma miss_bool_mask m : map (fun b => negb (Bool.eqb (negb (b =? 0)) false)) (bool_mask m) = m.
Proof. unfold bool_mask. rewrite map_map. induction m as [|b m IH]; [reflexivity|]. cbn [map]. rewrite IH. destruct b; reflexivity. Qed.
Lemma zlen_bool_mask m : zlen (bool_mask m) = zlen m.
Proof. unfold bool_mask. apply zlen_map. Qed.
Lemma or_mask_no_mask {A} m (data : list A) : length m = length data -> or_mask m (no_mask data) = m.
Proof.
  unfold or_mask, no_mask. revert data. induction m as [|b m IH]; intros [|x data] H; try discriminate H; [reflexivity|].
  cbn [map zip fst snd]. rewrite (IH data) by (cbn in H; lia). rewrite orb_false_r. reflexivity.
Qed.
Lemma any_true_false_no_mask {A} m (data : list A) : any_true m = false -> length m = length data -> m = no_mask data.
Proof.
  unfold any_true, no_mask. revert data. induction m as [|b m IH]; intros [|x data] E H; try discriminate H; [reflexivity|].
  cbn [existsb] in E. apply orb_false_iff in E as [-> E]. cbn [map]. f_equal. apply IH; [exact E|cbn in H; lia].
Qed.

(* leaves of a masked result *)
Lemma leaves_blank dt m data : length m = length data ->
  nd_leaves (mk_nd dt [zlen m] (blank m data) (Some m)) = nd_leaves (mk_nd dt [zlen m] data (Some m)).
Proof.
  unfold nd_leaves, blank. cbn [nd_mask nd_data nd_dt]. revert data. induction m as [|b m IH]; intros [|x data] H; try discriminate H; [reflexivity|].
  cbn [zip map fst snd]. rewrite (IH data) by (cbn in H; lia). destruct b; reflexivity.
Qed.
Lemma leaves_no_mask dt sh sh' data : nd_leaves (mk_nd dt sh data (Some (no_mask data))) = nd_leaves (mk_nd dt sh' data None).
Proof.
  unfold nd_leaves, no_mask. cbn [nd_mask nd_data nd_dt]. induction data as [|x data IH]; [reflexivity|].
  cbn [map zip fst snd]. rewrite IH. reflexivity.
Qed.

(** to_numpy inverts from_numpy on rectilinear and masked data (up to the data hidden under the mask). *)
Theorem numpy_roundtrip_thm ra x : wf_nd x ->
  exists y, to_numpy_model true (from_numpy_model ra x) = Ok y /\ nd_equiv y x.
Proof.
  destruct x as [dt shape data mask]. unfold wf_nd, from_numpy_model. cbn [nd_shape nd_data nd_mask nd_dt].
  destruct shape as [|n dims]; [intros []|]. intros (Hn & HF & Hz & Hm).
  pose proof (prodZ_pos dims HF) as Hp. rewrite prodZ_cons in Hz.
  assert (HP : prodZ (n :: dims) = n * prodZ dims) by apply prodZ_cons.
  destruct mask as [m|].
  - (* masked: RegularArray chain over ByteMaskedArray(valid_when = false) over the flat data *)
    assert (Hzm : zlen m = n * prodZ dims) by (unfold zlen in *; lia).
    assert (Hleaf : exists mk d', to_numpy_model true (ByteMasked (bool_mask m) false (Numpy dt [prodZ (n :: dims)] data)) =
                                  Ok (mk_nd dt [n * prodZ dims] d' (Some mk)) /\ zlen d' = n * prodZ dims /\ zlen mk = n * prodZ dims /\
                                  nd_leaves (mk_nd dt [zlen m] d' (Some mk)) = nd_leaves (mk_nd dt [zlen m] data (Some m))).
    { assert (E1 : forall z, prodZ [z] = z) by (intros z; unfold prodZ; cbn [fold_right]; lia).
      cbn [to_numpy_model]. cbn [existsb]. rewrite HP, !E1. replace (n * prodZ dims <? 0) with false by nia. cbn [orb].
      replace (zlen data <? n * prodZ dims) with false by lia.
      cbn [bind nd_shape nd_dt nd_data nd_mask]. rewrite zlen_bool_mask, Hzm. replace (n * prodZ dims <? n * prodZ dims) with false by lia.
      rewrite miss_bool_mask. rewrite (take_all data) by lia. rewrite (take_all data) by lia. unfold masked_result.
      destruct (any_true m) eqn:Ea.
      - rewrite (or_mask_no_mask m data Hm). rewrite Hzm. exists m, (blank m data). split; [reflexivity|].
        split; [unfold blank; rewrite zlen_map, zlen_zip; lia|]. split; [exact Hzm|]. rewrite <- Hzm. apply leaves_blank. exact Hm.
      - rewrite Hzm. exists (no_mask data), data. split; [reflexivity|]. split; [lia|]. split; [unfold no_mask; rewrite zlen_map; lia|].
        rewrite (any_true_false_no_mask m data Ea Hm). reflexivity. }
    destruct Hleaf as (mk & d' & Hleaf & Hzd & Hzmk & Hlv).
    eexists. split.
    + apply to_numpy_chain; [exact HF|exact Hn|exact Hleaf|exact Hzd|]. intros m0 E. injection E as <-. exact Hzmk.
    + unfold nd_equiv. cbn [nd_shape nd_dt]. split; [reflexivity|]. split; [reflexivity|].
      unfold nd_leaves in *. cbn [nd_mask nd_data nd_dt] in *. exact Hlv.
  - destruct ra.
    + eexists. split.
      * apply to_numpy_chain with (mask := None); [exact HF|exact Hn| |exact Hz|discriminate].
        assert (E1 : forall z, prodZ [z] = z) by (intros z; unfold prodZ; cbn [fold_right]; lia).
        cbn [to_numpy_model existsb]. rewrite HP, !E1. replace (n * prodZ dims <? 0) with false by nia. cbn [orb].
        replace (zlen data <? n * prodZ dims) with false by lia.
        rewrite take_all by lia. reflexivity.
      * unfold nd_equiv. auto.
    + eexists. split.
      * cbn [to_numpy_model]. rewrite (existsb_neg_pos n dims Hn HF). rewrite HP. replace (zlen data <? n * prodZ dims) with false by lia.
        rewrite take_all by lia. reflexivity.
      * unfold nd_equiv. auto.
Qed.

(* ---------------------------------------------------------------- the value of what from_numpy builds *)
Lemma to_list_chain : forall dims count leaf L, to_list leaf = Ok L ->
  to_list (regular_chain dims count leaf) = nest dims count L.
Proof.
  induction dims as [|d ds IH]; intros count leaf L HL; [exact HL|].
  cbn [regular_chain nest]. rewrite to_list_Regular, (IH (count * d) leaf L HL).
  destruct (nest ds (count * d) L) as [inner|e]; [|reflexivity]. cbn [bind].
  destruct (chunks inner d count); reflexivity.
Qed.

Lemma to_list_flat dt P data : 0 <= P -> zlen data = P -> to_list (Numpy dt [P] data) = Ok (map (leaf dt) data).
Proof.
  intros HP Hz. rewrite to_list_Numpy. cbn [existsb]. replace (P <? 0) with false by lia. cbn [orb].
  assert (E1 : prodZ [P] = P) by (unfold prodZ; cbn [fold_right]; lia). rewrite E1.
  replace (zlen data <? P) with false by lia. cbn [nest]. rewrite take_all by lia. reflexivity.
Qed.

Lemma bm_leaves dt : forall m data pre, length m = length data ->
  mapM (fun im : Z * Z => let (i, b) := im in pick_opt (pre ++ map (leaf dt) data) (Bool.eqb (negb (b =? 0)) false) i)
       (zip (iota_nat (zlen pre) (length m)) (bool_mask m)) =
  Ok (map (fun p : bool * datum => if fst p then VNone else leaf dt (snd p)) (zip m data)).
Proof.
  induction m as [|b m IH]; intros [|x data] pre H; try discriminate H; [reflexivity|].
  cbn [length iota_nat bool_mask map zip mapM fst snd].
  assert (Hhead : pick_opt (pre ++ leaf dt x :: map (leaf dt) data) (Bool.eqb (negb ((if b then 1 else 0) =? 0)) false) (zlen pre) =
                  Ok (if b then VNone else leaf dt x)).
  { destruct b; cbn; [reflexivity|]. rewrite get_app2 by lia. rewrite Z.sub_diag. apply get_cons_0. }
  rewrite Hhead. cbn [bind].
  specialize (IH data (pre ++ [leaf dt x]) ltac:(cbn in H; lia)).
  rewrite <- app_assoc in IH. cbn [app] in IH. rewrite zlen_app in IH. cbn in IH. change (zlen [leaf dt x]) with 1 in IH.
  unfold bool_mask in IH. rewrite IH. reflexivity.
Qed.

Lemma to_list_masked_flat dt P data m : 0 <= P -> zlen data = P -> length m = length data ->
  to_list (ByteMasked (bool_mask m) false (Numpy dt [P] data)) =
  Ok (map (fun p : bool * datum => if fst p then VNone else leaf dt (snd p)) (zip m data)).
Proof.
  intros HP Hz Hm. rewrite to_list_ByteMasked, (to_list_flat dt P data HP Hz). cbn [bind].
  pose proof (bm_leaves dt m data [] Hm) as H. cbn [app] in H. change (zlen (@nil value)) with 0 in H.
  unfold iota. rewrite zlen_bool_mask. replace (Z.to_nat (zlen m)) with (length m) by (unfold zlen; lia). exact H.
Qed.

(** from_numpy builds a layout whose value is the array's (masked elements are None): to_numpy of such a layout agrees
    with to_list.  FULL STATEMENT of to_numpy_is_to_list (not proved): for every layout c,
    to_numpy_model am c = Ok y -> to_list c = nd_value y; it fails in the model for RegularArray of size 0 (the
    length is lost), see [to_numpy_size0_refuted]. *)
Theorem from_numpy_value_thm ra x : wf_nd x -> to_list (from_numpy_model ra x) = nd_value x.
Proof.
  destruct x as [dt shape data mask]. unfold wf_nd, from_numpy_model, nd_value, nd_leaves. cbn [nd_shape nd_data nd_mask nd_dt].
  destruct shape as [|n dims]; [intros []|]. intros (Hn & HF & Hz & Hm).
  pose proof (prodZ_pos dims HF) as Hp. assert (HP : 0 <= prodZ (n :: dims)) by (rewrite prodZ_cons; nia).
  destruct mask as [m|].
  - apply to_list_chain. apply to_list_masked_flat; assumption.
  - destruct ra.
    + apply to_list_chain. apply to_list_flat; assumption.
    + rewrite to_list_Numpy, (existsb_neg_pos n dims Hn HF). replace (zlen data <? prodZ (n :: dims)) with false by lia.
      rewrite take_all by lia. reflexivity.
Qed.

Lemma nd_equiv_value x y : nd_equiv y x -> nd_value y = nd_value x.
Proof. intros (Hs & _ & Hl). unfold nd_value. rewrite Hs, Hl. reflexivity. Qed.

Theorem to_numpy_is_to_list_partial_thm ra x y : wf_nd x ->
  to_numpy_model true (from_numpy_model ra x) = Ok y -> nd_value y = to_list (from_numpy_model ra x).
Proof.
  intros Hwf Hy. destruct (numpy_roundtrip_thm ra x Hwf) as (y' & Hy' & He). rewrite Hy in Hy'. injection Hy' as <-.
  rewrite (nd_equiv_value x y He). symmetry. apply from_numpy_value_thm. exact Hwf.
Qed.

(* and back: from_numpy(to_numpy(from_numpy x)) has the value of from_numpy x *)
Example numpy_roundtrip_ex :
  let x := mk_nd DInt16 [2; 3] [DZ 1; DZ 2; DZ 3; DZ 4; DZ 5; DZ 6] (Some [false; true; false; false; false; true]) in
  wf_nd x /\ to_list (from_numpy_model false x) = Ok [VList [VNum (DZ 1); VNone; VNum (DZ 3)]; VList [VNum (DZ 4); VNum (DZ 5); VNone]]
  /\ exists y, to_numpy_model true (from_numpy_model false x) = Ok y /\ nd_mask y = nd_mask x /\ nd_data y <> nd_data x.
Proof.
  cbv zeta. split; [cbn; repeat split; try lia; repeat constructor; lia|]. split; [vm_compute; reflexivity|].
  eexists. split; [vm_compute; reflexivity|]. split; [reflexivity|]. discriminate.
Qed.

(** the pinned to_numpy loses the length of a RegularArray of size 0: [[], [], []] becomes an array of shape (0, 0) *)
Theorem to_numpy_size0_refuted_thm :
  exists c y, Valid None c /\ to_numpy_model true c = Ok y /\ to_list c = Ok [VList []; VList []; VList []] /\ nd_value y = Ok [].
Proof.
  exists (Regular (Numpy DInt64 [0] []) 0 3). eexists.
  split; [apply validity_exact_gen; vm_compute; reflexivity|]. split; [vm_compute; reflexivity|]. split; vm_compute; reflexivity.
Qed.

(* ================================================================================================================ *)
(** Arrow: the two buffer-level steps of to_arrow *)

(* (1) offsets re-based to zero describe the same lists *)
Lemma cut_ne_d {A} (vs : list A) o : o <> [] -> cut vs o = mapM (cut1 vs) (pairs o).
Proof. destruct o; [congruence|reflexivity]. Qed.
Lemma drop_drop_d {A} (l : list A) a b : 0 <= a -> 0 <= b -> drop a (drop b l) = drop (b + a) l.
Proof.
  intros Ha Hb. unfold drop. replace (Z.to_nat (b + a)) with (Z.to_nat b + Z.to_nat a)%nat by lia.
  generalize (Z.to_nat a) (Z.to_nat b). clear. intros n m. revert l. induction m as [|m IH]; intros l; [reflexivity|].
  destruct l as [|x l]; [destruct n; reflexivity|]. cbn [skipn Nat.add]. apply IH.
Qed.
Lemma cut1_shift {A} (vs : list A) o0 a b : 0 <= o0 -> (a = b \/ o0 <= a) ->
  cut1 (drop o0 vs) (a - o0, b - o0) = cut1 vs (a, b).
Proof.
  intros H0 Hab. unfold cut1. replace (a - o0 =? b - o0) with (a =? b) by lia. destruct (a =? b) eqn:E; [reflexivity|].
  assert (Ha : o0 <= a) by lia. unfold slice.
  assert (Hz : zlen (drop o0 vs) = Z.max 0 (zlen vs - o0)) by (unfold drop, zlen; rewrite skipn_length; lia).
  destruct ((0 <=? a) && (a <=? b) && (b <=? zlen vs)) eqn:E1.
  - replace ((0 <=? a - o0) && (a - o0 <=? b - o0) && (b - o0 <=? zlen (drop o0 vs))) with true by lia.
    f_equal. replace (b - o0 - (a - o0)) with (b - a) by lia. f_equal. rewrite drop_drop_d by lia. f_equal. lia.
  - replace ((0 <=? a - o0) && (a - o0 <=? b - o0) && (b - o0 <=? zlen (drop o0 vs))) with false by lia. reflexivity.
Qed.
Lemma pairs_map_sub o o0 : pairs (map (fun x => x - o0) o) = map (fun ab : Z * Z => (fst ab - o0, snd ab - o0)) (pairs o).
Proof.
  induction o as [|a o IH]; [reflexivity|]. destruct o as [|b o]; [reflexivity|].
  change (map (fun x => x - o0) (a :: b :: o)) with ((a - o0) :: map (fun x => x - o0) (b :: o)).
  change (pairs (a :: b :: o)) with ((a, b) :: pairs (b :: o)). cbn [map fst snd]. rewrite <- IH. reflexivity.
Qed.

(** The lists described by offsets o over a content are the lists described by the offsets re-based to zero
    (o - o[0]) over the content from o[0] on: what compact_offsets64 / toListOffsetArray64(true) hand to Arrow. *)
Theorem arrow_offsets_rebase_spec_thm (child : list value) o o0 rest :
  o = o0 :: rest -> 0 <= o0 -> Forall (fun ab : Z * Z => fst ab = snd ab \/ o0 <= fst ab) (pairs o) ->
  arrow_list (rebase o) (drop o0 child) = arrow_list o child.
Proof.
  intros Eo H0 HF. unfold arrow_list, rebase. rewrite Eo. rewrite <- Eo. f_equal.
  rewrite (cut_ne_d child o) by (rewrite Eo; discriminate).
  rewrite (cut_ne_d _ (map (fun x => x - o0) o)) by (rewrite Eo; discriminate).
  rewrite pairs_map_sub, mapM_map. apply mapM_ext_in. intros [a b] Hin. cbn [fst snd].
  rewrite Forall_forall in HF. apply cut1_shift; [exact H0|]. exact (HF (a, b) Hin).
Qed.

(* ListArray / RegularArray: compact_offsets64 + broadcast_tooffsets64 = cumulative lengths over the concatenated lists *)
Lemma cut1_zlen_d {A} (vs : list A) ab l : cut1 vs ab = Ok l -> zlen l = snd ab - fst ab.
Proof.
  destruct ab as [a b]. unfold cut1. cbn [fst snd]. destruct (a =? b) eqn:E.
  - intros H. inversion H. rewrite zlen_nil. lia.
  - apply slice_zlen.
Qed.
Lemma cuts_lens_d {A} (vs : list A) bs ls : mapM (cut1 vs) bs = Ok ls -> map (fun ab : Z * Z => snd ab - fst ab) bs = map zlen ls.
Proof.
  revert ls. induction bs as [|ab bs IH]; intros ls H; cbn [mapM] in H.
  - inversion H. reflexivity.
  - apply bind_Ok in H as (l & Hl & H). apply bind_Ok in H as (ls' & Hls' & H). inversion H; subst.
    cbn [map]. rewrite (IH _ Hls'), (cut1_zlen_d _ _ _ Hl). reflexivity.
Qed.
Lemma pairs_offsets_d a b l : pairs (a :: offsets_from b l) = (a, b) :: pairs (offsets_from b l).
Proof. destruct l; reflexivity. Qed.
Lemma cut_concat_gen_d {A} (Ls : list (list A)) : forall pre,
  mapM (cut1 (pre ++ concat Ls)) (pairs (offsets_from (zlen pre) (map zlen Ls))) = Ok Ls.
Proof.
  induction Ls as [|L Ls IH]; intros pre; cbn [map offsets_from concat]; [reflexivity|].
  rewrite pairs_offsets_d. cbn [mapM].
  assert (Hc : cut1 (pre ++ L ++ concat Ls) (zlen pre, zlen pre + zlen L) = Ok L).
  { unfold cut1. pose proof (zlen_nonneg L). pose proof (zlen_nonneg pre).
    destruct (zlen pre =? zlen pre + zlen L) eqn:E.
    - f_equal. symmetry. apply zlen_0_nil. lia.
    - rewrite slice_ok by (rewrite ?zlen_app; pose proof (zlen_nonneg (concat Ls)); lia).
      rewrite drop_app_exact by reflexivity. replace (zlen pre + zlen L - zlen pre) with (zlen L) by ring.
      rewrite take_app_exact by reflexivity. reflexivity. }
  rewrite Hc. cbn [bind]. specialize (IH (pre ++ L)). rewrite <- app_assoc, zlen_app in IH. rewrite IH. reflexivity.
Qed.

(** the lists of a ListArray (starts, stops) over a content are the lists of the zero-based cumulative offsets over
    their concatenation *)
Theorem arrow_offsets_compact_spec_thm (child : list value) s e ls :
  cut2 child s e = Ok ls -> arrow_list (compact_offsets s e) (concat ls) = Ok (map VList ls).
Proof.
  unfold cut2. destruct (zlen e <? zlen s); [discriminate|]. intros H.
  unfold arrow_list, compact_offsets. rewrite (cuts_lens_d child _ ls H).
  rewrite cut_ne_d by (destruct (map zlen ls); discriminate).
  pose proof (cut_concat_gen_d ls []) as HC. cbn [app] in HC. change (zlen (@nil value)) with 0 in HC. rewrite HC. reflexivity.
Qed.

Example arrow_offsets_ex :
  let child := [VNum (DZ 9); VNum (DZ 1); VNum (DZ 2); VNum (DZ 3)] in
  rebase [1; 3; 3; 4] = [0; 2; 2; 3] /\
  arrow_list (rebase [1; 3; 3; 4]) (drop 1 child) = arrow_list [1; 3; 3; 4] child /\
  arrow_list [1; 3; 3; 4] child = Ok [VList [VNum (DZ 1); VNum (DZ 2)]; VList []; VList [VNum (DZ 3)]] /\
  compact_offsets [3; 0; 1] [4; 0; 3] = [0; 1; 1; 3].
Proof. vm_compute. repeat split. Qed.

(* (2) validity bitmaps: least significant bit first, zero padded to whole bytes *)
Lemma pack8_scale bits k w : pack8 bits k w = w * pack8 bits k 1.
Proof.
  revert bits w. induction k as [|k IH]; intros bits w; destruct bits as [|b bs]; cbn [pack8]; try ring.
  rewrite (IH bs (2 * w)), (IH bs (2 * 1)). destruct b; ring.
Qed.
Lemma pack8_step b bs k : pack8 (b :: bs) (S k) 1 = 2 * pack8 bs k 1 + Z.b2z b.
Proof. cbn [pack8]. rewrite (pack8_scale bs k (2 * 1)). destruct b; cbn [Z.b2z]; ring. Qed.
Lemma pack8_testbit : forall k bits j, (j < k)%nat -> Z.testbit (pack8 bits k 1) (Z.of_nat j) = nth j bits false.
Proof.
  induction k as [|k IH]; intros bits j Hj; [lia|]. destruct bits as [|b bs].
  - cbn [pack8]. rewrite Z.testbit_0_l. destruct j; reflexivity.
  - rewrite pack8_step. destruct j as [|j].
    + cbn [Z.of_nat nth]. apply Z.testbit_0_r.
    + rewrite Nat2Z.inj_succ, Z.testbit_succ_r by lia. cbn [nth]. apply IH. lia.
Qed.
Lemma pack8_testbit_hi bits k j : (k <= j)%nat -> Z.testbit (pack8 bits k 1) (Z.of_nat j) = false.
Proof.
  revert bits j. induction k as [|k IH]; intros bits j Hj; [destruct bits; cbn [pack8]; apply Z.testbit_0_l|].
  destruct bits as [|b bs]; [cbn [pack8]; apply Z.testbit_0_l|]. rewrite pack8_step. destruct j as [|j]; [lia|].
  rewrite Nat2Z.inj_succ, Z.testbit_succ_r by lia. apply IH. lia.
Qed.

Lemma pack_fuel_cons f bits : bits <> [] -> pack_lsb_fuel (S f) bits = pack8 bits 8 1 :: pack_lsb_fuel f (skipn 8 bits).
Proof. destruct bits; [congruence|reflexivity]. Qed.
Lemma skipn_add {A} (l : list A) n m : skipn n (skipn m l) = skipn (m + n) l.
Proof.
  revert l. induction m as [|m IH]; intros l; [reflexivity|]. destruct l as [|x l]; [destruct n; reflexivity|].
  cbn [skipn Nat.add]. apply IH.
Qed.
Lemma nth_skipn_d {A} (l : list A) n j d : nth j (skipn n l) d = nth (n + j) l d.
Proof.
  revert l. induction n as [|n IH]; intros l; [reflexivity|]. destruct l as [|x l]; [destruct j; reflexivity|].
  cbn [skipn Nat.add nth]. apply IH.
Qed.
Lemma pack_fuel_get : forall q fuel bits, (8 * q < length bits)%nat -> (length bits <= 8 * fuel)%nat ->
  get (pack_lsb_fuel fuel bits) (Z.of_nat q) = Ok (pack8 (skipn (8 * q) bits) 8 1).
Proof.
  induction q as [|q IH]; intros fuel bits Hq Hf.
  - destruct fuel as [|f]; [lia|]. rewrite pack_fuel_cons by (intros ->; cbn in Hq; lia). apply get_cons_0.
  - destruct fuel as [|f]; [lia|]. rewrite pack_fuel_cons by (intros ->; cbn in Hq; lia).
    rewrite Nat2Z.inj_succ. unfold Z.succ. rewrite get_cons_S by lia.
    rewrite IH; [|rewrite skipn_length; lia|rewrite skipn_length; lia].
    rewrite skipn_add. f_equal. f_equal. f_equal. lia.
Qed.

(** Bit i of the least-significant-bit-first bitmap packed from a byte mask is the validity of element i, for masks of
    any length (not only multiples of 8); the padding bits of the last byte are zero. *)
Theorem bytemask_to_bitmap_spec_thm bits i : 0 <= i < zlen bits ->
  bitmap_bit (pack_lsb bits) i = Ok (nth (Z.to_nat i) bits false).
Proof.
  intros Hi. unfold bitmap_bit, pack_lsb. unfold zlen in Hi.
  pose proof (Z.div_mod i 8 ltac:(lia)) as Hdm. pose proof (Z.mod_pos_bound i 8 ltac:(lia)) as Hmod.
  assert (Hq0 : 0 <= i / 8) by (apply Z.div_pos; lia).
  rewrite <- (Z2Nat.id (i / 8)) by lia.
  rewrite pack_fuel_get; [|lia|lia]. cbn [bind]. f_equal.
  rewrite <- (Z2Nat.id (i mod 8)) by lia. rewrite pack8_testbit by lia.
  rewrite nth_skipn_d. f_equal. lia.
Qed.
Theorem bitmap_padding_zero_thm bits i : 0 <= i -> i / 8 = (zlen bits - 1) / 8 -> zlen bits <= i -> 0 < zlen bits ->
  bitmap_bit (pack_lsb bits) i = Ok false.
Proof.
  intros Hi Hq Hge Hpos. unfold bitmap_bit, pack_lsb. unfold zlen in *.
  pose proof (Z.div_mod i 8 ltac:(lia)) as Hdm. pose proof (Z.mod_pos_bound i 8 ltac:(lia)) as Hmod.
  pose proof (Z.div_mod (Z.of_nat (length bits) - 1) 8 ltac:(lia)) as Hdm2.
  pose proof (Z.mod_pos_bound (Z.of_nat (length bits) - 1) 8 ltac:(lia)) as Hmod2.
  assert (Hq0 : 0 <= i / 8) by (apply Z.div_pos; lia).
  rewrite <- (Z2Nat.id (i / 8)) by lia.
  rewrite pack_fuel_get; [|lia|lia]. cbn [bind]. f_equal.
  rewrite <- (Z2Nat.id (i mod 8)) by lia.
  set (rest := skipn (8 * Z.to_nat (i / 8)) bits).
  assert (Hr : (length rest <= Z.to_nat (i mod 8))%nat) by (unfold rest; rewrite skipn_length; lia).
  clearbody rest. clear - Hr Hmod.
  assert (G : forall k bits j, (length bits <= j)%nat -> Z.testbit (pack8 bits k 1) (Z.of_nat j) = false).
  { induction k as [|k IH]; intros bits j Hj; [destruct bits; cbn [pack8]; apply Z.testbit_0_l|].
    destruct bits as [|b bs]; [cbn [pack8]; apply Z.testbit_0_l|]. rewrite pack8_step. cbn [length] in Hj.
    destruct j as [|j]; [lia|]. rewrite Nat2Z.inj_succ, Z.testbit_succ_r by lia. apply IH. lia. }
  apply G. exact Hr.
Qed.

Example bytemask_to_bitmap_ex :
  (* eleven elements, valid = [1 0 1 1 0 0 0 1 | 1 1 0] -> bytes 141 (10001101b), 3 (011b) *)
  let bits := [true; false; true; true; false; false; false; true; true; true; false] in
  pack_lsb bits = [141; 3] /\ bitmap_bit (pack_lsb bits) 9 = Ok true /\ bitmap_bit (pack_lsb bits) 10 = Ok false /\
  bitmap_bit (pack_lsb bits) 13 = Ok false /\
  arrow_nullable (pack_lsb [true; false; true]) 3 [VNum (DZ 7); VNum (DZ 8); VNum (DZ 9)] = Ok [VNum (DZ 7); VNone; VNum (DZ 9)].
Proof. vm_compute. repeat split. Qed.
