(** C01 property theorems (proofs in Proofs_C01.v): the index sequences that the slicing
    specification [sg] and model [gn] use for a range item are Python's, and integer
    indexes wrap / fail as Python's do. *)
From AwkV Require Import Layout Ops_Getitem Proofs_C01.
From AwkV Require Import Valid Types Carry Proofs_Lists Proofs_ToList Proofs_Carry.

(* a range selects exactly range applied to slice(start,stop,step).indices(n): the arithmetic
   progression from the clamped start that stays strictly before the clamped stop *)
Theorem range_loop_is_python_slice : forall n start stop step i,
  step <> 0 ->
  let (s, e) := py_bounds n start stop step in
  In i (py_indices n start stop step) <->
  (exists k, 0 <= k /\ i = s + k * step /\ (if 0 <? step then i < e else e < i)).
Proof. exact py_indices_spec. Qed.
Print Assumptions range_loop_is_python_slice.

(* ... visited in order, without repetition *)
Theorem range_is_progression : forall n start stop step,
  py_indices n start stop step =
  let (s, e) := py_bounds n start stop step in map (fun k => s + k * step) (iota (py_count s e step)).
Proof. exact py_indices_progression. Qed.
Print Assumptions range_is_progression.

(* ... and never addresses a non-existing element, whatever the bounds (overshooting, negative, None) *)
Theorem range_never_out_of_bounds : forall n start stop step i,
  0 <= n -> step <> 0 -> In i (py_indices n start stop step) -> 0 <= i < n.
Proof. exact py_indices_in_range. Qed.
Print Assumptions range_never_out_of_bounds.

Theorem range_bounds_are_clamped : forall n start stop step,
  0 <= n -> step <> 0 ->
  let (s, e) := py_bounds n start stop step in
  if 0 <? step then 0 <= s <= n /\ 0 <= e <= n else -1 <= s <= n - 1 /\ -1 <= e <= n - 1.
Proof. exact py_bounds_in_range. Qed.
Print Assumptions range_bounds_are_clamped.

Theorem full_range_selects_everything : forall n, 0 <= n -> py_indices n None None 1 = iota n.
Proof. exact full_slice_is_identity. Qed.
Print Assumptions full_range_selects_everything.

(* an integer index i selects element i (or i+n when negative) and is an error exactly outside [-n, n) *)
Theorem integer_index_wraps : forall n i j,
  wrap_at n i = Ok j <-> ((0 <= i < n /\ j = i) \/ (- n <= i < 0 /\ j = i + n)).
Proof. exact wrap_at_spec. Qed.
Print Assumptions integer_index_wraps.

Theorem out_of_range_is_error : forall n i, (exists j, wrap_at n i = Ok j) <-> - n <= i < n.
Proof. exact wrap_at_error. Qed.
Print Assumptions out_of_range_is_error.

(* carry (the gather that every slicing step of the model and of the C++ goes through) selects
   exactly the indexed elements, for every node class *)
Theorem carry_selects_indexed_elements : forall c vs ix,
  Valid None c -> to_list c = Ok vs -> Forall (fun i => 0 <= i < clen c) ix ->
  exists c', carry c ix = Ok c' /\ to_list c' = mapM (get vs) ix /\ clen c' = zlen ix.
Proof. exact carry_spec. Qed.
Print Assumptions carry_selects_indexed_elements.

Theorem range_slice_is_list_slice : forall c vs a b,
  Valid None c -> to_list c = Ok vs -> 0 <= a -> a <= b -> b <= clen c ->
  exists c', crange c a b = Ok c' /\ to_list c' = slice vs a b /\ clen c' = b - a.
Proof. exact crange_spec. Qed.
Print Assumptions range_slice_is_list_slice.
