(** Proofs_C13d3.v -- k_safe / k_spec theorems for the boolean, arg- and complex reducers, the NumpyArray copy / fill /
    rearrange / subrange kernels and awkward_sorting_ranges.  Built on the weakest-precondition calculus of Proofs_C13d.v. *)
From Coq Require Import ZArith List Bool Lia ZifyBool.
From AwkV Require Import Base.
From AwkKernels Require Import Kernels KLemmas Proofs_C13 Proofs_C13b Proofs_C13c Proofs_C13d.
Import ListNotations.
Open Scope Z_scope.

Ltac Zify.zify_post_hook ::= Z.to_euclidean_division_equations.

(* ================================================================================================ *)
(** * helpers *)

Lemma d3_at_set l p v q :
  0 <= p < zlen l -> 0 <= q -> at_ (set_nth l (Z.to_nat p) v) q = if q =? p then v else at_ l q.
Proof.
  intros Hp Hq. rewrite at_set_nth by (unfold zlen in Hp; lia).
  replace (Z.of_nat (Z.to_nat p)) with p by lia. reflexivity.
Qed.

(** [kfill] under [noob_post]: the result is [filled] *)
Lemma d3_np_bind_kfill {B} off n g out (f : list Z -> kres B) (Q : B -> Prop) :
  0 <= off -> 0 <= n -> off + n <= zlen out ->
  noob_post (f (filled off n (fun _ => g) out)) Q ->
  noob_post (kbind (kfill off n (fun _ => KOk g) out) f) Q.
Proof.
  intros H0 Hn H1 H. rewrite (kfill_spec off n _ (fun _ => g)); auto. cbn [kbind]. now rewrite Z.max_r by lia.
Qed.

Lemma d3_at_filled_const n g out q :
  0 <= n -> n <= zlen out -> 0 <= q ->
  at_ (filled 0 n (fun _ => g) out) q = if q <? n then g else at_ out q.
Proof.
  intros Hn Hl Hq. rewrite at_filled by lia.
  destruct (q <? n) eqn:E; [replace ((0 <=? q) && (q <? 0 + n)) with true by lia
                           |replace ((0 <=? q) && (q <? 0 + n)) with false by lia]; reflexivity.
Qed.

Lemma d3_map_const_iota (c : Z) s n : map (fun _ => c) (iota_nat s n) = repeat c n.
Proof. revert s; induction n; intros s; cbn [iota_nat map repeat]; auto. now rewrite IHn. Qed.

(* ================================================================================================ *)
(** * 1. awkward_reduce_sum_bool (any) / awkward_reduce_prod_bool (all) *)

Theorem reduce_sum_bool_safe toptr fromptr parents n ol :
  red_pre toptr fromptr parents n ol -> reduce_sum_bool toptr fromptr parents n ol <> KOob.
Proof. apply reduce_generic_safe. Qed.

Theorem reduce_prod_bool_safe toptr fromptr parents n ol :
  red_pre toptr fromptr parents n ol -> reduce_prod_bool toptr fromptr parents n ol <> KOob.
Proof. apply reduce_generic_safe. Qed.

Example reduce_sum_bool_example :
  reduce_sum_bool [9; 9; 9; 9] [0; 5; 0; 0; 7] [0; 0; 1; 2; 2] 5 3 = KOk [1; 0; 1; 9].
Proof. vm_compute. reflexivity. Qed.
Example reduce_prod_bool_example :
  reduce_prod_bool [9; 9; 9; 9] [2; 5; 0; 0; 7] [0; 0; 1; 3; 3] 5 4 = KOk [1; 0; 1; 0].
Proof. vm_compute. reflexivity. Qed.

(** pointwise (fold) characterisation, as for the other value reducers *)
Lemma d3_reduce_sum_bool_fold toptr fromptr parents n ol :
  red_pre toptr fromptr parents n ol ->
  exists out, reduce_sum_bool toptr fromptr parents n ol = KOk out /\ zlen out = zlen toptr /\
    forall q, 0 <= q ->
      at_ out q = if q <? ol then red_upto TB 0 (fun _ cur x => if (cur =? 0) && (x =? 0) then 0 else 1) parents fromptr (Z.to_nat n) q
                  else at_ toptr q.
Proof. apply reduce_generic_spec. Qed.

Lemma d3_reduce_prod_bool_fold toptr fromptr parents n ol :
  red_pre toptr fromptr parents n ol ->
  exists out, reduce_prod_bool toptr fromptr parents n ol = KOk out /\ zlen out = zlen toptr /\
    forall q, 0 <= q ->
      at_ out q = if q <? ol then red_upto TB 1 (fun _ cur x => if (cur =? 0) || (x =? 0) then 0 else 1) parents fromptr (Z.to_nat n) q
                  else at_ toptr q.
Proof. apply reduce_generic_spec. Qed.

(** the nicer reading: cell q of [any] is 1 iff some input with parent q is non-zero (else 0);
    cell q of [all] is 1 iff every input with parent q is non-zero (else 0) *)
Definition some_nonzero (parents from : list Z) (n q : Z) : Prop :=
  exists i, 0 <= i < n /\ at_ parents i = q /\ at_ from i <> 0.
Definition all_nonzero (parents from : list Z) (n q : Z) : Prop :=
  forall i, 0 <= i < n -> at_ parents i = q -> at_ from i <> 0.

Lemma d3_any_upto parents from j q :
  let r := red_upto TB 0 (fun _ cur x => if (cur =? 0) && (x =? 0) then 0 else 1) parents from j q in
  (r = 0 \/ r = 1) /\ (r = 1 <-> some_nonzero parents from (Z.of_nat j) q).
Proof.
  induction j; cbn zeta in *.
  - cbn [red_upto wrap]. split; [auto|]. split; [discriminate|]. intros (i & Hi & _). lia.
  - cbn [red_upto]. destruct IHj as (B & IH).
    set (r := red_upto TB 0 (fun _ cur x => if (cur =? 0) && (x =? 0) then 0 else 1) parents from j q) in *.
    destruct (at_ parents (Z.of_nat j) =? q) eqn:E.
    + cbn [wrap]. destruct ((r =? 0) && (at_ from (Z.of_nat j) =? 0)) eqn:E2; cbn [Z.eqb]; (split; [auto|]).
      * split; [discriminate|]. intros (i & Hi & Hp & Hv).
        destruct (Z.eq_dec i (Z.of_nat j)) as [->|Ne]; [lia|].
        assert (r = 1) by (apply IH; exists i; repeat split; auto; lia). lia.
      * split; [|auto]. intros _.
        destruct (Z.eq_dec (at_ from (Z.of_nat j)) 0) as [Z0|NZ].
        -- assert (R1 : r = 1) by lia. apply IH in R1. destruct R1 as (i & Hi & Hp & Hv). exists i. repeat split; auto; lia.
        -- exists (Z.of_nat j). repeat split; auto; lia.
    + split; auto. rewrite IH. split; intros (i & Hi & Hp & Hv); exists i; repeat split; auto; try lia.
      destruct (Z.eq_dec i (Z.of_nat j)) as [->|Ne]; lia.
Qed.

Lemma d3_all_upto parents from j q :
  let r := red_upto TB 1 (fun _ cur x => if (cur =? 0) || (x =? 0) then 0 else 1) parents from j q in
  (r = 0 \/ r = 1) /\ (r = 1 <-> all_nonzero parents from (Z.of_nat j) q).
Proof.
  induction j; cbn zeta in *.
  - cbn [red_upto wrap]. split; [auto|]. split; [|reflexivity]. intros _ i Hi. lia.
  - cbn [red_upto]. destruct IHj as (B & IH).
    set (r := red_upto TB 1 (fun _ cur x => if (cur =? 0) || (x =? 0) then 0 else 1) parents from j q) in *.
    destruct (at_ parents (Z.of_nat j) =? q) eqn:E.
    + cbn [wrap]. destruct ((r =? 0) || (at_ from (Z.of_nat j) =? 0)) eqn:E2; cbn [Z.eqb]; (split; [auto|]).
      * split; [discriminate|]. intros A. exfalso.
        destruct (Z.eq_dec (at_ from (Z.of_nat j)) 0) as [Z0|NZ].
        -- apply (A (Z.of_nat j)); auto; lia.
        -- assert (R1 : r = 1). { apply IH. intros i Hi Hp. apply A; auto; lia. } lia.
      * split; [|auto]. intros _ i Hi Hp.
        destruct (Z.eq_dec i (Z.of_nat j)) as [->|Ne]; [lia|].
        assert (R1 : r = 1) by lia. apply IH in R1. apply R1; auto; lia.
    + split; auto. rewrite IH. split; intros A i Hi Hp.
      * destruct (Z.eq_dec i (Z.of_nat j)) as [->|Ne]; [lia|]. apply A; auto; lia.
      * apply A; auto; lia.
Qed.

Theorem reduce_sum_bool_spec toptr fromptr parents n ol :
  red_pre toptr fromptr parents n ol ->
  exists out, reduce_sum_bool toptr fromptr parents n ol = KOk out /\ zlen out = zlen toptr /\
    forall q, 0 <= q ->
      if q <? ol then (at_ out q = 0 \/ at_ out q = 1) /\ (at_ out q = 1 <-> some_nonzero parents fromptr n q)
      else at_ out q = at_ toptr q.
Proof.
  intros Pre. destruct (d3_reduce_sum_bool_fold _ _ _ _ _ Pre) as (out & E & L & A). exists out. split; auto. split; auto.
  intros q Hq. rewrite (A q Hq). destruct (q <? ol); auto.
  pose proof (d3_any_upto parents fromptr (Z.to_nat n) q) as K. cbn zeta in K.
  destruct Pre as (Hn & _). replace (Z.of_nat (Z.to_nat n)) with n in K by lia. exact K.
Qed.

Theorem reduce_prod_bool_spec toptr fromptr parents n ol :
  red_pre toptr fromptr parents n ol ->
  exists out, reduce_prod_bool toptr fromptr parents n ol = KOk out /\ zlen out = zlen toptr /\
    forall q, 0 <= q ->
      if q <? ol then (at_ out q = 0 \/ at_ out q = 1) /\ (at_ out q = 1 <-> all_nonzero parents fromptr n q)
      else at_ out q = at_ toptr q.
Proof.
  intros Pre. destruct (d3_reduce_prod_bool_fold _ _ _ _ _ Pre) as (out & E & L & A). exists out. split; auto. split; auto.
  intros q Hq. rewrite (A q Hq). destruct (q <? ol); auto.
  pose proof (d3_all_upto parents fromptr (Z.to_nat n) q) as K. cbn zeta in K.
  destruct Pre as (Hn & _). replace (Z.of_nat (Z.to_nat n)) with n in K by lia. exact K.
Qed.

(* ================================================================================================ *)
(** * 2. awkward_reduce_argmin / awkward_reduce_argmax *)

(** safety needs a value invariant: every cell below outlength is -1 or the index of an input already seen,
    so that [fromptr[toptr[parent]]] is a legal read *)
Lemma d3_reduce_arg_safe better toptr fromptr parents n ol :
  red_pre toptr fromptr parents n ol -> reduce_arg better toptr fromptr parents n ol <> KOob.
Proof.
  intros (Hn & Hol & Hp & Hf & Ht & Hr). unfold reduce_arg. eapply np_noob.
  apply d3_np_bind_kfill; try lia.
  apply (np_kfor _ (fun i out => zlen out = zlen toptr /\
                       forall q, 0 <= q < ol -> at_ out q = -1 \/ 0 <= at_ out q < i)).
  - split; [apply zlen_filled; lia|]. intros q Hq. rewrite d3_at_filled_const by lia.
    replace (q <? ol) with true by lia. auto.
  - intros i out Hi (L & A). specialize (Hr i Hi). destruct (A (at_ parents i) Hr) as [C|C].
    + np_auto; try lia. rewrite zlen_set_nth. split; auto. intros q Hq. rewrite d3_at_set by lia.
      destruct (q =? at_ parents i); [lia|]. destruct (A q Hq); lia.
    + np_auto; try lia; rewrite ?zlen_set_nth; (split; [auto|]); intros q Hq; rewrite ?d3_at_set by lia;
        try (destruct (q =? at_ parents i); [lia|]); destruct (A q Hq); lia.
Qed.

Theorem reduce_argmin_safe toptr fromptr parents n ol :
  red_pre toptr fromptr parents n ol -> reduce_argmin toptr fromptr parents n ol <> KOob.
Proof. apply d3_reduce_arg_safe. Qed.

Theorem reduce_argmax_safe toptr fromptr parents n ol :
  red_pre toptr fromptr parents n ol -> reduce_argmax toptr fromptr parents n ol <> KOob.
Proof. apply d3_reduce_arg_safe. Qed.

Example reduce_argmin_example :
  reduce_argmin [9; 9; 9; 9] [5; 3; 3; 8; 7; 1] [0; 0; 0; 2; 2; 2] 6 3 = KOk [1; -1; 5; 9].
Proof. vm_compute. reflexivity. Qed.
Example reduce_argmax_example :
  reduce_argmax [9; 9; 9; 9] [5; 3; 5; 8; 7; 1] [0; 0; 0; 2; 2; 2] 6 3 = KOk [0; -1; 3; 9].
Proof. vm_compute. reflexivity. Qed.

(* ================================================================================================ *)
(** * 3. complex reducers: fromptr holds (re, im) pairs; [w] = number of output cells per group
      (2 for sum / prod / min / max whose output is complex, 1 for the others) *)

Definition cred_pre (w : Z) (toptr fromptr parents : list Z) (n ol : Z) : Prop :=
  0 <= n /\ 0 <= ol /\ n <= zlen parents /\ 2 * n <= zlen fromptr /\ w * ol <= zlen toptr /\
  forall i, 0 <= i < n -> 0 <= at_ parents i < ol.

Theorem reduce_sum_complex_safe toptr fromptr parents n ol :
  cred_pre 2 toptr fromptr parents n ol -> reduce_sum_complex toptr fromptr parents n ol <> KOob.
Proof.
  intros (Hn & Hol & Hp & Hf & Ht & Hr). unfold reduce_sum_complex. eapply np_noob.
  apply np_bind_kfor with (P := fun _ out => zlen out = zlen toptr); auto.
  - intros i out Hi L. np_auto. now rewrite !zlen_set_nth.
  - intros out0 L0. apply (np_kfor_c _ (fun out => zlen out = zlen toptr)); auto.
    intros i out Hi L. specialize (Hr i Hi). np_auto. now rewrite !zlen_set_nth.
Qed.

Example reduce_sum_complex_example :
  reduce_sum_complex [9; 9; 9; 9; 9] [1; 2; 3; 4; 5; 6] [0; 1; 0] 3 2 = KOk [6; 8; 3; 4; 9].
Proof. vm_compute. reflexivity. Qed.

Theorem reduce_prod_complex_safe toptr fromptr parents n ol :
  cred_pre 2 toptr fromptr parents n ol -> reduce_prod_complex toptr fromptr parents n ol <> KOob.
Proof.
  intros (Hn & Hol & Hp & Hf & Ht & Hr). unfold reduce_prod_complex. eapply np_noob.
  apply np_bind_kfor with (P := fun _ out => zlen out = zlen toptr); auto.
  - intros i out Hi L. np_auto. now rewrite !zlen_set_nth.
  - intros out0 L0. apply (np_kfor_c _ (fun out => zlen out = zlen toptr)); auto.
    intros i out Hi L. specialize (Hr i Hi). np_auto. now rewrite !zlen_set_nth.
Qed.

Example reduce_prod_complex_example :
  reduce_prod_complex [9; 9; 9; 9; 9] [1; 2; 3; 4; 5; 6] [0; 1; 0] 3 2 = KOk [-7; 16; 3; 4; 9].
Proof. vm_compute. reflexivity. Qed.

Lemma d3_reduce_minmax_complex_safe lt idn toptr fromptr parents n ol :
  cred_pre 2 toptr fromptr parents n ol -> reduce_minmax_complex lt idn toptr fromptr parents n ol <> KOob.
Proof.
  intros (Hn & Hol & Hp & Hf & Ht & Hr). unfold reduce_minmax_complex. eapply np_noob.
  apply np_bind_kfor with (P := fun _ out => zlen out = zlen toptr); auto.
  - intros i out Hi L. np_auto. now rewrite !zlen_set_nth.
  - intros out0 L0. apply (np_kfor_c _ (fun out => zlen out = zlen toptr)); auto.
    intros i out Hi L. specialize (Hr i Hi). np_auto; rewrite ?zlen_set_nth; auto.
Qed.

Theorem reduce_min_complex_safe idn toptr fromptr parents n ol :
  cred_pre 2 toptr fromptr parents n ol -> reduce_minmax_complex true idn toptr fromptr parents n ol <> KOob.
Proof. apply d3_reduce_minmax_complex_safe. Qed.

Theorem reduce_max_complex_safe idn toptr fromptr parents n ol :
  cred_pre 2 toptr fromptr parents n ol -> reduce_minmax_complex false idn toptr fromptr parents n ol <> KOob.
Proof. apply d3_reduce_minmax_complex_safe. Qed.

Example reduce_min_complex_example :
  reduce_minmax_complex true 100 [9; 9; 9; 9; 9] [3; 2; 3; 1; 5; 6] [0; 0; 0] 3 2 = KOk [3; 1; 100; 0; 9].
Proof. vm_compute. reflexivity. Qed.
Example reduce_max_complex_example :
  reduce_minmax_complex false (-100) [9; 9; 9; 9; 9] [3; 2; 3; 1; 5; 6] [0; 0; 1] 3 2 = KOk [3; 2; 5; 6; 9].
Proof. vm_compute. reflexivity. Qed.

Lemma d3_reduce_arg_complex_safe lt toptr fromptr parents n ol :
  cred_pre 1 toptr fromptr parents n ol -> reduce_arg_complex lt toptr fromptr parents n ol <> KOob.
Proof.
  intros (Hn & Hol & Hp & Hf & Ht & Hr). unfold reduce_arg_complex. eapply np_noob.
  apply d3_np_bind_kfill; try lia.
  apply (np_kfor _ (fun i out => zlen out = zlen toptr /\
                       forall q, 0 <= q < ol -> at_ out q = -1 \/ 0 <= at_ out q < i)).
  - split; [apply zlen_filled; lia|]. intros q Hq. rewrite d3_at_filled_const by lia.
    replace (q <? ol) with true by lia. auto.
  - intros i out Hi (L & A). specialize (Hr i Hi). destruct (A (at_ parents i) Hr) as [C|C].
    + np_auto; try lia. rewrite zlen_set_nth. split; auto. intros q Hq. rewrite d3_at_set by lia.
      destruct (q =? at_ parents i); [lia|]. destruct (A q Hq); lia.
    + np_auto; try lia; rewrite ?zlen_set_nth; (split; [auto|]); intros q Hq; rewrite ?d3_at_set by lia;
        try (destruct (q =? at_ parents i); [lia|]); destruct (A q Hq); lia.
Qed.

Theorem reduce_argmin_complex_safe toptr fromptr parents n ol :
  cred_pre 1 toptr fromptr parents n ol -> reduce_arg_complex true toptr fromptr parents n ol <> KOob.
Proof. apply d3_reduce_arg_complex_safe. Qed.

Theorem reduce_argmax_complex_safe toptr fromptr parents n ol :
  cred_pre 1 toptr fromptr parents n ol -> reduce_arg_complex false toptr fromptr parents n ol <> KOob.
Proof. apply d3_reduce_arg_complex_safe. Qed.

Example reduce_argmin_complex_example :
  reduce_arg_complex true [9; 9; 9] [3; 2; 3; 1; 5; 6] [0; 0; 0] 3 2 = KOk [1; -1; 9].
Proof. vm_compute. reflexivity. Qed.
Example reduce_argmax_complex_example :
  reduce_arg_complex false [9; 9; 9] [3; 2; 3; 1; 5; 6; 5; 7] [0; 0; 1; 1] 4 2 = KOk [0; 3; 9].
Proof. vm_compute. reflexivity. Qed.

Lemma d3_reduce_bool_complex_safe tO init step toptr fromptr parents n ol :
  cred_pre 1 toptr fromptr parents n ol -> reduce_bool_complex tO init step toptr fromptr parents n ol <> KOob.
Proof.
  intros (Hn & Hol & Hp & Hf & Ht & Hr). unfold reduce_bool_complex. eapply np_noob.
  apply d3_np_bind_kfill; try lia.
  apply (np_kfor_c _ (fun out => zlen out = zlen toptr)); [apply zlen_filled; lia|].
  intros i out Hi L. specialize (Hr i Hi). np_auto. now rewrite zlen_set_nth.
Qed.

Theorem reduce_countnonzero_complex_safe toptr fromptr parents n ol :
  cred_pre 1 toptr fromptr parents n ol -> reduce_countnonzero_complex toptr fromptr parents n ol <> KOob.
Proof. apply d3_reduce_bool_complex_safe. Qed.

Theorem reduce_sum_bool_complex_safe toptr fromptr parents n ol :
  cred_pre 1 toptr fromptr parents n ol -> reduce_sum_bool_complex toptr fromptr parents n ol <> KOob.
Proof. apply d3_reduce_bool_complex_safe. Qed.

Theorem reduce_prod_bool_complex_safe toptr fromptr parents n ol :
  cred_pre 1 toptr fromptr parents n ol -> reduce_prod_bool_complex toptr fromptr parents n ol <> KOob.
Proof. apply d3_reduce_bool_complex_safe. Qed.

Example reduce_countnonzero_complex_example :
  reduce_countnonzero_complex [9; 9; 9] [0; 2; 0; 0; 5; 0] [0; 0; 0] 3 2 = KOk [2; 0; 9].
Proof. vm_compute. reflexivity. Qed.
Example reduce_sum_bool_complex_example :
  reduce_sum_bool_complex [9; 9; 9] [0; 2; 0; 0; 0; 0] [0; 1; 1] 3 2 = KOk [1; 0; 9].
Proof. vm_compute. reflexivity. Qed.
Example reduce_prod_bool_complex_example :
  reduce_prod_bool_complex [9; 9; 9] [0; 2; 0; 0; 5; 0] [0; 1; 0] 3 2 = KOk [1; 0; 9].
Proof. vm_compute. reflexivity. Qed.

(* ================================================================================================ *)
(** * 4. awkward_content_reduce_zeroparents_64 *)

Theorem content_reduce_zeroparents_64_safe toparents n :
  n <= zlen toparents -> content_reduce_zeroparents toparents n <> KOob.
Proof. intros H. unfold content_reduce_zeroparents. apply kfill_safe; try lia. congruence. Qed.

Theorem content_reduce_zeroparents_64_spec toparents n :
  0 <= n -> n <= zlen toparents ->
  content_reduce_zeroparents toparents n = KOk (repeat 0 (Z.to_nat n) ++ skipn (Z.to_nat n) toparents).
Proof.
  intros H0 H. unfold content_reduce_zeroparents.
  rewrite (kfill_spec 0 n _ (fun _ => 0)); try lia; auto.
  rewrite Z.max_r by lia. rewrite filled_0_prefix by lia. do 2 f_equal.
  unfold iota. apply d3_map_const_iota.
Qed.

Example content_reduce_zeroparents_64_example :
  content_reduce_zeroparents [9; 9; 9; 9] 3 = KOk [0; 0; 0; 9].
Proof. vm_compute. reflexivity. Qed.

(* ================================================================================================ *)
(** * 5. awkward_NumpyArray_contiguous_copy / awkward_NumpyArray_getitem_next_null: [len] rows of [stride] bytes *)

Theorem NumpyArray_contiguous_copy_safe toptr fromptr len stride pos :
  0 <= stride -> len <= zlen pos -> len * stride <= zlen toptr ->
  (forall i, 0 <= i < len -> 0 <= at_ pos i /\ at_ pos i + stride <= zlen fromptr) ->
  NumpyArray_contiguous_copy toptr fromptr len stride pos <> KOob.
Proof.
  intros Hs Hp Ht Hr. unfold NumpyArray_contiguous_copy. eapply np_noob.
  apply (np_kfor_c _ (fun out => zlen out = zlen toptr)); auto.
  intros i out Hi L. specialize (Hr i Hi). np_auto.
  apply (np_kfor_c _ (fun out => zlen out = zlen toptr)); auto.
  intros b out' Hb L'. assert (0 <= i * stride + b < len * stride) by nia.
  np_auto. now rewrite zlen_set_nth.
Qed.

Example NumpyArray_contiguous_copy_example :
  NumpyArray_contiguous_copy [9; 9; 9; 9; 9] [10; 11; 12; 13; 14; 15] 2 2 [4; 1] = KOk [14; 15; 11; 12; 9].
Proof. vm_compute. reflexivity. Qed.

Theorem NumpyArray_getitem_next_null_safe toptr fromptr len stride pos :
  0 <= stride -> len <= zlen pos -> len * stride <= zlen toptr ->
  (forall i, 0 <= i < len -> 0 <= at_ pos i /\ (at_ pos i + 1) * stride <= zlen fromptr) ->
  NumpyArray_getitem_next_null toptr fromptr len stride pos <> KOob.
Proof.
  intros Hs Hp Ht Hr. unfold NumpyArray_getitem_next_null. eapply np_noob.
  apply (np_kfor_c _ (fun out => zlen out = zlen toptr)); auto.
  intros i out Hi L. specialize (Hr i Hi). np_auto.
  apply (np_kfor_c _ (fun out => zlen out = zlen toptr)); auto.
  intros b out' Hb L'. assert (0 <= i * stride + b < len * stride) by nia.
  assert (0 <= at_ pos i * stride + b < zlen fromptr) by nia.
  np_auto. now rewrite zlen_set_nth.
Qed.

Example NumpyArray_getitem_next_null_example :
  NumpyArray_getitem_next_null [9; 9; 9; 9; 9] [10; 11; 12; 13; 14; 15] 2 2 [2; 0] = KOk [14; 15; 10; 11; 9].
Proof. vm_compute. reflexivity. Qed.

(* ================================================================================================ *)
(** * 6. awkward_NumpyArray_fill_tocomplex / awkward_NumpyArray_fill_fromcomplex *)

Theorem NumpyArray_fill_tocomplex_safe toptr tooffset fromptr n :
  0 <= tooffset -> n <= zlen fromptr -> tooffset + 2 * n <= zlen toptr ->
  NumpyArray_fill_tocomplex toptr tooffset fromptr n <> KOob.
Proof.
  intros H0 H1 H2. unfold NumpyArray_fill_tocomplex. eapply np_noob.
  apply (np_kfor_c _ (fun out => zlen out = zlen toptr)); auto.
  intros i out Hi L. np_auto. now rewrite !zlen_set_nth.
Qed.

Example NumpyArray_fill_tocomplex_example :
  NumpyArray_fill_tocomplex [9; 9; 9; 9; 9; 9] 1 [4; 5] 2 = KOk [9; 4; 0; 5; 0; 9].
Proof. vm_compute. reflexivity. Qed.

Theorem NumpyArray_fill_fromcomplex_safe tTO toptr tooffset fromptr n :
  0 <= tooffset -> 2 * n <= zlen fromptr -> tooffset + n <= zlen toptr ->
  NumpyArray_fill_fromcomplex tTO toptr tooffset fromptr n <> KOob.
Proof.
  intros H0 H1 H2. unfold NumpyArray_fill_fromcomplex. apply kfill_safe; try lia.
  intros i Hi. rewrite (kget_at fromptr) by lia. cbn [kbind]. congruence.
Qed.

Example NumpyArray_fill_fromcomplex_example :
  NumpyArray_fill_fromcomplex (TI 64) [9; 9; 9; 9] 1 [4; 7; 5; 8] 2 = KOk [9; 4; 5; 9].
Proof. vm_compute. reflexivity. Qed.

(* ================================================================================================ *)
(** * 7. awkward_NumpyArray_rearrange_shifted_toint64_fromint64
      First loop: the k-th cell (k counted through the segments [offsets[i], offsets[i+1])) gets offsets[i] added
      (a segment-local argsort result becomes a global position); second loop: toptr[i] += shifts[toptr[i]] - starts[parents[i]].
      The read [shifts[toptr[i]]] is data dependent: the precondition has to bound the values of toptr AFTER the first loop. *)

Definition rearrange_pre (toptr shifts : list Z) (length : Z) (offsets : list Z) (offsetslength : Z)
    (parents starts : list Z) : Prop :=
  1 <= offsetslength <= zlen offsets /\
  (forall i, 0 <= i < offsetslength - 1 -> at_ offsets i <= at_ offsets (i + 1)) /\
  at_ offsets (offsetslength - 1) - at_ offsets 0 <= zlen toptr /\
  length <= zlen toptr /\ length <= zlen parents /\
  (forall i, 0 <= i < length -> 0 <= at_ parents i < zlen starts) /\
  (forall i q, 0 <= i < offsetslength - 1 ->
     at_ offsets i - at_ offsets 0 <= q < at_ offsets (i + 1) - at_ offsets 0 -> q < length ->
     0 <= at_ toptr q + at_ offsets i < zlen shifts) /\
  (forall q, 0 <= q -> at_ offsets (offsetslength - 1) - at_ offsets 0 <= q < length -> 0 <= at_ toptr q < zlen shifts).

Lemma d3_offsets_mono offsets n :
  (forall i, 0 <= i < n -> at_ offsets i <= at_ offsets (i + 1)) ->
  forall i j, 0 <= i <= j -> j <= n -> at_ offsets i <= at_ offsets j.
Proof.
  intros M i j Hij Hj. replace j with (i + Z.of_nat (Z.to_nat (j - i))) by lia.
  assert (G : forall m, i + Z.of_nat m <= n -> at_ offsets i <= at_ offsets (i + Z.of_nat m)).
  { induction m; intros Hm; [now rewrite Z.add_0_r|].
    replace (i + Z.of_nat (S m)) with (i + Z.of_nat m + 1) by lia.
    specialize (M (i + Z.of_nat m)). lia. }
  apply G. lia.
Qed.

Theorem NumpyArray_rearrange_shifted_toint64_fromint64_safe toptr shifts length offsets offsetslength parents starts :
  rearrange_pre toptr shifts length offsets offsetslength parents starts ->
  NumpyArray_rearrange_shifted toptr shifts length offsets offsetslength parents starts <> KOob.
Proof.
  intros (Hol & Hm & Hcap & Hlt & Hlp & Hpar & Hseg & Htail). unfold NumpyArray_rearrange_shifted. eapply np_noob.
  pose proof (d3_offsets_mono offsets (offsetslength - 1) Hm) as Mono.
  set (inv := fun (k : Z) (st : list Z * Z) =>
    snd st = k /\ zlen (fst st) = zlen toptr /\
    forall q, 0 <= q < length -> (q < k -> 0 <= at_ (fst st) q < zlen shifts) /\ (k <= q -> at_ (fst st) q = at_ toptr q)).
  apply np_bind_kfor with (P := fun i st => inv (at_ offsets i - at_ offsets 0) st).
  - unfold inv. cbn [fst snd]. split; [lia|]. split; auto. intros q Hq. split; [lia|auto].
  - intros i st Hi Inv. np_auto.
    eapply np_weaken.
    + apply (np_kfor _ (fun j st => inv (at_ offsets i - at_ offsets 0 + j) st)).
      * now rewrite Z.add_0_r.
      * intros j [out k] Hj (K & L & A). cbn [fst snd] in *. subst k.
        assert (B1 : at_ offsets 0 <= at_ offsets i) by (apply Mono; lia).
        assert (B2 : at_ offsets (i + 1) <= at_ offsets (offsetslength - 1)) by (apply Mono; lia).
        np_auto. unfold inv. cbn [fst snd]. rewrite zlen_set_nth. split; [lia|]. split; auto.
        intros q Hq. rewrite d3_at_set by lia. destruct (A q Hq) as (A1 & A2).
        destruct (q =? at_ offsets i - at_ offsets 0 + j) eqn:E.
        -- assert (Eq : q = at_ offsets i - at_ offsets 0 + j) by lia. rewrite <- Eq.
           split; [|lia]. intros _. rewrite A2 by lia. apply (Hseg i q); lia.
        -- split; intros; [apply A1|apply A2]; lia.
    + intros st' Inv'. cbv beta in Inv'. specialize (Hm i Hi).
      replace (Z.max 0 (at_ offsets (i + 1) - at_ offsets i)) with (at_ offsets (i + 1) - at_ offsets i) in Inv' by lia.
      now replace (at_ offsets (i + 1) - at_ offsets 0) with (at_ offsets i - at_ offsets 0 + (at_ offsets (i + 1) - at_ offsets i)) by lia.
  - intros [out1 k1] Inv. replace (Z.max 0 (offsetslength - 1)) with (offsetslength - 1) in Inv by lia.
    destruct Inv as (K & L & A). cbn [fst snd] in *.
    apply (np_kfor _ (fun i out => zlen out = zlen toptr /\ forall q, i <= q < length -> 0 <= at_ out q < zlen shifts)).
    + split; auto. intros q Hq. destruct (A q) as (A1 & A2); [lia|].
      destruct (Z_lt_ge_dec q k1); [apply A1; lia|]. rewrite A2 by lia. apply Htail; lia.
    + intros i out (Hi0 & Hi1) (L' & A'). specialize (Hpar i (conj Hi0 Hi1)). pose proof (A' i) as Ai.
      np_auto; try lia. rewrite zlen_set_nth. split; auto.
      intros q Hq. rewrite d3_at_set by lia. replace (q =? i) with false by lia. apply A'. lia.
Qed.

(* argsort of [30; 10; 20 | 5; 4] by segment = local [1; 2; 0 | 1; 0], no shifts *)
Example NumpyArray_rearrange_shifted_toint64_fromint64_example :
  NumpyArray_rearrange_shifted [1; 2; 0; 1; 0] [0; 0; 0; 0; 0] 5 [0; 3; 5] 3 [0; 0; 0; 1; 1] [0; 3]
  = KOk [1; 2; 0; 1; 0].
Proof. vm_compute. reflexivity. Qed.
Example NumpyArray_rearrange_shifted_toint64_fromint64_example2 :
  NumpyArray_rearrange_shifted [1; 2; 0; 1; 0] [0; 1; 1; 2; 2] 5 [0; 3; 5] 3 [0; 0; 0; 1; 1] [0; 3]
  = KOk [2; 3; 0; 3; 2].
Proof. vm_compute. reflexivity. Qed.

(* ================================================================================================ *)
(** * 8. awkward_NumpyArray_subrange_equal: every range [fromstarts[i], fromstops[i]) with i < length - 1 inside tmpptr
      (the kernel's loops stop at length - 1: the last range is never read) *)

Theorem NumpyArray_subrange_equal_safe tmpptr fromstarts fromstops length toequal :
  length - 1 <= zlen fromstarts -> length - 1 <= zlen fromstops -> 1 <= zlen toequal ->
  (forall i, 0 <= i < length - 1 -> 0 <= at_ fromstarts i /\ at_ fromstops i <= zlen tmpptr) ->
  NumpyArray_subrange_equal tmpptr fromstarts fromstops length toequal <> KOob.
Proof.
  intros H1 H2 H3 Hr. unfold NumpyArray_subrange_equal. apply (np_noob _ (fun _ => True)).
  apply np_bind_kfor with (P := fun (_ : Z) (_ : bool) => True); auto.
  - intros i d Hi _. pose proof (Hr i Hi) as Ri. np_auto.
    apply (np_kfor_c _ (fun _ : bool => True)); auto.
    intros ii d' Hii _. assert (Hii' : 0 <= ii < length - 1) by lia. pose proof (Hr ii Hii') as Rii. np_auto; auto.
    apply np_kmap.
    eapply np_weaken; [apply (np_kwhile _ _ _ (fun s : bool * Z => 0 <= snd s))|auto].
    + cbn [snd]. lia.
    + intros [b j] Hj C. cbn [fst snd] in *. cbv zeta. cbn [snd]. np_auto. cbn [snd]. lia.
  - intros d _. np_auto. exact I.
Qed.

Example NumpyArray_subrange_equal_example :
  NumpyArray_subrange_equal [1; 2; 3; 1; 2; 3; 7] [0; 3; 6] [3; 6; 7] 3 [9] = KOk [1].
Proof. vm_compute. reflexivity. Qed.
Example NumpyArray_subrange_equal_example_differ :
  NumpyArray_subrange_equal [1; 2; 3; 1; 2; 4; 7] [0; 3; 6] [3; 6; 7] 3 [9] = KOk [0].
Proof. vm_compute. reflexivity. Qed.

(* ================================================================================================ *)
(** * 9. awkward_sorting_ranges_length / awkward_sorting_ranges *)

(** number of i in [1, j) with parents[i-1] <> parents[i] *)
Fixpoint changes_upto (parents : list Z) (j : nat) : Z :=
  match j with
  | O => 0
  | S j' => changes_upto parents j'
            + (if (1 <=? Z.of_nat j') && negb (at_ parents (Z.of_nat j' - 1) =? at_ parents (Z.of_nat j')) then 1 else 0)
  end.

Lemma d3_changes_S parents i :
  1 <= i ->
  changes_upto parents (Z.to_nat (i + 1))
  = changes_upto parents (Z.to_nat i) + (if negb (at_ parents (i - 1) =? at_ parents i) then 1 else 0).
Proof.
  intros H. replace (Z.to_nat (i + 1)) with (S (Z.to_nat i)) by lia. cbn [changes_upto].
  replace (Z.of_nat (Z.to_nat i)) with i by lia. replace (1 <=? i) with true by lia. reflexivity.
Qed.
Lemma d3_changes_nonneg parents j : 0 <= changes_upto parents j.
Proof. induction j; cbn [changes_upto]; [lia|]. destruct (_ && _); lia. Qed.
Lemma d3_changes_mono parents j m : (j <= m)%nat -> changes_upto parents j <= changes_upto parents m.
Proof. induction 1; [lia|]. cbn [changes_upto]. destruct (_ && _); lia. Qed.
Lemma d3_changes_le1 parents n : n <= 1 -> changes_upto parents (Z.to_nat n) = 0.
Proof.
  intros H. destruct (Z.to_nat n) as [|[|m]] eqn:E; try lia; cbn [changes_upto]; auto.
Qed.

Theorem sorting_ranges_length_spec tolength parents n :
  n <= zlen parents -> 1 <= zlen tolength ->
  sorting_ranges_length tolength parents n = KOk (set_nth tolength 0 (2 + changes_upto parents (Z.to_nat n))).
Proof.
  intros H1 H2. unfold sorting_ranges_length.
  destruct (Z_le_gt_dec n 1) as [Hn|Hn].
  - rewrite kfor_empty by lia. cbn [kbind]. rewrite kupd_ok by lia. rewrite d3_changes_le1 by lia. reflexivity.
  - match goal with |- kbind (kfor 1 n ?b _) _ = _ =>
      destruct (kfor_inv b (fun i len => len = 2 + changes_upto parents (Z.to_nat i)) 1 n 2) as (s' & E & P); try lia end.
    + reflexivity.
    + intros i len Hi ->. rewrite (kget_at parents (i - 1)), (kget_at parents i) by lia. cbn [kbind].
      eexists; split; eauto. rewrite d3_changes_S by lia.
      destruct (negb (at_ parents (i - 1) =? at_ parents i)); lia.
    + rewrite E. cbn [kbind]. rewrite kupd_ok by lia. now rewrite P.
Qed.

Example sorting_ranges_length_example :
  sorting_ranges_length [9] [0; 0; 1; 3; 3; 3] 6 = KOk [4].
Proof. vm_compute. reflexivity. Qed.

(** the caller (NumpyArray::index_sort / array_sort) allocates toindex with the length computed by
    awkward_sorting_ranges_length and passes that as tolength; true for parentslength <= 0 as well (tolength = 2) *)
Theorem sorting_ranges_safe toindex tolength parents n :
  n <= zlen parents -> tolength = 2 + changes_upto parents (Z.to_nat n) -> tolength <= zlen toindex ->
  sorting_ranges toindex tolength parents n <> KOob.
Proof.
  intros H1 Ht H2. pose proof (d3_changes_nonneg parents (Z.to_nat n)) as NN.
  unfold sorting_ranges. apply (np_noob _ (fun _ => True)). np_step.
  apply np_bind_kfor with
    (P := fun i (st : list Z * Z * Z) => zlen (fst (fst st)) = zlen toindex /\
                                         snd (fst st) = 1 + changes_upto parents (Z.to_nat i)).
  - cbn [fst snd]. rewrite zlen_set_nth. split; auto.
  - intros i [[out j] k] Hi (L & J). cbn [fst snd] in *.
    pose proof (d3_changes_S parents i (proj1 Hi)) as CS.
    pose proof (d3_changes_mono parents (Z.to_nat (i + 1)) (Z.to_nat n)) as CM.
    pose proof (d3_changes_nonneg parents (Z.to_nat i)) as CN.
    np_auto.
    + rewrite kupd_ok by lia. cbn [kbind fst snd]. apply np_ret. cbn [fst snd]. rewrite zlen_set_nth. lia.
    + cbn [fst snd]. lia.
  - intros [[out j] k] (L & J). cbn [fst snd] in *. np_auto. exact I.
Qed.

Example sorting_ranges_example :
  sorting_ranges [9; 9; 9; 9; 9] 4 [0; 0; 1; 3; 3; 3] 6 = KOk [0; 2; 3; 6; 9].
Proof. vm_compute. reflexivity. Qed.
Example sorting_ranges_example_empty :
  sorting_ranges [9; 9] 2 [] 0 = KOk [0; 0].
Proof. vm_compute. reflexivity. Qed.
(** a toindex two cells shorter than the computed length (4) is an out-of-bounds write *)
Example sorting_ranges_short_refuted :
  sorting_ranges [9; 9] 2 [0; 0; 1; 3; 3; 3] 6 = KOob.
Proof. vm_compute. reflexivity. Qed.

(* ================================================================================================ *)
(** * 2 (spec). argmin / argmax: cell q is -1 when no input has parent q, otherwise the FIRST position of the extremum
      among the inputs with parent q *)

Definition arg_first (better : Z -> Z -> bool) (parents from : list Z) (n q r : Z) : Prop :=
  (r = -1 /\ forall i, 0 <= i < n -> at_ parents i <> q) \/
  (0 <= r < n /\ at_ parents r = q /\
   (forall i, 0 <= i < n -> at_ parents i = q -> better (at_ from i) (at_ from r) = false) /\
   (forall i, 0 <= i < r -> at_ parents i = q -> better (at_ from r) (at_ from i) = true)).

Definition is_argmin (parents from : list Z) (n q r : Z) : Prop :=
  (r = -1 /\ forall i, 0 <= i < n -> at_ parents i <> q) \/
  (0 <= r < n /\ at_ parents r = q /\
   (forall i, 0 <= i < n -> at_ parents i = q -> at_ from r <= at_ from i) /\
   (forall i, 0 <= i < r -> at_ parents i = q -> at_ from r < at_ from i)).
Definition is_argmax (parents from : list Z) (n q r : Z) : Prop :=
  (r = -1 /\ forall i, 0 <= i < n -> at_ parents i <> q) \/
  (0 <= r < n /\ at_ parents r = q /\
   (forall i, 0 <= i < n -> at_ parents i = q -> at_ from i <= at_ from r) /\
   (forall i, 0 <= i < r -> at_ parents i = q -> at_ from i < at_ from r)).

Lemma d3_arg_first_other better parents from j q r :
  0 <= j -> at_ parents j <> q -> arg_first better parents from j q r -> arg_first better parents from (j + 1) q r.
Proof.
  intros Hj Ne [(R & N)|(R & P & A & B)]; [left|right].
  - split; auto. intros i Hi. destruct (Z.eq_dec i j) as [->|]; auto. apply N. lia.
  - split; [lia|]. split; auto. split; auto. intros i Hi Hp. destruct (Z.eq_dec i j) as [->|]; [congruence|]. apply A; auto. lia.
Qed.

Section ArgOrder.
  Variable better : Z -> Z -> bool.
  Hypothesis b_irrefl : forall x, better x x = false.
  Hypothesis b_trans : forall x y z, better x y = true -> better y z = true -> better x z = true.
  Hypothesis b_negtrans : forall x y z, better x y = false -> better y z = false -> better x z = false.

  Lemma d3_arg_first_new parents from j r :
    0 <= j -> arg_first better parents from j (at_ parents j) r ->
    (r = -1 \/ (r <> -1 /\ better (at_ from j) (at_ from r) = true)) ->
    arg_first better parents from (j + 1) (at_ parents j) j.
  Proof.
    intros Hj AF C. right. split; [lia|]. split; auto.
    destruct AF as [(R & N)|(R & P & A & B)].
    - split; intros i Hi Hp.
      + destruct (Z.eq_dec i j) as [->|]; auto. exfalso. apply (N i); auto. lia.
      + exfalso. apply (N i); auto.
    - destruct C as [C|(_ & C)]; [lia|]. split; intros i Hi Hp.
      + destruct (Z.eq_dec i j) as [->|]; auto.
        destruct (better (at_ from i) (at_ from j)) eqn:E; auto.
        rewrite <- (A i) by (auto; lia). symmetry. eapply b_trans; eauto.
      + destruct (better (at_ from j) (at_ from i)) eqn:E; auto.
        rewrite <- C. symmetry. eapply b_negtrans; eauto.
  Qed.

  Lemma d3_arg_first_keep parents from j r :
    0 <= j -> arg_first better parents from j (at_ parents j) r -> r <> -1 ->
    better (at_ from j) (at_ from r) = false ->
    arg_first better parents from (j + 1) (at_ parents j) r.
  Proof.
    intros Hj [(R & N)|(R & P & A & B)] Ne C; [lia|]. right. split; [lia|]. split; auto. split; auto.
    intros i Hi Hp. destruct (Z.eq_dec i j) as [->|]; auto. apply A; auto; lia.
  Qed.

  Lemma d3_reduce_arg_spec toptr fromptr parents n ol :
    red_pre toptr fromptr parents n ol ->
    exists out, reduce_arg better toptr fromptr parents n ol = KOk out /\ zlen out = zlen toptr /\
      forall q, 0 <= q ->
        if q <? ol then arg_first better parents fromptr n q (at_ out q) else at_ out q = at_ toptr q.
  Proof.
    intros (Hn & Hol & Hp & Hf & Ht & Hr). unfold reduce_arg.
    rewrite (kfill_spec 0 ol _ (fun _ => -1)); auto; try lia. cbn [kbind]. rewrite Z.max_r by lia.
    set (out0 := filled 0 ol (fun _ => -1) toptr).
    match goal with |- exists out, kfor 0 n ?b _ = _ /\ _ =>
      destruct (kfor_inv b
        (fun j out => zlen out = zlen toptr /\ forall q, 0 <= q ->
           if q <? ol then arg_first better parents fromptr j q (at_ out q) else at_ out q = at_ toptr q)
        0 n out0) as (s' & E & P); auto end.
    - split; [apply zlen_filled; lia|]. intros q Hq. unfold out0. rewrite d3_at_filled_const by lia.
      destruct (q <? ol); auto. left. split; auto. intros i Hi. lia.
    - intros j out Hj (L & A). specialize (Hr j Hj).
      pose proof (A (at_ parents j) (proj1 Hr)) as Ap. replace (at_ parents j <? ol) with true in Ap by lia.
      assert (Other : forall o', zlen o' = zlen toptr ->
                (forall q, 0 <= q -> q <> at_ parents j -> at_ o' q = at_ out q) ->
                arg_first better parents fromptr (j + 1) (at_ parents j) (at_ o' (at_ parents j)) ->
                zlen o' = zlen toptr /\ forall q, 0 <= q ->
                  if q <? ol then arg_first better parents fromptr (j + 1) q (at_ o' q) else at_ o' q = at_ toptr q).
      { intros o' L' Same New. split; auto. intros q Hq. destruct (Z.eq_dec q (at_ parents j)) as [->|Ne].
        - now replace (at_ parents j <? ol) with true by lia.
        - rewrite Same by auto. specialize (A q Hq). destruct (q <? ol); auto.
          apply d3_arg_first_other; auto; lia. }
      rewrite (kget_at parents) by lia. cbn [kbind]. rewrite (kget_at out) by lia. cbn [kbind].
      assert (Upd : exists o', kupd out (at_ parents j) j = KOk o' /\ zlen o' = zlen toptr /\
                (forall q, 0 <= q -> q <> at_ parents j -> at_ o' q = at_ out q) /\ at_ o' (at_ parents j) = j).
      { rewrite kupd_ok by lia. eexists; split; eauto. rewrite zlen_set_nth. split; auto. split.
        - intros q Hq Ne. rewrite d3_at_set by lia. now replace (q =? at_ parents j) with false by lia.
        - rewrite d3_at_set by lia. now rewrite Z.eqb_refl. }
      destruct Upd as (o' & U & L' & Same & New).
      destruct (at_ out (at_ parents j) =? -1) eqn:C.
      + rewrite U. exists o'. split; auto. apply Other; auto. rewrite New.
        apply (d3_arg_first_new parents fromptr j (at_ out (at_ parents j))); auto; lia.
      + assert (Rng : 0 <= at_ out (at_ parents j) < j) by (destruct Ap as [(R & _)|(R & _)]; lia).
        rewrite (kget_at fromptr j), (kget_at fromptr (at_ out (at_ parents j))) by lia. cbn [kbind].
        destruct (better (at_ fromptr j) (at_ fromptr (at_ out (at_ parents j)))) eqn:Bt.
        * rewrite U. exists o'. split; auto. apply Other; auto. rewrite New.
          apply (d3_arg_first_new parents fromptr j (at_ out (at_ parents j))); auto; try lia. right. split; [lia|auto].
        * exists out. split; auto. apply Other; auto. apply d3_arg_first_keep; auto; lia.
    - exists s'. destruct P as (L & A). auto.
  Qed.
End ArgOrder.

Theorem reduce_argmin_spec toptr fromptr parents n ol :
  red_pre toptr fromptr parents n ol ->
  exists out, reduce_argmin toptr fromptr parents n ol = KOk out /\ zlen out = zlen toptr /\
    forall q, 0 <= q -> if q <? ol then is_argmin parents fromptr n q (at_ out q) else at_ out q = at_ toptr q.
Proof.
  intros Pre.
  destruct (d3_reduce_arg_spec (fun x y => x <? y) ltac:(intros; lia) ltac:(intros; lia) ltac:(intros; lia) _ _ _ _ _ Pre)
    as (out & E & L & A).
  exists out. split; auto. split; auto. intros q Hq. specialize (A q Hq). destruct (q <? ol); auto.
  destruct A as [A|(R & P & A & B)]; [left; auto|right]. split; auto. split; auto. split; intros i Hi Hp.
  - specialize (A i Hi Hp). lia.
  - specialize (B i Hi Hp). lia.
Qed.

Theorem reduce_argmax_spec toptr fromptr parents n ol :
  red_pre toptr fromptr parents n ol ->
  exists out, reduce_argmax toptr fromptr parents n ol = KOk out /\ zlen out = zlen toptr /\
    forall q, 0 <= q -> if q <? ol then is_argmax parents fromptr n q (at_ out q) else at_ out q = at_ toptr q.
Proof.
  intros Pre.
  destruct (d3_reduce_arg_spec (fun x y => y <? x) ltac:(intros; lia) ltac:(intros; lia) ltac:(intros; lia) _ _ _ _ _ Pre)
    as (out & E & L & A).
  exists out. split; auto. split; auto. intros q Hq. specialize (A q Hq). destruct (q <? ol); auto.
  destruct A as [A|(R & P & A & B)]; [left; auto|right]. split; auto. split; auto. split; intros i Hi Hp.
  - specialize (A i Hi Hp). lia.
  - specialize (B i Hi Hp). lia.
Qed.
