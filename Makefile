# setup: build everything the checks need (offline). Checks rebuild incrementally themselves.
setup:
	cd coq && coq_makefile -f _CoqProject -o Makefile.coq >/dev/null && $(MAKE) -f Makefile.coq -j16
	$(MAKE) -C ocaml
	$(MAKE) -s -k -C impl -j16 || true
	-for p in c04 c08 c13 c14 c15 c16 c17 c18 c19; do python3 -c "import sys; sys.path.insert(0,'/verif/harness'); import importlib; m=importlib.import_module('props.$$p'); m.build()" || true; done
clean:
	rm -rf .build coq/*.vo coq/*.vok coq/*.vos coq/*.glob coq/Makefile.coq*
.PHONY: setup clean
