(** C05 property theorems (proofs in Proofs_C05.v; the refinement of the layout-level models to
    these specifications is in Proofs_AtAxis.v when present). *)
From AwkV Require Import Layout Ops_Struct Ops_Flatten Ops_Getitem Proofs_C05.
From AwkV Require Import Valid Types AtAxis Carry Proofs_Lists Proofs_ToList Proofs_Carry Proofs_AtAxis Proofs_AtAxisOps.

(* unflatten(flatten(x), num(x)) reproduces x when no list is missing *)
Theorem unflatten_flatten : forall (ls : list (list value)), regroup (map zlen ls) (concat ls) = ls.
Proof. exact (@regroup_concat value). Qed.
Print Assumptions unflatten_flatten.

Theorem flatten_concatenates_in_order : forall l ls,
  mapM elems_of l = Ok ls -> flat_f TUnk l = Ok (VList (concat ls)).
Proof. exact flatten_is_concat. Qed.
Print Assumptions flatten_concatenates_in_order.

Theorem missing_list_contributes_nothing : forall l, elems_of VNone = Ok (@nil value) /\ elems_of (VList l) = Ok l.
Proof. exact flatten_skips_missing. Qed.
Print Assumptions missing_list_contributes_nothing.

Theorem num_gives_lengths : forall t l, num_f t l = Ok (VNum (DZ (zlen l))).
Proof. exact num_is_length. Qed.
Print Assumptions num_gives_lengths.

Theorem local_index_counts_from_zero : forall t l,
  localindex_f t l = Ok (VList (map (fun i => VNum (DZ i)) (iota (zlen l)))).
Proof. exact localindex_is_iota. Qed.
Print Assumptions local_index_counts_from_zero.

Theorem offsets_are_running_sums : forall s lens,
  length (offsets_from s lens) = S (length lens) /\ last (offsets_from s lens) 0 = s + sumZ lens.
Proof. exact (fun s lens => conj (offsets_from_length s lens) (offsets_from_last s lens)). Qed.
Print Assumptions offsets_are_running_sums.

(* ---- refinement: the layout-level models compute exactly the value-level specification,
        for every valid layout of the fragment [frag] (every node class except UnionArray;
        strings and n-d NumpyArray included), every axis, with equal error status ---- *)
Theorem num_refines_spec : forall c axis vs,
  Valid None c -> frag c = true -> to_list c = Ok vs ->
  obs (num_model axis c) = num_spec axis (type_of c) vs.
Proof. exact num_refines. Qed.
Print Assumptions num_refines_spec.

Theorem local_index_refines_spec : forall c axis vs,
  Valid None c -> frag c = true -> to_list c = Ok vs ->
  obs (localindex_model axis c) = localindex_spec axis (type_of c) vs.
Proof. exact localindex_refines. Qed.
Print Assumptions local_index_refines_spec.

(* the semantics is length-faithful: a layout's value has exactly the layout's length *)
Theorem value_has_layout_length : forall c p vs, Valid p c -> to_list c = Ok vs -> zlen vs = clen c.
Proof. exact to_list_length. Qed.
Print Assumptions value_has_layout_length.

(* ---- refinement of flatten: the layout-level model (C++ offsets_and_flattened, inner offsets handed upwards)
        computes exactly the value-level specification, every axis (positive, negative, negative through records of
        mixed depth), values and error status.  _partial: [noempty c] (no EmptyArray node) is needed -- the
        specification refuses the unknown type at the flattened level, the model (and the C++) accept it:
        Proofs_Flatten.flatten_refines_spec_empty_refuted, _refuted2 ---- *)
From AwkV Require Import Proofs_FlattenA Proofs_FlattenB Proofs_Flatten.

Theorem flatten_refines_spec_partial : forall axis c vs,
  Valid None c -> frag c = true -> noempty c = true -> to_list c = Ok vs ->
  obs (flatten_model axis c) = flatten_spec axis (type_of c) vs.
Proof. exact Proofs_Flatten.flatten_refines_spec_partial. Qed.
Print Assumptions flatten_refines_spec_partial.

Theorem flatten_axis1_refines_spec_partial : forall c vs,
  Valid None c -> frag c = true -> noempty c = true -> to_list c = Ok vs ->
  obs (flatten_model 1 c) =
  (if is_plain_list (type_of c) then do ls <- mapM elems_of vs; Ok (concat ls) else Err EValue).
Proof. exact Proofs_Flatten.flatten_axis1_refines_spec_partial. Qed.
Print Assumptions flatten_axis1_refines_spec_partial.

(* the invariant of the node AT the flattened level (at any depth): the returned content is the concatenation
   of the lists (a missing list counts as empty), the returned inner offsets are the running lengths, so they cut
   the content back into the per-element lists ([offsets_are_running_sums], Proofs_AtAxisOps.cut_concat);
   [okA]: the node ending the chain of option / index wrappers is not an n-d leaf and not an EmptyArray *)
Theorem flatten_level_invariant : forall c d vs,
  0 <= d -> Valid None c -> okA c = true -> to_list c = Ok vs ->
  if is_plain_list (type_of c) then
    exists Ls fc, flat_p None c d (d + 1) = Ok (offsets_from 0 (map zlen Ls), fc) /\ mapM elems_of vs = Ok Ls /\
                  to_list fc = Ok (concat Ls) /\ Valid None fc
  else flat_p None c d (d + 1) = Err EValue.
Proof. exact flat_level_spec. Qed.
Print Assumptions flatten_level_invariant.

Theorem inner_offsets_cut_back : forall (Ls : list (list value)),
  cut (concat Ls) (offsets_from 0 (map zlen Ls)) = Ok Ls.
Proof. exact (@cut_concat value). Qed.
Print Assumptions inner_offsets_cut_back.
