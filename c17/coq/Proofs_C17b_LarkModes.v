(** C17, model of the Lark parser: in low-level mode no ArrayType is ever built (the flag of [lark_parse_full false]
    is false, [lark_parse false] never answers [Err EOob]). *)
From Coq Require Import ZArith List Bool Lia.
From AwkV Require Import Base Layout.
From AwkTypes Require Import Json Forms TypeStr Lark.
Import ListNotations.
Open Scope Z_scope.

Ltac lk_step H :=
  match type of H with
  | bind ?x _ = Ok _ => let E := fresh "E" in destruct x eqn:E; cbn [bind] in H; [|discriminate H]
  | context [match ?x with _ => _ end] => let E := fresh "E" in destruct x eqn:E; try discriminate H
  end.
Ltac lk_steps H := repeat lk_step H.

Definition noarr {A} (sub : A -> bytes -> res pres) : Prop := forall c s p, sub c s = Ok p -> snd (fst p) = false.

Section NoArr.
  Variable sub : bool -> bytes -> res pres.
  Hypothesis Hsub : noarr sub.

  Lemma lk_list_noarr : forall fuel close s p, lk_list sub fuel close s = Ok p -> snd (fst p) = false.
  Proof.
    induction fuel as [|fuel IH]; intros close s p H; [discriminate H|]. cbn [lk_list] in H.
    lk_steps H; inversion H; subst; cbn [fst snd].
    - eapply Hsub; eassumption.
    - match goal with E : sub _ _ = Ok _ |- _ => rewrite (Hsub _ _ _ E) end.
      match goal with E : lk_list _ _ _ _ = Ok _ |- _ => rewrite (IH _ _ _ E) end. reflexivity.
  Qed.

  Lemma lk_ulist_noarr : forall fuel s p, lk_ulist sub fuel s = Ok p -> snd (fst p) = false.
  Proof.
    induction fuel as [|fuel IH]; intros s p H; [discriminate H|]. cbn [lk_ulist] in H.
    lk_steps H; inversion H; subst; cbn [fst snd]; try (eapply Hsub; eassumption).
    match goal with E : sub _ _ = Ok _ |- _ => rewrite (Hsub _ _ _ E) end.
    match goal with E : lk_ulist _ _ _ = Ok _ |- _ => apply IH in E; cbn [fst snd] in E; rewrite E end. reflexivity.
  Qed.

  Lemma lk_fields_noarr : forall fuel close s p, lk_fields sub fuel close s = Ok p -> snd (fst p) = false.
  Proof.
    induction fuel as [|fuel IH]; intros close s p H; [discriminate H|]. cbn [lk_fields] in H.
    lk_steps H; inversion H; subst; cbn [fst snd].
    - eapply Hsub; eassumption.
    - match goal with E : sub _ _ = Ok _ |- _ => rewrite (Hsub _ _ _ E) end.
      match goal with E : lk_fields _ _ _ _ = Ok _ |- _ => rewrite (IH _ _ _ E) end. reflexivity.
  Qed.

  Ltac fin :=
    cbn [fst snd orb];
    try reflexivity;
    try (eapply Hsub; eassumption);
    try (eapply lk_list_noarr; eassumption);
    try (eapply lk_fields_noarr; eassumption);
    try (match goal with E : lk_ulist _ _ _ = Ok _ |- _ => apply lk_ulist_noarr in E; exact E end).

  Lemma lk_keyword_noarr fuel cat k r p : lk_keyword false sub fuel cat k r = Ok p -> snd (fst p) = false.
  Proof.
    intros H. destruct k; cbn [lk_keyword] in H; lk_steps H; inversion H; subst; fin.
  Qed.

  Lemma lk_input_noarr fuel cat s p : lk_input false sub fuel cat s = Ok p -> snd (fst p) = false.
  Proof.
    intros H. unfold lk_input in H. cbv zeta in H.
    destruct (skip_ws s) as [|c r] eqn:Es; [discriminate H|].
    destruct (c =? 63). { unfold lk_question in H. lk_steps H; inversion H; subst; fin. }
    destruct (c =? 40). { unfold lk_paren in H. lk_steps H; inversion H; subst; fin. }
    destruct (c =? 123). { unfold lk_brace in H. lk_steps H; inversion H; subst; fin. }
    destruct (c =? 91). { unfold lk_bracket in H. lk_steps H; inversion H; subst; fin. }
    destruct (is_numstart c). { unfold lk_regular in H. lk_steps H; inversion H; subst; fin. }
    destruct (is_letter c); [|discriminate H].
    destruct (lex_kw kw_table (c :: r)) as [[k r1]|].
    - eapply lk_keyword_noarr; eassumption.
    - unfold lk_named in H. lk_steps H; inversion H; subst; fin.
  Qed.
End NoArr.

Lemma lk_ty_noarr : forall fuel, noarr (lk_ty false fuel).
Proof.
  induction fuel as [|fuel IH]; intros c s p H; [discriminate H|].
  cbn [lk_ty] in H. eapply lk_input_noarr; eassumption.
Qed.

Theorem lark_lowlevel_no_arraytype_full s t a : lark_parse_full false s = Ok (t, a) -> a = false.
Proof.
  unfold lark_parse_full. intros H. lk_steps H; inversion H; subst.
  match goal with E : lk_ty _ _ _ _ = Ok ?p |- _ => pose proof (lk_ty_noarr _ _ _ _ E) as Hn end.
  match goal with Hx : fst ?p = (t, a) |- _ => rewrite Hx in Hn end. exact Hn.
Qed.

(* so in low-level mode [lark_parse] is [lark_parse_full] without the flag: the outcome [Err EOob] of [lark_parse]
   can only come from the flag *)
Theorem lark_lowlevel_no_arraytype s : lark_parse false s = rmap fst (lark_parse_full false s).
Proof.
  unfold lark_parse. destruct (lark_parse_full false s) as [[t a]|e] eqn:E; cbn [bind rmap fst snd]; [|reflexivity].
  rewrite (lark_lowlevel_no_arraytype_full s t a E). reflexivity.
Qed.

Example lark_lowlevel_no_arraytype_ex :
  lark_parse_full false [51; 32; 42; 32; 105; 110; 116; 54; 52] = Ok (RReg [] [] 3 (RNum [] [] (FD DInt64)), false) /\
  lark_parse_full true [51; 32; 42; 32; 105; 110; 116; 54; 52] = Ok (RReg [] [] 3 (RNum [] [] (FD DInt64)), true).
Proof. split; vm_compute; reflexivity. Qed.
