(** C17b, range slicing and field projection at the level of forms / types WITH parameters:
    [carry] (hence [crange], c[a:b]) keeps the Form up to the node classes it rewrites (ListOffsetArray -> ListArray,
    BitMaskedArray -> ByteMaskedArray), hence keeps Form::type with ALL parameters and the item types;
    shapes: inner dimensions of an n-d NumpyArray and the size of a RegularArray survive any slice, also empty ones;
    [field_content] / [fields_content] produce a layout whose type is the projected type. *)
From Coq Require Import ZArith List Bool Lia ZifyBool String.
From AwkV Require Import Base Layout LayoutInd Valid Types Carry Ops_Getitem Proofs_Lists Proofs_ToList
                         Proofs_Carry Proofs_CarryValid Proofs_C11.
From AwkTypes Require Import Json Forms TypeStr Typing Proofs_Depth Proofs_Types Proofs_Typing Proofs_Json Examples_C17.
Import ListNotations.
Open Scope Z_scope.
Ltac Zify.zify_post_hook ::= Z.to_euclidean_division_equations.

(* ---------------------------------------------------------------- forms up to what carry rewrites *)
(* ListOffsetForm and ListForm identified (as a ListForm whose starts and stops have the offsets' width);
   BitMaskedForm and ByteMaskedForm identified (mask width and bit order forgotten, valid_when kept).
   Everything else -- parameters, keys, index widths, sizes, inner shapes, dtypes -- is kept. *)
Fixpoint form_norm (f : form) {struct f} : form :=
  match f with
  | FNumpy _ _ _ _ _ | FEmpty _ => f
  | FListOffset m o c => FList m o o (form_norm c)
  | FList m s e c => FList m s e (form_norm c)
  | FRegular m c size => FRegular m (form_norm c) size
  | FIndexed m i c => FIndexed m i (form_norm c)
  | FIndexedOption m i c => FIndexedOption m i (form_norm c)
  | FByteMasked m _ c vw => FByteMasked m Fi8 (form_norm c) vw
  | FBitMasked m _ c vw _ => FByteMasked m Fi8 (form_norm c) vw
  | FUnmasked m c => FUnmasked m (form_norm c)
  | FUnion m t i cs => FUnion m t i (map form_norm cs)
  | FRecord m ks cs => FRecord m ks (map form_norm cs)
  | FVirtual m None hl => f
  | FVirtual m (Some g) hl => FVirtual m (Some (form_norm g)) hl
  end.

Lemma mapM_id_ext {A} (F G : form -> res A) (cs : list form) :
  Forall (fun f => F f = G f) cs -> mapM_id (map F cs) = mapM_id (map G cs).
Proof. induction 1 as [|f cs Hf _ IH]; [reflexivity|]. cbn [map mapM_id]. rewrite Hf, IH. reflexivity. Qed.

(* Form::type does not see the difference *)
Theorem type_of_form_norm ts f : type_of_form ts (form_norm f) = type_of_form ts f.
Proof.
  induction f as [ | | | | | | | | | | m t i cs HF | m ks cs HF | | ] using form_ind';
    cbn [form_norm type_of_form]; try rewrite IHf; try reflexivity.
  - rewrite map_map. rewrite (mapM_id_ext (fun x => type_of_form ts (form_norm x)) (type_of_form ts) cs HF). reflexivity.
  - rewrite map_map. rewrite (mapM_id_ext (fun x => type_of_form ts (form_norm x)) (type_of_form ts) cs HF). reflexivity.
Qed.

Theorem item_types_norm ts f : item_types ts (form_norm f) = item_types ts f.
Proof.
  induction f as [ | | | | | | | | | | m t i cs HF | m ks cs HF | | ] using form_ind';
    cbn [form_norm item_types]; try rewrite IHf; try rewrite type_of_form_norm; try reflexivity.
  - rewrite map_map. rewrite (mapM_id_ext (fun x => item_types ts (form_norm x)) (item_types ts) cs HF). reflexivity.
  - (* Record: the item is the record type itself *)
    change (FRecord m ks (map form_norm cs)) with (form_norm (FRecord m ks cs)). rewrite type_of_form_norm. reflexivity.
Qed.

(* ---------------------------------------------------------------- carry keeps the normalised form *)
Lemma carry_all_forms (cs : list content) ix :
  Forall (fun c => forall ix c', carry c ix = Ok c' -> forall a r, form_norm (form_of_p a r c') = form_norm (form_of_p a r c)) cs ->
  forall cs',
    (fix all (l : list content) : res (list content) :=
       match l with
       | [] => Ok []
       | x :: xs => do y <- carry x ix; do ys <- all xs; Ok (y :: ys)
       end) cs = Ok cs' ->
    map form_norm (map (form_of_p None None) cs') = map form_norm (map (form_of_p None None) cs).
Proof.
  induction 1 as [|c cs Hc Hcs IH]; intros cs' H.
  - inversion H. reflexivity.
  - destruct (carry c ix) as [y|] eqn:Ey; [|discriminate]. cbn [bind] in H.
    match type of H with bind ?X _ = _ => destruct X as [ys|] eqn:Eys end; [|discriminate].
    cbn [bind] in H. inversion H; subst. cbn [map]. rewrite (Hc ix y Ey None None), (IH ys eq_refl). reflexivity.
Qed.

Theorem carry_preserves_form_norm c : forall ix c', carry c ix = Ok c' ->
  forall a r, form_norm (form_of_p a r c') = form_norm (form_of_p a r c).
Proof.
  induction c as [ | | | | | | | | | | w t ix cs HF | cs ks n HF | ] using content_ind'; intros ix' c' H a r; cbn [carry] in H.
  - destruct shape as [|n dims]; [discriminate|].
    destruct (mapM _ ix') as [rows|]; [|discriminate]. cbn [bind] in H. inversion H; subst. reflexivity.
  - destruct ix'; inversion H; reflexivity.
  - destruct (gather (removelast o) ix'); [|discriminate]. cbn [bind] in H.
    destruct (gather (tl o) ix'); [|discriminate]. cbn [bind] in H. inversion H; subst. reflexivity.
  - destruct (gather s ix'); [|discriminate]. cbn [bind] in H.
    destruct (gather e ix'); [|discriminate]. cbn [bind] in H. inversion H; subst. reflexivity.
  - destruct (mapM _ ix') as [next|]; [|discriminate]. cbn [bind] in H.
    destruct (carry c (concat next)) as [c''|] eqn:Ec; [|discriminate]. cbn [bind] in H. inversion H; subst.
    cbn [form_of_p form_norm]. rewrite (IHc _ _ Ec None None). reflexivity.
  - destruct (gather ix ix'); [|discriminate]. cbn [bind] in H. inversion H; subst. reflexivity.
  - destruct (gather ix ix'); [|discriminate]. cbn [bind] in H. inversion H; subst. reflexivity.
  - destruct (gather m ix'); [|discriminate]. cbn [bind] in H.
    destruct (carry c ix') as [c''|] eqn:Ec; [|discriminate]. cbn [bind] in H. inversion H; subst.
    cbn [form_of_p form_norm]. rewrite (IHc _ _ Ec None None). reflexivity.
  - destruct (bytemask_of_bits m lsb n) as [bm|]; [|discriminate]. cbn [bind] in H.
    destruct (gather bm ix'); [|discriminate]. cbn [bind] in H.
    destruct (carry c ix') as [c''|] eqn:Ec; [|discriminate]. cbn [bind] in H. inversion H; subst.
    cbn [form_of_p form_norm]. rewrite (IHc _ _ Ec None None). reflexivity.
  - destruct (carry c ix') as [c''|] eqn:Ec; [|discriminate]. cbn [bind] in H. inversion H; subst.
    cbn [form_of_p form_norm]. rewrite (IHc _ _ Ec None None). reflexivity.
  - destruct (gather t ix'); [|discriminate]. cbn [bind] in H.
    destruct (gather (take (zlen t) ix) ix'); [|discriminate]. cbn [bind] in H. inversion H; subst. reflexivity.
  - destruct (forallb _ ix'); [|discriminate].
    match type of H with bind ?X _ = _ => destruct X as [cs'|] eqn:Ecs end; [|discriminate].
    cbn [bind] in H. inversion H; subst. cbn [form_of_p form_norm]. f_equal.
    apply (carry_all_forms cs ix'); [|exact Ecs]. exact HF.
  - destruct (carry c ix') as [c''|] eqn:Ec; [|discriminate]. cbn [bind] in H. inversion H; subst.
    cbn [form_of_p]. apply (IHc _ _ Ec).
Qed.

(* the most valuable consequence: Form::type with ALL parameters (not only the erased core type) is kept *)
Theorem carry_preserves_rtype_thm ts c ix c' :
  carry c ix = Ok c' -> type_of_form ts (form_of c') = type_of_form ts (form_of c).
Proof.
  intros H. rewrite <- (type_of_form_norm ts (form_of c')), <- (type_of_form_norm ts (form_of c)).
  unfold form_of. rewrite (carry_preserves_form_norm c ix c' H None None). reflexivity.
Qed.

Theorem carry_preserves_item_types_thm ts c ix c' :
  carry c ix = Ok c' -> item_types ts (form_of c') = item_types ts (form_of c).
Proof.
  intros H. rewrite <- (item_types_norm ts (form_of c')), <- (item_types_norm ts (form_of c)).
  unfold form_of. rewrite (carry_preserves_form_norm c ix c' H None None). reflexivity.
Qed.

Theorem crange_preserves_form_norm_thm c a b c' :
  crange c a b = Ok c' -> form_norm (form_of c') = form_norm (form_of c).
Proof. intros H. exact (carry_preserves_form_norm c (range a b) c' H None None). Qed.

Theorem crange_preserves_rtype_thm ts c a b c' :
  crange c a b = Ok c' -> type_of_form ts (form_of c') = type_of_form ts (form_of c).
Proof. apply carry_preserves_rtype_thm. Qed.

(* the type STRING is therefore unchanged *)
Theorem crange_preserves_typestring_thm ts c a b c' :
  crange c a b = Ok c' ->
  rmap type_tostring (type_of_form ts (form_of c')) = rmap type_tostring (type_of_form ts (form_of c)).
Proof. intros H. rewrite (crange_preserves_rtype_thm ts c a b c' H). reflexivity. Qed.

(* plain equality of forms is FALSE: the slice of a ListOffsetArray is a ListArray, of a BitMaskedArray a
   ByteMaskedArray (exactly like the C++: getitem_range_nowrap of ListOffsetArray keeps offsets, but carry -- and
   getitem_range on BitMaskedArray -- convert; the model slices through carry) *)
Example carry_preserves_form_refuted :
  let c := ListOffset I64 [0; 1] (Numpy DInt64 [1] [DZ 5]) in
  exists c', crange c 0 1 = Ok c' /\ form_of c' <> form_of c /\ form_norm (form_of c') = form_norm (form_of c).
Proof. eexists. split; [vm_compute; reflexivity|]. split; [discriminate|reflexivity]. Qed.

Example carry_preserves_form_bitmasked_refuted :
  let c := BitMasked [1] true true 1 (Numpy DInt64 [1] [DZ 5]) in
  exists c', crange c 0 1 = Ok c' /\ form_of c' <> form_of c /\ form_norm (form_of c') = form_norm (form_of c).
Proof. eexists. split; [vm_compute; reflexivity|]. split; [discriminate|reflexivity]. Qed.

(* ---------------------------------------------------------------- shapes *)
(* n-d NumpyArray: ANY gather keeps dtype and every inner dimension (zero dimensions included); the leading
   dimension becomes the number of selected rows, the buffer has exactly that many rows *)
Lemma zlen_concat_rows {A} (F : Z -> res (list A)) rs ix rows :
  (forall i r, F i = Ok r -> zlen r = rs) -> mapM F ix = Ok rows -> zlen (concat rows) = zlen ix * rs.
Proof.
  intros HF. revert rows. induction ix as [|i ix IH]; intros rows H.
  - inversion H. reflexivity.
  - rewrite mapM_cons in H. apply bind_Ok in H as (r & Hr & H). apply bind_Ok in H as (rows' & Hrows & H).
    inversion H; subst. cbn [concat]. rewrite zlen_app, zlen_cons, (HF _ _ Hr), (IH _ Hrows). lia.
Qed.

Theorem carry_numpy_shape_thm dt n dims data ix c' :
  carry (Numpy dt (n :: dims) data) ix = Ok c' ->
  exists data', c' = Numpy dt (zlen ix :: dims) data' /\ zlen data' = zlen ix * prodZ dims.
Proof.
  cbn [carry]. intros H. apply bind_Ok in H as (rows & Hrows & H). inversion H; subst. eexists. split; [reflexivity|].
  eapply zlen_concat_rows; [|exact Hrows]. intros i r Hr. cbv beta in Hr.
  destruct ((0 <=? i) && (i <? n)); [|discriminate]. apply slice_zlen in Hr. lia.
Qed.

Theorem crange_numpy_shape_thm dt n dims data a b c' :
  a <= b -> crange (Numpy dt (n :: dims) data) a b = Ok c' ->
  exists data', c' = Numpy dt ((b - a) :: dims) data' /\ zlen data' = (b - a) * prodZ dims.
Proof.
  intros Hab H. destruct (carry_numpy_shape_thm _ _ _ _ _ _ H) as (data' & -> & Hd).
  rewrite zlen_range in * by lia. eauto.
Qed.

(* ... and it succeeds exactly for 0 <= a <= b <= n on a valid array (from the core refinement theorem) *)
Theorem crange_numpy_total_thm dt n dims data a b :
  Valid None (Numpy dt (n :: dims) data) -> 0 <= a -> a <= b -> b <= n ->
  exists data', crange (Numpy dt (n :: dims) data) a b = Ok (Numpy dt ((b - a) :: dims) data') /\
                zlen data' = (b - a) * prodZ dims.
Proof.
  intros HV Ha Hab Hb.
  destruct (valid_to_list_total_nopar _ _ HV eq_refl) as (vs & Hvs).
  destruct (crange_spec _ vs a b HV Hvs Ha Hab Hb) as (c' & Hc & _).
  destruct (crange_numpy_shape_thm _ _ _ _ _ _ _ Hab Hc) as (data' & -> & Hd). eauto.
Qed.

(* RegularArray: any gather keeps the size (size 0 included: the length is then carried by zeros_length) *)
Theorem carry_regular_size_thm c size zl ix c' :
  carry (Regular c size zl) ix = Ok c' -> exists c'', c' = Regular c'' size (zlen ix).
Proof.
  cbn [carry]. intros H. apply bind_Ok in H as (next & _ & H). apply bind_Ok in H as (c'' & _ & H).
  inversion H; subst. eauto.
Qed.

Theorem crange_regular_size_thm c size zl a b c' :
  a <= b -> crange (Regular c size zl) a b = Ok c' -> exists c'', c' = Regular c'' size (b - a).
Proof. intros Hab H. destruct (carry_regular_size_thm _ _ _ _ _ H) as (c'' & ->). rewrite zlen_range by lia. eauto. Qed.

(* the length of a gather is the length of the index, for every node class, provided RegularArray sizes are not
   negative (the only hypothesis needed: with size < 0 the model's Regular node has clen = clen c / size) *)
Fixpoint reg_nonneg (c : content) : bool :=
  match c with
  | Numpy _ _ _ | Empty => true
  | Regular c' size _ => (0 <=? size) && reg_nonneg c'
  | ListOffset _ _ c' | ListA _ _ _ c' | Indexed _ _ c' | IndexedOption _ _ c'
  | ByteMasked _ _ c' | BitMasked _ _ _ _ c' | Unmasked c' | Par _ _ c' => reg_nonneg c'
  | Union _ _ _ cs | Record cs _ _ => forallb reg_nonneg cs
  end.

Lemma zlen_range_nonneg a b : zlen (range a b) = Z.max 0 (b - a).
Proof. destruct (Z_le_gt_dec a b); [rewrite zlen_range by lia; lia|rewrite range_empty by lia; rewrite zlen_nil; lia]. Qed.

Theorem carry_len_thm c : forall ix c', reg_nonneg c = true -> carry c ix = Ok c' -> clen c' = zlen ix.
Proof.
  induction c as [ | | | | | | | | | | w t ix cs HF | cs ks n HF | ] using content_ind'; intros ix' c' Hr H; cbn [carry] in H;
    cbn [reg_nonneg] in Hr.
  - destruct shape as [|n dims]; [discriminate|]. apply bind_Ok in H as (rows & _ & H). inversion H; subst. reflexivity.
  - destruct ix'; inversion H; reflexivity.
  - apply bind_Ok in H as (s & Hs & H). apply bind_Ok in H as (e & _ & H). inversion H; subst. cbn [clen].
    exact (mapM_zlen _ _ _ Hs).
  - apply bind_Ok in H as (s' & Hs & H). apply bind_Ok in H as (e' & _ & H). inversion H; subst. cbn [clen].
    exact (mapM_zlen _ _ _ Hs).
  - apply andb_true_iff in Hr as [Hsz Hr]. apply bind_Ok in H as (next & Hn & H). apply bind_Ok in H as (c'' & Hc & H).
    inversion H; subst. cbn [clen]. destruct (size =? 0) eqn:E0; [reflexivity|].
    rewrite (IHc _ _ Hr Hc).
    assert (Hz : zlen (concat next) = zlen ix' * size).
    { eapply zlen_concat_rows; [|exact Hn]. intros i r Hi. cbv beta in Hi.
      destruct ((0 <=? i) && _); [|discriminate]. inversion Hi; subst. rewrite zlen_range by lia. lia. }
    rewrite Hz. apply Z.div_mul. lia.
  - apply bind_Ok in H as (j & Hj & H). inversion H; subst. exact (mapM_zlen _ _ _ Hj).
  - apply bind_Ok in H as (j & Hj & H). inversion H; subst. exact (mapM_zlen _ _ _ Hj).
  - apply bind_Ok in H as (m' & Hm & H). apply bind_Ok in H as (c'' & _ & H). inversion H; subst. exact (mapM_zlen _ _ _ Hm).
  - apply bind_Ok in H as (bm & _ & H). apply bind_Ok in H as (m' & Hm & H). apply bind_Ok in H as (c'' & _ & H).
    inversion H; subst. exact (mapM_zlen _ _ _ Hm).
  - apply bind_Ok in H as (c'' & Hc & H). inversion H; subst. cbn [clen]. exact (IHc _ _ Hr Hc).
  - apply bind_Ok in H as (t' & Ht & H). apply bind_Ok in H as (j & _ & H). inversion H; subst. exact (mapM_zlen _ _ _ Ht).
  - destruct (forallb _ ix'); [|discriminate]. apply bind_Ok in H as (cs' & _ & H). inversion H; subst. reflexivity.
  - apply bind_Ok in H as (c'' & Hc & H). inversion H; subst. cbn [clen]. exact (IHc _ _ Hr Hc).
Qed.


Lemma valid_reg_nonneg c : forall p, Valid p c -> reg_nonneg c = true.
Proof.
  induction c as [ | | | | | | | | | | w t ix cs HF | cs ks n HF | ] using content_ind'; intros p HV; inversion HV; subst;
    cbn [reg_nonneg]; try reflexivity;
    try (match goal with Hv : Valid None c |- _ => exact (IHc None Hv) end);
    try (destruct (is_strk p) eqn:Es;
         [ destruct p as [[]|]; try discriminate Es;
           match goal with Hp : ParamOk _ _ |- _ =>
             cbn [ParamOk list_content] in Hp; destruct Hp as (cc & rn & n' & d & Hcc & ->); inversion Hcc; subst end;
           try reflexivity; (apply andb_true_iff; split; [lia|reflexivity])
         | match goal with Hs : _ = false -> Valid None c |- _ => pose proof (IHc None (Hs eq_refl)) as Hc end;
           try exact Hc; (apply andb_true_iff; split; [lia|exact Hc]) ]).
  - apply forallb_forall. intros x Hx. rewrite Forall_forall in HF.
    match goal with HVs : Forall (Valid None) cs |- _ => rewrite Forall_forall in HVs; exact (HF x Hx None (HVs x Hx)) end.
  - apply forallb_forall. intros x Hx. rewrite Forall_forall in HF.
    match goal with HVs : Forall (Valid None) cs |- _ => rewrite Forall_forall in HVs; exact (HF x Hx None (HVs x Hx)) end.
  - eapply IHc. eassumption.
Qed.

(* the length of c[a:b] is b - a whenever the slice exists: every node class, no hypothesis on the buffers *)
Theorem crange_len_thm c a b c' : Valid None c -> a <= b -> crange c a b = Ok c' -> clen c' = b - a.
Proof.
  intros HV Hab H. unfold crange in H. rewrite (carry_len_thm c _ _ (valid_reg_nonneg c None HV) H).
  apply zlen_range. exact Hab.
Qed.

(* negative RegularArray size: the hypothesis of [carry_len_thm] is needed *)
Example carry_len_refuted :
  let c := Regular (Numpy DInt64 [-4] []) (-1) 0 in
  exists c', carry c [0; 0] = Ok c' /\ clen c' = 0 /\ zlen [0; 0] = 2.
Proof. eexists. split; [vm_compute; reflexivity|]. split; reflexivity. Qed.

(* everything about c[a:b] in one statement: it exists for 0 <= a <= b <= len, is valid, has length b - a, its
   elements are the slice of the elements, typed by the ORIGINAL type; the core type, the type with parameters
   and the item types are unchanged *)
Theorem range_slice_thm c vs a b :
  Valid None c -> to_list c = Ok vs -> 0 <= a -> a <= b -> b <= clen c ->
  exists c' ws, crange c a b = Ok c' /\ Valid None c' /\ clen c' = b - a /\
    slice vs a b = Ok ws /\ to_list c' = Ok ws /\ Forall (has_type (type_of c)) ws /\
    type_of c' = type_of c /\
    (forall ts, type_of_form ts (form_of c') = type_of_form ts (form_of c)) /\
    (forall ts, item_types ts (form_of c') = item_types ts (form_of c)).
Proof.
  intros HV Hl Ha Hab Hb. destruct (crange_spec c vs a b HV Hl Ha Hab Hb) as (c' & Hc & Hl' & Hn).
  pose proof (crange_valid c vs a b c' HV Hl Ha Hab Hb Hc) as HV'.
  assert (Hs : exists ws, slice vs a b = Ok ws).
  { rewrite slice_ok; [eauto|lia|lia|]. rewrite (to_list_len _ _ Hl). exact Hb. }
  destruct Hs as (ws & Hws). exists c', ws. rewrite Hws in Hl'.
  pose proof (carry_preserves_type c None (range a b) c' Hc) as Ht. fold (type_of c') in Ht. fold (type_of c) in Ht.
  repeat split; try assumption.
  - rewrite <- Ht. exact (to_list_typed_thm c' ws HV' Hl').
  - intros ts. exact (carry_preserves_rtype_thm ts c _ c' Hc).
  - intros ts. exact (carry_preserves_item_types_thm ts c _ c' Hc).
Qed.

(* ---------------------------------------------------------------- examples *)
(* a[2:2] of a 3 x 2 array is 0 x 2: the type "2 * int64" and the shape survive the empty slice *)
Example ex_empty_slice_numpy :
  let c := Numpy DInt64 [3; 2] [DZ 1; DZ 2; DZ 3; DZ 4; DZ 5; DZ 6] in
  crange c 2 2 = Ok (Numpy DInt64 [0; 2] []) /\
  crange c 1 3 = Ok (Numpy DInt64 [2; 2] [DZ 3; DZ 4; DZ 5; DZ 6]) /\
  rmap type_tostring (type_of_form [] (form_of (Numpy DInt64 [0; 2] []))) = Ok (bytes_of_string "2 * int64"%string).
Proof. vm_compute. repeat split. Qed.

(* zero inner dimension, and a RegularArray of size 0 whose length lives in zeros_length *)
Example ex_zero_dims :
  crange (Numpy DFloat64 [3; 0; 2] []) 1 3 = Ok (Numpy DFloat64 [2; 0; 2] []) /\
  crange (Regular (Numpy DInt64 [0] []) 0 5) 1 4 = Ok (Regular (Numpy DInt64 [0] []) 0 3) /\
  (do c' <- crange (Regular (Numpy DInt64 [0] []) 0 5) 1 4; to_list c') = Ok [VList []; VList []; VList []] /\
  rmap type_tostring (type_of_form [] (form_of (Regular (Numpy DInt64 [0] []) 0 3))) = Ok (bytes_of_string "0 * int64"%string).
Proof. vm_compute. repeat split. Qed.

(* a layout with parameters on several nodes: named record below a list, strings, a bit mask *)
Definition ex_param_layout : content :=
  BitMasked [5] true true 3
    (ListOffset I64 [0; 2; 2; 3]
       (Par None (Some [80; 116])
          (Record [Numpy DInt64 [3; 2] [DZ 1; DZ 2; DZ 3; DZ 4; DZ 5; DZ 6];
                   Par (Some AString) None (ListOffset I32 [0; 2; 2; 3] (Par (Some AChar) None (Numpy DUInt8 [3] [DZ 97; DZ 98; DZ 99])))]
                  (Some [[120]; [121]]) 3))).

Example ex_param_valid : Valid None ex_param_layout.
Proof. apply (validity_exact_gen ex_param_layout None). vm_compute. reflexivity. Qed.

Example ex_param_slice :
  rmap type_tostring (type_of_form [(s_string, p_string)] (form_of ex_param_layout)) =
    Ok (bytes_of_string "option[var * Pt[""x"": 2 * int64, ""y"": string]]"%string) /\
  (do c' <- crange ex_param_layout 1 3; rmap type_tostring (type_of_form [(s_string, p_string)] (form_of c'))) =
    Ok (bytes_of_string "option[var * Pt[""x"": 2 * int64, ""y"": string]]"%string) /\
  (do c' <- crange ex_param_layout 1 3; to_list c') =
    Ok [VNone; VList [VRec [([120], VList [VNum (DZ 5); VNum (DZ 6)]); ([121], VStr true [99])]]] /\
  (do c' <- crange ex_param_layout 1 3; Ok (form_of c')) <> Ok (form_of ex_param_layout).
Proof. split; [vm_compute; reflexivity|]. split; [vm_compute; reflexivity|]. split; [vm_compute; reflexivity|].
  vm_compute. discriminate. Qed.

Example ex_param_range_slice : exists c' ws, crange ex_param_layout 1 3 = Ok c' /\ Valid None c' /\ clen c' = 2 /\
  to_list c' = Ok ws /\ forall ts, type_of_form ts (form_of c') = type_of_form ts (form_of ex_param_layout).
Proof.
  assert (Hl : exists vs, to_list ex_param_layout = Ok vs) by (eexists; vm_compute; reflexivity).
  destruct Hl as (vs & Hl).
  destruct (range_slice_thm ex_param_layout vs 1 3 ex_param_valid Hl) as (c' & ws & H1 & H2 & H3 & _ & H5 & _ & _ & H8 & _);
    try (vm_compute; congruence).
  exists c', ws. repeat split; assumption.
Qed.

Example ex_layout_range_rtype : forall ts c', crange ex_layout 1 2 = Ok c' ->
  type_of_form ts (form_of c') = type_of_form ts (form_of ex_layout).
Proof. intros ts c'. apply crange_preserves_rtype_thm. Qed.
