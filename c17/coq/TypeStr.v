(** Types with parameters and type strings: [type_of_form] (Form::type), [type_tostring] (Type::tostring_part of
    every Type class), the item types an element may have, erasure to the core [AwkV.Types.ty], and a
    recursive-descent parser [type_parse] for the printed language.  MODEL ONLY: no proofs in this file.
    Anchors: src/libawkward/type/*.cpp, the type() methods of the *Form classes, util.cpp (gettypestr). *)
From Coq Require Import ZArith List Bool String.
From AwkV Require Import Base Layout Valid Types.
From AwkTypes Require Export Json Forms.
Import ListNotations.
Open Scope Z_scope.

Inductive rty :=
| RNum (p : params) (ts : bytes) (dt : fdtype)
| RUnk (p : params) (ts : bytes)
| RList (p : params) (ts : bytes) (t : rty)
| RReg (p : params) (ts : bytes) (size : Z) (t : rty)
| ROpt (p : params) (ts : bytes) (t : rty)
| RRec (p : params) (ts : bytes) (keys : option (list bytes)) (l : list rty)
| RUnion (p : params) (ts : bytes) (l : list rty).

Definition rty_params (t : rty) : params :=
  match t with
  | RNum p _ _ | RUnk p _ | RList p _ _ | RReg p _ _ _ | ROpt p _ _ | RRec p _ _ _ | RUnion p _ _ => p
  end.
Definition rty_set_params (p : params) (t : rty) : rty :=
  match t with
  | RNum _ s d => RNum p s d | RUnk _ s => RUnk p s | RList _ s t' => RList p s t'
  | RReg _ s n t' => RReg p s n t' | ROpt _ s t' => ROpt p s t' | RRec _ s k l => RRec p s k l
  | RUnion _ s l => RUnion p s l
  end.

(* ------------------------------------------------------------------ Form::type *)
Definition typestrs := list (bytes * bytes).

(* util::gettypestr: __record__ first, then __array__ *)
Definition gettypestr (p : params) (ts : typestrs) : bytes :=
  let look (key : bytes) : option bytes :=
    match pfind key p with
    | Some (JStr name) => pfind (cstr name) ts
    | _ => None
    end in
  match look k_record with
  | Some s => s
  | None => match look k_array with Some s => s | None => [] end
  end.

(* Type::setparameter: the JSON text "null" erases *)
Definition setparameter (k : bytes) (v : json) (p : params) : params :=
  match v with JNull => perase k p | _ => pset k v p end.

Definition categorical_fix (formp : params) (p : params) (erase_array : bool) : params :=
  if param_is_str formp k_array s_categorical
  then pset k_categorical (JBool true) (if erase_array then perase k_array p else p)
  else p.

Fixpoint type_of_form (ts : typestrs) (f : form) {struct f} : res rty :=
  match f with
  | FNumpy m inner _ _ dt =>
      match dt with
      | FNotPrimitive => Err EValue
      | _ =>
          let s := gettypestr (m_params m) ts in
          Ok (fold_right (fun d t => RReg [] s d t) (RNum (m_params m) s dt) inner)
      end
  | FEmpty m => Ok (RUnk (m_params m) (gettypestr (m_params m) ts))
  | FListOffset m _ c | FList m _ _ c =>
      do t <- type_of_form ts c; Ok (RList (m_params m) (gettypestr (m_params m) ts) t)
  | FRegular m c size =>
      do t <- type_of_form ts c; Ok (RReg (m_params m) (gettypestr (m_params m) ts) size t)
  | FIndexed m _ c =>
      do out <- type_of_form ts c;
      let mine := m_params m in
      match rty_params out, mine with
      | _, [] => Ok out
      | [], _ => Ok (rty_set_params (categorical_fix mine mine true) out)
      | op, _ =>
          let merged := fold_left (fun acc kv => if bytes_eqb (fst kv) k_array then acc
                                                 else setparameter (fst kv) (snd kv) acc) mine op in
          Ok (rty_set_params (categorical_fix mine merged false) out)
      end
  | FIndexedOption m _ c =>
      do t <- type_of_form ts c;
      let p := m_params m in
      Ok (ROpt (categorical_fix p p true) (gettypestr p ts) t)
  | FByteMasked m _ c _ | FBitMasked m _ c _ _ | FUnmasked m c =>
      do t <- type_of_form ts c; Ok (ROpt (m_params m) (gettypestr (m_params m) ts) t)
  | FUnion m _ _ cs =>
      do l <- mapM_id (map (type_of_form ts) cs); Ok (RUnion (m_params m) (gettypestr (m_params m) ts) l)
  | FRecord m ks cs =>
      do l <- mapM_id (map (type_of_form ts) cs); Ok (RRec (m_params m) (gettypestr (m_params m) ts) ks l)
  | FVirtual _ None _ => Err EValue
  | FVirtual _ (Some g) _ => type_of_form ts g
  end.

(* ------------------------------------------------------------------ erasure to the core type *)
Definition strflag_params (p : params) : option bool :=
  if param_is_str p k_array s_string then Some true
  else if param_is_str p k_array s_bytestring then Some false
  else None.

Fixpoint erase (t : rty) : ty :=
  match t with
  | RNum _ _ (FD d) => TNum d
  | RNum _ _ _ => TUnk                     (* dtypes outside the core model; never produced by form_of *)
  | RUnk _ _ => TUnk
  | RList p _ t' => TList None (strflag_params p) (erase t')
  | RReg p _ n t' => TList (Some n) (strflag_params p) (erase t')
  | ROpt _ _ t' => TOpt (erase t')
  | RRec _ _ ks l => TRec ks (map erase l)
  | RUnion _ _ l => TUnion (map erase l)
  end.

(* ------------------------------------------------------------------ Type::tostring *)
Definition p_parameters_eq := Eval vm_compute in bs "parameters={".
Definition p_categorical_open := Eval vm_compute in bs "categorical[type=".
Definition p_var_star := Eval vm_compute in bs "var * ".
Definition p_lvar_star := Eval vm_compute in bs "[var * ".
Definition p_star := Eval vm_compute in bs " * ".
Definition p_option_open := Eval vm_compute in bs "option[".
Definition p_union_open := Eval vm_compute in bs "union[".
Definition p_struct_open := Eval vm_compute in bs "struct[[".
Definition p_tuple_open := Eval vm_compute in bs "tuple[[".
Definition p_comma := Eval vm_compute in bs ", ".
Definition p_colon := Eval vm_compute in bs ": ".
Definition p_mid := Eval vm_compute in bs "], [".
Definition p_close_comma := Eval vm_compute in bs "], ".

Definition is_categorical (p : params) : bool :=
  match pfind k_categorical p with Some (JBool true) => true | _ => false end.

(* Type::parameters_empty *)
Definition parameters_empty (p : params) : bool :=
  match p with
  | [] => true
  | [_] => is_categorical p
  | _ => false
  end.

Definition wrap_categorical (p : params) (out : bytes) : bytes :=
  if is_categorical p then p_categorical_open ++ out ++ [93] else out.

Definition string_parameters (p : params) : bytes :=
  p_parameters_eq ++
  sep_concat p_comma (map (fun kv => quote (fst kv) ++ p_colon ++ json_print (snd kv))
                          (filter (fun kv => negb (bytes_eqb (fst kv) k_categorical)) p)) ++ [125].

(* util::parameter_isname on the string value *)
Definition is_alpha_ (c : Z) : bool :=
  ((97 <=? c) && (c <=? 122)) || ((65 <=? c) && (c <=? 90)) || (c =? 95).
Definition is_alnum_ (c : Z) : bool := is_alpha_ c || ((48 <=? c) && (c <=? 57)).
Definition is_name (s : bytes) : bool :=
  match s with
  | [] => false
  | c :: r => is_alpha_ c && forallb is_alnum_ r
  end.

Definition datashape_keywords : list bytes := Eval vm_compute in
  map bytes_of_string
    ["var"; "option"; "bool"; "int8"; "int16"; "int32"; "int64"; "int128";
     "uint8"; "uint16"; "uint32"; "uint64"; "uint128";
     "float16"; "float32"; "float64"; "float128";
     "decimal32"; "decimal64"; "decimal128";
     "bignum"; "int"; "real"; "complex"; "intptr"; "uintptr";
     "string"; "char"; "bytes"; "date"; "json";
     "void"; "datetime"; "categorical"; "pointer"]%string.

(* the record name RecordType prints as Name[...]: exactly one parameter, __record__, a "name", not a keyword *)
Definition record_name (p : params) : option bytes :=
  match p with
  | [(k, JStr s)] =>
      if bytes_eqb k k_record && is_name (cstr s) && negb (existsb (bytes_eqb (cstr s)) datashape_keywords)
      then Some (cstr s) else None
  | _ => None
  end.

Definition is_listlike (t : rty) : bool :=
  match t with RList _ _ _ | RReg _ _ _ _ => true | _ => false end.

(* "key": T for each field (recordlookup and types have the same length) *)
Fixpoint keyed (ks : list bytes) (ts : list bytes) : list bytes :=
  match ks, ts with
  | k :: ks', x :: ts' => (quote k ++ p_colon ++ x) :: keyed ks' ts'
  | _, _ => []
  end.

Fixpoint type_tostring (t : rty) {struct t} : bytes :=
  let with_ts (p : params) (s : bytes) (body : bytes) : bytes :=
    match s with [] => wrap_categorical p body | _ => wrap_categorical p s end in
  match t with
  | RNum p s dt =>
      with_ts p s (if parameters_empty p then dtype_to_name dt
                   else dtype_to_name dt ++ [91] ++ string_parameters p ++ [93])
  | RUnk p s =>
      with_ts p s (if parameters_empty p then n_unknown
                   else n_unknown ++ [91] ++ string_parameters p ++ [93])
  | RList p s t' =>
      with_ts p s (if parameters_empty p then p_var_star ++ type_tostring t'
                   else p_lvar_star ++ type_tostring t' ++ p_comma ++ string_parameters p ++ [93])
  | RReg p s n t' =>
      with_ts p s (if parameters_empty p then dec_of_Z n ++ p_star ++ type_tostring t'
                   else [91] ++ dec_of_Z n ++ p_star ++ type_tostring t' ++ p_comma ++ string_parameters p ++ [93])
  | ROpt p s t' =>
      with_ts p s (if parameters_empty p
                   then (if is_listlike t' then p_option_open ++ type_tostring t' ++ [93]
                         else [63] ++ type_tostring t')
                   else p_option_open ++ type_tostring t' ++ p_comma ++ string_parameters p ++ [93])
  | RUnion p s l =>
      with_ts p s (p_union_open ++ sep_concat p_comma (map type_tostring l)
                   ++ (if parameters_empty p then [] else p_comma ++ string_parameters p) ++ [93])
  | RRec p s ks l =>
      let types := map type_tostring l in
      with_ts p s
        (match record_name p with
         | Some name =>
             name ++ [91] ++ sep_concat p_comma (match ks with Some ks => keyed ks types | None => types end) ++ [93]
         | None =>
             if parameters_empty p then
               match ks with
               | Some ks => [123] ++ sep_concat p_comma (keyed ks types) ++ [125]
               | None => [40] ++ sep_concat p_comma types ++ [41]
               end
             else
               match ks with
               | Some ks =>
                   p_struct_open ++ sep_concat p_comma (map quote ks) ++ p_mid ++ sep_concat p_comma types
                   ++ p_close_comma ++ string_parameters p ++ [93]
               | None =>
                   p_tuple_open ++ sep_concat p_comma types ++ p_close_comma ++ string_parameters p ++ [93]
               end
         end)
  end.

(* ------------------------------------------------------------------ what an element may be
   getitem_at(i) of an array of form f returns None, a scalar of some dtype, a record, or an array
   whose type is listed here. *)
Inductive item :=
| INone                    (* a missing value *)
| IScalar (dt : fdtype)    (* a zero-dimensional NumpyArray *)
| IRecord (t : rty)        (* a Record; t is the type of the record array it points into *)
| IArray (t : rty).        (* an array of this type *)

Fixpoint item_types (ts : typestrs) (f : form) {struct f} : res (list item) :=
  match f with
  | FNumpy m inner itemsize format dt =>
      match inner with
      | [] => Ok [IScalar dt]
      | _ :: rest => do t <- type_of_form ts (FNumpy m rest itemsize format dt); Ok [IArray t]
      end
  | FEmpty _ => Ok []
  | FListOffset _ _ c | FList _ _ _ c | FRegular _ c _ => do t <- type_of_form ts c; Ok [IArray t]
  | FIndexed _ _ c => item_types ts c
  | FIndexedOption _ _ c | FByteMasked _ _ c _ | FBitMasked _ _ c _ _ | FUnmasked _ c =>
      do l <- item_types ts c; Ok (INone :: l)
  | FUnion _ _ _ cs => do ll <- mapM_id (map (item_types ts) cs); Ok (concat ll)
  | FRecord _ _ _ => do t <- type_of_form ts f; Ok [IRecord t]
  | FVirtual _ None _ => Err EValue
  | FVirtual _ (Some g) _ => item_types ts g
  end.

(* ------------------------------------------------------------------ parsing the printed language *)
Fixpoint strip_prefix (p s : bytes) : option bytes :=
  match p, s with
  | [], _ => Some s
  | _ :: _, [] => None
  | x :: p', y :: s' => if x =? y then strip_prefix p' s' else None
  end.

Definition is_digit (c : Z) : bool := (48 <=? c) && (c <=? 57).

Fixpoint span (f : Z -> bool) (s : bytes) : bytes * bytes :=
  match s with
  | [] => ([], [])
  | c :: r => if f c then let (a, b) := span f r in (c :: a, b) else ([], s)
  end.

Definition Z_of_digits (ds : bytes) : Z := fold_left (fun acc d => acc * 10 + (d - 48)) ds 0.

(* a JSON string literal as rj::Writer prints it (quote) -> the bytes *)
Definition unhex (c : Z) : option Z :=
  if is_digit c then Some (c - 48)
  else if (65 <=? c) && (c <=? 70) then Some (c - 55)
  else None.

Fixpoint unquote_body (fuel : nat) (s : bytes) : res (bytes * bytes) :=
  match fuel with
  | O => Err EFuel
  | S fuel' =>
      match s with
      | [] => Err EValue
      | c :: r =>
          let cont (x : Z) (r : bytes) := do xr <- unquote_body fuel' r; Ok (x :: fst xr, snd xr) in
          if c =? 34 then Ok ([], r)
          else if c =? 92 then
            match r with
            | [] => Err EValue
            | e :: r1 =>
                if e =? 34 then cont 34 r1
                else if e =? 92 then cont 92 r1
                else if e =? 98 then cont 8 r1
                else if e =? 102 then cont 12 r1
                else if e =? 110 then cont 10 r1
                else if e =? 114 then cont 13 r1
                else if e =? 116 then cont 9 r1
                else if e =? 117 then
                  match r1 with
                  | z1 :: z2 :: h :: l :: r2 =>
                      if (z1 =? 48) && (z2 =? 48) then
                        match unhex h, unhex l with
                        | Some a, Some b => if a * 16 + b <? 32 then cont (a * 16 + b) r2 else Err EValue
                        | _, _ => Err EValue
                        end
                      else Err EValue
                  | _ => Err EValue
                  end
                else Err EValue
            end
          else if c <? 32 then Err EValue
          else cont c r
      end
  end.
Definition unquote (s : bytes) : res (bytes * bytes) :=
  match s with
  | c :: r => if c =? 34 then unquote_body (S (length r)) r else Err EValue
  | [] => Err EValue
  end.

Definition w_option := Eval vm_compute in bs "option".
Definition w_union := Eval vm_compute in bs "union".
Definition w_var := Eval vm_compute in bs "var".
Definition p_string := Eval vm_compute in bs "string".
Definition p_bytes := Eval vm_compute in bs "bytes".
Definition p_char := Eval vm_compute in bs "char".
Definition p_byte := Eval vm_compute in bs "byte".

(* the types the default typestrs ("string", "bytes", "char", "byte") stand for *)
Definition t_char : rty := RNum [(k_array, JStr s_char)] p_char (FD DUInt8).
Definition t_byte : rty := RNum [(k_array, JStr s_byte)] p_byte (FD DUInt8).
Definition t_string : rty := RList [(k_array, JStr s_string)] p_string t_char.
Definition t_bytes : rty := RList [(k_array, JStr s_bytestring)] p_bytes t_byte.

Definition primitive_names : list fdtype :=
  [FD DBool; FD DInt8; FD DInt16; FD DInt32; FD DInt64; FD DUInt8; FD DUInt16; FD DUInt32; FD DUInt64;
   FFloat16; FD DFloat32; FD DFloat64; FFloat128; FComplex64; FComplex128; FComplex256;
   FDatetime64; FTimedelta64].

Definition prim_of_name (s : bytes) : option fdtype :=
  find (fun d => bytes_eqb (dtype_to_name d) s) primitive_names.

(* words that cannot be record names in the parsable fragment (they start other productions) *)
Definition reserved_words : list bytes := Eval vm_compute in
  datashape_keywords ++ map dtype_to_name primitive_names ++
  map bytes_of_string ["unknown"; "union"; "struct"; "tuple"; "byte"; "categorical"]%string.

Section Parse.
  Variable sub : bytes -> res (rty * bytes).

  (* T (", " T)* followed by the closing byte *)
  Fixpoint parse_list (fuel : nat) (close : Z) (s : bytes) : res (list rty * bytes) :=
    match fuel with
    | O => Err EFuel
    | S fuel' =>
        do tr <- sub s;
        match snd tr with
        | c' :: r' =>
            if c' =? close then Ok ([fst tr], r')
            else match strip_prefix p_comma (snd tr) with
                 | Some rest => do lr <- parse_list fuel' close rest; Ok (fst tr :: fst lr, snd lr)
                 | None => Err EValue
                 end
        | [] => Err EValue
        end
    end.
  Definition parse_items (fuel : nat) (close : Z) (s : bytes) : res (list rty * bytes) :=
    match s with
    | c :: r => if c =? close then Ok ([], r) else parse_list fuel close s
    | [] => Err EValue
    end.

  (* "key": T (", " "key": T)* followed by the closing byte *)
  Fixpoint parse_fields (fuel : nat) (close : Z) (s : bytes) : res (list (bytes * rty) * bytes) :=
    match fuel with
    | O => Err EFuel
    | S fuel' =>
        do kr <- unquote s;
        match strip_prefix p_colon (snd kr) with
        | None => Err EValue
        | Some s1 =>
            do tr <- sub s1;
            match snd tr with
            | c' :: r' =>
                if c' =? close then Ok ([(fst kr, fst tr)], r')
                else match strip_prefix p_comma (snd tr) with
                     | Some rest => do lr <- parse_fields fuel' close rest; Ok ((fst kr, fst tr) :: fst lr, snd lr)
                     | None => Err EValue
                     end
            | [] => Err EValue
            end
        end
    end.
  Definition parse_fielditems (fuel : nat) (close : Z) (s : bytes) : res (list (bytes * rty) * bytes) :=
    match s with
    | c :: r => if c =? close then Ok ([], r) else parse_fields fuel close s
    | [] => Err EValue
    end.

  Definition opt_branch (r : bytes) : res (rty * bytes) :=
    do tr <- sub r; if is_listlike (fst tr) then Err EValue else Ok (ROpt [] [] (fst tr), snd tr).
  Definition brace_branch (fuel : nat) (r : bytes) : res (rty * bytes) :=
    do fr <- parse_fielditems fuel 125 r; Ok (RRec [] [] (Some (map fst (fst fr))) (map snd (fst fr)), snd fr).
  Definition paren_branch (fuel : nat) (r : bytes) : res (rty * bytes) :=
    do lr <- parse_items fuel 41 r; Ok (RRec [] [] None (fst lr), snd lr).
  Definition num_branch (s : bytes) : res (rty * bytes) :=
    let (ds, rest) := span is_digit s in
    match strip_prefix p_star rest with
    | Some rest' => do tr <- sub rest'; Ok (RReg [] [] (Z_of_digits ds) (fst tr), snd tr)
    | None => Err EValue
    end.
  Definition plain_word (w rest : bytes) : res (rty * bytes) :=
    if bytes_eqb w w_var then
      match strip_prefix p_star rest with
      | Some rest' => do tr <- sub rest'; Ok (RList [] [] (fst tr), snd tr)
      | None => Err EValue
      end
    else if bytes_eqb w p_string then Ok (t_string, rest)
    else if bytes_eqb w p_bytes then Ok (t_bytes, rest)
    else if bytes_eqb w p_char then Ok (t_char, rest)
    else if bytes_eqb w p_byte then Ok (t_byte, rest)
    else if bytes_eqb w n_unknown then Ok (RUnk [] [], rest)
    else match prim_of_name w with
         | Some dt => Ok (RNum [] [] dt, rest)
         | None => Err EValue
         end.
  Definition bracket_branch (fuel : nat) (w rest1 : bytes) : res (rty * bytes) :=
    if bytes_eqb w w_option then
      do tr <- sub rest1;
      match snd tr with
      | c :: rest2 =>
          if c =? 93 then (if is_listlike (fst tr) then Ok (ROpt [] [] (fst tr), rest2) else Err EValue)
          else Err EValue
      | [] => Err EValue
      end
    else if bytes_eqb w w_union then
      do lr <- parse_items fuel 93 rest1; Ok (RUnion [] [] (fst lr), snd lr)
    else if existsb (bytes_eqb w) reserved_words then Err EValue
    else
      let p := [(k_record, JStr w)] in
      match rest1 with
      | c :: rest2 =>
          if c =? 34 then
            do fr <- parse_fields fuel 93 rest1;
            Ok (RRec p [] (Some (map fst (fst fr))) (map snd (fst fr)), snd fr)
          else if c =? 93 then Ok (RRec p [] (Some []) [], rest2)     (* Name[] : read as a record *)
          else do lr <- parse_list fuel 93 rest1; Ok (RRec p [] None (fst lr), snd lr)
      | [] => Err EValue
      end.
  Definition word_branch (fuel : nat) (w rest : bytes) : res (rty * bytes) :=
    match rest with
    | c1 :: rest1 => if c1 =? 91 then bracket_branch fuel w rest1 else plain_word w rest
    | [] => plain_word w rest
    end.
End Parse.

Fixpoint parse_ty (fuel : nat) (s : bytes) {struct fuel} : res (rty * bytes) :=
  match fuel with
  | O => Err EFuel
  | S fuel' =>
      let sub := parse_ty fuel' in
      match s with
      | [] => Err EValue
      | c :: r =>
          if c =? 63 then opt_branch sub r                   (* ?T *)
          else if c =? 123 then brace_branch sub fuel' r     (* {"k": T, ...} *)
          else if c =? 40 then paren_branch sub fuel' r      (* (T, ...) *)
          else if is_digit c then num_branch sub s           (* N * T *)
          else if is_alpha_ c then let (w, rest) := span is_alnum_ s in word_branch sub fuel' w rest
          else Err EValue
      end
  end.

Definition type_parse (s : bytes) : res rty :=
  do tr <- parse_ty (S (length s)) s;
  match snd tr with [] => Ok (fst tr) | _ => Err EValue end.

(* ------------------------------------------------------------------ the fragment type_parse inverts *)
Definition key_ok (k : bytes) : bool := forallb (fun c => (0 <=? c) && (c <=? 255)) k.

(* the four types the default typestrs abbreviate *)
Definition hardcoded (t : rty) : bool :=
  match t with
  | RList [(k, JStr s)] ts' (RNum [(k', JStr s')] ts'' (FD DUInt8)) =>
      (bytes_eqb k k_array && bytes_eqb k' k_array) &&
      ((bytes_eqb s s_string && bytes_eqb s' s_char && bytes_eqb ts' p_string && bytes_eqb ts'' p_char) ||
       (bytes_eqb s s_bytestring && bytes_eqb s' s_byte && bytes_eqb ts' p_bytes && bytes_eqb ts'' p_byte))
  | RNum [(k, JStr s)] ts' (FD DUInt8) =>
      bytes_eqb k k_array &&
      ((bytes_eqb s s_char && bytes_eqb ts' p_char) || (bytes_eqb s s_byte && bytes_eqb ts' p_byte))
  | _ => false
  end.

(* no parameters and no typestrs except: the four hardcoded types, and a record name that is a "name" and
   not a reserved word; regular sizes non-negative; keys are byte strings; named empty tuples excluded
   (Name[] is printed for both the empty named record and the empty named tuple) *)
Fixpoint printable (t : rty) {struct t} : bool :=
  hardcoded t ||
  match t with
  | RNum [] [] dt => negb (fdtype_eqb dt FNotPrimitive)
  | RUnk [] [] => true
  | RList [] [] t' => printable t'
  | RReg [] [] n t' => (0 <=? n) && printable t'
  | ROpt [] [] t' => printable t'
  | RUnion [] [] l => forallb printable l
  | RRec p [] ks l =>
      forallb printable l &&
      match ks with
      | Some ks => Nat.eqb (length ks) (length l) && forallb key_ok ks
      | None => true
      end &&
      match p with
      | [] => true
      | [(k, JStr w)] =>
          bytes_eqb k k_record && is_name w && negb (existsb (bytes_eqb w) reserved_words) &&
          match ks, l with None, [] => false | _, _ => true end
      | _ => false
      end
  | _ => false
  end.
