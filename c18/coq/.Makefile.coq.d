Virtual.vo Virtual.glob Virtual.v.beautified Virtual.required_vo: Virtual.v /verif/coq/Base.vo
Virtual.vio: Virtual.v /verif/coq/Base.vio
Virtual.vos Virtual.vok Virtual.required_vos: Virtual.v /verif/coq/Base.vos
Partition.vo Partition.glob Partition.v.beautified Partition.required_vo: Partition.v /verif/coq/Base.vo
Partition.vio: Partition.v /verif/coq/Base.vio
Partition.vos Partition.vok Partition.required_vos: Partition.v /verif/coq/Base.vos
Proofs_C18.vo Proofs_C18.glob Proofs_C18.v.beautified Proofs_C18.required_vo: Proofs_C18.v /verif/coq/Base.vo Virtual.vo Partition.vo
Proofs_C18.vio: Proofs_C18.v /verif/coq/Base.vio Virtual.vio Partition.vio
Proofs_C18.vos Proofs_C18.vok Proofs_C18.required_vos: Proofs_C18.v /verif/coq/Base.vos Virtual.vos Partition.vos
Props_C18.vo Props_C18.glob Props_C18.v.beautified Props_C18.required_vo: Props_C18.v /verif/coq/Base.vo Virtual.vo Partition.vo Proofs_C18.vo
Props_C18.vio: Props_C18.v /verif/coq/Base.vio Virtual.vio Partition.vio Proofs_C18.vio
Props_C18.vos Props_C18.vok Props_C18.required_vos: Props_C18.v /verif/coq/Base.vos Virtual.vos Partition.vos Proofs_C18.vos
