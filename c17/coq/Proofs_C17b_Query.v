(** C17b, queries part 1: the depth / regularity / field queries on TYPES (specification level, following
    src/libawkward/type/*.cpp), [fieldindex] / [key] / [haskey] on forms, layouts and types (util.cpp +
    the *Form / Content / *Type classes), and: what a Form answers = what its Type answers.
    New file; the model files are untouched. *)
From Coq Require Import ZArith List Bool Lia String.
From AwkV Require Import Base Layout LayoutInd Valid Types.
From AwkTypes Require Import Json Forms TypeStr Typing Proofs_Depth Proofs_Types Proofs_Typing Proofs_Json Proofs_Parse.
Import ListNotations.
Open Scope Z_scope.

(* ================================================================== 1. queries on types *)
(* what a Type method may do: answer, throw invalid_argument ("type contains no Records": PrimitiveType,
   UnknownType; util::fieldindex / util::key), let std::out_of_range escape (std::stoi, vector::at), or throw
   the runtime_error "FIXME: UnionType::..." *)
Inductive terr := TInvalid | TOutOfRange | TRuntime.
Inductive tres (A : Type) := TOk (a : A) | TErr (e : terr).
Arguments TOk {A} a.
Arguments TErr {A} e.

(* res -> tres: EValue is invalid_argument, EOob is out_of_range *)
Definition tres_of {A} (r : res A) : tres A :=
  match r with Ok a => TOk a | Err EValue => TErr TInvalid | Err EOob => TErr TOutOfRange | Err EFuel => TErr TRuntime end.

(* ---- Type has no purelist_depth & co in C++: the obvious recursion, strings are leaves *)
Fixpoint t_purelist_depth (t : rty) : Z :=
  match t with
  | RNum _ _ _ | RUnk _ _ | RRec _ _ _ _ => 1
  | RList p _ t' | RReg p _ _ t' => if is_string_params p then 1 else t_purelist_depth t' + 1
  | ROpt _ _ t' => t_purelist_depth t'
  | RUnion _ _ l =>
      match map t_purelist_depth l with
      | [] => -1
      | d0 :: rest => if forallb (Z.eqb d0) rest then d0 else -1
      end
  end.

Fixpoint t_minmax_depth (t : rty) : Z * Z :=
  match t with
  | RNum _ _ _ | RUnk _ _ => (1, 1)
  | RList p _ t' | RReg p _ _ t' =>
      if is_string_params p then (1, 1) else let mm := t_minmax_depth t' in (fst mm + 1, snd mm + 1)
  | ROpt _ _ t' => t_minmax_depth t'
  | RRec _ _ _ l | RUnion _ _ l => minmax_fold (map t_minmax_depth l)
  end.

Fixpoint t_branch_depth (t : rty) : bool * Z :=
  match t with
  | RNum _ _ _ | RUnk _ _ => (false, 1)
  | RList p _ t' | RReg p _ _ t' =>
      if is_string_params p then (false, 1) else let bd := t_branch_depth t' in (fst bd, snd bd + 1)
  | ROpt _ _ t' => t_branch_depth t'
  | RUnion _ _ l => branch_fold (map t_branch_depth l)
  | RRec _ _ _ l => match l with [] => (false, 1) | _ => branch_fold (map t_branch_depth l) end
  end.

(* regular = no variable-length list above the first record / leaf (parameters play no role, as in the Forms) *)
Fixpoint t_purelist_isregular (t : rty) : bool :=
  match t with
  | RNum _ _ _ | RUnk _ _ | RRec _ _ _ _ => true
  | RList _ _ _ => false
  | RReg _ _ _ t' | ROpt _ _ t' => t_purelist_isregular t'
  | RUnion _ _ l => forallb t_purelist_isregular l
  end.

(* ---- util::fieldindex / key / haskey / keys *)
Definition is_space (c : Z) : bool := (c =? 32) || ((9 <=? c) && (c <=? 13)).
Fixpoint skip_space (s : bytes) : bytes :=
  match s with c :: r => if is_space c then skip_space r else s | [] => [] end.
Inductive stoi_res := SInvalid | SRange | SVal (z : Z).
(* std::stoi(key): leading white space, an optional sign, then at least one digit; what follows is ignored;
   std::out_of_range when the number is not an int *)
Definition stoi (s : bytes) : stoi_res :=
  let s1 := skip_space s in
  let ns := match s1 with
            | 45 :: r => (true, r)
            | 43 :: r => (false, r)
            | _ => (false, s1)
            end in
  let ds := fst (span is_digit (snd ns)) in
  match ds with
  | [] => SInvalid
  | _ => let v := if fst ns then - Z_of_digits ds else Z_of_digits ds in
         if (-2147483648 <=? v) && (v <=? 2147483647) then SVal v else SRange
  end.

Fixpoint index_of (k : bytes) (l : list bytes) (i : Z) : option Z :=
  match l with
  | [] => None
  | x :: r => if bytes_eqb x k then Some i else index_of k r (i + 1)
  end.

Definition util_fieldindex (ks : option (list bytes)) (key : bytes) (n : Z) : res Z :=
  match (match ks with Some l => index_of key l 0 | None => None end) with
  | Some i => Ok i
  | None =>
      match stoi key with
      | SInvalid => Err EValue
      | SRange => Err EOob                       (* std::out_of_range is not caught *)
      | SVal out => if (0 <=? out) && (out <? n) then Ok out else Err EValue
      end
  end.

Definition util_key (ks : option (list bytes)) (i n : Z) : res bytes :=
  if n <=? i then Err EValue
  else match ks with
       | Some l => get l i                       (* recordlookup->at((size_t)i): out_of_range *)
       | None => Ok (dec_of_Z i)                 (* std::to_string(i), also for negative i *)
       end.

Definition util_haskey (ks : option (list bytes)) (key : bytes) (n : Z) : res bool :=
  match util_fieldindex ks key n with
  | Ok _ => Ok true
  | Err EValue => Ok false                       (* catch (std::invalid_argument) *)
  | Err e => Err e
  end.

Definition util_keys (ks : option (list bytes)) (n : nat) : list bytes :=
  match ks with Some l => l | None => tuple_keys n end.

(* ---- on types: RecordType answers with util::*, list / regular / option types ask their content,
   PrimitiveType / UnknownType throw invalid_argument except numfields = -1, UnionType throws runtime_error *)
Fixpoint t_keys (t : rty) : tres (list bytes) :=
  match t with
  | RNum _ _ _ | RUnk _ _ => TErr TInvalid
  | RList _ _ t' | RReg _ _ _ t' | ROpt _ _ t' => t_keys t'
  | RRec _ _ ks l => TOk (util_keys ks (length l))
  | RUnion _ _ _ => TErr TRuntime
  end.
Fixpoint t_numfields (t : rty) : tres Z :=
  match t with
  | RNum _ _ _ | RUnk _ _ => TOk (-1)
  | RList _ _ t' | RReg _ _ _ t' | ROpt _ _ t' => t_numfields t'
  | RRec _ _ _ l => TOk (zlen l)
  | RUnion _ _ _ => TErr TRuntime
  end.
Fixpoint t_fieldindex (t : rty) (key : bytes) : tres Z :=
  match t with
  | RNum _ _ _ | RUnk _ _ => TErr TInvalid
  | RList _ _ t' | RReg _ _ _ t' | ROpt _ _ t' => t_fieldindex t' key
  | RRec _ _ ks l => tres_of (util_fieldindex ks key (zlen l))
  | RUnion _ _ _ => TErr TRuntime
  end.
Fixpoint t_key (t : rty) (i : Z) : tres bytes :=
  match t with
  | RNum _ _ _ | RUnk _ _ => TErr TInvalid
  | RList _ _ t' | RReg _ _ _ t' | ROpt _ _ t' => t_key t' i
  | RRec _ _ ks l => tres_of (util_key ks i (zlen l))
  | RUnion _ _ _ => TErr TRuntime
  end.
Fixpoint t_haskey (t : rty) (key : bytes) : tres bool :=
  match t with
  | RNum _ _ _ | RUnk _ _ => TErr TInvalid
  | RList _ _ t' | RReg _ _ _ t' | ROpt _ _ t' => t_haskey t' key
  | RRec _ _ ks l => tres_of (util_haskey ks key (zlen l))
  | RUnion _ _ _ => TErr TRuntime
  end.

(* ---- on forms: NumpyForm / EmptyForm throw (haskey: false), UnionForm throws "breaks the one-to-one
   relationship" (haskey: membership in keys()), VirtualForm without a form throws *)
Fixpoint f_fieldindex (f : form) (key : bytes) : res Z :=
  match f with
  | FNumpy _ _ _ _ _ | FEmpty _ | FUnion _ _ _ _ => Err EValue
  | FListOffset _ _ c | FList _ _ _ c | FRegular _ c _ | FIndexed _ _ c | FIndexedOption _ _ c
  | FByteMasked _ _ c _ | FBitMasked _ _ c _ _ | FUnmasked _ c => f_fieldindex c key
  | FRecord _ ks cs => util_fieldindex ks key (zlen cs)
  | FVirtual _ None _ => Err EValue
  | FVirtual _ (Some g) _ => f_fieldindex g key
  end.
Fixpoint f_key (f : form) (i : Z) : res bytes :=
  match f with
  | FNumpy _ _ _ _ _ | FEmpty _ | FUnion _ _ _ _ => Err EValue
  | FListOffset _ _ c | FList _ _ _ c | FRegular _ c _ | FIndexed _ _ c | FIndexedOption _ _ c
  | FByteMasked _ _ c _ | FBitMasked _ _ c _ _ | FUnmasked _ c => f_key c i
  | FRecord _ ks cs => util_key ks i (zlen cs)
  | FVirtual _ None _ => Err EValue
  | FVirtual _ (Some g) _ => f_key g i
  end.
Fixpoint f_haskey (f : form) (key : bytes) : res bool :=
  match f with
  | FNumpy _ _ _ _ _ | FEmpty _ => Ok false
  | FListOffset _ _ c | FList _ _ _ c | FRegular _ c _ | FIndexed _ _ c | FIndexedOption _ _ c
  | FByteMasked _ _ c _ | FBitMasked _ _ c _ _ | FUnmasked _ c => f_haskey c key
  | FUnion _ _ _ cs => do l <- mapM_id (map f_keys cs); Ok (existsb (bytes_eqb key) (keys_intersect l))
  | FRecord _ ks cs => util_haskey ks key (zlen cs)
  | FVirtual _ None _ => Err EValue
  | FVirtual _ (Some g) _ => f_haskey g key
  end.

(* ---- on layouts (the overrides in the Content subclasses) *)
Fixpoint c_fieldindex (c : content) (key : bytes) : res Z :=
  match c with
  | Numpy _ _ _ | Empty | Union _ _ _ _ => Err EValue
  | ListOffset _ _ c' | ListA _ _ _ c' | Regular c' _ _ | Indexed _ _ c' | IndexedOption _ _ c'
  | ByteMasked _ _ c' | BitMasked _ _ _ _ c' | Unmasked c' | Par _ _ c' => c_fieldindex c' key
  | Record cs ks _ => util_fieldindex ks key (zlen cs)
  end.
Fixpoint c_key (c : content) (i : Z) : res bytes :=
  match c with
  | Numpy _ _ _ | Empty | Union _ _ _ _ => Err EValue
  | ListOffset _ _ c' | ListA _ _ _ c' | Regular c' _ _ | Indexed _ _ c' | IndexedOption _ _ c'
  | ByteMasked _ _ c' | BitMasked _ _ _ _ c' | Unmasked c' | Par _ _ c' => c_key c' i
  | Record cs ks _ => util_key ks i (zlen cs)
  end.
Fixpoint c_haskey (c : content) (key : bytes) : res bool :=
  match c with
  | Numpy _ _ _ | Empty => Ok false
  | ListOffset _ _ c' | ListA _ _ _ c' | Regular c' _ _ | Indexed _ _ c' | IndexedOption _ _ c'
  | ByteMasked _ _ c' | BitMasked _ _ _ _ c' | Unmasked c' | Par _ _ c' => c_haskey c' key
  | Union _ _ _ cs => Ok (existsb (bytes_eqb key) (keys_intersect (map c_keys cs)))
  | Record cs ks _ => util_haskey ks key (zlen cs)
  end.

(* ================================================================== lemmas *)
Lemma bytes_ltb_antisym (a : bytes) : forall b', bytes_ltb a b' = false -> bytes_ltb b' a = false -> a = b'.
Proof.
  induction a as [|x a IH]; intros [|y b']; simpl; try discriminate; auto.
  destruct (x <? y) eqn:E1; [discriminate|]. destruct (y <? x) eqn:E2; [discriminate|].
  intros H1 H2. apply Z.ltb_ge in E1, E2. assert (x = y) by lia. subst. f_equal. auto.
Qed.

Lemma pfind_pset_other {V} (a k : bytes) (v : V) (p : list (bytes * V)) :
  bytes_eqb k a = false -> pfind a (pset k v p) = pfind a p.
Proof.
  intros Hk. induction p as [|[k' v'] p IH]; cbn [pset pfind].
  - rewrite Hk. reflexivity.
  - destruct (bytes_ltb k k') eqn:E1.
    + cbn [pfind]. rewrite Hk. reflexivity.
    + destruct (bytes_ltb k' k) eqn:E2.
      * cbn [pfind]. rewrite IH. reflexivity.
      * pose proof (bytes_ltb_antisym k k' E1 E2). subst k'. cbn [pfind]. reflexivity.
Qed.

Lemma pfind_perase_other {V} (a k : bytes) (p : list (bytes * V)) :
  bytes_eqb k a = false -> pfind a (perase k p) = pfind a p.
Proof.
  intros Hk. induction p as [|[k' v'] p IH]; cbn [perase pfind]; [reflexivity|].
  destruct (bytes_eqb k' k) eqn:E.
  - apply bytes_eqb_eq in E. subst k'. rewrite Hk. reflexivity.
  - cbn [pfind]. rewrite IH. reflexivity.
Qed.

Lemma pfind_setparameter_other (a k : bytes) v (p : params) :
  bytes_eqb k a = false -> pfind a (setparameter k v p) = pfind a p.
Proof. intros H. unfold setparameter. destruct v; auto using pfind_pset_other, pfind_perase_other. Qed.

Lemma pfind_merge_array (mine : params) : forall op : params,
  pfind k_array (fold_left (fun acc kv => if bytes_eqb (fst kv) k_array then acc
                                          else setparameter (fst kv) (snd kv) acc) mine op) = pfind k_array op.
Proof.
  induction mine as [|[k v] mine IH]; intros op; cbn [fold_left fst snd]; [reflexivity|].
  rewrite IH. destruct (bytes_eqb k k_array) eqn:E; [reflexivity|]. apply pfind_setparameter_other, E.
Qed.

Lemma is_string_params_pfind (p q : params) : pfind k_array p = pfind k_array q -> is_string_params p = is_string_params q.
Proof. intros H. unfold is_string_params, param_is_str. rewrite H. reflexivity. Qed.

Lemma rty_set_params_id t : rty_set_params (rty_params t) t = t.
Proof. destruct t; reflexivity. Qed.

(* the fragment for the depth queries: the __array__ parameter of an IndexedForm node (which Form::type hands to
   the type of its content) is not "string" / "bytestring" (they would turn the content's list type into a
   string, a leaf) nor "categorical" *)
Definition idx_node_ok (m : fmeta) : bool :=
  negb (is_string_params (m_params m)) && negb (param_is_str (m_params m) k_array s_categorical).

Fixpoint idx_ok (f : form) : bool :=
  match f with
  | FNumpy _ _ _ _ _ | FEmpty _ | FVirtual _ None _ => true
  | FIndexed m _ c => idx_node_ok m && idx_ok c
  | FListOffset _ _ c | FList _ _ _ c | FRegular _ c _ | FIndexedOption _ _ c
  | FByteMasked _ _ c _ | FBitMasked _ _ c _ _ | FUnmasked _ c => idx_ok c
  | FUnion _ _ _ cs | FRecord _ _ cs => forallb idx_ok cs
  | FVirtual _ (Some g) _ => idx_ok g
  end.

(* the type of an IndexedForm is the type of its content with other parameters *)
Lemma indexed_type_shape ts m i c t :
  type_of_form ts (FIndexed m i c) = Ok t ->
  exists out p', type_of_form ts c = Ok out /\ t = rty_set_params p' out /\
                 (idx_node_ok m = true -> is_string_params p' = is_string_params (rty_params out)).
Proof.
  intros H. destruct (type_of_form ts c) as [out|e] eqn:Ec; [|cbn [type_of_form] in H; rewrite Ec in H; discriminate].
  rewrite (type_of_form_indexed ts m i c out Ec) in H. exists out.
  destruct (m_params m) as [|kv mine] eqn:Em.
  - exists (rty_params out). assert (out = t) by (destruct (rty_params out); congruence). subst t.
    split; [reflexivity|]. split; [symmetry; apply rty_set_params_id|reflexivity].
  - rewrite <- Em in *.
    assert (Hcat : idx_node_ok m = true -> forall q b0, categorical_fix (m_params m) q b0 = q).
    { unfold idx_node_ok. intros Hn q b0. apply andb_true_iff in Hn as [_ Hn]. unfold categorical_fix.
      destruct (param_is_str (m_params m) k_array s_categorical); [discriminate|reflexivity]. }
    destruct (rty_params out) as [|kv' op] eqn:Eo.
    + replace (match m_params m with [] => Ok out | _ :: _ => Ok (rty_set_params (categorical_fix (m_params m) (m_params m) true) out) end)
        with (Ok (rty_set_params (categorical_fix (m_params m) (m_params m) true) out)) in H by (rewrite Em; reflexivity).
      eexists. split; [reflexivity|]. split; [congruence|].
      intros Hn. rewrite (Hcat Hn). unfold idx_node_ok in Hn. apply andb_true_iff in Hn as [Hn _].
      apply negb_true_iff in Hn. rewrite Hn. reflexivity.
    + match type of H with match ?mp with [] => _ | _ :: _ => Ok ?r end = _ =>
        replace (match mp with [] => Ok out | _ :: _ => Ok r end) with (Ok r) in H by (rewrite Em; reflexivity) end.
      eexists. split; [reflexivity|]. split; [congruence|].
      intros Hn. rewrite (Hcat Hn). apply is_string_params_pfind, pfind_merge_array.
Qed.

Lemma mapM_id_ok {A} (l : list A) : mapM_id (map Ok l) = Ok l.
Proof. induction l; simpl; [reflexivity|]. rewrite IHl. reflexivity. Qed.

Lemma mapM_id_inv {A} (l : list (res A)) ys : mapM_id l = Ok ys -> l = map Ok ys.
Proof.
  revert ys. induction l as [|[x|e] l IH]; intros ys H; simpl in H.
  - inversion H. reflexivity.
  - destruct (mapM_id l) as [zs|e]; simpl in H; [|discriminate]. inversion H; subst. simpl. f_equal. auto.
  - discriminate.
Qed.

(* transport a per-content agreement through the contents of a union / record *)
Lemma map_query_types {B} ts (P : form -> Prop) (fq : form -> res B) (tq : rty -> B) cs : forall l,
  mapM_id (map (type_of_form ts) cs) = Ok l ->
  Forall (fun f => P f -> forall t, type_of_form ts f = Ok t -> fq f = Ok (tq t)) cs ->
  Forall P cs ->
  map fq cs = map Ok (map tq l).
Proof.
  induction cs as [|c cs IH]; intros l Hl HF HP; simpl in Hl.
  - inversion Hl. reflexivity.
  - destruct (type_of_form ts c) as [t|e] eqn:Et; simpl in Hl; [|discriminate].
    destruct (mapM_id (map (type_of_form ts) cs)) as [l'|e] eqn:El; simpl in Hl; [|discriminate].
    inversion Hl; subst. inversion HF; subst. inversion HP; subst. simpl. f_equal; auto.
Qed.

Lemma forallb_Forall' {A} (p : A -> bool) l : forallb p l = true -> Forall (fun x => p x = true) l.
Proof. intros H. apply Forall_forall. intros x Hx. rewrite forallb_forall in H. auto. Qed.

Lemma zlen_cons {A} (x : A) l : zlen (x :: l) = zlen l + 1.
Proof. unfold zlen. simpl length. lia. Qed.

Lemma is_string_nil : is_string_params [] = false.
Proof. reflexivity. Qed.

(* ================================================================== 1. Form = Type: depth queries *)
Lemma t_purelist_depth_set p t : is_string_params p = is_string_params (rty_params t) ->
  t_purelist_depth (rty_set_params p t) = t_purelist_depth t.
Proof. destruct t; simpl; intros H; try reflexivity; rewrite H; reflexivity. Qed.
Lemma t_minmax_depth_set p t : is_string_params p = is_string_params (rty_params t) ->
  t_minmax_depth (rty_set_params p t) = t_minmax_depth t.
Proof. destruct t; simpl; intros H; try reflexivity; rewrite H; reflexivity. Qed.
Lemma t_branch_depth_set p t : is_string_params p = is_string_params (rty_params t) ->
  t_branch_depth (rty_set_params p t) = t_branch_depth t.
Proof. destruct t; simpl; intros H; try reflexivity; rewrite H; reflexivity. Qed.
Lemma t_purelist_isregular_set p t : t_purelist_isregular (rty_set_params p t) = t_purelist_isregular t.
Proof. destruct t; reflexivity. Qed.

Lemma numpy_type_depths s p dt inner :
  let t := fold_right (fun d t => RReg [] s d t) (RNum p s dt) inner in
  t_purelist_depth t = zlen inner + 1 /\ t_minmax_depth t = (zlen inner + 1, zlen inner + 1) /\
  t_branch_depth t = (false, zlen inner + 1) /\ t_purelist_isregular t = true.
Proof.
  induction inner as [|d inner IH]; cbn zeta in *.
  - repeat split.
  - destruct IH as (H1 & H2 & H3 & H4). cbn [fold_right t_purelist_depth t_minmax_depth t_branch_depth t_purelist_isregular].
    rewrite is_string_nil, H1, H2, H3, H4, zlen_cons. cbn [fst snd]. repeat split.
Qed.

Ltac bind_type H ts c t Et :=
  cbn [type_of_form] in H; destruct (type_of_form ts c) as [t|?] eqn:Et; cbn [bind] in H; [|discriminate];
  inversion H; subst; clear H.

Ltac depth_list_case IH t' Et :=
  match goal with |- context [is_string_params ?p] => destruct (is_string_params p); [reflexivity|] end;
  rewrite (IH _ eq_refl); reflexivity.

Theorem purelist_depth_form_type ts f : idx_ok f = true -> forall t,
  type_of_form ts f = Ok t -> f_purelist_depth f = Ok (t_purelist_depth t).
Proof.
  induction f as [m inner isz fmt dt|m|m o c IH|m s e c IH|m c size IH|m i c IH|m i c IH|m k c vw IH|m k c vw lsb IH
                 |m c IH|m tg i cs IH|m ks cs IH|m hl|m g hl IH] using form_ind'; intros Hok t H; cbn [idx_ok] in Hok.
  - cbn [type_of_form] in H. destruct dt; try discriminate; inversion H; subst;
      cbn [f_purelist_depth]; f_equal; symmetry; apply numpy_type_depths.
  - inversion H. reflexivity.
  - bind_type H ts c t' Et. cbn [f_purelist_depth t_purelist_depth]. destruct (is_string_params (m_params m)); [reflexivity|].
    rewrite (IH Hok _ eq_refl). reflexivity.
  - bind_type H ts c t' Et. cbn [f_purelist_depth t_purelist_depth]. destruct (is_string_params (m_params m)); [reflexivity|].
    rewrite (IH Hok _ eq_refl). reflexivity.
  - bind_type H ts c t' Et. cbn [f_purelist_depth t_purelist_depth]. destruct (is_string_params (m_params m)); [reflexivity|].
    rewrite (IH Hok _ eq_refl). reflexivity.
  - apply andb_true_iff in Hok as [Hn Hok].
    destruct (indexed_type_shape ts m i c t H) as (out & p' & Ho & -> & Hs).
    cbn [f_purelist_depth]. rewrite t_purelist_depth_set by auto. auto.
  - bind_type H ts c t' Et. cbn [f_purelist_depth t_purelist_depth]. auto.
  - bind_type H ts c t' Et. cbn [f_purelist_depth t_purelist_depth]. auto.
  - bind_type H ts c t' Et. cbn [f_purelist_depth t_purelist_depth]. auto.
  - bind_type H ts c t' Et. cbn [f_purelist_depth t_purelist_depth]. auto.
  - cbn [type_of_form] in H. destruct (mapM_id (map (type_of_form ts) cs)) as [l|?] eqn:El; cbn [bind] in H; [|discriminate].
    inversion H; subst; clear H. cbn [f_purelist_depth t_purelist_depth].
    rewrite (map_query_types ts (fun f => idx_ok f = true) f_purelist_depth t_purelist_depth cs l El IH (forallb_Forall' _ _ Hok)).
    destruct (map t_purelist_depth l) as [|d0 rest]; [reflexivity|]. cbn [map bind]. apply depth_scan_ok.
  - cbn [type_of_form] in H. destruct (mapM_id (map (type_of_form ts) cs)) as [l|?] eqn:El; cbn [bind] in H; [|discriminate].
    inversion H; subst; clear H. reflexivity.
  - discriminate.
  - cbn [type_of_form] in H. cbn [f_purelist_depth]. auto.
Qed.
