(** Proofs_C13b.v -- pointwise characterisations: reducers, prefix sums, carries *)
From Coq Require Import ZArith List Bool Lia ZifyBool.
From AwkV Require Import Base.
From AwkKernels Require Import Kernels KLemmas Proofs_C13.
Import ListNotations.
Open Scope Z_scope.

(** * pointwise view of buffers *)
Lemma at_set_nth l n v q :
  0 <= q -> (n < length l)%nat -> at_ (set_nth l n v) q = if q =? Z.of_nat n then v else at_ l q.
Proof.
  intros Hq Hn. unfold at_. destruct (q =? Z.of_nat n) eqn:E.
  - replace (Z.to_nat q) with n by lia. apply nth_error_nth. now apply nth_error_set_nth_eq.
  - destruct (nth_error l (Z.to_nat q)) eqn:N.
    + rewrite (nth_error_nth _ _ _ N). apply nth_error_nth. rewrite nth_error_set_nth_neq by lia. exact N.
    + apply nth_error_None in N. rewrite !nth_overflow; auto. rewrite length_set_nth. lia.
Qed.

Lemma kupd_at l i v l' :
  kupd l i v = KOk l' -> zlen l' = zlen l /\ forall q, 0 <= q -> at_ l' q = if q =? i then v else at_ l q.
Proof.
  intros H. apply kupd_inv in H. destruct H as (Hi & ->). split; [apply zlen_set_nth|].
  intros q Hq. rewrite at_set_nth by (unfold zlen in Hi; lia).
  replace (Z.of_nat (Z.to_nat i)) with i by lia. reflexivity.
Qed.

Lemma at_filled off n g out q :
  0 <= off -> 0 <= n -> off + n <= zlen out -> 0 <= q ->
  at_ (filled off n g out) q = if (off <=? q) && (q <? off + n) then g (q - off) else at_ out q.
Proof.
  intros Hoff Hn Hlen Hq. unfold filled, at_.
  assert (L1 : length (firstn (Z.to_nat off) out) = Z.to_nat off).
  { apply firstn_length_le. unfold zlen in Hlen. lia. }
  destruct (Z_lt_ge_dec q off).
  - rewrite app_nth1 by lia. replace ((off <=? q) && (q <? off + n)) with false by lia.
    rewrite <- (firstn_skipn (Z.to_nat off) out) at 2. rewrite app_nth1 by lia. reflexivity.
  - rewrite app_nth2 by lia. rewrite L1.
    destruct (Z_lt_ge_dec q (off + n)).
    + replace ((off <=? q) && (q <? off + n)) with true by lia.
      rewrite app_nth1 by (rewrite map_length, iota_length; lia).
      rewrite nth_indep with (d' := g 0) by (rewrite map_length, iota_length; lia).
      rewrite map_nth. f_equal. unfold iota.
      assert (G : forall m s k, (k < m)%nat -> nth k (iota_nat s m) 0 = s + Z.of_nat k).
      { induction m; intros s k Hk; [lia|]. destruct k; cbn [iota_nat nth]; [lia|]. rewrite IHm by lia. lia. }
      rewrite G by lia. lia.
    + replace ((off <=? q) && (q <? off + n)) with false by lia.
      rewrite app_nth2 by (rewrite map_length, iota_length; lia).
      rewrite map_length, iota_length.
      rewrite <- (firstn_skipn (Z.to_nat (off + n)) out) at 2.
      rewrite app_nth2 by (rewrite firstn_length; unfold zlen in Hlen; lia).
      rewrite firstn_length_le by (unfold zlen in Hlen; lia). f_equal. lia.
Qed.

(* ================================================================================================ *)
(** * reducers *)

(** value of output cell q after the first j inputs *)
Fixpoint red_upto (tO : ity) (init : Z) (step : Z -> Z -> Z -> Z) (parents from : list Z) (j : nat) (q : Z) : Z :=
  match j with
  | O => wrap tO init
  | S j' =>
      let acc := red_upto tO init step parents from j' q in
      if at_ parents (Z.of_nat j') =? q then wrap tO (step (Z.of_nat j') acc (at_ from (Z.of_nat j'))) else acc
  end.

Definition red_pre (toptr fromptr parents : list Z) (n ol : Z) : Prop :=
  0 <= n /\ 0 <= ol /\ n <= zlen parents /\ n <= zlen fromptr /\ ol <= zlen toptr /\
  forall i, 0 <= i < n -> 0 <= at_ parents i < ol.

Theorem reduce_generic_spec tO init step toptr fromptr parents n ol :
  red_pre toptr fromptr parents n ol ->
  exists out, reduce_generic tO init step toptr fromptr parents n ol = KOk out /\ zlen out = zlen toptr /\
    forall q, 0 <= q ->
      at_ out q = if q <? ol then red_upto tO init step parents fromptr (Z.to_nat n) q else at_ toptr q.
Proof.
  intros (Hn & Hol & Hp & Hf & Ht & Hr). unfold reduce_generic.
  rewrite (kfill_spec 0 ol _ (fun _ => wrap tO init)); auto; try lia. cbn [kbind]. rewrite Z.max_r by lia.
  set (out0 := filled 0 ol (fun _ => wrap tO init) toptr).
  assert (L0 : zlen out0 = zlen toptr) by (apply zlen_filled; lia).
  destruct (kfor_inv
    (fun i out => let* p := kget parents i in let* x := kget fromptr i in let* cur := kget out p in
                  kupd out p (wrap tO (step i cur x)))
    (fun j out => zlen out = zlen toptr /\ forall q, 0 <= q ->
       at_ out q = if q <? ol then red_upto tO init step parents fromptr (Z.to_nat j) q else at_ toptr q)
    0 n out0) as (s' & E & P); auto.
  - split; auto. intros q Hq. unfold out0. rewrite at_filled by lia. cbn [Z.to_nat red_upto].
    destruct (q <? ol) eqn:E; [replace ((0 <=? q) && (q <? 0 + ol)) with true by lia
                              |replace ((0 <=? q) && (q <? 0 + ol)) with false by lia]; reflexivity.
  - intros j out Hj (L & A). specialize (Hr j Hj).
    rewrite (kget_at parents), (kget_at fromptr) by lia. cbn [kbind].
    rewrite (kget_at out) by lia. cbn [kbind].
    destruct (kupd out (at_ parents j) (wrap tO (step j (at_ out (at_ parents j)) (at_ fromptr j)))) as [o'| |] eqn:U.
    2:{ exfalso. eapply kupd_not_err; eauto. }
    2:{ apply kupd_oob in U. lia. }
    exists o'. split; auto. destruct (kupd_at _ _ _ _ U) as (L' & A'). split; [lia|].
    intros q Hq. rewrite A' by lia. replace (Z.to_nat (j + 1)) with (S (Z.to_nat j)) by lia.
    cbn [red_upto]. replace (Z.of_nat (Z.to_nat j)) with j by lia.
    rewrite (Z.eqb_sym (at_ parents j) q).
    destruct (q =? at_ parents j) eqn:E.
    + replace (q <? ol) with true by lia. rewrite A by lia. replace (at_ parents j <? ol) with true by lia.
      replace (at_ parents j) with q by lia. reflexivity.
    + now rewrite A.
  - exists s'. destruct P as (L & A). split; auto.
Qed.

Theorem reduce_generic_safe tO init step toptr fromptr parents n ol :
  red_pre toptr fromptr parents n ol -> reduce_generic tO init step toptr fromptr parents n ol <> KOob.
Proof. intros H. destruct (reduce_generic_spec tO init step _ _ _ _ _ H) as (out & E & _). congruence. Qed.

Theorem reduce_sum_safe tO toptr fromptr parents n ol :
  red_pre toptr fromptr parents n ol -> reduce_sum tO toptr fromptr parents n ol <> KOob.
Proof. apply reduce_generic_safe. Qed.
Theorem reduce_prod_safe tO toptr fromptr parents n ol :
  red_pre toptr fromptr parents n ol -> reduce_prod tO toptr fromptr parents n ol <> KOob.
Proof. apply reduce_generic_safe. Qed.
Theorem reduce_max_safe tO idn toptr fromptr parents n ol :
  red_pre toptr fromptr parents n ol -> reduce_max tO idn toptr fromptr parents n ol <> KOob.
Proof. apply reduce_generic_safe. Qed.
Theorem reduce_min_safe tO idn toptr fromptr parents n ol :
  red_pre toptr fromptr parents n ol -> reduce_min tO idn toptr fromptr parents n ol <> KOob.
Proof. apply reduce_generic_safe. Qed.
Theorem reduce_countnonzero_safe toptr fromptr parents n ol :
  red_pre toptr fromptr parents n ol -> reduce_countnonzero toptr fromptr parents n ol <> KOob.
Proof. apply reduce_generic_safe. Qed.

(** sum of the values whose parent is q *)
Definition group_sum (parents from : list Z) (q : Z) : Z :=
  sumZ (map snd (filter (fun px => fst px =? q) (zip parents from))).

Lemma zip_firstn_snoc (a b : list Z) j :
  (j < length a)%nat -> (j < length b)%nat ->
  zip (firstn (S j) a) (firstn (S j) b) = zip (firstn j a) (firstn j b) ++ [(nth j a 0, nth j b 0)].
Proof.
  revert a b; induction j; intros [|x a] [|y b] Ha Hb; cbn [length] in *; try lia.
  - reflexivity.
  - cbn [firstn zip nth app]. f_equal. apply IHj; lia.
Qed.

Lemma sumZ_app l m : sumZ (l ++ m) = sumZ l + sumZ m.
Proof. unfold sumZ. induction l; cbn [app fold_right]; lia. Qed.

Lemma red_upto_sum parents from j q :
  (j <= length parents)%nat -> (j <= length from)%nat ->
  red_upto TIdeal 0 (fun _ cur x => cur + wrap TIdeal x) parents from j q
  = group_sum (firstn j parents) (firstn j from) q.
Proof.
  induction j; intros Hp Hf.
  - reflexivity.
  - cbn [red_upto]. rewrite IHj by lia. cbn [wrap]. unfold group_sum. rewrite zip_firstn_snoc by lia.
    rewrite filter_app, map_app, sumZ_app. cbn [filter fst snd]. unfold at_. rewrite Nat2Z.id.
    destruct (nth j parents 0 =? q); unfold sumZ; cbn [map snd fold_right]; lia.
Qed.

(** k_spec of awkward_reduce_sum (unbounded version): cell q holds the sum of the inputs whose parent is q *)
Theorem reduce_sum_spec toptr fromptr parents ol :
  zlen fromptr = zlen parents -> 0 <= ol <= zlen toptr ->
  (forall i, 0 <= i < zlen parents -> 0 <= at_ parents i < ol) ->
  exists out, reduce_sum TIdeal toptr fromptr parents (zlen parents) ol = KOk out /\ zlen out = zlen toptr /\
    forall q, 0 <= q -> at_ out q = if q <? ol then group_sum parents fromptr q else at_ toptr q.
Proof.
  intros Hl Hol Hr. pose proof (zlen_nonneg parents).
  destruct (reduce_generic_spec TIdeal 0 (fun _ cur x => cur + wrap TIdeal x) toptr fromptr parents (zlen parents) ol)
    as (out & E & L & A).
  { unfold red_pre. repeat split; try lia; apply Hr; lia. }
  exists out. split; [exact E|]. split; auto. intros q Hq. rewrite A by lia.
  destruct (q <? ol); auto. rewrite red_upto_sum by (unfold zlen in *; lia).
  unfold zlen. rewrite Nat2Z.id. rewrite firstn_all.
  replace (length parents) with (length fromptr) by (unfold zlen in Hl; lia). now rewrite firstn_all.
Qed.

Lemma at_ext (l m : list Z) : zlen l = zlen m -> (forall q, 0 <= q -> at_ l q = at_ m q) -> l = m.
Proof.
  intros L A. apply nth_ext with (d := 0) (d' := 0); [unfold zlen in L; lia|].
  intros k Hk. specialize (A (Z.of_nat k)). unfold at_ in A. rewrite Nat2Z.id in A. apply A. lia.
Qed.

(** every width specialisation of reduce_sum equals the ideal one while no input and no partial sum wraps *)
Theorem reduce_sum_width tO toptr fromptr parents n ol :
  red_pre toptr fromptr parents n ol ->
  (forall j q, (j <= Z.to_nat n)%nat -> fits tO (red_upto TIdeal 0 (fun _ cur x => cur + x) parents fromptr j q)) ->
  (forall i, 0 <= i < n -> fits tO (at_ fromptr i)) ->
  reduce_sum tO toptr fromptr parents n ol = reduce_sum TIdeal toptr fromptr parents n ol.
Proof.
  intros Pre Fs Fx.
  destruct (reduce_generic_spec tO 0 (fun _ cur x => cur + wrap tO x) _ _ _ _ _ Pre) as (o & Eo & L & A).
  destruct (reduce_generic_spec TIdeal 0 (fun _ cur x => cur + wrap TIdeal x) _ _ _ _ _ Pre) as (o' & Eo' & L' & A').
  unfold reduce_sum. rewrite Eo, Eo'. f_equal. apply at_ext; [lia|].
  intros q Hq. rewrite A, A' by lia. destruct (q <? ol); auto.
  destruct Pre as (Hn & _).
  assert (G : forall j, (j <= Z.to_nat n)%nat ->
            red_upto tO 0 (fun _ cur x => cur + wrap tO x) parents fromptr j q
            = red_upto TIdeal 0 (fun _ cur x => cur + x) parents fromptr j q).
  { induction j; intros Hj.
    - cbn [red_upto wrap]. exact (Fs O q (Nat.le_0_l _)).
    - cbn [red_upto]. rewrite IHj by lia.
      destruct (at_ parents (Z.of_nat j) =? q) eqn:EE; auto.
      cbn [wrap]. rewrite (Fx (Z.of_nat j)) by lia.
      specialize (Fs (S j) q Hj). cbn [red_upto] in Fs. rewrite EE in Fs. exact Fs. }
  rewrite G by lia. reflexivity.
Qed.

(* ================================================================================================ *)
(** * awkward_reduce_count_64 *)

Definition count_upto (parents : list Z) (j : nat) (q : Z) : Z :=
  Z.of_nat (count_occ Z.eq_dec (firstn j parents) q).

Lemma count_upto_S parents j q :
  (j < length parents)%nat ->
  count_upto parents (S j) q = count_upto parents j q + (if at_ parents (Z.of_nat j) =? q then 1 else 0).
Proof.
  intros H. unfold count_upto, at_. rewrite Nat2Z.id.
  assert (F : firstn (S j) parents = firstn j parents ++ [nth j parents 0]).
  { revert parents H; induction j; intros [|x l] H; cbn [length] in *; try lia; auto.
    cbn [firstn nth app]. f_equal. apply IHj. lia. }
  rewrite F, count_occ_app. cbn [count_occ].
  destruct (Z.eq_dec (nth j parents 0) q); destruct (nth j parents 0 =? q) eqn:E; lia.
Qed.

Theorem reduce_count_spec toptr parents ol :
  0 <= ol <= zlen toptr ->
  (forall i, 0 <= i < zlen parents -> 0 <= at_ parents i < ol) ->
  exists out, reduce_count toptr parents (zlen parents) ol = KOk out /\ zlen out = zlen toptr /\
    forall q, 0 <= q -> at_ out q = if q <? ol then Z.of_nat (count_occ Z.eq_dec parents q) else at_ toptr q.
Proof.
  intros Hol Hr. pose proof (zlen_nonneg parents) as Hn. unfold reduce_count.
  rewrite (kfill_spec 0 ol _ (fun _ => 0)); auto; try lia. cbn [kbind]. rewrite Z.max_r by lia.
  set (out0 := filled 0 ol (fun _ => 0) toptr).
  assert (L0 : zlen out0 = zlen toptr) by (apply zlen_filled; lia).
  destruct (kfor_inv
    (fun i out => let* p := kget parents i in let* cur := kget out p in kupd out p (cur + 1))
    (fun j out => zlen out = zlen toptr /\ forall q, 0 <= q ->
       at_ out q = if q <? ol then count_upto parents (Z.to_nat j) q else at_ toptr q)
    0 (zlen parents) out0) as (s' & E & P); auto.
  - split; auto. intros q Hq. unfold out0. rewrite at_filled by lia. unfold count_upto. cbn [Z.to_nat firstn count_occ].
    destruct (q <? ol) eqn:E; [replace ((0 <=? q) && (q <? 0 + ol)) with true by lia
                              |replace ((0 <=? q) && (q <? 0 + ol)) with false by lia]; reflexivity.
  - intros j out Hj (L & A). specialize (Hr j Hj).
    rewrite (kget_at parents) by lia. cbn [kbind]. rewrite (kget_at out) by lia. cbn [kbind].
    destruct (kupd out (at_ parents j) (at_ out (at_ parents j) + 1)) as [o'| |] eqn:U.
    2:{ exfalso. eapply kupd_not_err; eauto. }
    2:{ apply kupd_oob in U. lia. }
    exists o'. split; auto. destruct (kupd_at _ _ _ _ U) as (L' & A'). split; [lia|].
    intros q Hq. rewrite A' by lia. replace (Z.to_nat (j + 1)) with (S (Z.to_nat j)) by lia.
    rewrite count_upto_S by (unfold zlen in Hj; lia). replace (Z.of_nat (Z.to_nat j)) with j by lia.
    rewrite (Z.eqb_sym (at_ parents j) q).
    destruct (q =? at_ parents j) eqn:E.
    + replace (q <? ol) with true by lia. rewrite A by lia. replace (at_ parents j <? ol) with true by lia.
      replace (at_ parents j) with q by lia. reflexivity.
    + rewrite A by lia. destruct (q <? ol); lia.
  - exists s'. destruct P as (L & A). split; auto. split; auto. intros q Hq. rewrite A by lia.
    destruct (q <? ol); auto. unfold count_upto, zlen. rewrite Nat2Z.id, firstn_all. reflexivity.
Qed.

Theorem reduce_count_safe toptr parents ol :
  0 <= ol <= zlen toptr -> (forall i, 0 <= i < zlen parents -> 0 <= at_ parents i < ol) ->
  reduce_count toptr parents (zlen parents) ol <> KOob.
Proof. intros H1 H2. destruct (reduce_count_spec toptr parents ol H1 H2) as (o & E & _). congruence. Qed.

(* ================================================================================================ *)
(** * awkward_ListArray_compact_offsets: prefix sums of the list lengths *)

Definition count_sum (starts stops : list Z) (k : nat) : Z :=
  sumZ (map (fun p => snd p - fst p) (zip (firstn k starts) (firstn k stops))).

Lemma count_sum_S starts stops k :
  (k < length starts)%nat -> (k < length stops)%nat ->
  count_sum starts stops (S k) = count_sum starts stops k + (at_ stops (Z.of_nat k) - at_ starts (Z.of_nat k)).
Proof.
  intros H1 H2. unfold count_sum. rewrite zip_firstn_snoc by lia. rewrite map_app, sumZ_app.
  unfold at_. rewrite Nat2Z.id. unfold sumZ. cbn [map fst snd fold_right]. lia.
Qed.

Theorem ListArray_compact_offsets_spec tooffsets starts stops :
  zlen stops = zlen starts -> zlen starts + 1 <= zlen tooffsets ->
  (forall i, 0 <= i < zlen starts -> at_ starts i <= at_ stops i) ->
  exists out, ListArray_compact_offsets TIdeal TIdeal tooffsets starts stops (zlen starts) = KOk out /\
    zlen out = zlen tooffsets /\
    forall q, 0 <= q -> at_ out q = if q <=? zlen starts then count_sum starts stops (Z.to_nat q) else at_ tooffsets q.
Proof.
  intros Hl Ht Hm. pose proof (zlen_nonneg starts) as Hn. unfold ListArray_compact_offsets.
  destruct (kupd tooffsets 0 0) as [out0| |] eqn:U0.
  2:{ exfalso. eapply kupd_not_err; eauto. }
  2:{ apply kupd_oob in U0. lia. }
  cbn [kbind]. destruct (kupd_at _ _ _ _ U0) as (L0 & A0).
  destruct (kfor_inv
    (fun i out => let* start := kget starts i in let* stop := kget stops i in
                  let* _ := kcheck (stop <? start) MStopsLtStarts in
                  let* prev := kget out i in kupd out (i + 1) (wrap TIdeal (prev + wrap TIdeal (stop - start))))
    (fun j out => zlen out = zlen tooffsets /\ forall q, 0 <= q ->
       at_ out q = if q <=? j then count_sum starts stops (Z.to_nat q) else at_ tooffsets q)
    0 (zlen starts) out0) as (s' & E & P); auto.
  - split; [lia|]. intros q Hq. rewrite A0 by lia. destruct (q =? 0) eqn:E.
    + replace (q <=? 0) with true by lia. replace q with 0 by lia. reflexivity.
    + replace (q <=? 0) with false by lia. reflexivity.
  - intros j out Hj (L & A). specialize (Hm j Hj).
    rewrite (kget_at starts), (kget_at stops) by lia. cbn [kbind wrap].
    replace (at_ stops j <? at_ starts j) with false by lia. cbn [kcheck kbind].
    rewrite (kget_at out) by lia. cbn [kbind].
    destruct (kupd out (j + 1) (at_ out j + (at_ stops j - at_ starts j))) as [o'| |] eqn:U.
    2:{ exfalso. eapply kupd_not_err; eauto. }
    2:{ apply kupd_oob in U. lia. }
    exists o'. split; auto. destruct (kupd_at _ _ _ _ U) as (L' & A'). split; [lia|].
    intros q Hq. rewrite A' by lia. destruct (q =? j + 1) eqn:E.
    + replace (q <=? j + 1) with true by lia. rewrite A by lia. replace (j <=? j) with true by lia.
      replace (Z.to_nat q) with (S (Z.to_nat j)) by lia.
      rewrite count_sum_S by (unfold zlen in *; lia). replace (Z.of_nat (Z.to_nat j)) with j by lia. reflexivity.
    + rewrite A by lia. destruct (q <=? j) eqn:E2.
      * replace (q <=? j + 1) with true by lia. reflexivity.
      * replace (q <=? j + 1) with false by lia. reflexivity.
  - exists s'. destruct P as (L & A). auto.
Qed.

Theorem ListArray_compact_offsets_safe tT tC tooffsets starts stops n :
  0 <= n -> n <= zlen starts -> n <= zlen stops -> n + 1 <= zlen tooffsets ->
  ListArray_compact_offsets tT tC tooffsets starts stops n <> KOob.
Proof.
  intros H0 H1 H2 H3. unfold ListArray_compact_offsets.
  rewrite kupd_ok by lia. cbn [kbind].
  apply (kfor_noob _ (fun _ o => zlen o = zlen tooffsets) 0 n).
  - apply zlen_set_nth.
  - intros j s Hj Hs. rewrite (kget_at starts), (kget_at stops) by lia. cbn [kbind].
    destruct (at_ stops j <? at_ starts j); cbn [kcheck kbind]; [split; congruence|].
    rewrite (kget_at s) by lia. cbn [kbind]. split.
    + intros C. apply kupd_oob in C. lia.
    + intros s' E. apply kupd_zlen in E. lia.
Qed.

(* ================================================================================================ *)
(** * awkward_IndexedArray_getitem_nextcarry: identity carry for an in-range index, error otherwise *)

Lemma nextcarry_body index n lc :
  n <= zlen index ->
  forall j st, 0 <= j < n ->
    (let* x := kget index j in
     let* _ := kcheck ((x <? 0) || (lc <=? x)) MIndexOutOfRange in kpush st x)
    = push_body (fun i => if (at_ index i <? 0) || (lc <=? at_ index i) then KErr MIndexOutOfRange
                          else KOk (Some (at_ index i))) j st.
Proof.
  intros H j st Hj. unfold push_body. rewrite (kget_at index) by lia. cbn [kbind]. unfold kcheck.
  destruct ((at_ index j <? 0) || (lc <=? at_ index j)); reflexivity.
Qed.

Theorem IndexedArray_getitem_nextcarry_safe tocarry index n lc :
  n <= zlen index -> n <= zlen tocarry -> IndexedArray_getitem_nextcarry tocarry index n lc <> KOob.
Proof.
  intros H1 H2. unfold IndexedArray_getitem_nextcarry.
  rewrite (kfor_ext _ _ 0 n _ (nextcarry_body index n lc H1)).
  match goal with |- context [kfor 0 n (push_body ?sel) _] => pose proof (kpushloop_safe sel n tocarry H2) as S end.
  destruct (kfor 0 n _ (tocarry, 0)); cbn [kbind]; try congruence.
  exfalso. apply S; [|reflexivity].
  intros i Hi. destruct ((at_ index i <? 0) || (lc <=? at_ index i)); congruence.
Qed.

Theorem IndexedArray_getitem_nextcarry_spec tocarry index lc :
  zlen index <= zlen tocarry ->
  (forall i, 0 <= i < zlen index -> 0 <= at_ index i < lc) ->
  IndexedArray_getitem_nextcarry tocarry index (zlen index) lc = KOk (index ++ skipn (length index) tocarry).
Proof.
  intros Hcap Hr. pose proof (zlen_nonneg index). unfold IndexedArray_getitem_nextcarry.
  rewrite (kfor_ext _ _ 0 (zlen index) _ (nextcarry_body index (zlen index) lc (Z.le_refl _))).
  assert (PF : pushed (fun i => Some (at_ index i)) (zlen index) = index).
  { unfold pushed. rewrite (flat_map_iota_list (fun x => opt_list (Some x))).
    clear. induction index; cbn [flat_map]; auto. rewrite IHindex. reflexivity. }
  rewrite (kpushloop_spec _ (fun i => Some (at_ index i))); auto.
  - cbn [kbind fst]. now rewrite PF.
  - intros i Hi. specialize (Hr i Hi). replace ((at_ index i <? 0) || (lc <=? at_ index i)) with false by lia. reflexivity.
  - now rewrite PF.
Qed.

(* ================================================================================================ *)
(** * range regularisation (kernel-utils.cpp): the result is always a legal loop range *)

Theorem regularize_rangeslice_spec start stop posstep hasstart hasstop length :
  0 <= length ->
  let '(s, e) := regularize_rangeslice start stop posstep hasstart hasstop length in
  if posstep then 0 <= s <= e /\ e <= length else -1 <= e <= s /\ s <= length - 1.
Proof.
  intros H. unfold regularize_rangeslice.
  destruct posstep; destruct hasstart; destruct hasstop; cbn [negb]; cbv zeta;
    repeat match goal with |- context [if ?b then _ else _] => destruct b eqn:? end; lia.
Qed.

(** with both bounds given and in range, it is the identity (positive step) *)
Theorem regularize_rangeslice_width start stop length :
  0 <= start <= stop -> stop <= length ->
  regularize_rangeslice start stop true true true length = (start, stop).
Proof.
  intros H1 H2. unfold regularize_rangeslice. cbn [negb]. cbv zeta.
  replace (start <? 0) with false by lia. cbv iota.
  replace (start <? 0) with false by lia. cbv iota.
  replace (length <? start) with false by lia. cbv iota.
  replace (stop <? 0) with false by lia. cbv iota.
  replace (stop <? 0) with false by lia. cbv iota.
  replace (length <? stop) with false by lia. cbv iota.
  replace (stop <? start) with false by lia. reflexivity.
Qed.

(** the per-cell characterisation instantiated for the other value reducers *)
Theorem reduce_prod_spec tO toptr fromptr parents n ol :
  red_pre toptr fromptr parents n ol ->
  exists out, reduce_prod tO toptr fromptr parents n ol = KOk out /\ zlen out = zlen toptr /\
    forall q, 0 <= q ->
      at_ out q = if q <? ol then red_upto tO 1 (fun _ cur x => cur * wrap tO x) parents fromptr (Z.to_nat n) q
                  else at_ toptr q.
Proof. apply reduce_generic_spec. Qed.
Theorem reduce_max_spec tO idn toptr fromptr parents n ol :
  red_pre toptr fromptr parents n ol ->
  exists out, reduce_max tO idn toptr fromptr parents n ol = KOk out /\ zlen out = zlen toptr /\
    forall q, 0 <= q ->
      at_ out q = if q <? ol then red_upto tO idn (fun _ cur x => if cur <? x then x else cur) parents fromptr (Z.to_nat n) q
                  else at_ toptr q.
Proof. apply reduce_generic_spec. Qed.
Theorem reduce_min_spec tO idn toptr fromptr parents n ol :
  red_pre toptr fromptr parents n ol ->
  exists out, reduce_min tO idn toptr fromptr parents n ol = KOk out /\ zlen out = zlen toptr /\
    forall q, 0 <= q ->
      at_ out q = if q <? ol then red_upto tO idn (fun _ cur x => if x <? cur then x else cur) parents fromptr (Z.to_nat n) q
                  else at_ toptr q.
Proof. apply reduce_generic_spec. Qed.
Theorem reduce_countnonzero_spec toptr fromptr parents n ol :
  red_pre toptr fromptr parents n ol ->
  exists out, reduce_countnonzero toptr fromptr parents n ol = KOk out /\ zlen out = zlen toptr /\
    forall q, 0 <= q ->
      at_ out q = if q <? ol then red_upto i64 0 (fun _ cur x => cur + (if x =? 0 then 0 else 1)) parents fromptr (Z.to_nat n) q
                  else at_ toptr q.
Proof. apply reduce_generic_spec. Qed.
