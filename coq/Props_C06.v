(** C06 property theorems (statements only; proofs in Proofs_Sort.v / Proofs_C06.v).
    They are about the value-level specification [sort_leaves] (what one list along the sorted
    axis becomes), which the at-axis descent applies independently to every list at that axis;
    the layout-level model [sort_model] and the implementation are tied to it by correspondence. *)
From AwkV Require Import Layout Ops_Sort Proofs_Sort Proofs_C06.
From Coq Require Import Permutation Sorting.Sorted.
From AwkV Require Import Valid Types AtAxis Typing Proofs_AtAxis Proofs_SortRef Proofs_SortRef2 Proofs_SortStr
                         Proofs_SortCols Proofs_SortCols2 Proofs_SortCols3 Proofs_SortRef3.

(* For a list of numbers with missing values: sort returns the sorted numbers followed by
   the missing values, argsort the positions realising that order followed by the positions
   of the missing values. *)
Theorem sort_result : forall asc argsort l,
  numeric l ->
  sort_leaves asc argsort l =
  Ok (if argsort
      then map (fun jd : Z * datum => VNum (DZ (fst jd))) (sorted_pairs asc l) ++ map (fun j => VNum (DZ j)) (none_pos l)
      else map (fun jd : Z * datum => VNum (snd jd)) (sorted_pairs asc l) ++ map (fun _ => VNone) (none_pos l)).
Proof. exact sort_leaves_numeric. Qed.
Print Assumptions sort_result.

(* ... where the sorted (position, value) pairs are a permutation of the list's own
   non-missing elements (nothing is duplicated, dropped or taken from another list), *)
Theorem sort_permutation : forall asc l, Permutation (sorted_pairs asc l) (nums l).
Proof. exact sorted_pairs_perm. Qed.
Print Assumptions sort_permutation.

(* ... in non-decreasing (non-increasing) order of the kernel's comparator, *)
Theorem sort_sorted : forall asc l,
  StronglySorted (fun a b : Z * datum => num_before asc (snd b) (snd a) = false) (sorted_pairs asc l).
Proof. exact sorted_pairs_sorted. Qed.
Print Assumptions sort_sorted.

(* ... with equal elements in their original relative order (stable), *)
Theorem sort_stable : forall asc a l,
  filter (equivb (Z * datum) (pair_before asc) a) (sorted_pairs asc l) =
  filter (equivb (Z * datum) (pair_before asc) a) (nums l).
Proof. exact sorted_pairs_stable. Qed.
Print Assumptions sort_stable.

(* ... and NaN first in both directions. *)
Theorem nan_first_both_directions : forall asc l pre j post,
  sorted_pairs asc l = pre ++ (j, DNaN) :: post -> Forall (fun p : Z * datum => snd p = DNaN) pre.
Proof. exact nan_first_sorted. Qed.
Print Assumptions nan_first_both_directions.

(* The comparator (awkward_sort.cpp: less(l,r) = !isnan(r) && (isnan(l) || l < r)) is a strict weak order. *)
Theorem cmp_strict_weak_order : forall asc,
  (forall a, num_before asc a a = false) /\
  (forall a b c, num_before asc a b = true -> num_before asc b c = true -> num_before asc a c = true) /\
  (forall x y z, num_before asc x y = false -> num_before asc y x = false ->
                 num_before asc y z = false -> num_before asc z y = false ->
                 num_before asc x z = false /\ num_before asc z x = false).
Proof. exact (fun asc => conj (num_before_irrefl asc) (conj (num_before_trans asc) (num_before_incomp asc))). Qed.
Print Assumptions cmp_strict_weak_order.

(* ================================================================ sort/argsort: layout model refines the spec *)
Theorem sort_refines_spec_partial : forall asc argsort axis c vs,
  Valid None c -> sfrag c = true -> to_list c = Ok vs -> sort_modelled asc argsort axis c = true ->
  obs (sort_model asc argsort axis c) = sort_spec asc argsort axis (type_of c) vs.
Proof. exact Proofs_SortRef2.sort_refines_spec_partial. Qed.
Print Assumptions sort_refines_spec_partial.

Theorem sort_modelled_on_innermost_axis : forall asc argsort axis c vs,
  Valid None c -> sfrag c = true -> to_list c = Ok vs -> innermost axis (type_of c) = true ->
  sort_modelled asc argsort axis c = true.
Proof. exact innermost_modelled. Qed.
Print Assumptions sort_modelled_on_innermost_axis.

Theorem last_axis_is_innermost : forall c,
  Valid None c -> no_empty c = true -> sortable (type_of c) = true ->
  innermost (-1) (type_of c) = true /\ innermost (snd (minmax (type_of c)) - 1) (type_of c) = true.
Proof. exact innermost_last_axis. Qed.
Print Assumptions last_axis_is_innermost.

Theorem sort_refines_spec_innermost_axis : forall asc argsort axis c vs,
  Valid None c -> sfrag c = true -> to_list c = Ok vs -> innermost axis (type_of c) = true ->
  obs (sort_model asc argsort axis c) = sort_spec asc argsort axis (type_of c) vs.
Proof. exact sort_refines_spec_innermost. Qed.
Print Assumptions sort_refines_spec_innermost_axis.

Theorem sort_refines_spec_axis_minus_one : forall asc argsort c vs,
  Valid None c -> sfrag c = true -> to_list c = Ok vs ->
  obs (sort_model asc argsort (-1) c) = sort_spec asc argsort (-1) (type_of c) vs /\
  obs (sort_model asc argsort (snd (minmax (type_of c)) - 1) c)
  = sort_spec asc argsort (snd (minmax (type_of c)) - 1) (type_of c) vs.
Proof. exact sort_refines_spec_last_axis. Qed.
Print Assumptions sort_refines_spec_axis_minus_one.

Theorem sort_model_reads_and_writes_keys :
  (forall c vs, Valid None c -> leafish (type_of c) = true -> to_list c = Ok vs ->
     exists ks, leaf_keys None c = Ok ks /\ keys_of c vs ks) /\
  (forall dt kd ks, homog kd ks -> compat kd dt -> to_list (content_of_keys dt ks) = Ok (map val_of_okey ks)) /\
  (forall asc argsort dt ks,
     sort_leaves asc argsort (enumv (map val_of_okey ks)) = Ok (map val_of_okey (sort_keys asc argsort dt ks))).
Proof. exact (conj leaf_keys_spec (conj content_of_keys_to_list sort_leaves_keys)). Qed.
Print Assumptions sort_model_reads_and_writes_keys.

Theorem sort_model_preserves_lengths : forall asc argsort axis c vs ws,
  Valid None c -> sfrag c = true -> to_list c = Ok vs -> sort_modelled asc argsort axis c = true ->
  obs (sort_model asc argsort axis c) = Ok ws ->
  opts_on_leaves (type_of c) = true -> axis_above_strings (type_of c) axis = true -> map shape ws = map shape vs.
Proof. exact Proofs_SortRef3.sort_model_preserves_lengths. Qed.
Print Assumptions sort_model_preserves_lengths.

Theorem sort_model_no_cross_list_movement : forall asc axis c vs ws ax,
  Valid None c -> sfrag c = true -> to_list c = Ok vs -> sort_modelled asc false axis c = true ->
  obs (sort_model asc false axis c) = Ok ws -> resolve_axis (type_of c) 0 axis = Ok ax ->
  forall q0 l l', zlen q0 = ax ->
  at_path q0 (VList vs) = Some (VList l) -> at_path q0 (VList ws) = Some (VList l') ->
  forall q, Permutation (leaves_at q l') (leaves_at q l).
Proof. exact Proofs_SortRef3.sort_model_no_cross_list_movement. Qed.
Print Assumptions sort_model_no_cross_list_movement.

(* ================================================================ strings: sorted as units, lexicographically on bytes *)
Theorem str_cmp_irrefl : forall a, bytes_lt a a = false.
Proof. exact bytes_lt_irrefl. Qed.
Print Assumptions str_cmp_irrefl.

Theorem str_cmp_trans : forall a b c, bytes_lt a b = true -> bytes_lt b c = true -> bytes_lt a c = true.
Proof. exact bytes_lt_trans. Qed.
Print Assumptions str_cmp_trans.

Theorem str_cmp_total : forall a b, bytes_lt a b = false -> bytes_lt b a = false -> a = b.
Proof. exact bytes_lt_total. Qed.
Print Assumptions str_cmp_total.

Theorem str_cmp_lexicographic : forall a b,
  bytes_lt a b = true <->
  (exists p x y r s, a = p ++ x :: r /\ b = p ++ y :: s /\ x < y) \/ (exists r y, b = a ++ y :: r).
Proof. exact bytes_lt_lex. Qed.
Print Assumptions str_cmp_lexicographic.

Theorem str_cmp_ignores_flags : forall asc i j a b, key_before asc (KStr i a) (KStr j b) = str_before asc a b.
Proof. exact str_before_flags. Qed.
Print Assumptions str_cmp_ignores_flags.

Theorem str_cmp_direction : forall asc a b, str_before asc a b = if asc then bytes_lt a b else bytes_lt b a.
Proof. exact str_before_eq. Qed.
Print Assumptions str_cmp_direction.

Theorem str_cmp_strict_weak_order : forall asc,
  (forall a, str_before asc a a = false) /\
  (forall a b c, str_before asc a b = true -> str_before asc b c = true -> str_before asc a c = true) /\
  (forall x y z, str_before asc x y = false -> str_before asc y x = false ->
                 str_before asc y z = false -> str_before asc z y = false ->
                 str_before asc x z = false /\ str_before asc z x = false) /\
  (forall a b, str_before asc a b = false -> str_before asc b a = false -> a = b).
Proof. exact Proofs_SortStr.str_cmp_strict_weak_order. Qed.
Print Assumptions str_cmp_strict_weak_order.

Theorem sort_result_strings : forall asc argsort l,
  stringy l ->
  sort_leaves asc argsort l =
  Ok (if argsort
      then map (fun e : Z * (bool * list Z) => VNum (DZ (fst e))) (sorted_strs asc l) ++ map (fun j => VNum (DZ j)) (none_pos l)
      else map (fun e : Z * (bool * list Z) => VStr (fst (snd e)) (snd (snd e))) (sorted_strs asc l) ++ map (fun _ => VNone) (none_pos l)).
Proof. exact sort_leaves_strings. Qed.
Print Assumptions sort_result_strings.

Theorem strings_sort_as_units : forall asc l,
  Permutation (sorted_strs asc l) (strs l) /\
  StronglySorted (fun a b : Z * (bool * list Z) => str_before asc (snd (snd b)) (snd (snd a)) = false) (sorted_strs asc l) /\
  (forall a, filter (equivb (Z * (bool * list Z)) (strent_before asc) a) (sorted_strs asc l) =
             filter (equivb (Z * (bool * list Z)) (strent_before asc) a) (strs l)).
Proof. exact Proofs_SortStr.strings_sort_as_units. Qed.
Print Assumptions strings_sort_as_units.

Theorem sort_strings_equiv_is_same_bytes : forall asc a x,
  equivb (Z * (bool * list Z)) (strent_before asc) a x = true <-> snd (snd a) = snd (snd x).
Proof. exact strent_equiv_iff. Qed.
Print Assumptions sort_strings_equiv_is_same_bytes.

Theorem sort_strings_ascending : forall l pre a mid b post,
  sorted_strs true l = pre ++ a :: mid ++ b :: post -> bytes_lt (snd (snd b)) (snd (snd a)) = false.
Proof. exact strings_ascending. Qed.
Print Assumptions sort_strings_ascending.

Theorem sort_strings_descending : forall l pre a mid b post,
  sorted_strs false l = pre ++ a :: mid ++ b :: post -> bytes_lt (snd (snd a)) (snd (snd b)) = false.
Proof. exact strings_descending. Qed.
Print Assumptions sort_strings_descending.

Theorem str_prefix_before_extension : forall a y r, bytes_lt a (a ++ y :: r) = true.
Proof. exact prefix_before_extension. Qed.
Print Assumptions str_prefix_before_extension.

(* ================================================================ column sort (non-innermost axes), spec level *)
Theorem sort_leaves_length : forall asc a rows vs, sort_leaves asc a rows = Ok vs -> length vs = length rows.
Proof. exact Proofs_SortCols.sort_leaves_length. Qed.
Print Assumptions sort_leaves_length.

Theorem sortcols_ids : forall asc a t rows out, sortcols asc a t rows = Ok out -> map fst out = map fst rows.
Proof. exact Proofs_SortCols.sortcols_ids. Qed.
Print Assumptions sortcols_ids.

Theorem sortcols_rows : forall asc a sz t' rows out,
  sortcols asc a (TList sz None t') rows = Ok out ->
  Forall2 (fun r o : Z * value =>
             fst r = fst o /\ exists l l', snd r = VList l /\ snd o = VList l' /\ length l = length l') rows out.
Proof. exact Proofs_SortCols.sortcols_rows. Qed.
Print Assumptions sortcols_rows.

Theorem sortcols_columns : forall asc a sz t' rows out,
  NoDup (map fst rows) -> sortcols asc a (TList sz None t') rows = Ok out -> sortable t' = true ->
  forall p, sortcols asc a t' (colv p rows) = Ok (colv p out).
Proof. exact Proofs_SortCols.sortcols_columns. Qed.
Print Assumptions sortcols_columns.

Theorem sortcols_columns_nonempty : forall asc a sz t' rows out,
  NoDup (map fst rows) -> sortcols asc a (TList sz None t') rows = Ok out ->
  forall p, colv p rows <> [] -> sortcols asc a t' (colv p rows) = Ok (colv p out).
Proof. exact Proofs_SortCols.sortcols_columns_nonempty. Qed.
Print Assumptions sortcols_columns_nonempty.

Theorem sortcols_columns_empty : forall asc a sz t' rows out,
  sortcols asc a (TList sz None t') rows = Ok out -> forall p, colv p rows = [] -> colv p out = [].
Proof. exact Proofs_SortCols.sortcols_columns_empty. Qed.
Print Assumptions sortcols_columns_empty.

Theorem enumv_NoDup : forall l, NoDup (map fst (enumv l)).
Proof. exact Proofs_SortCols.enumv_NoDup. Qed.
Print Assumptions enumv_NoDup.

Theorem sortcols_shape_partial : forall asc a t,
  opts_on_leaves t = true -> forall rows out,
  sortcols asc a t rows = Ok out -> NoDup (map fst rows) ->
  map (fun jv : Z * value => shape (snd jv)) out = map (fun jv : Z * value => shape (snd jv)) rows.
Proof. exact Proofs_SortCols2.sortcols_shape_partial. Qed.
Print Assumptions sortcols_shape_partial.

Theorem sort_spec_preserves_lengths_partial : forall asc a axis t vs ws,
  opts_on_leaves t = true -> axis_above_strings t axis = true -> Forall (has_type t) vs ->
  sort_spec asc a axis t vs = Ok ws -> map shape ws = map shape vs.
Proof. exact Proofs_SortCols3.sort_spec_preserves_lengths_partial. Qed.
Print Assumptions sort_spec_preserves_lengths_partial.

Theorem no_cross_list_movement : forall asc t rows out,
  sortcols asc false t rows = Ok out -> NoDup (map fst rows) ->
  forall q, Permutation (leaves_at q (map snd out)) (leaves_at q (map snd rows)).
Proof. exact Proofs_SortCols2.no_cross_list_movement. Qed.
Print Assumptions no_cross_list_movement.

Theorem sort_spec_no_cross_list_movement : forall asc axis t vs ws ax,
  sort_spec asc false axis t vs = Ok ws -> resolve_axis t 0 axis = Ok ax ->
  forall q0 l l', zlen q0 = ax ->
  at_path q0 (VList vs) = Some (VList l) -> at_path q0 (VList ws) = Some (VList l') ->
  forall q, Permutation (leaves_at q l') (leaves_at q l).
Proof. exact Proofs_SortCols3.sort_spec_no_cross_list_movement. Qed.
Print Assumptions sort_spec_no_cross_list_movement.

Theorem argsort_realises_sort : forall asc vs ix s,
  sort_leaves asc true (enumv vs) = Ok ix -> sort_leaves asc false (enumv vs) = Ok s ->
  mapM (fun i => match i with VNum (DZ j) => get vs j | _ => Err EValue end) ix = Ok s.
Proof. exact Proofs_SortCols3.argsort_realises_sort. Qed.
Print Assumptions argsort_realises_sort.

Theorem argsort_positions : forall asc vs ix,
  sort_leaves asc true (enumv vs) = Ok ix ->
  Permutation (map (fun i => match i with VNum (DZ j) => j | _ => -1 end) ix) (iota (zlen vs)).
Proof. exact Proofs_SortCols3.argsort_positions. Qed.
Print Assumptions argsort_positions.

Theorem argsort_realises_sort_cols : forall asc sz t' rows outA outS,
  is_leaf_ty t' = true -> NoDup (map fst rows) ->
  sortcols asc true (TList sz None t') rows = Ok outA -> sortcols asc false (TList sz None t') rows = Ok outS ->
  forall p,
    mapM (fun i => match i with VNum (DZ j) => assocZ j (colv p rows) | _ => Err EValue end) (map snd (colv p outA))
    = Ok (map snd (colv p outS)).
Proof. exact Proofs_SortCols3.argsort_realises_sort_cols. Qed.
Print Assumptions argsort_realises_sort_cols.

From AwkV Require Import Ops_SortAxes Proofs_SortAxes Proofs_SortAxes2 Proofs_SortAxes3.

(* ================================================================ sort along a NON-innermost axis: layout model (non-local branch) refines the spec *)
(* the value-level column sort is total on well-typed rows of the handled element types (lists, not strings, over
   numbers; option nodes on the leaves) *)
Theorem sortcols_total_on_handled_types : forall asc t, saxty t = true -> forall rows,
  Forall (fun jv : Z * value => has_type t (snd jv)) rows -> exists out, sortcols asc false t rows = Ok out.
Proof. exact Proofs_SortAxes.sortcols_total. Qed.
Print Assumptions sortcols_total_on_handled_types.

(* every node class: [sax] (columns through the groups of positions, recursion, gathering back) answers a VALID layout
   that lists, group after group, [sortcols] of the values at the group's positions *)
Theorem sort_axes_groups_refine_sortcols : forall asc c p groups vs,
  Valid p c -> frag1 c = true -> saxty (type_of_p p c) = true -> to_list c = Ok vs ->
  Proofs_Reduce.in_range (zlen vs) groups ->
  exists c' outs, sax asc p c groups = Ok c' /\ Valid None c' /\
                  sax_spec asc (type_of_p p c) vs groups = Ok outs /\
                  to_list c' = Ok (concat (map (map snd) outs)).
Proof. exact Proofs_SortAxes2.sax_all. Qed.
Print Assumptions sort_axes_groups_refine_sortcols.

Theorem sort_axes_refines_spec_partial : forall asc axis c vs,
  Valid None c -> saxfrag c = true -> to_list c = Ok vs -> sort_axes_modelled asc axis c = true ->
  obs (sort_axes_model asc axis c) = sort_spec asc false axis (type_of c) vs.
Proof. exact Proofs_SortAxes3.sort_axes_refines_spec_partial. Qed.
Print Assumptions sort_axes_refines_spec_partial.

Theorem sort_axes_modelled_on_fragment : forall asc axis c vs,
  Valid None c -> saxfrag c = true -> to_list c = Ok vs -> saxty (type_of c) = true ->
  sort_axes_modelled asc axis c = true.
Proof. exact Proofs_SortAxes3.sort_axes_modelled_on_fragment. Qed.
Print Assumptions sort_axes_modelled_on_fragment.

Theorem sort_axes_refines_spec_on_fragment : forall asc axis c vs,
  Valid None c -> saxfrag c = true -> to_list c = Ok vs -> saxty (type_of c) = true ->
  obs (sort_axes_model asc axis c) = sort_spec asc false axis (type_of c) vs.
Proof. exact Proofs_SortAxes3.sort_axes_refines_spec_on_fragment. Qed.
Print Assumptions sort_axes_refines_spec_on_fragment.

Theorem sort_axes_never_out_of_bounds : forall asc axis c vs,
  Valid None c -> saxfrag c = true -> to_list c = Ok vs ->
  sort_axes_model asc axis c <> Err EOob /\
  (sort_axes_modelled asc axis c = true -> sort_axes_model asc axis c <> Err EFuel) /\
  (forall c', sort_axes_model asc axis c = Ok c' -> exists ws, to_list c' = Ok ws).
Proof. exact Proofs_SortAxes3.sort_axes_never_out_of_bounds. Qed.
Print Assumptions sort_axes_never_out_of_bounds.

Theorem layout_independent_sort_axes : forall asc axis a b vs,
  Valid None a -> Valid None b -> saxfrag a = true -> saxfrag b = true ->
  to_list a = Ok vs -> to_list b = Ok vs -> type_of a = type_of b ->
  sort_axes_modelled asc axis a = true -> sort_axes_modelled asc axis b = true ->
  obs (sort_axes_model asc axis a) = obs (sort_axes_model asc axis b).
Proof. exact Proofs_SortAxes3.layout_independent_sort_axes. Qed.
Print Assumptions layout_independent_sort_axes.

Theorem layout_independent_sort_axes_on_fragment : forall asc axis a b vs,
  Valid None a -> Valid None b -> saxfrag a = true -> saxfrag b = true ->
  to_list a = Ok vs -> to_list b = Ok vs -> type_of a = type_of b -> saxty (type_of a) = true ->
  obs (sort_axes_model asc axis a) = obs (sort_axes_model asc axis b).
Proof. exact Proofs_SortAxes3.layout_independent_sort_axes_on_fragment. Qed.
Print Assumptions layout_independent_sort_axes_on_fragment.

(* the combined model run by the correspondence: [sort_model] on the innermost axis and for argsort, [sort_axes_model]
   for sort along the other axes *)
Theorem sort_all_refines_spec_partial : forall asc argsort axis c vs,
  Valid None c -> saxfrag c = true -> to_list c = Ok vs -> sort_all_modelled asc argsort axis c = true ->
  obs (sort_model_all asc argsort axis c) = sort_spec asc argsort axis (type_of c) vs.
Proof. exact Proofs_SortAxes3.sort_all_refines_spec_partial. Qed.
Print Assumptions sort_all_refines_spec_partial.

Theorem sort_all_modelled_on_fragment : forall asc axis c vs,
  Valid None c -> saxfrag c = true -> to_list c = Ok vs -> saxty (type_of c) = true ->
  sort_all_modelled asc false axis c = true.
Proof. exact Proofs_SortAxes3.sort_all_modelled_on_fragment. Qed.
Print Assumptions sort_all_modelled_on_fragment.

Theorem sort_all_refines_spec_on_fragment : forall asc axis c vs,
  Valid None c -> saxfrag c = true -> to_list c = Ok vs -> saxty (type_of c) = true ->
  obs (sort_model_all asc false axis c) = sort_spec asc false axis (type_of c) vs.
Proof. exact Proofs_SortAxes3.sort_all_refines_spec_on_fragment. Qed.
Print Assumptions sort_all_refines_spec_on_fragment.
