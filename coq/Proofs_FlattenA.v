(** flatten, part A: unfolding of [flat_p]; offsets / concatenation lemmas; the node AT the flattened level
    ([flat_p] returns the concatenation of the lists and the inner offsets that cut it back):
    [flat_level_spec]. *)
From Coq Require Import ZArith List Bool Lia ZifyBool.
From AwkV Require Import Base Layout LayoutInd Valid Types Carry AtAxis Ops_Struct Ops_Flatten Typing Proofs_Typing
                         Proofs_Lists Proofs_ToList Proofs_Carry Proofs_CarryValid Proofs_AtAxis Proofs_AtAxisOps
                         Proofs_Fillna.
Import ListNotations.
Open Scope Z_scope.

(* ---------------------------------------------------------------- unfolding [flat_p] *)
Definition normb (ab : Z * Z) : Z * Z := if fst ab =? snd ab then (0, 0) else ab.

Definition deep_list (b : list (Z * Z)) (rewrap : content -> content) (r : list Z * content) : res (list Z * content) :=
  let (inner, fc) := r in
  match inner with
  | [] => Ok ([], rewrap fc)
  | _ =>
      let b' := map normb b in
      do s <- remap inner (map fst b'); do e <- remap inner (map snd b');
      Ok ([], ListA I64 s e fc)
  end.
Definition opt_pair (inner : list Z) (i : Z) : res (Z * Z) :=
  if i <? 0 then Ok (0, 0) else do a <- get inner i; do b <- get inner (i + 1); Ok (a, b).
Definition opt_step (ix : list Z) (rewrap : content -> content) (r : list Z * content) : res (list Z * content) :=
  let (inner, fc) := r in
  match inner with
  | [] => Ok ([], rewrap fc)
  | _ =>
      do rs <- mapM (opt_pair inner) ix;
      do fc' <- ranges_content fc rs;
      Ok (offsets_from 0 (lens_of rs), fc')
  end.
Definition unmasked_step (r : list Z * content) : res (list Z * content) :=
  let (inner, fc) := r in match inner with [] => Ok ([], Unmasked fc) | _ => Ok (inner, fc) end.

Definition at_list_m (p : option akind) (d ax : Z) (b : list (Z * Z)) (c' : content) (rewrap : content -> content) :=
  if ax =? d + 1 then
    if is_strk p then Err EValue else
    do fc <- ranges_content c' (map normb b);
    Ok (offsets_from 0 (lens_of b), fc)
  else do r <- flat_p None c' (d + 1) ax; deep_list b rewrap r.
Definition at_option_m (d ax : Z) (ix : list Z) (c' : content) (rewrap : content -> content) :=
  do r <- flat_p None c' d ax; opt_step ix rewrap r.

Fixpoint rec_all (F : content -> res (list Z * content)) (l : list content) : res (list content) :=
  match l with
  | [] => Ok []
  | x :: xs =>
      do r <- F x;
      match fst r with
      | [] => do ys <- rec_all F xs; Ok (snd r :: ys)
      | _ => Err EValue
      end
  end.

Definition flat_body (p : option akind) (c : content) (d ax : Z) : res (list Z * content) :=
  match c with
  | Numpy _ _ _ => Err EValue
  | Empty => Ok ([0], Empty)
  | ListOffset w o c' =>
      match o with [] => Err EValue | _ => at_list_m p d ax (pairs o) c' (ListOffset w o) end
  | ListA w s e c' =>
      if zlen e <? zlen s then Err EValue else at_list_m p d ax (zip s e) c' (ListA w s e)
  | Regular c' size zl =>
      do bc <- list_bounds c; at_list_m p d ax (fst bc) c' (fun x => Regular x size zl)
  | Indexed w ix c' => at_option_m d ax ix c' (Indexed w ix)
  | IndexedOption w ix c' => at_option_m d ax ix c' (IndexedOption w ix)
  | ByteMasked m vw c' => do oi <- option_index c; at_option_m d ax (fst oi) c' (ByteMasked m vw)
  | BitMasked m vw lsb n c' => do oi <- option_index c; at_option_m d ax (fst oi) c' (BitMasked m vw lsb n)
  | Unmasked c' => do r <- flat_p None c' d ax; unmasked_step r
  | Record cs ks n =>
      if ax =? d + 1 then Err EValue else
      do cs' <- rec_all (fun x => flat_p None x d ax) cs; Ok ([], Record cs' ks n)
  | Union _ _ _ _ => Err EValue
  | Par a r c' => flat_p a c' d ax
  end.

Lemma flat_p_eq p c d axis :
  flat_p p c d axis =
  do ax <- resolve_axis (type_of_p p c) d axis; if ax =? d then Err EValue else flat_body p c d ax.
Proof.
  destruct c; try reflexivity.
  - cbn [flat_p flat_body]. destruct (resolve_axis _ d axis) as [ax|]; [|reflexivity]. cbn [bind].
    destruct (ax =? d); [reflexivity|]. destruct (ax =? d + 1); [reflexivity|]. f_equal.
    induction cs as [|x xs IH]; [reflexivity|]. cbn [rec_all]. rewrite <- IH. reflexivity.
Qed.

Lemma resolve_nonneg t d a : 0 <= a -> resolve_axis t d a = Ok a.
Proof. intros H. unfold resolve_axis. destruct (0 <=? a) eqn:E; [reflexivity|lia]. Qed.

Lemma flat_p_resolved p c d axis ax :
  0 <= d -> resolve_axis (type_of_p p c) d axis = Ok ax -> flat_p p c d ax = flat_p p c d axis.
Proof. intros Hd H. rewrite !flat_p_eq, H, (resolve_idem _ _ _ _ Hd H). reflexivity. Qed.

(* at a resolved, non-negative axis *)
Lemma flat_p_at p c d a : 0 <= a -> a <> d -> flat_p p c d a = flat_body p c d a.
Proof.
  intros Ha Hd. rewrite flat_p_eq, resolve_nonneg by exact Ha. cbn [bind].
  destruct (a =? d) eqn:E; [lia|reflexivity].
Qed.

(* ---------------------------------------------------------------- offsets and concatenation *)
Lemma zlen_concat {A} (Ls : list (list A)) : zlen (concat Ls) = sumZ (map zlen Ls).
Proof. induction Ls as [|l Ls IH]; [reflexivity|]. cbn [concat map sumZ fold_right]. rewrite zlen_app, IH. reflexivity. Qed.

Lemma take_cons_pos {A} (x : A) l i : 0 < i -> take i (x :: l) = x :: take (i - 1) l.
Proof. intros H. unfold take. replace (Z.to_nat i) with (S (Z.to_nat (i - 1))) by lia. reflexivity. Qed.
Lemma drop_cons_pos {A} (x : A) l i : 0 < i -> drop i (x :: l) = drop (i - 1) l.
Proof. intros H. unfold drop. replace (Z.to_nat i) with (S (Z.to_nat (i - 1))) by lia. reflexivity. Qed.
Lemma take_0 {A} (l : list A) : take 0 l = [].
Proof. reflexivity. Qed.
Lemma drop_0 {A} (l : list A) : drop 0 l = l.
Proof. reflexivity. Qed.

Lemma get_offsets_from : forall lens s i, 0 <= i <= zlen lens ->
  get (offsets_from s lens) i = Ok (s + sumZ (take i lens)).
Proof.
  induction lens as [|n ns IH]; intros s i Hi.
  - change (zlen (@nil Z)) with 0 in Hi. assert (i = 0) by lia. subst i. cbn. f_equal. lia.
  - rewrite zlen_cons in Hi. cbn [offsets_from]. destruct (Z.eq_dec i 0) as [->|Hn].
    + cbn. f_equal. lia.
    + rewrite get_cons_pos by lia. rewrite IH by lia. rewrite take_cons_pos by lia.
      cbn [sumZ fold_right]. f_equal. unfold sumZ. lia.
Qed.
Lemma zlen_offsets_from : forall lens s, zlen (offsets_from s lens) = zlen lens + 1.
Proof.
  induction lens as [|n ns IH]; intros s; [reflexivity|]. cbn [offsets_from]. rewrite !zlen_cons, IH. reflexivity.
Qed.

(* prefix sums of the lengths *)
Definition off {A} (Ls : list (list A)) (i : Z) : Z := zlen (concat (take i Ls)).
Lemma get_inner {A} (Ls : list (list A)) i :
  0 <= i <= zlen Ls -> get (offsets_from 0 (map zlen Ls)) i = Ok (off Ls i).
Proof.
  intros Hi. rewrite get_offsets_from by (rewrite zlen_map; exact Hi).
  unfold off. rewrite zlen_concat, map_take. f_equal.
Qed.

Lemma take_split {A} (l : list A) a b : 0 <= a -> a <= b -> take b l = take a l ++ take (b - a) (drop a l).
Proof.
  intros Ha Hb. unfold take, drop. replace (Z.to_nat b) with (Z.to_nat a + Z.to_nat (b - a))%nat by lia.
  generalize (Z.to_nat (b - a)) as k. generalize (Z.to_nat a) as n. clear. intros n. revert l.
  induction n as [|n IH]; intros l k; [reflexivity|]. destruct l as [|x l]; cbn [Nat.add firstn skipn app].
  - destruct k; reflexivity.
  - rewrite IH. reflexivity.
Qed.

(* cutting the concatenation at two of its inner offsets gives the concatenation of the lists between *)
Lemma cut_off {A} (Ls : list (list A)) a b :
  0 <= a -> a <= b -> b <= zlen Ls ->
  cut1 (concat Ls) (off Ls a, off Ls b) = Ok (concat (take (b - a) (drop a Ls))).
Proof.
  intros Ha Hab Hb.
  set (pre := concat (take a Ls)). set (mid := concat (take (b - a) (drop a Ls))). set (post := concat (drop b Ls)).
  assert (Hcat : concat Ls = pre ++ mid ++ post).
  { subst pre mid post. rewrite <- !concat_app, app_assoc, <- take_split by lia. rewrite take_drop_id. reflexivity. }
  assert (Hb' : off Ls b = zlen pre + zlen mid).
  { unfold off. rewrite (take_split Ls a b) by lia. rewrite concat_app, zlen_app. reflexivity. }
  assert (Ha' : off Ls a = zlen pre) by reflexivity.
  rewrite Ha', Hb', Hcat. unfold cut1. pose proof (zlen_nonneg pre). pose proof (zlen_nonneg mid). pose proof (zlen_nonneg post).
  destruct (zlen pre =? zlen pre + zlen mid) eqn:E.
  - f_equal. symmetry. apply zlen_0_nil. lia.
  - rewrite slice_ok by (rewrite ?zlen_app; lia). rewrite drop_app_exact by reflexivity.
    replace (zlen pre + zlen mid - zlen pre) with (zlen mid) by ring. rewrite take_app_exact by reflexivity. reflexivity.
Qed.

Lemma take_1_get {A} (Ls : list A) i l : get Ls i = Ok l -> take 1 (drop i Ls) = [l].
Proof.
  intros H. pose proof (get_range _ _ _ H) as Hr.
  assert (Hg : get (drop i Ls) 0 = Ok l) by (rewrite get_drop by lia; rewrite Z.add_0_r; exact H).
  destruct (drop i Ls) as [|x r]; [rewrite get_nil in Hg; discriminate|]. cbn in Hg. inversion Hg. reflexivity.
Qed.
Lemma cut_off_one {A} (Ls : list (list A)) i l :
  get Ls i = Ok l -> cut1 (concat Ls) (off Ls i, off Ls (i + 1)) = Ok l.
Proof.
  intros H. pose proof (get_range _ _ _ H) as Hr. rewrite cut_off by lia.
  replace (i + 1 - i) with 1 by ring. rewrite (take_1_get _ _ _ H). cbn [concat]. rewrite app_nil_r. reflexivity.
Qed.

(* a generic form of [cut1_mapM] *)
Lemma cut1_mapM_gen {A B} (F : A -> res B) vs0 ws0 ab l :
  mapM F vs0 = Ok ws0 -> cut1 vs0 ab = Ok l -> exists l', cut1 ws0 ab = Ok l' /\ mapM F l = Ok l'.
Proof.
  intros HF. destruct ab as [a b]. unfold cut1. destruct (a =? b).
  - intros H. inversion H; subst. exists []. split; reflexivity.
  - intros H. pose proof (slice_inv _ _ _ _ H) as (H1 & H2 & H3 & _).
    pose proof (mapM_zlen _ _ _ HF) as Hz.
    rewrite <- gather_range in H by lia.
    rewrite <- gather_range by lia. rewrite <- (mapM_gather_ok F vs0 ws0 (range a b) l HF H).
    destruct (gather_ok ws0 (range a b)) as [l' Hl'].
    { apply Forall_forall. intros i Hi. apply range_In in Hi. lia. }
    exists l'. rewrite (mapM_gather_ok F vs0 ws0 (range a b) l HF H). split; exact Hl'.
Qed.

Lemma cut1_normb {A} (vs : list A) ab : cut1 vs (normb ab) = cut1 vs ab.
Proof.
  destruct ab as [a b]. unfold normb, cut1. cbn [fst snd]. destruct (a =? b) eqn:E; [|rewrite E; reflexivity].
  reflexivity.
Qed.
Lemma cut1_slice_eq {A} (vs : list A) a b l :
  cut1 vs (a, b) = Ok l -> a <> b -> 0 <= a /\ a <= b /\ b <= zlen vs /\ l = take (b - a) (drop a vs).
Proof. unfold cut1. destruct (a =? b) eqn:E; [lia|]. intros H _. apply slice_inv, H. Qed.
Lemma normb_range {A} (vs : list A) ab l :
  cut1 vs ab = Ok l -> 0 <= fst (normb ab) /\ fst (normb ab) <= snd (normb ab) /\ snd (normb ab) <= zlen vs.
Proof.
  destruct ab as [a b]. unfold normb. cbn [fst snd]. pose proof (zlen_nonneg vs). destruct (a =? b) eqn:E; cbn [fst snd]; [lia|].
  intros Hc. apply cut1_slice_eq in Hc as (? & ? & ? & _); lia.
Qed.

Lemma mapM_elems_VList Ls : mapM elems_of (map VList Ls) = Ok Ls.
Proof. rewrite mapM_map. cbn [elems_of]. rewrite mapM_pure, map_id. reflexivity. Qed.

(* ---------------------------------------------------------------- [ranges_content] *)
Lemma ranges_spec fc ws rs Ls :
  Valid None fc -> to_list fc = Ok ws -> mapM (cut1 ws) rs = Ok Ls ->
  exists fc', ranges_content fc rs = Ok fc' /\ to_list fc' = Ok (concat Ls) /\ Valid None fc'.
Proof.
  intros HV Hl Hcut. unfold ranges_content.
  set (ix := concat (map (fun ab : Z * Z => range (fst ab) (snd ab)) rs)).
  assert (Hix : Forall (fun i => 0 <= i < clen fc) ix).
  { apply Forall_forall. intros i Hi. subst ix. apply in_concat in Hi as (r & Hr & Hi).
    apply in_map_iff in Hr as ([a b] & <- & Hab). cbn [fst snd] in Hi. apply range_In in Hi.
    destruct (mapM_Ok_In _ _ _ _ Hcut Hab) as (l & Hc & _). apply cut1_slice_eq in Hc as (? & ? & ? & _); [|lia].
    rewrite <- (to_list_len _ _ Hl). lia. }
  destruct (carry_spec fc ws ix HV Hl Hix) as (fc' & Hc & Hlc & _).
  exists fc'. split; [exact Hc|]. split; [|eapply carry_valid; eassumption].
  rewrite Hlc. subst ix. rewrite mapM_concat, mapM_map.
  rewrite (mapM_transfer (cut1 ws) (fun ab : Z * Z => mapM (get ws) (range (fst ab) (snd ab))) (fun l => l) rs Ls Hcut).
  - rewrite map_id. reflexivity.
  - intros ab l _ Hab. apply cut1_gather, Hab.
Qed.

(* ---------------------------------------------------------------- the node at the flattened level *)
(* the node that ends the chain of option / index / parameter wrappers is a list, a 1-d leaf, a record or a
   union: not an n-d leaf, not an EmptyArray *)
Fixpoint okA (c : content) : bool :=
  match c with
  | Numpy _ shape _ => match shape with [_] => true | _ => false end
  | Empty => false
  | Indexed _ _ c' | IndexedOption _ _ c' | ByteMasked _ _ c' | BitMasked _ _ _ _ c' | Unmasked c' | Par _ _ c' => okA c'
  | _ => true
  end.

Definition resA (r : res (list Z * content)) (t : ty) (vs : list value) : Prop :=
  if is_plain_list t then
    exists Ls fc, r = Ok (offsets_from 0 (map zlen Ls), fc) /\ mapM elems_of vs = Ok Ls /\
                  to_list fc = Ok (concat Ls) /\ Valid None fc
  else r = Err EValue.

(* a list node at the flattened level *)
Lemma at_list_level d bs cc K vs0 Ls :
  Valid None cc -> to_list cc = Ok vs0 -> mapM (cut1 vs0) bs = Ok Ls ->
  exists fc, at_list_m None d (d + 1) bs cc K = Ok (offsets_from 0 (map zlen Ls), fc) /\
             to_list fc = Ok (concat Ls) /\ Valid None fc.
Proof.
  intros HV Hl Hcut. unfold at_list_m. rewrite Z.eqb_refl. cbn [is_strk].
  assert (Hcut' : mapM (cut1 vs0) (map normb bs) = Ok Ls).
  { rewrite mapM_map, <- Hcut. apply mapM_ext_in. intros ab _. apply cut1_normb. }
  destruct (ranges_spec cc vs0 _ Ls HV Hl Hcut') as (fc & Hr & Hlf & HVf).
  rewrite Hr. cbn [bind]. rewrite (cuts_lens _ _ _ Hcut). eauto.
Qed.

Lemma opt_step_cons ix K inner fc :
  inner <> [] ->
  opt_step ix K (inner, fc) =
  do rs <- mapM (opt_pair inner) ix; do fc' <- ranges_content fc rs; Ok (offsets_from 0 (lens_of rs), fc').
Proof. destruct inner; [congruence|reflexivity]. Qed.

(* an option / index node over the flattened level *)
Lemma opt_level ix K vs0 vs Ls0 fc0 :
  Valid None fc0 -> to_list fc0 = Ok (concat Ls0) -> mapM elems_of vs0 = Ok Ls0 ->
  mapM (fun i => pick_opt vs0 (0 <=? i) i) ix = Ok vs ->
  exists Ls fc, opt_step ix K (offsets_from 0 (map zlen Ls0), fc0) = Ok (offsets_from 0 (map zlen Ls), fc) /\
                mapM elems_of vs = Ok Ls /\ to_list fc = Ok (concat Ls) /\ Valid None fc.
Proof.
  intros HV Hl HLs0 Hpick. set (inner := offsets_from 0 (map zlen Ls0)).
  pose proof (mapM_zlen _ _ _ HLs0) as Hz.
  (* pointwise: the range of element i cuts its elements out of the flattened content *)
  assert (Hpt : forall i v, In i ix -> pick_opt vs0 (0 <=? i) i = Ok v ->
                  exists ab, opt_pair inner i = Ok ab /\ cut1 (concat Ls0) ab = elems_of v /\ exists l, elems_of v = Ok l).
  { intros i v _ Hp. unfold pick_opt in Hp. unfold opt_pair. destruct (i <? 0) eqn:E.
    - destruct (0 <=? i) eqn:E2; [lia|]. inversion Hp; subst. exists (0, 0). repeat split. eexists; reflexivity.
    - destruct (0 <=? i) eqn:E2; [|lia]. pose proof (get_range _ _ _ Hp) as Hr.
      pose proof (mapM_get _ _ _ i HLs0) as Hg. rewrite Hp in Hg. cbn [bind] in Hg.
      destruct (get Ls0 i) as [l|] eqn:El; [|apply get_err in El as [_ El]; lia].
      subst inner. rewrite !get_inner by lia. cbn [bind]. eexists. split; [reflexivity|]. rewrite <- Hg.
      split; [apply cut_off_one, El|eauto]. }
  destruct (mapM_total (opt_pair inner) ix) as [rs Hrs].
  { intros i Hi. destruct (mapM_Ok_In _ _ _ _ Hpick Hi) as (v & Hv & _). destruct (Hpt i v Hi Hv) as (ab & Hab & _). eauto. }
  destruct (mapM_total elems_of vs) as [Ls HLs].
  { intros v Hv. destruct (mapM_In_inv _ _ _ _ Hpick Hv) as (i & Hi & Hp). destruct (Hpt i v Hi Hp) as (_ & _ & _ & Hl'). exact Hl'. }
  assert (Hcut : mapM (cut1 (concat Ls0)) rs = Ok Ls).
  { rewrite (mapM_mapM _ _ _ _ Hrs), <- HLs, (mapM_mapM _ _ _ _ Hpick). apply mapM_ext_in. intros i Hi.
    destruct (mapM_Ok_In _ _ _ _ Hpick Hi) as (v & Hv & _). destruct (Hpt i v Hi Hv) as (ab & Hab & Hc & _).
    rewrite Hab, Hv. cbn [bind]. exact Hc. }
  destruct (ranges_spec fc0 _ rs Ls HV Hl Hcut) as (fc & Hr & Hlf & HVf).
  exists Ls, fc. split; [|auto]. fold inner. rewrite opt_step_cons by apply offsets_from_nonempty.
  rewrite Hrs. cbn [bind]. rewrite Hr. cbn [bind]. rewrite (cuts_lens _ _ _ Hcut). reflexivity.
Qed.

Lemma is_plain_list_opt t : is_plain_list (TOpt t) = is_plain_list t.
Proof. reflexivity. Qed.

Lemma resA_opt_step ix K r t vs0 vs :
  resA r t vs0 -> mapM (fun i => pick_opt vs0 (0 <=? i) i) ix = Ok vs ->
  forall t1, is_plain_list t1 = is_plain_list t -> resA (do x <- r; opt_step ix K x) t1 vs.
Proof.
  intros Hr Hpick t1 Ht. unfold resA in *. rewrite Ht. destruct (is_plain_list t).
  - destruct Hr as (Ls0 & fc0 & -> & HLs0 & Hl0 & HV0). cbn [bind].
    destruct (opt_level ix K vs0 vs Ls0 fc0 HV0 Hl0 HLs0 Hpick) as (Ls & fc & Hs & HLs & Hl & HV). eauto 6.
  - rewrite Hr. reflexivity.
Qed.

Lemma gather_as_pick vs0 ix vs :
  mapM (get vs0) ix = Ok vs -> mapM (fun i => pick_opt vs0 (0 <=? i) i) ix = Ok vs.
Proof.
  intros H. rewrite <- H. apply mapM_ext_in. intros i Hi. destruct (mapM_Ok_In _ _ _ _ H Hi) as (v & Hv & _).
  apply get_range in Hv. unfold pick_opt. destruct (0 <=? i) eqn:E; [reflexivity|lia].
Qed.

Definition A_at (c : content) : Prop :=
  forall d vs, 0 <= d -> Valid None c -> okA c = true -> to_list c = Ok vs ->
  resA (flat_p None c d (d + 1)) (type_of_p None c) vs.

Lemma flat_level_all c : A_at c.
Proof.
  induction c as [dt shape data| |w o c IHc|w s e c IHc|c size zl IHc|w ix c IHc|w ix c IHc|m vw c IHc
                 |m vw lsb n c IHc|c IHc|w t ix cs IHcs|cs ks n IHcs|arr rn c IHc] using content_ind';
    intros d vs Hd HV Hok Hl; pose proof HV as HV0; rewrite flat_p_at by lia; cbn [okA] in Hok.
  - (* Numpy *)
    destruct shape as [|x [|? ?]]; try discriminate. reflexivity.
  - discriminate.
  - (* ListOffset *)
    inversion HV; subst.
    match goal with H : is_strk None = false -> Valid None c |- _ => specialize (H eq_refl); rename H into HVc end.
    rewrite to_list_ListOffset in Hl. apply bind_Ok in Hl as (vs0 & Hl0 & Hl). apply rmap_Ok in Hl as (Ls & Hcut & ->).
    unfold cut in Hcut. destruct o as [|a o]; [discriminate|]. cbn [flat_body type_of_p strflag]. unfold resA. cbn.
    destruct (at_list_level d (pairs (a :: o)) c (ListOffset w (a :: o)) vs0 Ls HVc Hl0 Hcut) as (fc & Hf & Hlf & HVf).
    exists Ls, fc. split; [exact Hf|]. split; [apply mapM_elems_VList|auto].
  - (* ListA *)
    inversion HV; subst.
    match goal with H : is_strk None = false -> Valid None c |- _ => specialize (H eq_refl); rename H into HVc end.
    rewrite to_list_ListA in Hl. apply bind_Ok in Hl as (vs0 & Hl0 & Hl). apply rmap_Ok in Hl as (Ls & Hcut & ->).
    unfold cut2 in Hcut. destruct (zlen e <? zlen s) eqn:Ese; [discriminate|]. cbn [flat_body type_of_p strflag]. rewrite Ese.
    unfold resA. cbn.
    destruct (at_list_level d (zip s e) c (ListA w s e) vs0 Ls HVc Hl0 Hcut) as (fc & Hf & Hlf & HVf).
    exists Ls, fc. split; [exact Hf|]. split; [apply mapM_elems_VList|auto].
  - (* Regular *)
    inversion HV; subst.
    match goal with H : is_strk None = false -> Valid None c |- _ => specialize (H eq_refl); rename H into HVc end.
    destruct (list_bounds_spec (Regular c size zl) c vs eq_refl Hl) as (bs & vs0 & Ls & Hb & Hl0 & Hcut & ->).
    cbn [flat_body type_of_p strflag]. rewrite Hb. cbn [bind fst]. unfold resA. cbn.
    destruct (at_list_level d bs c (fun x => Regular x size zl) vs0 Ls HVc Hl0 Hcut) as (fc & Hf & Hlf & HVf).
    exists Ls, fc. split; [exact Hf|]. split; [apply mapM_elems_VList|auto].
  - (* Indexed *)
    inversion HV; subst.
    rewrite to_list_Indexed in Hl. apply bind_Ok in Hl as (vs0 & Hl0 & Hl).
    cbn [flat_body type_of_p]. unfold at_option_m.
    eapply resA_opt_step; [apply IHc; eassumption|apply gather_as_pick, Hl|reflexivity].
  - (* IndexedOption *)
    inversion HV; subst.
    rewrite to_list_IndexedOption in Hl. apply bind_Ok in Hl as (vs0 & Hl0 & Hl).
    cbn [flat_body type_of_p]. unfold at_option_m.
    eapply resA_opt_step; [apply IHc; eassumption|exact Hl|reflexivity].
  - (* ByteMasked *)
    inversion HV; subst.
    destruct (option_index_spec (ByteMasked m vw c) vs eq_refl Hl) as (ix & vs0 & Hoi & Hl0 & Hpick).
    cbn [option_content] in *. cbn [flat_body type_of_p]. rewrite Hoi. cbn [bind fst]. unfold at_option_m.
    eapply resA_opt_step; [apply IHc; eassumption|exact Hpick|reflexivity].
  - (* BitMasked *)
    inversion HV; subst.
    destruct (option_index_spec (BitMasked m vw lsb n c) vs eq_refl Hl) as (ix & vs0 & Hoi & Hl0 & Hpick).
    cbn [option_content] in *. cbn [flat_body type_of_p]. rewrite Hoi. cbn [bind fst]. unfold at_option_m.
    eapply resA_opt_step; [apply IHc; eassumption|exact Hpick|reflexivity].
  - (* Unmasked *)
    inversion HV; subst. rewrite to_list_Unmasked in Hl.
    cbn [flat_body type_of_p]. specialize (IHc d vs Hd ltac:(assumption) Hok Hl).
    unfold resA in *. rewrite is_plain_list_opt. destruct (is_plain_list (type_of_p None c)).
    + destruct IHc as (Ls & fc & -> & Ha1 & Ha2 & Ha3). cbn [bind unmasked_step].
      destruct (offsets_from 0 (map zlen Ls)) as [|x r] eqn:E; [exfalso; eapply offsets_from_nonempty, E|].
      rewrite <- E. eauto 6.
    + rewrite IHc. reflexivity.
  - (* Union *) reflexivity.
  - (* Record *)
    cbn [flat_body type_of_p]. rewrite Z.eqb_refl. reflexivity.
  - (* Par *)
    inversion HV; subst.
    match goal with H : Valid arr c |- _ => rename H into HVc end.
    destruct (Valid_param arr c HVc) as [-> | Es].
    + rewrite to_list_Par in Hl. apply bind_Ok in Hl as (vs0 & Hl0 & Hl). inversion Hl; subst.
      cbn [flat_body type_of_p]. apply IHc; assumption.
    + assert (Hp : ParamOk arr c) by (inversion HVc; subst; try assumption; discriminate).
      destruct (ParamOk_str arr c Hp Es) as (cc & k' & rn' & n & dd & Hcc & _ & _).
      cbn [flat_body type_of_p]. rewrite flat_p_at by lia.
      assert (Hty : exists sz b t, type_of_p arr c = TList sz (Some b) t).
      { destruct arr as [[]|]; try discriminate; destruct c; try discriminate; cbn [type_of_p strflag]; eauto. }
      destruct Hty as (sz & b & t & Hty). unfold resA. rewrite Hty. cbn [is_plain_list strip_opt].
      destruct c as [| |w o c0|w s e c0|c0 size zl| | | | | | | |]; try discriminate; inversion HVc; subst; cbn [flat_body].
      * destruct o as [|o0 o]; [match goal with H : 1 <= zlen [] |- _ => cbn in H; lia end|].
        unfold at_list_m. rewrite Z.eqb_refl, Es. reflexivity.
      * destruct (zlen e <? zlen s) eqn:E; [lia|].
        unfold at_list_m. rewrite Z.eqb_refl, Es. reflexivity.
      * cbn [list_bounds]. destruct (size <? 0) eqn:E; [lia|].
        cbn [bind fst]. unfold at_list_m. rewrite Z.eqb_refl, Es. reflexivity.
Qed.

(* the node at the flattened level: the content returned is the concatenation of the lists (None counts as
   an empty list), the inner offsets are the running lengths; anything that is not a list there is refused *)
Theorem flat_level_spec c d vs :
  0 <= d -> Valid None c -> okA c = true -> to_list c = Ok vs ->
  if is_plain_list (type_of c) then
    exists Ls fc, flat_p None c d (d + 1) = Ok (offsets_from 0 (map zlen Ls), fc) /\ mapM elems_of vs = Ok Ls /\
                  to_list fc = Ok (concat Ls) /\ Valid None fc
  else flat_p None c d (d + 1) = Err EValue.
Proof. intros. apply (flat_level_all c); assumption. Qed.
