"""Shared harness machinery: building, running the driver and the model, verdict
collection, replay files, known findings, evidence."""
import fcntl
import json
import os
import re
import subprocess
import sys
import time

VERIF = os.environ.get('VERIF_ROOT', '/verif')
REPO = os.environ.get('VERIF_REPO', '/repo')
BUILD = os.path.join(VERIF, '.build')
STD = os.path.join(BUILD, 'std')
SAN = os.path.join(BUILD, 'san')
ML = os.path.join(BUILD, 'ml')

T0 = time.time()


def log(*a):
    print('[%6.1fs]' % (time.time() - T0), *a, file=sys.stderr, flush=True)


def sh(cmd, timeout=3600, **kw):
    return subprocess.run(cmd, shell=True, stdout=subprocess.PIPE, stderr=subprocess.STDOUT, text=True,
                          timeout=timeout, **kw)


class BuildError(Exception):
    pass


def build_impl(san=False, drivers=('awkdrv',)):
    """(re)build kernels + libawkward + the named drivers from /repo's current tree (dependency tracked)"""
    os.makedirs(BUILD, exist_ok=True)
    lock = open(os.path.join(BUILD, '.lock-impl-' + ('san' if san else 'std')), 'w')
    fcntl.flock(lock, fcntl.LOCK_EX)
    try:
        t = time.time()
        r = sh('make -s -C %s/impl -j16 %s REPO=%s VERIF=%s libs %s' % (VERIF, 'SAN=1' if san else '', REPO, VERIF,
                                                                      ' '.join('drv-' + d for d in drivers)))
        if r.returncode != 0:
            raise BuildError('implementation build failed:\n' + r.stdout[-4000:])
        log('impl build (%s) ok in %.1fs' % ('san' if san else 'std', time.time() - t))
    finally:
        fcntl.flock(lock, fcntl.LOCK_UN)
        lock.close()


def build_model():
    """Rocq development (full .vo build) + extraction + modelrun"""
    os.makedirs(BUILD, exist_ok=True)
    lock = open(os.path.join(BUILD, '.lock-model'), 'w')
    fcntl.flock(lock, fcntl.LOCK_EX)
    try:
        t = time.time()
        r = sh('cd %s/coq && ([ -f Makefile.coq ] && [ Makefile.coq -nt _CoqProject ] || coq_makefile -f _CoqProject -o Makefile.coq) >/dev/null '
               '&& timeout 3000 make -f Makefile.coq -j16 2>&1 | tail -30' % VERIF)
        if r.returncode != 0 or 'Error' in r.stdout:
            raise BuildError('Rocq build failed:\n' + r.stdout[-4000:])
        r = sh('make -s -C %s/ocaml VERIF=%s' % (VERIF, VERIF))
        if r.returncode != 0:
            raise BuildError('modelrun build failed:\n' + r.stdout[-4000:])
        log('model build ok in %.1fs' % (time.time() - t))
    finally:
        fcntl.flock(lock, fcntl.LOCK_UN)
        lock.close()


# ---------------------------------------------------------------- running the driver
LINE_ID = re.compile(r'^\((\S+) ')


def run_driver(lines, drv='awkdrv', san=False, per_case_timeout=10.0, env_extra=None):
    """lines: list of case strings '(id op ...)'. returns dict id -> result text
    ('ok ...' | 'err CLASS' | 'crash SIG' | 'timeout'). Crashing / hanging cases are isolated."""
    exe = os.path.join(SAN if san else STD, drv)
    ids = []
    for l in lines:
        m = LINE_ID.match(l)
        ids.append(m.group(1))
    results = {}
    pos = 0
    env = dict(os.environ)
    env['ASAN_OPTIONS'] = 'detect_leaks=0:abort_on_error=1:allocator_may_return_null=1'
    env['UBSAN_OPTIONS'] = 'halt_on_error=1:abort_on_error=1:print_stacktrace=1'
    if env_extra:
        env.update(env_extra)
    stderr_tail = {}
    while pos < len(lines):
        chunk = lines[pos:]
        budget = 30 + per_case_timeout * 2 + 0.02 * len(chunk)
        try:
            p = subprocess.run([exe], input='\n'.join(chunk) + '\n', stdout=subprocess.PIPE,
                               stderr=subprocess.PIPE, text=True, timeout=budget, env=env)
            out, rc, timed_out, err = p.stdout, p.returncode, False, p.stderr
        except subprocess.TimeoutExpired as e:
            out = e.stdout.decode() if isinstance(e.stdout, bytes) else (e.stdout or '')
            err = e.stderr.decode() if isinstance(e.stderr, bytes) else (e.stderr or '')
            rc, timed_out = None, True
        got = 0
        for ol in out.splitlines():
            m = LINE_ID.match(ol)
            if not m:
                continue
            cid = m.group(1)
            if pos + got < len(ids) and cid == ids[pos + got]:
                results[cid] = ol[len(cid) + 2:-1] if ol.endswith(')') else ol[len(cid) + 2:]
                got += 1
        pos += got
        if pos < len(lines) and (timed_out or rc != 0 or got < len(chunk)):
            cid = ids[pos]
            if timed_out:
                # confirm that this single case hangs (rather than the batch merely being slow)
                try:
                    p1 = subprocess.run([exe], input=lines[pos] + '\n', stdout=subprocess.PIPE,
                                        stderr=subprocess.PIPE, text=True, timeout=per_case_timeout, env=env)
                    ol = p1.stdout.strip().splitlines()
                    if p1.returncode == 0 and ol and LINE_ID.match(ol[0]):
                        results[cid] = ol[0][len(cid) + 2:-1]
                    else:
                        results[cid] = 'crash rc=%s' % p1.returncode
                        stderr_tail[cid] = p1.stderr[-1500:]
                except subprocess.TimeoutExpired:
                    results[cid] = 'timeout'
            else:
                results[cid] = 'crash rc=%s' % rc
                stderr_tail[cid] = err[-1500:]
            pos += 1
    return results, stderr_tail


def run_model(lines):
    """lines for modelrun; returns dict id -> verdict text (after the id).  modelrun answers line by line (flushed); if
    it stops answering (an implementation result whose value cannot be read in finite time, e.g. garbage offsets spanning
    2^40 items) the line it was working on is given the verdict 'viol unreadable ...' and the run resumes after it"""
    exe = os.path.join(ML, 'modelrun')
    env = dict(os.environ)
    out = {}
    rest = list(lines)
    stuck = 0
    while rest:
        budget = 20 + 0.002 * len(rest)
        try:
            p = subprocess.run('ulimit -s unlimited 2>/dev/null; exec ' + exe, shell=True, input='\n'.join(rest) + '\n',
                               stdout=subprocess.PIPE, stderr=subprocess.PIPE, text=True, timeout=budget, env=env)
            stdout, rc, timed_out, err = p.stdout, p.returncode, False, p.stderr
        except subprocess.TimeoutExpired as e:
            stdout = e.stdout.decode('utf-8', 'replace') if isinstance(e.stdout, bytes) else (e.stdout or '')
            rc, timed_out, err = None, True, ''
        got = 0
        for ol in stdout.splitlines():
            m = LINE_ID.match(ol)
            if m:
                out[m.group(1)] = ol[len(m.group(1)) + 2:-1]
                got += 1
        if not timed_out:
            if rc != 0:
                raise RuntimeError('modelrun failed rc=%s: %s' % (rc, err[-2000:]))
            break
        # the first line without an answer is the one modelrun was stuck on
        k = 0
        while k < len(rest) and LINE_ID.match(rest[k]).group(1) in out:
            k += 1
        if k >= len(rest):
            break
        cid = LINE_ID.match(rest[k]).group(1)
        stuck += 1
        out[cid] = ('viol unreadable (the value of the implementation\'s result could not be computed within %d s: '
                    'not a readable array)' % int(budget))
        rest = rest[k + 1:]
        if stuck >= 3:
            for l in rest:
                out[LINE_ID.match(l).group(1)] = 'bad (modelrun stopped answering repeatedly)'
            break
    return out


def impl_sx(res):
    """driver result text -> (impl ...) element for modelrun"""
    if res.startswith('ok '):
        return '(impl ok %s)' % res[3:]
    if res.startswith('err '):
        return '(impl %s)' % res
    if res.startswith('bad'):
        return None
    if res.startswith('impure'):
        return '(impl crash)'
    if res.startswith('timeout'):
        return '(impl timeout)'
    return '(impl crash)'


class Case:
    __slots__ = ('id', 'op', 'args', 'layouts', 'meta')

    def __init__(self, id, op, args, layouts, meta=None):
        self.id, self.op, self.args, self.layouts, self.meta = id, op, args, layouts, meta or {}

    def body(self):
        parts = [self.op] + [a for a in self.args] + list(self.layouts)
        return ' '.join(parts)

    def line(self):
        return '(%s %s)' % (self.id, self.body())


last_impl_results = []


def values_of(dumps):
    """dumps: dict id -> driver result text ('ok DUMP' | 'err ..'); returns dict id -> canonical value text
    (computed by the extracted to_list), 'err' for errors, None when not available"""
    lines, out = [], {}
    for k, r in dumps.items():
        if r.startswith('ok '):
            lines.append('(%s val %s)' % (k, r[3:]))
        elif r.startswith('err'):
            out[k] = 'err'
        else:
            out[k] = None
    if lines:
        res = run_model(lines)
        for k, v in res.items():
            out[k] = v[len('value '):] if v.startswith('value ') else None
    return out


def evaluate(cases, san=False, drv='awkdrv'):
    """run implementation and model on cases; returns list of (case, impl_result, verdict_text)"""
    lines = [c.line() for c in cases]
    res, errs = run_driver(lines, drv=drv, san=san)
    mlines = []
    bad = []
    for c in cases:
        r = res.get(c.id, 'crash missing')
        isx = impl_sx(r)
        if isx is None:
            bad.append((c, r))
            continue
        mlines.append('(%s %s %s)' % (c.id, c.body(), isx))
    verd = run_model(mlines) if mlines else {}
    out = []
    del last_impl_results[:]
    for c in cases:
        last_impl_results.append((c, res.get(c.id, 'crash missing')))
    for c in cases:
        r = res.get(c.id, 'crash missing')
        v = verd.get(c.id)
        if v is None:
            v = 'bad (driver: %s)' % r[:200]
        out.append((c, r, v, errs.get(c.id, '')))
    return out


# ---------------------------------------------------------------- known findings / replays / evidence
def load_known():
    p = os.path.join(VERIF, 'known_findings.json')
    if not os.path.exists(p):
        return []
    return json.load(open(p)).get('findings', [])


def write_replay(prop, name, header, lines):
    d = os.path.join(VERIF, 'replays')
    os.makedirs(d, exist_ok=True)
    p = os.path.join(d, '%s-%s.case' % (prop, name))
    with open(p, 'w') as f:
        for h in header:
            f.write('# ' + h + '\n')
        for l in lines:
            f.write(l + '\n')
    return p


def write_evidence(prop, tier, seed, coverage, wall_s, violations, assumptions):
    d = os.path.join(VERIF, 'evidence')
    os.makedirs(d, exist_ok=True)
    ev = dict(property_id=prop, tier=tier, seed=seed, level='proof', coverage=coverage, wall_s=round(wall_s, 2),
              violations=violations, assumptions=assumptions)
    with open(os.path.join(d, prop + '.json'), 'w') as f:
        json.dump(ev, f, indent=1, sort_keys=True)
        f.write('\n')
