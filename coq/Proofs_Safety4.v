(** C12 (memory safety half), part 4: slicing on the wide fragment of the closure theorem (Proofs_Closure6.good:
    valid, no string nodes, option-type / indexed nodes not nested in one another -- unions, n-d leaves, records at
    any place included), all items but integer arrays, any number in any order, no side condition:
    [getitem_model] never ends in [Err EOob].  ([Err EFuel] is the model's designed answer on a UnionArray and the
    genuine out-of-fuel of an ellipsis over very deep layouts: Props_C01.)  Direct proof by induction on the fuel,
    along the lines of Proofs_Closure6.gn_good, which provides the invariant of the intermediate layouts. *)
From Coq Require Import ZArith List Bool Lia ZifyBool.
From AwkV Require Import Base Layout LayoutInd Valid Types AtAxis Carry Ops_Struct Ops_Getitem Ops_Fields
                         Typing Proofs_Typing Proofs_C11 Proofs_C01 Proofs_Lists Proofs_ToList Proofs_Carry Proofs_CarryValid
                         Proofs_AtAxis Proofs_AtAxisOps Proofs_C12 Proofs_Closure Proofs_Closure2 Proofs_Closure6
                         Proofs_Safety.
Import ListNotations.
Open Scope Z_scope.

Definition nb {A} (r : res A) : Prop := match r with Err EOob => False | _ => True end.
Lemma nb_iff {A} (r : res A) : nb r <-> r <> Err EOob.
Proof.
  unfold nb. destruct r as [a|[]]; split; try (intros _; discriminate); try (intros; exact I).
  - intros []. - intros H. apply H. reflexivity.
Qed.
Lemma nb_clean {A} (r : res A) : clean r -> nb r.
Proof. unfold clean, nb. destruct r as [a|[]]; auto. Qed.
Lemma nb_bind {A B} (r : res A) (f : A -> res B) : nb r -> (forall a, r = Ok a -> nb (f a)) -> nb (bind r f).
Proof. intros Hr Hf. destruct r as [a|e]; cbn [bind]; [apply Hf; reflexivity|exact Hr]. Qed.
Lemma nb_mapM {A B} (f : A -> res B) l : (forall x, In x l -> nb (f x)) -> nb (mapM f l).
Proof.
  induction l as [|x xs IH]; intros H; cbn [mapM]; [exact I|].
  apply nb_bind; [apply H; left; reflexivity|]. intros y _.
  apply nb_bind; [apply IH; intros z Hz; apply H; right; exact Hz|]. intros ys _. exact I.
Qed.

Definition item_ok (it : item) : bool :=
  match it with IAt _ | IRange _ _ _ | INewAxis | IEllipsis | IField _ | IFields _ => true | _ => false end.

Lemma carry_good_total c ix : good c -> Forall (fun i => 0 <= i < clen c) ix -> exists c', carry c ix = Ok c'.
Proof.
  intros Hg Hix. destruct (good_value c Hg) as [vs Hl]. destruct Hg as (HV & _).
  destruct (carry_spec c vs ix HV Hl Hix) as (c' & Hc & _). exists c'. exact Hc.
Qed.

Lemma wrap_at_nb n i : nb (wrap_at n i).
Proof. unfold wrap_at. destruct (_ && _); exact I. Qed.
Lemma wrap_at_in n i j : wrap_at n i = Ok j -> 0 <= j < n.
Proof. unfold wrap_at. destruct (_ && _) eqn:E; [|discriminate]. intros H. inversion H; subst. lia. Qed.

Section Step.
  Variable f : nat.
  Hypothesis IH : forall c items, good c -> forallb item_ok items = true -> nb (gn f c items None).

  Lemma nstep_list_IAt c i tail : good c -> lnode c = true -> forallb item_ok tail = true -> nb (gn (S f) c (IAt i :: tail) None).
  Proof.
    intros Hg Hl Ht. rewrite gn_list_IAt by exact Hl. apply nb_bind; [apply nb_clean, list_bounds_clean|]. intros [bs cc] Hb. cbn [fst snd].
    apply nb_bind; [unfold szchk; destruct (rsize c) as [z|]; [pose proof (wrap_at_nb z i) as W; destruct (wrap_at z i); [exact I|exact W]|exact I]|]. intros _ _.
    apply nb_bind; [apply nb_mapM; intros ab _; pose proof (wrap_at_nb (snd ab - fst ab) i) as W; destruct (wrap_at (snd ab - fst ab) i); [exact I|exact W]|].
    intros nx Hnx. destruct (good_list _ _ _ Hg Hb) as (Hgc & _). destruct Hg as (HV & _).
    destruct (list_bounds_valid _ _ _ _ HV Hb) as (_ & _ & Hpo & _).
    destruct (carry_good_total cc nx Hgc) as [nc Hnc].
    { apply Forall_forall. intros x Hx. destruct (mapM_In_inv _ _ _ _ Hnx Hx) as (ab & Hab & Hx').
      apply bind_Ok in Hx' as (j & Hj & Hx'). inversion Hx'; subst x. apply wrap_at_in in Hj.
      rewrite Forall_forall in Hpo. specialize (Hpo ab Hab). unfold pair_ok in Hpo. lia. }
    rewrite Hnc. cbn [bind]. apply IH; [apply (carry_good _ _ _ Hgc Hnc)|exact Ht].
  Qed.

  Lemma nstep_list_IRange c s e st tail : good c -> lnode c = true -> forallb item_ok tail = true ->
    nb (gn (S f) c (IRange s e st :: tail) None).
  Proof.
    intros Hg Hl Ht. rewrite gn_list_IRange by exact Hl. apply nb_bind; [apply nb_clean, list_bounds_clean|]. intros [bs cc] Hb. cbn [fst snd].
    cbv zeta. destruct (stepof st =? 0) eqn:Est; [exact I|].
    destruct (good_list _ _ _ Hg Hb) as (Hgc & _). destruct Hg as (HV & _).
    destruct (list_bounds_valid _ _ _ _ HV Hb) as (_ & _ & Hpo & _).
    match goal with |- nb (do nc <- carry cc ?IX; _) => destruct (carry_good_total cc IX Hgc) as [nc Hnc] end.
    { apply Forall_forall. intros x Hx. apply in_concat in Hx as (l & Hl' & Hx). apply in_map_iff in Hl' as (ab & <- & Hab).
      apply in_map_iff in Hx as (j & <- & Hj). rewrite Forall_forall in Hpo. specialize (Hpo ab Hab). unfold pair_ok in Hpo.
      destruct (Z_le_gt_dec 0 (snd ab - fst ab)) as [Hn|Hn].
      - apply py_indices_in_range in Hj; [lia|exact Hn|lia].
      - lia. }
    rewrite Hnc. cbn [bind adv_range]. apply nb_bind; [|intros; exact I].
    apply IH; [apply (carry_good _ _ _ Hgc Hnc)|exact Ht].
  Qed.

  Lemma nstep_option c head tail :
    positional head = true -> is_opt c = true -> good c -> forallb item_ok (head :: tail) = true -> nb (gn (S f) c (head :: tail) None).
  Proof.
    intros Hp Hop Hg Ht. rewrite gn_option by assumption. destruct Hg as (HV & Hs & Hf).
    apply nb_bind; [apply nb_clean, (option_index_clean _ _ HV)|]. intros [ix c0] Hoi. cbn [fst].
    destruct (option_index_valid _ _ _ HV Hoi) as (HVc & _ & Hn & Hix).
    assert (Hc0 : c0 = opt_content c /\ nostr c0 = true /\ nopt c0 = true).
    { unfold nostr in *. destruct c; try discriminate Hop; cbn [option_index] in Hoi; cbn [allnodes kind_of] in Hs; cbn [gi_frag] in Hf;
        apply andb_true_iff in Hs as [_ Hs]; try (apply bind_Ok in Hoi as (? & _ & Hoi)); inversion Hoi; subst; auto. }
    destruct Hc0 as (-> & Hs0 & Ho0).
    assert (Hgc : good (opt_content c)) by (split; [exact HVc|split; [exact Hs0|apply nopt_gi_frag, Ho0]]).
    destruct (carry_good_total (opt_content c) (filter (fun i => 0 <=? i) ix) Hgc) as [p Hpc].
    { apply Forall_forall. intros i Hi. apply filter_In in Hi as [Hi Hpos]. rewrite Forall_forall in Hix. specialize (Hix i Hi). lia. }
    rewrite Hpc. cbn [bind adv_present]. apply nb_bind; [|intros; exact I].
    apply IH; [apply (carry_good _ _ _ Hgc Hpc)|exact Ht].
  Qed.

  Lemma nstep_positional c head tail :
    positional head = true -> is_nd c = false -> good c -> forallb item_ok (head :: tail) = true -> nb (gn (S f) c (head :: tail) None).
  Proof.
    intros Hp Hnd Hg Ht. pose proof Hg as (HV & Hs & Hf). pose proof Ht as Ht0. cbn [forallb] in Ht0. apply andb_true_iff in Ht0 as [Hh Htl].
    destruct c as [dt sh data| |w o c|w s e c|c size zl|w ix c|w ix c|m vw c|m vw lsb n c|c|w t ix cs|cs ks n|arr rn c].
    - rewrite gn_numpy1; [exact I|exact Hp|]. destruct sh as [|? [|? ?]]; try reflexivity. discriminate Hnd.
    - rewrite gn_empty by exact Hp. exact I.
    - destruct head; try discriminate Hp; try discriminate Hh; [apply nstep_list_IAt|apply nstep_list_IRange]; solve [exact Hg|exact Htl|reflexivity].
    - destruct head; try discriminate Hp; try discriminate Hh; [apply nstep_list_IAt|apply nstep_list_IRange]; solve [exact Hg|exact Htl|reflexivity].
    - destruct head; try discriminate Hp; try discriminate Hh; [apply nstep_list_IAt|apply nstep_list_IRange]; solve [exact Hg|exact Htl|reflexivity].
    - (* Indexed *)
      rewrite gn_Indexed by exact Hp. inversion HV; subst. cbn [gi_frag] in Hf.
      unfold nostr in Hs. cbn [allnodes kind_of] in Hs. apply andb_true_iff in Hs as [_ Hs].
      assert (Hgc : good c) by (split; [assumption|split; [exact Hs|apply nopt_gi_frag, Hf]]).
      destruct (carry_good_total c ix Hgc) as [p Hpc]; [assumption|]. rewrite Hpc. cbn [bind].
      apply IH; [apply (carry_good _ _ _ Hgc Hpc)|exact Ht].
    - apply nstep_option; [exact Hp|reflexivity|exact Hg|exact Ht].
    - apply nstep_option; [exact Hp|reflexivity|exact Hg|exact Ht].
    - apply nstep_option; [exact Hp|reflexivity|exact Hg|exact Ht].
    - apply nstep_option; [exact Hp|reflexivity|exact Hg|exact Ht].
    - rewrite gn_Union_pos by exact Hp. exact I.
    - (* Record *)
      rewrite gn_Record_pos by exact Hp. inversion HV; subst.
      match goal with HVs : Forall (Valid None) cs, Hn : Forall (fun x => n <= clen x) cs |- _ => rewrite Forall_forall in HVs, Hn; rename HVs into HVs0; rename Hn into Hn0 end.
      unfold nostr in Hs. cbn [allnodes kind_of] in Hs. apply andb_true_iff in Hs as [_ Hs]. rewrite allnodes_all, forallb_forall in Hs.
      cbn [gi_frag] in Hf. rewrite gi_frag_all, forallb_forall in Hf.
      assert (Hgx : forall x, In x cs -> good x) by (intros x Hx; split; [apply HVs0, Hx|split; [apply Hs, Hx|apply Hf, Hx]]).
      assert (Hcr : forall x, In x cs -> exists ft, crange x 0 n = Ok ft).
      { intros x Hx. unfold crange. apply carry_good_total; [apply Hgx, Hx|]. apply Forall_forall. intros i Hi. apply range_In in Hi.
        specialize (Hn0 x Hx). lia. }
      apply nb_bind.
      + apply nb_mapM. intros x Hx. destruct (Hcr x Hx) as [ft Hft]. rewrite Hft. cbn [bind].
        apply IH; [unfold crange in Hft; apply (carry_good _ _ _ (Hgx x Hx) Hft)|cbn [forallb]; rewrite Hh; reflexivity].
      + intros cs' Hcs'.
        assert (HF : Forall2 (fun x y => good y /\ n <= clen y /\ (nopt x = true -> nopt y = true)) cs cs').
        { eapply mapM_Forall2_P; [exact Hcs'|]. cbv beta. intros x y Hx Hy. apply bind_Ok in Hy as (ft & Hft & Hy).
          unfold crange in Hft. destruct (carry_good _ _ _ (Hgx x Hx) Hft) as (Hgt & Hct & Hot). rewrite zlen_range in Hct by lia.
          destruct (gn_good _ _ _ _ _ Hgt Hy) as (A & B & C). split; [exact A|]. split; [lia|]. rewrite <- Hot. exact C. }
        destruct (good_Record cs ks n cs' Hg HF) as [Hgr _]. apply IH; [exact Hgr|exact Htl].
    - (* Par *)
      rewrite gn_Par by exact Hp.
      unfold nostr in Hs. cbn [allnodes kind_of] in Hs. apply andb_true_iff in Hs as [Hk Hs]. destruct arr as [a|]; [discriminate|].
      inversion HV; subst. assert (Hgc : good c) by (split; [assumption|split; assumption]).
      apply nb_bind; [apply IH; [exact Hgc|exact Ht]|]. intros r0 _. cbn [strflag]. destruct head; try destruct tail; exact I.
  Qed.
End Step.

Lemma gn_nb : forall f c items, good c -> forallb item_ok items = true -> nb (gn f c items None).
Proof.
  induction f as [|f IH]; intros c items Hg Ht; [rewrite gn_0; exact I|].
  destruct items as [|head tail]; [rewrite gn_nil; exact I|].
  destruct (is_nd c) eqn:Hnd.
  - rewrite gn_nd by exact Hnd. destruct (good_expand_nd c Hnd Hg) as [Hge _]. apply IH; assumption.
  - pose proof Ht as Ht0. cbn [forallb] in Ht0. apply andb_true_iff in Ht0 as [Hh Htl]. destruct head; try discriminate Hh.
    + apply (nstep_positional f IH c (IAt i) tail eq_refl Hnd Hg Ht).
    + apply (nstep_positional f IH c (IRange start stop step) tail eq_refl Hnd Hg Ht).
    + (* IEllipsis *)
      rewrite gn_IEllipsis by (apply nd_not, Hnd). destruct (minmax (type_of c)) as [mn mx]. cbv zeta.
      destruct tail as [|t0 tail']; [exact I|].
      destruct ((mn - 1 =? dim_items (t0 :: tail')) && (mx - 1 =? dim_items (t0 :: tail'))); [apply IH; assumption|].
      destruct ((mn - 1 =? dim_items (t0 :: tail')) || (mx - 1 =? dim_items (t0 :: tail'))); [exact I|].
      apply IH; [exact Hg|]. cbn [forallb item_ok andb]. exact Htl.
    + (* INewAxis *)
      rewrite gn_INewAxis by (apply nd_not, Hnd). apply nb_bind; [apply IH; assumption|]. intros; exact I.
    + (* IField *)
      rewrite gn_IField by exact Hnd. destruct (good_value c Hg) as [vs Hl]. pose proof Hg as (HV & Hs & Hf).
      apply nb_bind; [apply nb_iff, (field_never_out_of_bounds k c vs HV Hl)|]. intros f0 Hf0.
      destruct (field_content_valid_all k c false vs f0 HV Hl (gi_fc_frag k c false Hf ltac:(discriminate)) Hf0) as (X1 & X2 & _).
      apply IH; [|exact Htl].
      split; [exact X1|]. split; [apply (field_content_allnodes _ _ _ _ Hf0 Hs)|apply (field_content_gi _ _ _ Hf0 Hf)].
    + (* IFields *)
      rewrite gn_IFields by exact Hnd. pose proof Hg as (HV & Hs & Hf).
      apply nb_bind; [apply nb_iff, (fields_never_out_of_bounds ks c HV)|]. intros f0 Hf0.
      destruct (fields_content_valid_all ks c f0 HV Hf0) as (X1 & X2 & _).
      apply IH; [|exact Htl].
      split; [exact X1|]. split; [apply (fields_content_allnodes _ _ _ _ Hf0 Hs)|apply (fields_content_gi _ _ _ Hf0 Hf)].
Qed.

Theorem getitem_never_out_of_bounds_wide : forall items c,
  forallb item_ok items = true -> Valid None c -> nostr c = true -> gi_frag c = true ->
  getitem_model items c <> Err EOob.
Proof.
  intros items c Ht HV Hs Hf. apply nb_iff. unfold getitem_model.
  assert (Hg : good c) by (split; [exact HV|split; assumption]).
  apply gn_nb; [|exact Ht].
  split; [constructor; [exact I|apply good_clen, Hg|lia|intros _; exact HV]|]. split; [|exact Hf].
  unfold nostr in *. cbn [allnodes kind_of Tstr andb]. exact Hs.
Qed.

(* option over lists of records with an n-d leaf and a union field: a range, an integer, a field, an ellipsis *)
Example getitem_wide_ex :
  let c := ListOffset I64 [0; 2; 3]
             (ByteMasked [1; 0; 1] true
                (Record [Regular (Numpy DInt64 [3; 2] [DZ 1; DZ 2; DZ 3; DZ 4; DZ 5; DZ 6]) 1 3;
                         Union I64 [0; 1; 0] [0; 0; 1] [Numpy DFloat64 [2] [DZ 7; DNaN]; Numpy DBool [1] [DZ 1]]]
                        (Some [[120]; [121]]) 3)) in
  valid_b c = true /\ nostr c = true /\ gi_frag c = true /\
  obs (getitem_model [IRange None None (Some (-1)); IAt 0; IField [120]; IEllipsis; IAt 1] c)
  = Ok [VList [VList [VNum (DZ 6)]; VList [VNum (DZ 2)]]] /\
  obs (getitem_model [IAt 0; IFields [[121]]] c) = Ok [VList [VRec [([121], VNum (DZ 7))]; VNone]] /\
  getitem_model [IAt 0; IAt 0; IField [121]; IAt 0] c = Err EFuel.
Proof. vm_compute. repeat split. Qed.

(* integer arrays: one alone is covered on every valid layout (Proofs_Safety.getitem_array_never_out_of_bounds).  Several
   arrays of DIFFERENT lengths make the model -- and the specification -- answer [Err EOob]: the model takes the
   arrays as already broadcast to a common shape (the C++ does that in Slice::become_sealed, which refuses with
   "cannot broadcast arrays in slice"; the kernel awkward_ListArray_getitem_next_array_advanced itself reads
   fromarray[fromadvanced[i]] without comparing it to lenarray) *)
Example getitem_unbroadcast_arrays_refuted :
  let c := ListOffset I64 [0; 2; 4; 6] (Numpy DInt64 [6] [DZ 1; DZ 2; DZ 3; DZ 4; DZ 5; DZ 6]) in
  valid_b c = true /\ nostr c = true /\ gi_frag c = true /\
  getitem_model [IArray [0; 1; 2]; IArray [0; 1]] c = Err EOob /\
  getitem_spec [IArray [0; 1; 2]; IArray [0; 1]] (type_of c)
    [VList [VNum (DZ 1); VNum (DZ 2)]; VList [VNum (DZ 3); VNum (DZ 4)]; VList [VNum (DZ 5); VNum (DZ 6)]] = Err EOob /\
  obs (getitem_model [IArray [0; 1; 2]; IArray [0; 1; 1]] c) = Ok [VList [VNum (DZ 1); VNum (DZ 4); VNum (DZ 6)]].
Proof. vm_compute. repeat split. Qed.
