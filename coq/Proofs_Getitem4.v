(** Slicing, part 4: tuples of basic items (integer, range, newaxis, ellipsis) on the fragment [gfrag]:
    [getitem_model] computes [getitem_spec], values and error status, whenever the fuel covers the
    stated cost; the fixed [items_fuel] of the model does when there is no ellipsis or the layout is shallow. *)
From Coq Require Import ZArith List Bool Lia ZifyBool.
From AwkV Require Import Base Layout LayoutInd Valid Types AtAxis Carry Ops_Getitem Typing Proofs_Typing
                         Proofs_Lists Proofs_ToList Proofs_Carry Proofs_CarryValid Proofs_AtAxis Proofs_AtAxisOps
                         Proofs_C01 Proofs_Getitem Proofs_Getitem2 Proofs_Getitem3.
Import ListNotations.
Open Scope Z_scope.
Ltac Zify.zify_post_hook ::= Z.to_euclidean_division_equations.

(* ---------------------------------------------------------------- values of a list-typed layout *)
Definition listy (x : value) : Prop := x = VNone \/ exists l, x = VList l.

Lemma has_type_listy U : forall sz u x, so_ty U = TList sz None u -> has_typeb U x = true -> listy x.
Proof.
  induction U; intros sz u x Hs Ht; cbn [so_ty] in Hs; try discriminate.
  - inversion Hs; subst. cbn [has_typeb] in Ht. destruct x; try discriminate. right. eauto.
  - cbn [has_typeb] in Ht. destruct x; try (eapply IHU; eassumption). left. reflexivity.
Qed.
Lemma list_values c xs sz u :
  Valid None c -> to_list c = Ok xs -> so_ty (type_of c) = TList sz None u -> Forall listy xs.
Proof.
  intros HV Hl Hs. pose proof (to_list_typed_thm c xs HV Hl) as Ht.
  eapply Forall_impl; [|exact Ht]. intros x Hx. eapply has_type_listy; eassumption.
Qed.
Lemma as_list_total xs : Forall listy xs -> exists ls, mapM as_list xs = Ok ls.
Proof. intros H. apply mapM_total. intros x Hx. rewrite Forall_forall in H. destruct (H x Hx) as [->|[l ->]]; cbn; eauto. Qed.
Lemma as_list_inv xs : forall ls,
  mapM as_list xs = Ok ls -> Forall listy xs ->
  map (fun o : option (list value) => match o with Some l => mk_list None l | None => VNone end) ls = xs.
Proof.
  induction xs as [|x xs IH]; intros ls H HF; cbn [mapM] in H.
  - inversion H. reflexivity.
  - apply bind_Ok in H as (o & Ho & H). apply bind_Ok in H as (ls' & Hls' & H). inversion H; subst.
    inversion HF as [|? ? Hx HF']; subst. cbn [map]. rewrite (IH ls' Hls' HF'). f_equal.
    destruct Hx as [->|[l ->]]; cbn in Ho; inversion Ho; reflexivity.
Qed.

(* the possible element types of the fragment *)
Lemma gfrag_ty_cases c : gfrag c = true ->
  (exists d, so_ty (type_of c) = TNum d) \/ so_ty (type_of c) = TUnk \/ (exists sz u, so_ty (type_of c) = TList sz None u) \/
  (exists ks ts, so_ty (type_of c) = TRec ks ts).
Proof.
  unfold type_of. induction c using content_ind'; intros Hf; cbn [gfrag] in Hf; try discriminate; cbn [type_of_p so_ty strflag];
    try (apply andb_true_iff in Hf as [_ Hf]); auto.
  - destruct shape as [|n [|? ?]]; try discriminate. left. cbn. eauto.
  - right. right. left. eauto.
  - right. right. left. eauto.
  - right. right. left. eauto.
  - right. right. right. eauto.
  - destruct arr; [discriminate|]. apply IHc, Hf.
Qed.

Lemma chunks_nat_ones {A} (ws : list A) : chunks_nat ws 1 (length ws) = map (fun v => [v]) ws.
Proof. induction ws as [|w ws IH]; [reflexivity|]. cbn [length chunks_nat map]. f_equal. exact IH. Qed.
Lemma to_list_newaxis r ws :
  to_list r = Ok ws -> to_list (Regular r 1 (clen r)) = Ok (map (fun v => VList [v]) ws).
Proof.
  intros Hl. rewrite to_list_Regular, Hl. cbn [bind]. unfold chunks. cbn [Z.ltb Z.eqb Z.compare].
  rewrite Z.div_1_r. unfold zlen. rewrite Nat2Z.id, chunks_nat_ones. cbn [rmap]. rewrite map_map. reflexivity.
Qed.

(* ---------------------------------------------------------------- the generic element path of the specification *)
Lemma sg_singletons f T xs tl :
  sg (S f) None None T (map (fun x => Some [x]) xs) (IAt 0 :: tl) None =
  do r <- se_ f T xs tl None; Ok (fst r, reinsert (map (fun x => Some [x]) xs) (snd r)).
Proof.
  replace (map (fun x : value => Some [x]) xs) with (map Some (map (fun x : value => [x]) xs)) by (rewrite map_map; reflexivity).
  rewrite sg_IAt by (rewrite has_none_somes; reflexivity). cbn [szchk bind present_adv].
  rewrite present_somes, mapM_map.
  replace (mapM (fun x : value => do j <- wrap_at (zlen [x]) 0; get [x] j) xs) with (Ok (A := list value) xs); [reflexivity|].
  symmetry. rewrite <- (map_id xs) at 2. rewrite <- mapM_pure. apply mapM_ext_in. intros x _. reflexivity.
Qed.
Lemma reinsert_singletons (xs ws : list value) :
  length ws = length xs -> reinsert (map (fun x => Some [x]) xs) ws = ws.
Proof.
  intros H. replace (map (fun x : value => Some [x]) xs) with (map Some (map (fun x : value => [x]) xs)) by (rewrite map_map; reflexivity).
  apply reinsert_somes. rewrite map_length. exact H.
Qed.

(* ---------------------------------------------------------------- the side condition *)
(* [sc items T]: walking the tuple over an array with element type T, no positional item (and no
   ellipsis that still has to skip a level) arrives at a record.  (Positional items at a record slice
   every field: outside the fragment proved here.) *)
Fixpoint sc_ell (sctl : ty -> bool) (d : Z) (tlnil : bool) (T : ty) {struct T} : bool :=
  match T with
  | TOpt T' => sc_ell sctl d tlnil T'
  | TList sz None t =>
      if tlnil then true
      else if (fst (minmax t) =? d) && (snd (minmax t) =? d) then sctl T
      else if (fst (minmax t) =? d) || (snd (minmax t) =? d) then true
      else sc_ell sctl d tlnil t
  | TRec _ _ =>
      if tlnil then true
      else if (fst (minmax T) - 1 =? d) && (snd (minmax T) - 1 =? d) then sctl T
      else if (fst (minmax T) - 1 =? d) || (snd (minmax T) - 1 =? d) then true
      else false
  | _ => true
  end.
Fixpoint sc (items : list item) : ty -> bool :=
  match items with
  | [] => fun _ => true
  | it :: tl =>
      match it with
      | IAt _ | IRange _ _ _ | IArray _ => fun T => match so_ty T with TList _ None t => sc tl t | TRec _ _ => false | _ => true end
      | INewAxis => sc tl
      | IEllipsis => sc_ell (sc tl) (dim_items tl) (match tl with [] => true | _ => false end)
      | IField k => fun T => match proj_ty k T with Ok T' => sc tl T' | Err _ => true end
      | IFields ks => fun T => match projs_ty ks T with Ok T' => sc tl T' | Err _ => true end
      end
  end.

Lemma sc_ell_so_ty F d b T : sc_ell F d b T = sc_ell F d b (so_ty T).
Proof. induction T; cbn [so_ty sc_ell]; auto. Qed.
Lemma sc_opt items : forall T, sc items (TOpt T) = sc items T.
Proof.
  induction items as [|it tl IH]; intros T; [reflexivity|]. destruct it; cbn [sc so_ty sc_ell proj_ty projs_ty]; auto.
  - destruct (proj_ty k T); cbn [rmap]; auto.
  - destruct (projs_ty ks T); cbn [rmap]; auto.
Qed.
Lemma sc_so_ty items T : sc items T = sc items (so_ty T).
Proof. induction T; cbn [so_ty]; auto. rewrite sc_opt. exact IHT. Qed.
Lemma sc_ow items T U : optwrap T U -> sc items T = sc items U.
Proof. induction 1; [reflexivity|]. rewrite sc_opt. assumption. Qed.

Lemma sc_positional head tl T :
  positional head = true -> basic_item head = true -> sc (head :: tl) T = true ->
  is_rec T = false /\ (forall sz t, so_ty T = TList sz None t -> sc tl t = true).
Proof.
  intros _ Hb H. unfold is_rec. destruct head; try discriminate; cbn [sc] in H; destruct (so_ty T) as [| |sz [?|] t| | |];
    try discriminate; (split; [reflexivity|]); intros sz' t' E; inversion E; subst; exact H.
Qed.

(* ---------------------------------------------------------------- the statements, relative to fuel and depth bounds *)
Definition PSE (Nm Ns : nat) (K : Z) (items : list item) : Prop :=
  forall fm fs c T xs, (Nm <= fm)%nat -> (Ns <= fs)%nat -> tdepth T <= K -> sc items T = true ->
    Valid None c -> gfrag c = true -> to_list c = Ok xs -> optwrap T (type_of c) ->
    R (zlen xs) (gn fm c items None) (se_ fs T xs items None).
Definition PSG (Nm Ns : nat) (K : Z) (items : list item) : Prop :=
  forall fm fs c T xs sz t ls, (Nm <= fm)%nat -> (Ns <= fs)%nat -> tdepth T <= K -> sc items T = true ->
    Valid None c -> gfrag c = true -> to_list c = Ok xs -> optwrap T (type_of c) ->
    so_ty T = TList sz None t -> mapM as_list xs = Ok ls ->
    R (zlen xs) (gn fm c items None) (sg fs None sz t ls items None).

Lemma PSE_mono Nm Ns K items Nm' Ns' K' :
  PSE Nm Ns K items -> (Nm <= Nm')%nat -> (Ns <= Ns')%nat -> K' <= K -> PSE Nm' Ns' K' items.
Proof. intros H ? ? ? fm fs c T xs ? ? ? ?. apply H; try assumption; lia. Qed.
Lemma PSG_mono Nm Ns K items Nm' Ns' K' :
  PSG Nm Ns K items -> (Nm <= Nm')%nat -> (Ns <= Ns')%nat -> K' <= K -> PSG Nm' Ns' K' items.
Proof. intros H ? ? ? fm fs c T xs sz t ls ? ? ? ?. apply H; try assumption; lia. Qed.

(* the list type seen from the layout *)
Lemma list_type_of_c c T sz t :
  optwrap T (type_of c) -> so_ty T = TList sz None t -> so_ty (type_of c) = TList sz None t.
Proof. intros HT Hs. rewrite <- (ow_so_ty _ _ HT). exact Hs. Qed.

(* nothing left, at a list-typed node *)
Lemma sg_done f c T xs sz t ls :
  Valid None c -> to_list c = Ok xs -> optwrap T (type_of c) -> so_ty T = TList sz None t -> mapM as_list xs = Ok ls ->
  R (zlen xs) (Ok c) (sg (S f) None sz t ls [] None).
Proof.
  intros HV Hl HT Hs Hls. rewrite sg_nil. cbn [R]. pose proof (list_type_of_c c T sz t HT Hs) as Hu.
  exists (TList sz None t), xs. split; [|split; [|split]].
  - rewrite (as_list_inv xs ls Hls (list_values c xs sz t HV Hl Hu)). reflexivity.
  - rewrite <- (ow_er _ _ HT), <- (er_so_ty T), Hs. reflexivity.
  - exact Hl.
  - reflexivity.
Qed.

Lemma PSE_nil K : PSE 1 0 K [].
Proof.
  intros fm fs c T xs Hfm _ _ _ HV Hfr Hl HT. destruct fm as [|fm]; [lia|]. rewrite gn_nil, se_nil. cbn [R]. exists T, xs.
  split; [reflexivity|]. split; [apply ow_er, HT|auto].
Qed.
Lemma PSG_nil K : PSG 1 1 K [].
Proof.
  intros fm fs c T xs sz t ls Hfm Hfs _ _ HV Hfr Hl HT Hs Hls.
  destruct fm as [|fm]; [lia|]. destruct fs as [|fs]; [lia|]. rewrite gn_nil. eapply sg_done; eassumption.
Qed.

(* positional head *)
Lemma PSE_positional head tl Nm Ns K :
  basic_item head = true -> has_array tl = false -> PSE Nm Ns K tl -> PSE (4 + Nm) (1 + Ns) (K + 1) (head :: tl).
Proof.
  intros Hh Hna IH fm fs c T xs Hfm Hfs HK Hsc HV Hfr Hl HT.
  assert (Hp : positional head = true) by (destruct head; try discriminate; reflexivity).
  destruct (sc_positional head tl T Hp Hh Hsc) as [Hrec HQ].
  apply (positional_step head tl Hh Hna Nm Ns K (fun t => sc tl t = true) IH 3%nat); try assumption; try lia. eapply valid_wd, HV.
Qed.
Lemma PSG_of_PSE head tl Nm Ns K :
  positional head = true -> PSE Nm Ns K (head :: tl) -> PSG Nm Ns K (head :: tl).
Proof.
  intros Hp H fm fs c T xs sz t ls Hfm Hfs HK Hsc HV Hfr Hl HT Hs Hls.
  rewrite <- (se_at_list fs T xs head tl sz t ls None Hp Hs Hls). apply H; assumption.
Qed.

Lemma gfrag_not_nd c : gfrag c = true -> match c with Numpy _ (_ :: _ :: _) _ => False | _ => True end.
Proof. destruct c as [dt [|n [|m sh]] data| | | | | | | | | | | |]; cbn [gfrag]; try discriminate; auto. Qed.

(* newaxis *)
Lemma R_newaxis n m s :
  R n m s ->
  R n (do r <- m; Ok (Regular r 1 (clen r))) (do r <- s; Ok (TList (Some 1) None (fst r), map (fun v => VList [v]) (snd r))).
Proof.
  destruct m as [c'|e]; cbn [R bind].
  - intros (t' & ws & -> & Ht & Hl & Hz). cbn [bind fst snd]. eexists _, _. split; [reflexivity|]. split; [|split].
    + cbn [type_of type_of_p strflag er]. f_equal. exact Ht.
    + apply to_list_newaxis, Hl.
    + rewrite zlen_map. exact Hz.
  - intros [-> ->]. split; reflexivity.
Qed.
Lemma R_reinsert_id n m s (xs : list value) :
  R n m s -> n = zlen xs -> R n m (do r <- s; Ok (fst r, reinsert (map (fun x => Some [x]) xs) (snd r))).
Proof.
  destruct m as [c'|e]; cbn [R].
  - intros (t' & ws & -> & Ht & Hl & Hz) Hn. cbn [bind fst snd].
    rewrite reinsert_singletons by (apply zlen_eq_length; lia). eexists _, _. split; [reflexivity|]. auto.
  - intros [-> ->] _. split; reflexivity.
Qed.

Lemma PSE_newaxis tl Nm Ns K : PSE Nm Ns K tl -> PSE (1 + Nm) (1 + Ns) K (INewAxis :: tl).
Proof.
  intros IH fm fs c T xs Hfm Hfs HK Hsc HV Hfr Hl HT.
  destruct fm as [|fm]; [lia|]. destruct fs as [|fs]; [lia|].
  rewrite gn_INewAxis by (apply gfrag_not_nd, Hfr). rewrite se_INewAxis, sg_singletons.
  apply R_newaxis. apply R_reinsert_id; [|reflexivity]. apply IH; assumption || lia.
Qed.
Lemma PSG_newaxis tl Nm Ns K : PSG Nm Ns K tl -> PSG (1 + Nm) (1 + Ns) K (INewAxis :: tl).
Proof.
  intros IH fm fs c T xs sz t ls Hfm Hfs HK Hsc HV Hfr Hl HT Hs Hls.
  destruct fm as [|fm]; [lia|]. destruct fs as [|fs]; [lia|].
  rewrite gn_INewAxis by (apply gfrag_not_nd, Hfr). rewrite sg_INewAxis.
  apply R_newaxis. eapply IH; eassumption || lia.
Qed.

(* ---------------------------------------------------------------- ellipsis *)
Lemma se_IEllipsis_list f T xs tl adv sz t ls :
  so_ty T = TList sz None t -> mapM as_list xs = Ok ls ->
  se_ f T xs (IEllipsis :: tl) adv = sg f None sz t ls (IEllipsis :: tl) adv.
Proof. intros Hs Hl. unfold se_, list_elem_ty, str_of_ty. rewrite Hs, Hl. reflexivity. Qed.
Lemma se_IEllipsis_other f T xs tl adv :
  (forall sz t, so_ty T <> TList sz None t) ->
  se_ f T xs (IEllipsis :: tl) adv =
  let (mn, mx) := minmax T in
  let d := dim_items tl in
  match tl with
  | [] => Ok (T, xs)
  | _ =>
      if (mn - 1 =? d) && (mx - 1 =? d)
      then sg f None None T (map (fun x => Some [x]) xs) (IAt 0 :: tl) adv
      else Err EValue
  end.
Proof.
  intros Hn. unfold se_. destruct (so_ty T) as [| |sz [b|] t| | |] eqn:E; try reflexivity. exfalso. eapply Hn. reflexivity.
Qed.

Lemma zmax_list_ge d l : d <= zmax_list d l.
Proof. unfold zmax_list. induction l as [|x l IH]; cbn [fold_right]; lia. Qed.
Lemma tdepth_nonneg t : 0 <= tdepth t.
Proof.
  unfold tdepth. induction t as [d| |sz str t IH|t IH|ks ts IH|ts IH] using ty_ind'; cbn [minmax snd]; try lia.
  - destruct str; [cbn; lia|]. destruct (minmax t); cbn [snd] in *. lia.
  - destruct ts as [|t0 rest]; [cbn; lia|]. inversion IH; subst. cbn [snd]. pose proof (zmax_list_ge (snd (minmax t0)) (map snd (map minmax (t0 :: rest)))). lia.
  - destruct ts as [|t0 rest]; [cbn; lia|]. inversion IH; subst. cbn [snd]. pose proof (zmax_list_ge (snd (minmax t0)) (map snd (map minmax (t0 :: rest)))). lia.
Qed.

Lemma sc_leaf items : forall T, (exists d, so_ty T = TNum d) \/ so_ty T = TUnk -> sc items T = true.
Proof.
  induction items as [|it tl IH]; intros T HT; [reflexivity|].
  assert (Hpt : forall k, proj_ty k T = Err EValue \/ exists T', proj_ty k T = Ok T' /\ ((exists d, so_ty T' = TNum d) \/ so_ty T' = TUnk)).
  { intros k. clear IH. induction T; cbn [so_ty] in HT; try (destruct HT as [[? ?]|?]; discriminate); cbn [proj_ty]; auto.
    destruct (IHT HT) as [->|(T' & -> & H')]; cbn [rmap]; [left; reflexivity|right]. eexists. split; [reflexivity|exact H']. }
  assert (Hpts : forall ks, projs_ty ks T = Err EValue \/ exists T', projs_ty ks T = Ok T' /\ ((exists d, so_ty T' = TNum d) \/ so_ty T' = TUnk)).
  { intros ks. clear IH Hpt. induction T; cbn [so_ty] in HT; try (destruct HT as [[? ?]|?]; discriminate); cbn [projs_ty]; auto.
    destruct (IHT HT) as [->|(T' & -> & H')]; cbn [rmap]; [left; reflexivity|right]. eexists. split; [reflexivity|exact H']. }
  destruct it; cbn [sc].
  - destruct HT as [[d ->]| ->]; reflexivity.
  - destruct HT as [[d ->]| ->]; reflexivity.
  - rewrite sc_ell_so_ty. destruct HT as [[d ->]| ->]; reflexivity.
  - apply IH, HT.
  - destruct HT as [[d ->]| ->]; reflexivity.
  - destruct (Hpt k) as [->|(T' & -> & H')]; [reflexivity|apply IH, H'].
  - destruct (Hpts ks) as [->|(T' & -> & H')]; [reflexivity|apply IH, H'].
Qed.

Lemma sc_ell_cons tl T : tl <> [] -> sc (IEllipsis :: tl) T = sc_ell (sc tl) (dim_items tl) false (so_ty T).
Proof. intros H. cbn [sc]. rewrite sc_ell_so_ty. destruct tl; [congruence|reflexivity]. Qed.

(* a positional item on a layout whose elements are not lists: too many indices *)
Lemma positional_at_leaf head tl' fm c T xs :
  basic_item head = true -> has_array tl' = false -> (4 <= fm)%nat -> (exists d, so_ty T = TNum d) \/ so_ty T = TUnk ->
  Valid None c -> gfrag c = true -> to_list c = Ok xs -> optwrap T (type_of c) ->
  gn fm c (head :: tl') None = Err EValue.
Proof.
  intros Hb Hna Hfm Hleaf HV Hfr Hl HT.
  assert (Hp : positional head = true) by (destruct head; try discriminate; reflexivity).
  assert (HR : R (zlen xs) (gn fm c (head :: tl') None) (se_ 1 T xs (head :: tl') None)).
  { apply (positional_step head tl' Hb Hna 0 0 (tdepth T) (fun _ => False) ltac:(intros; contradiction) 3%nat); try assumption; try lia.
    - eapply valid_wd, HV.
    - unfold is_rec. destruct Hleaf as [[d ->]| ->]; reflexivity.
    - intros sz t E. rewrite E in Hleaf. destruct Hleaf as [[? ?]|?]; discriminate. }
  rewrite (se_at_leaf 1 T xs head tl' None Hp Hleaf) in HR.
  apply R_err in HR as (e' & -> & -> & _). reflexivity.
Qed.

Section Ellipsis.
  Variables (tl : list item) (Nm Ns : nat).
  Hypothesis Hnoarr : has_array tl = false.

  (* at a list-typed node, given the statement one level down *)
  Lemma ell_PSG K Nm' Ns' N M :
    (1 + Nm <= N)%nat -> (5 + Nm' <= N)%nat -> (2 <= M)%nat -> (1 + Ns <= M)%nat -> (2 + Ns' <= M)%nat ->
    PSG Nm Ns (K + 1) tl -> PSE Nm' Ns' K (IEllipsis :: tl) ->
    PSG N M (K + 1) (IEllipsis :: tl).
  Proof.
    intros HN1 HN2 HM0 HM1 HM2 IHt IHe fm fs c T xs sz t ls Hfm Hfs HK Hsc HV Hfr Hl HT Hs Hls.
    destruct fm as [|fm]; [lia|]. destruct fs as [|fs]; [lia|].
    rewrite gn_IEllipsis by (apply gfrag_not_nd, Hfr). rewrite sg_IEllipsis.
    rewrite <- (ow_minmax _ _ HT), (tdepth_list T sz t Hs).
    destruct tl as [|h tl'] eqn:Etl.
    { destruct (minmax t) as [a b]. destruct fs as [|fs]; [lia|]. eapply sg_done; eassumption. }
    assert (Hne : h :: tl' <> []) by discriminate. rewrite <- Etl in *. clear Etl.
    rewrite (sc_ell_cons tl T Hne), Hs in Hsc. cbn [sc_ell] in Hsc.
    destruct (minmax t) as [a b]. cbn [fst snd] in *.
    replace (a + 1 - 1) with a by lia. replace (b + 1 - 1) with b by lia.
    destruct tl as [|h' tl''] eqn:Etl; [congruence|]. rewrite <- Etl in *. clear Etl.
    destruct ((a =? dim_items tl) && (b =? dim_items tl)); [|destruct ((a =? dim_items tl) || (b =? dim_items tl))].
    - eapply IHt; try eassumption; try lia. rewrite sc_so_ty, Hs. exact Hsc.
    - split; reflexivity.
    - rewrite <- (se_at_list fs T xs (IRange None None (Some 1)) (IEllipsis :: tl) sz t ls None eq_refl Hs Hls).
      apply (positional_step (IRange None None (Some 1)) (IEllipsis :: tl) eq_refl Hnoarr Nm' Ns' K
               (fun t0 => sc (IEllipsis :: tl) t0 = true) IHe 3%nat); try assumption; try lia.
      + eapply valid_wd, HV.
      + unfold is_rec. rewrite Hs. reflexivity.
      + intros sz' t' E. rewrite Hs in E. inversion E; subst. rewrite (sc_ell_cons tl t' Hne), <- sc_ell_so_ty. exact Hsc.
  Qed.

  (* at a node whose elements are not lists: the ellipsis stands for nothing *)
  Lemma ell_other fm fs c T xs :
    (5 <= fm)%nat -> (1 + Nm <= fm)%nat -> (2 <= fs)%nat -> (1 + Ns <= fs)%nat ->
    PSE Nm Ns (tdepth T) tl ->
    (exists d, so_ty T = TNum d) \/ so_ty T = TUnk \/ (exists ks ts, so_ty T = TRec ks ts) ->
    sc (IEllipsis :: tl) T = true ->
    Valid None c -> gfrag c = true -> to_list c = Ok xs -> optwrap T (type_of c) ->
    R (zlen xs) (gn fm c (IEllipsis :: tl) None) (se_ fs T xs (IEllipsis :: tl) None).
  Proof.
    intros Hfm0 Hfm1 Hfs0 Hfs1 IHt Hcase Hsc HV Hfr Hl HT.
    assert (Hnl : forall sz t, so_ty T <> TList sz None t).
    { intros sz t E. rewrite E in Hcase. destruct Hcase as [[? ?]|[?|(? & ? & ?)]]; discriminate. }
    destruct fm as [|fm]; [lia|]. destruct fs as [|fs]; [lia|].
    rewrite gn_IEllipsis by (apply gfrag_not_nd, Hfr). rewrite (se_IEllipsis_other _ _ _ _ _ Hnl).
    rewrite <- (ow_minmax _ _ HT).
    destruct tl as [|h tl'] eqn:Etl.
    { destruct (minmax T). cbn [R]. exists T, xs. split; [reflexivity|]. split; [apply ow_er, HT|auto]. }
    assert (Hne : h :: tl' <> []) by discriminate. rewrite <- Etl in *. clear Etl.
    rewrite (sc_ell_cons tl T Hne) in Hsc.
    assert (Hmm : minmax (so_ty T) = minmax T) by apply minmax_so_ty.
    destruct (minmax T) as [mn mx] eqn:Emm. cbv zeta.
    destruct tl as [|h' tl''] eqn:Etl; [congruence|]. rewrite <- Etl in *. clear Etl.
    destruct ((mn - 1 =? dim_items tl) && (mx - 1 =? dim_items tl)) eqn:EA.
    - (* the ellipsis is empty *)
      rewrite sg_singletons. apply R_reinsert_id; [|reflexivity].
      apply IHt; try assumption; try lia.
      destruct Hcase as [Hc|[Hc|(ks & ts & Hc)]].
      + apply sc_leaf. left. exact Hc.
      + apply sc_leaf. right. exact Hc.
      + rewrite Hc in Hsc, Hmm. cbn [sc_ell] in Hsc. rewrite Hmm in Hsc. cbn [fst snd] in Hsc. rewrite EA in Hsc.
        rewrite sc_so_ty, Hc. exact Hsc.
    - destruct ((mn - 1 =? dim_items tl) || (mx - 1 =? dim_items tl)) eqn:EB; [split; reflexivity|].
      destruct Hcase as [Hc|[Hc|(ks & ts & Hc)]].
      3:{ rewrite Hc in Hsc, Hmm. cbn [sc_ell] in Hsc. rewrite Hmm in Hsc. cbn [fst snd] in Hsc. rewrite EA, EB in Hsc. discriminate. }
      all: assert (Hleaf : (exists d, so_ty T = TNum d) \/ so_ty T = TUnk) by auto.
      all: rewrite (positional_at_leaf (IRange None None (Some 1)) (IEllipsis :: tl) fm c T xs eq_refl Hnoarr) by (assumption || lia).
      all: split; reflexivity.
  Qed.

  (* at any node, given the list-typed case at the same level *)
  Lemma ell_PSE K N M :
    (5 <= N)%nat -> (1 + Nm <= N)%nat -> (2 <= M)%nat -> (1 + Ns <= M)%nat ->
    PSG N M K (IEllipsis :: tl) -> PSE Nm Ns K tl ->
    PSE N M K (IEllipsis :: tl).
  Proof.
    intros HN0 HN1 HM0 HM1 IHg IHt fm fs c T xs Hfm Hfs HK Hsc HV Hfr Hl HT.
    pose proof (ow_so_ty _ _ HT) as Hso.
    destruct (gfrag_ty_cases c Hfr) as [[d Hc]|[Hc|[(sz & u & Hc)|(ks & ts & Hc)]]]; rewrite <- Hso in Hc.
    3:{ destruct (as_list_total xs (list_values c xs sz u HV Hl ltac:(rewrite <- Hso; exact Hc))) as [ls Hls].
        rewrite (se_IEllipsis_list fs T xs tl None sz u ls Hc Hls). eapply IHg; eassumption || lia. }
    all: eapply ell_other; try eassumption; try lia; [eapply PSE_mono; [exact IHt|lia..]|eauto 6].
  Qed.

  Hypothesis HNs : (1 <= Ns)%nat.

  Lemma ellipsis_step (D : nat) :
    PSE Nm Ns (Z.of_nat D) tl -> PSG Nm Ns (Z.of_nat D) tl ->
    forall k, (k <= D)%nat ->
      PSG (5 * k + 5 + Nm) (2 * k + 1 + Ns) (Z.of_nat k) (IEllipsis :: tl).
  Proof.
    intros IHe IHg. induction k as [|k IHk]; intros Hk.
    - intros fm fs c T xs sz t ls _ _ HK _ _ _ _ _ Hs _.
      rewrite (tdepth_list' T sz t Hs) in HK. pose proof (tdepth_nonneg t). lia.
    - specialize (IHk ltac:(lia)).
      replace (Z.of_nat (S k)) with (Z.of_nat k + 1) by lia.
      assert (IHt_e : PSE Nm Ns (Z.of_nat k) tl) by (eapply PSE_mono; [exact IHe|lia..]).
      assert (IHt_g : PSG Nm Ns (Z.of_nat k + 1) tl) by (eapply PSG_mono; [exact IHg|lia..]).
      assert (IHke : PSE (5 * k + 5 + Nm) (2 * k + 1 + Ns) (Z.of_nat k) (IEllipsis :: tl)).
      { apply ell_PSE; try assumption; lia. }
      eapply (ell_PSG (Z.of_nat k) (5 * k + 5 + Nm) (2 * k + 1 + Ns)); try eassumption; lia.
  Qed.
  Lemma ellipsis_step_PSE (D : nat) :
    PSE Nm Ns (Z.of_nat D) tl -> PSG Nm Ns (Z.of_nat D) tl ->
    PSE (5 * D + 5 + Nm) (2 * D + 1 + Ns) (Z.of_nat D) (IEllipsis :: tl).
  Proof.
    intros IHe IHg. apply ell_PSE; try assumption; try lia. apply (ellipsis_step D); auto.
  Qed.
End Ellipsis.
