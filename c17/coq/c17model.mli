
val negb : bool -> bool

type nat =
| O
| S of nat

val fst : ('a1 * 'a2) -> 'a1

val snd : ('a1 * 'a2) -> 'a2

val length : 'a1 list -> nat

val app : 'a1 list -> 'a1 list -> 'a1 list

type comparison =
| Eq
| Lt
| Gt

val compOpp : comparison -> comparison

type uint =
| Nil
| D0 of uint
| D1 of uint
| D2 of uint
| D3 of uint
| D4 of uint
| D5 of uint
| D6 of uint
| D7 of uint
| D8 of uint
| D9 of uint

type signed_int =
| Pos of uint
| Neg of uint

val revapp : uint -> uint -> uint

val rev : uint -> uint

module Little :
 sig
  val double : uint -> uint

  val succ_double : uint -> uint
 end

val add : nat -> nat -> nat

type positive =
| XI of positive
| XO of positive
| XH

type n =
| N0
| Npos of positive

type z =
| Z0
| Zpos of positive
| Zneg of positive

val eqb : bool -> bool -> bool

module Nat :
 sig
  val eqb : nat -> nat -> bool
 end

module Pos :
 sig
  val succ : positive -> positive

  val add : positive -> positive -> positive

  val add_carry : positive -> positive -> positive

  val pred_double : positive -> positive

  val pred_N : positive -> n

  val mul : positive -> positive -> positive

  val compare_cont : comparison -> positive -> positive -> comparison

  val compare : positive -> positive -> comparison

  val eqb : positive -> positive -> bool

  val testbit : positive -> n -> bool

  val iter_op : ('a1 -> 'a1 -> 'a1) -> positive -> 'a1 -> 'a1

  val to_nat : positive -> nat

  val of_succ_nat : nat -> positive

  val to_little_uint : positive -> uint

  val to_uint : positive -> uint
 end

module N :
 sig
  val testbit : n -> n -> bool
 end

module Z :
 sig
  val double : z -> z

  val succ_double : z -> z

  val pred_double : z -> z

  val pos_sub : positive -> positive -> z

  val add : z -> z -> z

  val opp : z -> z

  val sub : z -> z -> z

  val mul : z -> z -> z

  val compare : z -> z -> comparison

  val leb : z -> z -> bool

  val ltb : z -> z -> bool

  val eqb : z -> z -> bool

  val to_nat : z -> nat

  val of_nat : nat -> z

  val to_int : z -> signed_int

  val pos_div_eucl : positive -> z -> z * z

  val div_eucl : z -> z -> z * z

  val div : z -> z -> z

  val modulo : z -> z -> z

  val odd : z -> bool

  val testbit : z -> z -> bool
 end

val tl : 'a1 list -> 'a1 list

val nth_error : 'a1 list -> nat -> 'a1 option

val removelast : 'a1 list -> 'a1 list

val concat : 'a1 list list -> 'a1 list

val map : ('a1 -> 'a2) -> 'a1 list -> 'a2 list

val flat_map : ('a1 -> 'a2 list) -> 'a1 list -> 'a2 list

val fold_left : ('a1 -> 'a2 -> 'a1) -> 'a2 list -> 'a1 -> 'a1

val fold_right : ('a2 -> 'a1 -> 'a1) -> 'a1 -> 'a2 list -> 'a1

val existsb : ('a1 -> bool) -> 'a1 list -> bool

val forallb : ('a1 -> bool) -> 'a1 list -> bool

val filter : ('a1 -> bool) -> 'a1 list -> 'a1 list

val find : ('a1 -> bool) -> 'a1 list -> 'a1 option

val firstn : nat -> 'a1 list -> 'a1 list

val skipn : nat -> 'a1 list -> 'a1 list

type err =
| EValue
| EOob
| EFuel

type 'a res =
| Ok of 'a
| Err of err

val bind : 'a1 res -> ('a1 -> 'a2 res) -> 'a2 res

val rmap : ('a1 -> 'a2) -> 'a1 res -> 'a2 res

val mapM : ('a1 -> 'a2 res) -> 'a1 list -> 'a2 list res

val zlen : 'a1 list -> z

val get : 'a1 list -> z -> 'a1 res

val take : z -> 'a1 list -> 'a1 list

val drop : z -> 'a1 list -> 'a1 list

val slice : 'a1 list -> z -> z -> 'a1 list res

val iota_nat : z -> nat -> z list

val iota : z -> z list

val range : z -> z -> z list

val zip : 'a1 list -> 'a2 list -> ('a1 * 'a2) list

val pairs : z list -> (z * z) list

val list_eqb : ('a1 -> 'a1 -> bool) -> 'a1 list -> 'a1 list -> bool

val chunks_nat : 'a1 list -> z -> nat -> 'a1 list list

type width =
| I32
| U32
| I64

type dtype =
| DBool
| DInt8
| DInt16
| DInt32
| DInt64
| DUInt8
| DUInt16
| DUInt32
| DUInt64
| DFloat32
| DFloat64

type datum =
| DZ of z
| DNaN
| DInf of bool

type name = z list

type akind =
| AString
| ABytestring
| AChar
| AByte
| ACategorical

type value =
| VNum of datum
| VBool of bool
| VStr of bool * z list
| VNone
| VList of value list
| VRec of (name * value) list
| VTup of value list

type content =
| Numpy of dtype * z list * datum list
| Empty
| ListOffset of width * z list * content
| ListA of width * z list * z list * content
| Regular of content * z * z
| Indexed of width * z list * content
| IndexedOption of width * z list * content
| ByteMasked of z list * bool * content
| BitMasked of z list * bool * bool * z * content
| Unmasked of content
| Union of width * z list * z list * content list
| Record of content list * name list option * z
| Par of akind option * name option * content

val prodZ : z list -> z

val clen : content -> z

val cut1 : 'a1 list -> (z * z) -> 'a1 list res

val cut : 'a1 list -> z list -> 'a1 list list res

val cut2 : 'a1 list -> z list -> z list -> 'a1 list list res

val chunks : 'a1 list -> z -> z -> 'a1 list list res

val bit_at : z list -> bool -> z -> bool res

val pick_opt : value list -> bool -> z -> value res

val nest : z list -> z -> value list -> value list res

val leaf : dtype -> datum -> value

val bytes_of : value -> z list res

val row : name list option -> value list list -> z -> value res

val to_list : content -> value list res

val datum_eqb : datum -> datum -> bool

val value_eqb : value -> value -> bool

val strip : content -> content

val optionlike : content -> bool

val unionlike : content -> bool

val pair_okb : z -> (z * z) -> bool

val is_chars : akind -> content -> bool

val list_content : content -> content option

val paramcheck : akind option -> content -> bool

val is_strk : akind option -> bool

val union_okb : z list -> (z * z) -> bool

val validb : akind option -> content -> bool

val valid_b : content -> bool

type ty =
| TNum of dtype
| TUnk
| TList of z option * bool option * ty
| TOpt of ty
| TRec of name list option * ty list
| TUnion of ty list

val numpy_ty : dtype -> z list -> ty

val strflag : akind option -> bool option

val type_of_p : akind option -> content -> ty

val type_of : content -> ty

val gather : 'a1 list -> z list -> 'a1 list res

val bytemask_of_bits : z list -> bool -> z -> z list res

val carry : content -> z list -> content res

val crange : content -> z -> z -> content res

type bytes = z list

val bytes_eqb : bytes -> bytes -> bool

val bytes_ltb : bytes -> bytes -> bool

val cstr : bytes -> bytes

val is_prefix : bytes -> bytes -> bool

type json =
| JNull
| JBool of bool
| JInt of z
| JDbl of bytes
| JStr of bytes
| JArr of json list
| JObj of (bytes * json) list

val jfind : bytes -> (bytes * json) list -> json option

val is_int32 : z -> bool

val uint_digits : uint -> bytes

val dec_of_Z : z -> bytes

val hexdigit : z -> z

val escape_char : z -> bytes

val quote : bytes -> bytes

val sep_concat : bytes -> bytes list -> bytes

val json_print : json -> bytes

val pset : bytes -> 'a1 -> (bytes * 'a1) list -> (bytes * 'a1) list

val perase : bytes -> (bytes * 'a1) list -> (bytes * 'a1) list

val pfind : bytes -> (bytes * 'a1) list -> 'a1 option

val psorted : (bytes * 'a1) list -> bool

val k_class : z list

val k_has_identifier : z list

val k_has_identities : z list

val k_parameters : z list

val k_form_key : z list

val k_primitive : z list

val k_format : z list

val k_itemsize : z list

val k_inner_shape : z list

val k_contents : z list

val k_content : z list

val k_offsets : z list

val k_starts : z list

val k_stops : z list

val k_size : z list

val k_index : z list

val k_mask : z list

val k_valid_when : z list

val k_lsb_order : z list

val k_tags : z list

val k_form : z list

val k_has_length : z list

val k_array : z list

val k_record : z list

val k_categorical : z list

val c_NumpyArray : z list

val c_RecordArray : z list

val c_ListOffsetArray : z list

val c_ListOffsetArray64 : z list

val c_ListOffsetArrayU32 : z list

val c_ListOffsetArray32 : z list

val c_ListArray : z list

val c_ListArray64 : z list

val c_ListArrayU32 : z list

val c_ListArray32 : z list

val c_RegularArray : z list

val c_IndexedOptionArray : z list

val c_IndexedOptionArray64 : z list

val c_IndexedOptionArray32 : z list

val c_IndexedArray : z list

val c_IndexedArray64 : z list

val c_IndexedArrayU32 : z list

val c_IndexedArray32 : z list

val c_ByteMaskedArray : z list

val c_BitMaskedArray : z list

val c_UnmaskedArray : z list

val c_UnionArray : z list

val c_UnionArray8_64 : z list

val c_UnionArray8_U32 : z list

val c_UnionArray8_32 : z list

val c_EmptyArray : z list

val c_VirtualArray : z list

val c_UnrecognizedListOffsetArray : z list

val c_UnrecognizedListArray : z list

val c_UnrecognizedIndexedArray : z list

val c_UnrecognizedIndexedOptionArray : z list

val c_UnrecognizedUnionArray : z list

val s_string : z list

val s_bytestring : z list

val s_char : z list

val s_byte : z list

val s_categorical : z list

type iform =
| Fi8
| Fu8
| Fi32
| Fu32
| Fi64

val iform_eqb : iform -> iform -> bool

val form2str : iform -> bytes

val str2form : bytes -> iform res

val iform_of_width : width -> iform

type fdtype =
| FD of dtype
| FFloat16
| FFloat128
| FComplex64
| FComplex128
| FComplex256
| FDatetime64
| FTimedelta64
| FNotPrimitive

val dtype_eqb : dtype -> dtype -> bool

val fdtype_eqb : fdtype -> fdtype -> bool

val n_bool : z list

val n_int8 : z list

val n_int16 : z list

val n_int32 : z list

val n_int64 : z list

val n_uint8 : z list

val n_uint16 : z list

val n_uint32 : z list

val n_uint64 : z list

val n_float16 : z list

val n_float32 : z list

val n_float64 : z list

val n_float128 : z list

val n_complex64 : z list

val n_complex128 : z list

val n_complex256 : z list

val n_datetime64 : z list

val n_timedelta64 : z list

val n_unknown : z list

val dtype_to_name : fdtype -> bytes

val name_to_dtype : bytes -> fdtype

val dtype_to_format : fdtype -> bytes

val dtype_to_itemsize : fdtype -> z

val signed_of_size : z -> fdtype

val unsigned_of_size : z -> fdtype

val format_to_dtype : bytes -> z -> fdtype

type params = (bytes * json) list

type fmeta = { m_hid : bool; m_params : params; m_key : bytes option }

val meta0 : fmeta

type form =
| FNumpy of fmeta * z list * z * bytes * fdtype
| FEmpty of fmeta
| FListOffset of fmeta * iform * form
| FList of fmeta * iform * iform * form
| FRegular of fmeta * form * z
| FIndexed of fmeta * iform * form
| FIndexedOption of fmeta * iform * form
| FByteMasked of fmeta * iform * form * bool
| FBitMasked of fmeta * iform * form * bool * bool
| FUnmasked of fmeta * form
| FUnion of fmeta * iform * iform * form list
| FRecord of fmeta * bytes list option * form list
| FVirtual of fmeta * form option * bool

val akind_name : akind -> bytes

val params_of : akind option -> name option -> params

val meta_of : akind option -> name option -> fmeta

val por : 'a1 option -> 'a1 option -> 'a1 option

val form_of_p : akind option -> name option -> content -> form

val form_of : content -> form

val kMaxInt64 : z

val param_is_str : params -> bytes -> bytes -> bool

val is_string_params : params -> bool

val mapM_id : 'a1 res list -> 'a1 list res

val depth_scan : z -> z res list -> z res

val all_regular : bool res list -> bool res

val f_purelist_depth : form -> z res

val minmax_fold : (z * z) list -> z * z

val f_minmax_depth : form -> (z * z) res

val branch_fold : (bool * z) list -> bool * z

val f_branch_depth : form -> (bool * z) res

val f_purelist_isregular : form -> bool res

val tuple_keys : nat -> bytes list

val keys_intersect : bytes list list -> bytes list

val f_keys : form -> bytes list res

val f_numfields : form -> z res

val is_string_kind : akind option -> bool

val c_purelist_depth : akind option -> content -> z

val c_minmax_depth : akind option -> content -> z * z

val c_branch_depth : akind option -> content -> bool * z

val c_purelist_isregular : content -> bool

val c_keys : content -> bytes list

val c_numfields : content -> z

val np_ok : content -> bool

val nonul : bytes -> bool

val meta_wf : fmeta -> bool

val width3 : iform -> bool

val form_wf : form -> bool

val j_identities : bool -> fmeta -> (bytes * json) list

val j_parameters : bool -> fmeta -> (bytes * json) list

val j_form_key : bool -> fmeta -> (bytes * json) list

val j_tail : bool -> fmeta -> (bytes * json) list

val is_plain_meta : fmeta -> bool

val form_tojson_part : bool -> bool -> form -> json

val form_tojson : bool -> form -> json

val jfind_map : (json -> 'a1) -> bytes -> (bytes * json) list -> 'a1 option

val get_hid : (bytes * json) list -> bool res

val get_params : (bytes * json) list -> params res

val get_form_key : (bytes * json) list -> bytes option res

val get_meta : (bytes * json) list -> fmeta res

val get_iform : iform option -> bytes -> (bytes * json) list -> iform res

val get_bool : bytes -> (bytes * json) list -> bool res

val from_primitive_name : bytes -> form res

val width_preset :
  bytes -> bytes -> bytes -> bytes -> bytes -> iform option option

val width_preset2 : bytes -> bytes -> bytes -> bytes -> iform option option

val req : 'a1 res option -> 'a1 res

val fromjson_obj : (json -> form res) -> (bytes * json) list -> form res

val form_fromjson : json -> form res

type rty =
| RNum of params * bytes * fdtype
| RUnk of params * bytes
| RList of params * bytes * rty
| RReg of params * bytes * z * rty
| ROpt of params * bytes * rty
| RRec of params * bytes * bytes list option * rty list
| RUnion of params * bytes * rty list

val rty_params : rty -> params

val rty_set_params : params -> rty -> rty

type typestrs = (bytes * bytes) list

val gettypestr : params -> typestrs -> bytes

val setparameter : bytes -> json -> params -> params

val categorical_fix : params -> params -> bool -> params

val type_of_form : typestrs -> form -> rty res

val strflag_params : params -> bool option

val erase : rty -> ty

val p_parameters_eq : z list

val p_categorical_open : z list

val p_var_star : z list

val p_lvar_star : z list

val p_star : z list

val p_option_open : z list

val p_union_open : z list

val p_struct_open : z list

val p_tuple_open : z list

val p_comma : z list

val p_colon : z list

val p_mid : z list

val p_close_comma : z list

val is_categorical : params -> bool

val parameters_empty : params -> bool

val wrap_categorical : params -> bytes -> bytes

val string_parameters : params -> bytes

val is_alpha_ : z -> bool

val is_alnum_ : z -> bool

val is_name : bytes -> bool

val datashape_keywords : bytes list

val record_name : params -> bytes option

val is_listlike : rty -> bool

val keyed : bytes list -> bytes list -> bytes list

val type_tostring : rty -> bytes

type item =
| INone
| IScalar of fdtype
| IRecord of rty
| IArray of rty

val item_types : typestrs -> form -> item list res

val strip_prefix : bytes -> bytes -> bytes option

val is_digit : z -> bool

val span : (z -> bool) -> bytes -> bytes * bytes

val z_of_digits : bytes -> z

val unhex : z -> z option

val unquote_body : nat -> bytes -> (bytes * bytes) res

val unquote : bytes -> (bytes * bytes) res

val w_option : z list

val w_union : z list

val w_var : z list

val p_string : z list

val p_bytes : z list

val p_char : z list

val p_byte : z list

val t_char : rty

val t_byte : rty

val t_string : rty

val t_bytes : rty

val primitive_names : fdtype list

val prim_of_name : bytes -> fdtype option

val reserved_words : bytes list

val parse_list :
  (bytes -> (rty * bytes) res) -> nat -> z -> bytes -> (rty list * bytes) res

val parse_items :
  (bytes -> (rty * bytes) res) -> nat -> z -> bytes -> (rty list * bytes) res

val parse_fields :
  (bytes -> (rty * bytes) res) -> nat -> z -> bytes -> ((bytes * rty)
  list * bytes) res

val parse_fielditems :
  (bytes -> (rty * bytes) res) -> nat -> z -> bytes -> ((bytes * rty)
  list * bytes) res

val opt_branch : (bytes -> (rty * bytes) res) -> bytes -> (rty * bytes) res

val brace_branch :
  (bytes -> (rty * bytes) res) -> nat -> bytes -> (rty * bytes) res

val paren_branch :
  (bytes -> (rty * bytes) res) -> nat -> bytes -> (rty * bytes) res

val num_branch : (bytes -> (rty * bytes) res) -> bytes -> (rty * bytes) res

val plain_word :
  (bytes -> (rty * bytes) res) -> bytes -> bytes -> (rty * bytes) res

val bracket_branch :
  (bytes -> (rty * bytes) res) -> nat -> bytes -> bytes -> (rty * bytes) res

val word_branch :
  (bytes -> (rty * bytes) res) -> nat -> bytes -> bytes -> (rty * bytes) res

val parse_ty : nat -> bytes -> (rty * bytes) res

val type_parse : bytes -> rty res

val key_ok : bytes -> bool

val hardcoded : rty -> bool

val printable : rty -> bool

val name_eqb : name -> name -> bool

val has_typeb : ty -> value -> bool

val leaf_depth_in : z -> z -> value -> bool

val minmax_ty : ty -> z * z
