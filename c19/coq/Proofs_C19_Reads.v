(* C19 — the read instruction of AwkwardForth (exec_read of Forth.v): typed little/big-endian reads of every fixed-width
   integer format, single and repeated, to the stack and directly to an output; read-beyond; negative / missing
   repetition count; varint / zigzag; the N-bit reader.  Proofs only; the model (Forth.v) is frozen. *)
From Coq Require Import ZArith Bool List Lia ZifyBool.
From AwkForth Require Import Forth Proofs_C19.
Import ListNotations.
Open Scope Z_scope.

(* ================================================================== 0. lists indexed by Z *)
(* l' is l with position i replaced by v (determines l' completely) *)
Definition updated {A} (l l' : list A) (i : Z) (v : A) : Prop :=
  zlen l' = zlen l /\ znth l' i = Some v /\ forall j, j <> i -> znth l' j = znth l j.

Lemma upd_nat_some : forall A (l : list A) n v x, nth_error l n = Some x -> exists l', upd_nat l n v = Some l'.
Proof.
  induction l as [|h t IH]; intros n v x H; destruct n; cbn in *; try discriminate.
  - eexists; reflexivity.
  - destruct (IH _ v _ H) as [l' E]. rewrite E. eexists; reflexivity.
Qed.

Lemma upd_nat_other : forall A (l : list A) n v l', upd_nat l n v = Some l' ->
  length l' = length l /\ forall k, k <> n -> nth_error l' k = nth_error l k.
Proof.
  induction l as [|h t IH]; intros n v l' H; destruct n; cbn in *; try discriminate.
  - inv H. split; [reflexivity|]. intros [|k] Hk; [congruence | reflexivity].
  - destruct (upd_nat t n v) eqn:E; [|discriminate]. inv H. destruct (IH _ _ _ E) as [Hl Ho]. split; [cbn; congruence|].
    intros [|k] Hk; [reflexivity | cbn; apply Ho; congruence].
Qed.

Lemma znth_zupd_some : forall A (l : list A) i v x, znth l i = Some x -> exists l', zupd l i v = Some l'.
Proof.
  intros A l i v x H. unfold znth, zupd in *. destruct (i <? 0); [discriminate|]. eapply upd_nat_some; eassumption.
Qed.

Lemma zupd_updated : forall A (l : list A) i v l', zupd l i v = Some l' -> updated l l' i v.
Proof.
  intros A l i v l' H. split; [|split].
  - unfold zupd in H. destruct (i <? 0); [discriminate|]. apply upd_nat_other in H. destruct H as [H _]. unfold zlen. lia.
  - eapply znth_zupd_same; eassumption.
  - intros j Hj. unfold zupd in H. unfold znth. destruct (i <? 0) eqn:Ei; [discriminate|].
    destruct (j <? 0) eqn:Ej; [reflexivity|]. apply upd_nat_other in H. destruct H as [_ H]. apply H. lia.
Qed.

Lemma updated_unique : forall A (l l1 l2 : list A) i v, updated l l1 i v -> updated l l2 i v -> l1 = l2.
Proof.
  intros A l l1 l2 i v (L1 & S1 & O1) (L2 & S2 & O2).
  assert (E : forall k, nth_error l1 k = nth_error l2 k).
  { intros k. destruct (Z.eq_dec (Z.of_nat k) i) as [Hk|Hk].
    - unfold znth in S1, S2. subst i. destruct (Z.of_nat k <? 0) eqn:E0; [lia|]. rewrite Nat2Z.id in S1, S2. congruence.
    - specialize (O1 _ Hk). specialize (O2 _ Hk). unfold znth in O1, O2.
      destruct (Z.of_nat k <? 0) eqn:E0; [lia|]. rewrite Nat2Z.id in O1, O2. congruence. }
  clear -E. revert l2 E. induction l1 as [|a t IH]; intros [|b t2] E; try reflexivity.
  - specialize (E O). discriminate.
  - specialize (E O). discriminate.
  - pose proof (E O) as E0. cbn in E0. inv E0. f_equal. apply IH. intros k. apply (E (S k)).
Qed.

(* the slice of `len` bytes at offset `a` *)
Definition slice (data : list Z) (a len : Z) : list Z := firstn (Z.to_nat len) (skipn (Z.to_nat a) data).

(* the n consecutive groups of `size` bytes starting at offset pos: group k = bytes [pos + k*size, pos + (k+1)*size) *)
Definition groups (data : list Z) (pos size n : Z) : list (list Z) :=
  map (fun k : nat => slice data (pos + Z.of_nat k * size) size) (seq 0 (Z.to_nat n)).

Lemma groups_length : forall data pos size n, 0 <= n -> zlen (groups data pos size n) = n.
Proof. intros. unfold groups, zlen. rewrite map_length, seq_length. lia. Qed.

Lemma groups_nth : forall data pos size n k, 0 <= k < n ->
  znth (groups data pos size n) k = Some (slice data (pos + k * size) size).
Proof.
  intros data pos size n k Hk. unfold znth, groups. destruct (k <? 0) eqn:E; [lia|].
  erewrite map_nth_error.
  2:{ rewrite nth_error_nth' with (d := O) by (rewrite seq_length; lia). rewrite seq_nth by lia. reflexivity. }
  cbn. rewrite Z2Nat.id by lia. reflexivity.
Qed.

Lemma chunks_spec : forall n fuel size pos (data : list Z), (0 < size)%nat -> (n <= fuel)%nat ->
  (pos + n * size <= length data)%nat ->
  chunks fuel size (firstn (n * size) (skipn pos data)) =
  map (fun k => firstn size (skipn (pos + k * size) data)) (seq 0 n).
Proof.
  induction n as [|n IH]; intros fuel size pos data Hs Hf Hl.
  - cbn. destruct fuel; reflexivity.
  - destruct fuel as [|f]; [lia|]. cbn [chunks].
    destruct (firstn (S n * size) (skipn pos data)) eqn:E.
    + apply (f_equal (@length Z)) in E. rewrite firstn_length, skipn_length in E. cbn [length] in E. nia.
    + rewrite <- E. clear E. cbn [seq map]. f_equal.
      * rewrite firstn_firstn. replace (Init.Nat.min size (S n * size)) with size by nia. f_equal. f_equal. lia.
      * rewrite skipn_firstn_comm. replace (S n * size - size)%nat with (n * size)%nat by nia.
        rewrite skipn_add. rewrite IH by nia. rewrite <- seq_shift, map_map. apply map_ext. intros k.
        f_equal. f_equal. nia.
Qed.

(* the items that the fixed-width reader decodes = the groups of the specification *)
Lemma chunks_groups : forall data pos size n, 0 < size -> 0 <= pos -> 0 <= n -> pos + n * size <= zlen data ->
  let bs := firstn (Z.to_nat (n * size)) (skipn (Z.to_nat pos) data) in
  chunks (length bs) (Z.to_nat size) bs = groups data pos size n.
Proof.
  intros data pos size n Hs Hp Hn Hl bs. unfold zlen in Hl.
  assert (Hlen : length bs = (Z.to_nat n * Z.to_nat size)%nat).
  { subst bs. rewrite firstn_length, skipn_length. nia. }
  subst bs. replace (Z.to_nat (n * size)) with (Z.to_nat n * Z.to_nat size)%nat in * by nia.
  rewrite chunks_spec by nia. unfold groups, slice. apply map_ext. intros k.
  f_equal. f_equal. nia.
Qed.

(* ================================================================== 1. the documented decoding of a group of bytes *)
Definition byte_ok (b : Z) : Prop := 0 <= b <= 255.
Definition bytes_ok (bs : list Z) : Prop := Forall byte_ok bs.

(* little-endian: sum_k byte_k * 256^k (le_sum 0 bs) *)
Fixpoint le_sum (k : Z) (bs : list Z) : Z := match bs with [] => 0 | b :: t => b * 256 ^ k + le_sum (k + 1) t end.
(* big-endian: the first byte is the most significant: sum_k byte_k * 256^(size-1-k) *)
Fixpoint be_sum (bs : list Z) : Z := match bs with [] => 0 | b :: t => b * 256 ^ zlen t + be_sum t end.
(* two's complement reinterpretation of an unsigned number of w bits *)
Definition twos (w u : Z) : Z := if u <? 2 ^ (w - 1) then u else u - 2 ^ w.

Definition doc_decode (size : Z) (signed bigendian : bool) (bs : list Z) : Z :=
  let u := if bigendian then be_sum bs else le_sum 0 bs in
  if signed then twos (8 * size) u else u.

Lemma le_sum_value : forall bs k, 0 <= k -> le_sum k bs = 256 ^ k * le_value bs.
Proof.
  induction bs as [|b t IH]; intros k Hk; cbn [le_sum le_value]; [lia|].
  rewrite IH by lia. replace (k + 1) with (Z.succ k) by lia. rewrite Z.pow_succ_r by lia. ring.
Qed.

Lemma le_value_app : forall a b, le_value (a ++ b) = le_value a + 256 ^ zlen a * le_value b.
Proof.
  induction a as [|x a IH]; intros b; cbn [app le_value].
  - unfold zlen. cbn [length Z.of_nat]. rewrite Z.pow_0_r. lia.
  - rewrite IH. unfold zlen. cbn [length]. rewrite Nat2Z.inj_succ, Z.pow_succ_r by lia. ring.
Qed.

Lemma be_sum_value : forall bs, be_sum bs = le_value (rev bs).
Proof.
  induction bs as [|b t IH]; cbn [be_sum rev]; [reflexivity|].
  rewrite le_value_app, IH. cbn [le_value]. unfold zlen. rewrite rev_length. ring.
Qed.

Lemma le_value_range : forall bs, bytes_ok bs -> 0 <= le_value bs < 256 ^ zlen bs.
Proof.
  induction 1 as [|b t Hb Ht IH]; cbn [le_value].
  - unfold zlen. cbn. lia.
  - unfold zlen in *. cbn [length]. rewrite Nat2Z.inj_succ, Z.pow_succ_r by lia. unfold byte_ok in Hb. lia.
Qed.

Lemma twos_wrap : forall w u, 0 < w -> 0 <= u < 2 ^ w -> wrap w u = twos w u.
Proof.
  intros w u Hw Hu. symmetry. apply wrap_unique; [assumption| |].
  - assert (H2 : 2 ^ w = 2 * 2 ^ (w - 1)).
    { replace w with (Z.succ (w - 1)) at 1 by lia. rewrite Z.pow_succ_r by lia. reflexivity. }
    unfold twos. destruct (u <? 2 ^ (w - 1)) eqn:E; lia.
  - unfold twos. destruct (u <? 2 ^ (w - 1)); [exists 0 | exists (-1)]; lia.
Qed.

(* the model's `decode` is the documented decoding *)
Theorem decode_spec_proof : forall size signed bigendian bs, 0 < size -> zlen bs = size -> bytes_ok bs ->
  decode size signed bigendian bs = doc_decode size signed bigendian bs.
Proof.
  intros size signed be bs Hs Hl Hb. unfold decode, doc_decode.
  assert (Hu : (if be then be_sum bs else le_sum 0 bs) = le_value (if be then rev bs else bs)).
  { destruct be; [apply be_sum_value | rewrite le_sum_value by lia; rewrite Z.pow_0_r; lia]. }
  rewrite Hu. destruct signed; [|reflexivity].
  apply twos_wrap; [lia|].
  assert (Hr : bytes_ok (if be then rev bs else bs)) by (destruct be; [apply Forall_rev|]; assumption).
  pose proof (le_value_range _ Hr) as R.
  replace (zlen (if be then rev bs else bs)) with size in R by (destruct be; unfold zlen in *; rewrite ?rev_length; lia).
  replace (2 ^ (8 * size)) with (256 ^ size) by (rewrite Z.pow_mul_r by lia; reflexivity). exact R.
Qed.

Lemma slice_length : forall data a len, 0 <= a -> 0 <= len -> a + len <= zlen data -> zlen (slice data a len) = len.
Proof. intros data a len Ha Hl H. unfold slice, zlen in *. rewrite firstn_length, skipn_length. lia. Qed.

Lemma Forall_firstn' : forall A (P : A -> Prop) n l, Forall P l -> Forall P (firstn n l).
Proof. induction n; intros l H; cbn; [constructor|]. destruct H; constructor; auto. Qed.
Lemma Forall_skipn' : forall A (P : A -> Prop) n l, Forall P l -> Forall P (skipn n l).
Proof. induction n; intros l H; cbn; [assumption|]. destruct H; [constructor | auto]. Qed.

Lemma slice_bytes_ok : forall data a len, bytes_ok data -> bytes_ok (slice data a len).
Proof. intros. unfold slice, bytes_ok. apply Forall_firstn', Forall_skipn'. assumption. Qed.

(* ================================================================== 2. the pieces of the read instruction *)
(* the bytecode of a read word: ~(format + flags) *)
Definition read_bc (fmt : Z) (be rep dir : bool) : Z :=
  - (fmt + (if be then READ_BIGENDIAN else 0) + (if rep then READ_REPEATED else 0) + (if dir then READ_DIRECT else 0)) - 1.

Definition is_format (fmt : Z) : Prop :=
  In fmt [READ_BOOL; READ_INT8; READ_INT16; READ_INT32; READ_INT64; READ_INTP; READ_UINT8; READ_UINT16; READ_UINT32;
          READ_UINT64; READ_UINTP; READ_FLOAT32; READ_FLOAT64; READ_VARINT; READ_ZIGZAG; READ_NBIT].

Lemma flags_ok : forall fmt be rep dir, is_format fmt ->
  (Z.land (- read_bc fmt be rep dir - 1) READ_BIGENDIAN =? 0) = negb be /\
  (Z.land (- read_bc fmt be rep dir - 1) READ_REPEATED =? 0) = negb rep /\
  (Z.land (- read_bc fmt be rep dir - 1) READ_DIRECT =? 0) = negb dir /\
  Z.land (- read_bc fmt be rep dir - 1) READ_MASK = fmt.
Proof.
  intros fmt be rep dir H. unfold is_format in H. cbn [In] in H.
  repeat (destruct H as [H|H]; [subst fmt; destruct be, rep, dir; vm_compute; auto|]). contradiction.
Qed.

Lemma fixed_is_format : forall fmt size signed, fixed_format fmt = Some (size, signed) ->
  is_format fmt /\ (fmt =? READ_VARINT) = false /\ (fmt =? READ_ZIGZAG) = false /\ (fmt =? READ_NBIT) = false /\
  1 <= size <= 8.
Proof.
  intros fmt size signed H. unfold fixed_format in H.
  repeat match type of H with
         | (if ?c then _ else _) = _ =>
           let E := fresh "E" in destruct c eqn:E;
           [apply Z.eqb_eq in E; subst fmt; inv H; unfold is_format; cbn [In]; vm_compute; intuition congruence|]
         end.
  discriminate.
Qed.

Definition pop_count (rep : bool) (m : machine) : option (Z * list Z) :=
  if rep then match m_stack m with [] => None | n :: s => Some (n, s) end else Some (1, m_stack m).

Lemma fetch_at : forall p m which ip fr seg a,
  m_frames m = (which, ip) :: fr -> znth (p_segs p) which = Some seg -> znth seg ip = Some a ->
  fetch p m = Ok (a, set_frames m ((which, ip + 1) :: fr)).
Proof. intros p m which ip fr seg a H1 H2 H3. unfold fetch. rewrite H1, H2, H3. reflexivity. Qed.

Lemma input_read_ok : forall e m inp data pos nb,
  znth (e_inputs e) inp = Some data -> znth (m_inpos m) inp = Some pos -> 0 <= nb < 2 ^ 63 -> pos + nb <= zlen data ->
  exists ip', zupd (m_inpos m) inp (pos + nb) = Some ip' /\
    input_read e m inp nb = Ok (Some (firstn (Z.to_nat nb) (skipn (Z.to_nat pos) data)), set_inpos m ip').
Proof.
  intros e m inp data pos nb H1 H2 Hn Hl. destruct (znth_zupd_some _ _ _ (pos + nb) _ H2) as [ip' E].
  exists ip'. split; [assumption|]. unfold input_read. rewrite H1, H2, E.
  replace ((nb <? 0) || (2 ^ 63 <=? nb)) with false by lia.
  replace (zlen data <? pos + nb) with false by lia. reflexivity.
Qed.

Lemma input_read_beyond : forall e m inp data pos nb,
  znth (e_inputs e) inp = Some data -> znth (m_inpos m) inp = Some pos -> 0 <= nb < 2 ^ 63 -> zlen data < pos + nb ->
  input_read e m inp nb = Ok (None, m).
Proof.
  intros e m inp data pos nb H1 H2 Hn Hl. unfold input_read. rewrite H1, H2.
  replace ((nb <? 0) || (2 ^ 63 <=? nb)) with false by lia.
  replace (zlen data <? pos + nb) with true by lia. reflexivity.
Qed.

Lemma input_read_count_fault : forall e m inp data pos nb,
  znth (e_inputs e) inp = Some data -> znth (m_inpos m) inp = Some pos -> 2 ^ 63 <= nb ->
  input_read e m inp nb = Fault F_count.
Proof.
  intros e m inp data pos nb H1 H2 Hn. unfold input_read. rewrite H1, H2.
  replace ((nb <? 0) || (2 ^ 63 <=? nb)) with true by lia. reflexivity.
Qed.

Lemma out_write_ok : forall m o b vs, znth (m_outs m) o = Some b ->
  exists os, @zupd outbuf (m_outs m) o (vs ++ b) = Some os /\ out_write m o vs = Ok (set_outs m os).
Proof.
  intros m o b vs H. destruct (znth_zupd_some outbuf _ _ (vs ++ b) _ H) as [os E]. exists os. split; [assumption|].
  unfold out_write, out_apply. rewrite H. cbv beta iota delta [buf_apply]. rewrite E. reflexivity.
Qed.

(* push_items, completely: everything is pushed when there is room; otherwise exactly `room` items are pushed and the
   machine stops with stack_overflow *)
Lemma push_items_spec : forall p vs m, zlen (m_stack m) <= p_stack_max p ->
  push_items p m vs =
  if zlen vs <=? p_stack_max p - zlen (m_stack m) then continue (set_stack m (rev vs ++ m_stack m))
  else stop (set_stack m (rev (firstn (Z.to_nat (p_stack_max p - zlen (m_stack m))) vs) ++ m_stack m)) E_overflow.
Proof.
  induction vs as [|v t IH]; intros m Hm.
  - cbn [push_items rev app]. unfold zlen at 1. cbn [length Z.of_nat].
    replace (0 <=? p_stack_max p - zlen (m_stack m)) with true by lia. destruct m; reflexivity.
  - cbn [push_items]. unfold can_push. destruct (zlen (m_stack m) =? p_stack_max p) eqn:E; cbn [negb].
    + replace (p_stack_max p - zlen (m_stack m)) with 0 by lia. unfold zlen at 1. cbn [length].
      replace (Z.of_nat (S (length t)) <=? 0) with false by lia. cbn. destruct m; reflexivity.
    + rewrite IH by (cbn [m_stack set_stack]; unfold zlen in *; cbn [length]; lia).
      cbn [m_stack set_stack]. unfold zlen in *. cbn [length].
      replace (Z.of_nat (length t) <=? p_stack_max p - Z.of_nat (S (length (m_stack m))))
        with (Z.of_nat (S (length t)) <=? p_stack_max p - Z.of_nat (length (m_stack m))) by lia.
      replace (Z.to_nat (p_stack_max p - Z.of_nat (length (m_stack m))))
        with (S (Z.to_nat (p_stack_max p - Z.of_nat (S (length (m_stack m)))))) by lia.
      cbn [firstn rev]. rewrite <- !app_assoc. reflexivity.
Qed.

(* ================================================================== 3. fixed-width reads *)
(* the state after a read: m0 with a new stack, input positions, outputs, top frame and error code *)
Definition after (m0 : machine) (stack inpos : list Z) (outs : list outbuf) (frames : list (Z * Z)) (err : Z) : machine :=
  mkM stack (m_vars m0) inpos outs frames (m_dos m0) (m_targets m0) (m_ready m0) err.

(* a bool item copied into a bool output keeps its byte; everything else is converted with (OUT)value *)
Definition out_conv (fmt : Z) (d : dtype) (v : Z) : Z :=
  match d with DBool => if fmt =? READ_BOOL then v else cast_out d v | _ => cast_out d v end.

Section Reads.
  Variables (p : prog) (e : env) (m0 : machine) (which ip : Z) (fr : list (Z * Z)) (seg : list Z) (inp : Z).
  Hypothesis Hframes : m_frames m0 = (which, ip) :: fr.
  Hypothesis Hseg : znth (p_segs p) which = Some seg.
  Hypothesis Hinp : znth seg ip = Some inp.

  Let F1 := (which, ip + 1) :: fr.

  (* ---- the repetition count *)
  Lemma read_underflow_proof : forall bc,
    Z.land (- bc - 1) READ_REPEATED <> 0 -> m_stack m0 = [] ->
    exec_read p e m0 bc = Ok (Return, after m0 [] (m_inpos m0) (m_outs m0) F1 E_underflow).
  Proof.
    intros bc Hrep Hs. unfold exec_read. cbv zeta. rewrite (fetch_at _ _ _ _ _ _ _ Hframes Hseg Hinp).
    replace (Z.land (- bc - 1) READ_REPEATED =? 0) with false by lia. cbn [negb].
    cbn [m_stack set_frames]. rewrite Hs. unfold stop, set_err, after, F1. cbn. rewrite Hs. reflexivity.
  Qed.

  Lemma read_negative_count_proof : forall bc n s,
    Z.land (- bc - 1) READ_REPEATED <> 0 -> m_stack m0 = n :: s -> n < 0 ->
    exec_read p e m0 bc = Ok (Return, after m0 s (m_inpos m0) (m_outs m0) F1 E_read_beyond).
  Proof.
    intros bc n s Hrep Hs Hn. unfold exec_read. cbv zeta. rewrite (fetch_at _ _ _ _ _ _ _ Hframes Hseg Hinp).
    replace (Z.land (- bc - 1) READ_REPEATED =? 0) with false by lia. cbn [negb].
    cbn [m_stack set_frames]. rewrite Hs. replace (n <? 0) with true by lia. reflexivity.
  Qed.

  (* ---- common prefix for a format of the table and a non-negative count *)
  Variables (fmt : Z) (be rep : bool) (n : Z) (s : list Z).
  Hypothesis Hfmt : is_format fmt.
  Hypothesis Hpop : pop_count rep m0 = Some (n, s).
  Hypothesis Hn : 0 <= n.

  Let m2 := after m0 s (m_inpos m0) (m_outs m0) F1 (m_err m0).

  Lemma read_prefix : forall dir,
    exec_read p e m0 (read_bc fmt be rep dir) =
    match (if fmt =? READ_NBIT then fetch p m2 else Ok (0, m2)) with
    | Ok (bw, m3) =>
      match (if dir then match fetch p m3 with Ok (o, m4) => Ok (Some o, m4) | Fault k => Fault k | OutOfFuel => OutOfFuel end
             else Ok (None, m3)) with
      | Ok (direct, m4) =>
          if (fmt =? READ_VARINT) || (fmt =? READ_ZIGZAG) then
            read_varints (fmt =? READ_ZIGZAG) p e (Z.to_nat (Z.min (Z.max n 0) (remaining_bytes e m4 inp + 1))) m4 inp direct
          else if fmt =? READ_NBIT then
            if (bw <? 1) || (31 <? bw) then Fault F_nbit
            else if n =? 0 then continue m4
            else
              match input_read e m4 inp 1 with
              | Ok (Some [b], m5) =>
                read_nbits (Z.to_nat (32 * (Z.max 0 (remaining_bytes e m5 inp) + 2))) p e m5 inp direct be
                           bw (2 ^ bw - 1) 8 0 n (if be then bitswap b else b)
              | Ok (Some _, _) => Fault F_internal
              | Ok (None, m5) => stop m5 E_read_beyond
              | Fault k => Fault k
              | OutOfFuel => OutOfFuel
              end
          else
            match fixed_format fmt with
            | None => Fault F_internal
            | Some (size, signed) =>
              match input_read e m4 inp (n * size) with
              | Ok (None, m5) => stop m5 E_read_beyond
              | Ok (Some bs, m5) =>
                let items := chunks (length bs) (Z.to_nat size) bs in
                match direct with
                | Some o =>
                  match out_dtype p o with
                  | None => Fault F_internal
                  | Some d =>
                    match out_write m5 o (rev (map (fun it => out_conv fmt d (decode size signed be it)) items)) with
                    | Ok m6 => continue m6 | _ => Fault F_internal end
                  end
                | None => push_items p m5 (map (fun it => wrap (p_w p) (decode size signed be it)) items)
                end
              | Fault k => Fault k
              | OutOfFuel => OutOfFuel
              end
            end
      | Fault k => Fault k
      | OutOfFuel => OutOfFuel
      end
    | Fault k => Fault k
    | OutOfFuel => OutOfFuel
    end.
  Proof.
    intros dir. unfold exec_read. cbv zeta.
    destruct (flags_ok fmt be rep dir Hfmt) as (G1 & G2 & G3 & G4). rewrite G1, G2, G3, G4, !negb_involutive.
    rewrite (fetch_at _ _ _ _ _ _ _ Hframes Hseg Hinp).
    assert (Hm2 : (if rep then match m_stack (set_frames m0 F1) with
                               | [] => Ok (None, set_frames m0 F1)
                               | n0 :: s0 => Ok (Some n0, set_stack (set_frames m0 F1) s0)
                               end
                   else Ok (Some 1, set_frames m0 F1)) = Ok (Some n, m2)).
    { unfold pop_count in Hpop. destruct rep.
      - cbn [m_stack set_frames]. destruct (m_stack m0); inv Hpop. reflexivity.
      - inv Hpop. reflexivity. }
    fold F1. rewrite Hm2. replace (n <? 0) with false by lia.
    reflexivity.
  Qed.

  (* ---- fixed-width formats *)
  Variables (size : Z) (signed : bool) (data : list Z) (pos : Z).
  Hypothesis Hfix : fixed_format fmt = Some (size, signed).
  Hypothesis Hdata : znth (e_inputs e) inp = Some data.
  Hypothesis Hpos : znth (m_inpos m0) inp = Some pos.
  Hypothesis Hpos0 : 0 <= pos.

  Lemma groups_decode : forall (f : Z -> Z), bytes_ok data -> pos + n * size <= zlen data ->
    map (fun it => f (decode size signed be it)) (groups data pos size n) =
    map (fun it => f (doc_decode size signed be it)) (groups data pos size n).
  Proof.
    intros f Hb Hl. destruct (fixed_is_format _ _ _ Hfix) as (_ & _ & _ & _ & Hsz).
    apply map_ext_in. intros g Hg. unfold groups in Hg. apply in_map_iff in Hg. destruct Hg as (k & Hk & Hin).
    apply in_seq in Hin. subst g. f_equal. apply decode_spec_proof; [lia| |apply slice_bytes_ok; assumption].
    apply slice_length; nia.
  Qed.

  Lemma read_fixed_stack_sec : bytes_ok data -> n * size < 2 ^ 63 -> pos + n * size <= zlen data ->
    zlen s <= p_stack_max p ->
    exists inpos', updated (m_inpos m0) inpos' inp (pos + n * size) /\
      let vals := map (fun g => wrap (p_w p) (doc_decode size signed be g)) (groups data pos size n) in
      let room := p_stack_max p - zlen s in
      exec_read p e m0 (read_bc fmt be rep false) =
        if n <=? room then Ok (Continue, after m0 (rev vals ++ s) inpos' (m_outs m0) F1 (m_err m0))
        else Ok (Return, after m0 (rev (firstn (Z.to_nat room) vals) ++ s) inpos' (m_outs m0) F1 E_overflow).
  Proof.
    intros Hb Hc Hl Hroom. destruct (fixed_is_format _ _ _ Hfix) as (_ & E1 & E2 & E3 & Hsz).
    rewrite read_prefix, E1, E2, E3, Hfix. cbn [orb].
    destruct (input_read_ok e m2 inp data pos (n * size) Hdata Hpos ltac:(nia) Hl) as (inpos' & Hup & Hrd).
    exists inpos'. split; [apply zupd_updated; exact Hup|]. cbv zeta. rewrite Hrd.
    pose proof (chunks_groups data pos size n ltac:(lia) Hpos0 Hn Hl) as Hch. cbv zeta in Hch. rewrite Hch.
    rewrite groups_decode by assumption.
    rewrite push_items_spec by (cbn; assumption).
    replace (zlen (map (fun it => wrap (p_w p) (doc_decode size signed be it)) (groups data pos size n))) with n.
    2:{ unfold zlen. rewrite map_length. fold (zlen (groups data pos size n)). rewrite groups_length; lia. }
    reflexivity.
  Qed.

  Lemma read_fixed_direct_sec : forall o d b, znth seg (ip + 1) = Some o -> out_dtype p o = Some d ->
    znth (m_outs m0) o = Some b ->
    bytes_ok data -> n * size < 2 ^ 63 -> pos + n * size <= zlen data ->
    exists inpos' outs', updated (m_inpos m0) inpos' inp (pos + n * size) /\
      updated (m_outs m0) outs' o
              (rev (map (fun g => out_conv fmt d (doc_decode size signed be g)) (groups data pos size n)) ++ b) /\
      exec_read p e m0 (read_bc fmt be rep true) = Ok (Continue, after m0 s inpos' outs' ((which, ip + 2) :: fr) (m_err m0)).
  Proof.
    intros o d b Ho Hd Hob Hb Hc Hl. destruct (fixed_is_format _ _ _ Hfix) as (_ & E1 & E2 & E3 & Hsz).
    rewrite read_prefix, E1, E2, E3, Hfix. cbn [orb].
    rewrite (fetch_at p m2 which (ip + 1) fr seg o eq_refl Hseg Ho).
    destruct (input_read_ok e (set_frames m2 ((which, ip + 1 + 1) :: fr)) inp data pos (n * size) Hdata Hpos ltac:(nia) Hl)
      as (inpos' & Hup & Hrd).
    rewrite Hrd, Hd. cbv zeta.
    pose proof (chunks_groups data pos size n ltac:(lia) Hpos0 Hn Hl) as Hch. cbv zeta in Hch. rewrite Hch.
    rewrite groups_decode by assumption.
    destruct (out_write_ok (set_inpos (set_frames m2 ((which, ip + 1 + 1) :: fr)) inpos') o b
                (rev (map (fun it => out_conv fmt d (doc_decode size signed be it)) (groups data pos size n))) Hob)
      as (outs' & Hup2 & Hw).
    exists inpos', outs'. split; [apply zupd_updated; exact Hup|]. split; [apply zupd_updated; exact Hup2|].
    rewrite Hw. replace (ip + 2) with (ip + 1 + 1) by lia. reflexivity.
  Qed.

  (* read beyond the end of the input: nothing is consumed, nothing is written; the repetition count stays popped *)
  Lemma read_fixed_beyond_sec : forall dir o, (dir = true -> znth seg (ip + 1) = Some o) ->
    n * size < 2 ^ 63 -> zlen data < pos + n * size ->
    exec_read p e m0 (read_bc fmt be rep dir) =
    Ok (Return, after m0 s (m_inpos m0) (m_outs m0) ((which, ip + (if dir then 2 else 1)) :: fr) E_read_beyond).
  Proof.
    intros dir o Ho Hc Hl. destruct (fixed_is_format _ _ _ Hfix) as (_ & E1 & E2 & E3 & Hsz).
    rewrite read_prefix, E1, E2, E3, Hfix. cbn [orb]. destruct dir.
    - rewrite (fetch_at p m2 which (ip + 1) fr seg o eq_refl Hseg (Ho eq_refl)).
      rewrite (input_read_beyond e (set_frames m2 ((which, ip + 1 + 1) :: fr)) inp data pos (n * size) Hdata Hpos ltac:(nia) Hl).
      replace (ip + 2) with (ip + 1 + 1) by lia. reflexivity.
    - rewrite (input_read_beyond e m2 inp data pos (n * size) Hdata Hpos ltac:(nia) Hl). reflexivity.
  Qed.

  (* a byte count of 2^63 or more overflows int64 in the C++ (undefined behaviour): the model reports the fault *)
  Lemma read_fixed_count_fault_sec : forall dir o, (dir = true -> znth seg (ip + 1) = Some o) ->
    2 ^ 63 <= n * size -> exec_read p e m0 (read_bc fmt be rep dir) = Fault F_count.
  Proof.
    intros dir o Ho Hc. destruct (fixed_is_format _ _ _ Hfix) as (_ & E1 & E2 & E3 & Hsz).
    rewrite read_prefix, E1, E2, E3, Hfix. cbn [orb]. destruct dir.
    - rewrite (fetch_at p m2 which (ip + 1) fr seg o eq_refl Hseg (Ho eq_refl)).
      rewrite (input_read_count_fault e (set_frames m2 ((which, ip + 1 + 1) :: fr)) inp data pos (n * size) Hdata Hpos Hc).
      reflexivity.
    - rewrite (input_read_count_fault e m2 inp data pos (n * size) Hdata Hpos Hc). reflexivity.
  Qed.
End Reads.

(* ---- the published forms (the format is any row of the table `fixed_format`) *)
Theorem read_fixed_to_stack_proof :
  forall p e m0 which ip fr seg inp fmt size signed be rep n s data pos,
  m_frames m0 = (which, ip) :: fr -> znth (p_segs p) which = Some seg -> znth seg ip = Some inp ->
  fixed_format fmt = Some (size, signed) -> pop_count rep m0 = Some (n, s) -> 0 <= n ->
  znth (e_inputs e) inp = Some data -> znth (m_inpos m0) inp = Some pos -> 0 <= pos -> bytes_ok data ->
  n * size < 2 ^ 63 -> pos + n * size <= zlen data -> zlen s <= p_stack_max p ->
  exists inpos', updated (m_inpos m0) inpos' inp (pos + n * size) /\
    let vals := map (fun g => wrap (p_w p) (doc_decode size signed be g)) (groups data pos size n) in
    let room := p_stack_max p - zlen s in
    exec_read p e m0 (read_bc fmt be rep false) =
      if n <=? room then Ok (Continue, after m0 (rev vals ++ s) inpos' (m_outs m0) ((which, ip + 1) :: fr) (m_err m0))
      else Ok (Return, after m0 (rev (firstn (Z.to_nat room) vals) ++ s) inpos' (m_outs m0) ((which, ip + 1) :: fr) E_overflow).
Proof.
  intros. eapply read_fixed_stack_sec; try eassumption. eapply fixed_is_format; eassumption.
Qed.

Theorem read_fixed_direct_proof :
  forall p e m0 which ip fr seg inp fmt size signed be rep n s data pos o d b,
  m_frames m0 = (which, ip) :: fr -> znth (p_segs p) which = Some seg -> znth seg ip = Some inp ->
  fixed_format fmt = Some (size, signed) -> pop_count rep m0 = Some (n, s) -> 0 <= n ->
  znth (e_inputs e) inp = Some data -> znth (m_inpos m0) inp = Some pos -> 0 <= pos -> bytes_ok data ->
  znth seg (ip + 1) = Some o -> out_dtype p o = Some d -> znth (m_outs m0) o = Some b ->
  n * size < 2 ^ 63 -> pos + n * size <= zlen data ->
  exists inpos' outs', updated (m_inpos m0) inpos' inp (pos + n * size) /\
    updated (m_outs m0) outs' o
            (rev (map (fun g => out_conv fmt d (doc_decode size signed be g)) (groups data pos size n)) ++ b) /\
    exec_read p e m0 (read_bc fmt be rep true) = Ok (Continue, after m0 s inpos' outs' ((which, ip + 2) :: fr) (m_err m0)).
Proof.
  intros. eapply read_fixed_direct_sec; try eassumption. eapply fixed_is_format; eassumption.
Qed.

Theorem read_fixed_beyond_proof :
  forall p e m0 which ip fr seg inp fmt size signed be rep n s data pos dir o,
  m_frames m0 = (which, ip) :: fr -> znth (p_segs p) which = Some seg -> znth seg ip = Some inp ->
  fixed_format fmt = Some (size, signed) -> pop_count rep m0 = Some (n, s) -> 0 <= n ->
  znth (e_inputs e) inp = Some data -> znth (m_inpos m0) inp = Some pos ->
  (dir = true -> znth seg (ip + 1) = Some o) ->
  n * size < 2 ^ 63 -> zlen data < pos + n * size ->
  exec_read p e m0 (read_bc fmt be rep dir) =
  Ok (Return, after m0 s (m_inpos m0) (m_outs m0) ((which, ip + (if dir then 2 else 1)) :: fr) E_read_beyond).
Proof.
  intros. eapply read_fixed_beyond_sec; try eassumption. eapply fixed_is_format; eassumption.
Qed.

Theorem read_fixed_count_fault_proof :
  forall p e m0 which ip fr seg inp fmt size signed be rep n s data pos dir o,
  m_frames m0 = (which, ip) :: fr -> znth (p_segs p) which = Some seg -> znth seg ip = Some inp ->
  fixed_format fmt = Some (size, signed) -> pop_count rep m0 = Some (n, s) -> 0 <= n ->
  znth (e_inputs e) inp = Some data -> znth (m_inpos m0) inp = Some pos ->
  (dir = true -> znth seg (ip + 1) = Some o) ->
  2 ^ 63 <= n * size -> exec_read p e m0 (read_bc fmt be rep dir) = Fault F_count.
Proof.
  intros. eapply read_fixed_count_fault_sec; try eassumption. eapply fixed_is_format; eassumption.
Qed.

(* when is the direct conversion simply (OUT)value ? always, except a bool item with a byte other than 0 / 1 copied
   into a bool output, which keeps its byte *)
Lemma out_conv_cast : forall fmt d v, (fmt <> READ_BOOL \/ d <> DBool \/ v = 0 \/ v = 1) -> out_conv fmt d v = cast_out d v.
Proof.
  intros fmt d v H. unfold out_conv. destruct d; try reflexivity. destruct (fmt =? READ_BOOL) eqn:E; [|reflexivity].
  destruct H as [H|[H|[H|H]]]; try lia; try congruence; subst v; reflexivity.
Qed.

(* the value pushed is the decoded value itself whenever it fits the cell: always on a 64-bit machine except for
   Q-> / N-> values of 2^63 and more, which wrap to negative cells *)
Lemma doc_decode_range : forall size signed be bs, 0 < size -> zlen bs = size -> bytes_ok bs ->
  (signed = true -> - 2 ^ (8 * size - 1) <= doc_decode size signed be bs < 2 ^ (8 * size - 1)) /\
  (signed = false -> 0 <= doc_decode size signed be bs < 2 ^ (8 * size)).
Proof.
  intros size signed be bs Hs Hl Hb. rewrite <- decode_spec_proof by assumption. unfold decode.
  assert (Hr : bytes_ok (if be then rev bs else bs)) by (destruct be; [apply Forall_rev|]; assumption).
  pose proof (le_value_range _ Hr) as R.
  replace (zlen (if be then rev bs else bs)) with size in R by (destruct be; unfold zlen in *; rewrite ?rev_length; lia).
  replace (256 ^ size) with (2 ^ (8 * size)) in R by (rewrite Z.pow_mul_r by lia; reflexivity).
  destruct signed; split; intros; try discriminate; [apply wrap_range; lia | exact R].
Qed.

(* ================================================================== 4. varint-> and zigzag-> *)
(* documented: a varint is a run of bytes >= 128 (continuation bit set) closed by a byte < 128; its value is
   sum_k (byte_k mod 128) * 128^k; at most 9 bytes, the 10th byte read is the error varint_too_big *)
Fixpoint cont_len (bs : list Z) : nat :=        (* number of leading continuation bytes *)
  match bs with b :: t => if 128 <=? b then S (cont_len t) else O | [] => O end.
Fixpoint b128_sum (k : Z) (bs : list Z) : Z :=
  match bs with [] => 0 | b :: t => (b mod 128) * 128 ^ k + b128_sum (k + 1) t end.

Inductive vres := VOk (v used : Z) | VErr (err used : Z).     (* used = number of bytes consumed *)

Definition varint_head (bs : list Z) : vres :=
  let k := Z.of_nat (cont_len bs) in
  let len := zlen bs in
  if 9 <=? k then (if 10 <=? len then VErr E_varint 10 else VErr E_read_beyond len)
  else if len <=? k then VErr E_read_beyond len
  else VOk (b128_sum 0 (firstn (Z.to_nat (k + 1)) bs)) (k + 1).

(* zigzag, documented: even r -> r / 2, odd r -> - (r + 1) / 2 *)
Definition zigzag_doc (r : Z) : Z := if Z.even r then r / 2 else - ((r + 1) / 2).

Theorem zigzag_spec_proof : forall r, zigzag r = zigzag_doc r.
Proof.
  intros r. unfold zigzag, zigzag_doc. rewrite Z.shiftr_div_pow2 by lia. change (2 ^ 1) with 2.
  change 1 with (Z.ones 1) at 1. rewrite Z.land_ones by lia. change (2 ^ 1) with 2.
  rewrite Zeven_mod. destruct (Z.eqb_spec (r mod 2) 0) as [E|E].
  - rewrite E. change (Zeq_bool 0 0) with true. cbn [Z.opp]. apply Z.lxor_0_r.
  - assert (E1 : r mod 2 = 1) by (pose proof (Z.mod_pos_bound r 2); lia). rewrite E1.
    rewrite Z.lxor_m1_r. unfold Z.lnot. pose proof (Z.div_mod r 2). pose proof (Z.div_mod (r + 1) 2).
    pose proof (Z.mod_pos_bound (r + 1) 2). change (Zeq_bool 1 0) with false. cbv beta iota. lia.
Qed.

(* ---- bit operations of the decoder as arithmetic *)
Lemma lor_shiftl_add : forall acc c sh, 0 <= sh -> 0 <= acc < 2 ^ sh -> Z.lor acc (Z.shiftl c sh) = acc + c * 2 ^ sh.
Proof.
  intros acc c sh Hsh Hacc.
  assert (L : Z.land acc (Z.shiftl c sh) = 0).
  { apply Z.bits_inj'. intros i Hi. rewrite Z.land_spec, Z.bits_0. destruct (Z_lt_dec i sh).
    - rewrite Z.shiftl_spec_low by assumption. apply andb_false_r.
    - rewrite <- (Z.mod_small acc (2 ^ sh)) by lia. rewrite Z.mod_pow2_bits_high by lia. reflexivity. }
  rewrite <- Z.lxor_lor by assumption. rewrite <- Z.add_nocarry_lxor by assumption.
  rewrite Z.shiftl_mul_pow2 by assumption. reflexivity.
Qed.

Lemma byte_bits : forall b, byte_ok b -> Z.land b 127 = b mod 128 /\ (Z.land b 128 =? 0) = (b <? 128).
Proof.
  intros b Hb. split.
  - change 127 with (Z.ones 7). rewrite Z.land_ones by lia. reflexivity.
  - assert (A : forallb (fun x => Bool.eqb (Z.land x 128 =? 0) (x <? 128)) (map Z.of_nat (seq 0 256)) = true)
      by (vm_compute; reflexivity).
    rewrite forallb_forall in A. apply eqb_prop. apply A. unfold byte_ok in Hb.
    replace b with (Z.of_nat (Z.to_nat b)) by lia. apply in_map. apply in_seq. lia.
Qed.

Lemma b128_sum_shift : forall bs k, 0 <= k -> b128_sum (k + 1) bs = 128 * b128_sum k bs.
Proof.
  induction bs as [|b t IH]; intros k Hk; cbn [b128_sum]; [lia|].
  rewrite IH by lia. replace (k + 1) with (Z.succ k) at 1 by lia. rewrite Z.pow_succ_r by lia. ring.
Qed.

(* ---- the decoder on a byte list (same control as read_varint, without the machine) *)
Definition vbump (r : vres) : vres := match r with VOk v u => VOk v (u + 1) | VErr err u => VErr err (u + 1) end.

Fixpoint rv_pure (fuel : nat) (bs : list Z) (shift acc : Z) : option vres :=
  match fuel with
  | O => None
  | S f =>
    match bs with
    | [] => Some (VErr E_read_beyond 0)
    | b :: t =>
      if shift =? 63 then Some (VErr E_varint 1)
      else let acc' := Z.lor acc (Z.shiftl (Z.land b 127) shift) in
           if Z.land b 128 =? 0 then Some (VOk acc' 1)
           else match rv_pure f t (shift + 7) acc' with Some r => Some (vbump r) | None => None end
    end
  end.

(* the documented head, started after j bytes with accumulated value acc *)
Definition head_from (j acc : Z) (bs : list Z) : vres :=
  let k := Z.of_nat (cont_len bs) in
  let len := zlen bs in
  if 9 - j <=? k then (if 10 - j <=? len then VErr E_varint (10 - j) else VErr E_read_beyond len)
  else if len <=? k then VErr E_read_beyond len
  else VOk (acc + 128 ^ j * b128_sum 0 (firstn (Z.to_nat (k + 1)) bs)) (k + 1).

Lemma cont_len_le : forall bs, (cont_len bs <= length bs)%nat.
Proof. induction bs as [|b t IH]; cbn; [lia|]. destruct (128 <=? b); lia. Qed.

Lemma rv_pure_spec : forall bs fuel j acc, bytes_ok bs -> 0 <= j <= 9 -> 10 - j <= Z.of_nat fuel ->
  0 <= acc < 128 ^ j -> rv_pure fuel bs (7 * j) acc = Some (head_from j acc bs).
Proof.
  induction bs as [|b t IH]; intros fuel j acc Hb Hj Hf Hacc; (destruct fuel as [|f]; [lia|]); cbn [rv_pure].
  - unfold head_from. cbn [cont_len]. unfold zlen. cbn [length Z.of_nat].
    destruct (9 - j <=? 0) eqn:E1; [|reflexivity]. replace (10 - j <=? 0) with false by lia. reflexivity.
  - inv Hb. rename H1 into Hb0. rename H2 into Hbt. destruct (byte_bits b Hb0) as [B1 B2].
    pose proof (cont_len_le t) as Hcl.
    destruct (7 * j =? 63) eqn:E63.
    + assert (j = 9) by lia. subst j. unfold head_from. unfold zlen. cbn [length]. rewrite Nat2Z.inj_succ.
      replace (9 - 9 <=? Z.of_nat (cont_len (b :: t))) with true by lia.
      replace (10 - 9 <=? Z.succ (Z.of_nat (length t))) with true by lia. reflexivity.
    + assert (Hj8 : j <= 8) by lia. cbv zeta. rewrite B1, B2.
      assert (P7 : 2 ^ (7 * j) = 128 ^ j) by (rewrite Z.pow_mul_r by lia; reflexivity).
      rewrite lor_shiftl_add by (rewrite ?P7; lia). rewrite P7.
      assert (Hm : 0 <= b mod 128 < 128) by (apply Z.mod_pos_bound; lia).
      assert (P0 : 0 < 128 ^ j) by (apply Z.pow_pos_nonneg; lia).
      destruct (b <? 128) eqn:E128.
      * unfold head_from. cbn [cont_len]. replace (128 <=? b) with false by lia. unfold zlen. cbn [length].
        rewrite Nat2Z.inj_succ. cbn [Z.of_nat].
        replace (9 - j <=? 0) with false by lia. replace (Z.succ (Z.of_nat (length t)) <=? 0) with false by lia.
        change (Z.to_nat (0 + 1)) with 1%nat. cbn [firstn b128_sum]. rewrite Z.pow_0_r. f_equal. f_equal. ring.
      * replace (7 * j + 7) with (7 * (j + 1)) by lia.
        assert (P1 : 128 ^ (j + 1) = 128 * 128 ^ j) by (replace (j + 1) with (Z.succ j) by lia; rewrite Z.pow_succ_r by lia; reflexivity).
        rewrite IH; [|assumption|lia|lia|nia].
        f_equal. unfold head_from. cbn [cont_len]. replace (128 <=? b) with true by lia.
        unfold zlen. cbn [length]. rewrite !Nat2Z.inj_succ.
        replace (9 - j <=? Z.succ (Z.of_nat (cont_len t))) with (9 - (j + 1) <=? Z.of_nat (cont_len t)) by lia.
        replace (10 - j <=? Z.succ (Z.of_nat (length t))) with (10 - (j + 1) <=? Z.of_nat (length t)) by lia.
        replace (Z.succ (Z.of_nat (length t)) <=? Z.succ (Z.of_nat (cont_len t)))
          with (Z.of_nat (length t) <=? Z.of_nat (cont_len t)) by lia.
        destruct (9 - (j + 1) <=? Z.of_nat (cont_len t)).
        { destruct (10 - (j + 1) <=? Z.of_nat (length t)); cbn [vbump]; f_equal; lia. }
        destruct (Z.of_nat (length t) <=? Z.of_nat (cont_len t)); [cbn [vbump]; f_equal; lia|]. cbn [vbump].
        replace (Z.to_nat (Z.succ (Z.of_nat (cont_len t)) + 1)) with (S (Z.to_nat (Z.of_nat (cont_len t) + 1))) by lia.
        cbn [firstn b128_sum]. rewrite (b128_sum_shift _ 0) by lia. rewrite Z.pow_0_r, P1. apply f_equal2; [ring|lia].
Qed.

Lemma rv_pure_head : forall bs, bytes_ok bs -> rv_pure 11 bs 0 0 = Some (varint_head bs).
Proof.
  intros bs Hb. change 0 with (7 * 0) at 1. rewrite rv_pure_spec by (try assumption; cbn; lia).
  f_equal. unfold head_from, varint_head. rewrite !Z.sub_0_r, Z.pow_0_r.
  repeat match goal with |- context [if ?c then _ else _] => destruct c end; try reflexivity. f_equal. lia.
Qed.

Lemma varint_head_used : forall bs v u, varint_head bs = VOk v u -> 1 <= u <= zlen bs.
Proof.
  intros bs v u H. unfold varint_head in H. cbv zeta in H.
  repeat match type of H with context [if ?c then _ else _] => destruct c eqn:? end; inv H. lia.
Qed.

Lemma varint_head_err_used : forall bs err u, varint_head bs = VErr err u ->
  0 <= u <= zlen bs /\ (err = E_read_beyond /\ u = zlen bs \/ err = E_varint /\ u = 10).
Proof.
  intros bs err u H. unfold varint_head in H. cbv zeta in H. unfold zlen in *.
  repeat match type of H with context [if ?c then _ else _] => destruct c eqn:? end; inv H; lia.
Qed.

(* ---- the machine-level decoder follows the byte-list decoder *)
Lemma updated_refl : forall A (l : list A) i v, znth l i = Some v -> updated l l i v.
Proof. intros. split; [reflexivity|]. split; [assumption|]. reflexivity. Qed.

Lemma updated_trans : forall A (l l1 l2 : list A) i v1 v2, updated l l1 i v1 -> updated l1 l2 i v2 -> updated l l2 i v2.
Proof.
  intros A l l1 l2 i v1 v2 (L1 & S1 & O1) (L2 & S2 & O2). split; [congruence|]. split; [assumption|].
  intros j Hj. rewrite O2, O1 by assumption. reflexivity.
Qed.

Definition vres_out (r : vres) : Z + Z := match r with VOk v _ => inl v | VErr err _ => inr err end.
Definition vres_used (r : vres) : Z := match r with VOk _ u => u | VErr _ u => u end.

Lemma set_inpos_same : forall m, set_inpos m (m_inpos m) = m.
Proof. destruct m; reflexivity. Qed.

Lemma read_varint_pure : forall fuel e m inp data pos shift acc,
  znth (e_inputs e) inp = Some data -> znth (m_inpos m) inp = Some pos -> 0 <= pos <= zlen data ->
  match rv_pure fuel (skipn (Z.to_nat pos) data) shift acc with
  | None => True
  | Some r => exists inpos', updated (m_inpos m) inpos' inp (pos + vres_used r) /\
                             read_varint fuel e m inp shift acc = Ok (vres_out r, set_inpos m inpos')
  end.
Proof.
  induction fuel as [|f IH]; intros e m inp data pos shift acc Hd Hp Hr; [exact I|].
  cbn [rv_pure read_varint]. destruct (skipn (Z.to_nat pos) data) as [|b t] eqn:Esk.
  - assert (pos = zlen data).
    { apply (f_equal (@length Z)) in Esk. rewrite skipn_length in Esk. cbn [length] in Esk. unfold zlen in *. lia. }
    rewrite (input_read_beyond e m inp data pos 1 Hd Hp ltac:(lia) ltac:(lia)).
    exists (m_inpos m). cbn [vres_used vres_out]. rewrite Z.add_0_r, set_inpos_same. split; [apply updated_refl; assumption | reflexivity].
  - assert (pos < zlen data).
    { apply (f_equal (@length Z)) in Esk. rewrite skipn_length in Esk. cbn [length] in Esk. unfold zlen in *. lia. }
    destruct (input_read_ok e m inp data pos 1 Hd Hp ltac:(lia) ltac:(lia)) as (ip1 & Hup & Hrd).
    rewrite Hrd, Esk. change (firstn (Z.to_nat 1) (b :: t)) with [b].
    pose proof (zupd_updated _ _ _ _ _ Hup) as U1.
    destruct (shift =? 63).
    { exists ip1. split; [exact U1 | reflexivity]. }
    cbv zeta. destruct (Z.land b 128 =? 0).
    { exists ip1. split; [exact U1 | reflexivity]. }
    assert (Esk' : skipn (Z.to_nat (pos + 1)) data = t).
    { replace (Z.to_nat (pos + 1)) with (Z.to_nat pos + 1)%nat by lia. rewrite <- skipn_add, Esk. reflexivity. }
    specialize (IH e (set_inpos m ip1) inp data (pos + 1) (shift + 7)
                   (Z.lor acc (Z.shiftl (Z.land b 127) shift)) Hd (znth_zupd_same _ _ _ _ _ Hup) ltac:(lia)).
    rewrite Esk' in IH.
    destruct (rv_pure f t (shift + 7) (Z.lor acc (Z.shiftl (Z.land b 127) shift))) as [r|]; [|exact I].
    destruct IH as (ip2 & U2 & Hrv). exists ip2. split.
    + replace (pos + vres_used (vbump r)) with (pos + 1 + vres_used r) by (destruct r; cbn; lia).
      eapply updated_trans; eassumption.
    + rewrite Hrv. destruct r; reflexivity.
Qed.

(* one item, completely *)
Lemma read_varint_head : forall e m inp data pos,
  znth (e_inputs e) inp = Some data -> znth (m_inpos m) inp = Some pos -> 0 <= pos <= zlen data -> bytes_ok data ->
  exists inpos', updated (m_inpos m) inpos' inp (pos + vres_used (varint_head (skipn (Z.to_nat pos) data))) /\
    read_varint 11 e m inp 0 0 = Ok (vres_out (varint_head (skipn (Z.to_nat pos) data)), set_inpos m inpos').
Proof.
  intros e m inp data pos Hd Hp Hr Hb. pose proof (read_varint_pure 11 e m inp data pos 0 0 Hd Hp Hr) as H.
  rewrite rv_pure_head in H by (apply Forall_skipn'; assumption). exact H.
Qed.

(* ---- n items: the documented sequence (values in reading order, bytes consumed, E_none or the error that ends it) *)
Fixpoint varints_doc (n : nat) (bs : list Z) : list Z * Z * Z :=
  match n with
  | O => ([], 0, E_none)
  | S c => match varint_head bs with
           | VOk v u => let r := varints_doc c (skipn (Z.to_nat u) bs) in (v :: fst (fst r), u + snd (fst r), snd r)
           | VErr err u => ([], u, err)
           end
  end.
Definition vd_vals (r : list Z * Z * Z) : list Z := fst (fst r).
Definition vd_used (r : list Z * Z * Z) : Z := snd (fst r).
Definition vd_err (r : list Z * Z * Z) : Z := snd r.

(* after all the bytes are consumed the next item fails: the model's bound on the loop count is harmless *)
Lemma varints_doc_stable : forall a b bs, (length bs < a)%nat -> (length bs < b)%nat -> varints_doc a bs = varints_doc b bs.
Proof.
  induction a as [|a IH]; intros b bs Ha Hb; [lia|]. destruct b as [|b]; [lia|]. cbn [varints_doc].
  destruct (varint_head bs) as [v u|err u] eqn:E; [|reflexivity].
  apply varint_head_used in E. unfold zlen in E.
  rewrite (IH b (skipn (Z.to_nat u) bs)) by (rewrite skipn_length; lia). reflexivity.
Qed.

Lemma varints_doc_length : forall n bs, (length (vd_vals (varints_doc n bs)) <= n)%nat /\ 0 <= vd_used (varints_doc n bs) <= zlen bs.
Proof.
  induction n as [|n IH]; intros bs; cbn [varints_doc]; unfold vd_vals, vd_used; cbn [fst snd length].
  - unfold zlen. lia.
  - destruct (varint_head bs) as [v u|err u] eqn:E; cbn [fst snd length].
    + apply varint_head_used in E. destruct (IH (skipn (Z.to_nat u) bs)) as [I1 I2]. unfold vd_vals, vd_used, zlen in *.
      rewrite skipn_length in I2. lia.
    + apply varint_head_err_used in E. lia.
Qed.

Section Varints.
  Variables (p : prog) (e : env) (inp : Z) (data : list Z) (zz : bool).
  Hypothesis Hdata : znth (e_inputs e) inp = Some data.
  Hypothesis Hbytes : bytes_ok data.

  (* the value delivered for a raw varint r: to the stack (T)value, to an output (OUT)value — for zigzag the signed
     value goes through the cell type T first *)
  Definition varint_stack_value (r : Z) : Z := wrap (p_w p) (if zz then zigzag_doc r else r).
  Definition varint_out_value (d : dtype) (r : Z) : Z := cast_out d (if zz then wrap (p_w p) (zigzag_doc r) else r).

  Lemma read_varints_direct : forall o d c m pos b, out_dtype p o = Some d ->
    znth (m_inpos m) inp = Some pos -> znth (m_outs m) o = Some b -> 0 <= pos <= zlen data ->
    let r := varints_doc c (skipn (Z.to_nat pos) data) in
    exists inpos' outs', updated (m_inpos m) inpos' inp (pos + vd_used r) /\
      updated (m_outs m) outs' o (rev (map (varint_out_value d) (vd_vals r)) ++ b) /\
      read_varints zz p e c m inp (Some o) =
        if vd_err r =? E_none then Ok (Continue, set_outs (set_inpos m inpos') outs')
        else Ok (Return, set_err (set_outs (set_inpos m inpos') outs') (vd_err r)).
  Proof.
    intros o d. induction c as [|c IH]; intros m pos b Hd Hp Ho Hr; cbv zeta.
    - exists (m_inpos m), (m_outs m). cbn [varints_doc read_varints]. unfold vd_used, vd_vals, vd_err. cbn [fst snd map rev app].
      rewrite Z.add_0_r. split; [apply updated_refl; assumption|]. split; [apply updated_refl; assumption|].
      destruct m; reflexivity.
    - cbn [varints_doc read_varints].
      destruct (read_varint_head e m inp data pos Hdata Hp Hr Hbytes) as (ip1 & U1 & Hrv). rewrite Hrv.
      destruct (varint_head (skipn (Z.to_nat pos) data)) as [v u|err u] eqn:E; cbn [vres_out vres_used] in *.
      + pose proof (varint_head_used _ _ _ E) as Hu. unfold zlen in Hu. rewrite skipn_length in Hu.
        unfold deliver. rewrite Hd.
        destruct (out_write_ok (set_inpos m ip1) o b
                    [cast_out d (if zz then wrap (p_w p) (zigzag v) else v)] Ho) as (os1 & Hz & Hw).
        rewrite Hw. unfold continue.
        assert (Hp1 : znth (m_inpos (set_outs (set_inpos m ip1) os1)) inp = Some (pos + u)) by (apply U1).
        assert (Ho1 : znth (m_outs (set_outs (set_inpos m ip1) os1)) o = Some (varint_out_value d v :: b)).
        { cbn [m_outs set_outs]. unfold varint_out_value. rewrite <- zigzag_spec_proof.
          apply (znth_zupd_same _ _ _ _ _ Hz). }
        destruct (IH _ (pos + u) _ Hd Hp1 Ho1 ltac:(unfold zlen in *; lia)) as (ip2 & os2 & U2 & V2 & Hrec).
        replace (skipn (Z.to_nat (pos + u)) data) with (skipn (Z.to_nat u) (skipn (Z.to_nat pos) data)) in *
          by (rewrite skipn_add; f_equal; lia).
        set (r := varints_doc c (skipn (Z.to_nat u) (skipn (Z.to_nat pos) data))) in *.
        exists ip2, os2. unfold vd_used, vd_vals, vd_err in *. cbn [fst snd map rev].
        split; [|split].
        * replace (pos + (u + snd (fst r))) with (pos + u + snd (fst r)) by lia.
          eapply updated_trans; [exact U1 | exact U2].
        * rewrite <- app_assoc. cbn [app]. eapply updated_trans; [apply (zupd_updated _ _ _ _ _ Hz) | exact V2].
        * rewrite Hrec. reflexivity.
      + destruct (varint_head_err_used _ _ _ E) as (_ & He).
        exists ip1, (m_outs m). unfold vd_used, vd_vals, vd_err. cbn [fst snd map rev app].
        split; [exact U1|]. split; [apply updated_refl; assumption|].
        replace (err =? E_none) with false by (unfold E_none, E_read_beyond, E_varint in *; lia).
        unfold stop. destruct m; reflexivity.
  Qed.

  Lemma read_varints_stack : forall c m pos, znth (m_inpos m) inp = Some pos -> 0 <= pos <= zlen data ->
    zlen (m_stack m) + Z.of_nat c <= p_stack_max p ->
    let r := varints_doc c (skipn (Z.to_nat pos) data) in
    exists inpos', updated (m_inpos m) inpos' inp (pos + vd_used r) /\
      read_varints zz p e c m inp None =
        if vd_err r =? E_none then Ok (Continue, set_stack (set_inpos m inpos') (rev (map varint_stack_value (vd_vals r)) ++ m_stack m))
        else Ok (Return, set_err (set_stack (set_inpos m inpos') (rev (map varint_stack_value (vd_vals r)) ++ m_stack m)) (vd_err r)).
  Proof.
    induction c as [|c IH]; intros m pos Hp Hr Hroom; cbv zeta.
    - exists (m_inpos m). cbn [varints_doc read_varints]. unfold vd_used, vd_vals, vd_err. cbn [fst snd map rev app].
      rewrite Z.add_0_r. split; [apply updated_refl; assumption|]. destruct m; reflexivity.
    - cbn [varints_doc read_varints].
      destruct (read_varint_head e m inp data pos Hdata Hp Hr Hbytes) as (ip1 & U1 & Hrv). rewrite Hrv.
      destruct (varint_head (skipn (Z.to_nat pos) data)) as [v u|err u] eqn:E; cbn [vres_out vres_used] in *.
      + pose proof (varint_head_used _ _ _ E) as Hu. unfold zlen in Hu. rewrite skipn_length in Hu.
        unfold deliver, push, can_push. cbn [m_stack set_inpos].
        replace (zlen (m_stack m) =? p_stack_max p) with false by lia. cbn [negb]. unfold continue.
        set (m1 := set_stack (set_inpos m ip1) (_ :: m_stack m)).
        assert (Hp1 : znth (m_inpos m1) inp = Some (pos + u)) by (apply U1).
        destruct (IH m1 (pos + u) Hp1 ltac:(unfold zlen in *; lia)
                     ltac:(subst m1; cbn [m_stack set_stack]; unfold zlen in *; cbn [length]; lia)) as (ip2 & U2 & Hrec).
        replace (skipn (Z.to_nat (pos + u)) data) with (skipn (Z.to_nat u) (skipn (Z.to_nat pos) data)) in *
          by (rewrite skipn_add; f_equal; lia).
        set (r := varints_doc c (skipn (Z.to_nat u) (skipn (Z.to_nat pos) data))) in *.
        exists ip2. unfold vd_used, vd_vals, vd_err in *. cbn [fst snd map rev]. split.
        * replace (pos + (u + snd (fst r))) with (pos + u + snd (fst r)) by lia.
          eapply updated_trans; [exact U1 | exact U2].
        * rewrite Hrec. subst m1. cbn [m_stack set_stack set_inpos]. rewrite <- !app_assoc. cbn [app].
          assert (Hv : varint_stack_value v = if zz then wrap (p_w p) (zigzag v) else wrap (p_w p) v)
            by (unfold varint_stack_value; rewrite <- zigzag_spec_proof; destruct zz; reflexivity).
          rewrite Hv. reflexivity.
      + destruct (varint_head_err_used _ _ _ E) as (_ & He).
        exists ip1. unfold vd_used, vd_vals, vd_err. cbn [fst snd map rev app]. split; [exact U1|].
        replace (err =? E_none) with false by (unfold E_none, E_read_beyond, E_varint in *; lia).
        unfold stop. destruct m; reflexivity.
  Qed.

  (* a full stack: the bytes of the item are consumed, nothing is pushed, stack_overflow *)
  Lemma read_varints_overflow : forall c m pos v u, znth (m_inpos m) inp = Some pos -> 0 <= pos <= zlen data ->
    zlen (m_stack m) = p_stack_max p -> varint_head (skipn (Z.to_nat pos) data) = VOk v u ->
    exists inpos', updated (m_inpos m) inpos' inp (pos + u) /\
      read_varints zz p e (S c) m inp None = Ok (Return, set_err (set_inpos m inpos') E_overflow).
  Proof.
    intros c m pos v u Hp Hr Hfull E. cbn [read_varints].
    destruct (read_varint_head e m inp data pos Hdata Hp Hr Hbytes) as (ip1 & U1 & Hrv). rewrite Hrv, E in *.
    cbn [vres_out vres_used] in *. exists ip1. split; [exact U1|].
    unfold deliver, push, can_push. cbn [m_stack set_inpos]. replace (zlen (m_stack m) =? p_stack_max p) with true by lia.
    reflexivity.
  Qed.
End Varints.

(* ---- the read instruction for varint-> / zigzag-> *)
Definition varint_fmt (zz : bool) : Z := if zz then READ_ZIGZAG else READ_VARINT.

Lemma varint_fmt_facts : forall zz, is_format (varint_fmt zz) /\ (varint_fmt zz =? READ_NBIT) = false /\
  ((varint_fmt zz =? READ_VARINT) || (varint_fmt zz =? READ_ZIGZAG)) = true /\ (varint_fmt zz =? READ_ZIGZAG) = zz.
Proof. destruct zz; unfold is_format; cbn [In]; vm_compute; intuition congruence. Qed.

Lemma varints_count : forall n data pos, 0 <= n -> 0 <= pos <= zlen data ->
  varints_doc (Z.to_nat (Z.min (Z.max n 0) (zlen data - pos + 1))) (skipn (Z.to_nat pos) data) =
  varints_doc (Z.to_nat n) (skipn (Z.to_nat pos) data).
Proof.
  intros n data pos Hn Hp. destruct (Z_le_dec n (zlen data - pos + 1)).
  - f_equal. lia.
  - apply varints_doc_stable; rewrite skipn_length; unfold zlen in *; lia.
Qed.

Theorem read_varint_direct_proof :
  forall p e m0 which ip fr seg inp zz be rep n s data pos o d b,
  m_frames m0 = (which, ip) :: fr -> znth (p_segs p) which = Some seg -> znth seg ip = Some inp ->
  pop_count rep m0 = Some (n, s) -> 0 <= n ->
  znth (e_inputs e) inp = Some data -> znth (m_inpos m0) inp = Some pos -> 0 <= pos <= zlen data -> bytes_ok data ->
  znth seg (ip + 1) = Some o -> out_dtype p o = Some d -> znth (m_outs m0) o = Some b ->
  let r := varints_doc (Z.to_nat n) (skipn (Z.to_nat pos) data) in
  exists inpos' outs', updated (m_inpos m0) inpos' inp (pos + vd_used r) /\
    updated (m_outs m0) outs' o (rev (map (varint_out_value p zz d) (vd_vals r)) ++ b) /\
    exec_read p e m0 (read_bc (varint_fmt zz) be rep true) =
      if vd_err r =? E_none then Ok (Continue, after m0 s inpos' outs' ((which, ip + 2) :: fr) (m_err m0))
      else Ok (Return, after m0 s inpos' outs' ((which, ip + 2) :: fr) (vd_err r)).
Proof.
  intros p e m0 which ip fr seg inp zz be rep n s data pos o d b Hf Hs Hi Hpop Hn Hd Hp Hr Hb Ho Hdt Hob.
  destruct (varint_fmt_facts zz) as (G0 & G1 & G2 & G3). cbv zeta.
  rewrite (read_prefix p e m0 which ip fr seg inp Hf Hs Hi (varint_fmt zz) be rep n s G0 Hpop Hn), G1, G2, G3.
  rewrite (fetch_at p (after m0 s (m_inpos m0) (m_outs m0) ((which, ip + 1) :: fr) (m_err m0)) which (ip + 1) fr seg o eq_refl Hs Ho).
  unfold remaining_bytes. cbn [m_inpos set_frames after]. rewrite Hd, Hp.
  match goal with |- context [read_varints zz p e ?c ?m inp (Some o)] =>
    destruct (read_varints_direct p e inp data zz Hd Hb o d c m pos b Hdt Hp Hob Hr) as (ip' & os' & U & V & Hrec)
  end.
  cbv zeta in U, V, Hrec. rewrite varints_count in U, V, Hrec by assumption.
  exists ip', os'. split; [exact U|]. split; [exact V|]. rewrite Hrec.
  replace (ip + 2) with (ip + 1 + 1) by lia. reflexivity.
Qed.

Theorem read_varint_to_stack_proof :
  forall p e m0 which ip fr seg inp zz be rep n s data pos,
  m_frames m0 = (which, ip) :: fr -> znth (p_segs p) which = Some seg -> znth seg ip = Some inp ->
  pop_count rep m0 = Some (n, s) -> 0 <= n ->
  znth (e_inputs e) inp = Some data -> znth (m_inpos m0) inp = Some pos -> 0 <= pos <= zlen data -> bytes_ok data ->
  zlen s + n <= p_stack_max p ->
  let r := varints_doc (Z.to_nat n) (skipn (Z.to_nat pos) data) in
  exists inpos', updated (m_inpos m0) inpos' inp (pos + vd_used r) /\
    let stack := rev (map (varint_stack_value p zz) (vd_vals r)) ++ s in
    exec_read p e m0 (read_bc (varint_fmt zz) be rep false) =
      if vd_err r =? E_none then Ok (Continue, after m0 stack inpos' (m_outs m0) ((which, ip + 1) :: fr) (m_err m0))
      else Ok (Return, after m0 stack inpos' (m_outs m0) ((which, ip + 1) :: fr) (vd_err r)).
Proof.
  intros p e m0 which ip fr seg inp zz be rep n s data pos Hf Hs Hi Hpop Hn Hd Hp Hr Hb Hroom.
  destruct (varint_fmt_facts zz) as (G0 & G1 & G2 & G3). cbv zeta.
  rewrite (read_prefix p e m0 which ip fr seg inp Hf Hs Hi (varint_fmt zz) be rep n s G0 Hpop Hn), G1, G2, G3.
  unfold remaining_bytes. cbn [m_inpos after]. rewrite Hd, Hp.
  match goal with |- context [read_varints zz p e ?c ?m inp None] =>
    destruct (read_varints_stack p e inp data zz Hd Hb c m pos Hp Hr ltac:(cbn [m_stack after]; lia)) as (ip' & U & Hrec)
  end.
  cbv zeta in U, Hrec. rewrite varints_count in U, Hrec by assumption.
  exists ip'. split; [exact U|]. rewrite Hrec. reflexivity.
Qed.

(* the stack is full and the next item decodes: its bytes are consumed, nothing is pushed, stack_overflow *)
Theorem read_varint_overflow_proof :
  forall p e m0 which ip fr seg inp zz be rep n s data pos v u,
  m_frames m0 = (which, ip) :: fr -> znth (p_segs p) which = Some seg -> znth seg ip = Some inp ->
  pop_count rep m0 = Some (n, s) -> 1 <= n ->
  znth (e_inputs e) inp = Some data -> znth (m_inpos m0) inp = Some pos -> 0 <= pos <= zlen data -> bytes_ok data ->
  zlen s = p_stack_max p -> varint_head (skipn (Z.to_nat pos) data) = VOk v u ->
  exists inpos', updated (m_inpos m0) inpos' inp (pos + u) /\
    exec_read p e m0 (read_bc (varint_fmt zz) be rep false) =
      Ok (Return, after m0 s inpos' (m_outs m0) ((which, ip + 1) :: fr) E_overflow).
Proof.
  intros p e m0 which ip fr seg inp zz be rep n s data pos v u Hf Hs Hi Hpop Hn Hd Hp Hr Hb Hfull Hv.
  destruct (varint_fmt_facts zz) as (G0 & G1 & G2 & G3).
  rewrite (read_prefix p e m0 which ip fr seg inp Hf Hs Hi (varint_fmt zz) be rep n s G0 Hpop ltac:(lia)), G1, G2, G3.
  unfold remaining_bytes. cbn [m_inpos after]. rewrite Hd, Hp.
  replace (Z.to_nat (Z.min (Z.max n 0) (zlen data - pos + 1))) with (S (Z.to_nat (Z.min (Z.max n 0) (zlen data - pos + 1)) - 1)) by lia.
  match goal with |- context [read_varints zz p e (S ?c) ?m inp None] =>
    destruct (read_varints_overflow p e inp data zz Hd Hb c m pos v u Hp Hr Hfull Hv) as (ip' & U & Hrec)
  end.
  exists ip'. split; [exact U|]. rewrite Hrec. reflexivity.
Qed.

(* ================================================================== 5. the compiler: every read word of the vocabulary *)
From Coq Require Import String.
Import List ListNotations.

(* every word of `input_parser_words`, in that order, with (format, big-endian, repeated); None = the float words
   f-> d-> (outside the model: the compiler answers CUnsupported) *)
Definition reader_table : list (string * option (Z * bool * bool)) :=
  [("?->", Some (READ_BOOL, false, false)); ("b->", Some (READ_INT8, false, false));
   ("h->", Some (READ_INT16, false, false)); ("i->", Some (READ_INT32, false, false));
   ("q->", Some (READ_INT64, false, false)); ("n->", Some (READ_INTP, false, false));
   ("B->", Some (READ_UINT8, false, false)); ("H->", Some (READ_UINT16, false, false));
   ("I->", Some (READ_UINT32, false, false)); ("Q->", Some (READ_UINT64, false, false));
   ("N->", Some (READ_UINTP, false, false)); ("f->", None); ("d->", None);
   ("varint->", Some (READ_VARINT, false, false)); ("zigzag->", Some (READ_ZIGZAG, false, false));
   ("!h->", Some (READ_INT16, true, false)); ("!i->", Some (READ_INT32, true, false));
   ("!q->", Some (READ_INT64, true, false)); ("!n->", Some (READ_INTP, true, false));
   ("!H->", Some (READ_UINT16, true, false)); ("!I->", Some (READ_UINT32, true, false));
   ("!Q->", Some (READ_UINT64, true, false)); ("!N->", Some (READ_UINTP, true, false)); ("!f->", None);
   ("!d->", None); ("#?->", Some (READ_BOOL, false, true)); ("#b->", Some (READ_INT8, false, true));
   ("#h->", Some (READ_INT16, false, true)); ("#i->", Some (READ_INT32, false, true));
   ("#q->", Some (READ_INT64, false, true)); ("#n->", Some (READ_INTP, false, true));
   ("#B->", Some (READ_UINT8, false, true)); ("#H->", Some (READ_UINT16, false, true));
   ("#I->", Some (READ_UINT32, false, true)); ("#Q->", Some (READ_UINT64, false, true));
   ("#N->", Some (READ_UINTP, false, true)); ("#f->", None); ("#d->", None);
   ("#varint->", Some (READ_VARINT, false, true)); ("#zigzag->", Some (READ_ZIGZAG, false, true));
   ("#!h->", Some (READ_INT16, true, true)); ("#!i->", Some (READ_INT32, true, true));
   ("#!q->", Some (READ_INT64, true, true)); ("#!n->", Some (READ_INTP, true, true));
   ("#!H->", Some (READ_UINT16, true, true)); ("#!I->", Some (READ_UINT32, true, true));
   ("#!Q->", Some (READ_UINT64, true, true)); ("#!N->", Some (READ_UINTP, true, true)); ("#!f->", None);
   ("#!d->", None)]%string.

Definition reader_row_ok (row : string * option (Z * bool * bool)) : Prop :=
  match row with
  | (w, Some (fmt, be, rep)) => parse_reader (bytes w) = COk (- read_bc fmt be rep false - 1, 0)
  | (w, None) => parse_reader (bytes w) = CUnsupported
  end.

(* the compiler emits `- flags - 1` followed by the input number [, the output number with READ_DIRECT added]:
   for a word of the table that is read_bc fmt be rep false / read_bc fmt be rep true *)
Definition nbit_words_ok : Prop :=
  parse_reader (bytes "5bit->") = COk (- read_bc READ_NBIT false false false - 1, 5) /\
  parse_reader (bytes "#!31bit->") = COk (- read_bc READ_NBIT true true false - 1, 31) /\
  parse_reader (bytes "32bit->") = CUnsupported.

Theorem parse_reader_table_proof :
  map fst reader_table = input_parser_words /\ Forall reader_row_ok reader_table /\ nbit_words_ok.
Proof.
  split; [vm_compute; reflexivity|]. split; [|unfold nbit_words_ok; repeat split; vm_compute; reflexivity].
  unfold reader_table. repeat (constructor; [vm_compute; reflexivity|]). constructor.
Qed.

(* ================================================================== 6. examples: programs compiled from source and run *)
Ltac bytes_ok_tac := repeat constructor; unfold byte_ok; lia.

(* ---- fixed-width: `#!h-> y` (3 big-endian int16 to an int32 output) then `i-> stack` *)
Definition prog_reads := compile 64 16 16 (bytes "input x output y int32 3 x #!h-> y x i-> stack"%string).
Definition p_reads := mkProg 64 [[0; 3; -32; 0; 0; -33; 0]] [] [] [[120]] [([121], DInt32)] 16 16.
Definition e_reads := mkEnv [[1; 2; 3; 4; 255; 254; 7; 0; 0; 128]].
Definition m_reads1 := mkM [3] [] [0] [[]] [(0, 3)] [] [0] true 0.        (* at `#!h-> y`, opcode fetched *)
Definition m_reads2 := mkM [] [] [6] [[-2; 772; 258]] [(0, 6)] [] [0] true 0.   (* at `i-> stack`, opcode fetched *)

Example read_fixed_example :
  prog_reads = COk p_reads /\
  api_run 100 true p_reads e_reads (init_machine p_reads) = Ok (mkM [-2147483641] [] [10] [[-2; 772; 258]] [] [] [] true 0) /\
  read_bc READ_INT16 true true true = -32 /\ read_bc READ_INT32 false false false = -33 /\
  exec_read p_reads e_reads m_reads1 (-32) = Ok (Continue, mkM [] [] [6] [[-2; 772; 258]] [(0, 5)] [] [0] true 0) /\
  exec_read p_reads e_reads m_reads2 (-33) = Ok (Continue, mkM [-2147483641] [] [10] [[-2; 772; 258]] [(0, 7)] [] [0] true 0) /\
  map (doc_decode 2 true true) (groups [1; 2; 3; 4; 255; 254; 7; 0; 0; 128] 0 2 3) = [258; 772; -2] /\
  map (doc_decode 4 true false) (groups [1; 2; 3; 4; 255; 254; 7; 0; 0; 128] 6 4 1) = [-2147483641].
Proof. repeat split; vm_compute; reflexivity. Qed.

(* the hypotheses of read_fixed_direct_proof / read_fixed_to_stack_proof hold at these two instructions *)
Example read_fixed_direct_hyps :
  m_frames m_reads1 = (0, 3) :: [] /\ znth (p_segs p_reads) 0 = Some [0; 3; -32; 0; 0; -33; 0] /\
  znth [0; 3; -32; 0; 0; -33; 0] 3 = Some 0 /\ fixed_format READ_INT16 = Some (2, true) /\
  pop_count true m_reads1 = Some (3, []) /\ 0 <= 3 /\
  znth (e_inputs e_reads) 0 = Some [1; 2; 3; 4; 255; 254; 7; 0; 0; 128] /\ znth (m_inpos m_reads1) 0 = Some 0 /\ 0 <= 0 /\
  bytes_ok [1; 2; 3; 4; 255; 254; 7; 0; 0; 128] /\ znth [0; 3; -32; 0; 0; -33; 0] (3 + 1) = Some 0 /\
  out_dtype p_reads 0 = Some DInt32 /\ znth (m_outs m_reads1) 0 = Some [] /\ 3 * 2 < 2 ^ 63 /\
  0 + 3 * 2 <= zlen [1; 2; 3; 4; 255; 254; 7; 0; 0; 128].
Proof. repeat split; try (vm_compute; reflexivity); try (vm_compute; congruence); bytes_ok_tac. Qed.

Example read_fixed_to_stack_hyps :
  m_frames m_reads2 = (0, 6) :: [] /\ znth (p_segs p_reads) 0 = Some [0; 3; -32; 0; 0; -33; 0] /\
  znth [0; 3; -32; 0; 0; -33; 0] 6 = Some 0 /\ fixed_format READ_INT32 = Some (4, true) /\
  pop_count false m_reads2 = Some (1, []) /\ 0 <= 1 /\
  znth (e_inputs e_reads) 0 = Some [1; 2; 3; 4; 255; 254; 7; 0; 0; 128] /\ znth (m_inpos m_reads2) 0 = Some 6 /\ 0 <= 6 /\
  bytes_ok [1; 2; 3; 4; 255; 254; 7; 0; 0; 128] /\ 1 * 4 < 2 ^ 63 /\
  6 + 1 * 4 <= zlen [1; 2; 3; 4; 255; 254; 7; 0; 0; 128] /\ zlen (@nil Z) <= p_stack_max p_reads.
Proof. repeat split; try (vm_compute; reflexivity); try (vm_compute; congruence); bytes_ok_tac. Qed.

(* ---- stack overflow in the middle of a repeated read: 5 items, room for 4: the 4 first are pushed, the input
   position has advanced over all 5 *)
Definition mkp (seg : list Z) (outs : list (list Z * dtype)) (stack_max : Z) := mkProg 64 [seg] [] [] [[120]] outs stack_max 16.
Definition run1 (p : prog) (input : list Z) := api_run 100 true p (mkEnv [input]) (init_machine p).

Example read_fixed_overflow_example :
  compile 64 4 16 (bytes "input x 5 x #B-> stack"%string) = COk (mkp [0; 5; -59; 0] [] 4) /\
  run1 (mkp [0; 5; -59; 0] [] 4) [1; 2; 3; 4; 5; 6] = Ok (mkM [4; 3; 2; 1] [] [5] [] [(0, 4)] [] [0] true E_overflow).
Proof. split; vm_compute; reflexivity. Qed.

(* ---- read beyond: 2 int64 from 10 bytes: nothing consumed, the count stays popped; 1 int64 succeeds *)
Example read_fixed_beyond_example :
  compile 64 16 16 (bytes "input x 2 x #q-> stack"%string) = COk (mkp [0; 2; -43; 0] [] 16) /\
  run1 (mkp [0; 2; -43; 0] [] 16) [1; 2; 3; 4; 255; 254; 7; 0; 0; 128] = Ok (mkM [] [] [0] [] [(0, 4)] [] [0] true E_read_beyond) /\
  compile 64 16 16 (bytes "input x 1 x #q-> stack"%string) = COk (mkp [0; 1; -43; 0] [] 16) /\
  run1 (mkp [0; 1; -43; 0] [] 16) [1; 2; 3; 4; 255; 254; 7; 0; 0; 128] = Ok (mkM [2250696074396161] [] [8] [] [] [] [] true E_none).
Proof. repeat split; vm_compute; reflexivity. Qed.

(* ---- negative count, missing count; with a count the same program ends without error *)
Example read_count_examples :
  compile 64 16 16 (bytes "input x -1 x #b-> stack"%string) = COk (mkp [0; -1; -19; 0] [] 16) /\
  run1 (mkp [0; -1; -19; 0] [] 16) [1; 2] = Ok (mkM [] [] [0] [] [(0, 4)] [] [0] true E_read_beyond) /\
  compile 64 16 16 (bytes "input x x #b-> stack"%string) = COk (mkp [-19; 0] [] 16) /\
  run1 (mkp [-19; 0] [] 16) [1; 2] = Ok (mkM [] [] [0] [] [(0, 2)] [] [0] true E_underflow) /\
  compile 64 16 16 (bytes "input x 2 x #b-> stack"%string) = COk (mkp [0; 2; -19; 0] [] 16) /\
  run1 (mkp [0; 2; -19; 0] [] 16) [1; 255] = Ok (mkM [-1; 1] [] [2] [] [] [] [] true E_none).
Proof. repeat split; vm_compute; reflexivity. Qed.

(* ---- a bool item copied into a bool output keeps its byte: `?-> y` with the byte 2 stores 2, not (bool)2 = 1.
   The general theorem therefore uses out_conv, which is cast_out except in this case (out_conv_cast). *)
Example read_bool_direct_keeps_byte_refuted :
  compile 64 16 16 (bytes "input x output y bool x ?-> y"%string) = COk (mkp [-10; 0; 0] [([121], DBool)] 16) /\
  run1 (mkp [-10; 0; 0] [([121], DBool)] 16) [2] = Ok (mkM [] [] [1] [[2]] [] [] [] true E_none) /\
  cast_out DBool (doc_decode 1 false false [2]) = 1 /\ out_conv READ_BOOL DBool (doc_decode 1 false false [2]) = 2.
Proof. repeat split; vm_compute; reflexivity. Qed.

(* ---- varint / zigzag: 172 2 = 300; zigzag 3 = -2, zigzag 130 1 = 65 *)
Example read_varint_example :
  compile 64 16 16 (bytes "input x output y int64 x varint-> stack 2 x #zigzag-> y"%string)
    = COk (mkp [-113; 0; 0; 2; -124; 0; 0] [([121], DInt64)] 16) /\
  run1 (mkp [-113; 0; 0; 2; -124; 0; 0] [([121], DInt64)] 16) [172; 2; 3; 130; 1; 9]
    = Ok (mkM [300] [] [5] [[65; -2]] [] [] [] true E_none) /\
  read_bc (varint_fmt false) false false false = -113 /\ read_bc (varint_fmt true) false true true = -124 /\
  varints_doc 1 [172; 2; 3; 130; 1; 9] = ([300], 2, E_none) /\
  varints_doc 2 [3; 130; 1; 9] = ([3; 130], 3, E_none) /\ map zigzag_doc [3; 130] = [-2; 65] /\
  (* running out of input inside an item: the bytes ARE consumed *)
  varints_doc 2 [172; 130] = ([], 2, E_read_beyond) /\
  compile 64 16 16 (bytes "input x x varint-> stack"%string) = COk (mkp [-113; 0] [] 16) /\
  run1 (mkp [-113; 0] [] 16) [172; 130] = Ok (mkM [] [] [2] [] [(0, 2)] [] [0] true E_read_beyond) /\
  (* the 10th byte *)
  varint_head [255; 255; 255; 255; 255; 255; 255; 255; 255; 1] = VErr E_varint 10 /\
  varint_head [255; 255; 255; 255; 255; 255; 255; 255; 127; 1] = VOk 9223372036854775807 9.
Proof. repeat split; vm_compute; reflexivity. Qed.

(* ================================================================== 7. Nbit-> : what is modelled, and its edges *)
(* argument cells: input number, bit width, [output number].  Modelled: widths 1..31 (from 32 on `1 << width` is
   undefined behaviour in the C++: Fault F_nbit; the compiler answers CUnsupported); a zero count reads nothing; the
   first byte is read before anything is delivered, so an exhausted input is read_beyond with nothing consumed. *)
Theorem read_nbit_edges_proof :
  forall p e m0 which ip fr seg inp be rep dir n s bw o data pos,
  m_frames m0 = (which, ip) :: fr -> znth (p_segs p) which = Some seg -> znth seg ip = Some inp ->
  znth seg (ip + 1) = Some bw -> (dir = true -> znth seg (ip + 2) = Some o) ->
  pop_count rep m0 = Some (n, s) -> 0 <= n ->
  let F := (which, ip + (if dir then 3 else 2)) :: fr in
  (bw < 1 \/ 31 < bw -> exec_read p e m0 (read_bc READ_NBIT be rep dir) = Fault F_nbit) /\
  (1 <= bw <= 31 -> n = 0 ->
   exec_read p e m0 (read_bc READ_NBIT be rep dir) = Ok (Continue, after m0 s (m_inpos m0) (m_outs m0) F (m_err m0))) /\
  (1 <= bw <= 31 -> 1 <= n -> znth (e_inputs e) inp = Some data -> znth (m_inpos m0) inp = Some pos -> zlen data <= pos ->
   exec_read p e m0 (read_bc READ_NBIT be rep dir) = Ok (Return, after m0 s (m_inpos m0) (m_outs m0) F E_read_beyond)).
Proof.
  intros p e m0 which ip fr seg inp be rep dir n s bw o data pos Hf Hs Hi Hbw Ho Hpop Hn F.
  assert (G0 : is_format READ_NBIT) by (unfold is_format; cbn [In]; intuition congruence).
  rewrite (read_prefix p e m0 which ip fr seg inp Hf Hs Hi READ_NBIT be rep n s G0 Hpop Hn).
  change (READ_NBIT =? READ_NBIT) with true. change ((READ_NBIT =? READ_VARINT) || (READ_NBIT =? READ_ZIGZAG)) with false.
  cbv iota.
  rewrite (fetch_at p (after m0 s (m_inpos m0) (m_outs m0) ((which, ip + 1) :: fr) (m_err m0)) which (ip + 1) fr seg bw eq_refl Hs Hbw).
  assert (Hm4 : exists m4, (if dir then match fetch p (set_frames (after m0 s (m_inpos m0) (m_outs m0) ((which, ip + 1) :: fr) (m_err m0))
                                                     ((which, ip + 1 + 1) :: fr)) with
                                        | Ok (o0, m4) => Ok (Some o0, m4) | Fault k => Fault k | OutOfFuel => OutOfFuel end
                            else Ok (None, set_frames (after m0 s (m_inpos m0) (m_outs m0) ((which, ip + 1) :: fr) (m_err m0))
                                                      ((which, ip + 1 + 1) :: fr)))
                           = Ok (if dir then Some o else None, m4) /\
                           m4 = after m0 s (m_inpos m0) (m_outs m0) F (m_err m0)).
  { subst F. destruct dir.
    - eexists. rewrite (fetch_at p (set_frames (after m0 s (m_inpos m0) (m_outs m0) ((which, ip + 1) :: fr) (m_err m0))
                                              ((which, ip + 1 + 1) :: fr)) which (ip + 1 + 1) fr seg o eq_refl Hs)
        by (replace (ip + 1 + 1) with (ip + 2) by lia; auto).
      split; [reflexivity|]. unfold after, set_frames. cbn. do 3 f_equal. lia.
    - eexists. split; [reflexivity|]. unfold after, set_frames. cbn. do 3 f_equal. lia. }
  destruct Hm4 as (m4 & Hm4 & Em4). rewrite Hm4. subst m4. split; [|split].
  - intros Hb. replace ((bw <? 1) || (31 <? bw)) with true by lia. reflexivity.
  - intros Hb H0. replace ((bw <? 1) || (31 <? bw)) with false by lia. subst n. reflexivity.
  - intros Hb H1 Hd Hp Hl. replace ((bw <? 1) || (31 <? bw)) with false by lia. replace (n =? 0) with false by lia.
    rewrite (input_read_beyond e (after m0 s (m_inpos m0) (m_outs m0) F (m_err m0)) inp data pos 1 Hd Hp ltac:(lia) ltac:(lia)).
    reflexivity.
Qed.

(* 3 fields of 5 bits, least significant first, from the little-endian bit stream 255 1: 31, 15, 0 *)
Example read_nbit_example :
  compile 64 16 16 (bytes "input x 3 x #5bit-> stack"%string) = COk (mkp [0; 3; -131; 0; 5] [] 16) /\
  read_bc READ_NBIT false true false = -131 /\
  run1 (mkp [0; 3; -131; 0; 5] [] 16) [255; 1] = Ok (mkM [0; 15; 31] [] [2] [] [] [] [] true E_none).
Proof. repeat split; vm_compute; reflexivity. Qed.
