(** Proofs_C13d4b.v -- total-correctness calculus [ok_post] (the computation succeeds and its result satisfies Q)
    and k_spec theorems for the reduce_next / sort_next / argsort_next kernels (continuation of Proofs_C13d4.v). *)
From Coq Require Import ZArith List Bool Lia ZifyBool.
From AwkV Require Import Base.
From AwkKernels Require Import Kernels KLemmas Proofs_C13 Proofs_C13b Proofs_C13c Proofs_C13d Proofs_C13d4.
Import ListNotations.
Open Scope Z_scope.

Ltac Zify.zify_post_hook ::= Z.to_euclidean_division_equations.

(* ================================================================================================ *)
(** * [ok_post r Q]: [r] succeeds (neither out of bounds nor an error, in particular never out of fuel) and its
      result satisfies [Q] *)
Definition ok_post {A} (r : kres A) (Q : A -> Prop) : Prop := exists a, r = KOk a /\ Q a.

Lemma op_ret {A} (a : A) (Q : A -> Prop) : Q a -> ok_post (KOk a) Q.
Proof. intros H. exists a. auto. Qed.
Lemma op_weaken {A} (r : kres A) (Q Q' : A -> Prop) : ok_post r Q -> (forall a, Q a -> Q' a) -> ok_post r Q'.
Proof. intros (a & E & H) W. exists a. auto. Qed.
Lemma op_bind {A B} (r : kres A) (f : A -> kres B) (R : A -> Prop) (Q : B -> Prop) :
  ok_post r R -> (forall a, R a -> ok_post (f a) Q) -> ok_post (kbind r f) Q.
Proof. intros (a & E & H) K. rewrite E. cbn [kbind]. auto. Qed.
Lemma op_bind_kget {B} l i (f : Z -> kres B) (Q : B -> Prop) :
  0 <= i < zlen l -> ok_post (f (at_ l i)) Q -> ok_post (kbind (kget l i) f) Q.
Proof. intros H HQ. rewrite kget_at by auto. exact HQ. Qed.
Lemma op_bind_kupd {B} l i v (f : list Z -> kres B) (Q : B -> Prop) :
  0 <= i < zlen l -> ok_post (f (set_nth l (Z.to_nat i) v)) Q -> ok_post (kbind (kupd l i v) f) Q.
Proof. intros H HQ. rewrite kupd_ok by auto. exact HQ. Qed.
Lemma op_kget l i (Q : Z -> Prop) : 0 <= i < zlen l -> Q (at_ l i) -> ok_post (kget l i) Q.
Proof. intros H HQ. rewrite kget_at by auto. now apply op_ret. Qed.
Lemma op_kupd l i v (Q : list Z -> Prop) :
  0 <= i < zlen l -> Q (set_nth l (Z.to_nat i) v) -> ok_post (kupd l i v) Q.
Proof. intros H HQ. rewrite kupd_ok by auto. now apply op_ret. Qed.
Lemma op_kfor {S} (body : Z -> S -> kres S) (P : Z -> S -> Prop) lo hi s :
  lo <= hi -> P lo s -> (forall j s, lo <= j < hi -> P j s -> ok_post (body j s) (P (j + 1))) ->
  ok_post (kfor lo hi body s) (P hi).
Proof. intros Hle H0 Hstep. exact (kfor_inv body P lo hi s Hle H0 Hstep). Qed.
Lemma op_kwhile {S} fuel (cond : S -> bool) (body : S -> kres S) (P : S -> Prop) (mu : S -> Z) s :
  P s -> mu s <= Z.of_nat fuel ->
  (forall s, P s -> cond s = true -> 0 < mu s /\ ok_post (body s) (fun s' => P s' /\ mu s' < mu s)) ->
  ok_post (kwhile fuel cond body s) (fun s' => P s' /\ cond s' = false).
Proof.
  intros H0 Hmu Hstep. apply (kwhile_total fuel cond body P mu s H0 Hmu).
  intros s0 P0 C0. destruct (Hstep s0 P0 C0) as (M & s1 & E & P1 & D). split; [auto|]. exists s1. auto.
Qed.
Lemma op_ok {A} (r : kres A) (Q : A -> Prop) : ok_post r Q -> exists a, r = KOk a /\ Q a.
Proof. auto. Qed.

Ltac op_side := try solve [cbn [fst snd] in *; rewrite ?zlen_set_nth in *; lia].
Ltac op_step :=
  lazymatch goal with
  | |- ok_post (kbind (kget _ _) _) _ => apply op_bind_kget; [op_side | cbv beta]
  | |- ok_post (kbind (kupd _ _ _) _) _ => apply op_bind_kupd; [op_side | cbv beta]
  | |- ok_post (kbind (KOk _) _) _ => cbn [kbind]
  | |- ok_post (kbind (kbind _ _) _) _ => rewrite kbind_assoc4; cbv beta
  | |- ok_post (kbind (if ?b then _ else _) _) _ => destruct b eqn:?
  | |- ok_post (KOk _) _ => apply op_ret
  | |- ok_post (kupd _ _ _) _ => apply op_kupd; [op_side|]
  | |- ok_post (kget _ _) _ => apply op_kget; [op_side|]
  | |- ok_post (if ?b then _ else _) _ => destruct b eqn:?
  end.
Ltac op_auto := repeat op_step.

(* ================================================================================================ *)
(** * awkward_ListOffsetArray_reduce_nonlocal_preparenext_64: total correctness and what the next kernels need *)

Lemma mono_le (a : Z -> Z) n :
  (forall i, 0 <= i < n -> a i <= a (i + 1)) -> forall i j, 0 <= i <= j -> j <= n -> a i <= a j.
Proof.
  intros H i j Hij Hj. replace j with (i + Z.of_nat (Z.to_nat (j - i))) by lia.
  assert (G : forall m, i + Z.of_nat m <= n -> a i <= a (i + Z.of_nat m)).
  { induction m; intros Hm; [replace (i + Z.of_nat 0) with i by lia; lia|].
    assert (a (i + Z.of_nat m) <= a (i + Z.of_nat m + 1)) by (apply H; lia).
    replace (i + Z.of_nat (S m)) with (i + Z.of_nat m + 1) by lia. assert (a i <= a (i + Z.of_nat m)) by (apply IHm; lia). lia. }
  apply G. lia.
Qed.

Definition pn_inv2 (nextcarry nextparents maxnextparents distincts offsetscopy offsets parents : list Z)
    (length nextlen maxcount outlength : Z) (nc np mx d oc : list Z) (k : Z) : Prop :=
  zlen nc = zlen nextcarry /\ zlen np = zlen nextparents /\ zlen mx = zlen maxnextparents /\
  zlen d = zlen distincts /\ zlen oc = zlen offsetscopy /\ 0 <= k /\
  (forall i, 0 <= i < length -> at_ offsets i <= at_ oc i <= at_ offsets (i + 1)) /\
  k + zsum (fun q => at_ offsets (q + 1) - at_ oc q) (Z.to_nat length) = nextlen /\
  (forall q, 0 <= q < k -> 0 <= at_ np q <= at_ mx 0) /\
  (forall q, 0 <= q < k -> exists i, 0 <= i < length /\ at_ offsets i <= at_ nc q < at_ offsets (i + 1) /\
                                     at_ np q = at_ parents i * maxcount + (at_ nc q - at_ offsets i)) /\
  0 <= at_ mx 0 < Z.max 1 (outlength * maxcount).

(** In the callers' situation the kernel terminates normally (the fuel of the model's outer loop is never
    exhausted: every pass emits at least one item), all nextlen cells of nextcarry/nextparents are written,
    nextcarry[q] is a content position of some list i and nextparents[q] = parents[i]*maxcount + (its position in
    list i), 0 <= nextparents[q] <= maxnextparents < max(1, outlength*maxcount) -- which is the precondition of
    _nextstarts_64 with nextstarts = maxnextparents + 1 cells -- and every cursor ends at the end of its list. *)
Theorem ListOffsetArray_reduce_nonlocal_preparenext_64_spec nextcarry nextparents nextlen maxnextparents distincts distinctslen offsetscopy offsets length parents maxcount outlength :
  0 <= length -> 1 <= zlen maxnextparents ->
  distinctslen <= zlen distincts -> outlength * maxcount <= zlen distincts ->
  length + 1 <= zlen offsets -> length + 1 <= zlen offsetscopy -> length <= zlen parents ->
  nextlen <= zlen nextcarry -> nextlen <= zlen nextparents ->
  nextlen = at_ offsets length - at_ offsets 0 ->
  (forall i, 0 <= i < length -> 0 <= at_ parents i < outlength) ->
  (forall i, 0 <= i < length -> 0 <= at_ offsets (i + 1) - at_ offsets i <= maxcount) ->
  (forall i, 0 <= i <= length -> at_ offsetscopy i = at_ offsets i) ->
  exists nc np mx d oc,
    reduce_nonlocal_preparenext nextcarry nextparents nextlen maxnextparents distincts distinctslen offsetscopy offsets length parents maxcount
    = KOk (nc, np, mx, d, oc) /\
    zlen nc = zlen nextcarry /\ zlen np = zlen nextparents /\ zlen mx = zlen maxnextparents /\
    zlen d = zlen distincts /\ zlen oc = zlen offsetscopy /\
    (forall q, 0 <= q < nextlen -> 0 <= at_ np q <= at_ mx 0) /\
    (forall q, 0 <= q < nextlen -> at_ offsets 0 <= at_ nc q < at_ offsets length) /\
    (forall q, 0 <= q < nextlen -> exists i, 0 <= i < length /\ at_ offsets i <= at_ nc q < at_ offsets (i + 1) /\
                                             at_ np q = at_ parents i * maxcount + (at_ nc q - at_ offsets i)) /\
    0 <= at_ mx 0 < Z.max 1 (outlength * maxcount) /\
    (forall i, 0 <= i < length -> at_ oc i = at_ offsets (i + 1)).
Proof.
  intros Hn H0 H1 H2 H3 H4 H5 H6 H7 Hl Hp Hm Hc.
  set (INV := pn_inv2 nextcarry nextparents maxnextparents distincts offsetscopy offsets parents length nextlen maxcount outlength).
  assert (Mono : forall i j, 0 <= i <= j -> j <= length -> at_ offsets i <= at_ offsets j).
  { apply mono_le. intros i Hi. specialize (Hm i Hi). lia. }
  assert (A3 : zsum (fun q => at_ offsets (q + 1) - at_ offsetscopy q) (Z.to_nat length) = nextlen).
  { rewrite (zsum_ext _ (fun q => at_ offsets (q + 1) - at_ offsets q)).
    - rewrite (zsum_telescope (at_ offsets)). replace (Z.of_nat (Z.to_nat length)) with length by lia. lia.
    - intros q Hq. rewrite Hc by lia. reflexivity. }
  cut (ok_post (reduce_nonlocal_preparenext nextcarry nextparents nextlen maxnextparents distincts distinctslen
                  offsetscopy offsets length parents maxcount)
         (fun r => let '(nc, np, mx, d, oc) := r in INV nc np mx d oc nextlen)).
  { intros ([[[[nc np] mx] d] oc] & E & L1 & L2 & L3 & L4 & L5 & K0 & Rg & Sm & Np & Nc & Mx).
    exists nc, np, mx, d, oc. split; [exact E|]. repeat (split; [assumption|]).
    split.
    { intros q Hq. destruct (Nc q Hq) as (i & Hi & Ri & _).
      assert (at_ offsets 0 <= at_ offsets i) by (apply Mono; lia).
      assert (at_ offsets (i + 1) <= at_ offsets length) by (apply Mono; lia). lia. }
    split; [assumption|]. split; [assumption|].
    intros i Hi. set (f := fun q => at_ offsets (q + 1) - at_ oc q) in Sm.
    assert (F0 : forall q, 0 <= q < Z.of_nat (Z.to_nat length) -> 0 <= f q).
    { intros q Hq. unfold f. assert (0 <= q < length) as Hq' by lia. specialize (Rg q Hq'). lia. }
    assert (F1 : f i <= zsum f (Z.to_nat length)) by (apply zsum_ge_term; auto; lia).
    assert (0 <= f i) by (apply F0; lia). unfold f in *. lia. }
  unfold reduce_nonlocal_preparenext. op_step.
  apply op_bind with (R := fun d0 : list Z => zlen d0 = zlen distincts).
  { destruct (Z_le_gt_dec 0 distinctslen).
    - apply (op_kfor _ (fun _ b => zlen b = zlen distincts)); auto.
      intros i s Hi Ls. op_auto. now rewrite zlen_set_nth.
    - rewrite kfor_empty by lia. now apply op_ret. }
  intros d0 Ld.
  eapply op_bind.
  - apply (op_kwhile _ _ _
      (fun s : list Z * list Z * list Z * list Z * list Z * Z => let '(nc, np, mx, d, oc) := fst s in INV nc np mx d oc (snd s))
      (fun s => nextlen - snd s)).
    + cbn [fst snd]. unfold INV, pn_inv2. rewrite zlen_set_nth.
      split; [auto|]. split; [auto|]. split; [auto|]. split; [auto|]. split; [auto|]. split; [lia|]. split.
      { intros i Hi. rewrite Hc by lia. specialize (Hm i Hi). lia. }
      split; [lia|]. split; [intros; lia|]. split; [intros; lia|].
      rewrite (at_set_nth_z maxnextparents 0) by lia. cbn. lia.
    + cbn [snd]. pose proof (zsum_nonneg (fun q => at_ offsets (q + 1) - at_ offsets q) (Z.to_nat length)) as NN.
      rewrite (zsum_telescope (at_ offsets)) in NN. lia.
    + intros [[[[[nc np] mx] d] oc] k0] Inv C. cbn [fst snd] in *. split; [lia|].
      eapply op_bind.
      * apply (op_kfor _ (fun i (st : list Z * list Z * list Z * list Z * list Z * Z * Z) =>
                 let '(nc, np, mx, d, oc, k, j) := st in
                 INV nc np mx d oc k /\ k0 <= k /\
                 (k0 < k \/ forall q, 0 <= q < i -> at_ oc q = at_ offsets (q + 1)))); [lia| |].
        { split; [exact Inv|]. split; [lia|]. right. intros; lia. }
        clear nc np mx d oc Inv.
        intros i [[[[[[nc np] mx] d] oc] k] j] Hi (Inv & Kk & Pr).
        destruct Inv as (L1 & L2 & L3 & L4 & L5 & K0 & Rg & Sm & Np & Nc & Mx).
        op_step. op_step. destruct (at_ oc i <? at_ offsets (i + 1)) eqn:C1.
        2:{ apply op_ret. split; [unfold INV, pn_inv2; repeat (split; [assumption|]); assumption|]. split; [lia|].
            destruct Pr as [Pr|Pr]; [left; lia|right]. intros q Hq. destruct (Z.eq_dec q i) as [->|Hne].
            - specialize (Rg i Hi). lia.
            - apply Pr. lia. }
        set (f := fun q => at_ offsets (q + 1) - at_ oc q) in Sm.
        assert (F0 : forall q, 0 <= q < Z.of_nat (Z.to_nat length) -> 0 <= f q).
        { intros q Hq. unfold f. assert (0 <= q < length) as Hq' by lia. specialize (Rg q Hq'). lia. }
        assert (F1 : f i <= zsum f (Z.to_nat length)) by (apply zsum_ge_term; auto; lia).
        assert (F2 : 0 < f i) by (unfold f; lia).
        assert (K1 : k < nextlen) by lia.
        pose proof (Hp i Hi) as Hpi. pose proof (Hm i Hi) as Hmi. pose proof (Rg i Hi) as Ri.
        set (v := at_ parents i * maxcount + (at_ oc i - at_ offsets i)).
        assert (V : 0 <= v < zlen d /\ v < outlength * maxcount) by (unfold v; nia).
        assert (Next : forall mx' d', zlen mx' = zlen maxnextparents -> zlen d' = zlen distincts ->
                  at_ mx' 0 = Z.max (at_ mx 0) v ->
                  INV (set_nth nc (Z.to_nat k) (at_ oc i)) (set_nth np (Z.to_nat k) v) mx' d'
                      (set_nth oc (Z.to_nat i) (at_ oc i + 1)) (k + 1)).
        { intros mx' d' M3 M4 M5. unfold INV, pn_inv2. rewrite !zlen_set_nth.
          split; [auto|]. split; [auto|]. split; [auto|]. split; [auto|]. split; [auto|]. split; [lia|]. split.
          { intros q Hq. rewrite at_set_nth_z by lia. destruct (q =? i) eqn:E; [replace q with i in * by lia; lia|apply Rg; auto]. }
          split.
          { rewrite (zsum_upd f _ (Z.to_nat length) i (-1)); try lia.
            intros q Hq. unfold f. rewrite at_set_nth_z by lia. destruct (q =? i) eqn:E; [replace q with i in * by lia|]; lia. }
          split.
          { intros q Hq. rewrite at_set_nth_z by lia. destruct (q =? k) eqn:E; [lia|].
            assert (0 <= at_ np q <= at_ mx 0) by (apply Np; lia). lia. }
          split; [|lia].
          intros q Hq. rewrite !(at_set_nth_z _ k) by lia. destruct (q =? k) eqn:E.
          - exists i. split; [lia|]. split; [lia|]. reflexivity.
          - apply Nc. lia. }
        fold v. op_auto; cbn [fst snd]; (split; [apply Next; rewrite ?zlen_set_nth; auto; rewrite ?at_set_nth_z by lia; cbn; lia|]); (split; [lia|left; lia]).
      * intros [[[[[[nc' np'] mx'] d'] oc'] k'] j'] (Inv' & Kk & Pr). apply op_ret. cbn [fst snd].
        split; [exact Inv'|].
        destruct Pr as [Pr|Pr]; [lia|].
        destruct Inv' as (_ & _ & _ & _ & _ & _ & _ & Sm & _).
        rewrite (zsum_ext _ (fun _ => 0)) in Sm by (intros q Hq; rewrite Pr by lia; lia).
        assert (Z0 : forall n, zsum (fun _ => 0) n = 0) by (induction n; cbn [zsum]; lia).
        rewrite Z0 in Sm. lia.
  - intros [[[[[nc np] mx] d] oc] k] (Inv & C). cbn [fst snd] in *. apply op_ret. cbn [fst].
    assert (k = nextlen); [|subst k; exact Inv].
    destruct Inv as (_ & _ & _ & _ & _ & _ & Rg & Sm & _).
    assert (0 <= zsum (fun q => at_ offsets (q + 1) - at_ oc q) (Z.to_nat length)).
    { apply zsum_nonneg. intros q Hq. assert (0 <= q < length) as Hq' by lia. specialize (Rg q Hq'). lia. }
    lia.
Qed.

(* ================================================================================================ *)
(** * awkward_ListOffsetArray_reduce_nonlocal_outstartsstops_64: block k of distincts (maxcount slots from
      k*maxcount) starts with [run_len] used slots (<> -1); the output list k is that run, or (0, 0) if it is empty *)
Fixpoint run_len (d : list Z) (start : Z) (n : nat) : Z :=
  match n with
  | O => 0
  | S n' => if at_ d start =? -1 then 0 else 1 + run_len d (start + 1) n'
  end.

Lemma run_len_bounds d s n : 0 <= run_len d s n <= Z.of_nat n.
Proof. revert s; induction n; intros s; cbn [run_len]; [lia|]. destruct (at_ d s =? -1); [lia|]. specialize (IHn (s + 1)). lia. Qed.

Lemma outstartsstops_while d e n s :
  0 <= s -> s + Z.of_nat n = e -> e <= zlen d ->
  kwhile n (fun stop => (stop <? e) && match kget d stop with KOk x => negb (x =? -1) | _ => true end)
           (fun stop => let* _ := kget d stop in KOk (stop + 1)) s
  = KOk (s + run_len d s n).
Proof.
  revert s; induction n; intros s Hs He Hd; cbn [kwhile run_len].
  - replace (s <? e) with false by lia. cbn [andb]. f_equal. lia.
  - replace (s <? e) with true by lia. cbn [andb]. rewrite (kget_at d s) by lia.
    destruct (at_ d s =? -1); cbn [negb]; [f_equal; lia|]. cbn [kbind]. rewrite IHn by lia. f_equal. lia.
Qed.

Theorem ListOffsetArray_reduce_nonlocal_outstartsstops_64_spec outstarts outstops distincts lendistincts outlength :
  0 <= outlength -> outlength <= zlen outstarts -> outlength <= zlen outstops -> 0 <= lendistincts <= zlen distincts ->
  exists os op, reduce_nonlocal_outstartsstops outstarts outstops distincts lendistincts outlength = KOk (os, op) /\
    zlen os = zlen outstarts /\ zlen op = zlen outstops /\
    forall k, 0 <= k ->
      if k <? outlength
      then (let maxcount := lendistincts / outlength in
            let r := run_len distincts (k * maxcount) (Z.to_nat maxcount) in
            at_ os k = (if r =? 0 then 0 else k * maxcount) /\ at_ op k = (if r =? 0 then 0 else k * maxcount + r))
      else at_ os k = at_ outstarts k /\ at_ op k = at_ outstops k.
Proof.
  intros Hol H1 H2 H3. unfold reduce_nonlocal_outstartsstops.
  set (mc := if outlength =? 0 then 0 else lendistincts / outlength).
  match goal with |- exists os op, ?rr = _ /\ _ => cut (ok_post rr (fun st : list Z * list Z =>
      zlen (fst st) = zlen outstarts /\ zlen (snd st) = zlen outstops /\
      forall k, 0 <= k ->
        if k <? outlength
        then (let r := run_len distincts (k * mc) (Z.to_nat mc) in
              at_ (fst st) k = (if r =? 0 then 0 else k * mc) /\ at_ (snd st) k = (if r =? 0 then 0 else k * mc + r))
        else at_ (fst st) k = at_ outstarts k /\ at_ (snd st) k = at_ outstops k)) end.
  - intros ([os op] & E & L1 & L2 & A). cbn [fst snd] in *.
    exists os, op. split; [exact E|]. split; [auto|]. split; [auto|].
    intros k Hk. specialize (A k Hk). destruct (k <? outlength) eqn:E1; [|auto].
    unfold mc in A. replace (outlength =? 0) with false in A by lia. exact A.
  - apply (op_kfor _ (fun j (st : list Z * list Z) =>
      zlen (fst st) = zlen outstarts /\ zlen (snd st) = zlen outstops /\
      forall k, 0 <= k ->
        if k <? j
        then (let r := run_len distincts (k * mc) (Z.to_nat mc) in
              at_ (fst st) k = (if r =? 0 then 0 else k * mc) /\ at_ (snd st) k = (if r =? 0 then 0 else k * mc + r))
        else at_ (fst st) k = at_ outstarts k /\ at_ (snd st) k = at_ outstops k)); [lia| |].
    + cbn [fst snd]. split; [auto|]. split; [auto|]. intros k Hk. replace (k <? 0) with false by lia. auto.
    + intros j [os op] Hj (L1 & L2 & A). cbn [fst snd] in *.
      assert (M : 0 <= mc /\ (j + 1) * mc <= lendistincts).
      { unfold mc. replace (outlength =? 0) with false by lia.
        assert (0 <= lendistincts / outlength) by (apply Z.div_pos; lia).
        assert (outlength * (lendistincts / outlength) <= lendistincts) by (apply Z.mul_div_le; lia). split; [lia|nia]. }
      rewrite (outstartsstops_while distincts (j * mc + mc) (Z.to_nat mc) (j * mc)) by nia. cbn [kbind].
      pose proof (run_len_bounds distincts (j * mc) (Z.to_nat mc)) as RB.
      set (r := run_len distincts (j * mc) (Z.to_nat mc)) in *.
      destruct (if j * mc + r =? j * mc then (0, 0) else (j * mc, j * mc + r)) as [a b] eqn:AB.
      op_auto. cbn [fst snd]. rewrite !zlen_set_nth. split; [auto|]. split; [auto|].
      intros k Hk. rewrite !at_set_nth_z by lia. specialize (A k Hk). destruct (k =? j) eqn:E.
      * replace (k <? j + 1) with true by lia. replace k with j by lia. fold r. cbv zeta.
        destruct (r =? 0) eqn:R0.
        -- replace (j * mc + r =? j * mc) with true in AB by lia. inversion AB. auto.
        -- replace (j * mc + r =? j * mc) with false in AB by lia. inversion AB. auto.
      * destruct (k <? j) eqn:E1; [replace (k <? j + 1) with true by lia|replace (k <? j + 1) with false by lia]; auto.
Qed.

(* ================================================================================================ *)
(** * awkward_IndexedArray_local_preparenext_64: the entries of parents are matched greedily, in order, against
      nextparents; [lp_matched n] is the number of matches among the first n entries *)
Fixpoint lp_matched (parents nextparents : list Z) (nextlen : Z) (n : nat) : Z :=
  match n with
  | O => 0
  | S n' => let j := lp_matched parents nextparents nextlen n' in
            if (j <? nextlen) && (at_ parents (Z.of_nat n') =? at_ nextparents j) then j + 1 else j
  end.

Lemma lp_matched_bounds parents nextparents nextlen n :
  0 <= lp_matched parents nextparents nextlen n <= Z.of_nat n /\
  (0 <= nextlen -> lp_matched parents nextparents nextlen n <= nextlen).
Proof.
  induction n; cbn [lp_matched]; [lia|].
  destruct ((lp_matched parents nextparents nextlen n <? nextlen) &&
            (at_ parents (Z.of_nat n) =? at_ nextparents (lp_matched parents nextparents nextlen n))) eqn:E; lia.
Qed.

(** tocarry[i] = -1 (entry i has no partner) or the number j of matches before i, and then j < nextlen and
    parents[i] = nextparents[j]: the matched entries receive 0, 1, 2, ... in order *)
Theorem IndexedArray_local_preparenext_64_spec tocarry starts parents parentslength nextparents nextlen :
  0 <= parentslength -> parentslength <= zlen parents -> parentslength <= zlen tocarry -> nextlen <= zlen nextparents ->
  (forall i, 0 <= i < parentslength -> 0 <= at_ parents i < zlen starts) ->
  exists out, IndexedArray_local_preparenext tocarry starts parents parentslength nextparents nextlen = KOk out /\
    zlen out = zlen tocarry /\
    forall q, 0 <= q ->
      at_ out q = if q <? parentslength
                  then (let j := lp_matched parents nextparents nextlen (Z.to_nat q) in
                        if (j <? nextlen) && (at_ parents q =? at_ nextparents j) then j else -1)
                  else at_ tocarry q.
Proof.
  intros Hn H1 H2 H3 Hr. unfold IndexedArray_local_preparenext.
  match goal with |- exists out, kbind ?rr _ = _ /\ _ => assert (G : ok_post rr (fun st : list Z * Z =>
      zlen (fst st) = zlen tocarry /\ snd st = lp_matched parents nextparents nextlen (Z.to_nat parentslength) /\
      forall q, 0 <= q ->
        at_ (fst st) q = if q <? parentslength
                         then (let j := lp_matched parents nextparents nextlen (Z.to_nat q) in
                               if (j <? nextlen) && (at_ parents q =? at_ nextparents j) then j else -1)
                         else at_ tocarry q)) end.
  { apply (op_kfor _ (fun n (st : list Z * Z) =>
      zlen (fst st) = zlen tocarry /\ snd st = lp_matched parents nextparents nextlen (Z.to_nat n) /\
      forall q, 0 <= q ->
        at_ (fst st) q = if q <? n
                         then (let j := lp_matched parents nextparents nextlen (Z.to_nat q) in
                               if (j <? nextlen) && (at_ parents q =? at_ nextparents j) then j else -1)
                         else at_ tocarry q)); [lia| |].
    - cbn [fst snd]. split; [auto|]. split; [reflexivity|]. intros q Hq. now replace (q <? 0) with false by lia.
    - intros i [out j] Hi (L & J & A). cbn [fst snd] in *. specialize (Hr i Hi).
      pose proof (lp_matched_bounds parents nextparents nextlen (Z.to_nat i)) as (B & _).
      assert (MS : lp_matched parents nextparents nextlen (Z.to_nat (i + 1))
                   = if (j <? nextlen) && (at_ parents i =? at_ nextparents j) then j + 1 else j).
      { replace (Z.to_nat (i + 1)) with (S (Z.to_nat i)) by lia. cbn [lp_matched].
        replace (Z.of_nat (Z.to_nat i)) with i by lia. rewrite <- J. reflexivity. }
      assert (Upd : forall v, v = (if (j <? nextlen) && (at_ parents i =? at_ nextparents j) then j else -1) ->
                forall q, 0 <= q ->
                  at_ (set_nth out (Z.to_nat i) v) q =
                  if q <? i + 1
                  then (let j := lp_matched parents nextparents nextlen (Z.to_nat q) in
                        if (j <? nextlen) && (at_ parents q =? at_ nextparents j) then j else -1)
                  else at_ tocarry q).
      { intros v Hv q Hq. rewrite at_set_nth_z by lia. destruct (q =? i) eqn:E.
        - replace (q <? i + 1) with true by lia. replace q with i by lia. cbv zeta. rewrite <- J. exact Hv.
        - rewrite A by lia. destruct (q <? i) eqn:E1; [replace (q <? i + 1) with true by lia|replace (q <? i + 1) with false by lia]; auto. }
      op_step. op_step. destruct (j <? nextlen) eqn:C1.
      + op_step. destruct (at_ parents i =? at_ nextparents j) eqn:C2; cbn [andb] in *.
        * op_auto. cbn [fst snd]. rewrite zlen_set_nth. split; [auto|]. split; [now rewrite MS|]. apply Upd. reflexivity.
        * op_auto. cbn [fst snd]. rewrite zlen_set_nth. split; [auto|]. split; [now rewrite MS|]. apply Upd. reflexivity.
      + cbn [andb] in *. op_auto. cbn [fst snd]. rewrite zlen_set_nth. split; [auto|]. split; [now rewrite MS|]. apply Upd. reflexivity. }
  destruct G as ([out j] & E & L & _ & A). rewrite E. cbn [kbind fst snd] in *. exists out. auto.
Qed.

(* ================================================================================================ *)
(** * awkward_ListOffsetArray_reduce_nonlocal_findgaps_64: one gap per new running maximum of parents
      (for sorted parents: per distinct value), gap = value - previous maximum, starting from -1 *)
Fixpoint fg_state (parents : list Z) (n : nat) : list Z * Z :=
  match n with
  | O => ([], -1)
  | S n' => let g := fst (fg_state parents n') in
            let last := snd (fg_state parents n') in
            let p := at_ parents (Z.of_nat n') in
            if last <? p then (g ++ [p - last], p) else (g, last)
  end.

Theorem ListOffsetArray_reduce_nonlocal_findgaps_64_spec gaps parents lenparents :
  0 <= lenparents <= zlen parents ->
  (forall i, 0 <= i < lenparents -> at_ parents i < zlen gaps) ->
  reduce_nonlocal_findgaps gaps parents lenparents
  = KOk (fst (fg_state parents (Z.to_nat lenparents))
         ++ skipn (length (fst (fg_state parents (Z.to_nat lenparents)))) gaps).
Proof.
  intros Hn Hr. unfold reduce_nonlocal_findgaps.
  match goal with |- kbind ?rr _ = _ => assert (G : ok_post rr (fun st : list Z * Z * Z =>
      st = (fst (fg_state parents (Z.to_nat lenparents))
            ++ skipn (length (fst (fg_state parents (Z.to_nat lenparents)))) gaps,
            zlen (fst (fg_state parents (Z.to_nat lenparents))), snd (fg_state parents (Z.to_nat lenparents))))) end.
  { eapply op_weaken; [apply (op_kfor _ (fun j (st : list Z * Z * Z) =>
      st = (fst (fg_state parents (Z.to_nat j)) ++ skipn (length (fst (fg_state parents (Z.to_nat j)))) gaps,
            zlen (fst (fg_state parents (Z.to_nat j))), snd (fg_state parents (Z.to_nat j))) /\
      zlen (fst (fg_state parents (Z.to_nat j))) <= snd (fg_state parents (Z.to_nat j)) + 1 /\
      (snd (fg_state parents (Z.to_nat j)) = -1 \/ snd (fg_state parents (Z.to_nat j)) < zlen gaps))); [lia| |]|].
    - split; [reflexivity|]. cbn. lia.
    - intros j st Hj (-> & K & B). specialize (Hr j Hj).
      replace (Z.to_nat (j + 1)) with (S (Z.to_nat j)) by lia. cbn [fg_state].
      replace (Z.of_nat (Z.to_nat j)) with j by lia.
      set (g := fst (fg_state parents (Z.to_nat j))) in *. set (last := snd (fg_state parents (Z.to_nat j))) in *.
      op_step. destruct (last <? at_ parents j) eqn:C.
      + rewrite kpush_app by lia. cbn [kbind fst snd]. apply op_ret. split; [reflexivity|].
        rewrite zlen_app. unfold zlen at 2. cbn [length]. lia.
      + apply op_ret. cbn [fst snd]. auto.
    - intros st (-> & _). reflexivity. }
  destruct G as (st & E & ->). rewrite E. reflexivity.
Qed.
