(** Column sort, part 3: lifting C and D to [sort_spec] at any axis, argsort realises sort (E), examples (F). *)
From Coq Require Import ZArith List Bool Lia ZifyBool Permutation.
From AwkV Require Import Base Layout Valid Types AtAxis Ops_Sort Typing Proofs_Typing Proofs_Lists Proofs_Sort Proofs_C06
                         Proofs_AtAxis Proofs_SortCols Proofs_SortCols2.
Import ListNotations.
Open Scope Z_scope.

(* ---------------------------------------------------------------- axes of sortable types *)
Lemma sortable_uniform t : sortable t = true -> fst (minmax t) = snd (minmax t).
Proof.
  induction t as [dt| |sz str t IH|t IH|ks ts|ts]; intros S; try discriminate S; try reflexivity.
  - destruct str as [b|]; [reflexivity|]. cbn [minmax sortable] in *. specialize (IH S).
    destruct (minmax t) as [mn mx]. cbn [fst snd] in *. lia.
  - cbn [minmax sortable] in *. auto.
Qed.
Lemma resolve_nonneg t d axis ax : sortable t = true -> 0 <= d -> resolve_axis t d axis = Ok ax -> 0 <= ax.
Proof.
  intros S Hd. pose proof (sortable_uniform t S) as Hu. unfold resolve_axis.
  destruct (0 <=? axis) eqn:E; [intros H; inversion H; lia|].
  destruct (minmax t) as [mn mx]. cbn [fst snd] in Hu. subst mx. rewrite Z.eqb_refl.
  destruct (mn + axis <? 0) eqn:E2; [discriminate|]. intros H. inversion H. lia.
Qed.
Lemma resolve_id t d ax : 0 <= ax -> resolve_axis t d ax = Ok ax.
Proof. intros H. unfold resolve_axis. destruct (0 <=? ax) eqn:E; [reflexivity|lia]. Qed.

Lemma spec_v_unfold f t d ax v : 0 <= ax -> spec_v f t d ax v = spec_body f t d ax v.
Proof. intros H. rewrite spec_v_eq, resolve_id by exact H. reflexivity. Qed.

(* ---------------------------------------------------------------- C at every axis *)
(* no string node at or above the axis: the descent never looks inside a string *)
Fixpoint nostr_to (t : ty) (d ax : Z) : bool :=
  match t with
  | TList _ str t' =>
      match str with
      | Some _ => false
      | None => if ax =? d + 1 then true else nostr_to t' (d + 1) ax
      end
  | TOpt t' => nostr_to t' d ax
  | _ => true
  end.
Definition axis_above_strings (t : ty) (axis : Z) : bool :=
  match resolve_axis t 0 axis with
  | Ok ax => if ax =? 0 then true else nostr_to t 0 ax
  | Err _ => true
  end.

Lemma sortcols_f_shape asc a t l w :
  opts_on_leaves t = true -> sortcols_f asc a t l = Ok w -> shape w = shape (VList l).
Proof.
  intros O H. unfold sortcols_f in H. apply bind_Ok in H as (out & Ho & H). inversion H; subst.
  cbn [shape]. f_equal. pose proof (sortcols_shape_partial _ _ _ O _ _ Ho (enumv_NoDup l)) as Hs.
  fold shp in Hs. rewrite !map_shp, enumv_vals in Hs. exact Hs.
Qed.

Lemma spec_v_shape asc a ax : 0 <= ax -> forall t d v w,
  spec_v (sortcols_f asc a) t d ax v = Ok w ->
  opts_on_leaves t = true -> nostr_to t d ax = true -> has_type t v -> shape w = shape v.
Proof.
  intros Hax. induction t as [dt| |sz str t IH|t IH|ks ts|ts]; intros d v w H O N Ht;
    rewrite spec_v_unfold in H by exact Hax; cbn [spec_body] in H; try discriminate H; try discriminate O.
  - cbn [nostr_to opts_on_leaves] in N, O. destruct str as [b|]; [discriminate N|].
    unfold has_type in Ht. cbn [has_typeb] in Ht. destruct v; try discriminate Ht.
    apply andb_true_iff in Ht as [Ht _]. rewrite forallb_forall in Ht.
    destruct (ax =? d + 1) eqn:E.
    + eapply sortcols_f_shape; eauto.
    + apply rmap_Ok in H as (ws & Hm & ->). cbn [shape]. f_equal.
      eapply mapM_map_eq; [exact Hm|]. intros x y Hin Hy. eapply IH; eauto. apply Ht, Hin.
  - cbn [nostr_to opts_on_leaves] in N, O. unfold has_type in Ht. cbn [has_typeb] in Ht.
    destruct v; try (eapply IH; [exact H|apply is_leaf_opts, O|exact N|exact Ht]).
    inversion H. reflexivity.
Qed.

(* the unrestricted statement is false: an option on a list type *)
Example sort_spec_preserves_lengths_refuted :
  sort_spec true false 0 (TOpt (TList None None (TNum DInt64)))
    [VList [VNum (DZ 1); VNum (DZ 2)]; VNone; VList [VNum (DZ 3)]]
  = Ok [VList [VNum (DZ 1); VNum (DZ 2)]; VList [VNum (DZ 3)]; VNone].
Proof. vm_compute. reflexivity. Qed.
(* ... and an axis pointing into a string: the characters come back as a list *)
Example sort_spec_preserves_lengths_string_refuted :
  sort_spec true false 1 (TList None (Some true) (TNum DUInt8)) [VStr true [98; 97]]
  = Ok [VList [VNum (DZ 97); VNum (DZ 98)]].
Proof. vm_compute. reflexivity. Qed.

(* ... and a string VALUE at a list type (ill-typed, but accepted by the descent of [spec_v]) *)
Example sort_spec_preserves_lengths_illtyped_refuted :
  sort_spec true false 1 (TList None None (TNum DUInt8)) [VStr true [98; 97]]
  = Ok [VList [VNum (DZ 97); VNum (DZ 98)]].
Proof. vm_compute. reflexivity. Qed.

(** [_partial]: hypotheses added to "all list lengths at all levels are unchanged":
    - [opts_on_leaves t]: options on leaf types only (else a missing list goes last in its column,
      [sort_spec_preserves_lengths_refuted]);
    - [axis_above_strings t axis]: the axis does not point into or below a string node (else the sorted
      characters come back as a list, [sort_spec_preserves_lengths_string_refuted]);
    - the elements have the type [t] (the descent of [spec_v] also accepts a string value at a list type,
      [sort_spec_preserves_lengths_illtyped_refuted]). *)
Theorem sort_spec_preserves_lengths_partial asc a axis t vs ws :
  opts_on_leaves t = true -> axis_above_strings t axis = true -> Forall (has_type t) vs ->
  sort_spec asc a axis t vs = Ok ws -> map shape ws = map shape vs.
Proof.
  intros O N Ht H. unfold sort_spec in H. apply bind_Ok in H as (ax & Hr & H).
  unfold axis_above_strings in N. rewrite Hr in N.
  destruct (sortable t) eqn:S; [|discriminate H]. cbn [negb] in H.
  pose proof (resolve_nonneg t 0 axis ax S (Z.le_refl 0) Hr) as Hax.
  destruct (ax =? 0) eqn:E.
  - apply bind_Ok in H as (out & Ho & H). inversion H; subst.
    pose proof (sortcols_shape_partial _ _ _ O _ _ Ho (enumv_NoDup vs)) as Hs.
    fold shp in Hs. rewrite !map_shp, enumv_vals in Hs. exact Hs.
  - unfold spec_ax in H. apply bind_Ok in H as (u & _ & H).
    eapply mapM_map_eq; [exact H|]. intros x y Hin Hy. eapply spec_v_shape; eauto.
    rewrite Forall_forall in Ht. apply Ht, Hin.
Qed.

(* ---------------------------------------------------------------- D at every axis *)
Lemma at_path_nonlist q v l : at_path q v = Some (VList l) -> exists l0, v = VList l0.
Proof. destruct q as [|p q]; cbn [at_path]; [intros H; inversion H; eauto|]. destruct v; try discriminate. eauto. Qed.

Lemma descend_paths (F : value -> res value) l0 ws p q L L' :
  mapM F l0 = Ok ws -> at_path (p :: q) (VList l0) = Some L -> at_path (p :: q) (VList ws) = Some L' ->
  exists x y, In x l0 /\ F x = Ok y /\ at_path q x = Some L /\ at_path q y = Some L'.
Proof.
  intros Hm H1 H2. cbn [at_path] in H1, H2.
  destruct (get l0 p) as [x|] eqn:Ex; [|discriminate]. destruct (get ws p) as [y|] eqn:Ey; [|discriminate].
  rewrite (mapM_get _ _ _ p Hm), Ex in Ey. cbn [bind] in Ey.
  exists x, y. split; [eapply get_In, Ex|]. auto.
Qed.

Lemma sortcols_f_no_cross asc t l w l' :
  sortcols_f asc false t l = Ok w -> w = VList l' ->
  forall q, Permutation (leaves_at q l') (leaves_at q l).
Proof.
  intros H -> q. unfold sortcols_f in H. apply bind_Ok in H as (out & Ho & H). inversion H; subst.
  pose proof (no_cross_list_movement _ _ _ _ Ho (enumv_NoDup l) q) as Hp. rewrite enumv_vals in Hp. exact Hp.
Qed.

Lemma spec_v_no_cross asc ax : 0 <= ax -> forall t d v w q0 l l',
  spec_v (sortcols_f asc false) t d ax v = Ok w ->
  at_path q0 v = Some (VList l) -> at_path q0 w = Some (VList l') -> zlen q0 = ax - d - 1 ->
  forall q, Permutation (leaves_at q l') (leaves_at q l).
Proof.
  intros Hax. induction t as [dt| |sz str t IH|t IH|ks ts|ts]; intros d v w q0 l l' H Hv Hw Hq q;
    rewrite spec_v_unfold in H by exact Hax; cbn [spec_body] in H; try discriminate H.
  - destruct (at_path_nonlist _ _ _ Hv) as [l0 ->].
    destruct (ax =? d + 1) eqn:E.
    + assert (q0 = []) by (apply zlen_0_nil; lia). subst q0. cbn [at_path] in Hv, Hw.
      inversion Hv; subst. inversion Hw; subst. eapply sortcols_f_no_cross; eauto.
    + apply rmap_Ok in H as (ws & Hm & ->). destruct q0 as [|p q0]; [rewrite zlen_nil in Hq; lia|].
      destruct (descend_paths _ _ _ _ _ _ _ Hm Hv Hw) as (x & y & _ & Hxy & Hx & Hy).
      eapply IH; eauto. rewrite zlen_cons in Hq. lia.
  - destruct (at_path_nonlist _ _ _ Hv) as [l0 ->]. eapply IH; eauto.
  - destruct (at_path_nonlist _ _ _ Hv) as [l0 ->]. discriminate H.
Qed.

(** D at any axis: take any path q0 of [ax] coordinates leading to a list l in the input and to a list l'
    in the output (the lists at the sorted axis); for every tuple q of inner coordinates the entries found
    at q in l' are a permutation of those found at q in l. *)
Theorem sort_spec_no_cross_list_movement asc axis t vs ws ax :
  sort_spec asc false axis t vs = Ok ws -> resolve_axis t 0 axis = Ok ax ->
  forall q0 l l', zlen q0 = ax ->
  at_path q0 (VList vs) = Some (VList l) -> at_path q0 (VList ws) = Some (VList l') ->
  forall q, Permutation (leaves_at q l') (leaves_at q l).
Proof.
  intros H Hr q0 l l' Hq Hv Hw q. unfold sort_spec in H. rewrite Hr in H. cbn [bind] in H.
  destruct (sortable t) eqn:S; [|discriminate H]. cbn [negb] in H.
  pose proof (resolve_nonneg t 0 axis ax S (Z.le_refl 0) Hr) as Hax.
  destruct (ax =? 0) eqn:E.
  - assert (q0 = []) by (apply zlen_0_nil; lia). subst q0. cbn [at_path] in Hv, Hw.
    inversion Hv; subst. inversion Hw; subst.
    apply bind_Ok in H as (out & Ho & H). inversion H; subst.
    pose proof (no_cross_list_movement _ _ _ _ Ho (enumv_NoDup l) q) as Hp. rewrite enumv_vals in Hp. exact Hp.
  - unfold spec_ax in H. apply bind_Ok in H as (u & _ & H).
    destruct q0 as [|p q0]; [rewrite zlen_nil in Hq; lia|].
    destruct (descend_paths _ _ _ _ _ _ _ H Hv Hw) as (x & y & _ & Hxy & Hx & Hy).
    eapply (spec_v_no_cross asc ax Hax t 0); eauto. rewrite zlen_cons in Hq. lia.
Qed.

(* ---------------------------------------------------------------- E: argsort realises sort *)
Definition pos_of (i : value) : Z := match i with VNum (DZ j) => j | _ => -1 end.

Lemma mapM_map_pure {A B C} (F : B -> res C) (h : A -> B) (h' : A -> C) L :
  (forall x, In x L -> F (h x) = Ok (h' x)) -> mapM F (map h L) = Ok (map h' L).
Proof.
  intros H. rewrite mapM_map, <- mapM_pure. apply mapM_ext_in. exact H.
Qed.

(* general form: [rd] reads the value of a row id *)
Lemma argsort_reads asc (rd : Z -> res value) rows ix s :
  (forall j v, In (j, v) rows -> rd j = Ok v) ->
  sort_leaves asc true rows = Ok ix -> sort_leaves asc false rows = Ok s ->
  mapM (fun i => match i with VNum (DZ j) => rd j | _ => Err EValue end) ix = Ok s.
Proof.
  intros Hrd Hi Hs. apply sort_leaves_inv in Hi as (keyed & Hk & ->).
  apply sort_leaves_inv in Hs as (keyed' & Hk' & ->). rewrite Hk in Hk'. inversion Hk'; subst keyed'.
  rewrite mapM_app.
  rewrite (mapM_map_pure _ _ (fun jk : Z * key => value_of_key (snd jk))).
  2:{ intros [j k] Hin. cbn [fst snd].
      apply (Permutation_in _ (sort_by_perm _ (kbefore asc) keyed)) in Hin.
      destruct (mapM_In_inv _ _ _ _ Hk Hin) as ([j' v] & Hjv & Hy). apply filter_In in Hjv as [Hjv _].
      unfold keyrow in Hy. cbn [fst snd] in Hy. apply bind_Ok in Hy as (k' & Hkv & Hy). inversion Hy; subst.
      rewrite (key_of_value_inv _ _ Hkv). apply Hrd, Hjv. }
  cbn [bind].
  rewrite (mapM_map_pure _ _ (fun _ : Z * value => VNone)).
  2:{ intros [j v] Hin. cbn [fst]. apply filter_In in Hin as [Hin Hn]. apply isnone_val in Hn. cbn [snd] in Hn.
      subst v. apply Hrd, Hin. }
  reflexivity.
Qed.

(** E: the positions returned by argsort, read in the original list, give the sorted list (the positions of
    the missing values come last and read back None) *)
Theorem argsort_realises_sort asc vs ix s :
  sort_leaves asc true (enumv vs) = Ok ix -> sort_leaves asc false (enumv vs) = Ok s ->
  mapM (fun i => match i with VNum (DZ j) => get vs j | _ => Err EValue end) ix = Ok s.
Proof. apply argsort_reads. apply enumv_get. Qed.

Lemma argsort_positions_rows asc rows ix :
  sort_leaves asc true rows = Ok ix -> Permutation (map pos_of ix) (map fst rows).
Proof.
  intros Hi. apply sort_leaves_inv in Hi as (keyed & Hk & ->).
  rewrite map_app, !map_map. cbn [pos_of].
  rewrite <- (part_perm rows) at 2. rewrite map_app. apply Permutation_app; [|reflexivity].
  assert (E : map fst keyed = map fst (filter notnone rows)).
  { eapply mapM_map_eq; [exact Hk|]. intros x y _ Hy. unfold keyrow in Hy.
    apply bind_Ok in Hy as (k & _ & Hy). inversion Hy. reflexivity. }
  rewrite <- E. apply Permutation_map, sort_by_perm.
Qed.

Theorem argsort_positions asc vs ix :
  sort_leaves asc true (enumv vs) = Ok ix ->
  Permutation (map (fun i => match i with VNum (DZ j) => j | _ => -1 end) ix) (iota (zlen vs)).
Proof. intros H. rewrite <- enumv_ids. apply (argsort_positions_rows _ _ _ H). Qed.

(** column version: along a non-innermost axis over leaves, the argsort entry at (row i, position p) is the
    id of the row whose entry at position p moved to (row i, position p) *)
Theorem argsort_realises_sort_cols asc sz t' rows outA outS :
  is_leaf_ty t' = true -> NoDup (map fst rows) ->
  sortcols asc true (TList sz None t') rows = Ok outA ->
  sortcols asc false (TList sz None t') rows = Ok outS ->
  forall p,
    mapM (fun i => match i with VNum (DZ j) => assocZ j (colv p rows) | _ => Err EValue end) (map snd (colv p outA))
    = Ok (map snd (colv p outS)).
Proof.
  intros L Hd HA HS p. destruct (colv p rows) as [|r c] eqn:E.
  - rewrite (sortcols_columns_empty _ _ _ _ _ _ HA p E), (sortcols_columns_empty _ _ _ _ _ _ HS p E). reflexivity.
  - rewrite <- E.
    assert (Hn : colv p rows <> []) by congruence.
    pose proof (sortcols_columns_nonempty _ _ _ _ _ _ Hd HA p Hn) as CA.
    pose proof (sortcols_columns_nonempty _ _ _ _ _ _ Hd HS p Hn) as CS.
    apply sortcols_leaf_inv in CA as (ix & Hix & _ & ->); [|exact L].
    apply sortcols_leaf_inv in CS as (s & Hs & _ & ->); [|exact L].
    eapply argsort_reads; [|exact Hix|exact Hs].
    intros j v Hin. apply assocZ_In; [apply colv_NoDup, Hd|exact Hin].
Qed.

(* ---------------------------------------------------------------- F: examples *)
Definition ex_ty : ty := TList None None (TOpt (TNum DFloat64)).
(* [[3, None, 1], [nan, 2], [0, 5, None, 7], []] *)
Definition ex_vs : list value :=
  [VList [VNum (DZ 3); VNone; VNum (DZ 1)];
   VList [VNum DNaN; VNum (DZ 2)];
   VList [VNum (DZ 0); VNum (DZ 5); VNone; VNum (DZ 7)];
   VList []].
(* sorted along axis 0: every column sorted, NaN first, None last in its column, lengths unchanged:
   [[nan, 2, 1], [0, 5], [3, None, None, 7], []] *)
Example sort_axis0_example :
  sort_spec true false 0 ex_ty ex_vs =
  Ok [VList [VNum DNaN; VNum (DZ 2); VNum (DZ 1)];
      VList [VNum (DZ 0); VNum (DZ 5)];
      VList [VNum (DZ 3); VNone; VNone; VNum (DZ 7)];
      VList []].
Proof. vm_compute. reflexivity. Qed.
(* descending: NaN still first, None still last: [[nan, 5, 1], [3, 2], [0, None, None, 7], []] *)
Example sort_axis0_desc_example :
  sort_spec false false 0 ex_ty ex_vs =
  Ok [VList [VNum DNaN; VNum (DZ 5); VNum (DZ 1)];
      VList [VNum (DZ 3); VNum (DZ 2)];
      VList [VNum (DZ 0); VNone; VNone; VNum (DZ 7)];
      VList []].
Proof. vm_compute. reflexivity. Qed.
(* argsort along axis 0: row ids per column: [[1, 1, 0], [2, 2], [0, 0, 2, 2], []] *)
Example argsort_axis0_example :
  sort_spec true true 0 ex_ty ex_vs =
  Ok [VList [VNum (DZ 1); VNum (DZ 1); VNum (DZ 0)];
      VList [VNum (DZ 2); VNum (DZ 2)];
      VList [VNum (DZ 0); VNum (DZ 0); VNum (DZ 2); VNum (DZ 2)];
      VList []].
Proof. vm_compute. reflexivity. Qed.
(* the hypotheses of the theorems hold for this array, at both axes *)
Example ex_hyps :
  opts_on_leaves ex_ty = true /\ axis_above_strings ex_ty 0 = true /\ axis_above_strings ex_ty (-1) = true /\
  Forall (has_type ex_ty) ex_vs /\ sortable ex_ty = true.
Proof. repeat split; try reflexivity. repeat constructor. Qed.
Example ex_shape_kept :
  exists ws, sort_spec true false 0 ex_ty ex_vs = Ok ws /\ map shape ws = map shape ex_vs.
Proof. eexists. split; [vm_compute; reflexivity|reflexivity]. Qed.
(* three levels, middle axis (axis 1): columns inside each outer list *)
Example sort_axis1_example :
  sort_spec true false 1 (TList None None (TList None None (TOpt (TNum DInt64))))
    [VList [VList [VNum (DZ 9); VNum (DZ 1)]; VList [VNum (DZ 4)]; VList [VNone; VNum (DZ 0); VNum (DZ 6)]];
     VList [VList [VNum (DZ 2)]; VList [VNum (DZ 1)]]]
  = Ok [VList [VList [VNum (DZ 4); VNum (DZ 0)]; VList [VNum (DZ 9)]; VList [VNone; VNum (DZ 1); VNum (DZ 6)]];
        VList [VList [VNum (DZ 1)]; VList [VNum (DZ 2)]]].
Proof. vm_compute. reflexivity. Qed.
