(** C17 fragment: the type of the layout produced by an at-axis structure operation is the type predicted from the
    input type alone ([ax_ty]); instances num and local_index; with closure (Proofs_Closure) and [to_list_typed_thm]
    the values of the result have that type. *)
From Coq Require Import ZArith List Bool Lia ZifyBool.
From AwkV Require Import Base Layout LayoutInd Valid Types AtAxis Ops_Struct Typing Proofs_Typing Proofs_C11
                         Proofs_Lists Proofs_ToList Proofs_Carry Proofs_AtAxis Proofs_AtAxisOps Proofs_Closure.
Import ListNotations.
Open Scope Z_scope.

(* ---------------------------------------------------------------- type-level image of the at-axis descent *)
Section TypeLevel.
  Variable h : ty -> ty.        (* type of the rebuilt list node at the axis, from the type of that list *)
  Variable unk_t : ty.          (* type of the result below an unknown-type leaf *)

  Fixpoint ax_ty (t : ty) (d axis : Z) {struct t} : res ty :=
    do ax <- resolve_axis t d axis;
    match t with
    | TNum _ => Err EValue
    | TUnk => Ok unk_t
    | TList sz _ t' => if ax =? d + 1 then Ok (h t) else rmap (TList sz None) (ax_ty t' (d + 1) ax)
    | TOpt t' => rmap TOpt (ax_ty t' d ax)
    | TRec ks ts =>
        rmap (TRec ks)
          ((fix all (l : list ty) : res (list ty) :=
              match l with [] => Ok [] | x :: xs => do y <- ax_ty x d ax; do ys <- all xs; Ok (y :: ys) end) ts)
    | TUnion ts =>
        rmap TUnion
          ((fix all (l : list ty) : res (list ty) :=
              match l with [] => Ok [] | x :: xs => do y <- ax_ty x d ax; do ys <- all xs; Ok (y :: ys) end) ts)
    end.

  Definition ax_ty_body (t : ty) (d ax : Z) : res ty :=
    match t with
    | TNum _ => Err EValue
    | TUnk => Ok unk_t
    | TList sz _ t' => if ax =? d + 1 then Ok (h t) else rmap (TList sz None) (ax_ty t' (d + 1) ax)
    | TOpt t' => rmap TOpt (ax_ty t' d ax)
    | TRec ks ts => rmap (TRec ks) (mapM (fun x => ax_ty x d ax) ts)
    | TUnion ts => rmap TUnion (mapM (fun x => ax_ty x d ax) ts)
    end.
  Lemma ax_ty_eq t d axis : ax_ty t d axis = do ax <- resolve_axis t d axis; ax_ty_body t d ax.
  Proof.
    destruct t; try reflexivity; cbn [ax_ty ax_ty_body]; destruct (resolve_axis _ d axis) as [ax|]; try reflexivity; cbn [bind]; f_equal.
    - induction ts as [|x xs IH]; [reflexivity|]. cbn [mapM]. rewrite <- IH. reflexivity.
    - induction ts as [|x xs IH]; [reflexivity|]. cbn [mapM]. rewrite <- IH. reflexivity.
  Qed.

  Variable g : option akind -> content -> res content.
  Variable unk : res content.
  Variable str_ok : bool.
  Hypothesis Hg : forall p c cc c', list_content c = Some cc -> g p c = Ok c' -> type_of c' = h (type_of_p p c).
  Hypothesis Hunk : forall c', unk = Ok c' -> type_of c' = unk_t.

  Lemma mapM_types (F : content -> res content) (G : ty -> res ty) cs cs' :
    mapM F cs = Ok cs' -> (forall x y, In x cs -> F x = Ok y -> G (type_of x) = Ok (type_of y)) ->
    mapM G (map type_of cs) = Ok (map type_of cs').
  Proof.
    revert cs'. induction cs as [|x xs IH]; intros cs' H HG; cbn [mapM map] in *.
    - inversion H. reflexivity.
    - apply bind_Ok in H as (y & Hy & H). apply bind_Ok in H as (ys & Hys & H). inversion H; subst.
      rewrite (HG x y (or_introl eq_refl) Hy). cbn [bind]. rewrite (IH ys Hys); [reflexivity|].
      intros x0 y0 Hx0. apply HG. right. exact Hx0.
  Qed.

  Lemma model_axp_type c : forall p d axis c', 0 <= d ->
    model_axp g unk str_ok p c d axis = Ok c' -> ax_ty (type_of_p p c) d axis = Ok (type_of c').
  Proof.
    induction c as [dt shape data| |w o c IHc|w s e c IHc|c size zl IHc|w ix c IHc|w ix c IHc|m vw c IHc
                   |m vw lsb n c IHc|c IHc|w t ix cs IHcs|cs ks n IHcs|arr rn c IHc] using content_ind';
      intros p d axis c' Hd H; rewrite model_axp_eq in H; apply bind_Ok in H as (ax & Hax & H); rewrite ax_ty_eq, Hax; cbn [bind];
      cbn [model_body] in H.
    - discriminate.
    - cbn [type_of_p ax_ty_body]. rewrite (Hunk _ H). reflexivity.
    - cbn [type_of_p ax_ty_body]. destruct (ax =? d + 1).
      + unfold gs in H. destruct (is_strk p && negb str_ok); [discriminate|]. rewrite (Hg p (ListOffset w o c) c c' eq_refl H). reflexivity.
      + apply rmap_Ok in H as (c'' & Hc'' & ->). rewrite (IHc None (d + 1) ax c'' ltac:(lia) Hc''). reflexivity.
    - cbn [type_of_p ax_ty_body]. destruct (ax =? d + 1).
      + unfold gs in H. destruct (is_strk p && negb str_ok); [discriminate|]. rewrite (Hg p (ListA w s e c) c c' eq_refl H). reflexivity.
      + apply rmap_Ok in H as (c'' & Hc'' & ->). rewrite (IHc None (d + 1) ax c'' ltac:(lia) Hc''). reflexivity.
    - cbn [type_of_p ax_ty_body]. destruct (ax =? d + 1).
      + unfold gs in H. destruct (is_strk p && negb str_ok); [discriminate|]. rewrite (Hg p (Regular c size zl) c c' eq_refl H). reflexivity.
      + apply rmap_Ok in H as (c'' & Hc'' & ->). rewrite (IHc None (d + 1) ax c'' ltac:(lia) Hc''). reflexivity.
    - apply rmap_Ok in H as (c'' & Hc'' & ->). pose proof (IHc None _ _ _ Hd Hc'') as IH.
      cbn [type_of_p] in Hax |- *. rewrite ax_ty_eq, (resolve_idem _ _ _ _ Hd Hax) in IH. exact IH.
    - apply rmap_Ok in H as (c'' & Hc'' & ->). cbn [type_of_p ax_ty_body]. rewrite (IHc None _ _ _ Hd Hc''). reflexivity.
    - apply rmap_Ok in H as (c'' & Hc'' & ->). cbn [type_of_p ax_ty_body]. rewrite (IHc None _ _ _ Hd Hc''). reflexivity.
    - apply rmap_Ok in H as (c'' & Hc'' & ->). cbn [type_of_p ax_ty_body]. rewrite (IHc None _ _ _ Hd Hc''). reflexivity.
    - apply rmap_Ok in H as (c'' & Hc'' & ->). cbn [type_of_p ax_ty_body]. rewrite (IHc None _ _ _ Hd Hc''). reflexivity.
    - apply rmap_Ok in H as (cs' & Hcs' & ->). cbn [type_of_p ax_ty_body].
      change (map (type_of_p None) cs) with (map type_of cs). change (map (type_of_p None) cs') with (map type_of cs').
      erewrite mapM_types; [reflexivity|exact Hcs'|]. rewrite Forall_forall in IHcs. intros x y Hx Hy. apply (IHcs x Hx None _ _ _ Hd Hy).
    - apply rmap_Ok in H as (cs' & Hcs' & ->). cbn [type_of_p ax_ty_body].
      change (map (type_of_p None) cs) with (map type_of cs). change (map (type_of_p None) cs') with (map type_of cs').
      erewrite mapM_types; [reflexivity|exact Hcs'|]. rewrite Forall_forall in IHcs. intros x y Hx Hy. apply (IHcs x Hx None _ _ _ Hd Hy).
    - pose proof (IHc arr _ _ _ Hd H) as IH.
      cbn [type_of_p] in Hax |- *. rewrite ax_ty_eq, (resolve_idem _ _ _ _ Hd Hax) in IH. exact IH.
  Qed.
End TypeLevel.

(* ---------------------------------------------------------------- [expand] keeps the type (unions included) *)
Lemma expand_type_p c : forall p, Valid p c -> type_of_p p (expand c) = type_of_p p c.
Proof.
  induction c as [dt shape data| |w o c IHc|w s e c IHc|c size zl IHc|w ix c IHc|w ix c IHc|m vw c IHc
                 |m vw lsb n c IHc|c IHc|w t ix cs IHcs|cs ks n IHcs|arr rn c IHc] using content_ind';
    intros p HV; inversion HV; subst; cbn [expand].
  - match goal with Hp : ParamOk p _ |- _ => pose proof (ParamOk_nonlist _ _ Hp eq_refl); subst p end.
    destruct shape as [|n dims]; [congruence|]. apply np_type. reflexivity.
  - reflexivity.
  - cbn [type_of_p]. f_equal.
    match goal with Hp : ParamOk p _, Hs : _ -> Valid None c |- _ =>
      destruct (is_strk p) eqn:Es;
      [destruct (ParamOk_str _ _ Hp Es) as (c0 & k & rn & n & dd & Hc0 & Hk & _); cbn [list_content] in Hc0; inversion Hc0; subst;
       apply (chars_expand k rn n dd)|apply (IHc None), Hs; reflexivity] end.
  - cbn [type_of_p]. f_equal.
    match goal with Hp : ParamOk p _, Hs : _ -> Valid None c |- _ =>
      destruct (is_strk p) eqn:Es;
      [destruct (ParamOk_str _ _ Hp Es) as (c0 & k & rn & n & dd & Hc0 & Hk & _); cbn [list_content] in Hc0; inversion Hc0; subst;
       apply (chars_expand k rn n dd)|apply (IHc None), Hs; reflexivity] end.
  - cbn [type_of_p]. f_equal.
    match goal with Hp : ParamOk p _, Hs : _ -> Valid None c |- _ =>
      destruct (is_strk p) eqn:Es;
      [destruct (ParamOk_str _ _ Hp Es) as (c0 & k & rn & n & dd & Hc0 & Hk & _); cbn [list_content] in Hc0; inversion Hc0; subst;
       apply (chars_expand k rn n dd)|apply (IHc None), Hs; reflexivity] end.
  - cbn [type_of_p]. apply (IHc None). assumption.
  - cbn [type_of_p]. f_equal. apply (IHc None). assumption.
  - cbn [type_of_p]. f_equal. apply (IHc None). assumption.
  - cbn [type_of_p]. f_equal. apply (IHc None). assumption.
  - cbn [type_of_p]. f_equal. apply (IHc None). assumption.
  - cbn [type_of_p]. f_equal. rewrite map_map. apply map_ext_in. intros x Hx.
    match goal with HVs : Forall (Valid None) cs |- _ => rewrite Forall_forall in IHcs, HVs; apply (IHcs x Hx None), HVs, Hx end.
  - cbn [type_of_p]. f_equal. rewrite map_map. apply map_ext_in. intros x Hx.
    match goal with HVs : Forall (Valid None) cs |- _ => rewrite Forall_forall in IHcs, HVs; apply (IHcs x Hx None), HVs, Hx end.
  - cbn [type_of_p]. apply (IHc arr). assumption.
Qed.

Theorem model_ax_type h unk_t g unk str_ok :
  (forall p c cc c', list_content c = Some cc -> g p c = Ok c' -> type_of c' = h (type_of_p p c)) ->
  (forall c', unk = Ok c' -> type_of c' = unk_t) ->
  forall c axis c', Valid None c -> model_ax g unk str_ok c axis = Ok c' ->
  ax_ty h unk_t (type_of c) 0 axis = Ok (type_of c').
Proof.
  intros Hg Hunk c axis c' HV H. unfold model_ax in H.
  pose proof (model_axp_type h unk_t g unk str_ok Hg Hunk (expand c) None 0 axis c' (Z.le_refl 0) H) as X.
  rewrite (expand_type_p c None HV) in X. exact X.
Qed.

(* ---------------------------------------------------------------- num / local_index *)
Definition num_ty (t : ty) (axis : Z) : res ty := ax_ty (fun _ => TNum DInt64) (TNum DInt64) t 0 axis.
Definition localindex_ty (t : ty) (axis : Z) : res ty :=
  ax_ty (fun _ => TList None None (TNum DInt64)) (TNum DInt64) t 0 axis.

Theorem result_type_num : forall axis c c',
  Valid None c -> num_model axis c = Ok c' -> num_ty (type_of c) axis = Ok (type_of c').
Proof.
  intros axis c c' HV H. unfold num_ty, num_model in *. eapply model_ax_type; [| |exact HV|exact H].
  - intros p x cc x' _ Hx. unfold num_g in Hx. apply bind_Ok in Hx as (bc & _ & Hx). inversion Hx. reflexivity.
  - intros x' Hx. inversion Hx. reflexivity.
Qed.
Theorem result_type_localindex : forall axis c c',
  Valid None c -> localindex_model axis c = Ok c' -> localindex_ty (type_of c) axis = Ok (type_of c').
Proof.
  intros axis c c' HV H. unfold localindex_ty, localindex_model in *. eapply model_ax_type; [| |exact HV|exact H].
  - intros p x cc x' _ Hx. unfold localindex_g in Hx. apply bind_Ok in Hx as (bc & _ & Hx). inversion Hx. reflexivity.
  - intros x' Hx. inversion Hx. reflexivity.
Qed.

(* typing preservation: the values of the result have the predicted type *)
Theorem num_result_typed : forall axis c c' ws,
  Valid None c -> num_model axis c = Ok c' -> to_list c' = Ok ws ->
  exists t', num_ty (type_of c) axis = Ok t' /\ Forall (has_type t') ws.
Proof.
  intros axis c c' ws HV H Hl. exists (type_of c'). split; [apply result_type_num; assumption|].
  apply to_list_typed_thm; [eapply num_preserves_valid; eassumption|exact Hl].
Qed.
Theorem localindex_result_typed : forall axis c c' ws,
  Valid None c -> localindex_model axis c = Ok c' -> to_list c' = Ok ws ->
  exists t', localindex_ty (type_of c) axis = Ok t' /\ Forall (has_type t') ws.
Proof.
  intros axis c c' ws HV H Hl. exists (type_of c'). split; [apply result_type_localindex; assumption|].
  apply to_list_typed_thm; [eapply localindex_preserves_valid; eassumption|exact Hl].
Qed.

Example result_type_ex :
  let c := closure_ex in
  type_of c = TUnion [TList None None (TOpt (TRec (Some [[120]; [121]])
                                               [TList (Some 2) None (TNum DInt64); TList None None (TNum DFloat64)]));
                      TList (Some 2) None (TList (Some 2) None (TNum DInt32))] /\
  num_ty (type_of c) 2 =
    Ok (TUnion [TList None None (TOpt (TRec (Some [[120]; [121]]) [TNum DInt64; TNum DInt64]));
                TList (Some 2) None (TNum DInt64)]) /\
  localindex_ty (type_of c) 1 =
    Ok (TUnion [TList None None (TNum DInt64); TList None None (TNum DInt64)]) /\
  (do r <- num_model 2 c; Ok (type_of r)) = num_ty (type_of c) 2 /\
  (do r <- localindex_model 1 c; Ok (type_of r)) = localindex_ty (type_of c) 1.
Proof. vm_compute. repeat split. Qed.
