(** Byte strings, abstract JSON values and the compact JSON printer (rj::Writer).
    MODEL ONLY: no proofs in this file. *)
From Coq Require Import ZArith List Bool Ascii String.
From AwkV Require Import Base.
Import ListNotations.
Open Scope Z_scope.

Definition bytes := list Z.

Fixpoint bytes_of_string (s : string) : bytes :=
  match s with
  | EmptyString => []
  | String a r => Z.of_N (N_of_ascii a) :: bytes_of_string r
  end.

Definition bytes_eqb (a b : bytes) : bool := list_eqb Z.eqb a b.

(* std::string::compare: lexicographic on unsigned chars *)
Fixpoint bytes_ltb (a b : bytes) : bool :=
  match a, b with
  | [], [] => false
  | [], _ :: _ => true
  | _ :: _, [] => false
  | x :: xs, y :: ys => if x <? y then true else if y <? x then false else bytes_ltb xs ys
  end.

(* what a std::string built from a const char* keeps: the prefix before the first NUL *)
Fixpoint cstr (s : bytes) : bytes :=
  match s with
  | [] => []
  | c :: r => if c =? 0 then [] else c :: cstr r
  end.

Fixpoint is_prefix (s t : bytes) : bool :=
  match s, t with
  | [], _ => true
  | _ :: _, [] => false
  | x :: xs, y :: ys => (x =? y) && is_prefix xs ys
  end.

Inductive json :=
| JNull
| JBool (b : bool)
| JInt (z : Z)
| JDbl (text : bytes)          (* a non-integral number, carried as the text rj::Writer prints for it *)
| JStr (s : bytes)
| JArr (l : list json)
| JObj (m : list (bytes * json)).

(* Value::HasMember / operator[]: first member with that name *)
Fixpoint jfind (k : bytes) (m : list (bytes * json)) : option json :=
  match m with
  | [] => None
  | (k', v) :: r => if bytes_eqb k' k then Some v else jfind k r
  end.

(* rapidjson IsInt(): representable as int32 *)
Definition is_int32 (z : Z) : bool := (-2147483648 <=? z) && (z <=? 2147483647).

(* ---------- decimal printing of integers ---------- *)
Fixpoint uint_digits (u : Decimal.uint) : bytes :=
  match u with
  | Decimal.Nil => []
  | Decimal.D0 r => 48 :: uint_digits r
  | Decimal.D1 r => 49 :: uint_digits r
  | Decimal.D2 r => 50 :: uint_digits r
  | Decimal.D3 r => 51 :: uint_digits r
  | Decimal.D4 r => 52 :: uint_digits r
  | Decimal.D5 r => 53 :: uint_digits r
  | Decimal.D6 r => 54 :: uint_digits r
  | Decimal.D7 r => 55 :: uint_digits r
  | Decimal.D8 r => 56 :: uint_digits r
  | Decimal.D9 r => 57 :: uint_digits r
  end.

Definition dec_of_Z (z : Z) : bytes :=
  match Z.to_int z with
  | Decimal.Pos u => uint_digits u
  | Decimal.Neg u => 45 :: uint_digits u
  end.

(* ---------- rj::Writer::WriteString ---------- *)
Definition hexdigit (n : Z) : Z := if n <? 10 then 48 + n else 55 + n.   (* upper case *)

Definition escape_char (c : Z) : bytes :=
  if c =? 34 then [92; 34]
  else if c =? 92 then [92; 92]
  else if c =? 8 then [92; 98]
  else if c =? 12 then [92; 102]
  else if c =? 10 then [92; 110]
  else if c =? 13 then [92; 114]
  else if c =? 9 then [92; 116]
  else if c <? 32 then [92; 117; 48; 48; hexdigit (c / 16); hexdigit (c mod 16)]
  else [c].

Definition quote (s : bytes) : bytes := 34 :: flat_map escape_char s ++ [34].

Fixpoint sep_concat (sep : bytes) (parts : list bytes) : bytes :=
  match parts with
  | [] => []
  | [p] => p
  | p :: rest => p ++ sep ++ sep_concat sep rest
  end.

(* compact text of a value, as rj::Writer emits it *)
Fixpoint json_print (j : json) : bytes :=
  match j with
  | JNull => [110; 117; 108; 108]
  | JBool true => [116; 114; 117; 101]
  | JBool false => [102; 97; 108; 115; 101]
  | JInt z => dec_of_Z z
  | JDbl t => t
  | JStr s => quote s
  | JArr l => 91 :: sep_concat [44] (map json_print l) ++ [93]
  | JObj m =>
      123 :: sep_concat [44]
               ((fix go (m : list (bytes * json)) : list bytes :=
                   match m with
                   | [] => []
                   | (k, v) :: r => (quote k ++ 58 :: json_print v) :: go r
                   end) m) ++ [125]
  end.

(* ---------- sorted string-keyed maps (std::map<std::string, T>) ---------- *)
Section PMap.
  Context {V : Type}.
  Fixpoint pset (k : bytes) (v : V) (m : list (bytes * V)) : list (bytes * V) :=
    match m with
    | [] => [(k, v)]
    | (k', v') :: r =>
        if bytes_ltb k k' then (k, v) :: m
        else if bytes_ltb k' k then (k', v') :: pset k v r
        else (k, v) :: r
    end.
  Fixpoint perase (k : bytes) (m : list (bytes * V)) : list (bytes * V) :=
    match m with
    | [] => []
    | (k', v') :: r => if bytes_eqb k' k then r else (k', v') :: perase k r
    end.
  Fixpoint pfind (k : bytes) (m : list (bytes * V)) : option V :=
    match m with
    | [] => None
    | (k', v) :: r => if bytes_eqb k' k then Some v else pfind k r
    end.
  Fixpoint psorted (m : list (bytes * V)) : bool :=
    match m with
    | [] => true
    | (k, _) :: r => match r with [] => true | (k', _) :: _ => bytes_ltb k k' && psorted r end
    end.
End PMap.
