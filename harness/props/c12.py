"""C12: operations never crash, hang, touch foreign memory or modify their inputs.
Runs the generated cases of the operation properties (C01 C03 C05 C06 C07 C09 C10) plus arbitrary,
possibly INVALID layouts through the entry points that must survive anything (validityerror, tostring, type,
form, tojson).  The driver dumps every input before and after the call (purity) and re-reads every result after
its inputs were released (aliasing); crashes, hangs (10 s per case) and — in the thorough tier, on the
ASan+UBSan build of kernels + libawkward + driver — sanitizer reports are violations with the case as replay."""
import importlib
import sys

import common as C
import gen as G

THEOREMS = ['carry_never_reads_out_of_bounds',
            'at_axis_operations_never_read_out_of_bounds',
            'valid_layouts_can_always_be_read',
            'clean_means_no_oob_no_fuel',
            'at_axis_descent_is_as_clean_as_its_action',
            'at_axis_operations_clean_on_any_layout',
            'combinations_never_reads_out_of_bounds',
            'flatten_never_reads_out_of_bounds',
            'flatten_never_reads_out_of_bounds_chars',
            'fillna_never_reads_out_of_bounds',
            'field_never_reads_out_of_bounds',
            'fields_never_reads_out_of_bounds',
            'setfield_clean_on_any_layout',
            'reduce_never_reads_out_of_bounds_partial',
            'sort_never_reads_out_of_bounds',
            'sort_on_innermost_axis_never_declines',
            'getitem_never_reads_out_of_bounds_wide',
            'getitem_with_arrays_never_reads_out_of_bounds',
            'getitem_never_reads_out_of_bounds_partial',
            'getitem_array_never_reads_out_of_bounds',
            'range_slice_never_reads_out_of_bounds',
            'validity_check_total_on_any_layout',
            'reading_any_layout_never_hangs',
            'type_level_functions_fail_cleanly',
            'memory_safety_of_all_modelled_operations',
            'results_do_not_depend_on_the_buffers']
NEEDS_SAN = True
DRIVERS = ('awkdrv', 'pydrv')
RULE = ('union of the generators of C01 C03 C05 C06 C07 C09 C10 (valid layouts x operations x arguments) plus an invalid '
        'stream (one documented rule broken at one node) through validityerror/tostring/type/form/tojson; every case '
        'with input-buffer dumps before/after and a re-read of the result after the inputs are released; '
        'non-trivial = the case has >= 2 layout nodes; distinct by case text')
ASSUMPTIONS = ['Python layer: a sample of the Python-half cases of C03 C05 C07 C08 C09 C10 runs through the real /repo Python code under pyshim with every array operand dumped (all buffers) before and after the call; crash of the driver process or a changed operand is a violation; pyshim passes arrays to C++ by value, so aliasing between Python-held buffers and C++ results is not observable there',
               'memory safety of the index arithmetic is proved for the modelled pipelines only (carry, at-axis operations, '
               'kernels in C13, repartition in C18, the Forth step function in C19, builder buffers in C14); shared_ptr '
               'lifetimes, allocator behaviour and the pybind11 boundary are covered only by the sanitizer runs',
               'quick tier runs the normal build (crash / hang / purity detection); AddressSanitizer + UBSan run in the thorough tier']
OWNERS = ['c01', 'c03', 'c05', 'c06', 'c07', 'c09', 'c10']


def cases(rng, tier):
    out = []
    sub = 'quick'
    for o in OWNERS:
        m = importlib.import_module('props.' + o)
        cs = m.cases(rng, sub)
        # a random quarter (not a prefix: owners put their special streams at the end)
        keep = cs if tier == 'thorough' else rng.sample(cs, max(350, len(cs) // 4))
        for c in keep:
            c.id = o + '_' + c.id
            c.meta['owner'] = o
            c.meta['nontrivial'] = True
        out.extend(keep)
    n = 600 if tier == 'quick' else 20000
    for i in range(n):
        a = G.gen_array(rng, depth=rng.choice([1, 2, 3, 4]), canonical_too=False, enc_kw=dict(weird_empty=0.2))
        lay = a['layout']
        b = G.break_rule(rng, lay)
        if b is not None and rng.random() < 0.7:
            lay = b[1]
            tag = 'invalid:' + b[0]
        else:
            tag = 'valid'
        out.append(C.Case('s%d' % i, 'survive', [], [G.sx(lay)], dict(nontrivial=len(G.nodes(lay)) >= 2,
                                                                      tags=dict(stream=tag), owner='c12')))
        out.append(C.Case('j%d' % i, 'survivejson', [], [G.sx(lay)], dict(nontrivial=len(G.nodes(lay)) >= 2,
                                                                         tags=dict(stream=tag), owner='c12')))
    return out


def signature(c, impl, v):
    o = c.meta.get('owner')
    if c.op == 'survivejson' and c.meta.get('tags', {}).get('stream', '').startswith('invalid'):
        return 'tojson-invalid-array-oob'
    if c.op in ('sort', 'argsort') and v.startswith('crash'):
        t = c.meta.get('type')
        tg = c.meta.get('tags', {})
        if t is not None and not tg.get('innermost') and G.list_depth(t)[1] >= 3:
            return 'sort-nonlocal-deep-oob'
    if o and o != 'c12':
        m = importlib.import_module('props.' + o)
        if hasattr(m, 'signature'):
            return m.signature(c, impl, v)
    return None


def run(cases, tier, rng):
    import check
    mod = sys.modules[__name__]
    replayed_py = [c for c in cases if c.id.startswith('py')]      # only when replaying a Python-layer case
    cases = [c for c in cases if not c.id.startswith('py')]
    s = check.default_run(mod, cases, tier)     # thorough: SAN build (NEEDS_SAN)
    # only crash-type outcomes decide C12; value disagreements belong to the owning property
    keep = []
    for f in s['findings']:
        if f['kind'] in ('crash', 'bad') or 'impure' in ' '.join(f['case_lines']):
            keep.append(f)
    s['findings'] = keep
    ncrash = sum(1 for f in keep if f['kind'] == 'crash')
    s['corr_obligations'] = {'impl:no-crash-no-hang-pure': ncrash == 0 or all(
        check.match_known(check.KNOWN, 'C12', dict(signature=f.get('signature'))) for f in keep)}
    s.setdefault('extra', {})['sanitizers'] = (tier == 'thorough')
    # ---- the Python layer of /repo (operations/*.py, _util.py) under pyshim: crash / purity of every operand
    import pyhalves as P
    P.build()
    per = 400 if tier == 'quick' else 3000
    pcs = list(replayed_py)
    for prop in (P.PROPS if not replayed_py and cases else ()):
        cs = P.CASES[prop](rng, 'quick' if tier == 'quick' else 'thorough')
        rng.shuffle(cs)
        # the rarely taken index-rewriting branches first (unions of options), then a sample of everything else
        cs.sort(key=lambda c: 0 if (c.meta.get('tags') or {}).get('union_of_options') else 1)
        for c in cs[:per]:
            c.id = 'py' + prop + '_' + c.id
            pcs.append(c)
    res = P.run_py([c.line() for c in pcs])
    pv = {}
    for c in pcs:
        r = res.get(c.id, 'crash missing')
        k = r.split(' ', 1)[0]
        pv[k] = pv.get(k, 0) + 1
        if k in ('impure', 'crash'):
            sig = 'python-layer-' + k + ':' + c.op
            f = dict(kind='crash' if k == 'crash' else 'viol', signature=sig, size=len(c.line()),
                     what='%s (Python layer of /repo under pyshim): %s' % (c.op, P.unhex(r)[:700]),
                     case_lines=[c.line(), '# python layer: ' + P.unhex(r)[:1500],
                                 '# replay: /venv/bin/python /verif/harness/py_halves.py < this file'])
            s['findings'].append(f)
            if not check.match_known(check.KNOWN, 'C12', dict(signature=sig)):
                s['corr_obligations']['impl:no-crash-no-hang-pure'] = False
    s['evaluations'] = s.get('evaluations', 0) + len(pcs)
    s['extra']['python_layer_outcomes'] = pv
    s['corr_obligations']['impl:python-layer-pure'] = not any(
        f['signature'] and str(f['signature']).startswith('python-layer-impure') for f in s['findings'])
    return s
