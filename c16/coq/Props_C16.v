(** C16 property theorems (statements only; proofs in Proofs_C16*.v). *)
From Coq Require Import ZArith List Bool.
From AwkV Require Import Base Layout Valid Types Proofs_ToList.
From AwkBuffers Require Import Buffers Proofs_C16 Proofs_C16b Proofs_C16c Proofs_C16d Proofs_C16e Proofs_C16f Proofs_C16g Proofs_C16h Proofs_C16i Proofs_C16j.
Import ListNotations.
Open Scope Z_scope.

(* naming layer: the container look-ups of from_buffers find exactly the buffers emitted under the pre-order keys *)
Theorem to_buffers_keys_preorder : forall t k, let '(f, ct, _) := label t k in relabel f ct = Ok t.
Proof. exact relabel_label. Qed.
Print Assumptions to_buffers_keys_preorder.

(* every node class, both variants of the length computation *)
Theorem lengths_recomputed_sufficient : forall c, Valid None c -> forall fixed, from_buffers_gen fixed (to_buffers c) <> Err EOob.
Proof. exact lengths_recomputed_sufficient_thm. Qed.
Print Assumptions lengths_recomputed_sufficient.

Theorem from_buffers_type : forall fixed c c', from_buffers_gen fixed (to_buffers c) = Ok c' -> type_of c' = type_of c.
Proof. exact from_buffers_type_thm. Qed.
Print Assumptions from_buffers_type.

Theorem buffers_roundtrip_partial : forall c, Valid None c -> frag16 c = true -> Proofs_ToList.chars_ok c = true ->
  exists c', from_buffers (to_buffers c) = Ok c' /\ to_list c' = to_list c /\ type_of c' = type_of c /\ clen c' = clen c.
Proof. exact buffers_roundtrip_partial_thm. Qed.
Print Assumptions buffers_roundtrip_partial.

Theorem buffers_roundtrip_refuted :
  exists c, Valid None c /\ from_buffers (to_buffers c) = Err EValue /\ exists vs, to_list c = Ok vs.
Proof. exact buffers_roundtrip_refuted_thm. Qed.
Print Assumptions buffers_roundtrip_refuted.

Theorem numpy_roundtrip : forall ra x, wf_nd x -> exists y, to_numpy_model true (from_numpy_model ra x) = Ok y /\ nd_equiv y x.
Proof. exact numpy_roundtrip_thm. Qed.
Print Assumptions numpy_roundtrip.

Theorem from_numpy_value : forall ra x, wf_nd x -> to_list (from_numpy_model ra x) = nd_value x.
Proof. exact from_numpy_value_thm. Qed.
Print Assumptions from_numpy_value.

Theorem to_numpy_is_to_list_partial : forall ra x y, wf_nd x ->
  to_numpy_model true (from_numpy_model ra x) = Ok y -> nd_value y = to_list (from_numpy_model ra x).
Proof. exact to_numpy_is_to_list_partial_thm. Qed.
Print Assumptions to_numpy_is_to_list_partial.

Theorem to_numpy_size0_refuted :
  exists c y, Valid None c /\ to_numpy_model true c = Ok y /\ to_list c = Ok [VList []; VList []; VList []] /\ nd_value y = Ok [].
Proof. exact to_numpy_size0_refuted_thm. Qed.
Print Assumptions to_numpy_size0_refuted.

Theorem arrow_offsets_rebase_spec : forall (child : list value) o o0 rest,
  o = o0 :: rest -> 0 <= o0 -> Forall (fun ab : Z * Z => fst ab = snd ab \/ o0 <= fst ab) (pairs o) ->
  arrow_list (rebase o) (drop o0 child) = arrow_list o child.
Proof. exact arrow_offsets_rebase_spec_thm. Qed.
Print Assumptions arrow_offsets_rebase_spec.

Theorem arrow_offsets_compact_spec : forall (child : list value) s e ls,
  cut2 child s e = Ok ls -> arrow_list (compact_offsets s e) (concat ls) = Ok (map VList ls).
Proof. exact arrow_offsets_compact_spec_thm. Qed.
Print Assumptions arrow_offsets_compact_spec.

Theorem bytemask_to_bitmap_spec : forall bits i, 0 <= i < zlen bits ->
  bitmap_bit (pack_lsb bits) i = Ok (nth (Z.to_nat i) bits false).
Proof. exact bytemask_to_bitmap_spec_thm. Qed.
Print Assumptions bytemask_to_bitmap_spec.

Theorem bitmap_padding_zero : forall bits i, 0 <= i -> i / 8 = (zlen bits - 1) / 8 -> zlen bits <= i -> 0 < zlen bits ->
  bitmap_bit (pack_lsb bits) i = Ok false.
Proof. exact bitmap_padding_zero_thm. Qed.
Print Assumptions bitmap_padding_zero.

(* ---- session 5: the round trip on wider fragments (Proofs_C16f/g/h.v).
   fragG fixed sl: see Proofs_C16f.v; fragG false false contains frag16 (frag16_in_fragG) plus NumpyArray with zero inner
   dimensions and BitMaskedArray over records where to_buffers does not range-slice it. *)
Theorem buffers_roundtrip_partial2 : forall c, Valid None c -> fragG false false c = true -> Proofs_ToList.chars_ok c = true ->
  exists c', from_buffers (to_buffers c) = Ok c' /\ to_list c' = to_list c /\ type_of c' = type_of c /\ clen c' = clen c.
Proof. exact buffers_roundtrip_partial2_thm. Qed.
Print Assumptions buffers_roundtrip_partial2.

(* the proposed repair: every node class and nesting; only offsets outside the content (all lists empty) stay excluded *)
Theorem buffers_roundtrip_fixed_partial : forall c, Valid None c -> offs_in c = true -> Proofs_ToList.chars_ok c = true ->
  exists c', from_buffers_gen true (to_buffers c) = Ok c' /\ to_list c' = to_list c /\ type_of c' = type_of c /\ clen c' = clen c.
Proof. exact buffers_roundtrip_fixed_partial_thm. Qed.
Print Assumptions buffers_roundtrip_fixed_partial.

Theorem buffers_roundtrip_gen_partial : forall fixed c, Valid None c -> fragG fixed false c = true -> Proofs_ToList.chars_ok c = true ->
  exists c', from_buffers_gen fixed (to_buffers c) = Ok c' /\ to_list c' = to_list c /\ type_of c' = type_of c /\ clen c' = clen c.
Proof. exact buffers_roundtrip_gen_thm. Qed.
Print Assumptions buffers_roundtrip_gen_partial.

Theorem frag16_in_fragG : forall c, frag16 c = true -> fragG false false c = true /\ offs_in c = true.
Proof. exact frag16_in_fragG_thm. Qed.
Print Assumptions frag16_in_fragG.

(* exact_tree: every ByteMasked / ListArray / Union node is asked for exactly the length of the index buffer it keeps *)
Theorem pinned_is_fixed_when_exact : forall c, exact_tree (to_ftree c None) (clen c) = true -> from_buffers (to_buffers c) = from_buffers_gen true (to_buffers c).
Proof. exact pinned_is_fixed_when_exact_thm. Qed.
Print Assumptions pinned_is_fixed_when_exact.

Theorem buffers_roundtrip_exact_partial : forall c, Valid None c -> offs_in c = true -> Proofs_ToList.chars_ok c = true -> exact_tree (to_ftree c None) (clen c) = true ->
  exists c', from_buffers (to_buffers c) = Ok c' /\ to_list c' = to_list c /\ type_of c' = type_of c /\ clen c' = clen c.
Proof. exact buffers_roundtrip_exact_partial_thm. Qed.
Print Assumptions buffers_roundtrip_exact_partial.

(* safe_tree t l1 l2 (Proofs_C16i.v): the pinned code asks for l1, the repair for l2 >= l1, and wherever the rebuilt node
   depends on the asked length the two are equal; covers contents that come back whole AND nodes asked exactly *)
Theorem pinned_is_fixed_when_safe : forall c c',
  safe_tree (to_ftree c None) (clen c) (clen c) = true ->
  from_buffers_gen true (to_buffers c) = Ok c' -> from_buffers (to_buffers c) = Ok c'.
Proof. exact pinned_is_fixed_when_safe_thm. Qed.
Print Assumptions pinned_is_fixed_when_safe.

Theorem buffers_roundtrip_safe_partial : forall c,
  Valid None c -> offs_in c = true -> Proofs_ToList.chars_ok c = true -> safe_tree (to_ftree c None) (clen c) (clen c) = true ->
  exists c', from_buffers (to_buffers c) = Ok c' /\ to_list c' = to_list c /\ type_of c' = type_of c /\ clen c' = clen c.
Proof. exact buffers_roundtrip_safe_partial_thm. Qed.
Print Assumptions buffers_roundtrip_safe_partial.

(* tight layouts (every node reaches exactly the whole of its content, as after ak.packed): the identity, buffers included *)
Theorem buffers_roundtrip_identity : forall fixed c, tightS false c = true -> from_buffers_gen fixed (to_buffers c) = Ok c.
Proof. exact buffers_roundtrip_identity_thm. Qed.
Print Assumptions buffers_roundtrip_identity.

(* node classes, widths, sizes, record keys and every parameter survive: any layout, both variants *)
Theorem from_buffers_skeleton : forall fixed c c', from_buffers_gen fixed (to_buffers c) = Ok c' -> skel_of c' = skel_of c.
Proof. exact from_buffers_skeleton_thm. Qed.
Print Assumptions from_buffers_skeleton.

Theorem from_buffers_parameters : forall fixed c c', from_buffers_gen fixed (to_buffers c) = Ok c' -> params_of (skel_of c') = params_of (skel_of c).
Proof. exact from_buffers_parameters_thm. Qed.
Print Assumptions from_buffers_parameters.

(* known finding buffers-trimmed-content-under-untrimmed-parent: ListArray over a record, an INVALID layout comes back *)
Theorem buffers_roundtrip_invalid_result_refuted : exists c c', Valid None c /\ from_buffers (to_buffers c) = Ok c' /\ validb None c' = false /\
               (exists vs, to_list c = Ok vs) /\ to_list c' = Err EOob /\ rt_value true c = to_list c.
Proof. exact buffers_roundtrip_invalid_result_refuted_thm. Qed.
Print Assumptions buffers_roundtrip_invalid_result_refuted.

(* same finding, no list needed: RegularArray(ByteMaskedArray(RecordArray)) with a remainder *)
Theorem buffers_roundtrip_top_level_refuted : exists c, Valid None c /\ from_buffers (to_buffers c) = Err EValue /\ (exists vs, to_list c = Ok vs) /\
            rt_value true c = to_list c /\ exists c0 size zl, c = Regular c0 size zl.
Proof. exact buffers_roundtrip_top_level_refuted_thm. Qed.
Print Assumptions buffers_roundtrip_top_level_refuted.

(* known finding buffers-empty-lists-offsets-beyond-content; the repair does not touch this branch *)
Theorem buffers_offsets_outside_content_refuted : exists c, Valid None c /\ (exists vs, to_list c = Ok vs) /\ forall fixed, from_buffers_gen fixed (to_buffers c) = Err EValue.
Proof. exact buffers_offsets_outside_content_refuted_thm. Qed.
Print Assumptions buffers_offsets_outside_content_refuted.

(* same branch with negative equal offsets: a RegularArray of negative length comes back (variant not in the finding's text) *)
Theorem buffers_offsets_negative_refuted : exists c c', Valid None c /\ to_list c = Ok [VList []] /\
               (forall fixed, from_buffers_gen fixed (to_buffers c) = Ok c') /\ to_list c' = Err EValue.
Proof. exact buffers_offsets_negative_refuted_thm. Qed.
Print Assumptions buffers_offsets_negative_refuted.

(* ---- session 5: Arrow / NumPy laws (Proofs_C16e.v) *)
Theorem arrow_validity_bitmap_roundtrip : forall bits : list bool,
  map (bitmap_bit (pack_lsb bits)) (iota (zlen bits)) = map Ok bits /\
  unpack_lsb (pack_lsb bits) (zlen bits) = Ok bits /\
  zlen (pack_lsb bits) = (zlen bits + 7) / 8 /\
  (forall i, zlen bits <= i < 8 * zlen (pack_lsb bits) -> bitmap_bit (pack_lsb bits) i = Ok false) /\
  Forall (fun b => 0 <= b < 256) (pack_lsb bits).
Proof. exact arrow_validity_bitmap_roundtrip_thm. Qed.
Print Assumptions arrow_validity_bitmap_roundtrip.

Theorem arrow_validity_bytemask_roundtrip : forall vw m, Forall (fun b => b = 0 \/ b = 1) m ->
  rmap (valid_mask vw) (unpack_lsb (pack_lsb (mask_valid vw m)) (zlen m)) = Ok m.
Proof. exact arrow_validity_bytemask_roundtrip_thm. Qed.
Print Assumptions arrow_validity_bytemask_roundtrip.

Theorem arrow_validity_bytemask_roundtrip_gen : forall vw m,
  rmap (valid_mask vw) (unpack_lsb (pack_lsb (mask_valid vw m)) (zlen m)) = Ok (map (fun b => if b =? 0 then 0 else 1) m).
Proof. exact arrow_validity_bytemask_roundtrip_gen_thm. Qed.
Print Assumptions arrow_validity_bytemask_roundtrip_gen.

Theorem arrow_bitmap_is_bitmasked_mask : forall bits : list bool, take (zlen bits) (unpack_bits true (pack_lsb bits)) = map (fun b : bool => if b then 1 else 0) bits.
Proof. exact arrow_bitmap_is_bitmasked_mask_thm. Qed.
Print Assumptions arrow_bitmap_is_bitmasked_mask.

Theorem arrow_offsets_window : forall (child : list value) o o0 rest hi,
  o = o0 :: rest -> 0 <= o0 ->
  Forall (fun ab : Z * Z => fst ab = snd ab \/ (o0 <= fst ab /\ snd ab <= hi)) (pairs o) ->
  arrow_list (rebase o) (take (hi - o0) (drop o0 child)) = arrow_list o child.
Proof. exact arrow_offsets_window_thm. Qed.
Print Assumptions arrow_offsets_window.

Theorem arrow_sliced_offsets_value : forall (child : list value) o o0 rest,
  o = o0 :: rest -> 0 <= o0 -> Forall (fun ab : Z * Z => fst ab <= snd ab) (pairs o) ->
  arrow_list (rebase o) (take (last o o0 - o0) (drop o0 child)) = arrow_list o child.
Proof. exact arrow_sliced_offsets_value_thm. Qed.
Print Assumptions arrow_sliced_offsets_value.

Theorem arrow_sliced_content_exact : forall (child : list value) o o0 rest,
  o = o0 :: rest -> 0 <= o0 -> Forall (fun ab : Z * Z => fst ab <= snd ab) (pairs o) -> last o o0 <= zlen child ->
  exists rest', rebase o = 0 :: rest' /\ last (rebase o) 0 = last o o0 - o0 /\
                zlen (take (last o o0 - o0) (drop o0 child)) = last (rebase o) 0.
Proof. exact arrow_sliced_content_exact_thm. Qed.
Print Assumptions arrow_sliced_content_exact.

Theorem arrow_compact_offsets_tight : forall (child : list value) s e ls,
  cut2 child s e = Ok ls ->
  exists rest, compact_offsets s e = 0 :: rest /\ zlen (compact_offsets s e) = zlen ls + 1 /\
               last (compact_offsets s e) 0 = zlen (concat ls) /\
               arrow_list (compact_offsets s e) (concat ls) = Ok (map VList ls).
Proof. exact arrow_compact_offsets_tight_thm. Qed.
Print Assumptions arrow_compact_offsets_tight.

Theorem arrow_nullable_is_bytemasked : forall m vw (child : list value),
  arrow_nullable (pack_lsb (mask_valid vw m)) (zlen m) child =
  mapM (fun im : Z * Z => let (i, b) := im in pick_opt child (Bool.eqb (negb (b =? 0)) vw) i) (zip (iota (zlen m)) m).
Proof. exact arrow_nullable_is_bytemasked_thm. Qed.
Print Assumptions arrow_nullable_is_bytemasked.

Theorem arrow_option_below_top_preserved : forall w o m vw c,
  to_list (ListOffset w o (ByteMasked m vw c)) =
  bind (to_list c) (fun child =>
  bind (arrow_nullable (pack_lsb (mask_valid vw m)) (zlen m) child) (fun items =>
  arrow_list o items)).
Proof. exact arrow_option_below_top_preserved_thm. Qed.
Print Assumptions arrow_option_below_top_preserved.

Theorem arrow_option_below_top_sliced : forall w o o0 rest m vw c,
  o = o0 :: rest -> 0 <= o0 -> Forall (fun ab : Z * Z => fst ab <= snd ab) (pairs o) ->
  to_list (ListOffset w o (ByteMasked m vw c)) =
  bind (to_list c) (fun child =>
  bind (arrow_nullable (pack_lsb (mask_valid vw m)) (zlen m) child) (fun items =>
  arrow_list (rebase o) (take (last o o0 - o0) (drop o0 items)))).
Proof. exact arrow_option_below_top_sliced_thm. Qed.
Print Assumptions arrow_option_below_top_sliced.

Theorem arrow_nullable_none : forall m vw (child items : list value) i,
  arrow_nullable (pack_lsb (mask_valid vw m)) (zlen m) child = Ok items -> 0 <= i < zlen m ->
  get items i = if Bool.eqb (negb (nth (Z.to_nat i) m 0 =? 0)) vw then get child i else Ok VNone.
Proof. exact arrow_nullable_none_thm. Qed.
Print Assumptions arrow_nullable_none.

Theorem to_numpy_masked_roundtrip : forall ra x m, wf_nd x -> nd_mask x = Some m ->
  exists y, to_numpy_model true (from_numpy_model ra x) = Ok y /\ nd_equiv y x /\
            nd_value y = to_list (from_numpy_model ra x) /\ nd_value y = nd_value x /\
            nd_shape y = nd_shape x /\ nd_dt y = nd_dt x /\ nd_mask y = Some m /\
            nd_data y = blank m (nd_data x).
Proof. exact to_numpy_masked_roundtrip_thm. Qed.
Print Assumptions to_numpy_masked_roundtrip.

Theorem to_numpy_strict_on_masked : forall ra x m, wf_nd x -> nd_mask x = Some m ->
  to_numpy_model false (from_numpy_model ra x) =
  if any_true m then Err EValue else Ok (mk_nd (nd_dt x) (nd_shape x) (nd_data x) None).
Proof. exact to_numpy_strict_on_masked_thm. Qed.
Print Assumptions to_numpy_strict_on_masked.

(* to_numpy agrees with to_list on every layout to_numpy accepts (not only on the image of from_numpy); np_frag: no
   RegularArray of size 0 (to_numpy_size0_refuted, known finding numpy-zero-length-dimension); nd_ok: the result is well formed *)
Theorem to_numpy_is_to_list_partial2 : forall am c y,
  np_frag c = true -> to_numpy_model am c = Ok y -> to_list c = nd_value y /\ nd_ok y.
Proof. exact to_numpy_is_to_list_partial2_thm. Qed.
Print Assumptions to_numpy_is_to_list_partial2.

Theorem from_numpy_to_numpy_value : forall am ra c y,
  np_frag c = true -> to_numpy_model am c = Ok y -> Forall (fun d => 0 < d) (tl (nd_shape y)) ->
  to_list (from_numpy_model ra y) = to_list c /\ wf_nd y.
Proof. exact from_numpy_to_numpy_value_thm. Qed.
Print Assumptions from_numpy_to_numpy_value.
