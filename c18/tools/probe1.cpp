#include "drv_common.h"
using namespace drv;
int main() {
  Sx x = parse_line("(ix i64 (1 0) (rec 2 (a x) (np int64 (2) (2 7)) (lo i64 (0 1 3) (np int64 (3) (9 7 2)))))");
  ContentPtr c = build(x);
  ReducerCount r;
  try { std::cout << c->reduce(r, -1, false, false)->tojson(false, 1) << std::endl; }
  catch (std::exception& e) { std::cout << "ix-over-rec: " << e.what() << std::endl; }
  ContentPtr d = build(parse_line("(rec 2 (a x) (np int64 (2) (2 7)) (lo i64 (0 1 3) (np int64 (3) (9 7 2))))"));
  try { std::cout << d->reduce(r, -1, false, false)->tojson(false, 1) << std::endl; }
  catch (std::exception& e) { std::cout << "rec: " << e.what() << std::endl; }
}
