# Python re-implementation of src/python/content.cpp: getitem<T>() and toslice()/toslice_part().
# (content.cpp cannot be compiled in this sandbox; this file is the substitute and is NOT upstream code.)
import numpy

from pyshim import core
from pyshim import content as C
from pyshim.core import hx, e_str, e_strs
from pyshim.nodes import FILENAME_SUFFIX

_INT64_MIN = -(2 ** 63)
_INT64_MAX = 2 ** 63 - 1


def _cast_i64(x):
    # pybind11 cast<int64_t>: ints and objects with __index__; floats are refused
    if isinstance(x, float):
        raise RuntimeError("Unable to cast Python instance to C++ type (int64_t)")
    try:
        v = x.__index__()
    except Exception:
        raise RuntimeError("Unable to cast Python instance to C++ type (int64_t)")
    if not (_INT64_MIN <= v <= _INT64_MAX):
        raise RuntimeError("Unable to cast Python instance to C++ type (int64_t)")
    return v


def is_iterable(obj):
    # py::isinstance<py::iterable>: PyObject_GetIter succeeds (so the legacy __getitem__ protocol counts and
    # zero-dimensional NumPy arrays do not)
    try:
        iter(obj)
    except TypeError:
        return False
    return True


def handle_as_numpy(content):
    if isinstance(content, (C.NumpyArray, C.EmptyArray)):
        return True
    if isinstance(content, C.RegularArray):
        return handle_as_numpy(content.content)
    if isinstance(content, (C.IndexedArray32, C.IndexedArrayU32, C.IndexedArray64)):
        return handle_as_numpy(content.content)
    if isinstance(content, C._UnionArray):
        first = content.content(0)
        for i in range(1, content.numcontents):
            if not first.mergeable(content.content(i), False):
                return False
        return handle_as_numpy(first)
    return False


def _arr_item(intarray, frombool):
    intarray = numpy.ascontiguousarray(intarray, dtype=numpy.int64)
    shape = intarray.shape
    strides = [s // 8 for s in intarray.strides]
    return "(arr (i64 x%s) (%s) (%s) %d)" % (
        intarray.tobytes().hex(), " ".join(str(x) for x in shape), " ".join(str(x) for x in strides), 1 if frombool else 0)


def toslice_part(out, obj):
    import awkward as ak

    if hasattr(obj, "__index__"):
        success = True
        try:
            index = obj.__index__()
            if not isinstance(index, int) or not (_INT64_MIN <= index <= _INT64_MAX):
                raise RuntimeError("Unable to cast Python instance to C++ type (int64_t)")
        except RuntimeError:
            raise
        except Exception:
            success = False
        if success:
            out.append("(at %d)" % index)
            return

    if isinstance(obj, int):
        out.append("(at %d)" % _cast_i64(obj))

    elif isinstance(obj, slice):
        start = "none" if obj.start is None else str(_cast_i64(obj.start))
        stop = "none" if obj.stop is None else str(_cast_i64(obj.stop))
        step = 1 if obj.step is None else _cast_i64(obj.step)
        if step == 0:
            raise ValueError("slice step must not be 0" + FILENAME_SUFFIX)
        out.append("(rng %s %s %d)" % (start, stop, step))

    elif obj is Ellipsis:
        out.append("ell")

    elif obj is None:
        out.append("newaxis")

    elif isinstance(obj, str):
        out.append("(fld %s)" % e_str(obj))

    elif is_iterable(obj):
        strings = []
        all_strings = True
        for x in obj:
            if isinstance(x, str):
                strings.append(x)
            else:
                all_strings = False
                break
        if all_strings and len(strings) != 0:
            out.append("(flds %s)" % e_strs(strings))
            return

        content = None
        if isinstance(obj, numpy.ma.MaskedArray):
            content = ak.from_numpy(obj, False, False, False)
        elif isinstance(obj, numpy.ndarray):
            pass
        elif isinstance(obj, C.Content):
            content = obj
            from pyshim import virtual

            if isinstance(content, virtual.VirtualArray):
                content = content.array
        elif isinstance(obj, ak.layout.ArrayBuilder):
            content = obj.snapshot()
        elif isinstance(obj, ak.Array):
            tmp = obj.layout
            if isinstance(tmp, ak.partition.PartitionedArray):
                content = tmp.toContent()
                obj = content
            else:
                content = tmp
        elif isinstance(obj, ak.ArrayBuilder):
            content = obj.snapshot().layout
        elif isinstance(obj, ak.partition.PartitionedArray):
            content = obj.toContent()
            obj = content
        else:
            obj = ak.from_iter(obj, False)
            bad = False
            asarray = None
            try:
                asarray = ak.to_numpy(obj, False)
            except Exception:
                bad = True
            if not bad:
                asarray = numpy.asarray(asarray)
                if not _is_primitive(asarray.dtype):
                    bad = True
            if bad:
                content = obj
            else:
                obj = asarray

        if content is not None and not handle_as_numpy(content):
            if content.parameter("__array__") in ("string", "bytestring"):
                lst = ak.to_list(content)
                strings = []
                for x in lst:
                    if not isinstance(x, str):
                        raise RuntimeError("Unable to cast Python instance to C++ type (std::string)")
                    strings.append(x)
                out.append("(flds %s)" % e_strs(strings))
            else:
                out.append("(content %s)" % content._sx(False))
        else:
            if isinstance(obj, numpy.ndarray):
                array = obj
                isarray = True
            elif isinstance(obj, ak.Array):
                array = numpy.asarray(obj)
                isarray = False
            elif isinstance(obj, C.NumpyArray):
                array = numpy.asarray(obj)
                isarray = False
            else:
                # RegularArray / IndexedArray / UnionArray / EmptyArray of plain numbers:
                # pybind11 converts through the sequence protocol; ak.to_numpy gives the same values
                array = numpy.asarray(ak.to_numpy(obj, False))
                isarray = False
            if array.ndim == 0:
                raise ValueError("arrays used as an index must have at least one dimension" + FILENAME_SUFFIX)
            if array.dtype == numpy.bool_:
                for x in numpy.nonzero(array):
                    out.append(_arr_item(numpy.asarray(x, numpy.int64), True))
            else:
                flatlen = array.size
                if isarray and not _is_native_integer(array.dtype) and flatlen != 0:
                    raise ValueError("arrays used as an index must be a (native-endian) integer or boolean" + FILENAME_SUFFIX)
                try:
                    intarray = numpy.asarray(array, numpy.int64)
                except Exception:
                    raise ValueError("arrays used as an index must be a (native-endian) integer or boolean" + FILENAME_SUFFIX)
                out.append(_arr_item(intarray, False))
    else:
        raise ValueError(
            "only integers, slices (`:`), ellipsis (`...`), numpy.newaxis (`None`), "
            "and integer or boolean arrays (possibly jagged) are valid indices" + FILENAME_SUFFIX)


def _is_native_integer(dt):
    return dt.kind in "iu" and dt.isnative and dt.itemsize in (1, 2, 4, 8)


def _is_primitive(dt):
    if dt.kind in "biufcMm" and dt.isnative:
        return True
    return False


def toslice(obj):
    out = []
    if isinstance(obj, tuple):
        for x in obj:
            toslice_part(out, x)
    else:
        toslice_part(out, obj)
    return "(" + " ".join(out) + ")"


def slice_tostring(obj):
    with core.request_scope():
        return core.unhx_str(core.request("slice_tostring " + toslice(obj)))


def getitem(self, obj):
    """getitem<T>(self, obj) of content.cpp; self is a Content, Record or builder-like with _getitem_* hooks."""
    if isinstance(obj, int):
        return self._getitem_at(_cast_i64(obj))
    if isinstance(obj, slice):
        step = obj.step
        if step is None or (isinstance(step, int) and _cast_i64(step) == 1):
            start = None if obj.start is None else _cast_i64(obj.start)
            stop = None if obj.stop is None else _cast_i64(obj.stop)
            return self._getitem_range(start, stop)
    if isinstance(obj, str):
        return self._getitem_field(obj)
    if not isinstance(obj, tuple) and is_iterable(obj):
        strings = []
        all_strings = True
        for x in obj:
            if isinstance(x, str):
                strings.append(x)
            else:
                all_strings = False
                break
        if all_strings and len(strings) != 0:
            return self._getitem_fields(strings)
    return self._getitem_slice(toslice(obj))


def at_public(self, at):
    return self._getitem_at(_cast_i64(at))


def _install_hooks():
    def at(self, i):
        return self._callc("getitem_at", str(i))

    def rng(self, start, stop):
        return self._callc("getitem_range", "none" if start is None else str(start), "none" if stop is None else str(stop))

    def fld(self, key):
        return self._callc("getitem_field", e_str(key))

    def flds(self, keys):
        return self._callc("getitem_fields", e_strs(keys))

    def slc(self, sx):
        return self._callc("getitem", sx)

    for cls in (C.Content, C.Record):
        cls._getitem_at = at
        cls._getitem_range = rng
        cls._getitem_field = fld
        cls._getitem_fields = flds
        cls._getitem_slice = slc
        # public conveniences (the pybind11 module reaches these only through __getitem__)
        cls.getitem_at = lambda self, at: at_public(self, at)
        cls.getitem_range = lambda self, start, stop: rng(self, None if start is None else _cast_i64(start), None if stop is None else _cast_i64(stop))
        cls.getitem_field = fld
        cls.getitem_fields = lambda self, keys: flds(self, list(keys))


_install_hooks()
