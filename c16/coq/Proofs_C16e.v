(** C16 proofs, part 6: Arrow validity bitmaps as whole-list laws, sliced offsets, option-type items below a list,
    masked NumPy round trips (allow_missing true / false). *)
From Coq Require Import ZArith List Bool Lia ZifyBool.
From AwkV Require Import Base Layout LayoutInd Valid Types Proofs_Lists Proofs_C11 Proofs_Typing Proofs_ToList Proofs_Carry.
From AwkBuffers Require Import Buffers Proofs_C16 Proofs_C16b Proofs_C16c Proofs_C16d.
Import ListNotations.
Open Scope Z_scope.
Ltac Zify.zify_post_hook ::= Z.to_euclidean_division_equations.

(* ================================================================================================================ *)
(** (1) validity bitmaps *)

(* byte mask (any polarity) -> validity bits -> byte mask *)
Definition mask_valid (vw : bool) (m : list Z) : list bool := map (fun b => Bool.eqb (negb (b =? 0)) vw) m.
Definition valid_mask (vw : bool) (v : list bool) : list Z := map (fun b : bool => if Bool.eqb b vw then 1 else 0) v.
(* reading the first n bits of a bitmap *)
Definition unpack_lsb (bm : list Z) (n : Z) : res (list bool) := mapM (bitmap_bit bm) (iota n).

Lemma get_nth_e {A} (l : list A) i d : 0 <= i < zlen l -> get l i = Ok (nth (Z.to_nat i) l d).
Proof.
  intros Hi. unfold get. replace (i <? 0) with false by lia.
  rewrite (nth_error_nth' l d) by (unfold zlen in Hi; lia). reflexivity.
Qed.
Lemma map_nth_iota {A} (l : list A) d : map (fun i => nth (Z.to_nat i) l d) (iota (zlen l)) = l.
Proof.
  pose proof (zlen_nonneg l) as Hl. apply get_ext.
  - rewrite zlen_map, zlen_iota by lia. reflexivity.
  - intros i Hi. rewrite zlen_map, zlen_iota in Hi by lia. rewrite get_map, get_iota by lia. cbn [rmap].
    symmetry. apply get_nth_e. exact Hi.
Qed.

Lemma bitmap_bits_list bits : map (bitmap_bit (pack_lsb bits)) (iota (zlen bits)) = map Ok bits.
Proof.
  rewrite <- (map_nth_iota bits false) at 3. rewrite map_map. apply map_ext_in. intros i Hi. apply iota_In' in Hi.
  apply bytemask_to_bitmap_spec_thm. exact Hi.
Qed.
Lemma unpack_pack bits : unpack_lsb (pack_lsb bits) (zlen bits) = Ok bits.
Proof.
  unfold unpack_lsb.
  rewrite (mapM_ext_in _ (fun i => Ok (nth (Z.to_nat i) bits false))).
  - rewrite mapM_pure. f_equal. apply map_nth_iota.
  - intros i Hi. apply iota_In' in Hi. apply bytemask_to_bitmap_spec_thm. exact Hi.
Qed.

Lemma skipn8_zlen {A} (l : list A) : zlen (skipn 8 l) = Z.max 0 (zlen l - 8).
Proof. unfold zlen. rewrite skipn_length. lia. Qed.
Lemma pack_fuel_zlen : forall fuel bits, (length bits <= fuel)%nat -> zlen (pack_lsb_fuel fuel bits) = (zlen bits + 7) / 8.
Proof.
  induction fuel as [|f IH]; intros bits Hf.
  - destruct bits; [reflexivity|cbn in Hf; lia].
  - destruct bits as [|b bs]; [reflexivity|].
    rewrite pack_fuel_cons by discriminate. rewrite zlen_cons.
    rewrite IH by (rewrite skipn_length; cbn [length] in *; lia).
    rewrite skipn8_zlen. pose proof (zlen_nonneg bs). set (n := zlen (b :: bs)).
    assert (Hn : 1 <= n) by (unfold n; rewrite zlen_cons; lia). clearbody n. lia.
Qed.
Lemma pack_lsb_zlen bits : zlen (pack_lsb bits) = (zlen bits + 7) / 8.
Proof. unfold pack_lsb. apply pack_fuel_zlen. lia. Qed.

Lemma pack8_range : forall k bits, 0 <= pack8 bits k 1 < 2 ^ Z.of_nat k.
Proof.
  induction k as [|k IH]; intros bits.
  - destruct bits; cbn; lia.
  - destruct bits as [|b bs]; [cbn [pack8]; pose proof (Z.pow_pos_nonneg 2 (Z.of_nat (S k))); lia|].
    rewrite pack8_step. specialize (IH bs). rewrite Nat2Z.inj_succ, Z.pow_succ_r by lia. destruct b; cbn [Z.b2z]; lia.
Qed.
Lemma pack_fuel_bytes : forall fuel bits, Forall (fun b => 0 <= b < 256) (pack_lsb_fuel fuel bits).
Proof.
  induction fuel as [|f IH]; intros bits; [constructor|]. destruct bits as [|b bs]; [constructor|].
  rewrite pack_fuel_cons by discriminate. constructor; [|apply IH]. exact (pack8_range 8 (b :: bs)).
Qed.

Lemma bitmap_padding_all bits i : zlen bits <= i < 8 * zlen (pack_lsb bits) -> bitmap_bit (pack_lsb bits) i = Ok false.
Proof.
  rewrite pack_lsb_zlen. intros Hi. pose proof (zlen_nonneg bits) as H0.
  apply bitmap_padding_zero_thm; lia.
Qed.

(** A byte mask turned into an Arrow validity bitmap and read back: the identity on the whole list, for every length
    (0, multiples of 8 and others); the bitmap has ceil(n / 8) bytes, every byte is in [0, 256), and every padding bit
    of the last byte is zero. *)
Theorem arrow_validity_bitmap_roundtrip_thm : forall bits : list bool,
  map (bitmap_bit (pack_lsb bits)) (iota (zlen bits)) = map Ok bits /\
  unpack_lsb (pack_lsb bits) (zlen bits) = Ok bits /\
  zlen (pack_lsb bits) = (zlen bits + 7) / 8 /\
  (forall i, zlen bits <= i < 8 * zlen (pack_lsb bits) -> bitmap_bit (pack_lsb bits) i = Ok false) /\
  Forall (fun b => 0 <= b < 256) (pack_lsb bits).
Proof.
  intros bits. split; [apply bitmap_bits_list|]. split; [apply unpack_pack|]. split; [apply pack_lsb_zlen|].
  split; [apply bitmap_padding_all|]. apply pack_fuel_bytes.
Qed.

Lemma valid_mask_valid vw m : valid_mask vw (mask_valid vw m) = map (fun b => if b =? 0 then 0 else 1) m.
Proof.
  unfold valid_mask, mask_valid. rewrite map_map. apply map_ext. intros b. destruct (b =? 0), vw; reflexivity.
Qed.
Lemma zlen_mask_valid vw m : zlen (mask_valid vw m) = zlen m.
Proof. unfold mask_valid. apply zlen_map. Qed.

(** both polarities: the byte mask of a ByteMaskedArray (valid_when = vw; any non-zero byte counts as 1), negated into
    Arrow's validity when vw = false, packed, unpacked and negated back is the byte mask normalised to 0 / 1 *)
Theorem arrow_validity_bytemask_roundtrip_gen_thm : forall vw m,
  rmap (valid_mask vw) (unpack_lsb (pack_lsb (mask_valid vw m)) (zlen m)) = Ok (map (fun b => if b =? 0 then 0 else 1) m).
Proof.
  intros vw m. rewrite <- (zlen_mask_valid vw m), unpack_pack. cbn [rmap]. rewrite valid_mask_valid. reflexivity.
Qed.
Theorem arrow_validity_bytemask_roundtrip_thm : forall vw m, Forall (fun b => b = 0 \/ b = 1) m ->
  rmap (valid_mask vw) (unpack_lsb (pack_lsb (mask_valid vw m)) (zlen m)) = Ok m.
Proof.
  intros vw m HF. rewrite arrow_validity_bytemask_roundtrip_gen_thm. f_equal.
  induction HF as [|b m Hb _ IH]; [reflexivity|]. cbn [map]. rewrite IH. destruct Hb as [-> | ->]; reflexivity.
Qed.

(** the Arrow bitmap is the mask of a BitMaskedArray(valid_when = true, lsb_order = true): its first n unpacked bits
    are the validity bits (what from_arrow builds) *)
Theorem arrow_bitmap_is_bitmasked_mask_thm : forall bits : list bool,
  take (zlen bits) (unpack_bits true (pack_lsb bits)) = map (fun b : bool => if b then 1 else 0) bits.
Proof.
  intros bits. pose proof (zlen_nonneg bits) as H0.
  assert (Hz : zlen bits <= 8 * zlen (pack_lsb bits)) by (rewrite pack_lsb_zlen; lia).
  apply get_ext.
  - rewrite zlen_take_min, zlen_unpack, zlen_map by lia. lia.
  - intros i Hi. rewrite zlen_take_min, zlen_unpack in Hi by lia.
    rewrite get_take by lia. rewrite get_unpack by lia.
    change (bit_at (pack_lsb bits) true i) with (bitmap_bit (pack_lsb bits) i).
    rewrite bytemask_to_bitmap_spec_thm by lia. cbn [bind]. rewrite get_map, (get_nth_e bits i false) by lia. reflexivity.
Qed.

Example arrow_validity_bitmap_ex :
  (* nine entries, valid_when = false: the mask is negated before packing; the ninth bit opens a second byte *)
  let m := [1; 0; 1; 1; 0; 0; 0; 1; 1] in
  mask_valid false m = [false; true; false; false; true; true; true; false; false] /\
  pack_lsb (mask_valid false m) = [114; 0] /\ pack_lsb (mask_valid true m) = [141; 1] /\
  rmap (valid_mask false) (unpack_lsb (pack_lsb (mask_valid false m)) (zlen m)) = Ok m /\
  pack_lsb [] = [] /\ unpack_lsb (pack_lsb []) 0 = Ok [] /\
  bitmap_bit (pack_lsb (mask_valid true m)) 15 = Ok false.
Proof. vm_compute. repeat split. Qed.

(* ================================================================================================================ *)
(** (2) sliced list offsets: to_arrow hands Arrow the offsets re-based to zero and the content cut at both ends *)

Lemma zlen_take_le {A} (l : list A) m : zlen (take m l) <= zlen l.
Proof. unfold take, zlen. rewrite firstn_length. lia. Qed.

Lemma cut1_take_eq {A} (vs : list A) a b m : a = b \/ b <= m -> cut1 (take m vs) (a, b) = cut1 vs (a, b).
Proof.
  intros Hab. unfold cut1. destruct (a =? b) eqn:E; [reflexivity|]. destruct Hab as [Hab|Hb]; [lia|].
  unfold slice. pose proof (zlen_take_le vs m) as Hle.
  destruct ((0 <=? a) && (a <=? b) && (b <=? zlen vs)) eqn:C.
  - assert (Hz : zlen (take m vs) = Z.min m (zlen vs)) by (apply zlen_take_min; lia).
    replace ((0 <=? a) && (a <=? b) && (b <=? zlen (take m vs))) with true by lia.
    f_equal. rewrite drop_take by lia. apply take_take. lia.
  - replace ((0 <=? a) && (a <=? b) && (b <=? zlen (take m vs))) with false by lia. reflexivity.
Qed.

(** general window: if every non-empty list lies inside [o0, hi) the content may be cut to that window *)
Theorem arrow_offsets_window_thm (child : list value) o o0 rest hi :
  o = o0 :: rest -> 0 <= o0 ->
  Forall (fun ab : Z * Z => fst ab = snd ab \/ (o0 <= fst ab /\ snd ab <= hi)) (pairs o) ->
  arrow_list (rebase o) (take (hi - o0) (drop o0 child)) = arrow_list o child.
Proof.
  intros Eo H0 HF.
  rewrite <- (arrow_offsets_rebase_spec_thm child o o0 rest Eo H0).
  2:{ eapply Forall_impl; [|exact HF]. cbn. intros ab [H|[H _]]; auto. }
  unfold arrow_list, rebase. rewrite Eo. rewrite <- Eo. f_equal.
  rewrite !(cut_ne_d _ (map (fun x => x - o0) o)) by (rewrite Eo; discriminate).
  rewrite pairs_map_sub, !mapM_map. apply mapM_ext_in. intros [a b] Hin. cbn [fst snd].
  rewrite Forall_forall in HF. specialize (HF (a, b) Hin). cbn [fst snd] in HF.
  apply cut1_take_eq. lia.
Qed.

Lemma pairs_mono_first o0 rest : Forall (fun ab : Z * Z => fst ab <= snd ab) (pairs (o0 :: rest)) ->
  forall x, In x (o0 :: rest) -> o0 <= x.
Proof.
  revert o0. induction rest as [|b rest IH]; intros o0 HF x Hin.
  - destruct Hin as [->|[]]. lia.
  - change (pairs (o0 :: b :: rest)) with ((o0, b) :: pairs (b :: rest)) in HF. inversion HF as [|? ? Hab HF']; subst. cbn in Hab.
    destruct Hin as [->|Hin]; [lia|]. specialize (IH b HF' x Hin). lia.
Qed.
Lemma last_indep {A} (l : list A) d d' : l <> [] -> last l d = last l d'.
Proof.
  induction l as [|x l IH]; [congruence|]. intros _. destruct l as [|y l]; [reflexivity|].
  change (last (x :: y :: l) d) with (last (y :: l) d). change (last (x :: y :: l) d') with (last (y :: l) d'). apply IH. discriminate.
Qed.

(** Non-decreasing offsets o over a content denote the same lists as the offsets re-based to zero over the content
    cut to [o[0], o[-1]) — both ends trimmed, as in to_arrow of a sliced ListOffsetArray (same value, same error
    status when the offsets reach beyond the content). *)
Theorem arrow_sliced_offsets_value_thm (child : list value) o o0 rest :
  o = o0 :: rest -> 0 <= o0 -> Forall (fun ab : Z * Z => fst ab <= snd ab) (pairs o) ->
  arrow_list (rebase o) (take (last o o0 - o0) (drop o0 child)) = arrow_list o child.
Proof.
  intros Eo H0 Hmono. apply (arrow_offsets_window_thm child o o0 rest (last o o0) Eo H0).
  apply Forall_forall. intros [a b] Hin. cbn [fst snd]. right.
  destruct (pairs_In o a b Hin) as [Ha Hb]. split.
  - rewrite Eo in Ha, Hmono. exact (pairs_mono_first o0 rest Hmono a Ha).
  - pose proof (pairs_mono_last o Hmono b Hb) as Hl. rewrite (last_indep o o0 b); [exact Hl|rewrite Eo; discriminate].
Qed.

Lemma last_map_e {A B} (f : A -> B) l d : last (map f l) (f d) = f (last l d).
Proof. induction l as [|x l IH]; [reflexivity|]. destruct l as [|y l]; [reflexivity|]. exact IH. Qed.

(** the trimmed content has exactly as many items as the last re-based offset says, the first re-based offset is 0 *)
Theorem arrow_sliced_content_exact_thm (child : list value) o o0 rest :
  o = o0 :: rest -> 0 <= o0 -> Forall (fun ab : Z * Z => fst ab <= snd ab) (pairs o) -> last o o0 <= zlen child ->
  exists rest', rebase o = 0 :: rest' /\ last (rebase o) 0 = last o o0 - o0 /\
                zlen (take (last o o0 - o0) (drop o0 child)) = last (rebase o) 0.
Proof.
  intros Eo H0 Hmono Hl.
  assert (Hlast : last (rebase o) 0 = last o o0 - o0).
  { unfold rebase. rewrite Eo. rewrite <- Eo. rewrite (last_indep _ 0 (o0 - o0)) by (rewrite Eo; discriminate).
    apply (last_map_e (fun x => x - o0)). }
  exists (map (fun x => x - o0) rest). split; [rewrite Eo; cbn [rebase map]; f_equal; lia|]. split; [exact Hlast|].
  rewrite Hlast. assert (Hge : o0 <= last o o0).
  { rewrite Eo in Hmono |- *. apply (pairs_mono_first o0 rest Hmono). apply last_In'. discriminate. }
  rewrite zlen_take_min by lia. rewrite zlen_drop by lia. lia.
Qed.

(* the ListArray route: compact_offsets = cumulative lengths; over the concatenated lists nothing is left to trim *)
Lemma offsets_from_last_e : forall lens s, last (offsets_from s lens) 0 = s + sumZ lens.
Proof.
  induction lens as [|n ns IH]; intros s; [cbn; lia|].
  cbn [offsets_from]. specialize (IH (s + n)). destruct (offsets_from (s + n) ns) eqn:E.
  - destruct ns; discriminate E.
  - change (last (s :: z :: l) 0) with (last (z :: l) 0). rewrite IH. unfold sumZ. cbn [fold_right]. lia.
Qed.
Lemma zlen_offsets_from_e : forall lens s, zlen (offsets_from s lens) = zlen lens + 1.
Proof. induction lens as [|n ns IH]; intros s; [reflexivity|]. cbn [offsets_from]. rewrite !zlen_cons, IH. reflexivity. Qed.
Lemma zlen_concat_sum {A} (ls : list (list A)) : zlen (concat ls) = sumZ (map zlen ls).
Proof. induction ls as [|l ls IH]; [reflexivity|]. cbn [concat map]. rewrite zlen_app, IH. unfold sumZ. cbn [fold_right]. lia. Qed.

(** ListArray: the compacted offsets start at zero, there is one more than lists, and the last one is the length of
    the compacted content (the concatenated lists): both ends are tight, whatever the starts/stops skipped or repeated *)
Theorem arrow_compact_offsets_tight_thm (child : list value) s e ls :
  cut2 child s e = Ok ls ->
  exists rest, compact_offsets s e = 0 :: rest /\ zlen (compact_offsets s e) = zlen ls + 1 /\
               last (compact_offsets s e) 0 = zlen (concat ls) /\
               arrow_list (compact_offsets s e) (concat ls) = Ok (map VList ls).
Proof.
  intros H. pose proof (arrow_offsets_compact_spec_thm child s e ls H) as HA.
  unfold cut2 in H. destruct (zlen e <? zlen s); [discriminate|].
  unfold compact_offsets in *. rewrite (cuts_lens_d child _ ls H) in *.
  exists (tl (offsets_from 0 (map zlen ls))). split; [destruct (map zlen ls); reflexivity|].
  split; [|split; [|exact HA]].
  - rewrite zlen_offsets_from_e, zlen_map. reflexivity.
  - rewrite offsets_from_last_e, zlen_concat_sum. lia.
Qed.

Example arrow_sliced_offsets_ex :
  let child := map (fun z => VNum (DZ z)) [10; 11; 12; 13; 14; 15; 16] in
  arrow_list [2; 4; 4; 5] child = Ok [VList [VNum (DZ 12); VNum (DZ 13)]; VList []; VList [VNum (DZ 14)]] /\
  rebase [2; 4; 4; 5] = [0; 2; 2; 3] /\ take (5 - 2) (drop 2 child) = [VNum (DZ 12); VNum (DZ 13); VNum (DZ 14)] /\
  arrow_list (rebase [2; 4; 4; 5]) (take (5 - 2) (drop 2 child)) = arrow_list [2; 4; 4; 5] child /\
  (* offsets beyond the content: refused on both sides *)
  arrow_list [2; 4; 9] child = Err EOob /\ arrow_list (rebase [2; 4; 9]) (take (9 - 2) (drop 2 child)) = Err EOob.
Proof. vm_compute. repeat split. Qed.

(* ================================================================================================================ *)
(** (3) option-type items below a list *)

Lemma nth_mask_valid vw m i : 0 <= i < zlen m ->
  nth (Z.to_nat i) (mask_valid vw m) false = Bool.eqb (negb (nth (Z.to_nat i) m 0 =? 0)) vw.
Proof.
  intros Hi. unfold mask_valid.
  rewrite (nth_indep _ false (Bool.eqb (negb (0 =? 0)) vw)) by (rewrite map_length; unfold zlen in Hi; lia).
  apply (map_nth (fun b => Bool.eqb (negb (b =? 0)) vw)).
Qed.

(** the items of an option node as Arrow sees them: validity bitmap packed from the byte mask + child values *)
Theorem arrow_nullable_is_bytemasked_thm m vw (child : list value) :
  arrow_nullable (pack_lsb (mask_valid vw m)) (zlen m) child =
  mapM (fun im : Z * Z => let (i, b) := im in pick_opt child (Bool.eqb (negb (b =? 0)) vw) i) (zip (iota (zlen m)) m).
Proof.
  pose proof (zlen_nonneg m) as H0. unfold arrow_nullable.
  apply mapM_pointwise_eq; [rewrite zlen_zip, !zlen_iota by lia; lia|].
  intros j Hj. rewrite zlen_iota in Hj by lia. rewrite get_iota by lia.
  rewrite get_zip, get_iota by (rewrite ?zlen_iota by lia; lia). cbn [bind].
  rewrite (get_nth_e m j 0) by lia. cbn [bind].
  rewrite bytemask_to_bitmap_spec_thm by (rewrite zlen_mask_valid; lia). cbn [bind].
  rewrite nth_mask_valid by lia. unfold pick_opt. reflexivity.
Qed.

(** option-ness is preserved below the top level: a list of option-type items (ListOffsetArray over ByteMaskedArray,
    either polarity) has the value of the Arrow list array built from the same offsets, the validity bitmap packed
    from the byte mask and the child values: missing items are None inside the lists, present items are the child's,
    same error status.  (The model has no to_arrow / from_arrow on layouts: this is the composition of the two
    modelled buffer steps, arrow_nullable inside arrow_list.) *)
Theorem arrow_option_below_top_preserved_thm w o m vw c :
  to_list (ListOffset w o (ByteMasked m vw c)) =
  do child <- to_list c;
  do items <- arrow_nullable (pack_lsb (mask_valid vw m)) (zlen m) child;
  arrow_list o items.
Proof.
  rewrite to_list_ListOffset, to_list_ByteMasked. destruct (to_list c) as [child|e]; [|reflexivity]. cbn [bind].
  rewrite arrow_nullable_is_bytemasked_thm. reflexivity.
Qed.
(* the same with sliced offsets, re-based and with the items cut at both ends *)
Theorem arrow_option_below_top_sliced_thm w o o0 rest m vw c :
  o = o0 :: rest -> 0 <= o0 -> Forall (fun ab : Z * Z => fst ab <= snd ab) (pairs o) ->
  to_list (ListOffset w o (ByteMasked m vw c)) =
  do child <- to_list c;
  do items <- arrow_nullable (pack_lsb (mask_valid vw m)) (zlen m) child;
  arrow_list (rebase o) (take (last o o0 - o0) (drop o0 items)).
Proof.
  intros Eo H0 Hm. rewrite arrow_option_below_top_preserved_thm. destruct (to_list c) as [child|e]; [|reflexivity]. cbn [bind].
  destruct (arrow_nullable _ _ child) as [items|e]; [|reflexivity]. cbn [bind].
  symmetry. apply (arrow_sliced_offsets_value_thm items o o0 rest Eo H0 Hm).
Qed.
(* ... and a missing item is None at its place inside the list *)
Theorem arrow_nullable_none_thm m vw (child items : list value) i :
  arrow_nullable (pack_lsb (mask_valid vw m)) (zlen m) child = Ok items -> 0 <= i < zlen m ->
  get items i = if Bool.eqb (negb (nth (Z.to_nat i) m 0 =? 0)) vw then get child i else Ok VNone.
Proof.
  intros H Hi. unfold arrow_nullable in H. pose proof (zlen_nonneg m) as H0.
  pose proof (mapM_get _ _ _ i H) as Hg. rewrite get_iota in Hg by lia. cbn [bind] in Hg.
  rewrite bytemask_to_bitmap_spec_thm in Hg by (rewrite zlen_mask_valid; lia). cbn [bind] in Hg.
  rewrite nth_mask_valid in Hg by lia.
  destruct (get items i) as [v|e] eqn:Ev.
  - cbn [bind] in Hg. destruct (Bool.eqb _ vw); congruence.
  - exfalso. apply get_err in Ev as [_ Ev]. apply Ev. rewrite (mapM_zlen _ _ _ H), zlen_iota by lia. exact Hi.
Qed.

Example arrow_option_below_top_ex :
  let c := Record [Numpy DInt64 [7] [DZ 0; DZ 1; DZ 2; DZ 3; DZ 4; DZ 5; DZ 6]] (Some [[120]]) 6 in
  let lay := ListOffset I64 [1; 3; 3; 5] (ByteMasked [1; 0; 1; 1; 0; 1] false c) in
  validb None lay = true /\
  to_list lay = Ok [VList [VRec [([120], VNum (DZ 1))]; VNone]; VList []; VList [VNone; VRec [([120], VNum (DZ 4))]]] /\
  (do child <- to_list c; do items <- arrow_nullable (pack_lsb (mask_valid false [1; 0; 1; 1; 0; 1])) 6 child;
   arrow_list (rebase [1; 3; 3; 5]) (take (5 - 1) (drop 1 items))) = to_list lay.
Proof. vm_compute. repeat split. Qed.

(* ================================================================================================================ *)
(** (4) masked NumPy data *)

(** masked rectilinear data (numpy.ma.MaskedArray, any number of dimensions): to_numpy(from_numpy x) is x up to the
    data hidden under the mask, the mask itself comes back identical, and the value of the result is to_list of the
    layout.  (numpy_roundtrip covers masks through nd_equiv; this is the explicit masked statement.) *)
Theorem to_numpy_masked_roundtrip_thm ra x m : wf_nd x -> nd_mask x = Some m ->
  exists y, to_numpy_model true (from_numpy_model ra x) = Ok y /\ nd_equiv y x /\
            nd_value y = to_list (from_numpy_model ra x) /\ nd_value y = nd_value x /\
            nd_shape y = nd_shape x /\ nd_dt y = nd_dt x /\ nd_mask y = Some m /\
            nd_data y = blank m (nd_data x).
Proof.
  intros Hwf Hm. destruct (numpy_roundtrip_thm ra x Hwf) as (y & Hy & He). exists y. split; [exact Hy|]. split; [exact He|].
  split; [exact (to_numpy_is_to_list_partial_thm ra x y Hwf Hy)|]. split; [exact (nd_equiv_value x y He)|].
  destruct He as (Hs & Hd & Hl). split; [exact Hs|]. split; [exact Hd|].
  (* the mask and the data, by computing the result again *)
  destruct x as [dt shape data mask]. cbn [nd_mask] in Hm. subst mask.
  unfold wf_nd in Hwf. cbn [nd_shape nd_data nd_mask] in Hwf. destruct shape as [|n dims]; [destruct Hwf|].
  destruct Hwf as (Hn & HF & Hz & Hlm). pose proof (prodZ_pos dims HF) as Hp. rewrite prodZ_cons in Hz.
  assert (HP : prodZ (n :: dims) = n * prodZ dims) by apply prodZ_cons.
  assert (Hzm : zlen m = n * prodZ dims) by (unfold zlen in *; lia).
  unfold from_numpy_model in Hy. cbn [nd_shape nd_mask nd_dt nd_data] in Hy.
  assert (Hleaf : to_numpy_model true (ByteMasked (bool_mask m) false (Numpy dt [prodZ (n :: dims)] data)) =
                  Ok (mk_nd dt [n * prodZ dims] (blank m data) (Some m))).
  { assert (E1 : forall z, prodZ [z] = z) by (intros z; unfold prodZ; cbn [fold_right]; lia).
    cbn [to_numpy_model]. cbn [existsb]. rewrite HP, !E1. replace (n * prodZ dims <? 0) with false by nia. cbn [orb].
    replace (zlen data <? n * prodZ dims) with false by lia.
    cbn [bind nd_shape nd_dt nd_data nd_mask]. rewrite zlen_bool_mask, Hzm. replace (n * prodZ dims <? n * prodZ dims) with false by lia.
    rewrite miss_bool_mask. rewrite (take_all data) by lia. rewrite (take_all data) by lia. unfold masked_result.
    destruct (any_true m) eqn:Ea.
    - rewrite (or_mask_no_mask m data Hlm), Hzm. reflexivity.
    - rewrite Hzm. rewrite <- (any_true_false_no_mask m data Ea Hlm). f_equal. f_equal.
      (* nothing is masked: blank is the identity *)
      clear - Ea Hlm. unfold blank, any_true in *. revert data Hlm. induction m as [|b m IH]; intros [|d data] Hl; try discriminate Hl; [reflexivity|].
      cbn [existsb] in Ea. apply orb_false_iff in Ea as [-> Ea]. cbn [zip map fst snd]. f_equal. apply IH; [exact Ea|cbn in Hl; lia]. }
  rewrite (to_numpy_chain true dims n _ dt (blank m data) (Some m) HF Hn Hleaf) in Hy.
  - injection Hy as <-. split; reflexivity.
  - unfold blank. rewrite zlen_map, zlen_zip. lia.
  - intros m0 E. injection E as <-. exact Hzm.
Qed.

Lemma to_numpy_strict_leaf dt data m P : 0 <= P -> zlen data = P -> length m = length data ->
  to_numpy_model false (ByteMasked (bool_mask m) false (Numpy dt [P] data)) =
  if any_true m then Err EValue else Ok (mk_nd dt [P] data None).
Proof.
  intros HP Hz Hlm. assert (Hzm : zlen m = P) by (unfold zlen in *; lia).
  assert (E1 : forall z, prodZ [z] = z) by (intros z; unfold prodZ; cbn [fold_right]; lia).
  cbn [to_numpy_model]. cbn [existsb]. rewrite !E1. replace (P <? 0) with false by lia. cbn [orb].
  replace (zlen data <? P) with false by lia.
  cbn [bind nd_shape nd_dt nd_data nd_mask]. rewrite zlen_bool_mask, Hzm. replace (P <? P) with false by lia.
  rewrite miss_bool_mask. rewrite !(take_all data) by lia. unfold masked_result. rewrite Hzm.
  destruct (any_true m); reflexivity.
Qed.
Lemma to_numpy_chain_err am e : forall dims count leaf, to_numpy_model am leaf = Err e ->
  to_numpy_model am (regular_chain dims count leaf) = Err e.
Proof.
  induction dims as [|d ds IH]; intros count leaf H; [exact H|]. cbn [regular_chain to_numpy_model]. rewrite (IH _ _ H). reflexivity.
Qed.

(** allow_missing = false on masked data: accepted exactly when no element is masked, and then the result is the
    plain array (no mask, data untouched); with one masked element it is refused ("cannot convert None values") *)
Theorem to_numpy_strict_on_masked_thm ra x m : wf_nd x -> nd_mask x = Some m ->
  to_numpy_model false (from_numpy_model ra x) =
  if any_true m then Err EValue else Ok (mk_nd (nd_dt x) (nd_shape x) (nd_data x) None).
Proof.
  intros Hwf Hm. destruct x as [dt shape data mask]. cbn [nd_mask] in Hm. subst mask.
  unfold wf_nd in Hwf. cbn [nd_shape nd_data nd_mask nd_dt] in *. destruct shape as [|n dims]; [destruct Hwf|].
  destruct Hwf as (Hn & HF & Hz & Hlm). pose proof (prodZ_pos dims HF) as Hp.
  assert (HP : prodZ (n :: dims) = n * prodZ dims) by apply prodZ_cons.
  unfold from_numpy_model. cbn [nd_shape nd_mask nd_dt nd_data].
  pose proof (to_numpy_strict_leaf dt data m (prodZ (n :: dims)) ltac:(nia) Hz Hlm) as Hleaf.
  destruct (any_true m).
  - apply to_numpy_chain_err. exact Hleaf.
  - apply to_numpy_chain; [exact HF|exact Hn|rewrite Hleaf, HP; reflexivity|lia|discriminate].
Qed.

Example to_numpy_masked_ex :
  (* three dimensions, mask with two masked elements; and the same data with an all-false mask *)
  let x := mk_nd DInt16 [2; 1; 3] [DZ 1; DZ 2; DZ 3; DZ 4; DZ 5; DZ 6] (Some [false; true; false; false; false; true]) in
  let x0 := mk_nd DInt16 [2; 1; 3] [DZ 1; DZ 2; DZ 3; DZ 4; DZ 5; DZ 6] (Some [false; false; false; false; false; false]) in
  wf_nd x /\ wf_nd x0 /\
  to_list (from_numpy_model false x) =
    Ok [VList [VList [VNum (DZ 1); VNone; VNum (DZ 3)]]; VList [VList [VNum (DZ 4); VNum (DZ 5); VNone]]] /\
  to_numpy_model true (from_numpy_model false x) =
    Ok (mk_nd DInt16 [2; 1; 3] [DZ 1; DZ 0; DZ 3; DZ 4; DZ 5; DZ 0] (Some [false; true; false; false; false; true])) /\
  to_numpy_model false (from_numpy_model false x) = Err EValue /\
  to_numpy_model false (from_numpy_model true x0) = Ok (mk_nd DInt16 [2; 1; 3] [DZ 1; DZ 2; DZ 3; DZ 4; DZ 5; DZ 6] None) /\
  to_numpy_model true (from_numpy_model true x0) = Ok x0.
Proof.
  cbv zeta. split; [cbn; repeat split; try lia; repeat constructor; lia|]. split; [cbn; repeat split; try lia; repeat constructor; lia|].
  vm_compute. repeat split.
Qed.
