"""C02: results depend only on the logical value (type + nested-list value), never on the physical layout.
Every case is run on a random encoding and on the canonical re-encoding (ListOffsetArray64 from 0,
IndexedOptionArray64 with -1, no unreachable data, no IndexedArray indirection) of the same values; the two
implementation outcomes must have equal values / equal error status, and each is also compared with the
specification of its operation."""
import sys

import common as C
import gen as G

THEOREMS = ['byte_mask_encoding_irrelevant', 'negative_index_encoding_irrelevant', 'unmasked_encoding_irrelevant',
            'layout_independent_num', 'layout_independent_local_index', 'layout_independent_pad',
            'layout_independent_combinations', 'layout_independent_carry', 'numpy_shape_is_regular_nesting',
            'layout_independent_reduce_partial', 'layout_independent_sort', 'layout_independent_fillna',
            'layout_independent_field', 'layout_independent_flatten_partial', 'layout_independent_getitem']
RULE = ('value-first: one (type, values) pair encoded twice (random: ListOffset/ListArray/Regular x 32/U32/64-bit x offset '
        'origin x gaps/shuffles x IndexedArray indirection x five option encodings; canonical) x one of 12 operations with '
        'random arguments; non-trivial = the two encodings differ textually and the operation succeeded on both; '
        'distinct by case text')
ASSUMPTIONS = ['NumPy strides and n-d NumpyArray encodings are exercised only through RegularArray equivalents',
               'concatenation and conversions to JSON/buffers are covered by C08/C15/C16',
               'operations are compared on values computed by the extracted to_list of the dumped results']
UNION_RATE = 0.2
UNION_STREAM = 0.15
NUM = ['int64', 'int64', 'float64', 'int32', 'uint8', 'int16', 'float32', 'bool']


def one(rng, i):
    import props.c01 as c01
    import props.c03 as c03
    op = rng.choice(['getitem', 'getitem', 'num', 'flatten', 'localindex', 'reduce', 'reduce', 'sort', 'argsort',
                     'combinations', 'rpad', 'rpadclip', 'fillna'])
    # unions: no specification (skipped there), but the two encodings (shuffled/gappy index vs per-tag running index)
    # must still agree with each other on the implementation
    kw = dict(allow_union=rng.random() < UNION_RATE)
    special = True
    if op in ('reduce',):
        kw.update(allow_str=False, allow_rec=False, leaf_dtypes=c03.LEAVES)
        special = False
    if op in ('sort', 'argsort'):
        kw.update(allow_rec=False)
    if op == 'fillna':
        kw.update(allow_str=False, leaf_dtypes=NUM[:-1])
        special = False
    type_ = None
    ekw = dict(weird_empty=0.1, strided=0.1)
    if rng.random() < UNION_STREAM and op not in ('reduce', 'sort', 'argsort', 'fillna'):
        # union stream: a union node with list-type alternatives (so that the operation descends below the union), half of
        # the time without unreachable elements in the alternatives (index = a permutation of each alternative)
        tkw = dict(kw)
        tkw.pop('allow_union', None)
        type_ = G.gen_union_type(rng, rng.choice([2, 3, 3]), **tkw)
        if rng.random() < 0.5:
            ekw['junk'] = False
    a = G.gen_array(rng, depth=rng.choice([1, 2, 3, 3]), canonical_too=True, type_kw=kw, special=special,
                    enc_kw=ekw, type_=type_)
    t = a['type']
    mn, mx = G.list_depth(t)
    sig = None
    if op == 'getitem':
        items = c01.rand_items(rng, t, a['vals'])
        if G.has_empty_rec(t):
            items = [it for it in items if not it.startswith(('(at', '(rng', '(arr'))][:1] or items[:1]
        args = ['(' + ' '.join(items) + ')']
    elif op in ('num', 'flatten', 'localindex'):
        args = [str(G.pick_axis(rng, t))]
    elif op == 'reduce':
        args = [rng.choice(c03.REDUCERS), str(G.pick_axis(rng, t, allow_zero=True)), str(rng.choice([0, 0, 1])),
                str(rng.choice([0, 0, 0, 1]))]
    elif op in ('sort', 'argsort'):
        strs = G.has_kind(t, 'str')
        axis = -1 if (strs or rng.random() < 0.7) else rng.randint(0, mx - 1)
        args = [str(axis), str(rng.choice([0, 1])), '1']
    elif op == 'combinations':
        args = [str(rng.choice([1, 2, 2, 3])), str(rng.choice([0, 1])), str(G.pick_axis(rng, t))]
    elif op in ('rpad', 'rpadclip'):
        args = [str(rng.choice([0, 1, 2, 3, 4, 5])), str(G.pick_axis(rng, t))]
    else:
        args = []
    extra = [G.sx(['np', 'int64', [1], [rng.randint(-9, 99)]])] if op == 'fillna' else []
    meta = dict(nontrivial=True, type=t, group='g%d' % i,
                tags=dict(op=op, axis=(int(args[-1]) if op in ('num', 'flatten', 'localindex', 'combinations', 'rpad', 'rpadclip') else None),
                          reducer=(args[0] if op == 'reduce' else None)))
    if op == 'reduce':
        meta['tags']['axis'] = int(args[1])
    if op in ('sort', 'argsort'):
        meta['tags'].update(axis=int(args[0]), innermost=bool(int(args[0]) == -1 or int(args[0]) == mx - 1), op=op)
    ra = C.Case('g%dr' % i, op, args, [G.sx(a['layout'])] + extra, dict(meta, enc='random'))
    ca = C.Case('g%dc' % i, op, args, [G.sx(a['canon'])] + extra, dict(meta, enc='canonical'))
    return [ra, ca]


def replay_cases(path):
    """cases of a replay / corpus file: pairs share the id up to the trailing r/c; the type is not recorded, so the
    known-finding classifier falls back on the text of the layout"""
    import re
    out = []
    for ln in open(path):
        ln = ln.strip()
        if not ln or ln.startswith('#'):
            continue
        m = re.match(r'^\((\S+) (\S+) (.*)\)$', ln)
        cid, op, rest = m.group(1), m.group(2), m.group(3)
        head = rest.split(' (', 1)[0].split()
        axis = None
        try:
            if op in ('num', 'flatten', 'localindex', 'combinations', 'rpad', 'rpadclip'):
                axis = int(head[-1])
            elif op == 'reduce':
                axis = int(head[1])
            elif op in ('sort', 'argsort'):
                axis = int(head[0])
        except (ValueError, IndexError):
            pass
        grp = cid[:-1] if cid[-1:] in 'rc' else cid
        out.append(C.Case(cid, op, [rest], [], dict(nontrivial=True, type=None, group=grp, tags=dict(op=op, axis=axis))))
    return out


def corpus_cases():
    import os
    d = os.path.join(C.VERIF, 'corpus', 'C02')
    out = []
    if os.path.isdir(d):
        for fn in sorted(os.listdir(d)):
            if fn.endswith('.case'):
                for c in replay_cases(os.path.join(d, fn)):
                    c.id = 'corpus-%s-%s' % (fn[:-5], c.id)
                    c.meta['group'] = 'corpus-%s-%s' % (fn[:-5], c.meta['group'])
                    out.append(c)
    return out


def cases(rng, tier):
    n = 8000 if tier == 'quick' else 200000
    out = corpus_cases()
    for i in range(n):
        out.extend(one(rng, i))
    return out


def signature(c, impl, v):
    """delegate to the owning property's known-finding classifier"""
    import importlib
    op = c.op
    owner = {'getitem': 'c01', 'num': 'c05', 'flatten': 'c05', 'localindex': 'c05', 'reduce': 'c03', 'sort': 'c06',
             'argsort': 'c06', 'combinations': 'c07', 'rpad': 'c09', 'rpadclip': 'c09', 'fillna': 'c09'}[op]
    m = importlib.import_module('props.' + owner)
    tg = c.meta.get('tags', {})
    t = c.meta.get('type')
    body = c.body()
    if op == 'argsort' and ((t is not None and G.has_kind(t, 'union') and G.has_kind(t, 'opt')) or
                            (t is None and '(un ' in body and any(h in body for h in ('(ixo ', '(bym ', '(bim ', '(unm ')))):
        return 'argsort-option-over-mergeable-union'
    if tg.get('axis') is not None and tg['axis'] < 0 and op != 'reduce':
        if (G.has_rec_under_list(t) if t is not None else ('(rec ' in body and body.index('(rec ') > body.index(' (') + 2)):
            return 'negaxis-record-under-list'
        if (G.has_mixed_union_under_list(t) if t is not None else ('(un ' in body and body.index('(un ') > body.index(' (') + 2)):
            return 'negaxis-mixed-union-under-list'
    return m.signature(c, impl, v) if hasattr(m, 'signature') else None


def run(cases, tier, rng):
    import check
    mod = sys.modules[__name__]
    s = check.default_run(mod, cases, tier)
    groups, dumps = {}, {}
    for c, impl in C.last_impl_results:
        groups.setdefault(c.meta['group'], []).append((c, impl))
        dumps[c.id] = impl
    vals = C.values_of(dumps)
    ok = True
    npairs = ndiff_text = 0
    for g, lst in groups.items():
        if len(lst) != 2:
            continue
        (c1, i1), (c2, i2) = lst
        npairs += 1
        if c1.body() != c2.body():
            ndiff_text += 1
        v1, v2 = vals.get(c1.id), vals.get(c2.id)
        if i1.startswith('crash') or i2.startswith('crash') or i1.startswith('timeout') or i2.startswith('timeout'):
            continue            # reported by default_run
        if v1 != v2:
            sig = signature(c1, i1, 'viol value') or signature(c2, i2, 'viol value')
            known = check.match_known(check.KNOWN, 'C02', dict(signature=sig)) if sig else None
            if known is None:
                ok = False
            s['findings'].insert(0, dict(kind='viol', what='%s: the result depends on the physical layout (random vs canonical encoding of the same value)' % c1.op,
                                         case_lines=[c1.line(), c2.line(), '# impl(random):    ' + i1[:400], '# impl(canonical): ' + i2[:400],
                                                     '# value(random):    %s' % v1, '# value(canonical): %s' % v2],
                                         signature=sig, size=len(c1.line())))
    s['corr_obligations']['impl:encoding-independent'] = ok
    s.setdefault('extra', {}).update(pairs_compared=npairs, pairs_with_different_encoding=ndiff_text)
    s['distinct_nontrivial'] = ndiff_text
    return s
