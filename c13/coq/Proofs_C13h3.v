(** Proofs_C13h3.v -- k_safe (and the cheap k_spec) for UnionArray flatten / nestedfill, boolean slices
    (numtrue / nonzero), fill_scaled, IndexedArray ranges kernels, zero_mask, reduce_prod_int32_bool (models of Kernels2.v). *)
From Coq Require Import ZArith List Bool Lia ZifyBool.
From AwkV Require Import Base.
From AwkKernels Require Import Kernels KLemmas Proofs_C13 Proofs_C13b Proofs_C13c Proofs_C13d.
From AwkKernels Require Export Kernels2.
From AwkKernels Require Import Proofs_C13e Proofs_C13f Proofs_C13g Proofs_C13h Proofs_C13h2.
Import ListNotations.
Open Scope Z_scope.

Ltac Zify.zify_post_hook ::= Z.to_euclidean_division_equations.

(* ================================================================================================ *)
(** * rows of a ragged table (the [offsetsraws] pointer array of UnionArray::offsets_and_flattened) *)
Lemma krow_nth rows k : 0 <= k < zlen rows -> krow rows k = KOk (nth (Z.to_nat k) rows []).
Proof.
  intros H. unfold krow. replace (k <? 0) with false by lia.
  rewrite (nth_error_nth' rows []) by (unfold zlen in H; lia). reflexivity.
Qed.
Lemma np_bind_krow {B} rows k (f : list Z -> kres B) (Q : B -> Prop) :
  0 <= k < zlen rows -> noob_post (f (nth (Z.to_nat k) rows [])) Q -> noob_post (kbind (krow rows k) f) Q.
Proof. intros H HQ. rewrite krow_nth by auto. exact HQ. Qed.

Definition urow (raws : list (list Z)) (tags : list Z) (i : Z) : list Z := nth (Z.to_nat (at_ tags i)) raws [].
(** length of the list that element i of the union selects *)
Definition useg (raws : list (list Z)) (tags index : list Z) (i : Z) : Z :=
  at_ (urow raws tags i) (at_ index i + 1) - at_ (urow raws tags i) (at_ index i).
(** every (tag, index) pair addresses a list of the content with that tag *)
Definition uwf (raws : list (list Z)) (tags index : list Z) (n : Z) : Prop :=
  forall i, 0 <= i < n -> 0 <= at_ tags i < zlen raws /\ 0 <= at_ index i /\ at_ index i + 1 < zlen (urow raws tags i).

(* awkward_UnionArray_flatten_length *)
Theorem UnionArray_flatten_length_safe total_length fromtags fromindex n offsetsraws :
  1 <= zlen total_length -> n <= zlen fromtags -> n <= zlen fromindex -> uwf offsetsraws fromtags fromindex n ->
  UnionArray_flatten_length total_length fromtags fromindex n offsetsraws <> KOob.
Proof.
  intros H0 H1 H2 W. unfold UnionArray_flatten_length. eapply np_noob. np_step.
  apply (np_kfor_c _ (fun t => zlen t = zlen total_length)); [now rewrite zlen_set_nth|].
  intros i t Hi L. destruct (W i Hi) as (W1 & W2 & W3). unfold urow in W3. np_auto.
  apply np_bind_krow; [lia|]. np_auto. now rewrite zlen_set_nth.
Qed.

(** the total length is the sum of the lengths of the selected lists *)
Theorem UnionArray_flatten_length_spec total_length fromtags fromindex n offsetsraws :
  0 <= n -> 1 <= zlen total_length -> n <= zlen fromtags -> n <= zlen fromindex -> uwf offsetsraws fromtags fromindex n ->
  UnionArray_flatten_length total_length fromtags fromindex n offsetsraws
  = KOk (set_nth total_length 0 (psum (useg offsetsraws fromtags fromindex) (Z.to_nat n))).
Proof.
  intros Hn H0 H1 H2 W. unfold UnionArray_flatten_length.
  rewrite kupd_ok by lia. cbn [kbind Z.to_nat].
  match goal with |- kfor 0 n ?b _ = _ =>
    destruct (kfor_inv b (fun i t => t = set_nth total_length 0 (psum (useg offsetsraws fromtags fromindex) (Z.to_nat i)))
                0 n (set_nth total_length 0 0)) as (s' & E & P); auto end.
  - intros i t Hi ->. destruct (W i Hi) as (W1 & W2 & W3).
    rewrite (kget_at fromtags), (kget_at fromindex) by lia. cbn [kbind].
    rewrite krow_nth by lia. cbn [kbind]. fold (urow offsetsraws fromtags i).
    rewrite !(kget_at (urow offsetsraws fromtags i)) by lia. cbn [kbind].
    rewrite (kget_at (set_nth total_length 0 _)) by (rewrite zlen_set_nth; lia). cbn [kbind].
    rewrite at_set_nth_0 by lia. rewrite kupd_ok by (rewrite zlen_set_nth; lia). cbn [Z.to_nat].
    rewrite set_nth_0_twice. eexists; split; eauto. f_equal. rewrite psum_S by lia. reflexivity.
  - now rewrite E, P.
Qed.

Example UnionArray_flatten_length_example :
  UnionArray_flatten_length [9] [0; 1; 0] [0; 0; 1] 3 [[0; 2; 3]; [0; 4]] = KOk [7].
Proof. vm_compute. reflexivity. Qed.

(* awkward_UnionArray_flatten_combine: totags/toindex must hold what awkward_UnionArray_flatten_length counted;
   the offsets of every content must be monotone (the counter only ever advances) *)
Theorem UnionArray_flatten_combine_safe totags toindex tooffsets fromtags fromindex n offsetsraws :
  n + 1 <= zlen tooffsets -> 1 <= zlen tooffsets -> n <= zlen fromtags -> n <= zlen fromindex ->
  uwf offsetsraws fromtags fromindex n ->
  (forall i, 0 <= i < n -> 0 <= useg offsetsraws fromtags fromindex i) ->
  psum (useg offsetsraws fromtags fromindex) (Z.to_nat n) <= zlen totags ->
  psum (useg offsetsraws fromtags fromindex) (Z.to_nat n) <= zlen toindex ->
  UnionArray_flatten_combine totags toindex tooffsets fromtags fromindex n offsetsraws <> KOob.
Proof.
  intros H0 H0' H1 H2 W Hf C1 C2. unfold UnionArray_flatten_combine. eapply np_noob. np_step.
  set (f := useg offsetsraws fromtags fromindex) in *.
  apply np_bind_kfor with
    (P := fun i (st : list Z * list Z * list Z * Z) =>
            let '(tgs, ti, to, k) := st in
            zlen tgs = zlen totags /\ zlen ti = zlen toindex /\ zlen to = zlen tooffsets /\ k = psum f (Z.to_nat i))
    (Q := fun _ : list Z * list Z * list Z => True).
  - rewrite zlen_set_nth. auto.
  - intros i [[[tgs ti] to] k] Hi (L1 & L2 & L3 & K). red_st.
    pose proof (psum_S f i (proj1 Hi)) as PS.
    pose proof (psum_mono f n Hf (Z.to_nat (i + 1)) (Z.to_nat n)) as PM.
    pose proof (psum_nonneg f n Hf (Z.to_nat i)) as PN. specialize (Hf i Hi).
    destruct (W i Hi) as (W1 & W2 & W3). unfold urow in W3.
    assert (Fi : f i = at_ (nth (Z.to_nat (at_ fromtags i)) offsetsraws []) (at_ fromindex i + 1)
                       - at_ (nth (Z.to_nat (at_ fromtags i)) offsetsraws []) (at_ fromindex i)) by reflexivity.
    np_auto. apply np_bind_krow; [lia|]. np_auto.
    set (row := nth (Z.to_nat (at_ fromtags i)) offsetsraws []) in *.
    apply np_bind_kfor with
      (P := fun j (s : list Z * list Z * Z) =>
              let '(tgs', ti', k') := s in
              zlen tgs' = zlen totags /\ zlen ti' = zlen toindex /\ k' = k + (j - at_ row (at_ fromindex i))).
    + repeat split; lia.
    + intros j [[tgs' ti'] k'] Hj (L4 & L5 & K5). red_st. np_auto. red_st. rewrite ?zlen_set_nth. repeat split; lia.
    + intros [[tgs' ti'] k'] (L4 & L5 & K5). red_st. np_auto. red_st. rewrite ?zlen_set_nth. repeat split; lia.
  - intros [[[tgs ti] to] k] _. now apply np_ret.
Qed.

Example UnionArray_flatten_combine_example :
  UnionArray_flatten_combine [9;9;9;9;9;9;9] [9;9;9;9;9;9;9] [9;9;9;9] [0; 1; 0] [0; 0; 1] 3 [[0; 2; 3]; [0; 4]]
  = KOk ([0; 0; 1; 1; 1; 1; 0], [0; 1; 0; 1; 2; 3; 2], [0; 2; 6; 7]).
Proof. vm_compute. reflexivity. Qed.

(* ================================================================================================ *)
(** * awkward_UnionArray_nestedfill_tags_index: the cells tmpstarts[i] .. tmpstarts[i] + fromcounts[i] are written *)
Theorem UnionArray_nestedfill_tags_index_safe tI totags toindex tmpstarts tag fromcounts n :
  n <= zlen tmpstarts -> n <= zlen fromcounts ->
  (forall i, 0 <= i < n -> 0 <= at_ tmpstarts i /\
             at_ tmpstarts i + at_ fromcounts i <= zlen totags /\ at_ tmpstarts i + at_ fromcounts i <= zlen toindex) ->
  UnionArray_nestedfill_tags_index tI totags toindex tmpstarts tag fromcounts n <> KOob.
Proof.
  intros H1 H2 Hr. unfold UnionArray_nestedfill_tags_index. eapply np_noob.
  apply np_bind_kfor with
    (P := fun i (st : list Z * list Z * list Z * Z) =>
            let '(tgs, ti, ts, k) := st in
            zlen tgs = zlen totags /\ zlen ti = zlen toindex /\ zlen ts = zlen tmpstarts /\
            forall q, i <= q -> at_ ts q = at_ tmpstarts q)
    (Q := fun _ : list Z * list Z * list Z => True).
  - auto.
  - intros i [[[tgs ti] ts] k] Hi (L1 & L2 & L3 & A). red_st. destruct (Hr i Hi) as (R1 & R2 & R3).
    pose proof (A i (Z.le_refl i)) as Ai. np_auto. rewrite Ai.
    apply np_bind_kfor with
      (P := fun (_ : Z) (s : list Z * list Z * Z) =>
              let '(tgs', ti', k') := s in zlen tgs' = zlen totags /\ zlen ti' = zlen toindex).
    + auto.
    + intros j [[tgs' ti'] k'] Hj (L4 & L5). red_st. np_auto. red_st. rewrite ?zlen_set_nth. auto.
    + intros [[tgs' ti'] k'] (L4 & L5). red_st. np_auto. red_st. rewrite ?zlen_set_nth. repeat split; auto.
      intros q Hq. rewrite at_set_nth by (unfold zlen in *; lia). replace (q =? Z.of_nat (Z.to_nat i)) with false by lia.
      apply A. lia.
  - intros [[[tgs ti] ts] k] _. now apply np_ret.
Qed.

Example UnionArray_nestedfill_tags_index_example :
  UnionArray_nestedfill_tags_index (TI 64) [9;9;9;9;9] [9;9;9;9;9] [0; 3] 1 [2; 1] 2
  = KOk ([1; 1; 9; 1; 9], [0; 1; 9; 2; 9], [2; 4]).
Proof. vm_compute. reflexivity. Qed.

(* ================================================================================================ *)
(** * boolean slices: awkward_NumpyArray_getitem_boolean_numtrue / _nonzero.
      [bcount] counts the nonzero bytes met by the loop  for (i = i0; i < length; i += stride) *)
Fixpoint bcount (fuel : nat) (fromptr : list Z) (length stride i : Z) : Z :=
  match fuel with
  | O => 0
  | S f => if i <? length then (if at_ fromptr i =? 0 then 0 else 1) + bcount f fromptr length stride (i + stride) else 0
  end.
Lemma bcount_nonneg fuel fromptr length stride i : 0 <= bcount fuel fromptr length stride i.
Proof.
  revert i; induction fuel; intros i; cbn [bcount]; [lia|]. destruct (i <? length); [|lia].
  specialize (IHfuel (i + stride)). destruct (at_ fromptr i =? 0); lia.
Qed.

(** extra precondition found: stride >= 0 (with a negative stride the loop never ends and reads before the buffer) *)
Theorem NumpyArray_getitem_boolean_numtrue_safe numtrue fromptr length stride :
  1 <= zlen numtrue -> length <= zlen fromptr -> 0 <= stride ->
  NumpyArray_getitem_boolean_numtrue numtrue fromptr length stride <> KOob.
Proof.
  intros H0 H1 H2. unfold NumpyArray_getitem_boolean_numtrue. apply (np_noob _ (fun _ => True)). np_step.
  eapply np_bind.
  - apply np_kwhile with (P := fun s : list Z * Z => zlen (fst s) = zlen numtrue /\ 0 <= snd s).
    + cbn [fst snd]. rewrite zlen_set_nth. split; lia.
    + intros [nn i] (L & I) C. cbn [fst snd] in *. np_auto. cbn [fst snd]. rewrite zlen_set_nth. split; lia.
  - intros [nn i] _. now apply np_ret.
Qed.

Example NumpyArray_getitem_boolean_numtrue_example :
  NumpyArray_getitem_boolean_numtrue [9] [1; 0; 1; 1] 4 1 = KOk [3].
Proof. vm_compute. reflexivity. Qed.
Example NumpyArray_getitem_boolean_numtrue_negative_stride_refuted :
  NumpyArray_getitem_boolean_numtrue [9] [1; 0] 2 (-1) = KOob.
Proof. vm_compute. reflexivity. Qed.

Lemma kwhile_total_inv {S} fuel (cond : S -> bool) (body : S -> kres S) (P : nat -> S -> Prop) s :
  P fuel s ->
  (forall f s, P (Datatypes.S f) s -> cond s = true -> exists s', body s = KOk s' /\ P f s') ->
  (forall s, P O s -> cond s = false) ->
  exists s' f', kwhile fuel cond body s = KOk s' /\ P f' s' /\ cond s' = false.
Proof.
  intros H0 Hstep Hend. revert s H0. induction fuel as [|f IH]; intros s H0; cbn [kwhile].
  - rewrite (Hend s H0). exists s, O. auto using Hend.
  - destruct (cond s) eqn:C; [|exists s, (Datatypes.S f); auto]. destruct (Hstep f s H0 C) as (s1 & E & P1). rewrite E. cbn [kbind]. now apply IH.
Qed.

(** numtrue = the number of nonzero bytes visited: exactly the capacity required by [_nonzero_safe] *)
Theorem NumpyArray_getitem_boolean_numtrue_spec numtrue fromptr length stride :
  1 <= zlen numtrue -> length <= zlen fromptr -> 0 < stride ->
  NumpyArray_getitem_boolean_numtrue numtrue fromptr length stride
  = KOk (set_nth numtrue 0 (bcount (Z.to_nat length) fromptr length stride 0)).
Proof.
  intros H0 H1 H2. unfold NumpyArray_getitem_boolean_numtrue. rewrite kupd_ok by lia. cbn [kbind Z.to_nat].
  set (T := bcount (Z.to_nat length) fromptr length stride 0).
  match goal with |- kbind (kwhile ?fu ?c ?b ?s0) _ = _ =>
    destruct (kwhile_total_inv fu c b
      (fun f (st : list Z * Z) => 0 <= snd st /\ length - snd st <= Z.of_nat f /\
         fst st = set_nth numtrue 0 (T - bcount f fromptr length stride (snd st))) s0) as ([nn i] & f' & E & (I & F & N) & C) end.
  - cbn [fst snd]. repeat split; try lia. f_equal. unfold T. lia.
  - intros f [nn i] (I & F & N) C. cbn [fst snd] in *. subst nn.
    rewrite (kget_at (set_nth numtrue 0 _)) by (rewrite zlen_set_nth; lia). cbn [kbind].
    rewrite (kget_at fromptr) by lia. cbn [kbind]. rewrite at_set_nth_0 by lia.
    rewrite kupd_ok by (rewrite zlen_set_nth; lia). cbn [Z.to_nat]. rewrite set_nth_0_twice.
    eexists; split; [reflexivity|]. cbn [fst snd]. repeat split; try lia. f_equal.
    cbn [bcount]. replace (i <? length) with true by lia. unfold b2z. destruct (at_ fromptr i =? 0); cbn [negb]; lia.
  - intros [nn i] (I & F & N). cbn [fst snd] in *. lia.
  - rewrite E. cbn [kbind fst snd] in *. f_equal. rewrite N. f_equal.
    destruct f'; cbn [bcount]; [lia|]. replace (i <? length) with false by lia. lia.
Qed.

(* awkward_NumpyArray_getitem_boolean_nonzero *)
Theorem NumpyArray_getitem_boolean_nonzero_safe toptr fromptr length stride :
  length <= zlen fromptr -> 0 <= stride ->
  bcount (Z.to_nat length) fromptr length stride 0 <= zlen toptr ->
  NumpyArray_getitem_boolean_nonzero toptr fromptr length stride <> KOob.
Proof.
  intros H1 H2 Hcap. unfold NumpyArray_getitem_boolean_nonzero. apply (np_noob _ (fun _ => True)).
  set (T := bcount (Z.to_nat length) fromptr length stride 0) in *.
  assert (G : forall fuel (ck : list Z * Z) i, zlen (fst ck) = zlen toptr -> 0 <= snd ck -> 0 <= i ->
            snd ck + bcount fuel fromptr length stride i <= zlen toptr ->
            noob_post (kwhile fuel (fun s : list Z * Z * Z => snd s <? length)
               (fun s => let '(ck, i) := s in
                  let* x := kget fromptr i in
                  let* ck' := (if negb (x =? 0) then kpush ck i else KOk ck) in
                  KOk (ck', i + stride)) (ck, i)) (fun _ => True)).
  { induction fuel as [|fuel IH]; intros [tc k] i L K I Hc; cbn [kwhile snd fst] in *.
    - destruct (i <? length); [apply np_err|now apply np_ret].
    - cbn [bcount] in Hc. destruct (i <? length) eqn:C; [|now apply np_ret].
      pose proof (bcount_nonneg fuel fromptr length stride (i + stride)) as BN.
      red_st.
      apply np_bind with (R := fun s' : list Z * Z * Z =>
        zlen (fst (fst s')) = zlen toptr /\ 0 <= snd (fst s') /\ snd s' = i + stride /\
        snd (fst s') + bcount fuel fromptr length stride (i + stride) <= zlen toptr).
      + np_step. destruct (at_ fromptr i =? 0) eqn:Ez; cbn [negb].
        * np_auto. cbn [fst snd]. repeat split; lia.
        * eapply np_bind.
          -- apply np_kpush with (Q := fun ck' : list Z * Z => zlen (fst ck') = zlen toptr /\ snd ck' = k + 1);
               cbn [fst snd]; [lia|]. rewrite zlen_set_nth. split; lia.
          -- intros [tc' k'] (L' & K'). cbn [fst snd] in *. apply np_ret. cbn [fst snd]. repeat split; lia.
      + intros [[tc' k'] i'] (L' & K' & I' & C'). cbn [fst snd] in *. subst i'. apply IH; cbn [fst snd]; lia. }
  eapply np_bind; [apply (G _ (toptr, 0) 0); cbn [fst snd]; lia|]. intros s _. now apply np_ret.
Qed.

Example NumpyArray_getitem_boolean_nonzero_example :
  NumpyArray_getitem_boolean_nonzero [9; 9; 9] [1; 0; 1; 1] 4 1 = KOk [0; 2; 3].
Proof. vm_compute. reflexivity. Qed.

(* ================================================================================================ *)
(** * awkward_NumpyArray_fill_scaled *)
Theorem NumpyArray_fill_scaled_safe tTO toptr off fromptr n scale :
  0 <= off -> off + n <= zlen toptr -> n <= zlen fromptr -> NumpyArray_fill_scaled tTO toptr off fromptr n scale <> KOob.
Proof.
  intros H0 H1 H2. unfold NumpyArray_fill_scaled. apply kfill_safe; auto.
  intros i Hi. rewrite kget_at by lia. cbn [kbind]. congruence.
Qed.

Theorem NumpyArray_fill_scaled_spec toptr off fromptr scale :
  0 <= off -> off + zlen fromptr <= zlen toptr ->
  NumpyArray_fill_scaled TIdeal toptr off fromptr (zlen fromptr) scale
  = KOk (firstn (Z.to_nat off) toptr ++ map (fun x => x * scale) fromptr ++ skipn (Z.to_nat (off + zlen fromptr)) toptr).
Proof.
  intros H0 H1. pose proof (zlen_nonneg fromptr) as Hn. unfold NumpyArray_fill_scaled.
  rewrite (kfill_spec off (zlen fromptr) _ (fun i => at_ fromptr i * scale)); auto.
  - rewrite Z.max_r by lia. unfold filled. now rewrite (map_iota_list (fun x => x * scale)).
  - intros i Hi. rewrite kget_at by lia. reflexivity.
Qed.

Theorem NumpyArray_fill_scaled_width tTO toptr off fromptr n scale :
  n <= zlen fromptr -> (forall i, 0 <= i < n -> fits tTO (at_ fromptr i * scale)) ->
  NumpyArray_fill_scaled tTO toptr off fromptr n scale = NumpyArray_fill_scaled TIdeal toptr off fromptr n scale.
Proof.
  intros H Hf. unfold NumpyArray_fill_scaled. apply kfill_ext. intros i Hi. rewrite kget_at by lia. cbn [kbind wrap].
  now rewrite (Hf i Hi).
Qed.

Example NumpyArray_fill_scaled_example :
  NumpyArray_fill_scaled (TI 64) [9; 9; 9; 9] 1 [1; 2; 3] 3 1000 = KOk [9; 1000; 2000; 3000].
Proof. vm_compute. reflexivity. Qed.

(* ================================================================================================ *)
(** * awkward_IndexedArray_ranges_next_64 / awkward_IndexedArray_ranges_carry_next_64 *)
Theorem IndexedArray_ranges_next_safe index fromstarts fromstops n tostarts tostops tolength :
  n <= zlen fromstarts -> n <= zlen fromstops -> n <= zlen tostarts -> n <= zlen tostops -> 1 <= zlen tolength ->
  (forall i, 0 <= i < n -> 0 <= at_ fromstarts i /\ at_ fromstops i <= zlen index) ->
  IndexedArray_ranges_next index fromstarts fromstops n tostarts tostops tolength <> KOob.
Proof.
  intros H1 H2 H3 H4 H5 Hr. unfold IndexedArray_ranges_next. eapply np_noob.
  apply np_bind_kfor with
    (P := fun (_ : Z) (st : list Z * list Z * Z) =>
            let '(ts, tp, k) := st in zlen ts = zlen tostarts /\ zlen tp = zlen tostops)
    (Q := fun _ : list Z * list Z * list Z => True).
  - auto.
  - intros i [[ts tp] k] Hi (L1 & L2). red_st. destruct (Hr i Hi) as (R1 & R2). np_auto.
    apply np_bind with (R := fun _ : Z => True).
    + apply (np_kfor_c _ (fun _ : Z => True)); auto. intros j kk Hj _. np_auto. auto.
    + intros k' _. np_auto. red_st. rewrite ?zlen_set_nth. auto.
  - intros [[ts tp] k] (L1 & L2). red_st. np_auto. auto.
Qed.

Example IndexedArray_ranges_next_example :
  IndexedArray_ranges_next [0; -1; 1; 2; -1] [0; 2] [2; 5] 2 [9; 9] [9; 9] [9] = KOk ([0; 1], [1; 3], [3]).
Proof. vm_compute. reflexivity. Qed.

(** tocarry holds the non-negative entries of all ranges: what awkward_IndexedArray_ranges_next_64 leaves in tolength *)
Theorem IndexedArray_ranges_carry_next_safe index fromstarts fromstops n tocarry :
  n <= zlen fromstarts -> n <= zlen fromstops ->
  (forall i, 0 <= i < n -> 0 <= at_ fromstarts i /\ at_ fromstops i <= zlen index) ->
  psum (fun i => nvalid index (at_ fromstarts i) (at_ fromstops i)) (Z.to_nat n) <= zlen tocarry ->
  IndexedArray_ranges_carry_next index fromstarts fromstops n tocarry <> KOob.
Proof.
  intros H1 H2 Hr Hcap. unfold IndexedArray_ranges_carry_next. eapply np_noob.
  set (f := fun i => nvalid index (at_ fromstarts i) (at_ fromstops i)) in *.
  assert (Hf : forall i, 0 <= i < n -> 0 <= f i) by (intros; apply nvalid_nonneg).
  apply np_bind_kfor with
    (P := fun i (st : list Z * Z) => zlen (fst st) = zlen tocarry /\ snd st = psum f (Z.to_nat i))
    (Q := fun _ : list Z => True).
  - cbn [fst snd]. auto.
  - intros i [tc k] Hi (L1 & K). cbn [fst snd] in *.
    pose proof (psum_S f i (proj1 Hi)) as PS. unfold f at 3 in PS.
    pose proof (psum_mono f n Hf (Z.to_nat (i + 1)) (Z.to_nat n)) as PM.
    pose proof (psum_nonneg f n Hf (Z.to_nat i)) as PN. destruct (Hr i Hi) as (R1 & R2).
    np_auto. set (a := at_ fromstarts i) in *. set (b := at_ fromstops i) in *.
    eapply np_weaken.
    + apply np_kfor with (P := fun j (st : list Z * Z) =>
                                 zlen (fst st) = zlen tocarry /\ snd st = k + nvalid index a (a + j)).
      * cbn [fst snd]. rewrite nvalid_empty by lia. split; lia.
      * intros j [tc' k'] Hj (L2 & K2). cbn [fst snd] in *.
        pose proof (nvalid_snoc index a (a + j)) as NS. replace (a + j + 1) with (a + (j + 1)) in NS by lia.
        pose proof (nvalid_split index a (a + (j + 1)) b) as NP. pose proof (nvalid_nonneg index (a + (j + 1)) b) as NN.
        pose proof (nvalid_nonneg index a (a + j)) as NN2.
        destruct (0 <=? at_ index (a + j)) eqn:E0; np_auto; try (exfalso; lia).
        -- apply np_kpush; cbn [fst snd]; [lia|]. rewrite zlen_set_nth. split; lia.
        -- cbn [fst snd]. split; lia.
    + intros [tc' k'] (L2 & K2). cbn [fst snd] in *. split; [lia|].
      destruct (Z_le_gt_dec 0 (b - a)).
      * rewrite Z.max_r in K2 by lia. replace (a + (b - a)) with b in K2 by lia. lia.
      * rewrite Z.max_l in K2 by lia. rewrite nvalid_empty in K2 by lia. rewrite nvalid_empty in PS by lia. lia.
  - intros s' _. now apply np_ret.
Qed.

Example IndexedArray_ranges_carry_next_example :
  IndexedArray_ranges_carry_next [0; -1; 1; 2; -1] [0; 2] [2; 5] 2 [9; 9; 9] = KOk [0; 1; 2].
Proof. vm_compute. reflexivity. Qed.

(* ================================================================================================ *)
(** * awkward_zero_mask (= [const_mask 0]) and awkward_reduce_prod_int32_bool_64 (= [reduce_prod_int_bool (TI 32)]) *)
Theorem zero_mask_safe tomask n : n <= zlen tomask -> const_mask 0 tomask n <> KOob.
Proof. apply const_mask_safe. Qed.
Theorem zero_mask_spec tomask n :
  0 <= n <= zlen tomask -> const_mask 0 tomask n = KOk (map (fun _ => 0) (iota n) ++ skipn (Z.to_nat n) tomask).
Proof. apply const_mask_spec. Qed.
Example zero_mask_example : const_mask 0 [9; 9; 9] 2 = KOk [0; 0; 9].
Proof. vm_compute. reflexivity. Qed.

Theorem reduce_prod_int32_bool_safe toptr fromptr parents n ol :
  red_pre toptr fromptr parents n ol -> reduce_prod_int_bool (TI 32) toptr fromptr parents n ol <> KOob.
Proof. apply reduce_prod_int_bool_safe. Qed.
Example reduce_prod_int32_bool_example :
  reduce_prod_int_bool (TI 32) [9; 9] [3; 0; 5] [0; 0; 1] 3 2 = KOk [0; 1].
Proof. vm_compute. reflexivity. Qed.
