(* C19 — proofs about the AwkwardForth model (Forth.v). *)
From Coq Require Import ZArith Bool List Lia ZifyBool.
From AwkForth Require Import Forth.
Import ListNotations.
Open Scope Z_scope.

(* ================================================================== 1. machine arithmetic *)
Lemma pow2_pos : forall w, 0 <= w -> 0 < 2 ^ w.
Proof. intros. apply Z.pow_pos_nonneg; lia. Qed.

Lemma wrap_range : forall w z, 0 < w -> - 2 ^ (w - 1) <= wrap w z < 2 ^ (w - 1).
Proof.
  intros w z Hw. unfold wrap.
  assert (H2 : 2 ^ w = 2 * 2 ^ (w - 1)).
  { replace w with (Z.succ (w - 1)) at 1 by lia. rewrite Z.pow_succ_r by lia. reflexivity. }
  assert (Hp : 0 < 2 ^ (w - 1)) by (apply pow2_pos; lia).
  pose proof (Z.mod_pos_bound (z + 2 ^ (w - 1)) (2 ^ w)). lia.
Qed.

Lemma wrap_congr : forall w z, 0 < w -> exists k, wrap w z = z + k * 2 ^ w.
Proof.
  intros w z Hw. unfold wrap.
  assert (Hp : 0 < 2 ^ w) by (apply pow2_pos; lia).
  exists (- ((z + 2 ^ (w - 1)) / 2 ^ w)).
  pose proof (Z.div_mod (z + 2 ^ (w - 1)) (2 ^ w)). lia.
Qed.

Lemma wrap_id : forall w z, 0 < w -> - 2 ^ (w - 1) <= z < 2 ^ (w - 1) -> wrap w z = z.
Proof.
  intros w z Hw Hz. unfold wrap.
  assert (H2 : 2 ^ w = 2 * 2 ^ (w - 1)).
  { replace w with (Z.succ (w - 1)) at 1 by lia. rewrite Z.pow_succ_r by lia. reflexivity. }
  rewrite Z.mod_small by lia. lia.
Qed.

(* the wrapped value is THE representative of z modulo 2^w in the signed range *)
Lemma wrap_unique : forall w z r, 0 < w -> - 2 ^ (w - 1) <= r < 2 ^ (w - 1) -> (exists k, r = z + k * 2 ^ w) -> r = wrap w z.
Proof.
  intros w z r Hw Hr [k Hk].
  destruct (wrap_congr w z Hw) as [k' Hk']. pose proof (wrap_range w z Hw) as Hq.
  assert (H2 : 2 ^ w = 2 * 2 ^ (w - 1)).
  { replace w with (Z.succ (w - 1)) at 1 by lia. rewrite Z.pow_succ_r by lia. reflexivity. }
  assert (Hp : 0 < 2 ^ (w - 1)) by (apply pow2_pos; lia).
  assert (k = k') by nia. subst. lia.
Qed.

(* ---- floor division / modulo as coded *)
Lemma trunc_facts : forall a b, b <> 0 ->
  a = b * Z.quot a b + Z.rem a b /\ Z.abs (Z.rem a b) < Z.abs b /\
  ((0 <= a -> 0 <= Z.rem a b) /\ (a <= 0 -> Z.rem a b <= 0)).
Proof.
  intros a b Hb. split; [apply Z.quot_rem' | split; [apply Z.rem_bound_abs; assumption | split; intros]].
  - apply Z.rem_nonneg; assumption.
  - apply Z.rem_nonpos; assumption.
Qed.

Definition floor_div_raw (a b : Z) : Z :=
  let q := Z.quot a b in
  if negb (Z.rem a b =? 0) && negb (Bool.eqb (a <? 0) (b <? 0)) then q - 1 else q.

Lemma floor_div_raw_spec : forall a b, b <> 0 -> floor_div_raw a b = a / b.
Proof.
  intros a b Hb. unfold floor_div_raw.
  destruct (trunc_facts a b Hb) as (He & Hr & Hs1 & Hs2).
  set (q := Z.quot a b) in *. set (r := Z.rem a b) in *. clearbody q r.
  destruct (r =? 0) eqn:E; cbn [negb andb].
  - apply Z.div_unique with (r := 0); lia.
  - assert (r <> 0) by lia.
    destruct (a <? 0) eqn:Ea; destruct (b <? 0) eqn:Eb; cbn [Bool.eqb negb].
    + apply Z.div_unique with (r := r); [right; nia | lia].
    + apply Z.div_unique with (r := r + b); [left; nia | lia].
    + apply Z.div_unique with (r := r + b); [right; nia | lia].
    + apply Z.div_unique with (r := r); [left; nia | lia].
Qed.

Definition floor_mod_raw (a b : Z) : Z :=
  let r := Z.rem a b in
  if negb (r =? 0) && negb (Bool.eqb (r <? 0) (b <? 0)) then r + b else r.

Lemma floor_mod_raw_spec : forall a b, b <> 0 -> floor_mod_raw a b = a mod b.
Proof.
  intros a b Hb. unfold floor_mod_raw.
  destruct (trunc_facts a b Hb) as (He & Hr & Hs1 & Hs2).
  set (q := Z.quot a b) in *. set (r := Z.rem a b) in *. clearbody q r.
  destruct (r =? 0) eqn:E; cbn [negb andb].
  - apply Z.mod_unique with (q := q); [lia | lia].
  - destruct (r <? 0) eqn:Er; destruct (b <? 0) eqn:Eb; cbn [Bool.eqb negb].
    + apply Z.mod_unique with (q := q); [right; lia | lia].
    + apply Z.mod_unique with (q := q - 1); [left; lia | lia].
    + apply Z.mod_unique with (q := q - 1); [right; lia | lia].
    + apply Z.mod_unique with (q := q); [left; lia | lia].
Qed.

Lemma div_in_range : forall w a b, 0 < w -> b <> 0 -> b <> -1 ->
  - 2 ^ (w - 1) <= a < 2 ^ (w - 1) -> - 2 ^ (w - 1) <= a / b < 2 ^ (w - 1).
Proof.
  intros w a b Hw Hb Hb1 Ha.
  assert (Hp : 0 < 2 ^ (w - 1)) by (apply pow2_pos; lia).
  set (P := 2 ^ (w - 1)) in *. clearbody P.
  destruct (Z_lt_dec 0 b).
  - split; [apply Z.div_le_lower_bound; nia | apply Z.div_lt_upper_bound; nia].
  - assert (b < -1) by lia. rewrite <- Z.div_opp_opp by lia.
    split; [apply Z.div_le_lower_bound; nia | apply Z.div_lt_upper_bound; nia].
Qed.

Lemma forth_div_spec : forall w a b, 0 < w -> b <> 0 -> - 2 ^ (w - 1) <= a < 2 ^ (w - 1) ->
  forth_div w a b = wrap w (a / b).
Proof.
  intros w a b Hw Hb Ha. unfold forth_div. destruct (b =? -1) eqn:E1.
  - assert (b = -1) by lia. subst b. f_equal. rewrite <- (Z.div_opp_opp a (-1)) by lia. cbn. rewrite Z.div_1_r. reflexivity.
  - fold (floor_div_raw a b). rewrite floor_div_raw_spec by assumption.
    symmetry. apply wrap_id; [assumption|]. apply div_in_range; try assumption; lia.
Qed.

Lemma forth_mod_spec : forall w a b, b <> 0 -> forth_mod w a b = a mod b.
Proof.
  intros w a b Hb. unfold forth_mod. destruct (b =? -1) eqn:E1.
  - assert (b = -1) by lia. subst b. apply Z.mod_unique with (q := - a); [right; lia | lia].
  - fold (floor_mod_raw a b). apply floor_mod_raw_spec. assumption.
Qed.

(* (d) `/`, `mod`, `/mod`: floor division and modulo for ALL in-range cells with d <> 0; the only wrap-around is
   the quotient of INT_MIN / -1 *)
Theorem floor_div_mod_spec_proof : forall w n d, 0 < w -> d <> 0 ->
  - 2 ^ (w - 1) <= n < 2 ^ (w - 1) -> - 2 ^ (w - 1) <= d < 2 ^ (w - 1) ->
  let q := forth_div w n d in let r := forth_mod w n d in
  r = n mod d /\ q = wrap w (n / d) /\ (0 <= r < d \/ d < r <= 0) /\ wrap w (q * d + r) = n /\
  (~ (n = - 2 ^ (w - 1) /\ d = -1) -> q = n / d /\ q * d + r = n).
Proof.
  intros w n d Hw Hd Hn Hdr q r. subst q r.
  rewrite forth_div_spec by assumption. rewrite forth_mod_spec by assumption.
  pose proof (Z.div_mod n d Hd) as Hdm.
  assert (Hsign : 0 <= n mod d < d \/ d < n mod d <= 0).
  { destruct (Z_lt_dec 0 d); [left; apply Z.mod_pos_bound; lia | right; apply Z.mod_neg_bound; lia]. }
  split; [reflexivity|]. split; [reflexivity|]. split; [assumption|]. split.
  - symmetry. apply wrap_unique; [assumption|assumption|].
    destruct (wrap_congr w (n / d) Hw) as [k Hk]. exists (- (k * d)). rewrite Hk. nia.
  - intro Hnot. assert (Hq : wrap w (n / d) = n / d).
    { apply wrap_id; [assumption|]. destruct (Z.eq_dec d (-1)) as [->|Hd1].
      - rewrite <- (Z.div_opp_opp n (-1)) by lia. cbn. rewrite Z.div_1_r. lia.
      - apply div_in_range; assumption. }
    rewrite Hq. split; [reflexivity|lia].
Qed.

(* ================================================================== 2. what an instruction may change *)
(* control part of the state: untouched by every instruction that lets the loop continue *)
Definition ctl (m : machine) := (m_err m, m_ready m, m_targets m).

Ltac inv H := inversion H; subst; clear H.

Ltac break_hyp H :=
  repeat match type of H with
         | context [match ?x with _ => _ end] => destruct x eqn:?; try discriminate H
         end.

Ltac flow_inv :=
  repeat match goal with
         | H : continue _ = Ok (_, _) |- _ => unfold continue in H; inv H
         | H : stop _ _ = Ok (Continue, _) |- _ => unfold stop in H; discriminate H
         | H : Ok _ = Ok _ |- _ => inv H
         | H : Fault _ = Ok _ |- _ => discriminate H
         | H : OutOfFuel = Ok _ |- _ => discriminate H
         end.

Lemma fetch_ctl : forall p m b m1, fetch p m = Ok (b, m1) -> ctl m1 = ctl m.
Proof. intros p m b m1 H. unfold fetch in H. break_hyp H. flow_inv. reflexivity. Qed.

Lemma move_ip_ctl : forall m d m1, move_ip m d = Ok m1 -> ctl m1 = ctl m.
Proof. intros m d m1 H. unfold move_ip in H. break_hyp H. flow_inv. reflexivity. Qed.

Lemma push_ctl : forall p m v m1, push p m v = Ok (Continue, m1) -> ctl m1 = ctl m.
Proof. intros p m v m1 H. unfold push in H. break_hyp H; flow_inv. reflexivity. Qed.

Lemma push_frame_ctl : forall p m w m1, push_frame p m w = Ok (Continue, m1) -> ctl m1 = ctl m.
Proof. intros p m w m1 H. unfold push_frame in H. break_hyp H; flow_inv. reflexivity. Qed.

Lemma pop_incr_ctl : forall m m1, pop_incr m = Ok (Continue, m1) -> ctl m1 = ctl m.
Proof. intros m m1 H. unfold pop_incr in H. break_hyp H; flow_inv; reflexivity. Qed.

Lemma un_op_ctl : forall m f m1, un_op m f = Ok (Continue, m1) -> ctl m1 = ctl m.
Proof. intros m f m1 H. unfold un_op in H. break_hyp H; flow_inv; reflexivity. Qed.

Lemma bin_op_ctl : forall m f m1, bin_op m f = Ok (Continue, m1) -> ctl m1 = ctl m.
Proof. intros m f m1 H. unfold bin_op in H. break_hyp H; flow_inv; reflexivity. Qed.

Lemma out_apply_ctl : forall m o op m1, out_apply m o op = Ok (Continue, m1) -> ctl m1 = ctl m.
Proof.
  intros m o op m1 H. unfold out_apply in H.
  destruct (znth (m_outs m) o); [|discriminate]. destruct (buf_apply o0 op); try discriminate.
  destruct (zupd (m_outs m) o b); [|discriminate]. flow_inv. reflexivity.
Qed.

Lemma out_write_ctl : forall m o vs m1, out_write m o vs = Ok m1 -> ctl m1 = ctl m.
Proof.
  intros m o vs m1 H. unfold out_write, out_apply in H. cbn [buf_apply] in H.
  destruct (znth (m_outs m) o); [|discriminate]. destruct (zupd (m_outs m) o (vs ++ o0)); [|discriminate].
  unfold continue in H. inv H. reflexivity.
Qed.

Lemma input_read_ctl : forall e m i n r m1, input_read e m i n = Ok (r, m1) -> ctl m1 = ctl m.
Proof. intros e m i n r m1 H. unfold input_read in H. break_hyp H; flow_inv; reflexivity. Qed.

Lemma push_items_ctl : forall p vs m m1, push_items p m vs = Ok (Continue, m1) -> ctl m1 = ctl m.
Proof.
  induction vs as [|v vs IH]; intros m m1 H; cbn [push_items] in H.
  - flow_inv. reflexivity.
  - destruct (can_push p m); [|flow_inv]. apply IH in H. rewrite H. reflexivity.
Qed.

Lemma deliver_ctl : forall p m d a b m1, deliver p m d a b = Ok (Continue, m1) -> ctl m1 = ctl m.
Proof.
  intros p m d a b m1 H. unfold deliver in H. destruct d.
  - break_hyp H; flow_inv. eapply out_write_ctl; eassumption.
  - eapply push_ctl; eassumption.
Qed.

Lemma read_varint_ctl : forall fuel e m inp sh acc r m1, read_varint fuel e m inp sh acc = Ok (r, m1) -> ctl m1 = ctl m.
Proof.
  induction fuel as [|f IH]; intros e m inp sh acc r m1 H; cbn [read_varint] in H; [discriminate|].
  destruct (input_read e m inp 1) as [[[bs|] m2]| |] eqn:E; try discriminate.
  - apply input_read_ctl in E.
    destruct bs as [|b [|b2 bs]]; try discriminate.
    destruct (sh =? 63); [inv H; assumption|].
    destruct (Z.land b 128 =? 0); [inv H; assumption|].
    apply IH in H. congruence.
  - apply input_read_ctl in E. inv H. assumption.
Qed.

Lemma read_varints_ctl : forall zz p e n m inp d m1, read_varints zz p e n m inp d = Ok (Continue, m1) -> ctl m1 = ctl m.
Proof.
  induction n as [|n IH]; intros m inp d m1 H; cbn [read_varints] in H.
  - flow_inv. reflexivity.
  - destruct (read_varint 11 e m inp 0 0) as [[[r|er] m2]| |] eqn:E; try discriminate; try solve [flow_inv].
    apply read_varint_ctl in E.
    destruct (deliver p m2 d _ _) as [[[|] m3]| |] eqn:D; try discriminate.
    apply deliver_ctl in D. apply IH in H. congruence.
Qed.

Lemma read_nbits_ctl : forall fuel p e m inp d flip bw mask wl wr rem data m1,
  read_nbits fuel p e m inp d flip bw mask wl wr rem data = Ok (Continue, m1) -> ctl m1 = ctl m.
Proof.
  induction fuel as [|f IH]; intros p e m inp d flip bw mask wl wr rem data m1 H; cbn [read_nbits] in H; [discriminate|].
  destruct (rem =? 0); [flow_inv; reflexivity|].
  destruct (8 <=? wr); [eapply IH; eassumption|].
  destruct (bw <=? wl - wr).
  - destruct (deliver p m d _ _) as [[[|] m3]| |] eqn:D; try discriminate.
    apply deliver_ctl in D. apply IH in H. congruence.
  - destruct (input_read e m inp 1) as [[[bs|] m2]| |] eqn:E; try discriminate; try solve [flow_inv].
    apply input_read_ctl in E. destruct bs as [|b [|b2 bs]]; try discriminate.
    apply IH in H. congruence.
Qed.

Ltac break_all :=
  repeat match goal with
         | H : context [match ?x with _ => _ end] |- _ => destruct x eqn:?; try discriminate
         end.

Ltac ctl_chain :=
  repeat match goal with
         | H : fetch _ _ = Ok _ |- _ => apply fetch_ctl in H
         | H : move_ip _ _ = Ok _ |- _ => apply move_ip_ctl in H
         | H : push _ _ _ = Ok (Continue, _) |- _ => apply push_ctl in H
         | H : push_frame _ _ _ = Ok (Continue, _) |- _ => apply push_frame_ctl in H
         | H : pop_incr _ = Ok (Continue, _) |- _ => apply pop_incr_ctl in H
         | H : un_op _ _ = Ok (Continue, _) |- _ => apply un_op_ctl in H
         | H : bin_op _ _ = Ok (Continue, _) |- _ => apply bin_op_ctl in H
         | H : out_write _ _ _ = Ok _ |- _ => apply out_write_ctl in H
         | H : out_apply _ _ _ = Ok (Continue, _) |- _ => apply out_apply_ctl in H
         | H : input_read _ _ _ _ = Ok _ |- _ => apply input_read_ctl in H
         | H : push_items _ _ _ = Ok (Continue, _) |- _ => apply push_items_ctl in H
         | H : deliver _ _ _ _ _ = Ok (Continue, _) |- _ => apply deliver_ctl in H
         | H : read_varints _ _ _ _ _ _ _ = Ok (Continue, _) |- _ => apply read_varints_ctl in H
         | H : read_nbits _ _ _ _ _ _ _ _ _ _ _ _ _ = Ok (Continue, _) |- _ => apply read_nbits_ctl in H
         end;
  unfold ctl in *;
  cbn [m_err m_ready m_targets set_stack set_vars set_inpos set_outs set_frames set_dos fst snd] in *;
  congruence.

Lemma exec_read_ctl : forall p e m bc m1, exec_read p e m bc = Ok (Continue, m1) -> ctl m1 = ctl m.
Proof.
  intros p e m bc m1 H. unfold exec_read in H. cbv zeta in H.
  break_all; flow_inv; ctl_chain.
Qed.

Lemma exec_builtin_ctl : forall p e m bc m1, exec_builtin p e m bc = Ok (Continue, m1) -> ctl m1 = ctl m.
Proof.
  intros p e m bc m1 H. unfold exec_builtin, with_arg in H. cbv zeta in H.
  break_all; flow_inv; ctl_chain.
Qed.

Lemma exec_exit_ctl : forall p m m1, exec_exit false p m = Ok (Continue, m1) -> ctl m1 = ctl m.
Proof.
  intros p m m1 H. unfold exec_exit in H. cbv zeta in H.
  break_all; flow_inv; ctl_chain.
Qed.

Lemma exec_op_fixed_single : forall single p e m bc, exec_op true single p e m bc = exec_op true false p e m bc.
Proof. intros. unfold exec_op. destruct single; reflexivity. Qed.

Lemma exec_op_ctl : forall single p e m bc m1, exec_op true single p e m bc = Ok (Continue, m1) -> ctl m1 = ctl m.
Proof.
  intros single p e m bc m1 H. rewrite exec_op_fixed_single in H. unfold exec_op in H.
  cbn [andb negb] in H.
  destruct (bc <? 0); [eapply exec_read_ctl; eassumption|].
  destruct (BOUND_DICTIONARY <=? bc); [eapply push_frame_ctl; eassumption|].
  destruct (bc =? CODE_EXIT); [eapply exec_exit_ctl; eassumption | eapply exec_builtin_ctl; eassumption].
Qed.

Lemma fetch_instr_ctl : forall p m r, fetch_instr p m = Ok r ->
  match r with LoopEnd m' => ctl m' = ctl m | Instr _ m0 => ctl m0 = ctl m end.
Proof.
  intros p m r H. unfold fetch_instr in H. cbv zeta in H. break_all; flow_inv; reflexivity.
Qed.

(* ================================================================== 3. running = iterated stepping (patched stepping) *)
Section Sim.
  Variables (p : prog) (e : env) (t : Z).

  Notation IRs := (fun f m => internal_run f true true p e t m).
  Notation IRr := (fun f m => internal_run f true false p e t m).

  Lemma IR_S : forall fixed single f m,
    internal_run (S f) fixed single p e t m =
    if depth m =? t then Ok m
    else match segment_done p m with
         | Ok false =>
           match exec_instr fixed single p e t m with
           | Ok (Continue, m1) => internal_run f fixed single p e t m1
           | Ok (Return, m1) => Ok m1
           | Fault k => Fault k
           | OutOfFuel => OutOfFuel
           end
         | Ok true =>
           match pop_incr m with
           | Ok (Continue, m1) => internal_run f fixed single p e t m1
           | Ok (Return, m1) => Ok m1
           | Fault k => Fault k
           | OutOfFuel => OutOfFuel
           end
         | Fault k => Fault k
         | OutOfFuel => OutOfFuel
         end.
  Proof. reflexivity. Qed.

  (* the run-mode result is the same state, or run-mode continues from the state the step reached *)
  Definition sim_ok (m m1 : machine) : Prop :=
    (exists k, forall f, IRr (S k + f)%nat m = Ok m1)
    \/ (depth m1 <> t /\ ctl m1 = ctl m /\ exists k, forall f, IRr (S k + f)%nat m = IRr f m1).

  Definition sim_res (m : machine) (r : result machine) : Prop :=
    match r with
    | Ok m1 => sim_ok m m1
    | Fault c => exists k, forall f, IRr (S k + f)%nat m = Fault c
    | OutOfFuel => True
    end.

  Lemma sim_lift : forall m m' r, ctl m' = ctl m -> (forall f, IRr (S f) m = IRr f m') -> sim_res m' r -> sim_res m r.
  Proof.
    intros m m' r Hc Hs Hr. cbv beta in *. destruct r as [m1|c|]; cbn [sim_res] in *; unfold sim_ok in *; cbv beta in *; [|destruct Hr as [k Hk]; exists (S k); intro f; cbn [Nat.add]; rewrite Hs; apply Hk|exact I].
    destruct Hr as [[k Hk]|(Hd & Hctl & k & Hk)].
    - left. exists (S k). intro f. cbn [Nat.add]; cbv beta. rewrite Hs. apply Hk.
    - right. split; [assumption|]. split; [congruence|]. exists (S k). intro f. cbn [Nat.add]; cbv beta. rewrite Hs. apply Hk.
  Qed.

  Lemma step_sim : forall fs m, sim_res m (IRs fs m).
  Proof.
    induction fs as [|fs IH]; intro m; [exact I|].
    rewrite IR_S.
    destruct (depth m =? t) eqn:Ed.
    { left. exists O. intro f. cbn [Nat.add]; cbv beta. rewrite IR_S, Ed. reflexivity. }
    destruct (segment_done p m) as [[|]|c|] eqn:Esd; [| |exists O; intro f; cbn [Nat.add]; rewrite IR_S, Ed, Esd; reflexivity|exact I].
    - (* the segment is finished: pop *)
      destruct (pop_incr m) as [[[|] m']|c|] eqn:Ep.
      + apply sim_lift with (m' := m'); [eapply pop_incr_ctl; eassumption| |apply IH].
        intro f. rewrite IR_S, Ed, Esd, Ep. reflexivity.
      + left. exists O. intro f. cbn [Nat.add]; cbv beta. rewrite IR_S, Ed, Esd, Ep. reflexivity.
      + exists O. intro f. cbn [Nat.add]; cbv beta. rewrite IR_S, Ed, Esd, Ep. reflexivity.
      + exact I.
    - (* an instruction *)
      unfold exec_instr.
      destruct (fetch_instr p m) as [[m'|bc m0]|c|] eqn:Ef.
      + (* a do-loop ends *)
        apply fetch_instr_ctl in Ef as Hc. cbn [continue].
        apply sim_lift with (m' := m'); [assumption| |apply IH].
        intro f. rewrite IR_S, Ed, Esd. unfold exec_instr. rewrite Ef. reflexivity.
      + apply fetch_instr_ctl in Ef as Hc.
        assert (Hrun : forall f, IRr (S f) m =
                  match exec_op true false p e m0 bc with
                  | Ok (Continue, m2) => IRr f m2
                  | Ok (Return, m2) => Ok m2
                  | Fault k => Fault k
                  | OutOfFuel => OutOfFuel
                  end).
        { intro f. rewrite IR_S, Ed, Esd. unfold exec_instr. rewrite Ef.
          destruct (exec_op true false p e m0 bc) as [[[|] m2]|c|]; reflexivity. }
        rewrite exec_op_fixed_single.
        destruct (exec_op true false p e m0 bc) as [[[|] m2]|c|] eqn:Eo.
        * (* the loop would continue with m2 *)
          assert (Hc2 : ctl m2 = ctl m).
          { rewrite <- Hc. eapply exec_op_ctl with (single := false). eassumption. }
          cbn [andb].
          assert (Hexit_or_same : forall m1, (depth m1 <> t -> m1 = m2) -> (depth m2 = t -> m1 = m2) -> m1 = m2 -> sim_ok m m1).
          { intros m1 _ _ ->. destruct (depth m2 =? t) eqn:Ed2.
            - left. exists 1%nat. intro f. cbn [Nat.add]; cbv beta. rewrite Hrun. rewrite IR_S, Ed2. reflexivity.
            - right. split; [lia|]. split; [assumption|]. exists 0%nat. intro f. cbn [Nat.add]; cbv beta. apply Hrun. }
          destruct (bc =? CODE_EXIT).
          { cbn [sim_res]. apply Hexit_or_same; auto. }
          unfold single_tail.
          destruct (depth m2 =? t) eqn:Ed2.
          { cbn [sim_res]. apply Hexit_or_same; auto. }
          destruct (segment_done p m2) as [[|]|c|] eqn:Esd2.
          -- destruct (pop_incr m2) as [[[|] m3]|c|] eqn:Ep2; cbn [sim_res].
             ++ destruct (depth m3 =? t) eqn:Ed3.
                ** left. exists 2%nat. intro f. cbn [Nat.add]; cbv beta. rewrite Hrun, IR_S, Ed2, Esd2, Ep2, IR_S, Ed3. reflexivity.
                ** right. split; [lia|]. split; [rewrite <- Hc2; eapply pop_incr_ctl; eassumption|].
                   exists 1%nat. intro f. cbn [Nat.add]; cbv beta. rewrite Hrun, IR_S, Ed2, Esd2, Ep2. reflexivity.
             ++ left. exists 1%nat. intro f. cbn [Nat.add]; cbv beta. rewrite Hrun, IR_S, Ed2, Esd2, Ep2. reflexivity.
             ++ exists 1%nat. intro f. cbn [Nat.add]; cbv beta. rewrite Hrun, IR_S, Ed2, Esd2, Ep2. reflexivity.
             ++ exact I.
          -- cbn [sim_res]. right. split; [lia|]. split; [assumption|]. exists 0%nat. intro f. cbn [Nat.add]; cbv beta. apply Hrun.
          -- cbn [sim_res]. exists 1%nat. intro f. cbn [Nat.add]; cbv beta. rewrite Hrun, IR_S, Ed2, Esd2. reflexivity.
          -- exact I.
        * left. exists O. intro f. cbn [Nat.add]; cbv beta. apply Hrun.
        * exists O. intro f. cbn [Nat.add]; cbv beta. apply Hrun.
        * exact I.
      + exists O. intro f. cbn [Nat.add]; cbv beta. rewrite IR_S, Ed, Esd. unfold exec_instr. rewrite Ef. reflexivity.
      + exact I.
  Qed.
End Sim.

(* ================================================================== 4. a step never runs out of fuel *)
Ltac oof_leaf :=
  match goal with
  | H : continue _ = OutOfFuel |- _ => discriminate H
  | H : stop _ _ = OutOfFuel |- _ => discriminate H
  | H : Ok _ = OutOfFuel |- _ => discriminate H
  | H : Fault _ = OutOfFuel |- _ => discriminate H
  end.


Lemma push_noof : forall p m v, push p m v <> OutOfFuel.
Proof. intros p m v H. unfold push in H. break_all; oof_leaf. Qed.
Lemma push_frame_noof : forall p m w, push_frame p m w <> OutOfFuel.
Proof. intros p m w H. unfold push_frame in H. break_all; oof_leaf. Qed.
Lemma pop_incr_noof : forall m, pop_incr m <> OutOfFuel.
Proof. intros m H. unfold pop_incr in H. break_all; oof_leaf. Qed.
Lemma un_op_noof : forall m f, un_op m f <> OutOfFuel.
Proof. intros m f H. unfold un_op in H. break_all; oof_leaf. Qed.
Lemma bin_op_noof : forall m f, bin_op m f <> OutOfFuel.
Proof. intros m f H. unfold bin_op in H. break_all; oof_leaf. Qed.
Lemma fetch_noof : forall p m, fetch p m <> OutOfFuel.
Proof. intros p m H. unfold fetch in H. break_all; oof_leaf. Qed.
Lemma move_ip_noof : forall m d, move_ip m d <> OutOfFuel.
Proof. intros m d H. unfold move_ip in H. break_all; oof_leaf. Qed.
Lemma segment_done_noof : forall p m, segment_done p m <> OutOfFuel.
Proof. intros p m H. unfold segment_done in H. break_all; oof_leaf. Qed.
Lemma out_apply_noof : forall m o op, out_apply m o op <> OutOfFuel.
Proof. intros m o op H. unfold out_apply in H. break_all; oof_leaf. Qed.
Lemma out_write_noof : forall m o vs, out_write m o vs <> OutOfFuel.
Proof.
  intros m o vs H. unfold out_write in H. destruct (out_apply m o (BWrite vs)) as [[fl m1]|c|] eqn:E; try discriminate.
  eapply out_apply_noof; eassumption.
Qed.
Lemma input_read_noof : forall e m i n, input_read e m i n <> OutOfFuel.
Proof. intros e m i n H. unfold input_read in H. break_all; oof_leaf. Qed.
Lemma pop_only_noof : forall m, pop_only m <> OutOfFuel.
Proof. intros m H. unfold pop_only in H. break_all; oof_leaf. Qed.
Lemma fetch_instr_noof : forall p m, fetch_instr p m <> OutOfFuel.
Proof. intros p m H. unfold fetch_instr in H. cbv zeta in H. break_all; oof_leaf. Qed.

Lemma push_items_noof : forall p vs m, push_items p m vs <> OutOfFuel.
Proof.
  induction vs as [|v vs IH]; intros m H; cbn [push_items] in H; [oof_leaf|].
  destruct (can_push p m); [eapply IH; eassumption | oof_leaf].
Qed.

Lemma deliver_noof : forall p m d a b, deliver p m d a b <> OutOfFuel.
Proof.
  intros p m d a b H. unfold deliver in H. destruct d; [|eapply push_noof; eassumption].
  break_all; oof_leaf.
Qed.

Global Hint Resolve push_noof push_frame_noof pop_incr_noof un_op_noof bin_op_noof fetch_noof move_ip_noof
  segment_done_noof out_write_noof input_read_noof pop_only_noof fetch_instr_noof push_items_noof deliver_noof : noof.

Ltac oof_done :=
  try oof_leaf;
  match goal with
  | H : ?x = OutOfFuel |- _ =>
    exfalso; first [ eapply push_noof; exact H | eapply push_frame_noof; exact H | eapply pop_incr_noof; exact H
                   | eapply un_op_noof; exact H | eapply bin_op_noof; exact H | eapply fetch_noof; exact H
                   | eapply move_ip_noof; exact H | eapply segment_done_noof; exact H | eapply out_write_noof; exact H | eapply out_apply_noof; exact H
                   | eapply input_read_noof; exact H | eapply pop_only_noof; exact H | eapply fetch_instr_noof; exact H
                   | eapply push_items_noof; exact H | eapply deliver_noof; exact H ]
  end.

Lemma exec_builtin_noof : forall p e m bc, exec_builtin p e m bc <> OutOfFuel.
Proof.
  intros p e m bc H. unfold exec_builtin, with_arg in H. cbv zeta in H.
  break_all; oof_done.
Qed.

Lemma exec_exit_noof : forall b p m, exec_exit b p m <> OutOfFuel.
Proof.
  intros b p m H. unfold exec_exit in H. cbv zeta in H. break_all; oof_done.
Qed.

Lemma read_varint_noof : forall fuel e m inp j acc, 0 <= j <= 9 -> 9 - j < Z.of_nat fuel ->
  read_varint fuel e m inp (7 * j) acc <> OutOfFuel.
Proof.
  induction fuel as [|f IH]; intros e m inp j acc Hj Hf H; [lia|].
  cbn [read_varint] in H.
  destruct (input_read e m inp 1) as [[[bs|] m2]| |] eqn:E; try discriminate; [|eapply input_read_noof; eassumption].
  destruct bs as [|b [|b2 bs]]; try discriminate.
  destruct (7 * j =? 63) eqn:E63; [discriminate|].
  destruct (Z.land b 128 =? 0); [discriminate|].
  replace (7 * j + 7) with (7 * (j + 1)) in H by lia.
  eapply IH; [| |eassumption]; lia.
Qed.

Lemma read_varints_noof : forall zz p e n m inp d, read_varints zz p e n m inp d <> OutOfFuel.
Proof.
  induction n as [|n IH]; intros m inp d H; cbn [read_varints] in H; [oof_leaf|].
  destruct (read_varint 11 e m inp 0 0) as [[[r|er] m2]| |] eqn:E; try discriminate.
  - destruct (deliver p m2 d _ _) as [[[|] m3]| |] eqn:D; try discriminate.
    + eapply IH; eassumption.
    + eapply deliver_noof; eassumption.
  - change 0 with (7 * 0) in E at 1. eapply read_varint_noof; [| |eassumption]; cbn; lia.
Qed.

Lemma nth_error_upd_nat : forall A (l : list A) n v l', upd_nat l n v = Some l' -> nth_error l' n = Some v.
Proof.
  induction l as [|h t IH]; intros n v l' H; destruct n; cbn in *; try discriminate.
  - inv H. reflexivity.
  - destruct (upd_nat t n v) eqn:E; [|discriminate]. inv H. cbn. eapply IH; eassumption.
Qed.

Lemma znth_zupd_same : forall A (l : list A) i v l', zupd l i v = Some l' -> znth l' i = Some v.
Proof.
  intros A l i v l' H. unfold zupd, znth in *. destruct (i <? 0); [discriminate|]. eapply nth_error_upd_nat; eassumption.
Qed.

Lemma input_read_one_remaining : forall e m inp bs m1, input_read e m inp 1 = Ok (Some bs, m1) ->
  remaining_bytes e m1 inp = remaining_bytes e m inp - 1 /\ 1 <= remaining_bytes e m inp.
Proof.
  intros e m inp bs m1 H. unfold input_read in H. unfold remaining_bytes.
  destruct (znth (e_inputs e) inp) as [data|]; [|discriminate].
  destruct (znth (m_inpos m) inp) as [pos|]; [|discriminate].
  break_all. inv H. cbn [m_inpos set_inpos]. erewrite znth_zupd_same by eassumption. lia.
Qed.

Lemma deliver_inpos : forall p m d a b fl m1, deliver p m d a b = Ok (fl, m1) -> m_inpos m1 = m_inpos m.
Proof.
  intros p m d a b fl m1 H. unfold deliver, push, out_write, out_apply, continue, stop in H. cbn [buf_apply] in H. break_all; flow_inv; try inv H; reflexivity.
Qed.

Lemma read_nbits_noof : forall fuel p e m inp d flip bw mask wl wr rem data,
  1 <= bw -> 0 <= wr <= wl ->
  17 * Z.max 0 (remaining_bytes e m inp) + 2 * (wl - wr) + wr / 8 < Z.of_nat fuel ->
  read_nbits fuel p e m inp d flip bw mask wl wr rem data <> OutOfFuel.
Proof.
  induction fuel as [|f IH]; intros p e m inp d flip bw mask wl wr rem data Hbw Hw Hf H.
  { assert (0 <= wr / 8) by (apply Z.div_pos; lia). lia. }
  cbn [read_nbits] in H.
  destruct (rem =? 0); [oof_leaf|].
  destruct (8 <=? wr) eqn:E8.
  { eapply IH; [| | |eassumption]; [lia|lia|].
    replace (wr - 8) with (wr + (-1) * 8) by lia. rewrite Z.div_add by lia. lia. }
  destruct (bw <=? wl - wr) eqn:Ebw.
  - destruct (deliver p m d _ _) as [[[|] m3]| |] eqn:D; try discriminate; [|eapply deliver_noof; eassumption].
    apply deliver_inpos in D.
    eapply IH; [| | |eassumption]; [lia|lia|].
    unfold remaining_bytes in *. rewrite D.
    assert ((wr + bw) / 8 <= wr / 8 + bw / 8 + 1).
    { pose proof (Z.div_mod wr 8). pose proof (Z.div_mod bw 8). pose proof (Z.div_mod (wr + bw) 8).
      pose proof (Z.mod_pos_bound wr 8). pose proof (Z.mod_pos_bound bw 8). pose proof (Z.mod_pos_bound (wr + bw) 8). lia. }
    assert (bw / 8 < bw) by (apply Z.div_lt_upper_bound; lia).
    lia.
  - destruct (input_read e m inp 1) as [[[bs|] m2]| |] eqn:E; try discriminate; try oof_leaf;
      [|eapply input_read_noof; eassumption].
    destruct bs as [|b [|b2 bs]]; try discriminate.
    apply input_read_one_remaining in E. destruct E as [E1 E2].
    eapply IH; [| | |eassumption]; [lia|lia|]. rewrite E1. lia.
Qed.

Lemma exec_read_noof : forall p e m bc, exec_read p e m bc <> OutOfFuel.
Proof.
  intros p e m bc H. unfold exec_read in H. cbv zeta in H.
  break_all; try oof_done; try (eapply read_varints_noof; eassumption).
  all: eapply read_nbits_noof; [| | |eassumption]; try lia.
  all: rewrite Z.div_0_l by lia.
  all: match goal with |- context [remaining_bytes ?a ?b ?c] => set (rb := remaining_bytes a b c) in *; clearbody rb end; lia.
Qed.

Lemma exec_op_noof : forall fixed single p e m bc, exec_op fixed single p e m bc <> OutOfFuel.
Proof.
  intros fixed single p e m bc H. unfold exec_op in H.
  destruct (bc <? 0); [eapply exec_read_noof; eassumption|].
  destruct (BOUND_DICTIONARY <=? bc); [eapply push_frame_noof; eassumption|].
  destruct (bc =? CODE_EXIT); [eapply exec_exit_noof; eassumption | eapply exec_builtin_noof; eassumption].
Qed.

Definition mu (m : machine) : nat := (length (m_frames m) + length (m_dos m))%nat.

Lemma pop_incr_mu : forall m m1, pop_incr m = Ok (Continue, m1) -> S (mu m1) = mu m.
Proof.
  intros m m1 H. unfold pop_incr in H. unfold mu.
  break_all; flow_inv; cbn [m_frames m_dos set_frames set_dos set_stack length] in *;
  repeat match goal with H : m_frames _ = _ |- _ => rewrite H | H : m_dos _ = _ |- _ => rewrite H end; cbn [length]; lia.
Qed.

Lemma fetch_instr_mu : forall p m m1, fetch_instr p m = Ok (LoopEnd m1) -> S (mu m1) = mu m.
Proof.
  intros p m m1 H. unfold fetch_instr in H. cbv zeta in H. unfold mu.
  break_all; flow_inv; cbn [m_frames m_dos set_frames set_dos length] in *.
  all: repeat match goal with H : _ = m_frames _ |- _ => rewrite <- H | H : m_frames _ = _ |- _ => rewrite H
                         | H : m_dos _ = _ |- _ => rewrite H end; cbn [length]; lia.
Qed.

Lemma single_tail_shape : forall fixed p t m r, single_tail fixed p t m = r ->
  match r with Ok (Continue, _) => False | OutOfFuel => False | _ => True end.
Proof.
  intros fixed p t m r H. subst r. unfold single_tail.
  destruct fixed.
  - destruct (depth m =? t); [exact I|].
    destruct (segment_done p m) as [[|]|c|] eqn:E; try exact I; [|eapply segment_done_noof; eassumption].
    destruct (pop_incr m) as [[[|] m1]|c|] eqn:Ep; try exact I. eapply pop_incr_noof; eassumption.
  - destruct (segment_done p m) as [[|]|c|] eqn:E; try exact I; [|eapply segment_done_noof; eassumption].
    destruct (pop_only m); exact I.
Qed.

(* in single-step mode only the end of a do-loop lets the loop go round again *)
Lemma exec_instr_single_shape : forall fixed p e t m,
  match exec_instr fixed true p e t m with
  | Ok (Continue, m1) => fetch_instr p m = Ok (LoopEnd m1)
  | OutOfFuel => False
  | _ => True
  end.
Proof.
  intros fixed p e t m. unfold exec_instr.
  destruct (fetch_instr p m) as [[m'|bc m0]|c|] eqn:Ef; try exact I; [reflexivity| |eapply fetch_instr_noof; eassumption].
  destruct (exec_op fixed true p e m0 bc) as [[[|] m2]|c|] eqn:Eo; try exact I; [|eapply exec_op_noof; eassumption].
  destruct (bc =? CODE_EXIT); [exact I|].
  pose proof (single_tail_shape fixed p t m2 _ eq_refl) as Hs.
  destruct (single_tail fixed p t m2) as [[[|] m3]|c|]; try exact I; contradiction.
Qed.

Lemma irun_single_noof : forall fs fixed p e t m, (mu m < fs)%nat -> internal_run fs fixed true p e t m <> OutOfFuel.
Proof.
  induction fs as [|fs IH]; intros fixed p e t m Hm H; [lia|].
  rewrite IR_S in H.
  destruct (depth m =? t); [discriminate|].
  destruct (segment_done p m) as [[|]|c|] eqn:Esd; try discriminate; [| |eapply segment_done_noof; eassumption].
  - destruct (pop_incr m) as [[[|] m1]|c|] eqn:Ep; try discriminate; [|eapply pop_incr_noof; eassumption].
    apply pop_incr_mu in Ep. eapply IH; [|eassumption]. lia.
  - pose proof (exec_instr_single_shape fixed p e t m) as Hs.
    destruct (exec_instr fixed true p e t m) as [[[|] m1]|c|] eqn:Ee; try discriminate; [|contradiction].
    apply fetch_instr_mu in Hs. eapply IH; [|eassumption]. lia.
Qed.

(* (b) step is total: it never runs out of its (state-determined) fuel *)
Theorem step_total_proof : forall fixed p e m, api_step fixed p e m <> OutOfFuel.
Proof.
  intros fixed p e m H. unfold api_step, run_and_pop in H.
  destruct (negb (m_ready m)); [discriminate|].
  destruct (m_targets m) as [|t r] eqn:Et; [discriminate|].
  destruct (negb (m_err m =? E_none)); [discriminate|].
  destruct (internal_run (step_fuel m) fixed true p e t m) as [m1|c|] eqn:Ei; try discriminate.
  - unfold pop_target in H. destruct (m_targets m1); discriminate.
  - eapply irun_single_noof; [|eassumption]. unfold step_fuel, mu. lia.
Qed.

(* ================================================================== 5. the API level *)
Lemma irun_mono : forall f fixed single p e t m r,
  internal_run f fixed single p e t m = r -> r <> OutOfFuel -> forall k, internal_run (k + f) fixed single p e t m = r.
Proof.
  induction f as [|f IH]; intros fixed single p e t m r H Hr k; [cbn in H; subst r; exfalso; apply Hr; reflexivity|].
  rewrite Nat.add_succ_r. rewrite IR_S in *.
  destruct (depth m =? t); [assumption|].
  destruct (segment_done p m) as [[|]|c|]; try assumption.
  - destruct (pop_incr m) as [[[|] m1]|c|]; try assumption. apply IH; assumption.
  - destruct (exec_instr fixed single p e t m) as [[[|] m1]|c|]; try assumption. apply IH; assumption.
Qed.

Lemma run_and_pop_mono : forall f fixed single p e m r,
  run_and_pop f fixed single p e m = r -> r <> OutOfFuel -> forall k, run_and_pop (k + f) fixed single p e m = r.
Proof.
  intros f fixed single p e m r H Hr k. unfold run_and_pop in *.
  destruct (m_targets m) as [|t ts]; [assumption|].
  destruct (internal_run f fixed single p e t m) as [m1|c|] eqn:E.
  - rewrite (irun_mono _ _ _ _ _ _ _ _ E) by discriminate. assumption.
  - rewrite (irun_mono _ _ _ _ _ _ _ _ E) by discriminate. assumption.
  - congruence.
Qed.

Lemma api_resume_mono : forall f fixed p e m r,
  api_resume f fixed p e m = r -> r <> OutOfFuel -> forall k, api_resume (k + f) fixed p e m = r.
Proof.
  intros f fixed p e m r H Hr k. unfold api_resume in *.
  destruct (negb (m_ready m)); [assumption|].
  destruct (m_targets m); [assumption|].
  destruct (negb (m_err m =? E_none)); [assumption|].
  apply run_and_pop_mono; assumption.
Qed.

Lemma can_go_inv : forall m, can_go m = true -> m_ready m = true /\ (exists t ts, m_targets m = t :: ts) /\ m_err m = E_none.
Proof.
  intros m H. unfold can_go, is_done in H. destruct (m_ready m); [|discriminate]. destruct (m_targets m) as [|t ts]; [discriminate|].
  cbn in H. split; [reflexivity|]. split; [eauto|]. lia.
Qed.

Lemma ctl_can_go : forall m m1, ctl m1 = ctl m -> can_go m1 = can_go m.
Proof.
  intros m m1 H. unfold ctl in H. injection H as H1 H2 H3. unfold can_go, is_done. rewrite H1, H2, H3. reflexivity.
Qed.

(* one patched step, seen from resume: either resume stops in exactly the state the step reached,
   or resume from the reached state finishes what resume from the original state would have done *)
Lemma api_step_sim : forall p e m m1, can_go m = true -> api_step true p e m = Ok m1 ->
  (exists k, forall f, api_resume (S k + f) true p e m = Ok m1)
  \/ (can_go m1 = true /\ exists k, forall f, api_resume (S k + f) true p e m = api_resume f true p e m1).
Proof.
  intros p e m m1 Hgo H. destruct (can_go_inv m Hgo) as (Hr & (t & ts & Ht) & He).
  unfold api_step, run_and_pop in H. rewrite Hr, Ht, He in H. cbn [negb Z.eqb E_none] in H.
  pose proof (step_sim p e t (step_fuel m) m) as Hs. cbv beta in Hs.
  destruct (internal_run (step_fuel m) true true p e t m) as [mi|c|] eqn:Ei; try discriminate.
  cbn [sim_res] in Hs. destruct Hs as [[k Hk]|(Hd & Hc & k & Hk)].
  - left. exists k. intro f. unfold api_resume, run_and_pop. rewrite Hr, Ht, He. cbn [negb Z.eqb E_none].
    rewrite Hk. assumption.
  - assert (Hti : m_targets mi = t :: ts) by (unfold ctl in Hc; inv Hc; congruence).
    unfold pop_target in H. rewrite Hti in H. destruct (depth mi =? t) eqn:Edi; [lia|]. inv H.
    right. split; [rewrite (ctl_can_go _ _ Hc); assumption|].
    exists k. intro f. unfold api_resume, run_and_pop.
    unfold ctl in Hc. inv Hc. rewrite Hr, Ht, He in *.
    repeat match goal with H : _ = true |- _ => rewrite H | H : _ = E_none |- _ => rewrite H end.
    cbn [negb Z.eqb E_none]. rewrite Hti. rewrite Hk. reflexivity.
Qed.

Lemma api_step_fault_sim : forall p e m c, can_go m = true -> api_step true p e m = Fault c ->
  exists k, forall f, api_resume (S k + f) true p e m = Fault c.
Proof.
  intros p e m c Hgo H. destruct (can_go_inv m Hgo) as (Hr & (t & ts & Ht) & He).
  unfold api_step, run_and_pop in H. rewrite Hr, Ht, He in H. cbn [negb Z.eqb E_none] in H.
  pose proof (step_sim p e t (step_fuel m) m) as Hs. cbv beta in Hs.
  destruct (internal_run (step_fuel m) true true p e t m) as [mi|c'|] eqn:Ei; try discriminate.
  - (* the loop returned a state, popping the target faulted *)
    cbn [sim_res] in Hs. unfold pop_target in H.
    destruct (m_targets mi) as [|t' ts'] eqn:Eti; [|discriminate]. inv H.
    destruct Hs as [[k Hk]|(Hd & Hc & k & Hk)].
    + exists k. intro f. unfold api_resume, run_and_pop. rewrite Hr, Ht, He. cbn [negb Z.eqb E_none].
      rewrite Hk. unfold pop_target. rewrite Eti. reflexivity.
    + unfold ctl in Hc. inv Hc. congruence.
  - inv H. cbn [sim_res] in Hs. destruct Hs as [k Hk]. exists k. intro f.
    unfold api_resume, run_and_pop. rewrite Hr, Ht, He. cbn [negb Z.eqb E_none]. rewrite Hk. reflexivity.
Qed.

Lemma complete_S : forall n fuel fixed p e m,
  complete (S n) fuel fixed p e m =
  if can_go m then match api_resume fuel fixed p e m with Ok m1 => complete n fuel fixed p e m1 | other => other end else Ok m.
Proof. reflexivity. Qed.

Lemma complete_mono : forall n f fixed p e m r, complete n f fixed p e m = r -> r <> OutOfFuel ->
  forall n' f', complete (n' + n) (f' + f) fixed p e m = r.
Proof.
  induction n as [|n IH]; intros f fixed p e m r H Hr n' f'; [cbn in H; subst r; exfalso; apply Hr; reflexivity|].
  rewrite Nat.add_succ_r. rewrite complete_S in *.
  destruct (can_go m); [|assumption].
  destruct (api_resume f fixed p e m) as [m1|c|] eqn:E.
  - rewrite (api_resume_mono _ _ _ _ _ _ E) by discriminate. apply IH; assumption.
  - rewrite (api_resume_mono _ _ _ _ _ _ E) by discriminate. assumption.
  - subst r. exfalso. apply Hr. reflexivity.
Qed.

Lemma api_resume_det : forall f1 f2 fixed p e m r1 r2,
  api_resume f1 fixed p e m = r1 -> api_resume f2 fixed p e m = r2 -> r1 <> OutOfFuel -> r2 <> OutOfFuel -> r1 = r2.
Proof.
  intros f1 f2 fixed p e m r1 r2 H1 H2 Hr1 Hr2.
  pose proof (api_resume_mono _ _ _ _ _ _ H1 Hr1 f2) as A. pose proof (api_resume_mono _ _ _ _ _ _ H2 Hr2 f1) as B.
  rewrite Nat.add_comm in B. congruence.
Qed.

Section Compose.
  Variables (p : prog) (e : env).

  Definition finishes (m : machine) (r : result machine) : Prop := exists n f, complete n f true p e m = r.

  (* one guarded step does not change where the program ends *)
  Lemma step_finishes_fwd : forall m m1 r, can_go m = true -> api_step true p e m = Ok m1 -> r <> OutOfFuel ->
    finishes m1 r -> finishes m r.
  Proof.
    intros m m1 r Hgo Hs Hr (n & f & Hc).
    destruct (api_step_sim p e m m1 Hgo Hs) as [[k Hk]|(Hgo1 & k & Hk)].
    - exists (S n), (S k + f)%nat. rewrite complete_S, Hgo, Hk.
      apply (complete_mono _ _ _ _ _ _ _ Hc Hr 0%nat (S k)).
    - destruct n as [|n]; [cbn in Hc; subst r; exfalso; apply Hr; reflexivity|].
      rewrite complete_S, Hgo1 in Hc.
      exists (S n), (S k + f)%nat. rewrite complete_S, Hgo, Hk.
      destruct (api_resume f true p e m1) as [mx|c|] eqn:E; [|assumption|assumption].
      apply (complete_mono _ _ _ _ _ _ _ Hc Hr 0%nat (S k)).
  Qed.

  Lemma step_finishes_bwd : forall m m1 r, can_go m = true -> api_step true p e m = Ok m1 -> r <> OutOfFuel ->
    finishes m r -> finishes m1 r.
  Proof.
    intros m m1 r Hgo Hs Hr (n & f & Hc).
    destruct n as [|n]; [cbn in Hc; subst r; exfalso; apply Hr; reflexivity|].
    rewrite complete_S, Hgo in Hc.
    destruct (api_resume f true p e m) as [mx|c|] eqn:E.
    - destruct (api_step_sim p e m m1 Hgo Hs) as [[k Hk]|(Hgo1 & k & Hk)].
      + assert (Ok mx = Ok m1) by (eapply api_resume_det; [exact E|apply (Hk 0%nat)|discriminate|discriminate]).
        injection H as H. rewrite H in Hc. exists n, f. exact Hc.
      + exists (S n), f. rewrite complete_S, Hgo1.
        pose proof (api_resume_mono _ _ _ _ _ _ E ltac:(discriminate) (S k)) as A. rewrite Hk in A. rewrite A. assumption.
    - subst r. destruct (api_step_sim p e m m1 Hgo Hs) as [[k Hk]|(Hgo1 & k & Hk)].
      + exfalso. assert (Fault c = Ok m1) by (eapply api_resume_det; [exact E|apply (Hk 0%nat)|discriminate|discriminate]).
        discriminate.
      + exists 1%nat, f. rewrite complete_S, Hgo1.
        pose proof (api_resume_mono _ _ _ _ _ _ E ltac:(discriminate) (S k)) as A. rewrite Hk in A. rewrite A. reflexivity.
    - subst r. exfalso. apply Hr. reflexivity.
  Qed.

  Lemma resume_finishes_fwd : forall f0 m m1 r, can_go m = true -> api_resume f0 true p e m = Ok m1 -> r <> OutOfFuel ->
    finishes m1 r -> finishes m r.
  Proof.
    intros f0 m m1 r Hgo Hs Hr (n & f & Hc).
    exists (S n), (f + f0)%nat. rewrite complete_S, Hgo.
    rewrite (api_resume_mono _ _ _ _ _ _ Hs) by discriminate.
    replace (f + f0)%nat with (f0 + f)%nat by lia. apply (complete_mono _ _ _ _ _ _ _ Hc Hr 0%nat f0).
  Qed.

  Lemma resume_finishes_bwd : forall f0 m m1 r, can_go m = true -> api_resume f0 true p e m = Ok m1 -> r <> OutOfFuel ->
    finishes m r -> finishes m1 r.
  Proof.
    intros f0 m m1 r Hgo Hs Hr (n & f & Hc).
    destruct n as [|n]; [cbn in Hc; subst r; exfalso; apply Hr; reflexivity|].
    rewrite complete_S, Hgo in Hc.
    destruct (api_resume f true p e m) as [mx|c|] eqn:E.
    - assert (Ok mx = Ok m1) by (eapply api_resume_det; [exact E|exact Hs|discriminate|discriminate]).
      injection H as H. rewrite H in Hc. exists n, f. exact Hc.
    - exfalso. assert (Fault c = Ok m1) by (eapply api_resume_det; [exact E|exact Hs|discriminate|discriminate]). discriminate.
    - subst r. exfalso. apply Hr. reflexivity.
  Qed.

  (* (a) any split of the execution into guarded step / resume segments ends in the same final outcome *)
  Theorem pause_resume_compose_proof : forall segs m m1 r, r <> OutOfFuel ->
    apply_segs true p e segs m = Ok m1 -> (finishes m r <-> finishes m1 r).
  Proof.
    induction segs as [|s segs IH]; intros m m1 r Hr H; cbn [apply_segs] in H.
    - inv H. tauto.
    - destruct (apply_seg true p e s m) as [m2|c|] eqn:Es; try discriminate.
      specialize (IH m2 m1 r Hr H).
      assert (finishes m r <-> finishes m2 r); [|tauto].
      unfold apply_seg in Es. destruct (can_go m) eqn:Hgo; [|inv Es; tauto].
      destruct s as [|f0].
      + split; [apply step_finishes_bwd | apply step_finishes_fwd]; assumption.
      + split; [eapply resume_finishes_bwd | eapply resume_finishes_fwd]; eassumption.
  Qed.
End Compose.

Lemma apply_segs_app : forall fixed p e a b m,
  apply_segs fixed p e (a ++ b) m = match apply_segs fixed p e a m with Ok m1 => apply_segs fixed p e b m1 | other => other end.
Proof.
  induction a as [|s a IH]; intros b m; cbn [apply_segs app]; [reflexivity|].
  destruct (apply_seg fixed p e s m); try reflexivity. apply IH.
Qed.

Lemma iter_step_add : forall fixed p e k1 k2 m m1,
  iter_step fixed p e k1 m = Ok m1 -> iter_step fixed p e (k1 + k2) m = iter_step fixed p e k2 m1.
Proof.
  intros fixed p e k1 k2 m m1 H. unfold iter_step in *. rewrite repeat_app, apply_segs_app, H. reflexivity.
Qed.

Section Iterated.
  Variables (p : prog) (e : env).

  Lemma resume_by_steps : forall f m mx, can_go m = true -> api_resume f true p e m = Ok mx ->
    exists k, iter_step true p e k m = Ok mx.
  Proof.
    induction f as [f IH] using lt_wf_ind. intros m mx Hgo Hr.
    destruct (api_step true p e m) as [m1|c|] eqn:Es.
    - destruct (api_step_sim p e m m1 Hgo Es) as [[k Hk]|(Hgo1 & k & Hk)].
      + assert (Ok mx = Ok m1) by (eapply api_resume_det; [exact Hr|apply (Hk 0%nat)|discriminate|discriminate]).
        injection H as ->. exists 1%nat. unfold iter_step. cbn [repeat apply_segs]. unfold apply_seg. rewrite Hgo, Es. reflexivity.
      + (* resume needs strictly less fuel from m1 *)
        destruct (Nat.le_gt_cases f (S k)) as [Hle|Hgt].
        * exfalso. pose proof (Hk 0%nat) as H0. rewrite Nat.add_0_r in H0.
          assert (Hoof : api_resume 0 true p e m1 = OutOfFuel).
          { destruct (can_go_inv m1 Hgo1) as (Hr1 & (t & ts & Ht) & He1).
            unfold api_resume, run_and_pop. rewrite Hr1, Ht, He1. reflexivity. }
          rewrite Hoof in H0.
          pose proof (api_resume_mono _ _ _ _ _ _ Hr ltac:(discriminate) (S k - f)%nat) as A.
          replace (S k - f + f)%nat with (S k) in A by lia. congruence.
        * pose proof (Hk (f - S k)%nat) as H1. replace (S k + (f - S k))%nat with f in H1 by lia.
          rewrite Hr in H1. symmetry in H1.
          destruct (IH (f - S k)%nat ltac:(lia) m1 mx Hgo1 H1) as [k' Hk'].
          exists (1 + k')%nat. erewrite iter_step_add; [exact Hk'|].
          unfold iter_step. cbn [repeat apply_segs]. unfold apply_seg. rewrite Hgo, Es. reflexivity.
    - exfalso. destruct (api_step_fault_sim p e m c Hgo Es) as [k Hk].
      assert (Ok mx = Fault c) by (eapply api_resume_det; [exact Hr|apply (Hk 0%nat)|discriminate|discriminate]). discriminate.
    - exfalso. eapply step_total_proof; eassumption.
  Qed.

  (* (a) running to completion (resuming through pauses) = iterating single steps from the same state *)
  Theorem run_is_iterated_step_proof : forall n f m mf,
    complete n f true p e m = Ok mf -> exists k, iter_step true p e k m = Ok mf.
  Proof.
    induction n as [|n IH]; intros f m mf H; [discriminate|].
    rewrite complete_S in H. destruct (can_go m) eqn:Hgo.
    - destruct (api_resume f true p e m) as [mx|c|] eqn:Er; try discriminate.
      destruct (resume_by_steps f m mx Hgo Er) as [k1 Hk1]. destruct (IH f mx mf H) as [k2 Hk2].
      exists (k1 + k2)%nat. erewrite iter_step_add; eassumption.
    - inv H. exists 0%nat. reflexivity.
  Qed.

  (* ... and stepping any further leaves that final state alone *)
  Lemma complete_final : forall n f fixed m mf, complete n f fixed p e m = Ok mf -> can_go mf = false.
  Proof.
    induction n as [|n IH]; intros f fixed m mf H; [discriminate|].
    rewrite complete_S in H. destruct (can_go m) eqn:Hgo; [|inv H; assumption].
    destruct (api_resume f fixed p e m); try discriminate. eapply IH; eassumption.
  Qed.

  Lemma iter_step_stuck : forall fixed k m, can_go m = false -> iter_step fixed p e k m = Ok m.
  Proof.
    induction k as [|k IH]; intros m H; [reflexivity|].
    unfold iter_step in *. cbn [repeat apply_segs]. unfold apply_seg. rewrite H. apply IH. assumption.
  Qed.
End Iterated.


(* ================================================================== 6. the pinned tree: stepping is NOT equivalent to running *)
From Coq Require Import String.
Import List ListNotations.

Definition prog_do_loop := compile 64 4 16 (bytes "3 0 do i loop"%string).
Definition prog_exit := compile 64 16 16 (bytes ": f 10 -1 if exit then 20 ; f"%string).

Definition p_do_loop := mkProg 64 [[0; 3; 0; 0; 5; 67]; [29]] [] [] [] [] 4 16.
Definition p_exit := mkProg 64 [[67]; [0; 10; 0; -1; 3; 68; 0; 20]; [10; 1]] [([102], 67)] [] [] [] 16 16.
Definition m_begun := mkM [] [] [] [] [(0, 0)] [] [0] true 0.
Definition m_final (stack : list Z) := mkM stack [] [] [] [] [] [] true 0.

(* `3 0 do i loop` with room for 4 cells: one call leaves 0 1 2; single-stepping never advances the loop
   counter, pushes 0 until the stack is full and ends in stack_overflow — a state from which no step continues *)
Theorem run_is_iterated_step_refuted_proof :
  exists p m0 mf ms k,
    prog_do_loop = COk p /\ api_begin p (mkEnv []) (init_machine p) = Ok m0 /\
    complete 2 100 false p (mkEnv []) m0 = Ok mf /\ m_stack mf = [2; 1; 0] /\ m_err mf = E_none /\ is_done mf = true /\
    iter_step false p (mkEnv []) k m0 = Ok ms /\ can_go ms = false /\ m_err ms = E_overflow /\ m_stack ms = [0; 0; 0; 0].
Proof.
  exists p_do_loop, m_begun, (m_final [2; 1; 0]), (mkM [0; 0; 0; 0] [] [] [] [(1, 1); (0, 5)] [(1, 3, 0)] [0] true 6), 13%nat.
  repeat split; vm_compute; reflexivity.
Qed.

(* `exit` taken while single-stepping does not leave the word *)
Theorem step_exit_refuted_proof :
  exists p m0 mf ms k,
    prog_exit = COk p /\ api_begin p (mkEnv []) (init_machine p) = Ok m0 /\
    complete 2 100 false p (mkEnv []) m0 = Ok mf /\ m_stack mf = [10] /\ is_done mf = true /\
    iter_step false p (mkEnv []) k m0 = Ok ms /\ is_done ms = true /\ m_err ms = E_none /\ m_stack ms = [20; 10].
Proof.
  exists p_exit, m_begun, (m_final [10]), (m_final [20; 10]), 8%nat.
  repeat split; vm_compute; reflexivity.
Qed.

(* non-vacuity of the positive theorems: with the patch both witnesses reach the one-call result by stepping *)
Example patched_witnesses :
  (prog_do_loop = COk p_do_loop /\ api_begin p_do_loop (mkEnv []) (init_machine p_do_loop) = Ok m_begun /\
   complete 2 100 true p_do_loop (mkEnv []) m_begun = Ok (m_final [2; 1; 0]) /\
   iter_step true p_do_loop (mkEnv []) 30 m_begun = Ok (m_final [2; 1; 0])) /\
  (prog_exit = COk p_exit /\ api_begin p_exit (mkEnv []) (init_machine p_exit) = Ok m_begun /\
   complete 2 100 true p_exit (mkEnv []) m_begun = Ok (m_final [10]) /\
   iter_step true p_exit (mkEnv []) 30 m_begun = Ok (m_final [10])).
Proof. repeat split; vm_compute; reflexivity. Qed.

(* ================================================================== 7. output growth settings are unobservable *)
Definition grow_ok (grow : Z -> Z) : Prop := forall r, 1 <= r -> r < grow r.

Definition g_inv (g : gbuf) : Prop := 0 <= g_len g <= g_res g /\ zlen (g_data g) = g_res g /\ 1 <= g_res g.

Lemma zlen_app : forall A (a b : list A), zlen (a ++ b) = zlen a + zlen b.
Proof. intros. unfold zlen. rewrite app_length. lia. Qed.

Lemma replicate_length : forall A n (x : A), length (replicate n x) = n.
Proof. induction n; intros; cbn; [reflexivity|rewrite IHn; reflexivity]. Qed.

Lemma grow_until_spec : forall grow next fuel res, grow_ok grow -> 1 <= res -> next < res + Z.of_nat fuel ->
  exists r, grow_until (S fuel) grow next res = Some r /\ next <= r /\ res <= r.
Proof.
  intros grow next. induction fuel as [|f IH]; intros res Hg Hr Hf.
  - cbn [grow_until]. destruct (res <? next) eqn:E; [lia|]. exists res. repeat split; lia.
  - remember (S f) as sf. cbn [grow_until]. subst sf. destruct (res <? next) eqn:E.
    + pose proof (Hg res Hr) as Hgr.
      assert (A1 : 1 <= grow res) by lia.
      assert (A2 : next < grow res + Z.of_nat f) by lia.
      destruct (IH (grow res) Hg A1 A2) as (r & H1 & H2 & H3).
      exists r. repeat split; [assumption|lia|lia].
    + exists res. repeat split; lia.
Qed.

Lemma g_maybe_resize_spec : forall grow junk g next, grow_ok grow -> g_inv g -> 0 <= next ->
  exists extra, g_maybe_resize grow junk g next = GOk (mkG (g_data g ++ extra) (g_len g) (g_res g + zlen extra))
                /\ next <= g_res g + zlen extra.
Proof.
  intros grow junk g next Hg (Hl & Hd & Hr) Hn. unfold g_maybe_resize.
  destruct (g_res g <? next) eqn:E.
  - destruct (grow_until_spec grow next (Z.to_nat next) (g_res g) Hg Hr ltac:(lia)) as (r & H1 & H2 & H3).
    rewrite H1. exists (replicate (Z.to_nat (r - g_res g)) junk).
    unfold zlen. rewrite replicate_length. split; [f_equal; f_equal; lia | lia].
  - exists []. rewrite app_nil_r. unfold zlen. cbn. rewrite Z.add_0_r. split; [destruct g; reflexivity | lia].
Qed.

Lemma upd_nat_spec : forall A (l : list A) n v, (n < length l)%nat ->
  upd_nat l n v = Some (firstn n l ++ v :: skipn (S n) l).
Proof.
  induction l as [|h t IH]; intros n v H; cbn in H; [lia|].
  destruct n; cbn; [reflexivity|]. rewrite IH by lia. reflexivity.
Qed.

Lemma skipn_add : forall A (l : list A) a b, skipn a (skipn b l) = skipn (b + a) l.
Proof.
  intros A l a b. revert l. induction b as [|b IH]; intro l; [reflexivity|].
  destruct l; cbn [skipn Nat.add]; [destruct a; reflexivity|apply IH].
Qed.

Lemma g_store_spec : forall vs data a, (a + length vs <= length data)%nat ->
  g_store data (Z.of_nat a) vs = Some (firstn a data ++ vs ++ skipn (a + length vs) data).
Proof.
  induction vs as [|v vs IH]; intros data a H; cbn [g_store length] in *.
  - rewrite Nat.add_0_r. cbn. rewrite firstn_skipn. reflexivity.
  - unfold zupd. destruct (Z.of_nat a <? 0) eqn:E; [lia|]. rewrite Nat2Z.id.
    rewrite upd_nat_spec by lia.
    replace (Z.of_nat a + 1) with (Z.of_nat (S a)) by lia.
    rewrite IH.
    + f_equal.
      assert (Hfa : length (firstn a data) = a) by (apply firstn_length_le; lia).
      replace (S a) with (length (firstn a data) + 1)%nat at 1 by lia.
      rewrite firstn_app_2. cbn [firstn]. rewrite <- app_assoc. cbn [app]. f_equal. f_equal. f_equal.
      replace (S a + length vs)%nat with (length (firstn a data) + (S (length vs)))%nat by lia.
      rewrite skipn_app. rewrite Hfa.
      rewrite (skipn_all2 (firstn a data)) by lia. cbn [app].
      replace (a + S (length vs) - a)%nat with (S (length vs)) by lia.
      rewrite skipn_cons. rewrite skipn_add. f_equal. lia.
    + rewrite app_length. cbn [length]. rewrite firstn_length_le by lia. rewrite skipn_length. lia.
Qed.

Lemma firstn_snoc : forall A (l : list A) k x, nth_error l k = Some x -> firstn (S k) l = firstn k l ++ [x].
Proof.
  induction l as [|h t IH]; intros k x H; destruct k; cbn in *; try discriminate.
  - inv H. reflexivity.
  - rewrite (IH k x H). reflexivity.
Qed.

Lemma skipn_rev : forall A (l : list A) n, skipn n (rev l) = rev (firstn (length l - n) l).
Proof.
  intros A l n. rewrite <- (firstn_skipn (length l - n) l) at 1.
  rewrite rev_app_distr.
  destruct (Nat.le_gt_cases n (length l)) as [Hle|Hgt].
  - replace n with (length (rev (skipn (length l - n) l)) + 0)%nat at 1
      by (rewrite rev_length, skipn_length; lia).
    rewrite skipn_app. rewrite rev_length, skipn_length.
    replace (length l - (length l - n) + 0 - (length l - (length l - n)))%nat with 0%nat by lia.
    rewrite skipn_all2 by (rewrite rev_length, skipn_length; lia). reflexivity.
  - replace (length l - n)%nat with 0%nat by lia. cbn [firstn skipn rev app].
    rewrite skipn_all2 by (rewrite app_length, rev_length; cbn; lia). reflexivity.
Qed.

Lemma rev_replicate : forall A n (x : A), rev (replicate n x) = replicate n x.
Proof.
  induction n as [|n IH]; intro x; [reflexivity|]. cbn [replicate rev]. rewrite IH.
  clear IH. induction n as [|n IH]; [reflexivity|]. cbn [replicate app]. rewrite IH. reflexivity.
Qed.

Section Growth.
  Variables (grow : Z -> Z) (junk : Z).
  Hypothesis Hgrow : grow_ok grow.

  Lemma g_abs_nil : forall g, g_len g = 0 -> g_abs g = [].
  Proof. intros g H. unfold g_abs. rewrite H. reflexivity. Qed.

  Lemma g_abs_head : forall g extra, g_inv g -> 1 <= g_len g ->
    exists x rest, g_abs g = x :: rest /\ znth (g_data g ++ extra) (g_len g - 1) = Some x.
  Proof.
    intros g extra (Hl & Hd & Hr) H1. unfold g_abs, znth, zlen in *.
    destruct (g_len g - 1 <? 0) eqn:E; [lia|].
    assert (Hk : (Z.to_nat (g_len g - 1) < length (g_data g))%nat) by lia.
    destruct (nth_error (g_data g) (Z.to_nat (g_len g - 1))) as [x|] eqn:En; [|apply nth_error_None in En; lia].
    exists x, (rev (firstn (Z.to_nat (g_len g - 1)) (g_data g))). split.
    - replace (Z.to_nat (g_len g)) with (S (Z.to_nat (g_len g - 1))) by lia.
      rewrite (firstn_snoc _ _ _ _ En). rewrite rev_app_distr. reflexivity.
    - rewrite nth_error_app1 by lia. assumption.
  Qed.

  (* storing vs at length_ in the (possibly enlarged) array appends them to the observable content *)
  Lemma store_abs : forall g extra vs, g_inv g -> g_len g + zlen vs <= g_res g + zlen extra ->
    exists d, g_store (g_data g ++ extra) (g_len g) vs = Some d /\
              g_inv (mkG d (g_len g + zlen vs) (g_res g + zlen extra)) /\
              g_abs (mkG d (g_len g + zlen vs) (g_res g + zlen extra)) = rev vs ++ g_abs g.
  Proof.
    intros g extra vs (Hl & Hd & Hr) Hn. unfold zlen in *.
    set (ln := Z.to_nat (g_len g)).
    assert (Hlen : g_len g = Z.of_nat ln) by (subst ln; lia).
    assert (Hfit : (ln + length vs <= length (g_data g ++ extra))%nat) by (rewrite app_length; lia).
    eexists. split; [rewrite Hlen; apply g_store_spec; assumption|].
    assert (Hf : length (firstn ln (g_data g ++ extra)) = ln) by (apply firstn_length_le; lia).
    split.
    - unfold g_inv, zlen. cbn [g_len g_res g_data]. repeat split; try lia.
      rewrite !app_length, Hf, skipn_length, app_length. lia.
    - unfold g_abs. cbn [g_len g_data].
      replace (Z.to_nat (g_len g + Z.of_nat (length vs))) with (length (firstn ln (g_data g ++ extra) ++ vs) + 0)%nat
        by (rewrite app_length, Hf; lia).
      rewrite app_assoc. rewrite firstn_app_2. cbn [firstn]. rewrite app_nil_r.
      rewrite rev_app_distr. f_equal.
      rewrite firstn_app. replace (ln - length (g_data g))%nat with 0%nat by lia. cbn [firstn]. rewrite app_nil_r.
      reflexivity.
  Qed.

  Lemma g_store_single : forall data a v, g_store data a [v] = zupd data a v.
  Proof. intros. cbn [g_store]. destruct (zupd data a v); reflexivity. Qed.

  Lemma g_apply_refines : forall g op, g_inv g ->
    match buf_apply (g_abs g) op with
    | BOk b' => exists g', g_apply grow junk g op = GOk g' /\ g_inv g' /\ g_abs g' = b'
    | BErr err => g_apply grow junk g op = GErr err
    | BFault k => g_apply grow junk g op = GFault k
    end.
  Proof.
    intros g op Hi. pose proof Hi as (Hl & Hd & Hr).
    destruct op as [vs_rev|d v|n|n]; cbn [buf_apply g_apply].
    - (* write *)
      destruct (g_maybe_resize_spec grow junk g (g_len g + zlen vs_rev) Hgrow Hi ltac:(unfold zlen; lia)) as (extra & Hm & Hn).
      rewrite Hm. cbn [g_data g_len g_res].
      destruct (store_abs g extra (rev vs_rev) Hi) as (dt & Hs & Hi' & Ha).
      { unfold zlen in *. rewrite rev_length. lia. }
      rewrite Hs. assert (Hz : zlen (rev vs_rev) = zlen vs_rev) by (unfold zlen; rewrite rev_length; reflexivity).
      rewrite Hz in *. eexists. split; [reflexivity|]. split; [assumption|]. rewrite Ha, rev_involutive. reflexivity.
    - (* write_add *)
      destruct (g_maybe_resize_spec grow junk g (g_len g + 1) Hgrow Hi ltac:(lia)) as (extra & Hm & Hn).
      assert (Hprev : exists prev, (if g_len g =? 0 then Some 0 else znth (g_data g) (g_len g - 1)) = Some prev /\
                                   prev = match g_abs g with [] => 0 | x :: _ => x end).
      { destruct (g_len g =? 0) eqn:E0.
        - exists 0. rewrite g_abs_nil by lia. split; reflexivity.
        - destruct (g_abs_head g [] Hi ltac:(lia)) as (x & rest & Hx & Hz). rewrite app_nil_r in Hz.
          exists x. rewrite Hx. split; [assumption|reflexivity]. }
      destruct Hprev as (prev & Hp1 & Hp2). rewrite Hp1, Hm. cbn [g_data g_len g_res].
      destruct (store_abs g extra [add_out d prev v] Hi) as (dt & Hs & Hi' & Ha).
      { unfold zlen in *. cbn [length]. lia. }
      rewrite g_store_single in Hs. replace (g_len g + 1 - 1) with (g_len g) by lia. rewrite Hs.
      change (zlen [add_out d prev v]) with 1 in *.
      eexists. split; [reflexivity|]. split; [assumption|]. rewrite Ha. cbn [rev app]. rewrite Hp2. reflexivity.
    - (* dup *)
      destruct (g_len g =? 0) eqn:E0.
      { rewrite g_abs_nil by lia. reflexivity. }
      destruct (0 <? n) eqn:En.
      + destruct (g_maybe_resize_spec grow junk g (g_len g + n) Hgrow Hi ltac:(lia)) as (extra & Hm & Hn).
        destruct (g_abs_head g extra Hi ltac:(lia)) as (x & rest & Hx & Hz).
        rewrite Hx, Hm. cbn [g_data g_len g_res]. rewrite Hz.
        destruct (store_abs g extra (replicate (Z.to_nat n) x) Hi) as (dt & Hs & Hi' & Ha).
        { unfold zlen in *. rewrite replicate_length. lia. }
        assert (Hzl : zlen (replicate (Z.to_nat n) x) = n) by (unfold zlen; rewrite replicate_length; lia).
        rewrite Hzl in *. rewrite Hs.
        eexists. split; [reflexivity|]. split; [assumption|]. rewrite Ha, rev_replicate, Hx. reflexivity.
      + destruct (g_abs_head g [] Hi ltac:(lia)) as (x & rest & Hx & _). rewrite Hx.
        exists g. split; [reflexivity|]. split; [assumption|assumption].
    - (* rewind *)
      assert (Hzl : zlen (g_abs g) = g_len g).
      { unfold g_abs, zlen in *. rewrite rev_length, firstn_length_le by lia. lia. }
      rewrite Hzl. destruct ((n <? 0) || (g_len g - n <? 0)) eqn:E1; [reflexivity|].
      apply orb_false_elim in E1. destruct E1 as [E2 E1].
      eexists. split; [reflexivity|]. split.
      + unfold g_inv. cbn [g_len g_res g_data]. repeat split; lia.
      + unfold g_abs. cbn [g_len g_data]. rewrite skipn_rev. f_equal.
        unfold zlen in *. rewrite firstn_length_le by lia. rewrite firstn_firstn. f_equal. lia.
  Qed.

  Lemma g_run_refines : forall ops g, g_inv g ->
    match buf_run (g_abs g) ops with
    | BOk b' => exists g', g_run grow junk g ops = GOk g' /\ g_abs g' = b'
    | BErr err => g_run grow junk g ops = GErr err
    | BFault k => g_run grow junk g ops = GFault k
    end.
  Proof.
    induction ops as [|op ops IH]; intros g Hi; cbn [buf_run g_run].
    - exists g. split; reflexivity.
    - pose proof (g_apply_refines g op Hi) as H.
      destruct (buf_apply (g_abs g) op) as [b'|err|k].
      + destruct H as (g' & Hg & Hi' & Ha). rewrite Hg. rewrite <- Ha. apply IH. assumption.
      + rewrite H. reflexivity.
      + rewrite H. reflexivity.
  Qed.
End Growth.

Definition g_obs (r : gres) : option bres :=
  match r with GOk g => Some (BOk (g_abs g)) | GErr err => Some (BErr err) | GFault k => Some (BFault k) | GFuel => None end.

Lemma g_new_inv : forall initial junk, 1 <= initial -> g_inv (g_new initial junk) /\ g_abs (g_new initial junk) = [].
Proof.
  intros initial junk H. unfold g_new, g_inv, g_abs, zlen. cbn [g_len g_res g_data]. rewrite replicate_length.
  repeat split; try lia.
Qed.

(* (c) whatever the initial size (>= 1) and the growth function (strictly increasing the reservation, as
   ceil(r * factor) does for factor > 1), a sequence of output operations shows exactly the list semantics used by
   the machine model — in particular two different growth settings are indistinguishable *)
Theorem growth_refines_lists_proof : forall grow junk initial ops, grow_ok grow -> 1 <= initial ->
  g_obs (g_run grow junk (g_new initial junk) ops) = Some (buf_run [] ops).
Proof.
  intros grow junk initial ops Hg Hi. destruct (g_new_inv initial junk Hi) as (Hinv & Habs).
  pose proof (g_run_refines grow junk Hg ops _ Hinv) as H. rewrite Habs in H.
  destruct (buf_run [] ops) as [b'|err|k].
  - destruct H as (g' & Hr & Ha). rewrite Hr. cbn. rewrite Ha. reflexivity.
  - rewrite H. reflexivity.
  - rewrite H. reflexivity.
Qed.

Theorem growth_irrelevant_proof : forall grow1 grow2 junk1 junk2 initial1 initial2 ops,
  grow_ok grow1 -> grow_ok grow2 -> 1 <= initial1 -> 1 <= initial2 ->
  g_obs (g_run grow1 junk1 (g_new initial1 junk1) ops) = g_obs (g_run grow2 junk2 (g_new initial2 junk2) ops).
Proof.
  intros. rewrite !growth_refines_lists_proof by assumption. reflexivity.
Qed.

(* the growth function of the implementation: (int64_t) ceil (r * num / den) with num/den > 1 *)
Example grow_ok_ceil : forall num den, 0 < den < num -> grow_ok (fun r => - ((- (r * num)) / den)).
Proof.
  intros num den H r Hr. cbv beta.
  assert (- (r * num) / den < - r); [|lia].
  apply Z.div_lt_upper_bound; [lia|]. nia.
Qed.

(* ================================================================== 8. wrap-around of the arithmetic words *)
Theorem wraparound_spec_proof : forall p e m a b s, 0 < p_w p -> m_stack m = b :: a :: s ->
  let w := p_w p in
  exec_builtin p e m CODE_ADD = continue (set_stack m (wrap w (a + b) :: s)) /\
  exec_builtin p e m CODE_SUB = continue (set_stack m (wrap w (a - b) :: s)) /\
  exec_builtin p e m CODE_MUL = continue (set_stack m (wrap w (a * b) :: s)) /\
  exec_builtin p e m CODE_NEGATE = continue (set_stack m (wrap w (- b) :: a :: s)) /\
  exec_builtin p e m CODE_ADD1 = continue (set_stack m (wrap w (b + 1) :: a :: s)) /\
  exec_builtin p e m CODE_SUB1 = continue (set_stack m (wrap w (b - 1) :: a :: s)) /\
  exec_builtin p e m CODE_ABS = continue (set_stack m (wrap w (Z.abs b) :: a :: s)) /\
  exec_builtin p e m CODE_LSHIFT = continue (set_stack m (wrap w (a * 2 ^ (b mod w)) :: s)) /\
  (* where wrap w z is THE representative of z modulo 2^w in the signed range of a cell *)
  (forall z, - 2 ^ (w - 1) <= wrap w z < 2 ^ (w - 1) /\ (exists k, wrap w z = z + k * 2 ^ w) /\
             (- 2 ^ (w - 1) <= z < 2 ^ (w - 1) -> wrap w z = z)).
Proof.
  intros p e m a b s Hw Hs w. subst w.
  unfold exec_builtin, bin_op, un_op, forth_lshift. rewrite Hs.
  repeat split; try reflexivity.
  - rewrite Z.shiftl_mul_pow2 by (apply Z.mod_pos_bound; lia). reflexivity.
  - apply wrap_range; assumption.
  - apply wrap_range; assumption.
  - apply wrap_congr; assumption.
  - intro Hz. apply wrap_id; assumption.
Qed.

(* ================================================================== 9. faults are error codes *)
Definition err_rel (m m' : machine) : Prop := m_err m' = m_err m \/ 3 <= m_err m' <= 12.

Lemma err_rel_refl : forall m, err_rel m m.
Proof. intro m. left. reflexivity. Qed.

Ltac stop_inv :=
  repeat match goal with
         | H : continue _ = Ok (_, _) |- _ => unfold continue in H; inv H
         | H : stop _ _ = Ok (_, _) |- _ => unfold stop in H; inv H
         | H : Ok _ = Ok _ |- _ => inv H
         | H : Fault _ = Ok _ |- _ => discriminate H
         | H : OutOfFuel = Ok _ |- _ => discriminate H
         end.

Ltac err_fin :=
  repeat match goal with
         | H : _ = true |- _ => clear H
         | H : _ = false |- _ => clear H
         | H : _ = Some _ |- _ => clear H
         | H : _ = None |- _ => clear H
         | H : _ = _ :: _ |- _ => clear H
         | H : _ = [] |- _ => clear H
         end;
  unfold err_rel in *;
  cbn [m_err set_stack set_vars set_inpos set_outs set_frames set_dos set_err set_targets set_ready fst snd] in *;
  cbv [E_none E_not_ready E_is_done E_user_halt E_recursion E_underflow E_overflow E_read_beyond E_seek_beyond
       E_skip_beyond E_rewind_beyond E_div_zero E_varint] in *;
  lia.

Lemma fetch_err : forall p m b m1, fetch p m = Ok (b, m1) -> err_rel m m1.
Proof. intros p m b m1 H. unfold fetch in H. break_hyp H. stop_inv. err_fin. Qed.
Lemma move_ip_err : forall m d m1, move_ip m d = Ok m1 -> err_rel m m1.
Proof. intros m d m1 H. unfold move_ip in H. break_hyp H. stop_inv. err_fin. Qed.
Lemma push_err : forall p m v fl m1, push p m v = Ok (fl, m1) -> err_rel m m1.
Proof. intros p m v fl m1 H. unfold push in H. break_hyp H; stop_inv; err_fin. Qed.
Lemma push_frame_err : forall p m w fl m1, push_frame p m w = Ok (fl, m1) -> err_rel m m1.
Proof. intros p m w fl m1 H. unfold push_frame in H. break_hyp H; stop_inv; err_fin. Qed.
Lemma pop_incr_err : forall m fl m1, pop_incr m = Ok (fl, m1) -> err_rel m m1.
Proof. intros m fl m1 H. unfold pop_incr in H. break_hyp H; stop_inv; err_fin. Qed.
Lemma pop_only_err : forall m m1, pop_only m = Ok m1 -> err_rel m m1.
Proof. intros m m1 H. unfold pop_only in H. break_hyp H; stop_inv; err_fin. Qed.
Lemma un_op_err : forall m f fl m1, un_op m f = Ok (fl, m1) -> err_rel m m1.
Proof. intros m f fl m1 H. unfold un_op in H. break_hyp H; stop_inv; err_fin. Qed.
Lemma bin_op_err : forall m f fl m1, bin_op m f = Ok (fl, m1) -> err_rel m m1.
Proof. intros m f fl m1 H. unfold bin_op in H. break_hyp H; stop_inv; err_fin. Qed.
Lemma buf_apply_err : forall b op err, buf_apply b op = BErr err -> err = E_rewind_beyond.
Proof.
  intros b op err H. destruct op as [vs|d v|n|n]; cbn [buf_apply] in H; try discriminate.
  - destruct b; [inv H; reflexivity|]. destruct (0 <? n); discriminate.
  - destruct ((n <? 0) || (zlen b - n <? 0)); [inv H; reflexivity|discriminate].
Qed.

Lemma out_apply_err : forall m o op fl m1, out_apply m o op = Ok (fl, m1) -> err_rel m m1.
Proof.
  intros m o op fl m1 H. unfold out_apply in H.
  destruct (znth (m_outs m) o) as [b|]; [|discriminate].
  destruct (buf_apply b op) as [b'|err|k] eqn:Eb; [| |discriminate].
  - destruct (zupd (m_outs m) o b'); [|discriminate]. stop_inv. err_fin.
  - apply buf_apply_err in Eb. subst err. stop_inv. err_fin.
Qed.
Lemma out_write_err : forall m o vs m1, out_write m o vs = Ok m1 -> err_rel m m1.
Proof.
  intros m o vs m1 H. unfold out_write in H. destruct (out_apply m o (BWrite vs)) as [[fl m2]|c|] eqn:E; try discriminate.
  inv H. eapply out_apply_err; eassumption.
Qed.
Lemma input_read_err : forall e m i n r m1, input_read e m i n = Ok (r, m1) -> err_rel m m1.
Proof. intros e m i n r m1 H. unfold input_read in H. break_hyp H; stop_inv; err_fin. Qed.

Lemma err_rel_trans : forall a b c, err_rel a b -> err_rel b c -> err_rel a c.
Proof. unfold err_rel. intros. lia. Qed.

Lemma push_items_err : forall p vs m fl m1, push_items p m vs = Ok (fl, m1) -> err_rel m m1.
Proof.
  induction vs as [|v vs IH]; intros m fl m1 H; cbn [push_items] in H.
  - stop_inv. apply err_rel_refl.
  - destruct (can_push p m); [|stop_inv; err_fin]. apply IH in H. err_fin.
Qed.

Lemma deliver_err : forall p m d a b fl m1, deliver p m d a b = Ok (fl, m1) -> err_rel m m1.
Proof.
  intros p m d a b fl m1 H. unfold deliver in H. destruct d.
  - break_hyp H; stop_inv. eapply out_write_err; eassumption.
  - eapply push_err; eassumption.
Qed.

Lemma read_varint_err : forall fuel e m inp sh acc r m1, read_varint fuel e m inp sh acc = Ok (r, m1) ->
  err_rel m m1 /\ match r with inr er => er = E_varint \/ er = E_read_beyond | inl _ => True end.
Proof.
  induction fuel as [|f IH]; intros e m inp sh acc r m1 H; cbn [read_varint] in H; [discriminate|].
  destruct (input_read e m inp 1) as [[[bs|] m2]| |] eqn:E; try discriminate.
  - apply input_read_err in E.
    destruct bs as [|b [|b2 bs]]; try discriminate.
    destruct (sh =? 63); [inv H; split; [assumption|left; reflexivity]|].
    destruct (Z.land b 128 =? 0); [inv H; split; [assumption|exact I]|].
    apply IH in H. destruct H as [H1 H2]. split; [eapply err_rel_trans; eassumption|assumption].
  - apply input_read_err in E. inv H. split; [assumption|right; reflexivity].
Qed.

Lemma read_varints_err : forall zz p e n m inp d fl m1, read_varints zz p e n m inp d = Ok (fl, m1) -> err_rel m m1.
Proof.
  induction n as [|n IH]; intros m inp d fl m1 H; cbn [read_varints] in H.
  - stop_inv. apply err_rel_refl.
  - destruct (read_varint 11 e m inp 0 0) as [[[r|er] m2]| |] eqn:E; try discriminate.
    + apply read_varint_err in E. destruct E as [E _].
      destruct (deliver p m2 d _ _) as [[[|] m3]| |] eqn:D; try discriminate.
      * apply deliver_err in D. apply IH in H. eapply err_rel_trans; [eassumption|]. eapply err_rel_trans; eassumption.
      * inv H. apply deliver_err in D. eapply err_rel_trans; eassumption.
    + apply read_varint_err in E. destruct E as [E [Her|Her]]; subst er; stop_inv; err_fin.
Qed.

Lemma read_nbits_err : forall fuel p e m inp d flip bw mask wl wr rem data fl m1,
  read_nbits fuel p e m inp d flip bw mask wl wr rem data = Ok (fl, m1) -> err_rel m m1.
Proof.
  induction fuel as [|f IH]; intros p e m inp d flip bw mask wl wr rem data fl m1 H; cbn [read_nbits] in H; [discriminate|].
  destruct (rem =? 0); [stop_inv; apply err_rel_refl|].
  destruct (8 <=? wr); [eapply IH; eassumption|].
  destruct (bw <=? wl - wr).
  - destruct (deliver p m d _ _) as [[[|] m3]| |] eqn:D; try discriminate.
    + apply deliver_err in D. apply IH in H. eapply err_rel_trans; eassumption.
    + inv H. eapply deliver_err; eassumption.
  - destruct (input_read e m inp 1) as [[[bs|] m2]| |] eqn:E; try discriminate.
    + apply input_read_err in E. destruct bs as [|b [|b2 bs]]; try discriminate.
      apply IH in H. eapply err_rel_trans; eassumption.
    + apply input_read_err in E. stop_inv. err_fin.
Qed.

Ltac err_chain :=
  repeat match goal with
         | H : fetch _ _ = Ok _ |- _ => apply fetch_err in H
         | H : move_ip _ _ = Ok _ |- _ => apply move_ip_err in H
         | H : push _ _ _ = Ok _ |- _ => apply push_err in H
         | H : push_frame _ _ _ = Ok _ |- _ => apply push_frame_err in H
         | H : pop_incr _ = Ok _ |- _ => apply pop_incr_err in H
         | H : pop_only _ = Ok _ |- _ => apply pop_only_err in H
         | H : un_op _ _ = Ok _ |- _ => apply un_op_err in H
         | H : bin_op _ _ = Ok _ |- _ => apply bin_op_err in H
         | H : out_write _ _ _ = Ok _ |- _ => apply out_write_err in H
         | H : out_apply _ _ _ = Ok _ |- _ => apply out_apply_err in H
         | H : input_read _ _ _ _ = Ok _ |- _ => apply input_read_err in H
         | H : push_items _ _ _ = Ok _ |- _ => apply push_items_err in H
         | H : deliver _ _ _ _ _ = Ok _ |- _ => apply deliver_err in H
         | H : read_varints _ _ _ _ _ _ _ = Ok _ |- _ => apply read_varints_err in H
         | H : read_nbits _ _ _ _ _ _ _ _ _ _ _ _ _ = Ok _ |- _ => apply read_nbits_err in H
         end;
  err_fin.

Lemma exec_read_err : forall p e m bc fl m1, exec_read p e m bc = Ok (fl, m1) -> err_rel m m1.
Proof.
  intros p e m bc fl m1 H. unfold exec_read in H. cbv zeta in H.
  break_all; stop_inv; err_chain.
Qed.

Lemma exec_builtin_err : forall p e m bc fl m1, exec_builtin p e m bc = Ok (fl, m1) -> err_rel m m1.
Proof.
  intros p e m bc fl m1 H. unfold exec_builtin, with_arg in H. cbv zeta in H.
  break_all; stop_inv; err_chain.
Qed.

Lemma exec_exit_err : forall b p m fl m1, exec_exit b p m = Ok (fl, m1) -> err_rel m m1.
Proof.
  intros b p m fl m1 H. unfold exec_exit in H. cbv zeta in H.
  break_all; stop_inv; err_chain.
Qed.

Lemma exec_op_err : forall fixed single p e m bc fl m1, exec_op fixed single p e m bc = Ok (fl, m1) -> err_rel m m1.
Proof.
  intros fixed single p e m bc fl m1 H. unfold exec_op in H.
  destruct (bc <? 0); [eapply exec_read_err; eassumption|].
  destruct (BOUND_DICTIONARY <=? bc); [eapply push_frame_err; eassumption|].
  destruct (bc =? CODE_EXIT); [eapply exec_exit_err; eassumption | eapply exec_builtin_err; eassumption].
Qed.

Lemma fetch_instr_err : forall p m r, fetch_instr p m = Ok r ->
  match r with LoopEnd m' => err_rel m m' | Instr _ m0 => err_rel m m0 end.
Proof.
  intros p m r H. unfold fetch_instr in H. cbv zeta in H. break_all; stop_inv; err_fin.
Qed.

Lemma single_tail_err : forall fixed p t m fl m1, single_tail fixed p t m = Ok (fl, m1) -> err_rel m m1.
Proof.
  intros fixed p t m fl m1 H. unfold single_tail in H. break_all; stop_inv; err_chain.
Qed.

Lemma exec_instr_err : forall fixed single p e t m fl m1, exec_instr fixed single p e t m = Ok (fl, m1) -> err_rel m m1.
Proof.
  intros fixed single p e t m fl m1 H. unfold exec_instr in H.
  destruct (fetch_instr p m) as [[m'|bc m0]|c|] eqn:Ef; try discriminate; apply fetch_instr_err in Ef.
  - stop_inv. assumption.
  - destruct (exec_op fixed single p e m0 bc) as [[[|] m2]|c|] eqn:Eo; try discriminate; apply exec_op_err in Eo.
    + destruct single.
      * destruct (bc =? CODE_EXIT).
        -- inv H. eapply err_rel_trans; eassumption.
        -- apply single_tail_err in H. eapply err_rel_trans; [eassumption|]. eapply err_rel_trans; eassumption.
      * inv H. eapply err_rel_trans; eassumption.
    + inv H. eapply err_rel_trans; eassumption.
Qed.

Lemma irun_err : forall f fixed single p e t m m1, internal_run f fixed single p e t m = Ok m1 -> err_rel m m1.
Proof.
  induction f as [|f IH]; intros fixed single p e t m m1 H; [discriminate|].
  rewrite IR_S in H.
  destruct (depth m =? t); [inv H; apply err_rel_refl|].
  destruct (segment_done p m) as [[|]|c|]; try discriminate.
  - destruct (pop_incr m) as [[[|] m2]|c|] eqn:Ep; try discriminate; apply pop_incr_err in Ep.
    + apply IH in H. eapply err_rel_trans; eassumption.
    + inv H. assumption.
  - destruct (exec_instr fixed single p e t m) as [[[|] m2]|c|] eqn:Ee; try discriminate; apply exec_instr_err in Ee.
    + apply IH in H. eapply err_rel_trans; eassumption.
    + inv H. assumption.
Qed.

Definition doc_err (z : Z) : Prop := 0 <= z <= 12.      (* util::ForthError: none ... varint_too_big *)

Lemma run_and_pop_err : forall f fixed single p e m m1, run_and_pop f fixed single p e m = Ok m1 -> err_rel m m1.
Proof.
  intros f fixed single p e m m1 H. unfold run_and_pop in H.
  destruct (m_targets m) as [|t ts]; [discriminate|].
  destruct (internal_run f fixed single p e t m) as [m2|c|] eqn:E; try discriminate. apply irun_err in E.
  unfold pop_target in H. destruct (m_targets m2); [discriminate|]. inv H.
  destruct (depth m2 =? z); assumption.
Qed.

(* the same observable state except, possibly, the error code *)
Definition same_data (m m' : machine) : Prop :=
  m_stack m' = m_stack m /\ m_vars m' = m_vars m /\ m_inpos m' = m_inpos m /\ m_outs m' = m_outs m /\
  m_frames m' = m_frames m /\ m_dos m' = m_dos m /\ m_targets m' = m_targets m /\ m_ready m' = m_ready m.

(* (b) run-time faults are reported as documented error codes and stop the machine until begin / reset.
   PARTIAL: the remaining possible outcome `Fault k` (undefined behaviour of the C++) is not excluded here; which k
   can arise from compiled programs (2 repeat count * item size overflowing int64, 5/6 exit inside a do-loop,
   7 call at the recursion limit, 8 recursion limit < 1, 9 wide bit fields) is established by the correspondence
   runs only. *)
Theorem faults_are_errors_partial_proof :
  (* every error code a step / resume / call can leave is one of the documented ones *)
  (forall fixed p e m m', doc_err (m_err m) -> api_step fixed p e m = Ok m' -> doc_err (m_err m')) /\
  (forall f fixed p e m m', doc_err (m_err m) -> api_resume f fixed p e m = Ok m' -> doc_err (m_err m')) /\
  (forall f fixed p e m s m', doc_err (m_err m) -> api_call f fixed p e m s = Ok m' -> doc_err (m_err m')) /\
  (* once an error is set nothing executes any more: stack, variables, inputs, outputs stay as they are *)
  (forall fixed p e m m', m_err m <> E_none -> api_step fixed p e m = Ok m' -> same_data m m') /\
  (forall f fixed p e m m', m_err m <> E_none -> api_resume f fixed p e m = Ok m' -> same_data m m') /\
  (forall f fixed p e m s m', m_err m <> E_none -> api_call f fixed p e m s = Ok m' -> same_data m m') /\
  (* reset clears the error; begin makes the machine runnable again *)
  (forall p m, m_err (api_reset p m) = E_none /\ m_ready (api_reset p m) = false) /\
  (forall p e m m', api_begin p e m = Ok m' -> can_go m' = true /\ m_stack m' = []).
Proof.
  assert (Hdoc : forall m m', doc_err (m_err m) -> err_rel m m' -> doc_err (m_err m')).
  { unfold doc_err, err_rel. intros. lia. }
  assert (Hsame : forall m, same_data m m) by (intro; repeat split).
  assert (Hsame2 : forall m z, same_data m (set_err m z)) by (intros; repeat split).
  split; [|split; [|split; [|split; [|split; [|split; [|split]]]]]].
  - intros fixed p e m m' Hd H. unfold api_step in H.
    destruct (negb (m_ready m)); [inv H; unfold doc_err; cbn; unfold E_not_ready; lia|].
    destruct (m_targets m) eqn:Et; [inv H; unfold doc_err; cbn; unfold E_is_done; lia|].
    destruct (negb (m_err m =? E_none)); [inv H; assumption|].
    apply run_and_pop_err in H. eapply Hdoc; eassumption.
  - intros f fixed p e m m' Hd H. unfold api_resume in H.
    destruct (negb (m_ready m)); [inv H; unfold doc_err; cbn; unfold E_not_ready; lia|].
    destruct (m_targets m) eqn:Et; [inv H; unfold doc_err; cbn; unfold E_is_done; lia|].
    destruct (negb (m_err m =? E_none)); [inv H; assumption|].
    apply run_and_pop_err in H. eapply Hdoc; eassumption.
  - intros f fixed p e m s m' Hd H. unfold api_call in H.
    destruct (negb (m_ready m)); [inv H; unfold doc_err; cbn; unfold E_not_ready; lia|].
    destruct (negb (m_err m =? E_none)); [inv H; assumption|].
    destruct (p_rec_max p <=? depth m); [discriminate|].
    apply run_and_pop_err in H. eapply Hdoc; [|eassumption]. assumption.
  - intros fixed p e m m' He H. unfold api_step in H.
    destruct (negb (m_ready m)); [inv H; apply Hsame2|].
    destruct (m_targets m) eqn:Et; [inv H; apply Hsame2|].
    destruct (negb (m_err m =? E_none)) eqn:E0; [inv H; apply Hsame|]. unfold E_none in *. lia.
  - intros f fixed p e m m' He H. unfold api_resume in H.
    destruct (negb (m_ready m)); [inv H; apply Hsame2|].
    destruct (m_targets m) eqn:Et; [inv H; apply Hsame2|].
    destruct (negb (m_err m =? E_none)) eqn:E0; [inv H; apply Hsame|]. unfold E_none in *. lia.
  - intros f fixed p e m s m' He H. unfold api_call in H.
    destruct (negb (m_ready m)); [inv H; apply Hsame2|].
    destruct (negb (m_err m =? E_none)) eqn:E0; [inv H; apply Hsame|]. unfold E_none in *. lia.
  - intros p m. split; reflexivity.
  - intros p e m m' H. unfold api_begin in H. destruct (p_rec_max p <? 1); [discriminate|]. inv H. split; reflexivity.
Qed.

(* (e) the model is a function: equal inputs give equal results (stated for completeness) *)
Theorem deterministic_proof : forall fuel fixed p given segs r1 r2,
  session fuel fixed p given segs = r1 -> session fuel fixed p given segs = r2 -> r1 = r2.
Proof. intros. congruence. Qed.

(* run = iterated steps, and further (guarded) steps leave the final state alone *)
Theorem run_is_iterated_step_stable_proof : forall p e n f m mf,
  complete n f true p e m = Ok mf ->
  can_go mf = false /\ exists k, forall k', iter_step true p e (k + k') m = Ok mf.
Proof.
  intros p e n f m mf H. pose proof (complete_final p e n f true m mf H) as Hf. split; [assumption|].
  destruct (run_is_iterated_step_proof p e n f m mf H) as [k Hk]. exists k. intro k'.
  rewrite (iter_step_add _ _ _ _ _ _ _ Hk). apply iter_step_stuck. assumption.
Qed.

(* run mode does not depend on the patch at all *)
Lemma exec_op_run_mode : forall fixed p e m bc, exec_op fixed false p e m bc = exec_op true false p e m bc.
Proof. intros. unfold exec_op. reflexivity. Qed.

Lemma exec_instr_run_mode : forall fixed p e t m, exec_instr fixed false p e t m = exec_instr true false p e t m.
Proof. intros. unfold exec_instr. destruct (fetch_instr p m) as [[|]| |]; try reflexivity. Qed.

Theorem run_mode_unpatched_proof : forall f fixed p e t m, internal_run f fixed false p e t m = internal_run f true false p e t m.
Proof.
  induction f as [|f IH]; intros; [reflexivity|]. rewrite !IR_S. rewrite exec_instr_run_mode.
  destruct (depth m =? t); [reflexivity|].
  destruct (segment_done p m) as [[|]| |]; try reflexivity.
  - destruct (pop_incr m) as [[[|] m1]| |]; try reflexivity. apply IH.
  - destruct (exec_instr true false p e t m) as [[[|] m1]| |]; try reflexivity. apply IH.
Qed.

(* ================================================================== 10. the pinned tree, where stepping is harmless *)
Lemma exec_op_pinned_non_exit : forall single p e m bc, (bc =? CODE_EXIT) = false ->
  exec_op false single p e m bc = exec_op true single p e m bc.
Proof. intros single p e m bc H. unfold exec_op. rewrite H. reflexivity. Qed.

Lemma single_tail_plain : forall p t m2, end_of_step_plain p t m2 = true -> single_tail false p t m2 = single_tail true p t m2.
Proof.
  intros p t m2 H. unfold end_of_step_plain, single_tail in *.
  destruct (segment_done p m2) as [[|]|c|] eqn:Es.
  - apply andb_prop in H. destruct H as [Hd Hdo]. destruct (depth m2 =? t); [discriminate|].
    unfold pop_only, pop_incr. destruct (m_frames m2) as [|fr0 fr] eqn:Ef; [reflexivity|].
    cbn [m_dos set_frames]. destruct (m_dos m2) as [|[[dd dstop] di] dos']; [reflexivity|].
    assert (Hdep : depth (set_frames m2 fr) = depth m2 - 1).
    { unfold depth, zlen. cbn [m_frames set_frames]. rewrite Ef. cbn [length]. lia. }
    rewrite Hdep. destruct (abs_depth dd =? depth m2 - 1); [discriminate|]. reflexivity.
  - destruct (depth m2 =? t); reflexivity.
  - destruct (depth m2 =? t); [discriminate|reflexivity].
  - exfalso. eapply segment_done_noof; eassumption.
Qed.

Lemma irun_pinned_clean : forall f p e t m, step_clean f p e t m = true ->
  internal_run f false true p e t m = internal_run f true true p e t m.
Proof.
  induction f as [|f IH]; intros p e t m H; [reflexivity|].
  rewrite !IR_S. cbn [step_clean] in H.
  destruct (depth m =? t); [reflexivity|].
  destruct (segment_done p m) as [[|]|c|]; try reflexivity.
  - destruct (pop_incr m) as [[[|] m1]|c|]; try reflexivity. apply IH. assumption.
  - unfold exec_instr.
    destruct (fetch_instr p m) as [[m1|bc m1]|c|]; try reflexivity.
    + cbn [continue]. apply IH. assumption.
    + destruct (bc =? CODE_EXIT) eqn:Eb; [discriminate|].
      rewrite (exec_op_pinned_non_exit true p e m1 bc Eb).
      destruct (exec_op true true p e m1 bc) as [[[|] m2]|c|]; try reflexivity.
      rewrite (single_tail_plain p t m2 H).
      pose proof (single_tail_shape true p t m2 _ eq_refl) as Hs.
      destruct (single_tail true p t m2) as [[[|] m3]|c|]; try reflexivity; contradiction.
Qed.

Lemma api_step_pinned_clean : forall p e m, api_step_clean p e m = true -> api_step false p e m = api_step true p e m.
Proof.
  intros p e m H. unfold api_step, run_and_pop, api_step_clean in *.
  destruct (negb (m_ready m)); [reflexivity|].
  destruct (m_targets m) as [|t ts]; [reflexivity|].
  destruct (negb (m_err m =? E_none)); [reflexivity|].
  rewrite (irun_pinned_clean _ _ _ _ _ H). reflexivity.
Qed.

Lemma iter_step_S : forall fixed p e k m,
  iter_step fixed p e (S k) m = match apply_seg fixed p e GStep m with Ok m1 => iter_step fixed p e k m1 | other => other end.
Proof. reflexivity. Qed.

Lemma clean_run_stuck : forall k p e m, can_go m = false -> clean_run k p e m = true.
Proof. intros k p e m H. destruct k; [reflexivity|]. cbn [clean_run]. rewrite H. reflexivity. Qed.

Lemma iter_pinned_clean : forall k p e m, clean_run k p e m = true -> iter_step false p e k m = iter_step true p e k m.
Proof.
  induction k as [|k IH]; intros p e m H; [reflexivity|].
  rewrite !iter_step_S. cbn [clean_run] in H. unfold apply_seg.
  destruct (can_go m) eqn:Eg.
  - apply andb_prop in H. destruct H as [Hc Hr]. rewrite (api_step_pinned_clean p e m Hc).
    destruct (api_step true p e m); try reflexivity. apply IH. assumption.
  - apply IH. apply clean_run_stuck. assumption.
Qed.

Lemma complete_unpatched : forall n f fixed p e m, complete n f fixed p e m = complete n f true p e m.
Proof.
  induction n as [|n IH]; intros; [reflexivity|]. rewrite !complete_S.
  destruct (can_go m); [|reflexivity].
  assert (Hr : api_resume f fixed p e m = api_resume f true p e m).
  { unfold api_resume, run_and_pop. destruct (negb (m_ready m)); [reflexivity|].
    destruct (m_targets m); [reflexivity|]. destruct (negb (m_err m =? E_none)); [reflexivity|].
    rewrite run_mode_unpatched_proof. reflexivity. }
  rewrite Hr. destruct (api_resume f true p e m); try reflexivity. apply IH.
Qed.

(* (a) on the PINNED tree, under the precise side condition: no step boundary falls at the end of a do-loop body
   (or would pop below the target depth) and no `exit` is single-stepped — `clean_run` checks exactly that along the
   trajectory.  PARTIAL in that sense; without the side condition the statement is refuted (see above). *)
Theorem run_is_iterated_step_pinned_partial_proof : forall p e n f m mf,
  complete n f false p e m = Ok mf ->
  exists k, forall k', clean_run (k + k') p e m = true -> iter_step false p e (k + k') m = Ok mf.
Proof.
  intros p e n f m mf H. rewrite complete_unpatched in H.
  destruct (run_is_iterated_step_stable_proof p e n f m mf H) as [_ [k Hk]].
  exists k. intros k' Hc. rewrite (iter_pinned_clean _ _ _ _ Hc). apply Hk.
Qed.

(* non-vacuity: a program with begin ... until, a user word, variables and a pause, stepped cleanly to its end *)
Definition prog_clean := compile 64 16 16 (bytes ": w 1+ ; variable v 3 v ! 0 begin w pause -1 v +! v @ 0= until"%string).
Example clean_run_example :
  exists p m0 mf, prog_clean = COk p /\ api_begin p (mkEnv []) (init_machine p) = Ok m0 /\
    complete 9 200 false p (mkEnv []) m0 = Ok mf /\ m_stack mf = [3] /\
    clean_run 60 p (mkEnv []) m0 = true /\ iter_step false p (mkEnv []) 60 m0 = Ok mf.
Proof.
  exists (mkProg 64 [[0; 3; 11; 0; 0; 0; 68; 8]; [46]; [67; 2; 0; -1; 12; 0; 13; 0; 57]] [([119], 67)] [[118]] [] [] 16 16).
  exists (mkM [] [0] [] [] [(0, 0)] [] [0] true 0).
  exists (mkM [3] [0] [] [] [] [] [] true 0).
  repeat split; vm_compute; reflexivity.
Qed.
