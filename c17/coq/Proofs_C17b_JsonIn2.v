(** C17b, Form::fromjson on ARBITRARY JSON, part 2: member order / extra members / duplicates at a node,
    aliases and defaults, class-specific names against index strings, abbreviated index strings. *)
From Coq Require Import ZArith List Bool Lia Permutation.
From AwkV Require Import Base Layout.
From AwkTypes Require Import Json Forms TypeStr Proofs_Json Proofs_C17b_Json Proofs_C17b_JsonIn.
Import ListNotations.
Open Scope Z_scope.

(* ================================================================ (D) Index::str2form *)
Lemma is_prefix_app s : forall t, is_prefix s t = true <-> exists r, t = s ++ r.
Proof.
  induction s as [|x s IH]; intros t; simpl.
  - split; [intros _; exists t; reflexivity|reflexivity].
  - destruct t as [|y t]; [split; [discriminate|intros [r Hr]; discriminate Hr]|].
    split.
    + intros H. apply andb_true_iff in H as [H1 H2]. apply Z.eqb_eq in H1. subst. apply IH in H2 as [r ->]. exists r. reflexivity.
    + intros [r Hr]. inversion Hr; subst. rewrite Z.eqb_refl. apply IH. exists r. reflexivity.
Qed.

Definition iform_order : list iform := [Fi8; Fu8; Fi32; Fu32; Fi64].

(* str2form compares only str.length() characters (strncmp): it returns the FIRST of i8, u8, i32, u32, i64 of which
   the string is a prefix *)
Theorem str2form_prefix_thm : forall s,
  str2form s = match find (fun o => is_prefix s (form2str o)) iform_order with Some o => Ok o | None => Err EValue end.
Proof. intros s. unfold str2form, iform_order, find. repeat destruct (is_prefix s _); reflexivity. Qed.

Theorem str2form_sound_thm : forall s o, str2form s = Ok o -> exists r, form2str o = s ++ r.
Proof.
  intros s o H. apply is_prefix_app. unfold str2form in H.
  repeat match type of H with (if ?c then _ else _) = _ => destruct c eqn:? end; inversion H; subst; assumption.
Qed.

Theorem str2form_complete_thm : forall s o r, form2str o = s ++ r -> exists o', str2form s = Ok o'.
Proof.
  intros s o r H. assert (P : is_prefix s (form2str o) = true) by (apply is_prefix_app; exists r; exact H).
  unfold str2form. destruct o; repeat match goal with |- exists _, (if ?c then _ else _) = _ => destruct c eqn:? end;
    try (eexists; reflexivity); congruence.
Qed.

(* the empty string is accepted, as i8; so are "i" (i8), "u" (u8), "i3", "u3", "i6" *)
Example str2form_empty_string : str2form [] = Ok Fi8.
Proof. reflexivity. Qed.
Example str2form_abbreviations :
  str2form [105] = Ok Fi8 /\ str2form [117] = Ok Fu8 /\ str2form [105; 51] = Ok Fi32 /\ str2form [117; 51] = Ok Fu32 /\
  str2form [105; 54] = Ok Fi64 /\ str2form [105; 51; 50; 120] = Err EValue /\ str2form [105; 49] = Err EValue.
Proof. vm_compute. repeat split; reflexivity. Qed.

(* ================================================================ (B) members of a node: only first occurrences of known names matter *)
Definition node_keys : list bytes :=
  [k_class; k_has_identifier; k_has_identities; k_parameters; k_form_key; k_primitive; k_format; k_itemsize;
   k_inner_shape; k_contents; k_content; k_offsets; k_starts; k_stops; k_size; k_index; k_mask; k_valid_when;
   k_lsb_order; k_tags; k_form; k_has_length].
Definition is_node_key (k : bytes) : bool := existsb (bytes_eqb k) node_keys.

Lemma bind_ext {A B} (r : res A) (f g : A -> res B) : (forall x, f x = g x) -> bind r f = bind r g.
Proof. intros H. destruct r; [apply H|reflexivity]. Qed.

Lemma fromjson_obj_ext rec m m' :
  (forall k, is_node_key k = true -> jfind k m = jfind k m') -> fromjson_obj rec m = fromjson_obj rec m'.
Proof.
  intros H.
  assert (Hc : forall A (f : json -> A), jfind_map f k_contents m = jfind_map f k_contents m').
  { intros A f. rewrite !jfind_map_spec, (H k_contents eq_refl). reflexivity. }
  unfold fromjson_obj, get_meta, get_hid, get_params, get_form_key, get_iform, get_bool.
  rewrite !jfind_map_spec.
  repeat match goal with |- context [jfind ?k m] => rewrite (H k) by reflexivity end.
  destruct (jfind k_class m') as [[| | | |cls| |]|]; try reflexivity.
  apply bind_ext. intros mt.
  repeat match goal with
         | |- ?x = ?x => reflexivity
         | |- (if ?c then _ else _) = _ => destruct c
         | |- match ?o with Some _ => _ | None => _ end = _ => destruct o
         | |- bind ?r _ = bind ?r _ => apply bind_ext; intros ?
         | |- req (jfind_map _ k_contents m) = _ => rewrite Hc
         end.
Qed.

(** two objects that agree on the first occurrence of each member name fromjson looks up are read alike *)
Theorem fromjson_node_ext_thm : forall m m',
  (forall k, is_node_key k = true -> jfind k m = jfind k m') -> form_fromjson (JObj m) = form_fromjson (JObj m').
Proof. intros m m' H. cbn [form_fromjson]. apply fromjson_obj_ext. exact H. Qed.

Lemma jfind_swap k x y (l : list (bytes * json)) :
  bytes_eqb (fst x) (fst y) = false -> jfind k (x :: y :: l) = jfind k (y :: x :: l).
Proof.
  destruct x as [kx vx], y as [ky vy]. simpl. intros Hne.
  destruct (bytes_eqb kx k) eqn:E1, (bytes_eqb ky k) eqn:E2; try reflexivity.
  apply bytes_eqb_eq in E1, E2. subst. rewrite bytes_eqb_refl in Hne. discriminate.
Qed.

Lemma jfind_perm (m m' : list (bytes * json)) : Permutation m m' -> NoDup (map fst m) -> forall k, jfind k m = jfind k m'.
Proof.
  induction 1 as [|x l l' Hp IH|x y l|l l' l'' H1 IH1 H2 IH2]; intros Hnd k.
  - reflexivity.
  - destruct x as [kx vx]. simpl in *. apply NoDup_cons_iff in Hnd as [_ Hnd']. rewrite (IH Hnd' k). reflexivity.
  - symmetry. apply jfind_swap. simpl in Hnd. apply NoDup_cons_iff in Hnd as [Hnotin _].
    destruct (bytes_eqb (fst x) (fst y)) eqn:E; [|reflexivity]. apply bytes_eqb_eq in E. exfalso. apply Hnotin. left. exact E.
  - rewrite (IH1 Hnd k). apply IH2. eapply Permutation_NoDup; [|exact Hnd]. apply Permutation_map. exact H1.
Qed.

(** member order is irrelevant (member names distinct) *)
Theorem fromjson_member_order_thm : forall m m', Permutation m m' -> NoDup (map fst m) ->
  form_fromjson (JObj m) = form_fromjson (JObj m').
Proof. intros m m' Hp Hnd. apply fromjson_node_ext_thm. intros k _. exact (jfind_perm m m' Hp Hnd k). Qed.

(** a member whose name fromjson never looks up is ignored, wherever it stands *)
Theorem fromjson_extra_member_thm : forall m1 m2 k0 v, is_node_key k0 = false ->
  form_fromjson (JObj (m1 ++ (k0, v) :: m2)) = form_fromjson (JObj (m1 ++ m2)).
Proof.
  intros m1 m2 k0 v Hk. apply fromjson_node_ext_thm. intros k Hn. rewrite !jfind_app.
  destruct (jfind k m1); [reflexivity|]. apply jfind_ne.
  destruct (bytes_eqb k0 k) eqn:E; [|reflexivity]. apply bytes_eqb_eq in E. subst. congruence.
Qed.

(** a repeated member name: every occurrence after the first is ignored *)
Theorem fromjson_duplicate_member_thm : forall m1 m2 k0 v, jfind k0 m1 <> None ->
  form_fromjson (JObj (m1 ++ (k0, v) :: m2)) = form_fromjson (JObj (m1 ++ m2)).
Proof.
  intros m1 m2 k0 v Hk. apply fromjson_node_ext_thm. intros k _. rewrite !jfind_app.
  destruct (jfind k m1) eqn:E1; [reflexivity|]. apply jfind_ne.
  destruct (bytes_eqb k0 k) eqn:E; [|reflexivity]. apply bytes_eqb_eq in E. subst. congruence.
Qed.

(* ================================================================ (C) aliases, defaults, class-specific names *)
Lemma get_meta_defaults m :
  jfind k_has_identifier m = None -> jfind k_has_identities m = None -> jfind k_parameters m = None ->
  jfind k_form_key m = None -> get_meta m = Ok meta0.
Proof. intros H1 H2 H3 H4. unfold get_meta, get_hid, get_params, get_form_key. rewrite H1, H2, H3, H4. reflexivity. Qed.

(* "has_identifier" is looked up first: when present it decides, "has_identities" is not even type-checked *)
Lemma get_hid_identifier_wins m b : jfind k_has_identifier m = Some (JBool b) -> get_hid m = Ok b.
Proof. intros H. unfold get_hid. rewrite H. reflexivity. Qed.
Lemma get_hid_identifier_not_bool m v : jfind k_has_identifier m = Some v -> (forall b, v <> JBool b) -> get_hid m = Err EValue.
Proof. intros H Hv. unfold get_hid. rewrite H. destruct v; try reflexivity. destruct (Hv b eq_refl). Qed.

(* a class name that fixes the index type: the index string, if given, must agree (any accepted abbreviation of it) *)
Lemma get_iform_preset p field m o : get_iform (Some p) field m = Ok o -> o = p.
Proof.
  unfold get_iform. destruct (jfind field m) as [[| | | |s| |]|]; try (intros H; inversion H; reflexivity).
  destruct (str2form (cstr s)) as [tmp|]; [|discriminate]. cbn [bind].
  destruct (iform_eqb p tmp) eqn:E; [|discriminate]. intros H. inversion H; subst. symmetry. apply iform_eqb_eq. exact E.
Qed.
Lemma fromjson_width_conflict p field m s o :
  jfind field m = Some (JStr s) -> str2form (cstr s) = Ok o -> o <> p -> get_iform (Some p) field m = Err EValue.
Proof.
  intros Hj Hs Hne. unfold get_iform. rewrite Hj, Hs. cbn [bind].
  destruct (iform_eqb p o) eqn:E; [|reflexivity]. apply iform_eqb_eq in E. congruence.
Qed.

(* ================================================================ Examples and counter-examples *)
From Coq Require Import String.
Definition S_ (s : string) : json := JStr (bytes_of_string s).
Definition O_ (l : list (string * json)) : json := JObj (List.map (fun kv => (bytes_of_string (fst kv), snd kv)) l).
Definition np64 : form := FNumpy meta0 [] 8 [108] (FD DInt64).
Open Scope string_scope.

(* (A) fromjson accepts what tojson cannot print back: the generic class name with an index type of no existing
   class - also abbreviated, also EMPTY - gives a form whose own JSON (class "UnrecognizedListOffsetArray") is rejected *)
Example fromjson_accepts_unprintable_refuted :
  let j := O_ [("class", S_ "ListOffsetArray"); ("offsets", S_ "i8"); ("content", S_ "int64")] in
  let f := FListOffset meta0 Fi8 np64 in
  form_fromjson j = Ok f /\ form_wf f = false /\ shape_ok f = false /\
  (forall v, form_fromjson (form_tojson v f) = Err EValue) /\
  form_fromjson (O_ [("class", S_ "ListOffsetArray"); ("offsets", S_ "i"); ("content", S_ "int64")]) = Ok f /\
  form_fromjson (O_ [("class", S_ "ListOffsetArray"); ("offsets", S_ ""); ("content", S_ "int64")]) = Ok f.
Proof.
  cbv zeta. split; [vm_compute; reflexivity|]. split; [vm_compute; reflexivity|]. split; [vm_compute; reflexivity|].
  split; [intros v; destruct v; vm_compute; reflexivity|]. split; vm_compute; reflexivity.
Qed.
Example fromjson_unprintable_others :
  form_fromjson (O_ [("class", S_ "UnionArray"); ("tags", S_ "i64"); ("index", S_ "u"); ("contents", JArr [])]) = Ok (FUnion meta0 Fi64 Fu8 []) /\
  form_fromjson (O_ [("class", S_ "ListArray"); ("starts", S_ "i32"); ("stops", S_ "i64"); ("content", S_ "int64")]) = Ok (FList meta0 Fi32 Fi64 np64) /\
  form_fromjson (O_ [("class", S_ "IndexedOptionArray"); ("index", S_ "u32"); ("content", S_ "int64")]) = Ok (FIndexedOption meta0 Fu32 np64) /\
  form_fromjson (O_ [("class", S_ "IndexedArray"); ("index", S_ "u8"); ("content", S_ "int64")]) = Ok (FIndexed meta0 Fu8 np64).
Proof. vm_compute. repeat split; reflexivity. Qed.
(* (A) format + itemsize without "primitive" may give a NumpyForm with dtype NOT_PRIMITIVE: Form::type then fails on it,
   and it cannot be printed back ("unknown") *)
Example fromjson_not_primitive_refuted :
  let f := FNumpy meta0 [] 8 [120] FNotPrimitive in
  form_fromjson (O_ [("class", S_ "NumpyArray"); ("format", S_ "x"); ("itemsize", JInt 8)]) = Ok f /\
  (forall ts, type_of_form ts f = Err EValue) /\ (forall v, form_fromjson (form_tojson v f) = Err EValue) /\
  form_fromjson (O_ [("class", S_ "NumpyArray"); ("format", S_ "l"); ("itemsize", JInt 3)]) = Ok (FNumpy meta0 [] 3 [108] FNotPrimitive).
Proof. cbv zeta. split; [vm_compute; reflexivity|]. split; [intros ts; reflexivity|]. split; [intros v; destruct v; vm_compute; reflexivity|vm_compute; reflexivity]. Qed.
(* (A) "well-formed iff index widths ok" is FALSE: a non-canonical format ("q") given without "primitive" is kept *)
Example fromjson_wf_iff_widths_refuted :
  let f := FNumpy meta0 [] 8 [113] (FD DInt64) in
  form_fromjson (O_ [("class", S_ "NumpyArray"); ("format", S_ "q"); ("itemsize", JInt 8)]) = Ok f /\
  form_wf f = false /\ shape_ok f = false /\ form_img f = true.
Proof. vm_compute. repeat split; reflexivity. Qed.
(* (C) "primitive" wins over inconsistent "format" / "itemsize" *)
Example fromjson_primitive_wins :
  form_fromjson (O_ [("class", S_ "NumpyArray"); ("format", S_ "q"); ("itemsize", JInt 8); ("primitive", S_ "float32")]) =
  Ok (FNumpy meta0 [] 4 [102] (FD DFloat32)).
Proof. vm_compute. reflexivity. Qed.
(* (C) has_identifier wins over has_identities wherever it stands; a non-boolean has_identifier is an error even if
   has_identities is fine; "parameters": null and a non-string form_key are errors; "form_key": null is None *)
Example fromjson_identifier_alias :
  form_fromjson (O_ [("class", S_ "EmptyArray"); ("has_identities", JBool false); ("has_identifier", JBool true)]) = Ok (FEmpty (mkmeta true [] None)) /\
  form_fromjson (O_ [("class", S_ "EmptyArray"); ("has_identifier", JBool false); ("has_identities", JBool true)]) = Ok (FEmpty meta0) /\
  form_fromjson (O_ [("class", S_ "EmptyArray"); ("has_identifier", JNull); ("has_identities", JBool true)]) = Err EValue /\
  form_fromjson (O_ [("class", S_ "EmptyArray"); ("parameters", JNull)]) = Err EValue /\
  form_fromjson (O_ [("class", S_ "EmptyArray"); ("form_key", JInt 1)]) = Err EValue /\
  form_fromjson (O_ [("class", S_ "EmptyArray"); ("form_key", JNull)]) = Ok (FEmpty meta0) /\
  form_fromjson (O_ [("class", S_ "EmptyArray")]) = Ok (FEmpty meta0).
Proof. vm_compute. repeat split; reflexivity. Qed.
(* (C) class-specific name: index string may be omitted or abbreviated, but must not conflict; the generic name needs it *)
Example fromjson_width_specific :
  form_fromjson (O_ [("class", S_ "ListOffsetArray64"); ("content", S_ "int64")]) = Ok (FListOffset meta0 Fi64 np64) /\
  form_fromjson (O_ [("class", S_ "ListOffsetArray64"); ("offsets", S_ "i6"); ("content", S_ "int64")]) = Ok (FListOffset meta0 Fi64 np64) /\
  form_fromjson (O_ [("class", S_ "ListOffsetArray64"); ("offsets", S_ "i32"); ("content", S_ "int64")]) = Err EValue /\
  form_fromjson (O_ [("class", S_ "ListOffsetArray64"); ("offsets", S_ "i"); ("content", S_ "int64")]) = Err EValue /\
  form_fromjson (O_ [("class", S_ "ListOffsetArray"); ("content", S_ "int64")]) = Err EValue /\
  form_fromjson (O_ [("class", S_ "UnionArray8_32"); ("tags", S_ "u8"); ("contents", JArr [])]) = Err EValue /\
  form_fromjson (O_ [("class", S_ "UnionArray8_32"); ("contents", JArr [])]) = Ok (FUnion meta0 Fi8 Fi32 []).
Proof. vm_compute. repeat split; reflexivity. Qed.
(* (B) duplicates: the first "class" counts; unknown members are ignored; but inside "contents" given as an object
   every member is a field, duplicates included (a RecordForm with two fields of the same name) *)
Example fromjson_duplicate_class :
  form_fromjson (O_ [("class", S_ "EmptyArray"); ("class", S_ "Bogus"); ("zzz", JInt 1)]) = Ok (FEmpty meta0) /\
  form_fromjson (O_ [("class", S_ "Bogus"); ("class", S_ "EmptyArray")]) = Err EValue /\
  form_fromjson (O_ [("class", S_ "RecordArray"); ("contents", O_ [("a", S_ "int64"); ("a", S_ "bool")])]) =
    Ok (FRecord meta0 (Some [[97]; [97]]) [np64; FNumpy meta0 [] 1 [63] (FD DBool)]).
Proof. vm_compute. repeat split; reflexivity. Qed.
(* (B) member order on a node, by the theorem *)
Example fromjson_member_order_ex :
  form_fromjson (O_ [("content", S_ "int64"); ("class", S_ "ListOffsetArray"); ("offsets", S_ "u32"); ("form_key", S_ "k")]) =
  form_fromjson (O_ [("class", S_ "ListOffsetArray"); ("content", S_ "int64"); ("offsets", S_ "u32"); ("form_key", S_ "k")]).
Proof.
  apply fromjson_member_order_thm; [apply perm_swap|].
  cbn [List.map fst]. repeat (apply NoDup_cons; [cbn [In]; intros H; repeat (destruct H as [H|H]; [discriminate H|]); exact H|]).
  apply NoDup_nil.
Qed.
(* primitive names: datetime64 / timedelta64 accept any suffix (the unit is dropped) *)
Example fromjson_datetime_unit : form_fromjson (S_ "datetime64[ns]") = Ok (FNumpy meta0 [] 8 [77] FDatetime64).
Proof. vm_compute. reflexivity. Qed.
