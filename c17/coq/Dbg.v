From Coq Require Import ZArith List Bool Lia.
From AwkV Require Import Base Layout.
From AwkTypes Require Import Json Forms Proofs_Json.
Import ListNotations.
Open Scope Z_scope.

Ltac jf := repeat first [ rewrite jfind_eq by reflexivity | rewrite jfind_ne by reflexivity ].

Lemma get_meta_skip k v l :
  bytes_eqb k k_has_identifier = false -> bytes_eqb k k_has_identities = false ->
  bytes_eqb k k_parameters = false -> bytes_eqb k k_form_key = false ->
  get_meta ((k, v) :: l) = get_meta l.
Proof.
  intros H1 H2 H3 H4. unfold get_meta, get_hid, get_params, get_form_key.
  rewrite !jfind_ne by assumption. reflexivity.
Qed.

Lemma get_meta_tail0 verbose m : meta_wf m = true -> get_meta (j_tail verbose m) = Ok m.
Proof. intros H. apply (get_meta_tail [] verbose m); auto. Qed.

Ltac dispatch :=
  repeat match goal with
  | |- context [bytes_eqb (cstr ?a) ?b] =>
      let v := eval vm_compute in (bytes_eqb (cstr a) b) in change (bytes_eqb (cstr a) b) with v; cbv iota
  | |- context [width_preset (cstr ?a) ?g ?x ?y ?z] =>
      let v := eval vm_compute in (width_preset (cstr a) g x y z) in change (width_preset (cstr a) g x y z) with v; cbv iota
  | |- context [width_preset2 (cstr ?a) ?g ?x ?y] =>
      let v := eval vm_compute in (width_preset2 (cstr a) g x y) in change (width_preset2 (cstr a) g x y) with v; cbv iota
  end.

Ltac other := rewrite jfind_tail_other by (repeat split; reflexivity).

Lemma test_lo verbose m o c :
  meta_wf m = true -> width3 o = true ->
  form_fromjson (form_tojson_part verbose false c) = Ok c ->
  form_fromjson (form_tojson_part verbose false (FListOffset m o c)) = Ok (FListOffset m o c).
Proof.
  intros Hm Ho IH.
  cbn [form_tojson_part form_fromjson].
  unfold fromjson_obj.
  cbn [app]. jf.
  repeat rewrite get_meta_skip by reflexivity. rewrite (get_meta_tail0 _ _ Hm). cbn [bind].
  destruct o; try discriminate Ho; dispatch.
  all: unfold get_iform; jf; cbn [bind form2str cstr str2form].
  Show.
Abort.
