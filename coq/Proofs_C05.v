(** C05: list-structure laws at the value level. *)
From AwkV Require Import Layout Ops_Struct Ops_Flatten Ops_Getitem.
From Coq Require Import ZifyBool.

(* unflatten(flatten(x), num(x)) = x for lists without missing entries:
   cutting the concatenation by the lengths gives the lists back *)
Theorem regroup_concat {A} (ls : list (list A)) : regroup (map zlen ls) (concat ls) = ls.
Proof.
  induction ls as [|l ls IH]; cbn; auto.
  unfold take, drop, zlen. rewrite Nat2Z.id, firstn_app, Nat.sub_diag, firstn_all. cbn. rewrite app_nil_r.
  f_equal. rewrite skipn_app, Nat.sub_diag, skipn_all. cbn. exact IH.
Qed.

(* flatten: a missing list contributes nothing, the others are concatenated in order *)
Theorem flatten_is_concat l ls :
  mapM elems_of l = Ok ls -> flat_f TUnk l = Ok (VList (concat ls)).
Proof. intros H. unfold flat_f. rewrite H. reflexivity. Qed.
Theorem flatten_skips_missing l : elems_of VNone = Ok (@nil value) /\ elems_of (VList l) = Ok l.
Proof. split; reflexivity. Qed.

(* num = lengths, local_index = 0..n-1 *)
Theorem num_is_length t l : num_f t l = Ok (VNum (DZ (zlen l))).
Proof. reflexivity. Qed.
Theorem localindex_is_iota t l : localindex_f t l = Ok (VList (map (fun i => VNum (DZ i)) (iota (zlen l)))).
Proof. reflexivity. Qed.

(* the model's offsets are the running sums of the lengths *)
Lemma offsets_from_length s lens : length (offsets_from s lens) = S (length lens).
Proof. revert s. induction lens as [|n ns IH]; intros s; cbn; auto. Qed.
Lemma offsets_from_last s lens : last (offsets_from s lens) 0 = s + sumZ lens.
Proof.
  revert s. induction lens as [|n ns IH]; intros s; cbn [offsets_from sumZ fold_right]; [cbn; lia|].
  change (last (s :: offsets_from (s + n) ns) 0) with
      (match offsets_from (s + n) ns with [] => s | _ => last (offsets_from (s + n) ns) 0 end).
  destruct (offsets_from (s + n) ns) eqn:E.
  - pose proof (offsets_from_length (s + n) ns) as H. rewrite E in H. discriminate.
  - rewrite <- E, IH. unfold sumZ. lia.
Qed.
Lemma offsets_from_pairs s lens :
  pairs (offsets_from s lens) =
  (fix go (s : Z) (lens : list Z) : list (Z * Z) :=
     match lens with [] => [] | n :: ns => (s, s + n) :: go (s + n) ns end) s lens.
Proof.
  revert s. induction lens as [|n ns IH]; intros s; cbn [offsets_from pairs]; auto.
  destruct ns as [|m ms]; cbn [offsets_from pairs] in *; [reflexivity|].
  f_equal. apply (IH (s + n)).
Qed.

Example c05_examples :
  regroup [2; 0; 1] [VNum (DZ 1); VNum (DZ 2); VNum (DZ 3)] = [[VNum (DZ 1); VNum (DZ 2)]; []; [VNum (DZ 3)]] /\
  offsets_from 0 [2; 0; 1] = [0; 2; 2; 3].
Proof. split; reflexivity. Qed.
