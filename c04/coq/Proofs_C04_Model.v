(** C04 — proofs about the MODEL (Broadcast.v).
    Fragment [jag]: 1-d integer NumpyArray leaves under ListOffsetArray / ListArray (any index width, any
    offset origin, gaps, unreachable data) and IndexedOptionArray (not directly inside another one). *)
From AwkV Require Import Proofs_Lists Proofs_ToList Proofs_Typing Proofs_Carry.
From AwkBroadcast Require Import Broadcast Proofs_C04.
From Coq Require Import Lia ZifyBool.

Definition is_dz (d : datum) : bool := match d with DZ _ => true | _ => false end.
Fixpoint jag (c : content) : bool :=
  match c with
  | Numpy _ [_] data => forallb is_dz data
  | ListOffset _ _ c' | ListA _ _ _ c' => jag c'
  | IndexedOption _ _ c' => jag c' && negb (is_option_node c')
  | _ => false
  end.
(* number of nodes of the chain *)
Fixpoint csize (c : content) : nat :=
  match c with
  | ListOffset _ _ c' | ListA _ _ _ c' | IndexedOption _ _ c' => S (csize c')
  | _ => 1%nat
  end.

(* ------------------------------------------------------------------ generic list facts *)
Lemma firstn_In' {A} (x : A) n : forall l, In x (firstn n l) -> In x l.
Proof. induction n as [|n IH]; intros [|a l]; cbn; try tauto. intros [->|H]; [now left|right; now apply IH]. Qed.
Lemma mapM_slice {A B} (f : A -> res B) l ys a b sl :
  mapM f l = Ok ys -> slice l a b = Ok sl -> mapM f sl = slice ys a b.
Proof.
  intros H Hs. pose proof (slice_inv _ _ _ _ Hs) as Hb.
  rewrite <- (gather_range l a b) in Hs by lia.
  rewrite (mapM_gather_ok f l ys (range a b) sl H Hs).
  apply gather_range; try lia. rewrite (mapM_zlen _ _ _ H). lia.
Qed.

Lemma pairs_skipn k : forall o, pairs (skipn k o) = skipn k (pairs o).
Proof.
  induction k as [|k IH]; [reflexivity|]. intros [|a [|b o]].
  - reflexivity.
  - destruct k; reflexivity.
  - change (skipn (S k) (a :: b :: o)) with (skipn k (b :: o)). rewrite IH. reflexivity.
Qed.
Lemma pairs_firstn k : forall o, pairs (firstn (S k) o) = firstn k (pairs o).
Proof.
  induction k as [|k IH]; intros o.
  - destruct o as [|a [|b o]]; reflexivity.
  - destruct o as [|a [|b o]]; try reflexivity.
    change (firstn (S (S k)) (a :: b :: o)) with (a :: b :: firstn k o).
    change (pairs (a :: b :: firstn k o)) with ((a, b) :: pairs (firstn (S k) (b :: o))).
    rewrite IH. reflexivity.
Qed.
Lemma pairs_slice o a b sl :
  slice o a (b + 1) = Ok sl -> a <= b -> slice (pairs o) a b = Ok (pairs sl).
Proof.
  intros Hs Hab. pose proof (slice_inv _ _ _ _ Hs) as Hb. rewrite slice_ok in Hs by lia. inversion Hs; subst.
  assert (Hne : o <> []) by (intros ->; cbn in Hb; lia).
  rewrite slice_ok; try lia.
  - f_equal. unfold take, drop.
    replace (Z.to_nat (b + 1 - a)) with (S (Z.to_nat (b - a))) by lia. rewrite pairs_firstn, pairs_skipn. reflexivity.
  - rewrite zlen_pairs by exact Hne. lia.
Qed.

Lemma firstn_zip {A B} n : forall (s : list A) (e : list B), firstn n (zip s e) = zip (firstn n s) (firstn n e).
Proof.
  induction n as [|n IH]; [reflexivity|]. intros [|a s] [|b e]; cbn; try reflexivity; now rewrite IH.
Qed.
Lemma take_as_slice {A} (l : list A) k : 0 <= k <= zlen l -> slice l 0 k = Ok (take k l).
Proof. intros H. rewrite slice_ok by lia. unfold drop. cbn [Z.to_nat skipn]. now rewrite Z.sub_0_r. Qed.

(* ------------------------------------------------------------------ ranges and gathers inside the fragment *)
Lemma jag_type_list c : jag c = true -> is_list_node c = true -> type_of c = TList None None (type_of (match list_content c with Some x => x | None => c end)).
Proof. destruct c; try discriminate; reflexivity. Qed.

Lemma grange0_jag c : forall vs k,
  jag c = true -> to_list c = Ok vs -> 0 <= k <= clen c ->
  exists c', grange c 0 k = Ok c' /\ jag c' = true /\ to_list c' = Ok (take k vs) /\
             type_of c' = type_of c /\ csize c' = csize c /\ clen c' = k /\
             is_option_node c' = is_option_node c /\ is_list_node c' = is_list_node c /\ is_numpy_node c' = is_numpy_node c.
Proof.
  intros vs k Hj Hl Hk. pose proof (to_list_len _ _ Hl) as Hlen.
  assert (Hguard : negb ((0 <=? 0) && (0 <=? k) && (k <=? clen c)) = false) by lia.
  destruct c as [dt shape data| |w o c'|w s e c'|c' size zl|w ix c'|w ix c'|m vw c'|m vw lsb n c'|c'|w t ix cs|cs ks n|arr rn c'];
    try discriminate.
  - (* Numpy, 1-d *)
    destruct shape as [|n [|d ds]]; try discriminate. cbn [jag] in Hj. cbn [clen] in Hk.
    cbn [grange]. rewrite Hguard. cbn [prodZ fold_right].
    rewrite to_list_Numpy in Hl. cbn [existsb prodZ fold_right] in Hl.
    destruct (n <? 0) eqn:En; [discriminate|]. cbn [orb] in Hl.
    replace (n * 1) with n in Hl by lia. destruct (zlen data <? n) eqn:Ed; [discriminate|]. cbn [nest] in Hl. inversion Hl; subst vs.
    eexists. split; [reflexivity|]. repeat split.
    + cbn [jag]. apply forallb_forall. intros x Hx. rewrite forallb_forall in Hj. apply Hj.
      unfold take, drop in Hx. cbn [Z.to_nat skipn] in Hx. now apply firstn_In' in Hx.
    + rewrite to_list_Numpy. cbn [existsb prodZ fold_right].
      replace ((k - 0) * 1) with k by lia. replace (k - 0) with k by lia.
      destruct (k <? 0) eqn:Ek; [lia|]. cbn [orb]. unfold drop. replace (0 * 1) with 0 by lia. cbn [Z.to_nat skipn].
      rewrite zlen_take by lia. destruct (k <? k) eqn:E2; [lia|]. cbn [nest]. f_equal.
      rewrite <- map_take. f_equal.
      unfold take. rewrite !firstn_firstn. f_equal. lia.
    + cbn [clen]. lia.
  - (* ListOffset *)
    cbn [jag] in Hj. cbn [clen] in Hk. cbn [grange]. rewrite Hguard.
    rewrite to_list_ListOffset in Hl. apply bind_Ok in Hl as (vs0 & Hl0 & Hl). apply rmap_Ok in Hl as (ls & Hc & ->).
    unfold cut in Hc. destruct o as [|o0 o]; [discriminate|]. set (oo := o0 :: o) in *.
    assert (Hzo : zlen oo = clen (ListOffset w oo c') + 1) by (cbn [clen]; lia). cbn [clen] in Hzo.
    destruct (slice oo 0 (k + 1)) as [o'|] eqn:Es; [|rewrite slice_ok in Es by lia; discriminate].
    cbn [bind]. eexists. split; [reflexivity|]. repeat split.
    + exact Hj.
    + rewrite to_list_ListOffset, Hl0. cbn [bind]. unfold cut.
      pose proof (slice_zlen _ _ _ _ Es) as Hzo'.
      destruct o' as [|x o']; [cbn in Hzo'; lia|].
      pose proof (pairs_slice oo 0 k _ Es ltac:(lia)) as Hp.
      rewrite (mapM_slice _ _ _ 0 k _ Hc Hp). rewrite take_as_slice.
      * cbn [rmap]. now rewrite map_take.
      * rewrite (mapM_zlen _ _ _ Hc), zlen_pairs by discriminate. lia.
    + cbn [clen]. rewrite (slice_zlen _ _ _ _ Es). lia.
  - (* ListA *)
    cbn [jag] in Hj. cbn [clen] in Hk. cbn [grange]. rewrite Hguard.
    rewrite to_list_ListA in Hl. apply bind_Ok in Hl as (vs0 & Hl0 & Hl). apply rmap_Ok in Hl as (ls & Hc & ->).
    unfold cut2 in Hc. destruct (zlen e <? zlen s) eqn:E0; [discriminate|].
    rewrite !take_as_slice by lia. cbn [bind]. eexists. split; [reflexivity|]. repeat split.
    + exact Hj.
    + rewrite to_list_ListA, Hl0. cbn [bind]. unfold cut2. rewrite !zlen_take by lia.
      destruct (k <? k) eqn:E1; [lia|].
      assert (Hz : slice (zip s e) 0 k = Ok (zip (take k s) (take k e))).
      { rewrite take_as_slice by (rewrite zlen_zip; lia). f_equal. unfold take. apply firstn_zip. }
      rewrite (mapM_slice _ _ _ 0 k _ Hc Hz). rewrite take_as_slice.
      * cbn [rmap]. now rewrite map_take.
      * rewrite (mapM_zlen _ _ _ Hc), zlen_zip. lia.
    + cbn [clen]. rewrite zlen_take by lia. reflexivity.
  - (* IndexedOption *)
    cbn [jag] in Hj. cbn [clen] in Hk. cbn [grange]. rewrite Hguard.
    rewrite to_list_IndexedOption in Hl. apply bind_Ok in Hl as (vs0 & Hl0 & Hl).
    rewrite take_as_slice by lia. cbn [bind]. eexists. split; [reflexivity|]. repeat split.
    + exact Hj.
    + rewrite to_list_IndexedOption, Hl0. cbn [bind].
      rewrite (mapM_slice _ _ _ 0 k _ Hl (take_as_slice ix k ltac:(lia))). apply take_as_slice.
      rewrite (mapM_zlen _ _ _ Hl). lia.
    + cbn [clen]. rewrite zlen_take by lia. reflexivity.
Qed.

Lemma skipn_In' {A} (x : A) n : forall l, In x (skipn n l) -> In x l.
Proof. induction n as [|n IH]; intros [|a l]; cbn; try tauto. intros H. right. now apply IH. Qed.
Lemma slice_In {A} (l r : list A) a b x : slice l a b = Ok r -> In x r -> In x l.
Proof.
  intros Hs Hx. pose proof (slice_inv _ _ _ _ Hs). rewrite slice_ok in Hs by lia. inversion Hs; subst.
  unfold take, drop in Hx. apply firstn_In' in Hx. now apply skipn_In' in Hx.
Qed.

Lemma carry_jag c : forall vs ix,
  jag c = true -> to_list c = Ok vs -> Forall (fun i => 0 <= i < clen c) ix ->
  exists c', carry c ix = Ok c' /\ jag c' = true /\ to_list c' = mapM (get vs) ix /\
             type_of c' = type_of c /\ csize c' = csize c /\ clen c' = zlen ix /\
             is_option_node c' = is_option_node c /\ is_list_node c' = is_list_node c /\ is_numpy_node c' = is_numpy_node c.
Proof.
  intros vs ix Hj Hl Hix.
  destruct c as [dt shape data| |w o c'|w s e c'|c' size zl|w ix0 c'|w ix0 c'|m vw c'|m vw lsb n c'|c'|w t ix0 cs|cs ks n|arr rn c'];
    try discriminate.
  - (* Numpy *)
    destruct shape as [|n [|d ds]]; try discriminate. cbn [jag] in Hj.
    destruct (carry_numpy dt [n] data vs ix Hl Hix) as (c' & Hc & Hl' & Hn).
    exists c'. split; [exact Hc|]. cbn [carry] in Hc. apply bind_Ok in Hc as (rows & Hrows & Hc). inversion Hc; subst c'.
    repeat split; try assumption.
    cbn [jag]. apply forallb_forall. intros x Hx. apply in_concat in Hx as (r & Hr & Hx).
    destruct (mapM_In_inv _ _ _ _ Hrows Hr) as (i & _ & Hi).
    destruct ((0 <=? i) && (i <? n)); [|discriminate]. rewrite forallb_forall in Hj. apply Hj. eapply slice_In; eassumption.
  - (* ListOffset *)
    cbn [jag] in Hj.
    rewrite to_list_ListOffset in Hl. apply bind_Ok in Hl as (vs0 & Hl0 & Hl). apply rmap_Ok in Hl as (ls & Hc & ->).
    unfold cut in Hc. destruct o as [|a o]; [discriminate|]. set (oo := a :: o) in *.
    assert (Hne : oo <> []) by discriminate. cbn [clen] in Hix.
    destruct (gather_ok (removelast oo) ix) as [s Hs]; [rewrite zlen_removelast by exact Hne; exact Hix|].
    destruct (gather_ok (tl oo) ix) as [e He]; [rewrite zlen_tl by exact Hne; exact Hix|].
    cbn [carry]. unfold gather. rewrite Hs, He. cbn [bind]. eexists. split; [reflexivity|].
    pose proof (mapM_zlen _ _ _ Hs) as Hls. pose proof (mapM_zlen _ _ _ He) as Hle.
    repeat split; try exact Hj; try (cbn [clen]; exact Hls).
    rewrite to_list_ListA, Hl0. cbn [bind]. unfold cut2. destruct (zlen e <? zlen s) eqn:E; [lia|].
    rewrite gather_map. f_equal. rewrite pairs_zip in Hc.
    apply (mapM_gather_ok _ _ _ ix (zip s e) Hc). rewrite gather_zip, Hs, He. reflexivity.
  - (* ListA *)
    cbn [jag] in Hj.
    rewrite to_list_ListA in Hl. apply bind_Ok in Hl as (vs0 & Hl0 & Hl). apply rmap_Ok in Hl as (ls & Hc & ->).
    unfold cut2 in Hc. destruct (zlen e <? zlen s) eqn:E0; [discriminate|]. cbn [clen] in Hix.
    destruct (gather_ok s ix) as [s' Hs]; [exact Hix|].
    destruct (gather_ok e ix) as [e' He]; [eapply Forall_impl; [|exact Hix]; cbv beta; intros; lia|].
    cbn [carry]. unfold gather. rewrite Hs, He. cbn [bind]. eexists. split; [reflexivity|].
    pose proof (mapM_zlen _ _ _ Hs) as Hls. pose proof (mapM_zlen _ _ _ He) as Hle.
    repeat split; try exact Hj; try (cbn [clen]; exact Hls).
    rewrite to_list_ListA, Hl0. cbn [bind]. unfold cut2. destruct (zlen e' <? zlen s') eqn:E; [lia|].
    rewrite gather_map. f_equal.
    apply (mapM_gather_ok _ _ _ ix (zip s' e') Hc). rewrite gather_zip, Hs, He. reflexivity.
  - (* IndexedOption *)
    cbn [jag] in Hj.
    rewrite to_list_IndexedOption in Hl. apply bind_Ok in Hl as (vs0 & Hl0 & Hl). cbn [clen] in Hix.
    destruct (gather_ok ix0 ix Hix) as [j Hjx]. cbn [carry]. unfold gather. rewrite Hjx. cbn [bind].
    eexists. split; [reflexivity|]. repeat split; try exact Hj; try (cbn [clen]; apply (mapM_zlen _ _ _ Hjx)).
    rewrite to_list_IndexedOption, Hl0. cbn [bind]. apply (mapM_gather_ok _ _ _ ix j Hl Hjx).
Qed.

Lemma list_eqb_eq l m : list_eqb Z.eqb l m = true -> l = m.
Proof.
  revert m. induction l as [|x l IH]; intros [|y m]; cbn; try discriminate; [reflexivity|].
  intros H. apply andb_prop in H as [H1 H2]. apply Z.eqb_eq in H1. subst. f_equal. now apply IH.
Qed.
Lemma range0_iota k : range 0 k = iota k.
Proof. unfold range, iota. now rewrite Z.sub_0_r. Qed.
Lemma gather_prefix {A} (l : list A) k : 0 <= k <= zlen l -> mapM (get l) (iota k) = Ok (take k l).
Proof. intros H. rewrite <- range0_iota, gather_range by lia. now apply take_as_slice. Qed.

(* Content::carry with its identity short-cut *)
Lemma ccarry_jag c : forall vs ix,
  jag c = true -> to_list c = Ok vs -> Forall (fun i => 0 <= i < clen c) ix ->
  exists c', ccarry c ix = Ok c' /\ jag c' = true /\ to_list c' = mapM (get vs) ix /\
             type_of c' = type_of c /\ csize c' = csize c /\ clen c' = zlen ix /\
             is_option_node c' = is_option_node c /\ is_list_node c' = is_list_node c /\ is_numpy_node c' = is_numpy_node c.
Proof.
  intros vs ix Hj Hl Hix. unfold ccarry.
  destruct (list_eqb Z.eqb ix (iota (zlen ix))) eqn:E; [|now apply carry_jag].
  apply list_eqb_eq in E. pose proof (to_list_len _ _ Hl) as Hlen.
  assert (Hk : 0 <= zlen ix <= clen c).
  { split; [apply zlen_nonneg|]. destruct (Z.eq_dec (zlen ix) 0) as [->|Hne]; [rewrite <- Hlen; apply zlen_nonneg|].
    pose proof (zlen_nonneg ix).
    assert (Hin : In (zlen ix - 1) ix).
    { remember (zlen ix) as k eqn:Hkk. rewrite E. apply iota_In'. lia. }
    rewrite Forall_forall in Hix. specialize (Hix _ Hin). lia. }
  destruct (zlen ix =? clen c) eqn:Ec.
  - exists c. split; [reflexivity|]. repeat split; try assumption; try lia.
    rewrite E, gather_prefix by lia. rewrite take_all by lia. exact Hl.
  - destruct (grange0_jag c vs (zlen ix) Hj Hl Hk) as (c' & Hc & Hj' & Hl' & Ht & Hs & Hn & H1 & H2 & H3).
    exists c'. split; [exact Hc|]. repeat split; try assumption.
    rewrite Hl'. rewrite E at 2. rewrite gather_prefix by lia. reflexivity.
Qed.

(* ------------------------------------------------------------------ which branch of apply a pair of fragment inputs takes *)
Lemma jag_nodes c : jag c = true ->
  is_empty_node c = false /\ is_numpy_nd c = false /\ is_indexed_node c = false /\ is_union_node c = false /\
  is_record_node c = false /\ is_regular_node c = false /\
  (is_list_node c = true -> pl_isreg c = false) /\
  (is_numpy_node c = true \/ is_option_node c = true \/ is_list_node c = true).
Proof.
  destruct c as [dt shape data| |w o c'|w s e c'|c' size zl|w ix0 c'|w ix0 c'|m vw c'|m vw lsb n c'|c'|w t ix0 cs|cs ks n|arr rn c'];
    try discriminate; cbn [jag]; intros H; repeat split; try reflexivity; try discriminate; auto.
  - destruct shape as [|n [|d ds]]; try discriminate; reflexivity.
Qed.

Lemma jag_rcond c1 c2 : jag c1 = true -> jag c2 = true ->
  (let cs := [c1; c2] in
   let md := fold_right Z.max (-1) (map pl_depth cs) in
   existsb is_list_node cs && (0 <? md) && forallb pl_isreg cs && existsb (fun c => pl_depth c <? md) cs) = false.
Proof.
  intros H1 H2. cbv zeta. cbn [existsb forallb].
  destruct (jag_nodes c1 H1) as (_ & _ & _ & _ & _ & _ & R1 & _).
  destruct (jag_nodes c2 H2) as (_ & _ & _ & _ & _ & _ & R2 & _).
  destruct (is_list_node c1) eqn:L1; [rewrite (R1 eq_refl); cbn; now rewrite !andb_false_r|].
  destruct (is_list_node c2) eqn:L2; [rewrite (R2 eq_refl); cbn; now rewrite !andb_false_r|].
  reflexivity.
Qed.

Lemma reg_chain_jag c : jag c = true -> reg_chain c = None.
Proof. destruct c; try discriminate; reflexivity. Qed.
Lemma to_nparr_jag_other c : jag c = true -> is_numpy_node c = false -> to_nparr (MC c) = Ok None.
Proof.
  intros Hj Hn. unfold to_nparr, deregulate. rewrite (reg_chain_jag c Hj). cbn [bind].
  destruct c; try discriminate; reflexivity.
Qed.

Definition undz (d : datum) : Z := match d with DZ z => z | _ => 0 end.
Lemma datum_z_all l : forallb is_dz l = true -> mapM datum_z l = Ok (map undz l).
Proof.
  induction l as [|d l IH]; [reflexivity|]. cbn [forallb]. intros H. apply andb_prop in H as [Hd Hl].
  cbn [mapM map]. destruct d; try discriminate. cbn. now rewrite (IH Hl).
Qed.
Lemma forallb_firstn {A} (p : A -> bool) n l : forallb p l = true -> forallb p (firstn n l) = true.
Proof. intros H. apply forallb_forall. intros x Hx. rewrite forallb_forall in H. apply H. eapply firstn_In'; eassumption. Qed.

(* integer view of a 1-d leaf *)
Definition leaf_z (dt : dtype) (d : datum) : Z := if dt_isbool dt then b2z (negb (undz d =? 0)) else undz d.
Lemma to_nparr_jag_numpy dt n data :
  forallb is_dz data = true -> n <= zlen data ->
  to_nparr (MC (Numpy dt [n] data)) = Ok (Some (dt_isbool dt, ([n], map (leaf_z dt) (take n data)))).
Proof.
  intros Hd Hn. unfold to_nparr, deregulate. cbn [reg_chain bind prodZ fold_right].
  replace (n * 1) with n by lia. destruct (zlen data <? n) eqn:E; [lia|].
  rewrite datum_z_all by (unfold take; now apply forallb_firstn). cbn [bind]. rewrite map_map. reflexivity.
Qed.
