(** Slicing, part 1: characterising equations of the specification [sg] / model [gn] (Ops_Getitem),
    the list algebra of the range / integer steps, and the step lemmas at a list node
    (what one [IAt] / [IRange] item does to a ListOffset / ListArray / RegularArray, in the model and in
    the specification).  The refinement theorems are in Proofs_Getitem3.v. *)
From Coq Require Import ZArith List Bool Lia ZifyBool.
From AwkV Require Import Base Layout LayoutInd Valid Types AtAxis Carry Ops_Getitem Typing Proofs_Typing
                         Proofs_Lists Proofs_ToList Proofs_Carry Proofs_CarryValid Proofs_AtAxis Proofs_AtAxisOps
                         Proofs_C01.
Import ListNotations.
Open Scope Z_scope.
Ltac Zify.zify_post_hook ::= Z.to_euclidean_division_equations.

(* ---------------------------------------------------------------- the element step [se] of the specification,
   as a top-level function (in [sg] it is a local closure over the remaining fuel) *)
Definition se_ (fuel' : nat) (t : ty) (xs : list value) (items : list item) (adv : option (list Z)) : res (ty * list value) :=
        match items with
        | [] => Ok (t, xs)
        | head :: tail =>
            match head, so_ty t with
            | INewAxis, _ =>
                do r <- sg fuel' None None t (map (fun x => Some [x]) xs) (IAt 0 :: tail) adv;
                Ok (TList (Some 1) None (fst r), map (fun v => VList [v]) (snd r))
            | IEllipsis, TList _ None _ =>
                do lt <- list_elem_ty t;
                do ls <- mapM as_list xs;
                sg fuel' (str_of_ty t) (fst lt) (snd lt) ls items adv
            | IEllipsis, _ =>
                let (mn, mx) := minmax t in
                let d := dim_items tail in
                match tail with
                | [] => Ok (t, xs)
                | _ =>
                    if (mn - 1 =? d) && (mx - 1 =? d)
                    then sg fuel' None None t (map (fun x => Some [x]) xs) (IAt 0 :: tail) adv
                    else Err EValue
                end
            | IField k, _ =>
                do t' <- proj_ty k t; do ys <- mapM (proj_v k t) xs;
                sg fuel' None None t' (map (fun x => Some [x]) ys) (IAt 0 :: tail) adv
            | IFields ks, _ =>
                do t' <- projs_ty ks t; do ys <- mapM (projs_v ks t) xs;
                sg fuel' None None t' (map (fun x => Some [x]) ys) (IAt 0 :: tail) adv
            | _, TRec keys ts =>
                match head with
                | IField _ | IFields _ | IEllipsis | INewAxis => Err EValue
                | _ =>
                    let field (i : Z) (v : value) : res value :=
                      match v with
                      | VRec fs => do kv <- get fs i; Ok (snd kv)
                      | VTup vs => get vs i
                      | VNone => Ok VNone
                      | _ => Err EValue
                      end in
                    do cols <- (fix go (i : Z) (ts : list ty) : res (list (ty * list value)) :=
                                  match ts with
                                  | [] => Ok []
                                  | t1 :: ts' =>
                                      do col <- mapM (field i) xs;
                                      do r <- sg fuel' None None t1 (map (fun x => Some [x]) col) [IAt 0; head] adv;
                                      do rs <- go (i + 1) ts';
                                      Ok (r :: rs)
                                  end) 0 ts;
                    let n := zlen xs in
                    do recs <- mapM (fun j =>
                                       match get xs j with
                                       | Ok VNone => Ok VNone
                                       | _ =>
                                           do vs <- mapM (fun c : ty * list value => get (snd c) j) cols;
                                           Ok (match keys with Some ks => VRec (zip ks vs) | None => VTup vs end)
                                       end) (iota n);
                    match tail with
                    | [] => Ok (TRec keys (map fst cols), recs)
                    | _ => sg fuel' None None (TRec keys (map fst cols)) (map (fun r => Some [r]) recs) (IAt 0 :: tail) adv
                    end
                end
            | _, _ =>
                do lt <- list_elem_ty t;
                do ls <- mapM as_list xs;
                sg fuel' (str_of_ty t) (fst lt) (snd lt) ls items adv
            end
        end.

Definition szchk (sz : option Z) (i : Z) : res unit :=
  match sz with Some n => rmap (fun _ => tt) (wrap_at n i) | None => Ok tt end.
Definition present (lists : list (option (list value))) : list (list value) :=
  flat_map (fun o : option (list value) => match o with Some l => [l] | None => [] end) lists.
Definition pick_range (a b : option Z) (step : Z) (o : option (list value)) : res (option (list value)) :=
  match o with
  | None => Ok None
  | Some l => rmap Some (mapM (get l) (py_indices (zlen l) a b step))
  end.
Definition regrouped (str : option bool) (picked : list (option (list value))) (groups : list (list value)) : list value :=
  map (fun og : option (list value) * list value =>
         match fst og with Some _ => mk_list str (snd og) | None => VNone end) (zip picked groups).
Definition adv_range (adv : option (list Z)) (counts : list Z) : option (list Z) :=
  match adv with
  | None => None
  | Some av => Some (concat (map (fun ac : Z * Z => repeat (fst ac) (Z.to_nat (snd ac))) (zip av counts)))
  end.

(* ---------------------------------------------------------------- characterising equations of [sg] *)
Lemma sg_0 str sz t lists items adv : sg 0 str sz t lists items adv = Err EFuel.
Proof. reflexivity. Qed.
Lemma sg_nil f str sz t lists adv :
  sg (S f) str sz t lists [] adv =
  Ok (TList sz str t, map (fun o => match o with Some l => mk_list str l | None => VNone end) lists).
Proof. reflexivity. Qed.
Definition has_none (lists : list (option (list value))) : bool :=
  existsb (fun o : option (list value) => match o with None => true | Some _ => false end) lists.
Definition has_array (items : list item) : bool :=
  existsb (fun it => match it with IArray _ => true | _ => false end) items.
(* (the first test: a missing list, an integer, and an index array still to come: left unspecified) *)
Lemma sg_IAt_gen f str sz t lists i tail adv :
  sg (S f) str sz t lists (IAt i :: tail) adv =
  if (match adv with None => true | Some _ => false end) && has_none lists && has_array tail then Err EFuel else
  do _ <- szchk sz i;
  do xs <- mapM (fun l => do j <- wrap_at (zlen l) i; get l j) (present lists);
  do r <- se_ f t xs tail (present_adv lists adv);
  Ok (fst r, reinsert lists (snd r)).
Proof. reflexivity. Qed.
Lemma sg_IAt f str sz t lists i tail adv :
  has_none lists && has_array tail = false ->
  sg (S f) str sz t lists (IAt i :: tail) adv =
  do _ <- szchk sz i;
  do xs <- mapM (fun l => do j <- wrap_at (zlen l) i; get l j) (present lists);
  do r <- se_ f t xs tail (present_adv lists adv);
  Ok (fst r, reinsert lists (snd r)).
Proof.
  intros H. rewrite sg_IAt_gen. rewrite <- andb_assoc, H, andb_false_r. reflexivity.
Qed.
Lemma has_none_somes ls : has_none (map Some ls) = false.
Proof. unfold has_none. induction ls as [|l ls IH]; [reflexivity|]. cbn [map existsb]. exact IH. Qed.
Lemma sg_IRange f str sz t lists a b s tail adv :
  sg (S f) str sz t lists (IRange a b s :: tail) adv =
  let step := stepof s in
  if step =? 0 then Err EValue else
  do picked <- mapM (pick_range a b step) lists;
  let counts := map (fun o => zlen (unopt o)) picked in
  do r <- se_ f t (concat (map unopt picked)) tail (adv_range adv counts);
  Ok (TList None str (fst r), regrouped str picked (regroup counts (snd r))).
Proof. reflexivity. Qed.
Lemma sg_INewAxis f str sz t lists tail adv :
  sg (S f) str sz t lists (INewAxis :: tail) adv =
  do r <- sg f str sz t lists tail adv;
  Ok (TList (Some 1) None (fst r), map (fun v => VList [v]) (snd r)).
Proof. reflexivity. Qed.
Lemma sg_IEllipsis f str sz t lists tail adv :
  sg (S f) str sz t lists (IEllipsis :: tail) adv =
  let (mn, mx) := minmax t in
  let d := dim_items tail in
  match tail with
  | [] => sg f str sz t lists [] adv
  | _ =>
      if (mn =? d) && (mx =? d) then sg f str sz t lists tail adv
      else if (mn =? d) || (mx =? d) then Err EValue
      else sg f str sz t lists (IRange None None (Some 1) :: IEllipsis :: tail) adv
  end.
Proof. reflexivity. Qed.
Lemma sg_IField f str sz t lists k tail adv :
  sg (S f) str sz t lists (IField k :: tail) adv =
  do t' <- proj_ty k t;
  do ls <- mapM (fun o => match o with
                          | None => Ok None
                          | Some l => rmap Some (mapM (proj_v k t) l)
                          end) lists;
  sg f None sz t' ls tail adv.
Proof. reflexivity. Qed.
Lemma sg_IFields f str sz t lists ks tail adv :
  sg (S f) str sz t lists (IFields ks :: tail) adv =
  do t' <- projs_ty ks t;
  do ls <- mapM (fun o => match o with
                          | None => Ok None
                          | Some l => rmap Some (mapM (projs_v ks t) l)
                          end) lists;
  sg f None sz t' ls tail adv.
Proof. reflexivity. Qed.

(* [se]: nothing left; a positional item in front of a non-record element type goes one list level down *)
Definition positional (it : item) : bool :=
  match it with IAt _ | IRange _ _ _ | IArray _ => true | _ => false end.
Definition is_rec (t : ty) : bool := match so_ty t with TRec _ _ => true | _ => false end.
Lemma se_nil f t xs adv : se_ f t xs [] adv = Ok (t, xs).
Proof. reflexivity. Qed.
Lemma se_down f t xs head tail adv :
  positional head = true -> is_rec t = false ->
  se_ f t xs (head :: tail) adv =
  do lt <- list_elem_ty t;
  do ls <- mapM as_list xs;
  sg f (str_of_ty t) (fst lt) (snd lt) ls (head :: tail) adv.
Proof.
  unfold is_rec. intros Hp Hr. unfold se_.
  destruct head; try discriminate; destruct (so_ty t); try discriminate; reflexivity.
Qed.
Lemma se_INewAxis f t xs tail adv :
  se_ f t xs (INewAxis :: tail) adv =
  do r <- sg f None None t (map (fun x => Some [x]) xs) (IAt 0 :: tail) adv;
  Ok (TList (Some 1) None (fst r), map (fun v => VList [v]) (snd r)).
Proof. unfold se_. destruct (so_ty t); reflexivity. Qed.

(* ---------------------------------------------------------------- characterising equations of [gn] *)
Definition lnode (c : content) : bool :=
  match c with ListOffset _ _ _ | ListA _ _ _ _ | Regular _ _ _ => true | _ => false end.
Definition rsize (c : content) : option Z := match c with Regular _ size _ => Some size | _ => None end.

Lemma gn_0 c items adv : gn 0 c items adv = Err EFuel.
Proof. reflexivity. Qed.
Lemma gn_nil f c adv : gn (S f) c [] adv = Ok c.
Proof. reflexivity. Qed.
Lemma gn_list_IAt f c i tail adv : lnode c = true ->
  gn (S f) c (IAt i :: tail) adv =
  do bc <- list_bounds c;
  do _ <- szchk (rsize c) i;
  do nextcarry <- mapM (fun ab : Z * Z => do j <- wrap_at (snd ab - fst ab) i; Ok (fst ab + j)) (fst bc);
  do nc <- carry (snd bc) nextcarry;
  gn f nc tail adv.
Proof. destruct c; try discriminate; intros _; reflexivity. Qed.
Lemma gn_list_IRange f c s e st tail adv : lnode c = true ->
  gn (S f) c (IRange s e st :: tail) adv =
  do bc <- list_bounds c;
  let step := stepof st in
  if step =? 0 then Err EValue else
  let picked := map (fun ab : Z * Z => map (fun j => fst ab + j) (py_indices (snd ab - fst ab) s e step)) (fst bc) in
  let counts := map zlen picked in
  do nc <- carry (snd bc) (concat picked);
  do r <- gn f nc tail (adv_range adv counts);
  Ok (ListOffset I64 (offsets_from 0 counts) r).
Proof. destruct c; try discriminate; intros _; reflexivity. Qed.
Lemma gn_INewAxis f c tail adv :
  match c with Numpy _ (_ :: _ :: _) _ => False | _ => True end ->
  gn (S f) c (INewAxis :: tail) adv = do r <- gn f c tail adv; Ok (Regular r 1 (clen r)).
Proof. destruct c as [dt [|n [|m sh]] data| | | | | | | | | | | |]; try contradiction; intros _; reflexivity. Qed.
Lemma gn_IEllipsis f c tail adv :
  match c with Numpy _ (_ :: _ :: _) _ => False | _ => True end ->
  gn (S f) c (IEllipsis :: tail) adv =
  let (mn, mx) := minmax (type_of c) in
  let d := dim_items tail in
  match tail with
  | [] => Ok c
  | _ =>
      if (mn - 1 =? d) && (mx - 1 =? d) then gn f c tail adv
      else if (mn - 1 =? d) || (mx - 1 =? d) then Err EValue
      else gn f c (IRange None None (Some 1) :: IEllipsis :: tail) adv
  end.
Proof. destruct c as [dt [|n [|m sh]] data| | | | | | | | | | | |]; try contradiction; intros _; reflexivity. Qed.
Lemma gn_numpy1 f dt n data head tail adv :
  positional head = true ->
  gn (S f) (Numpy dt [n] data) (head :: tail) adv = Err EValue.
Proof. destruct head; try discriminate; intros _; reflexivity. Qed.
Lemma gn_empty f head tail adv :
  positional head = true ->
  gn (S f) Empty (head :: tail) adv = Err EValue.
Proof. destruct head; try discriminate; intros _; reflexivity. Qed.
Lemma gn_Indexed f w ix c head tail adv :
  positional head = true ->
  gn (S f) (Indexed w ix c) (head :: tail) adv = do p <- carry c ix; gn f p (head :: tail) adv.
Proof. destruct head; try discriminate; intros _; reflexivity. Qed.
Lemma gn_Par f a rn c head tail adv :
  positional head = true ->
  gn (S f) (Par a rn c) (head :: tail) adv =
  do r <- gn f c (head :: tail) adv;
  match head, tail, strflag a with
  | (IRange _ _ _ | IArray _), [], Some _ => Ok (Par a rn r)
  | _, _, _ => Ok r
  end.
Proof. destruct head; try discriminate; intros _; reflexivity. Qed.

Definition is_opt (c : content) : bool :=
  match c with IndexedOption _ _ _ | ByteMasked _ _ _ | BitMasked _ _ _ _ _ | Unmasked _ => true | _ => false end.
Definition opt_content (c : content) : content :=
  match c with
  | IndexedOption _ _ c' | ByteMasked _ _ c' | BitMasked _ _ _ _ c' | Unmasked c' => c'
  | _ => c
  end.
Fixpoint outindex (ix : list Z) (n : Z) : list Z :=
  match ix with
  | [] => []
  | i :: rest => if 0 <=? i then n :: outindex rest (n + 1) else -1 :: outindex rest n
  end.
Definition adv_present (adv : option (list Z)) (ix : list Z) : option (list Z) :=
  match adv with
  | None => None
  | Some av => Some (flat_map (fun ia : Z * Z => if 0 <=? fst ia then [snd ia] else []) (zip ix av))
  end.
Lemma gn_option f c head tail adv :
  positional head = true -> is_opt c = true ->
  gn (S f) c (head :: tail) adv =
  do oi <- option_index c;
  let ix := fst oi in
  do p <- carry (opt_content c) (filter (fun i => 0 <=? i) ix);
  do r <- gn f p (head :: tail) (adv_present adv ix);
  Ok (IndexedOption I64 (outindex ix 0) r).
Proof. destruct head; try discriminate; destruct c; try discriminate; intros _ _; reflexivity. Qed.

(* ---------------------------------------------------------------- small list algebra *)
Lemma present_somes ls : present (map Some ls) = ls.
Proof. unfold present. induction ls as [|l ls IH]; [reflexivity|]. cbn [map flat_map app]. rewrite IH. reflexivity. Qed.
Lemma reinsert_somes ls rs : length rs = length ls -> reinsert (map Some ls) rs = rs.
Proof.
  revert rs. induction ls as [|l ls IH]; intros [|r rs] H; try discriminate; [reflexivity|].
  cbn [map reinsert]. rewrite IH by (cbn in H; lia). reflexivity.
Qed.
Lemma as_list_lists ls : mapM as_list (map VList ls) = Ok (map Some ls).
Proof. rewrite mapM_map. cbn [as_list]. rewrite mapM_pure. reflexivity. Qed.

Lemma sumZ_cons n ns : sumZ (n :: ns) = n + sumZ ns.
Proof. reflexivity. Qed.
Lemma sumZ_nonneg ns : Forall (fun n => 0 <= n) ns -> 0 <= sumZ ns.
Proof. induction 1; [cbn; lia|]. rewrite sumZ_cons. lia. Qed.
Lemma zlen_concat {A} (ls : list (list A)) : zlen (concat ls) = sumZ (map zlen ls).
Proof. induction ls as [|l ls IH]; [reflexivity|]. cbn [concat map]. rewrite zlen_app, sumZ_cons, IH. reflexivity. Qed.

Lemma regroup_length {A} counts (ws : list A) : length (regroup counts ws) = length counts.
Proof. revert ws. induction counts as [|n ns IH]; intros ws; [reflexivity|]. cbn [regroup length]. rewrite IH. reflexivity. Qed.
Lemma regroup_concat {A} counts : forall ws : list A,
  Forall (fun n => 0 <= n) counts -> zlen ws = sumZ counts ->
  concat (regroup counts ws) = ws /\ map zlen (regroup counts ws) = counts.
Proof.
  induction counts as [|n ns IH]; intros ws Hc Hl.
  - cbn in Hl. apply zlen_0_nil in Hl. subst. split; reflexivity.
  - inversion Hc as [|? ? Hn Hns]; subst. rewrite sumZ_cons in Hl. pose proof (sumZ_nonneg ns Hns).
    destruct (IH (drop n ws) Hns) as [H1 H2]; [rewrite zlen_drop; lia|].
    cbn [regroup concat map]. rewrite H1, H2, take_drop_id, zlen_take by lia. split; reflexivity.
Qed.
Lemma cut_regroup {A} counts (ws : list A) :
  Forall (fun n => 0 <= n) counts -> zlen ws = sumZ counts ->
  cut ws (offsets_from 0 counts) = Ok (regroup counts ws).
Proof.
  intros Hc Hl. destruct (regroup_concat counts ws Hc Hl) as [H1 H2].
  rewrite <- H1 at 1. apply cut_concat_lens. symmetry. exact H2.
Qed.
Lemma regrouped_somes pk gs : length gs = length pk -> regrouped None (map Some pk) gs = map VList gs.
Proof.
  unfold regrouped. revert gs. induction pk as [|p pk IH]; intros [|g gs] H; try discriminate; [reflexivity|].
  cbn [map zip fst snd mk_list]. f_equal. apply IH. cbn in H. lia.
Qed.
Lemma map_zlen_nonneg {A} (ls : list (list A)) : Forall (fun n => 0 <= n) (map zlen ls).
Proof. apply Forall_forall. intros n Hn. apply in_map_iff in Hn as (l & <- & _). apply zlen_nonneg. Qed.

(* two mapM's running in parallel over a cut: same error or related results *)
Lemma mapM_cut_rel {A B C} (P : A -> res B) (Fm : A -> res C) (Fs : B -> res C) bs ls :
  mapM P bs = Ok ls ->
  (forall ab l, In ab bs -> P ab = Ok l -> Fs l = Fm ab) ->
  mapM Fs ls = mapM Fm bs.
Proof.
  revert ls. induction bs as [|ab bs IH]; intros ls Hm H; cbn [mapM] in Hm.
  - inversion Hm. reflexivity.
  - apply bind_Ok in Hm as (l & Hl & Hm). apply bind_Ok in Hm as (ls' & Hls' & Hm). inversion Hm; subst.
    cbn [mapM]. rewrite (H ab l (or_introl eq_refl) Hl), (IH ls' Hls'); [reflexivity|].
    intros ab' l' Hin. apply H. right. exact Hin.
Qed.

(* ---------------------------------------------------------------- [carry] keeps the type *)
Lemma carry_type_of_p c : forall p ix c', carry c ix = Ok c' -> type_of_p p c' = type_of_p p c.
Proof.
  induction c as [dt shape data| |w o c IHc|w s e c IHc|c size zl IHc|w ix0 c IHc|w ix0 c IHc|m vw c IHc
                 |m vw lsb n c IHc|c IHc|w t ix0 cs IHcs|cs ks n IHcs|arr rn c IHc] using content_ind';
    intros p ix c' H.
  - cbn [carry] in H. destruct shape as [|n dims]; [discriminate|]. apply bind_Ok in H as (rows & _ & H). inversion H. reflexivity.
  - cbn [carry] in H. destruct ix; [|discriminate]. inversion H. reflexivity.
  - cbn [carry] in H. apply bind_Ok in H as (s & _ & H). apply bind_Ok in H as (e & _ & H). inversion H. reflexivity.
  - cbn [carry] in H. apply bind_Ok in H as (s' & _ & H). apply bind_Ok in H as (e' & _ & H). inversion H. reflexivity.
  - cbn [carry] in H. apply bind_Ok in H as (nx & _ & H). apply bind_Ok in H as (c'' & Hc & H). inversion H.
    cbn [type_of_p]. rewrite (IHc None _ _ Hc). reflexivity.
  - cbn [carry] in H. apply bind_Ok in H as (j & _ & H). inversion H. reflexivity.
  - cbn [carry] in H. apply bind_Ok in H as (j & _ & H). inversion H. reflexivity.
  - cbn [carry] in H. apply bind_Ok in H as (m' & _ & H). apply bind_Ok in H as (c'' & Hc & H). inversion H.
    cbn [type_of_p]. rewrite (IHc None _ _ Hc). reflexivity.
  - cbn [carry] in H. apply bind_Ok in H as (bm & _ & H). apply bind_Ok in H as (m' & _ & H).
    apply bind_Ok in H as (c'' & Hc & H). inversion H. cbn [type_of_p]. rewrite (IHc None _ _ Hc). reflexivity.
  - cbn [carry] in H. apply bind_Ok in H as (c'' & Hc & H). inversion H. cbn [type_of_p]. rewrite (IHc None _ _ Hc). reflexivity.
  - cbn [carry] in H. apply bind_Ok in H as (t' & _ & H). apply bind_Ok in H as (j & _ & H). inversion H. reflexivity.
  - rewrite carry_Record in H. destruct (forallb _ ix); [|discriminate]. apply bind_Ok in H as (cs' & Hcs & H). inversion H.
    cbn [type_of_p]. f_equal. clear H H1. revert cs' Hcs. induction IHcs as [|x xs Hx _ IH]; intros cs' Hcs; cbn [mapM] in Hcs.
    + inversion Hcs. reflexivity.
    + apply bind_Ok in Hcs as (y & Hy & Hcs). apply bind_Ok in Hcs as (ys & Hys & Hcs). inversion Hcs; subst.
      cbn [map]. rewrite (Hx None _ _ Hy), (IH _ Hys). reflexivity.
  - rewrite carry_Par in H. apply bind_Ok in H as (c'' & Hc & H). inversion H. cbn [type_of_p]. apply (IHc arr _ _ Hc).
Qed.
Lemma carry_type_of c ix c' : carry c ix = Ok c' -> type_of c' = type_of c.
Proof. apply carry_type_of_p. Qed.

(* ---------------------------------------------------------------- the view of a list node *)
Lemma lnode_view c xs :
  Valid None c -> lnode c = true -> to_list c = Ok xs ->
  exists bs cc vs0 ls,
    list_bounds c = Ok (bs, cc) /\ Valid None cc /\ to_list cc = Ok vs0 /\ mapM (cut1 vs0) bs = Ok ls /\
    xs = map VList ls /\ type_of c = TList (rsize c) None (type_of cc).
Proof.
  intros HV Hn Hl.
  assert (Hc : exists cc, list_content c = Some cc /\ Valid None cc /\ type_of c = TList (rsize c) None (type_of cc)).
  { destruct c; try discriminate; inversion HV; subst; eexists; (split; [reflexivity|]); split; auto; reflexivity. }
  destruct Hc as (cc & Hc & HVc & Ht).
  destruct (list_bounds_spec c cc xs Hc Hl) as (bs & vs0 & ls & Hb & Hl0 & Hcut & ->).
  exists bs, cc, vs0, ls. repeat split; assumption.
Qed.

Lemma mapM_bind_total {A B C} (F : A -> res B) (G : B -> res C) l :
  (forall x k, In x l -> F x = Ok k -> exists y, G k = Ok y) ->
  mapM (fun x => do k <- F x; G k) l = do ks <- mapM F l; mapM G ks.
Proof.
  induction l as [|x l IH]; intros H; [reflexivity|]. cbn [mapM].
  rewrite IH by (intros y k Hy; apply H; right; exact Hy).
  destruct (F x) as [k|e] eqn:Ek; cbn [bind]; [|reflexivity].
  destruct (H x k (or_introl eq_refl) Ek) as [y Hy]. rewrite Hy. cbn [bind].
  destruct (mapM F l) as [ks|e]; cbn [bind mapM]; [|reflexivity]. rewrite Hy. reflexivity.
Qed.

(* ---------------------------------------------------------------- integer item at a list node *)
Definition at_model (i : Z) (ab : Z * Z) : res Z := do j <- wrap_at (snd ab - fst ab) i; Ok (fst ab + j).
Definition at_spec (i : Z) (l : list value) : res value := do j <- wrap_at (zlen l) i; get l j.

Lemma wrap_at_range n i j : wrap_at n i = Ok j -> 0 <= j < n.
Proof. intros H. apply wrap_at_spec in H. lia. Qed.

Lemma at_pointwise (vs0 : list value) i ab l :
  cut1 vs0 ab = Ok l ->
  at_spec i l = (do k <- at_model i ab; get vs0 k) /\
  (forall k, at_model i ab = Ok k -> 0 <= k < zlen vs0).
Proof.
  intros Hc. pose proof (cut1_zlen _ _ _ Hc) as Hz. unfold at_spec, at_model. rewrite Hz.
  destruct ab as [a b]. cbn [fst snd] in *. unfold cut1 in Hc.
  destruct (wrap_at (b - a) i) as [j|e] eqn:Ew; cbn [bind]; [|split; [reflexivity|discriminate]].
  apply wrap_at_range in Ew. destruct (a =? b) eqn:E; [lia|].
  pose proof (slice_inv _ _ _ _ Hc) as (H1 & H2 & H3 & _). split.
  - apply (get_slice _ _ _ _ _ Hc). lia.
  - intros k Hk. inversion Hk. lia.
Qed.

Lemma at_step (vs0 : list value) bs ls i :
  mapM (cut1 vs0) bs = Ok ls ->
  mapM (at_spec i) ls = (do ks <- mapM (at_model i) bs; mapM (get vs0) ks) /\
  (forall ks, mapM (at_model i) bs = Ok ks -> Forall (fun k => 0 <= k < zlen vs0) ks).
Proof.
  intros Hcut. split.
  - rewrite <- mapM_bind_total.
    + apply (mapM_cut_rel _ _ _ _ _ Hcut). intros ab l Hin Hc. apply (at_pointwise vs0 i ab l Hc).
    + intros ab k Hin Hk. destruct (mapM_Ok_In _ _ _ _ Hcut Hin) as (l & Hc & _).
      apply get_ok. apply (at_pointwise vs0 i ab l Hc). exact Hk.
  - intros ks Hks. apply Forall_forall. intros k Hk. destruct (mapM_In_inv _ _ _ _ Hks Hk) as (ab & Hin & Hab).
    destruct (mapM_Ok_In _ _ _ _ Hcut Hin) as (l & Hc & _). apply (at_pointwise vs0 i ab l Hc). exact Hab.
Qed.

(* ---------------------------------------------------------------- range item at a list node *)
Definition rng_model (a b : option Z) (step : Z) (ab : Z * Z) : list Z :=
  map (fun j => fst ab + j) (py_indices (snd ab - fst ab) a b step).

Lemma rng_pointwise (vs0 : list value) a b step ab l :
  step <> 0 -> cut1 vs0 ab = Ok l ->
  mapM (get l) (py_indices (zlen l) a b step) = mapM (get vs0) (rng_model a b step ab) /\
  Forall (fun k => 0 <= k < zlen vs0) (rng_model a b step ab).
Proof.
  intros Hs Hc. pose proof (cut1_zlen _ _ _ Hc) as Hz. unfold rng_model. rewrite Hz.
  destruct ab as [lo hi]. cbn [fst snd] in *. unfold cut1 in Hc. pose proof (zlen_nonneg l) as Hn.
  assert (Hin : forall j, In j (py_indices (hi - lo) a b step) -> 0 <= j < hi - lo).
  { intros j Hj. apply (py_indices_in_range (hi - lo) a b step j); [lia|exact Hs|exact Hj]. }
  split.
  - rewrite mapM_map. apply mapM_ext_in. intros j Hj. specialize (Hin j Hj).
    destruct (lo =? hi) eqn:E; [lia|]. apply (get_slice _ _ _ _ _ Hc). lia.
  - apply Forall_forall. intros k Hk. apply in_map_iff in Hk as (j & <- & Hj). specialize (Hin j Hj).
    destruct (lo =? hi) eqn:E; [lia|]. pose proof (slice_inv _ _ _ _ Hc) as (H1 & H2 & H3 & _). lia.
Qed.

Lemma rng_step (vs0 : list value) bs ls a b step :
  step <> 0 -> mapM (cut1 vs0) bs = Ok ls ->
  exists pk,
    mapM (mapM (get vs0)) (map (rng_model a b step) bs) = Ok pk /\
    mapM (pick_range a b step) (map Some ls) = Ok (map Some pk) /\
    Forall (fun k => 0 <= k < zlen vs0) (concat (map (rng_model a b step) bs)) /\
    zlen pk = zlen ls.
Proof.
  intros Hs Hcut.
  destruct (mapM_total (mapM (get vs0)) (map (rng_model a b step) bs)) as [pk Hpk].
  { intros ks Hks. apply in_map_iff in Hks as (ab & <- & Hin). destruct (mapM_Ok_In _ _ _ _ Hcut Hin) as (l & Hc & _).
    apply gather_ok. apply (rng_pointwise vs0 a b step ab l Hs Hc). }
  exists pk. split; [exact Hpk|]. split; [|split].
  - rewrite mapM_map. cbn [pick_range]. rewrite mapM_rmap.
    rewrite (mapM_cut_rel _ (fun ab => mapM (get vs0) (rng_model a b step ab)) _ _ _ Hcut).
    + rewrite <- mapM_map, Hpk. reflexivity.
    + intros ab l _ Hc. apply (rng_pointwise vs0 a b step ab l Hs Hc).
  - apply Forall_forall. intros k Hk. apply in_concat in Hk as (ks & Hks & Hk). apply in_map_iff in Hks as (ab & <- & Hin).
    destruct (mapM_Ok_In _ _ _ _ Hcut Hin) as (l & Hc & _).
    destruct (rng_pointwise vs0 a b step ab l Hs Hc) as [_ HF]. rewrite Forall_forall in HF. apply HF, Hk.
  - rewrite (mapM_zlen _ _ _ Hpk), zlen_map. symmetry. apply (mapM_zlen _ _ _ Hcut).
Qed.

(* the value of the regrouped result *)
Lemma to_list_regroup r ws counts :
  to_list r = Ok ws -> Forall (fun n => 0 <= n) counts -> zlen ws = sumZ counts ->
  to_list (ListOffset I64 (offsets_from 0 counts) r) = Ok (map VList (regroup counts ws)).
Proof. intros Hl Hc Hz. rewrite to_list_ListOffset, Hl. cbn [bind]. rewrite (cut_regroup counts ws Hc Hz). reflexivity. Qed.
