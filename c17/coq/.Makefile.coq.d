Json.vo Json.glob Json.v.beautified Json.required_vo: Json.v /verif/coq/Base.vo
Json.vio: Json.v /verif/coq/Base.vio
Json.vos Json.vok Json.required_vos: Json.v /verif/coq/Base.vos
Forms.vo Forms.glob Forms.v.beautified Forms.required_vo: Forms.v /verif/coq/Base.vo /verif/coq/Layout.vo /verif/coq/Valid.vo /verif/coq/Types.vo Json.vo
Forms.vio: Forms.v /verif/coq/Base.vio /verif/coq/Layout.vio /verif/coq/Valid.vio /verif/coq/Types.vio Json.vio
Forms.vos Forms.vok Forms.required_vos: Forms.v /verif/coq/Base.vos /verif/coq/Layout.vos /verif/coq/Valid.vos /verif/coq/Types.vos Json.vos
TypeStr.vo TypeStr.glob TypeStr.v.beautified TypeStr.required_vo: TypeStr.v /verif/coq/Base.vo /verif/coq/Layout.vo /verif/coq/Valid.vo /verif/coq/Types.vo Json.vo Forms.vo
TypeStr.vio: TypeStr.v /verif/coq/Base.vio /verif/coq/Layout.vio /verif/coq/Valid.vio /verif/coq/Types.vio Json.vio Forms.vio
TypeStr.vos TypeStr.vok TypeStr.required_vos: TypeStr.v /verif/coq/Base.vos /verif/coq/Layout.vos /verif/coq/Valid.vos /verif/coq/Types.vos Json.vos Forms.vos
Typing.vo Typing.glob Typing.v.beautified Typing.required_vo: Typing.v /verif/coq/Base.vo /verif/coq/Layout.vo /verif/coq/Valid.vo /verif/coq/Types.vo Json.vo Forms.vo
Typing.vio: Typing.v /verif/coq/Base.vio /verif/coq/Layout.vio /verif/coq/Valid.vio /verif/coq/Types.vio Json.vio Forms.vio
Typing.vos Typing.vok Typing.required_vos: Typing.v /verif/coq/Base.vos /verif/coq/Layout.vos /verif/coq/Valid.vos /verif/coq/Types.vos Json.vos Forms.vos
Proofs_Depth.vo Proofs_Depth.glob Proofs_Depth.v.beautified Proofs_Depth.required_vo: Proofs_Depth.v /verif/coq/Base.vo /verif/coq/Layout.vo /verif/coq/LayoutInd.vo /verif/coq/Valid.vo /verif/coq/Types.vo Json.vo Forms.vo
Proofs_Depth.vio: Proofs_Depth.v /verif/coq/Base.vio /verif/coq/Layout.vio /verif/coq/LayoutInd.vio /verif/coq/Valid.vio /verif/coq/Types.vio Json.vio Forms.vio
Proofs_Depth.vos Proofs_Depth.vok Proofs_Depth.required_vos: Proofs_Depth.v /verif/coq/Base.vos /verif/coq/Layout.vos /verif/coq/LayoutInd.vos /verif/coq/Valid.vos /verif/coq/Types.vos Json.vos Forms.vos
Proofs_Types.vo Proofs_Types.glob Proofs_Types.v.beautified Proofs_Types.required_vo: Proofs_Types.v /verif/coq/Base.vo /verif/coq/Layout.vo /verif/coq/LayoutInd.vo /verif/coq/Valid.vo /verif/coq/Types.vo /verif/coq/Carry.vo Json.vo Forms.vo TypeStr.vo Proofs_Depth.vo
Proofs_Types.vio: Proofs_Types.v /verif/coq/Base.vio /verif/coq/Layout.vio /verif/coq/LayoutInd.vio /verif/coq/Valid.vio /verif/coq/Types.vio /verif/coq/Carry.vio Json.vio Forms.vio TypeStr.vio Proofs_Depth.vio
Proofs_Types.vos Proofs_Types.vok Proofs_Types.required_vos: Proofs_Types.v /verif/coq/Base.vos /verif/coq/Layout.vos /verif/coq/LayoutInd.vos /verif/coq/Valid.vos /verif/coq/Types.vos /verif/coq/Carry.vos Json.vos Forms.vos TypeStr.vos Proofs_Depth.vos
Proofs_Typing.vo Proofs_Typing.glob Proofs_Typing.v.beautified Proofs_Typing.required_vo: Proofs_Typing.v /verif/coq/Base.vo /verif/coq/Layout.vo /verif/coq/LayoutInd.vo /verif/coq/Valid.vo /verif/coq/Types.vo Json.vo Forms.vo Typing.vo Proofs_Depth.vo
Proofs_Typing.vio: Proofs_Typing.v /verif/coq/Base.vio /verif/coq/Layout.vio /verif/coq/LayoutInd.vio /verif/coq/Valid.vio /verif/coq/Types.vio Json.vio Forms.vio Typing.vio Proofs_Depth.vio
Proofs_Typing.vos Proofs_Typing.vok Proofs_Typing.required_vos: Proofs_Typing.v /verif/coq/Base.vos /verif/coq/Layout.vos /verif/coq/LayoutInd.vos /verif/coq/Valid.vos /verif/coq/Types.vos Json.vos Forms.vos Typing.vos Proofs_Depth.vos
Proofs_Json.vo Proofs_Json.glob Proofs_Json.v.beautified Proofs_Json.required_vo: Proofs_Json.v /verif/coq/Base.vo /verif/coq/Layout.vo Json.vo Forms.vo
Proofs_Json.vio: Proofs_Json.v /verif/coq/Base.vio /verif/coq/Layout.vio Json.vio Forms.vio
Proofs_Json.vos Proofs_Json.vok Proofs_Json.required_vos: Proofs_Json.v /verif/coq/Base.vos /verif/coq/Layout.vos Json.vos Forms.vos
Proofs_Parse.vo Proofs_Parse.glob Proofs_Parse.v.beautified Proofs_Parse.required_vo: Proofs_Parse.v /verif/coq/Base.vo /verif/coq/Layout.vo Json.vo Forms.vo TypeStr.vo Proofs_Json.vo
Proofs_Parse.vio: Proofs_Parse.v /verif/coq/Base.vio /verif/coq/Layout.vio Json.vio Forms.vio TypeStr.vio Proofs_Json.vio
Proofs_Parse.vos Proofs_Parse.vok Proofs_Parse.required_vos: Proofs_Parse.v /verif/coq/Base.vos /verif/coq/Layout.vos Json.vos Forms.vos TypeStr.vos Proofs_Json.vos
Examples_C17.vo Examples_C17.glob Examples_C17.v.beautified Examples_C17.required_vo: Examples_C17.v /verif/coq/Base.vo /verif/coq/Layout.vo /verif/coq/Valid.vo /verif/coq/Types.vo /verif/coq/Carry.vo /verif/coq/Proofs_C11.vo Json.vo Forms.vo TypeStr.vo Typing.vo Proofs_Depth.vo Proofs_Types.vo Proofs_Typing.vo Proofs_Json.vo Proofs_Parse.vo
Examples_C17.vio: Examples_C17.v /verif/coq/Base.vio /verif/coq/Layout.vio /verif/coq/Valid.vio /verif/coq/Types.vio /verif/coq/Carry.vio /verif/coq/Proofs_C11.vio Json.vio Forms.vio TypeStr.vio Typing.vio Proofs_Depth.vio Proofs_Types.vio Proofs_Typing.vio Proofs_Json.vio Proofs_Parse.vio
Examples_C17.vos Examples_C17.vok Examples_C17.required_vos: Examples_C17.v /verif/coq/Base.vos /verif/coq/Layout.vos /verif/coq/Valid.vos /verif/coq/Types.vos /verif/coq/Carry.vos /verif/coq/Proofs_C11.vos Json.vos Forms.vos TypeStr.vos Typing.vos Proofs_Depth.vos Proofs_Types.vos Proofs_Typing.vos Proofs_Json.vos Proofs_Parse.vos
Props_C17.vo Props_C17.glob Props_C17.v.beautified Props_C17.required_vo: Props_C17.v /verif/coq/Base.vo /verif/coq/Layout.vo /verif/coq/Valid.vo /verif/coq/Types.vo /verif/coq/Carry.vo Json.vo Forms.vo TypeStr.vo Typing.vo Proofs_Depth.vo Proofs_Types.vo Proofs_Typing.vo Proofs_Json.vo Proofs_Parse.vo
Props_C17.vio: Props_C17.v /verif/coq/Base.vio /verif/coq/Layout.vio /verif/coq/Valid.vio /verif/coq/Types.vio /verif/coq/Carry.vio Json.vio Forms.vio TypeStr.vio Typing.vio Proofs_Depth.vio Proofs_Types.vio Proofs_Typing.vio Proofs_Json.vio Proofs_Parse.vio
Props_C17.vos Props_C17.vok Props_C17.required_vos: Props_C17.v /verif/coq/Base.vos /verif/coq/Layout.vos /verif/coq/Valid.vos /verif/coq/Types.vos /verif/coq/Carry.vos Json.vos Forms.vos TypeStr.vos Typing.vos Proofs_Depth.vos Proofs_Types.vos Proofs_Typing.vos Proofs_Json.vos Proofs_Parse.vos
