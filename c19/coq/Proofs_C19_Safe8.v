(* C19 — fault freedom, part 8: the summary theorem, its example and the counter-examples. *)
From Coq Require Import ZArith Bool List Lia ZifyBool String.
From AwkForth Require Import Forth Proofs_C19 Proofs_C19_SafeDefs Proofs_C19_Safe Proofs_C19_Safe2 Proofs_C19_Safe3
     Proofs_C19_Words Proofs_C19_Safe4 Proofs_C19_Safe5 Proofs_C19_Safe6 Proofs_C19_Safe7.
Import ListNotations.
Open Scope Z_scope.

(* (b) WITHOUT the `Fault` escape of faults_are_errors_partial: on a program accepted by the static check
   (`check_prog c p` for some certificate c — `wf_prog p` uses the inferred one), with the declared inputs attached,
   begin / step / resume / run never end in a modelled undefined behaviour other than F_count (a repeat count times the
   item size overflowing int64), and the state they leave is again one from which this holds.
   What the check excludes: `exit` in a segment that can run while a do-loop of an enclosing or calling segment is
   active (s_nx) — see the _refuted examples below; call() is not covered. *)
Theorem faults_are_errors_checked_proof : forall c p e, check_prog c p = true -> zlen (e_inputs e) = zlen (p_ins p) ->
  (forall m, zlen (m_vars m) = zlen (p_vars p) ->
     exists m', api_begin p e m = Ok m' /\ api_ok c p e m') /\
  (forall m, api_ok c p e m -> api_good c p e (api_step true p e m)) /\
  (forall f m, api_ok c p e m -> api_good c p e (api_resume f true p e m)) /\
  (forall f m, zlen (m_vars m) = zlen (p_vars p) -> api_good c p e (api_run f true p e m)).
Proof.
  intros c p e Hc Hi. split; [|split; [|split]].
  - intros m Hv. destruct (api_begin_safe c p e Hc m Hv Hi) as [m' [H1 [_ [_ H2]]]]. exists m'. split; assumption.
  - intros m H. apply api_step_safe; assumption.
  - intros f m H. apply api_resume_safe; assumption.
  - intros f m Hv. apply api_run_safe; assumption.
Qed.

(* in particular: no outcome `Fault k` with k <> F_count, whatever the number of steps / resumes *)
Corollary iter_step_no_fault_proof : forall c p e k m, check_prog c p = true -> api_ok c p e m ->
  match iter_step true p e k m with Ok m' => api_ok c p e m' | Fault x => x = F_count | OutOfFuel => True end.
Proof.
  intros c p e k. unfold iter_step. induction k as [|k IH]; intros m Hc H; cbn [repeat apply_segs]; [assumption|].
  unfold apply_seg. destruct (can_go m).
  - pose proof (api_step_safe c p e Hc m H) as G. destruct (api_step true p e m) as [m1|x|]; [|exact G|exact I].
    apply IH; assumption.
  - apply IH; assumption.
Qed.

(* ---- the hypotheses are satisfiable: a compiled program with words, recursion, exit (outside loops), nested do-loops,
   begin-loops, variables, typed reads of all kinds, pause and halt passes the check, and runs *)
Definition src_safe : string :=
  "input x output y int32 variable v 3 v ! 0 begin 1+ dup 5 = until begin v @ 0 > while -1 v +! x b-> y 1 x #!h-> stack repeat 10 0 do i 3 +loop 2 0 do 3 0 do i j + loop loop x 5bit-> stack x varint-> y : w dup if 1- recurse else exit then ; 4 w pause 4 w halt".
Definition prog_safe := compile 64 64 16 (bytes src_safe).
Definition env_safe := mkEnv [[1; 2; 3; 4; 5; 6; 7; 8; 9; 10; 11; 12; 13; 14; 15; 16; 17; 18]].

Example faults_are_errors_checked_example :
  exists p m1 m2, prog_safe = COk p /\ wf_prog p = true /\ zlen (e_inputs env_safe) = zlen (p_ins p) /\
    api_run 1000 true p env_safe (init_machine p) = Ok m1 /\ m_err m1 = E_none /\ is_done m1 = false /\
    inv (infer p) p env_safe m1 = true /\
    api_resume 1000 true p env_safe m1 = Ok m2 /\ m_err m2 = E_user_halt.
Proof.
  destruct prog_safe as [p| | | |] eqn:E; try (vm_compute in E; discriminate).
  vm_compute in E. inversion E; subst p; clear E.
  eexists. eexists. eexists. split; [reflexivity|].
  split; [vm_compute; reflexivity|]. split; [reflexivity|]. split; [vm_compute; reflexivity|].
  split; [reflexivity|]. split; [reflexivity|]. split; [vm_compute; reflexivity|].
  split; [vm_compute; reflexivity|reflexivity].
Qed.

(* ---- what is excluded, exactly.  `exit` unwinds the frames of the word and then drops do-stack entries until one
   with the depth of the word's own frame is found (drop_dos).  It is harmless iff every active do-loop was opened in a
   nested segment of the word being left; otherwise
     (1) a loop opened by a CALLER is removed from the do-stack: the caller's `i` then reads below the do-stack
         (F_loopindex), or
     (2) a loop opened at the top level of the word itself stays on the do-stack (a stale entry): the next word
         entered at that depth is executed as if it were the loop body, and e.g. its `exit` unwinds too far
         (F_exitdepth). *)
Definition prog_exit_under_caller_loop := compile 64 32 16 (bytes ": g 7 -1 if exit then 8 ; 3 0 do i g loop"%string).
Definition prog_exit_in_own_loop := compile 64 32 16 (bytes ": f 10 0 do i i 2 = if exit then loop ; f f"%string).
Definition prog_exit_in_nested_loop := compile 64 32 16 (bytes ": f -1 if 3 0 do i exit loop then ; f f"%string).

Example faults_are_errors_exit_in_do_refuted :
  (exists p, prog_exit_under_caller_loop = COk p /\ wf_prog p = false /\
             api_run 1000 true p (mkEnv []) (init_machine p) = Fault F_loopindex) /\
  (exists p, prog_exit_in_own_loop = COk p /\ wf_prog p = false /\
             api_run 1000 true p (mkEnv []) (init_machine p) = Fault F_exitdepth).
Proof.
  split.
  - destruct prog_exit_under_caller_loop as [p| | | |] eqn:E; try (vm_compute in E; discriminate).
    vm_compute in E. inversion E; subst p; clear E. eexists. split; [reflexivity|]. split; vm_compute; reflexivity.
  - destruct prog_exit_in_own_loop as [p| | | |] eqn:E; try (vm_compute in E; discriminate).
    vm_compute in E. inversion E; subst p; clear E. eexists. split; [reflexivity|]. split; vm_compute; reflexivity.
Qed.

(* the static check is conservative: a loop opened in a nested segment of the word that `exit` leaves is unwound
   correctly, but the check refuses every `exit` below a `do` *)
Example exit_in_nested_do_harmless :
  exists p m1, prog_exit_in_nested_loop = COk p /\ wf_prog p = false /\
    api_run 1000 true p (mkEnv []) (init_machine p) = Ok m1 /\ m_err m1 = E_none /\ is_done m1 = true /\
    m_stack m1 = [0; 0] /\ m_dos m1 = [].
Proof.
  destruct prog_exit_in_nested_loop as [p| | | |] eqn:E; try (vm_compute in E; discriminate).
  vm_compute in E. inversion E; subst p; clear E. eexists. eexists. split; [reflexivity|].
  split; [vm_compute; reflexivity|]. split; [vm_compute; reflexivity|]. repeat split.
Qed.
