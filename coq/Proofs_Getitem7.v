(** Slicing, part 7: the refinement theorem.  For tuples of integers, ranges, newaxis, ellipsis and
    field names, on the fragment [gfrag] (lists, IndexedArray, the option encodings, records, 1-d
    leaves), [getitem_model] computes [getitem_spec]: same values, same error status, never out of
    fuel / out of bounds — provided no positional item arrives at a record ([slice_ok]) and the fixed
    fuel covers the cost ([fuel_ok]). *)
From Coq Require Import ZArith List Bool Lia ZifyBool.
From AwkV Require Import Base Layout LayoutInd Valid Types AtAxis Carry Ops_Getitem Typing Proofs_Typing
                         Proofs_Lists Proofs_ToList Proofs_Carry Proofs_CarryValid Proofs_AtAxis Proofs_AtAxisOps
                         Proofs_C01 Proofs_Getitem Proofs_Getitem2 Proofs_Getitem3 Proofs_Getitem4 Proofs_Getitem5 Proofs_Getitem6.
Import ListNotations.
Open Scope Z_scope.
Ltac Zify.zify_post_hook ::= Z.to_euclidean_division_equations.

(* ---------------------------------------------------------------- the tuple induction *)
Definition item_ok (it : item) : bool :=
  match it with IAt _ | IRange _ _ _ | INewAxis | IEllipsis | IField _ | IFields _ => true | _ => false end.
(* fuel the model / the specification may use for one item, on layouts of depth at most D *)
Definition wm (D : nat) (it : item) : nat :=
  match it with IEllipsis => 5 * D + 5 | IAt _ | IRange _ _ _ | IArray _ => 4 | _ => 1 end.
Definition wsp (D : nat) (it : item) : nat := match it with IEllipsis => 2 * D + 1 | _ => 1 end.
Fixpoint cost_m (D : nat) (items : list item) : nat :=
  match items with [] => 1 | it :: tl => wm D it + cost_m D tl end.
Fixpoint cost_s (D : nat) (items : list item) : nat :=
  match items with [] => 1 | it :: tl => wsp D it + cost_s D tl end.
Lemma cost_s_pos D items : (1 <= cost_s D items)%nat.
Proof. induction items; cbn [cost_s]; lia. Qed.

Lemma items_no_array items : forallb item_ok items = true -> has_array items = false.
Proof.
  unfold has_array. induction items as [|h tl IH]; [reflexivity|]. cbn [forallb existsb]. intros H.
  apply andb_true_iff in H as [Hh Ht]. rewrite (IH Ht). destruct h; try discriminate; reflexivity.
Qed.

Theorem gn_refines_sg (D : nat) : forall items, forallb item_ok items = true ->
  PSE (cost_m D items) (cost_s D items) (Z.of_nat D) items /\
  PSG (cost_m D items) (cost_s D items) (Z.of_nat D) items.
Proof.
  induction items as [|h tl IH]; intros Hb.
  - split; [apply (PSE_mono 1 0 (Z.of_nat D) [] _ _ _ (PSE_nil _)); cbn; lia|apply PSG_nil].
  - cbn [forallb] in Hb. apply andb_true_iff in Hb as [Hh Hb]. destruct (IH Hb) as [IHe IHg]. cbn [cost_m cost_s].
    pose proof (items_no_array tl Hb) as Hna.
    destruct h; try discriminate; cbn [wm wsp].
    + assert (He : PSE (4 + cost_m D tl) (1 + cost_s D tl) (Z.of_nat D) (IAt i :: tl)).
      { eapply PSE_mono; [apply (PSE_positional (IAt i) tl _ _ _ eq_refl Hna IHe)|lia..]. }
      split; [exact He|apply PSG_of_PSE; [reflexivity|exact He]].
    + assert (He : PSE (4 + cost_m D tl) (1 + cost_s D tl) (Z.of_nat D) (IRange start stop step :: tl)).
      { eapply PSE_mono; [apply (PSE_positional (IRange start stop step) tl _ _ _ eq_refl Hna IHe)|lia..]. }
      split; [exact He|apply PSG_of_PSE; [reflexivity|exact He]].
    + split.
      * eapply PSE_mono; [apply (ellipsis_step_PSE tl _ _ Hna (cost_s_pos D tl) D IHe IHg)|lia..].
      * eapply PSG_mono; [apply (ellipsis_step tl _ _ Hna (cost_s_pos D tl) D IHe IHg D (le_n D))|lia..].
    + split; [apply PSE_newaxis, IHe|apply PSG_newaxis, IHg].
    + split; [apply PSE_field, IHe|apply PSG_field, IHg].
    + split; [apply PSE_fields, IHe|apply PSG_fields, IHg].
Qed.

(* ---------------------------------------------------------------- the whole operation *)
Lemma top_wrap c vs :
  Valid None c -> to_list c = Ok vs ->
  Valid None (Regular c (clen c) 1) /\ to_list (Regular c (clen c) 1) = Ok [VList vs] /\
  type_of (Regular c (clen c) 1) = TList (Some (clen c)) None (type_of c).
Proof.
  intros HV Hl. pose proof (to_list_len _ _ Hl) as Hn. pose proof (zlen_nonneg vs). split; [|split].
  - apply V_Regular; [exact I|lia|lia|intros _; exact HV].
  - rewrite to_list_Regular, Hl. cbn [bind]. rewrite <- Hn. unfold chunks.
    destruct (zlen vs <? 0) eqn:E; [lia|]. destruct (zlen vs =? 0) eqn:E0.
    + assert (vs = []) by (apply zlen_0_nil; lia). subst. reflexivity.
    + rewrite Z.div_same by lia. change (Z.to_nat 1) with 1%nat. cbn [chunks_nat rmap map].
      rewrite take_all by lia. reflexivity.
  - reflexivity.
Qed.

Definition obs_spec (s : res (ty * list value)) : res (list value) := do r <- s; Ok (snd r).

Lemma R_obs n m s : R n m s -> obs m = obs_spec s /\ obs m <> Err EFuel /\ obs m <> Err EOob.
Proof.
  destruct m as [c'|e]; cbn [R obs].
  - intros (t' & ws & -> & _ & Hl & _). rewrite Hl. repeat split; discriminate.
  - intros [-> ->]. repeat split; discriminate.
Qed.

(* number of list levels of the array (its own dimension included) *)
Definition adepth (c : content) : nat := Z.to_nat (tdepth (type_of c)) + 1.
(* no positional item (nor an ellipsis that still has levels to skip) arrives at a record *)
Definition slice_ok (items : list item) (c : content) : bool :=
  sc items (TList (Some (clen c)) None (type_of c)).

(* any fuel covering the cost gives the same, fuel-independent answer: never EFuel, never EOob *)
Theorem getitem_fuel : forall items c vs fm fs,
  forallb item_ok items = true -> Valid None c -> gfrag c = true -> to_list c = Ok vs -> slice_ok items c = true ->
  (cost_m (adepth c) items <= fm)%nat -> (cost_s (adepth c) items <= fs)%nat ->
  obs (gn fm (Regular c (clen c) 1) items None) =
  obs_spec (sg fs None (Some (zlen vs)) (type_of c) [Some vs] items None) /\
  obs (gn fm (Regular c (clen c) 1) items None) <> Err EFuel /\
  obs (gn fm (Regular c (clen c) 1) items None) <> Err EOob.
Proof.
  intros items c vs fm fs Hb HV Hfr Hl Hsc Hfm Hfs.
  destruct (top_wrap c vs HV Hl) as (HVC & HlC & HtC).
  destruct (gn_refines_sg (adepth c) items Hb) as [_ Hg].
  apply (R_obs 1). change 1 with (zlen [VList vs]). rewrite (to_list_len _ _ Hl).
  apply (Hg fm fs (Regular c (clen c) 1) (type_of (Regular c (clen c) 1)) [VList vs] (Some (clen c)) (type_of c) [Some vs]);
    try assumption; try reflexivity.
  - rewrite HtC. rewrite (tdepth_list' (TList (Some (clen c)) None (type_of c)) (Some (clen c)) (type_of c) eq_refl).
    unfold adepth. pose proof (tdepth_nonneg (type_of c)). lia.
  - apply ow_refl.
Qed.

(* the fuel [items_fuel] that [getitem_model] / [getitem_spec] run with covers the cost *)
Definition fuel_ok (items : list item) (c : content) : bool :=
  Nat.leb (cost_m (adepth c) items) (items_fuel items) && Nat.leb (cost_s (adepth c) items) (items_fuel items).

Theorem getitem_refines_spec_partial : forall items c vs,
  forallb item_ok items = true -> Valid None c -> gfrag c = true -> to_list c = Ok vs ->
  slice_ok items c = true -> fuel_ok items c = true ->
  obs (getitem_model items c) = getitem_spec items (type_of c) vs.
Proof.
  intros items c vs Hb HV Hfr Hl Hsc Hf. unfold fuel_ok in Hf. apply andb_true_iff in Hf as [H1 H2].
  apply Nat.leb_le in H1. apply Nat.leb_le in H2. unfold getitem_model, getitem_spec.
  apply (getitem_fuel items c vs _ _ Hb HV Hfr Hl Hsc H1 H2).
Qed.
Theorem getitem_never_out_of_fuel : forall items c vs,
  forallb item_ok items = true -> Valid None c -> gfrag c = true -> to_list c = Ok vs ->
  slice_ok items c = true -> fuel_ok items c = true ->
  obs (getitem_model items c) <> Err EFuel /\ getitem_spec items (type_of c) vs <> Err EFuel /\
  obs (getitem_model items c) <> Err EOob /\ getitem_spec items (type_of c) vs <> Err EOob.
Proof.
  intros items c vs Hb HV Hfr Hl Hsc Hf.
  pose proof (getitem_refines_spec_partial items c vs Hb HV Hfr Hl Hsc Hf) as He.
  unfold fuel_ok in Hf. apply andb_true_iff in Hf as [H1 H2]. apply Nat.leb_le in H1. apply Nat.leb_le in H2.
  destruct (getitem_fuel items c vs _ _ Hb HV Hfr Hl Hsc H1 H2) as (_ & Hf1 & Hf2).
  fold (getitem_model items c) in Hf1, Hf2. rewrite <- He. auto.
Qed.

(* when the fuel is enough: no ellipsis, or one ellipsis on a layout of depth at most 4 *)
Definition nell (items : list item) : nat :=
  length (filter (fun it => match it with IEllipsis => true | _ => false end) items).
Lemma cost_bounds D items :
  (cost_m D items <= 4 * length items + (5 * D + 1) * nell items + 1)%nat /\
  (cost_s D items <= length items + 2 * D * nell items + 1)%nat.
Proof.
  unfold nell. induction items as [|h tl [IH1 IH2]]; cbn [cost_m cost_s length filter]; [lia|].
  destruct h; cbn [wm wsp length]; lia.
Qed.
Lemma fuel_ok_no_ellipsis items c : nell items = O -> fuel_ok items c = true.
Proof.
  intros Hn. unfold fuel_ok. destruct (cost_bounds (adepth c) items) as [H1 H2]. rewrite Hn in H1, H2.
  apply andb_true_iff. split; apply Nat.leb_le; unfold items_fuel; lia.
Qed.
Lemma fuel_ok_shallow items c : (nell items <= 1)%nat -> tdepth (type_of c) <= 5 -> fuel_ok items c = true.
Proof.
  intros Hn Hd. unfold fuel_ok. destruct (cost_bounds (adepth c) items) as [H1 H2].
  assert (Ha : (adepth c <= 6)%nat) by (unfold adepth; lia).
  assert (Hp : (adepth c * nell items <= 6)%nat) by nia.
  apply andb_true_iff. split; apply Nat.leb_le; unfold items_fuel; nia.
Qed.

(* ---------------------------------------------------------------- record-free layouts: [slice_ok] is vacuous *)
Fixpoint norec (t : ty) : bool :=
  match t with
  | TNum _ | TUnk => true
  | TList _ _ t' | TOpt t' => norec t'
  | TRec _ _ | TUnion _ => false
  end.
Lemma proj_ty_norec k T : norec T = true -> exists e, proj_ty k T = Err e.
Proof.
  induction T; cbn [norec proj_ty]; try discriminate; eauto; intros H.
  - destruct str; [eauto|]. destruct (IHT H) as [e ->]. cbn [rmap]. eauto.
  - destruct (IHT H) as [e ->]. cbn [rmap]. eauto.
Qed.
Lemma projs_ty_norec ks T : norec T = true -> exists e, projs_ty ks T = Err e.
Proof.
  induction T; cbn [norec projs_ty]; try discriminate; eauto; intros H.
  - destruct str; [eauto|]. destruct (IHT H) as [e ->]. cbn [rmap]. eauto.
  - destruct (IHT H) as [e ->]. cbn [rmap]. eauto.
Qed.
Lemma sc_ell_norec F d b T : (forall U, norec U = true -> F U = true) -> norec T = true -> sc_ell F d b T = true.
Proof.
  intros HF. induction T; cbn [norec sc_ell]; try discriminate; auto. intros H. destruct str; [reflexivity|].
  destruct b; [reflexivity|]. destruct (_ && _); [apply HF; exact H|]. destruct (_ || _); auto.
Qed.
Lemma so_ty_norec T : norec T = true -> norec (so_ty T) = true.
Proof. induction T; cbn [norec so_ty]; auto. Qed.
Lemma sc_norec items : forall T, norec T = true -> sc items T = true.
Proof.
  induction items as [|it tl IH]; intros T HT; [reflexivity|]. destruct it; cbn [sc].
  - pose proof (so_ty_norec T HT) as H. destruct (so_ty T) as [| |sz [b|] t| | |]; try reflexivity; try discriminate. apply IH, H.
  - pose proof (so_ty_norec T HT) as H. destruct (so_ty T) as [| |sz [b|] t| | |]; try reflexivity; try discriminate. apply IH, H.
  - apply sc_ell_norec; assumption.
  - apply IH, HT.
  - pose proof (so_ty_norec T HT) as H. destruct (so_ty T) as [| |sz [b|] t| | |]; try reflexivity; try discriminate. apply IH, H.
  - destruct (proj_ty_norec k T HT) as [e ->]. reflexivity.
  - destruct (projs_ty_norec ks T HT) as [e ->]. reflexivity.
Qed.

Corollary getitem_refines_spec_norecords : forall items c vs,
  forallb item_ok items = true -> Valid None c -> gfrag c = true -> norec (type_of c) = true -> to_list c = Ok vs ->
  fuel_ok items c = true ->
  obs (getitem_model items c) = getitem_spec items (type_of c) vs.
Proof.
  intros items c vs Hb HV Hfr Hn Hl Hf. apply getitem_refines_spec_partial; try assumption.
  unfold slice_ok. apply sc_norec. exact Hn.
Qed.

(* layout independence (property C02): the sliced value depends on the layout only through its value and type *)
Theorem layout_independent_getitem_partial : forall items a b vs,
  forallb item_ok items = true -> Valid None a -> Valid None b -> gfrag a = true -> gfrag b = true ->
  to_list a = Ok vs -> to_list b = Ok vs -> type_of a = type_of b ->
  slice_ok items a = true -> fuel_ok items a = true ->
  obs (getitem_model items a) = obs (getitem_model items b).
Proof.
  intros items a b vs Hb HVa HVb Hfa Hfb Hla Hlb Hty Hsa Hf.
  assert (Hcl : clen a = clen b) by (rewrite <- (to_list_len _ _ Hla), <- (to_list_len _ _ Hlb); reflexivity).
  assert (Hf' : fuel_ok items b = true) by (unfold fuel_ok, adepth in *; rewrite <- Hty; exact Hf).
  assert (Hsb : slice_ok items b = true) by (unfold slice_ok in *; rewrite <- Hty, <- Hcl; exact Hsa).
  rewrite (getitem_refines_spec_partial items a vs), (getitem_refines_spec_partial items b vs), Hty by assumption.
  reflexivity.
Qed.

(* ---------------------------------------------------------------- examples *)
(* 3 * var * ?{x: var * int64, y: float64}, with an IndexedArray inside *)
Example getitem_refines_ex :
  let c := ListOffset I64 [0; 2; 2; 3]
             (IndexedOption I64 [1; -1; 0]
                (Record [ListA I64 [0; 3] [3; 5] (Indexed I64 [4; 3; 2; 1; 0] (Numpy DInt64 [5] [DZ 1; DZ 2; DZ 3; DZ 4; DZ 5]));
                         Par None None (Numpy DFloat64 [2] [DZ 10; DZ 20])] (Some [[120]; [121]]) 2)) in
  let t1 := [IRange None None (Some (-1)); IField [120]; IEllipsis; INewAxis; IAt (-1)] in
  let t2 := [IAt 0; IRange None None None; IField [121]] in
  let t4 := [IField [120]; IAt 0; IAt 0; IAt 7] in
  validb None c = true /\ gfrag c = true /\
  to_list c = Ok [VList [VRec [([120], VList [VNum (DZ 2); VNum (DZ 1)]); ([121], VNum (DZ 20))]; VNone]; VList [];
                  VList [VRec [([120], VList [VNum (DZ 5); VNum (DZ 4); VNum (DZ 3)]); ([121], VNum (DZ 10))]]] /\
  forallb item_ok t1 = true /\ slice_ok t1 c = true /\ fuel_ok t1 c = true /\
  obs (getitem_model t1 c) = Ok [VList [VList [VList [VNum (DZ 3)]]; VList []; VList [VList [VNum (DZ 1)]; VList [VNone]]]] /\
  forallb item_ok t2 = true /\ slice_ok t2 c = true /\ fuel_ok t2 c = true /\
  obs (getitem_model t2 c) = Ok [VList [VNum (DZ 20); VNone]] /\
  forallb item_ok t4 = true /\ slice_ok t4 c = true /\ fuel_ok t4 c = true /\
  obs (getitem_model t4 c) = Err EValue.
Proof. vm_compute. repeat split. Qed.

(* [fuel_ok] cannot be dropped: the fuel [items_fuel] that the model runs with does not depend on the depth of the
   layout, but every level that an ellipsis skips costs the model up to 5 units (the ellipsis, the implied full range,
   and up to three wrapper nodes) and the specification 2.  On a valid 8-level layout the model runs out of fuel while
   the specification answers; without wrappers the same happens from 19 levels on. *)
Fixpoint deep_wrapped (L : nat) : content :=
  match L with
  | O => Numpy DInt64 [1] [DZ 7]
  | S k => Par None None (Indexed I64 [0] (Par None None (ListOffset I64 [0; 1] (deep_wrapped k))))
  end.
Example getitem_ellipsis_fuel_refuted :
  let c := deep_wrapped 8 in
  let items := [IEllipsis; IAt 0] in
  validb None c = true /\ gfrag c = true /\ forallb item_ok items = true /\ slice_ok items c = true /\
  fuel_ok items c = false /\
  obs (getitem_model items c) = Err EFuel /\
  (exists vs ws, to_list c = Ok vs /\ getitem_spec items (type_of c) vs = Ok ws).
Proof. vm_compute. repeat split. eexists _, _. split; reflexivity. Qed.

Print Assumptions getitem_refines_spec_partial.
Print Assumptions getitem_never_out_of_fuel.
Print Assumptions getitem_refines_spec_norecords.
Print Assumptions layout_independent_getitem_partial.
