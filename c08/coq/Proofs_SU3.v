(** C08: simplify_uniontype(merge = true / false) on un-nested unions whose alternatives have a skeleton
    ([has_sk], Proofs_MM.v): existence of the result and "every value is unchanged up to the documented
    bool -> 0/1 cast". *)
From Coq Require Import ZArith List Bool Lia ZifyBool.
From AwkV Require Import Base Layout LayoutInd Valid Types Carry Proofs_C11 Proofs_Carry Proofs_CarryValid.
From AwkMerge Require Import Merge Lemmas_C08 Proofs_C08 Proofs_MM Proofs_Simplify Proofs_SU Proofs_SU2.
Import ListNotations.
Open Scope Z_scope.

(* ---------------------------------------------------------------- skeletons, computed *)
Fixpoint skel (c : content) : option sk :=
  match c with
  | Numpy _ [_] _ => Some SNum
  | ListOffset _ _ c' | ListA _ _ _ c' => option_map SList (skel c')
  | Regular c' size _ => if size =? 1 then None else option_map SList (skel c')
  | Indexed _ _ c' | IndexedOption _ _ c' | ByteMasked _ _ c' | BitMasked _ _ _ _ c' | Unmasked c' =>
      option_map SIx (skel c')
  | _ => None
  end.
Definition skd (c : content) : sk := match skel c with Some s => s | None => SNum end.
Definition has_skel (c : content) : bool := match skel c with Some _ => true | None => false end.

Lemma skel_sound c : forall s, skel c = Some s -> has_sk s c = true.
Proof.
  induction c; intros s H; cbn [skel] in H; try discriminate;
    try (destruct (skel c) as [s'|] eqn:E; cbn in H; [|discriminate]; inversion H; subst; cbn; apply IHc; reflexivity).
  - destruct shape as [|n [|? ?]]; try discriminate. inversion H; reflexivity.
  - destruct (size =? 1) eqn:E1; [discriminate|].
    destruct (skel c) as [s'|] eqn:E; cbn in H; [|discriminate]. inversion H; subst. cbn. rewrite E1. cbn. apply IHc. reflexivity.
Qed.
Lemma has_skel_sk c : has_skel c = true -> has_sk (skd c) c = true.
Proof. unfold has_skel, skd. destruct (skel c) eqn:E; [intros _; apply skel_sound; exact E|discriminate]. Qed.

(* the skeleton-level shadow of [mergeable]: option levels of the right operand are looked through *)
Fixpoint unix (s : sk) : sk := match s with SIx s' => unix s' | _ => s end.
Fixpoint sk_mg (a b : sk) {struct a} : bool :=
  match a with
  | SNum => match unix b with SNum => true | _ => false end
  | SList a' => match unix b with SList b' => sk_mg a' b' | _ => false end
  | SIx a' => match b with SIx b' => sk_mg a' b' | _ => sk_mg a' b end
  end.
Fixpoint sk_eqb (a b : sk) : bool :=
  match a, b with
  | SNum, SNum => true
  | SList a', SList b' | SIx a', SIx b' => sk_eqb a' b'
  | _, _ => false
  end.
Lemma sk_eqb_eq a : forall b, sk_eqb a b = true -> a = b.
Proof. induction a; destruct b; cbn; intros H; try discriminate; try reflexivity; f_equal; apply IHa; exact H. Qed.

Lemma peel_sk : forall s b, has_sk s b = true ->
  exists b', peel nopar nopar b = PNode b' /\ has_sk (unix s) b' = true.
Proof.
  induction s as [|s' IH|s' IH]; intros b H.
  - destruct (has_sk_SNum _ H) as (dt & n & data & ->). eexists; split; [reflexivity|exact H].
  - destruct b; cbn in H; try discriminate; (eexists; split; [reflexivity|exact H]).
  - destruct b; cbn in H; try discriminate; cbn [peel unix]; change (pars_eqb nopar nopar) with true; cbn iota;
      apply IH; exact H.
Qed.

Lemma mg_sk_mg mb : forall s1 a, has_sk s1 a = true -> forall s2 b, has_sk s2 b = true ->
  mg mb nopar a b = true -> sk_mg s1 s2 = true.
Proof.
  induction s1 as [|s1' IH|s1' IH]; intros a Ha s2 b Hb Hm.
  - destruct (has_sk_SNum _ Ha) as (dt & n & data & ->). cbn [mg] in Hm.
    destruct (peel_sk _ _ Hb) as (b' & Hp & Hb'). rewrite Hp in Hm. cbn [sk_mg].
    destruct (unix s2); [reflexivity| |]; destruct b'; cbn in Hb'; try discriminate; cbn in Hm; discriminate.
  - destruct (peel_sk _ _ Hb) as (b' & Hp & Hb'). cbn [sk_mg].
    destruct a; cbn in Ha; try discriminate; cbn [mg] in Hm; rewrite Hp in Hm;
      try (apply andb_true_iff in Ha; destruct Ha as [_ Ha]);
      (destruct (unix s2) as [|s2'|s2']; destruct b'; cbn in Hb'; try discriminate;
       try (apply andb_true_iff in Hb'; destruct Hb' as [_ Hb']);
       eapply IH; eauto).
  - destruct (has_sk_nopar _ _ Hb) as [Hpb Hbb].
    assert (Hm' : forall ca, has_sk s1' ca = true ->
              (if negb (pars_eqb nopar (params b)) then false else
               match body b with
               | Empty | Union _ _ _ _ => true
               | Indexed _ _ cb | IndexedOption _ _ cb | ByteMasked _ _ cb | BitMasked _ _ _ _ cb | Unmasked cb => mg mb nopar ca cb
               | _ => mg mb nopar ca b
               end) = true -> sk_mg (SIx s1') s2 = true).
    { intros ca Hca. rewrite Hpb, Hbb. change (pars_eqb nopar nopar) with true. cbn [negb]. cbn iota.
      intros Hmm. cbn [sk_mg].
      destruct s2 as [|s2'|s2']; destruct b; try (cbn in Hb; discriminate); eapply IH; eauto. }
    destruct a; cbn in Ha; try discriminate; cbn [mg] in Hm; eapply Hm'; eauto.
Qed.

(* pairwise: two skeletons of the list that are "mergeable" are equal *)
Fixpoint pairs_ok (l : list sk) : bool :=
  match l with
  | [] => true
  | s :: r => forallb (fun t => implb (sk_mg s t) (sk_eqb s t)) r && pairs_ok r
  end.
Lemma pairs_ok_split : forall pre s post s0,
  pairs_ok (pre ++ s :: post) = true -> In s0 pre -> sk_mg s0 s = true -> s0 = s.
Proof.
  induction pre as [|a pre IH]; intros s post s0 H Hin Hm; [destruct Hin|].
  cbn [app pairs_ok] in H. apply andb_true_iff in H. destruct H as [H1 H2].
  destruct Hin as [<-|Hin]; [|eapply IH; eauto].
  rewrite forallb_forall in H1. specialize (H1 s). rewrite Hm in H1. cbn in H1.
  apply sk_eqb_eq. apply H1. apply in_or_app. right. left. reflexivity.
Qed.

(* the fragment: every alternative has a skeleton (so none is a union, a record, a string, ...), and
   alternatives whose skeletons are mergeable have the same skeleton *)
Definition su_frag (cs0 : list content) : bool := forallb has_skel cs0 && pairs_ok (map skd cs0).

(* ---------------------------------------------------------------- the documented cast *)
Lemma deep_cast_bool_id : forall v, deep_cast DBool v = v.
Proof.
  fix IH 1. destruct v; cbn [deep_cast]; try reflexivity.
  f_equal. induction l as [|x xs IHl]; cbn [map]; [reflexivity|]. rewrite IH, IHl. reflexivity.
Qed.
Lemma deep_cast_comp d1 d2 : forall v,
  deep_cast d2 (deep_cast d1 v) = deep_cast (if dt_eqb d1 DBool then d2 else d1) v.
Proof.
  fix IH 1. destruct v; cbn [deep_cast]; try reflexivity.
  - clear IH. destruct (dt_eqb d1 DBool) eqn:E; [reflexivity|]. cbn [deep_cast bnum]. rewrite E. reflexivity.
  - f_equal. induction l as [|x xs IHl]; cbn [map]; [reflexivity|]. rewrite IH, IHl. reflexivity.
Qed.

(* [v'] is [v] with, at most, its booleans turned into 0/1 *)
Definition castrel (v v' : value) : Prop := exists d, v' = deep_cast d v.
Lemma castrel_refl v : castrel v v.
Proof. exists DBool. symmetry. apply deep_cast_bool_id. Qed.
Lemma castrel_step d v v' : castrel v v' -> castrel v (deep_cast d v').
Proof. intros [d1 ->]. rewrite deep_cast_comp. eexists; reflexivity. Qed.

(* ---------------------------------------------------------------- set_nth / find_merge *)
Lemma set_nth_length {A} (v : A) : forall l n, length (set_nth n v l) = length l.
Proof. induction l as [|x xs IH]; intros [|n]; cbn; auto. Qed.
Lemma zlen_set_nth {A} (v : A) l n : zlen (set_nth n v l) = zlen l.
Proof. unfold zlen. now rewrite set_nth_length. Qed.
Lemma set_nth_map {A B} (f : A -> B) v : forall l n, map f (set_nth n v l) = set_nth n (f v) (map f l).
Proof. induction l as [|x xs IH]; intros [|n]; cbn; auto. now rewrite IH. Qed.
Lemma nth_set_nth_eq {A} (v : A) : forall l n, (n < length l)%nat -> nth_error (set_nth n v l) n = Some v.
Proof. induction l as [|x xs IH]; intros [|n] H; cbn in *; try lia; auto. apply IH. lia. Qed.
Lemma nth_set_nth_ne {A} (v : A) : forall l n m, n <> m -> nth_error (set_nth n v l) m = nth_error l m.
Proof. induction l as [|x xs IH]; intros [|n] [|m] H; cbn; auto; try congruence. Qed.
Lemma get_set_nth_eq {A} (v : A) l k : 0 <= k < zlen l -> get (set_nth (Z.to_nat k) v l) k = Ok v.
Proof. intros H. apply get_nth; [lia|]. apply nth_set_nth_eq. unfold zlen in H. lia. Qed.
Lemma get_set_nth_ne {A} (v : A) l k k' : 0 <= k -> k <> k' -> get (set_nth (Z.to_nat k) v l) k' = get l k'.
Proof.
  intros H0 H. unfold get. destruct (k' <? 0) eqn:E; [reflexivity|].
  rewrite nth_set_nth_ne by lia. reflexivity.
Qed.
Lemma Forall_set_nth {A} (P : A -> Prop) v : forall l n, P v -> Forall P l -> Forall P (set_nth n v l).
Proof.
  induction l as [|x xs IH]; intros [|n] Hv H; cbn; auto; inversion H; subst; constructor; auto.
Qed.

Lemma find_merge_some mb x : forall contents k0 k,
  find_merge mb k0 contents x = Some k ->
  exists ck, get contents (k - k0) = Ok ck /\ k0 <= k /\ mergeable mb ck x = true.
Proof.
  induction contents as [|c cs IH]; intros k0 k H; cbn [find_merge] in H; [discriminate|].
  destruct (mergeable mb c x) eqn:E.
  - inversion H; subst. exists c. rewrite Z.sub_diag. repeat split; auto. lia.
  - destruct (IH _ _ H) as (ck & Hg & Hk & Hm). exists ck. repeat split; auto; [|lia].
    destruct (get_ok _ _ _ Hg) as [Hr N]. apply get_nth; [lia|].
    replace (Z.to_nat (k - k0)) with (S (Z.to_nat (k - (k0 + 1)))) by lia. exact N.
Qed.

(* ---------------------------------------------------------------- the loop *)
Section SUM.
  Variables (tags index : list Z) (vs : list value) (merge_ mb : bool).
  Hypothesis Hlen_ix : zlen tags <= zlen index.
  Hypothesis Hlen_vs : zlen vs = zlen tags.

  Definition okc (sks : list sk) (c : content) : Prop :=
    valid_b c = true /\ exists sc, has_sk sc c = true /\ In sc sks.

  Definition InvM (sks : list sk) (done : Z -> bool) (contents : list content) (s : st) : Prop :=
    zlen s = zlen tags /\ zlen contents <= zlen sks /\ Forall (okc sks) contents /\
    forall p t ix v, row tags index vs p t ix v ->
      (done t = true -> exists k j v', get s p = Ok (Some (k, j)) /\ lk (map vals contents) k j = Ok v' /\ castrel v v') /\
      (done t = false -> get s p = Ok None).

  Lemma okc_tl sks c : okc sks c -> tl_ok c.
  Proof. intros (Hv & sc & Hs & _). eapply valid_tl_ok_sk; eauto. Qed.
  Lemma okc_mono sks extra c : okc sks c -> okc (sks ++ extra) c.
  Proof. intros (Hv & sc & Hs & Hin). split; [exact Hv|]. exists sc. split; [exact Hs|]. apply in_or_app. now left. Qed.

  Lemma step_merge (cs0 : list content) i x sks contents s :
    (forall p t ix v, row tags index vs p t ix v -> lk (map vals cs0) t ix = Ok v) ->
    get cs0 i = Ok x -> valid_b x = true -> has_sk (skd x) x = true ->
    (forall s0, In s0 sks -> sk_mg s0 (skd x) = true -> s0 = skd x) ->
    InvM sks (fun t => t <? i) contents s ->
    exists k base contents', place merge_ mb contents x = Ok (k, base, contents') /\
      InvM (sks ++ [skd x]) (fun t => t <? i + 1) contents' (simp_one s tags index k i base).
  Proof.
    intros Horig Hx Hvx Hsx Huniq (Hs & Hlc & Hok & Hrows).
    assert (Htx : tl_ok x) by (eapply valid_tl_ok_sk; eauto).
    assert (Hgx : forall p ix v, row tags index vs p i ix v -> get (vals x) ix = Ok v).
    { intros p ix v Hr. specialize (Horig _ _ _ _ Hr). unfold lk in Horig.
      rewrite (get_map vals _ _ _ Hx) in Horig. exact Horig. }
    unfold place.
    destruct (if merge_ then find_merge mb 0 contents x else None) as [k|] eqn:Ef.
    - (* merged into alternative k *)
      assert (Hfm : find_merge mb 0 contents x = Some k) by (destruct merge_; [exact Ef|discriminate]).
      destruct (find_merge_some _ _ _ _ _ Hfm) as (ck & Hck & Hk0 & Hmg). rewrite Z.sub_0_r in Hck.
      pose proof (get_lt _ _ _ Hck) as Hkr.
      assert (Hokck : okc sks ck).
      { eapply Forall_forall in Hok; [exact Hok|]. apply get_ok in Hck. destruct Hck as [_ N]. eapply nth_error_In; eauto. }
      destruct Hokck as (Hvck & sc & Hsck & Hin).
      assert (sc = skd x). { apply Huniq; [exact Hin|]. eapply (mg_sk_mg mb); eauto. }
      subst sc.
      assert (Htck : tl_ok ck) by (eapply valid_tl_ok_sk; eauto).
      destruct (mm_sk (skd x) (mm_fuel [ck; x]) [ck; x]) as (m & Hm & Hsm & Htm & Hvm & _).
      { pose proof (need_le_csize _ _ Hsck). unfold mm_fuel. cbn [fold_right length]. lia. }
      { cbn; lia. }
      { repeat constructor; assumption. }
      { repeat constructor; assumption. }
      rewrite Hck. cbn [bind]. unfold merge, mergemany. rewrite Hm. cbn [bind].
      do 3 eexists. split; [reflexivity|].
      cbn [map concat] in Htm. rewrite app_nil_r in Htm.
      pose proof (vals_ok _ _ Htm) as Hvalm. set (dc := deep_cast (leaf_dt m)) in *.
      assert (Hokm : okc (sks ++ [skd x]) m).
      { split; [apply Hvm; exact (valid_sk_ok _ _ Hsx Hvx)|]. exists (skd x). split; [exact Hsm|]. apply in_or_app. right. now left. }
      split; [|split; [|split]].
      + apply simp_one_len; assumption.
      + rewrite zlen_set_nth, zlen_app. change (zlen [skd x]) with 1. lia.
      + apply Forall_set_nth; [exact Hokm|]. eapply Forall_impl; [|exact Hok]. intros c. apply okc_mono.
      + intros p t ix v Hr. destruct (row_get_s _ _ _ _ _ _ _ _ Hs Hr) as [old Hold].
        rewrite (simp_one_get _ _ _ _ _ _ _ _ _ _ _ _ Hr Hold).
        destruct (Hrows _ _ _ _ Hr) as [Hd Hn].
        assert (Hgk : get (map vals (set_nth (Z.to_nat k) m contents)) k = Ok (vals m)).
        { rewrite set_nth_map. apply get_set_nth_eq. rewrite zlen_map. lia. }
        destruct (t =? i) eqn:E.
        * assert (t = i) by lia. subst t. split; [|lia]. intros _.
          exists k, (ix + clen ck), (dc v). split; [reflexivity|]. split; [|eexists; reflexivity].
          unfold lk. rewrite Hgk. cbn [bind]. rewrite Hvalm, <- (zlen_vals _ Htck), <- (zlen_map dc).
          apply get_app_r; [pose proof (get_lt _ _ _ (Hgx _ _ _ Hr)); lia|]. apply get_map. eapply Hgx; eauto.
        * split.
          -- intros Hlt. destruct Hd as (k1 & j & v' & Hk1 & Hlk & Hcr); [lia|].
             destruct (Z.eq_dec k1 k) as [->|Hne].
             ++ exists k, j, (dc v'). split; [congruence|]. split; [|apply castrel_step; exact Hcr].
                unfold lk in *. rewrite Hgk. cbn [bind]. rewrite (get_map vals _ _ _ Hck) in Hlk. cbn [bind] in Hlk.
                rewrite Hvalm. apply get_app_l. apply get_map. exact Hlk.
             ++ exists k1, j, v'. split; [congruence|]. split; [|exact Hcr].
                unfold lk in *. rewrite set_nth_map, get_set_nth_ne by lia. exact Hlk.
          -- intros Hge. rewrite <- Hold. apply Hn. lia.
    - (* appended *)
      do 3 eexists. split; [reflexivity|].
      split; [|split; [|split]].
      + apply simp_one_len; assumption.
      + rewrite !zlen_app. change (zlen [x]) with 1. change (zlen [skd x]) with 1. lia.
      + apply Forall_app. split.
        * eapply Forall_impl; [|exact Hok]. intros c. apply okc_mono.
        * constructor; [|constructor]. split; [exact Hvx|]. exists (skd x). split; [exact Hsx|]. apply in_or_app. right. now left.
      + intros p t ix v Hr. destruct (row_get_s _ _ _ _ _ _ _ _ Hs Hr) as [old Hold].
        rewrite (simp_one_get _ _ _ _ _ _ _ _ _ _ _ _ Hr Hold).
        destruct (Hrows _ _ _ _ Hr) as [Hd Hn].
        destruct (t =? i) eqn:E.
        * assert (t = i) by lia. subst t. split; [|lia]. intros _.
          exists (zlen contents), (ix + 0), v. split; [reflexivity|]. split; [|apply castrel_refl].
          rewrite lk_snoc, Z.add_0_r. eapply Hgx; eauto.
        * split.
          -- intros Hlt. destruct Hd as (k1 & j & v' & Hk1 & Hlk & Hcr); [lia|].
             exists k1, j, v'. split; [congruence|]. split; [|exact Hcr].
             rewrite map_app. apply lk_app_l. exact Hlk.
          -- intros Hge. rewrite <- Hold. apply Hn. lia.
  Qed.

  Lemma su_loop_plain_gen i x xs contents s :
    (forall w t ix cs, body x <> Union w t ix cs) ->
    su_loop merge_ mb tags index i (x :: xs) contents s
    = (do p <- place merge_ mb contents x;
       let '(k, base, contents') := p in
       su_loop merge_ mb tags index (i + 1) xs contents' (simp_one s tags index k i base)).
  Proof.
    intros Hb. cbn [su_loop]. destruct (body x); try reflexivity. exfalso. eapply Hb. reflexivity.
  Qed.

  Variable cs0 : list content.
  Hypothesis Horig : forall p t ix v, row tags index vs p t ix v -> lk (map vals cs0) t ix = Ok v.
  Hypothesis Hval0 : Forall (fun x => valid_b x = true) cs0.
  Hypothesis Hsk0 : Forall (fun x => has_skel x = true) cs0.
  Hypothesis Hpairs : pairs_ok (map skd cs0) = true.

  Lemma merge_steps : forall l pre contents s,
    cs0 = pre ++ l ->
    InvM (map skd pre) (fun t => t <? zlen pre) contents s ->
    exists r, su_loop merge_ mb tags index (zlen pre) l contents s = Ok r /\
              InvM (map skd cs0) (fun t => t <? zlen cs0) (fst r) (snd r).
  Proof.
    induction l as [|x xs IH]; intros pre contents s Hcs Hinv.
    - rewrite app_nil_r in Hcs. subst pre. eexists. split; [reflexivity|exact Hinv].
    - assert (Hx : get cs0 (zlen pre) = Ok x).
      { rewrite Hcs. replace (zlen pre) with (0 + zlen pre) by lia. apply get_app_r; [lia|reflexivity]. }
      assert (Hin : In x cs0) by (rewrite Hcs; apply in_or_app; right; left; reflexivity).
      assert (Hvx : valid_b x = true) by (eapply Forall_forall in Hval0; eauto).
      assert (Hsx : has_sk (skd x) x = true) by (apply has_skel_sk; eapply Forall_forall in Hsk0; eauto).
      assert (Huniq : forall s0, In s0 (map skd pre) -> sk_mg s0 (skd x) = true -> s0 = skd x).
      { intros s0 Hs0 Hm. rewrite Hcs, map_app in Hpairs. cbn [map] in Hpairs. eapply pairs_ok_split; eauto. }
      destruct (step_merge cs0 (zlen pre) x (map skd pre) contents s Horig Hx Hvx Hsx Huniq Hinv)
        as (k & base & contents' & Hpl & Hinv').
      rewrite su_loop_plain_gen.
      2:{ intros w t ix cs Hb. destruct (has_sk_nopar _ _ Hsx) as [_ Hbb]. rewrite Hbb in Hb. rewrite Hb in Hsx.
          destruct (skd x); discriminate. }
      rewrite Hpl. cbn [bind].
      assert (Hcs' : cs0 = (pre ++ [x]) ++ xs) by (rewrite <- app_assoc; exact Hcs).
      specialize (IH (pre ++ [x]) contents' (simp_one s tags index k (zlen pre) base) Hcs').
      rewrite zlen_app, map_app in IH. change (zlen [x]) with 1 in IH. cbn [map] in IH.
      apply IH. exact Hinv'.
  Qed.
End SUM.

Lemma Forall2_pointwise {A B} (R : A -> B -> Prop) (l : list A) (m : list B) :
  zlen l = zlen m -> (forall p a b, get l p = Ok a -> get m p = Ok b -> R a b) -> Forall2 R l m.
Proof.
  revert m. induction l as [|x xs IH]; intros [|y ys] HL HP.
  - constructor.
  - exfalso. rewrite zlen_cons, zlen_nil in HL. pose proof (zlen_nonneg ys). lia.
  - exfalso. rewrite zlen_cons, zlen_nil in HL. pose proof (zlen_nonneg xs). lia.
  - constructor.
    + apply (HP 0); reflexivity.
    + apply IH; [rewrite !zlen_cons in HL; lia|].
      intros p a b Ha Hb. apply (HP (p + 1)).
      * destruct (get_ok _ _ _ Ha) as [Hr N]. apply get_nth; [lia|].
        replace (Z.to_nat (p + 1)) with (S (Z.to_nat p)) by lia. exact N.
      * destruct (get_ok _ _ _ Hb) as [Hr N]. apply get_nth; [lia|].
        replace (Z.to_nat (p + 1)) with (S (Z.to_nat p)) by lia. exact N.
Qed.

(* ---------------------------------------------------------------- (B) the theorem *)
(* simplify_uniontype(merge, mergebool) of an un-nested union whose alternatives are valid layouts of the
   [su_frag] fragment (at most 127 of them, at least one): the result exists (no EOob / EFuel / EValue), and
   every value of the result is the value it was, up to the documented cast of booleans to 0/1
   ([deep_cast d] for some dtype [d], element by element).  When a single alternative remains the result is
   that (merged) alternative carried, and is valid. *)
Theorem simplify_union_merge_sk_pf : forall merge_ mb c w tags index cs0 vs,
  body c = Union w tags index cs0 -> is_strk (fst (params c)) = false ->
  Forall (fun x => valid_b x = true) cs0 -> su_frag cs0 = true ->
  cs0 <> [] -> (length cs0 <= 127)%nat ->
  to_list c = Ok vs ->
  exists c' vs', simplify_union merge_ mb c = Ok c' /\ to_list c' = Ok vs' /\ Forall2 castrel vs vs'.
Proof.
  intros merge_ mb c w tags index cs0 vs Hb Hns Hval Hfrag Hne H127 Ht.
  unfold su_frag in Hfrag. apply andb_true_iff in Hfrag. destruct Hfrag as [Hsk Hpairs].
  apply forallb_Forall_true in Hsk.
  rewrite (to_list_nostr _ Hns), Hb in Ht.
  destruct (union_rows _ _ _ _ _ Ht) as (Htl0 & Hli & Hlv & Hrows).
  assert (Horig : forall p t ix v, row tags index vs p t ix v -> lk (map vals cs0) t ix = Ok v).
  { intros p t ix v (Hpt & Hpi & Hpv). destruct (Hrows _ _ _ Hpt Hpi) as (v' & Hv' & Hlk). congruence. }
  assert (Hrange : forall p t ix v, row tags index vs p t ix v -> 0 <= t < zlen cs0).
  { intros p t ix v Hr. pose proof (Horig _ _ _ _ Hr) as Hlk0. unfold lk in Hlk0. apply bind_ok in Hlk0.
    destruct Hlk0 as (l0 & Hl0 & _). apply get_lt in Hl0. rewrite zlen_map in Hl0. exact Hl0. }
  assert (Hinv0 : InvM tags index vs [] (fun t => t <? zlen (@nil content)) [] (map (fun _ => None) tags)).
  { split; [apply zlen_map|]. split; [cbn; lia|]. split; [constructor|]. intros p t ix v Hr. change (zlen (@nil content)) with 0.
    pose proof (Hrange _ _ _ _ Hr). destruct Hr as (Hpt & _ & _).
    split; [intros; lia|]. intros _.
    apply (get_map (fun _ : Z => @None (Z * Z))) in Hpt. exact Hpt. }
  destruct (merge_steps tags index vs merge_ mb Hli cs0 Horig Hval Hsk Hpairs cs0 [] [] _ eq_refl Hinv0)
    as ([cs s] & Hloop & Hsl & Hlc & Hok & Hfin).
  cbn [fst snd] in *.
  unfold simplify_union. rewrite Hb. replace (zlen index <? zlen tags) with false by lia.
  change (zlen (@nil content)) with 0 in Hloop. rewrite Hloop. cbn [bind].
  rewrite zlen_map in Hlc.
  replace (127 <? zlen cs) with false by (unfold zlen in *; lia).
  (* every position has been written *)
  assert (Hall : forall p, 0 <= p < zlen tags -> exists t ix v k j v',
            row tags index vs p t ix v /\ get s p = Ok (Some (k, j)) /\ lk (map vals cs) k j = Ok v' /\ castrel v v').
  { intros p Hp.
    destruct (get_in_range tags p) as [t Hpt]; [lia|].
    destruct (get_in_range index p) as [ix Hpi]; [lia|].
    destruct (get_in_range vs p) as [v Hpv]; [lia|].
    assert (Hr : row tags index vs p t ix v) by (repeat split; assumption).
    destruct (Hfin _ _ _ _ Hr) as [Hd _]. pose proof (Hrange _ _ _ _ Hr).
    destruct Hd as (k & j & v' & Hk & Hlk & Hcr); [lia|]. exists t, ix, v, k, j, v'. auto. }
  assert (Hti : exists ti, mapM (fun o : option (Z * Z) => match o with Some p => Ok p | None => Err EOob end) s = Ok ti).
  { apply mapM_total. intros o Hin. apply In_nth_error in Hin. destruct Hin as [n Hn].
    assert (Hg : get s (Z.of_nat n) = Ok o) by (apply get_nth; [lia|]; rewrite Nat2Z.id; exact Hn).
    destruct (Hall (Z.of_nat n)) as (t & ix & v & k & j & v' & _ & Hs' & _); [apply get_lt in Hg; lia|].
    rewrite Hg in Hs'. inversion Hs'; subst. eauto. }
  destruct Hti as [ti Hti]. rewrite Hti. cbn [bind].
  pose proof (mapM_zlen _ _ _ Hti) as Hlti.
  (* the values of the result, position by position *)
  assert (Hvals : exists vs', zlen vs' = zlen vs /\
            (forall p k j, get ti p = Ok (k, j) -> exists v', get vs' p = Ok v' /\ lk (map vals cs) k j = Ok v') /\
            Forall2 castrel vs vs').
  { assert (HM : exists vs', mapM (fun kj : Z * Z => lk (map vals cs) (fst kj) (snd kj)) ti = Ok vs').
    { apply mapM_total. intros [k j] Hin. apply In_nth_error in Hin. destruct Hin as [n Hn].
      assert (Hg : get ti (Z.of_nat n) = Ok (k, j)) by (apply get_nth; [lia|]; rewrite Nat2Z.id; exact Hn).
      destruct (get_mapM_inv _ _ _ _ _ Hti Hg) as (o & Ho & Hunw).
      destruct (Hall (Z.of_nat n)) as (t & ix & v & k1 & j1 & v' & _ & Hs' & Hlk & _); [apply get_lt in Hg; lia|].
      rewrite Ho in Hs'. inversion Hs'; subst o. inversion Hunw; subst. cbn [fst snd]. eauto. }
    destruct HM as [vs' HM]. exists vs'. pose proof (mapM_zlen _ _ _ HM) as Hl'. split; [lia|]. split.
    - intros p k j Hg. destruct (get_mapM _ _ _ _ _ HM Hg) as (v' & Hv' & Hgv). exists v'. split; assumption.
    - apply Forall2_pointwise; [lia|]. intros p v v'' Hv Hv''.
      destruct (Hall p) as (t & ix & v0 & k & j & v' & Hr & Hs' & Hlk & Hcr); [apply get_lt in Hv; lia|].
      destruct Hr as (_ & _ & Hv0). assert (v0 = v) by congruence. subst v0.
      destruct (get_mapM _ _ _ _ _ Hti Hs') as (kj & Hkj & Hgkj). inversion Hkj; subst kj.
      destruct (get_mapM _ _ _ _ _ HM Hgkj) as (v3 & Hv3 & Hgv3). cbn [fst snd] in Hv3.
      assert (v3 = v') by congruence. assert (v3 = v'') by congruence. subst. subst. exact Hcr. }
  destruct Hvals as (vs' & Hlvs' & Hpt & Hcast).
  assert (Htlc : Forall tl_ok cs) by (eapply Forall_impl; [|exact Hok]; intros a; apply okc_tl).
  destruct cs as [|only [|a2 rest]] eqn:Ecs.
  - (* impossible: cs0 is not empty, so some alternative was kept... unless the union is empty *)
    exfalso. destruct cs0 as [|x0 xs0]; [congruence|].
    (* re-run the first step: the first alternative is appended *)
    clear -Hloop Hsk. cbn [su_loop] in Hloop.
    pose proof (Forall_inv Hsk) as H0. apply has_skel_sk in H0. destruct (has_sk_nopar _ _ H0) as [_ Hbb].
    assert (Hpl : place merge_ mb [] x0 = Ok (0, 0, [x0])) by (unfold place; destruct merge_; reflexivity).
    rewrite Hpl in Hloop. cbn [bind] in Hloop.
    assert (Hgrow : forall l i contents s0 r, contents <> [] ->
              su_loop merge_ mb tags index i l contents s0 = Ok r -> fst r <> []).
    { clear. induction l as [|x xs IH]; intros i contents s0 r Hne H.
      - cbn in H. inversion H; subst. exact Hne.
      - cbn [su_loop] in H.
        assert (Hplace : forall y p, place merge_ mb contents y = Ok p -> snd p <> []).
        { intros y [[k b] c'] Hp. unfold place in Hp.
          destruct (if merge_ then find_merge mb 0 contents y else None).
          - apply bind_ok in Hp. destruct Hp as (ck & _ & Hp). apply bind_ok in Hp. destruct Hp as (m & _ & Hp).
            inversion Hp; subst. cbn [snd]. intros E. apply (f_equal (@length content)) in E. rewrite set_nth_length in E.
            destruct contents; [congruence|discriminate].
          - inversion Hp; subst. cbn [snd]. destruct contents; discriminate. }
        assert (Hinner : forall il j cts s1 r1 it ii, cts <> [] ->
                  su_inner merge_ mb tags index it ii i j il cts s1 = Ok r1 -> fst r1 <> []).
        { clear -Hne. induction il as [|y ys IHi]; intros j cts s1 r1 it ii Hc Hi.
          - cbn in Hi. inversion Hi; subst. exact Hc.
          - cbn [su_inner] in Hi. apply bind_ok in Hi. destruct Hi as ([[k b] c'] & Hp & Hi).
            apply bind_ok in Hi. destruct Hi as (s' & _ & Hi). eapply IHi; [|exact Hi].
            unfold place in Hp. destruct (if merge_ then find_merge mb 0 cts y else None).
            + apply bind_ok in Hp. destruct Hp as (ck & _ & Hp). apply bind_ok in Hp. destruct Hp as (m & _ & Hp).
              inversion Hp; subst. intros E. apply (f_equal (@length content)) in E. rewrite set_nth_length in E.
              destruct cts; [congruence|discriminate].
            + inversion Hp; subst. destruct cts; discriminate. }
        destruct (body x).
        all: try (apply bind_ok in H; destruct H as ([[k b] c'] & Hp & H); eapply IH; [|exact H];
                  exact (Hplace _ _ Hp)).
        apply bind_ok in H. destruct H as (r1 & Hr1 & H). eapply IH; [|exact H]. eapply Hinner; eauto. }
    destruct (body x0); try (eapply Hgrow in Hloop; [apply Hloop; reflexivity|discriminate]).
    rewrite <- Hbb in H0. match type of H0 with has_sk ?s _ = _ => destruct s; discriminate end.
  - (* a single alternative is left: carried *)
    pose proof (Forall_inv Hok) as (Hvo & so & Hso & _).
    pose proof (tl_ok_vals _ (Forall_inv Htlc)) as Hto.
    assert (Hg : mapM (get (vals only)) (map snd ti) = Ok vs').
    { apply mapM_pointwise; [rewrite zlen_map; lia|].
      intros p j Hp. destruct (get_in_range ti p) as [[k j'] Hkj]; [apply get_lt in Hp; rewrite zlen_map in Hp; lia|].
      pose proof (get_map snd _ _ _ Hkj) as Hp'. rewrite Hp in Hp'. inversion Hp'; subst j. cbn [snd].
      destruct (Hpt _ _ _ Hkj) as (v' & Hv' & Hlk). cbn [map] in Hlk. apply lk_single in Hlk. destruct Hlk as [_ Hlk].
      exists v'. split; assumption. }
    assert (Hix : Forall (fun i => 0 <= i < clen only) (map snd ti)).
    { apply Forall_forall. intros i Hi. apply mapM_ok_Forall2 in Hg.
      assert (exists v, get (vals only) i = Ok v) as [v Hgv].
      { clear -Hg Hi. induction Hg; [destruct Hi|]. destruct Hi as [<-|Hi]; eauto. }
      apply get_lt in Hgv. rewrite <- (to_list_len _ _ Hto). exact Hgv. }
    assert (HV : Valid None only) by (apply validity_exact_gen; exact Hvo).
    destruct (carry_spec only (vals only) (map snd ti) HV Hto Hix) as (c' & Hc' & Hl' & _).
    exists c', vs'. split; [|split; [congruence|exact Hcast]].
    unfold lazy_carry. destruct (has_sk_nopar _ _ Hso) as [_ Hbb]. rewrite Hbb.
    destruct only; try exact Hc'. destruct so; discriminate.
  - (* a flat union *)
    eexists. exists vs'. split; [reflexivity|]. split; [|exact Hcast].
    rewrite <- Ecs in Htlc, Hpt |- *.
    rewrite to_list_mkpar by exact Hns. cbn [to_list]. rewrite all_fix_to_list.
    assert (HM : mapM to_list cs = Ok (map vals cs)).
    { clear -Htlc. induction Htlc as [|x xs Hx _ IH]; [reflexivity|]. cbn [mapM map]. rewrite (tl_ok_vals _ Hx), IH. reflexivity. }
    rewrite HM. cbn [bind]. rewrite !zlen_map. replace (zlen ti <? zlen ti) with false by lia.
    rewrite zip_fst_snd.
    apply mapM_pointwise; [lia|].
    intros p [k j] Hp. destruct (Hpt _ _ _ Hp) as (v' & Hv' & Hlk). exists v'. split; assumption.
Qed.

(* non-vacuity: option[list[bool]] | float64 | option[list[int8]] | bool | list[list[int64]]: with merge = true,
   mergebool = true the third alternative is merged into the first (booleans become 0/1 inside the lists) and
   the fourth into the second (True -> 1); three alternatives remain *)
Example simplify_union_merge_sk_example :
  let x0 := IndexedOption I32 [0; -1; 1] (ListOffset I64 [0; 2; 3] (Numpy DBool [3] [DZ 1; DZ 0; DZ 1])) in
  let x1 := Numpy DFloat64 [2] [DZ 5; DZ 6] in
  let x2 := ByteMasked [1; 0] false (ListA U32 [5; 0] [5; 1] (Numpy DInt8 [1] [DZ 4])) in
  let x3 := Numpy DBool [1] [DZ 1] in
  let x4 := ListOffset I64 [0; 1] (ListOffset I64 [0; 2] (Numpy DInt64 [2] [DZ 3; DZ 4])) in
  let alts := [x0; x1; x2; x3; x4] in
  let c := Union I32 [0; 3; 2; 1; 0; 4; 2; 0] [0; 0; 1; 1; 1; 0; 0; 2] alts in
  su_frag alts = true /\ forallb valid_b alts = true /\
  to_list c = Ok [VList [VBool true; VBool false]; VBool true; VList [VNum (DZ 4)]; VNum (DZ 6); VNone;
                  VList [VList [VNum (DZ 3); VNum (DZ 4)]]; VNone; VList [VBool true]] /\
  rmap to_list (simplify_union true true c)
  = Ok (Ok [VList [VNum (DZ 1); VNum (DZ 0)]; VNum (DZ 1); VList [VNum (DZ 4)]; VNum (DZ 6); VNone;
            VList [VList [VNum (DZ 3); VNum (DZ 4)]]; VNone; VList [VNum (DZ 1)]]) /\
  rmap (fun c' => match c' with Union _ _ _ cs => length cs | _ => O end) (simplify_union true true c) = Ok 3%nat /\
  (* mergebool = false: bool and int8 lists are kept apart, nothing is cast *)
  rmap to_list (simplify_union true false c) = Ok (to_list c).
Proof. vm_compute. repeat split. Qed.

(* all alternatives share one skeleton: everything is merged into one alternative, which is then carried *)
Example simplify_union_merge_one_example :
  let x0 := ListOffset I64 [0; 2; 3] (Numpy DBool [3] [DZ 1; DZ 0; DZ 1]) in
  let x1 := ListA U32 [1; 0] [2; 1] (Numpy DInt16 [2] [DZ 7; DZ 8]) in
  let c := Union I32 [1; 0; 1; 0] [0; 1; 1; 0] [x0; x1] in
  su_frag [x0; x1] = true /\
  to_list c = Ok [VList [VNum (DZ 8)]; VList [VBool true]; VList [VNum (DZ 7)]; VList [VBool true; VBool false]] /\
  simplify_union true true c
  = Ok (ListA I64 [4; 2; 3; 0] [5; 3; 4; 2] (Numpy DInt16 [5] [DZ 1; DZ 0; DZ 1; DZ 7; DZ 8])) /\
  rmap to_list (simplify_union true true c)
  = Ok (Ok [VList [VNum (DZ 8)]; VList [VNum (DZ 1)]; VList [VNum (DZ 7)]; VList [VNum (DZ 1); VNum (DZ 0)]]).
Proof. vm_compute. repeat split. Qed.

(* outside the fragment: a number and an option of numbers are mergeable but have different skeletons
   (the C++ goes through reverse_merge); covered by the tests only *)
Example su_frag_excludes_option_mix :
  su_frag [Numpy DInt64 [1] [DZ 1]; IndexedOption I64 [0; -1] (Numpy DInt64 [1] [DZ 2])] = false.
Proof. reflexivity. Qed.

