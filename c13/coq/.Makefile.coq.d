Kernels.vo Kernels.glob Kernels.v.beautified Kernels.required_vo: Kernels.v /verif/coq/Base.vo
Kernels.vio: Kernels.v /verif/coq/Base.vio
Kernels.vos Kernels.vok Kernels.required_vos: Kernels.v /verif/coq/Base.vos
Kernels2.vo Kernels2.glob Kernels2.v.beautified Kernels2.required_vo: Kernels2.v /verif/coq/Base.vo Kernels.vo
Kernels2.vio: Kernels2.v /verif/coq/Base.vio Kernels.vio
Kernels2.vos Kernels2.vok Kernels2.required_vos: Kernels2.v /verif/coq/Base.vos Kernels.vos
KLemmas.vo KLemmas.glob KLemmas.v.beautified KLemmas.required_vo: KLemmas.v /verif/coq/Base.vo Kernels.vo
KLemmas.vio: KLemmas.v /verif/coq/Base.vio Kernels.vio
KLemmas.vos KLemmas.vok KLemmas.required_vos: KLemmas.v /verif/coq/Base.vos Kernels.vos
Proofs_C13.vo Proofs_C13.glob Proofs_C13.v.beautified Proofs_C13.required_vo: Proofs_C13.v /verif/coq/Base.vo Kernels.vo KLemmas.vo
Proofs_C13.vio: Proofs_C13.v /verif/coq/Base.vio Kernels.vio KLemmas.vio
Proofs_C13.vos Proofs_C13.vok Proofs_C13.required_vos: Proofs_C13.v /verif/coq/Base.vos Kernels.vos KLemmas.vos
Proofs_C13b.vo Proofs_C13b.glob Proofs_C13b.v.beautified Proofs_C13b.required_vo: Proofs_C13b.v /verif/coq/Base.vo Kernels.vo KLemmas.vo Proofs_C13.vo
Proofs_C13b.vio: Proofs_C13b.v /verif/coq/Base.vio Kernels.vio KLemmas.vio Proofs_C13.vio
Proofs_C13b.vos Proofs_C13b.vok Proofs_C13b.required_vos: Proofs_C13b.v /verif/coq/Base.vos Kernels.vos KLemmas.vos Proofs_C13.vos
Proofs_C13c.vo Proofs_C13c.glob Proofs_C13c.v.beautified Proofs_C13c.required_vo: Proofs_C13c.v /verif/coq/Base.vo Kernels.vo KLemmas.vo Proofs_C13.vo Proofs_C13b.vo
Proofs_C13c.vio: Proofs_C13c.v /verif/coq/Base.vio Kernels.vio KLemmas.vio Proofs_C13.vio Proofs_C13b.vio
Proofs_C13c.vos Proofs_C13c.vok Proofs_C13c.required_vos: Proofs_C13c.v /verif/coq/Base.vos Kernels.vos KLemmas.vos Proofs_C13.vos Proofs_C13b.vos
Proofs_C13e.vo Proofs_C13e.glob Proofs_C13e.v.beautified Proofs_C13e.required_vo: Proofs_C13e.v /verif/coq/Base.vo Kernels.vo KLemmas.vo Proofs_C13.vo Proofs_C13b.vo Proofs_C13c.vo Kernels2.vo
Proofs_C13e.vio: Proofs_C13e.v /verif/coq/Base.vio Kernels.vio KLemmas.vio Proofs_C13.vio Proofs_C13b.vio Proofs_C13c.vio Kernels2.vio
Proofs_C13e.vos Proofs_C13e.vok Proofs_C13e.required_vos: Proofs_C13e.v /verif/coq/Base.vos Kernels.vos KLemmas.vos Proofs_C13.vos Proofs_C13b.vos Proofs_C13c.vos Kernels2.vos
Proofs_C13f.vo Proofs_C13f.glob Proofs_C13f.v.beautified Proofs_C13f.required_vo: Proofs_C13f.v /verif/coq/Base.vo Kernels.vo KLemmas.vo Proofs_C13.vo Proofs_C13b.vo Proofs_C13c.vo Kernels2.vo Proofs_C13e.vo
Proofs_C13f.vio: Proofs_C13f.v /verif/coq/Base.vio Kernels.vio KLemmas.vio Proofs_C13.vio Proofs_C13b.vio Proofs_C13c.vio Kernels2.vio Proofs_C13e.vio
Proofs_C13f.vos Proofs_C13f.vok Proofs_C13f.required_vos: Proofs_C13f.v /verif/coq/Base.vos Kernels.vos KLemmas.vos Proofs_C13.vos Proofs_C13b.vos Proofs_C13c.vos Kernels2.vos Proofs_C13e.vos
Props_C13.vo Props_C13.glob Props_C13.v.beautified Props_C13.required_vo: Props_C13.v /verif/coq/Base.vo Kernels.vo KLemmas.vo Proofs_C13.vo Proofs_C13b.vo Proofs_C13c.vo Proofs_C13e.vo Proofs_C13f.vo
Props_C13.vio: Props_C13.v /verif/coq/Base.vio Kernels.vio KLemmas.vio Proofs_C13.vio Proofs_C13b.vio Proofs_C13c.vio Proofs_C13e.vio Proofs_C13f.vio
Props_C13.vos Props_C13.vok Props_C13.required_vos: Props_C13.v /verif/coq/Base.vos Kernels.vos KLemmas.vos Proofs_C13.vos Proofs_C13b.vos Proofs_C13c.vos Proofs_C13e.vos Proofs_C13f.vos
