(** Proofs_Partition: the value-level fact behind awkward.partition.PartitionedArray (property C18, partitioned half).

    A partitioned array is a list of arrays [parts] of one type [t] standing for [concat parts].  partition.py
    implements every operation by the rule
        if first(self).axis_wrap_if_negative(axis) == 0:  operate on the concatenation (or a special combination)
        else:  apply the operation to every partition and keep the partitioning.
    The else-branch is right iff the operation is a homomorphism for list concatenation:
        op (xs ++ ys) = lift2 app (op xs) (op ys)          (values AND error status)
    This file proves it
      - once for the at-axis combinator [spec_ax f ..] (ANY per-list action [f], ANY axis: [spec_ax] never looks
        across the outermost level - an axis that resolves to the outermost level is handled by the callers before
        [spec_ax] is reached),
      - then for num, local_index, pad_none (both forms), combinations, argcombinations, firsts, flatten(axis),
        sort / argsort ([sort_spec], [sort_spec_inner]), reduce ([reduce_spec], [spec_reduce_py] with an axis) under
        the hypothesis "the axis does not resolve to the outermost level" ([axis_below_top] / [axis_inner]:
        boolean, stated with the existing [resolve_axis_top] / [resolve_axis]; negative axes included),
      - and WITHOUT any hypothesis on the axis for the operations that are element-wise at every axis:
        is_none, fill_none (all three forms), flatten(axis) (axis 0 only drops missing entries), singletons,
        values_astype.
    Error status: [lift2] takes the error of the LEFT operand when both fail - the first failing partition wins,
    exactly as for the concatenation (elements are visited in order; type-level errors are the same on both sides).
    n-ary versions over [concat parts]: [.._parts] (non-empty list of partitions, [mapM] over the partitions:
    the first failing partition gives the error) come from the generic [hom_parts] / [homv_parts].
    Axis-0 combination rules, axis=None reducers and the refuted statements are in Proofs_Partition2.v. *)
From Coq Require Import ZArith List Bool Lia ZifyBool.
From AwkV Require Import Base Layout Valid Types AtAxis Ops_Struct Ops_Flatten Ops_Option Ops_Reduce Ops_Sort
  Ops_Getitem Ops_Fields Proofs_Lists.
From AwkPy Require Import PySpec.
Import ListNotations.
Open Scope Z_scope.

(* ====================================================================== combining two partial results *)
(* both must succeed; if both fail the error of the left (earlier) one is reported *)
Definition lift2 {A B C} (f : A -> B -> C) (a : res A) (b : res B) : res C :=
  do x <- a; do y <- b; Ok (f x y).

Lemma lift2_ok {A B C} (f : A -> B -> C) a b c :
  lift2 f a b = Ok c <-> exists x y, a = Ok x /\ b = Ok y /\ c = f x y.
Proof.
  unfold lift2. destruct a as [x|e], b as [y|e']; cbn; split.
  - intro H. injection H as <-. eauto.
  - intros (x' & y' & Ha & Hb & ->). congruence.
  - discriminate.
  - intros (x' & y' & Ha & Hb & _). discriminate.
  - discriminate.
  - intros (x' & y' & Ha & Hb & _). discriminate.
  - discriminate.
  - intros (x' & y' & Ha & Hb & _). discriminate.
Qed.

(* which error wins: the left one if the left part fails, otherwise the right one *)
Lemma lift2_err {A B C} (f : A -> B -> C) a b e :
  lift2 f a b = Err e <-> a = Err e \/ (exists x, a = Ok x) /\ b = Err e.
Proof.
  unfold lift2. destruct a as [x|e1], b as [y|e2]; cbn; split; intro H.
  - discriminate.
  - destruct H as [H|[_ H]]; discriminate.
  - injection H as <-. right. eauto.
  - destruct H as [H|[_ H]]; [discriminate|]. congruence.
  - injection H as <-. auto.
  - destruct H as [H|[[x H] _]]; [congruence|discriminate].
  - injection H as <-. auto.
  - destruct H as [H|[[x H] _]]; [congruence|discriminate].
Qed.

(* array results are [VList ..]: concatenation of two / of many array results *)
Definition vapp (a b : value) : value :=
  match a, b with VList x, VList y => VList (x ++ y) | _, _ => VNone end.
Definition vconcat (rs : list value) : value := fold_right vapp (VList []) rs.

Lemma vconcat_VList (ls : list (list value)) : vconcat (map VList ls) = VList (concat ls).
Proof. induction ls as [|l ls IH]; [reflexivity|]. cbn [map vconcat fold_right concat]. fold (vconcat (map VList ls)). rewrite IH. reflexivity. Qed.

Lemma rmap_VList_lift2 (a b : res (list value)) :
  rmap VList (lift2 (@app value) a b) = lift2 vapp (rmap VList a) (rmap VList b).
Proof. destruct a, b; reflexivity. Qed.

Lemma lift2_Err_l {A B C} (f : A -> B -> C) e b : lift2 f (Err e) b = Err e.
Proof. reflexivity. Qed.

(* ====================================================================== the generic n-ary step *)
Section Hom.
  Context {B : Type}.
  Variable op : list value -> res (list B).
  Hypothesis op_app : forall xs ys, op (xs ++ ys) = lift2 (@app B) (op xs) (op ys).

  (* any number of partitions (also none): fold from the right, starting with the result for no element *)
  Lemma hom_fold (parts : list (list value)) :
    op (concat parts) = fold_right (fun p acc => lift2 (@app B) (op p) acc) (op []) parts.
  Proof. induction parts as [|p r IH]; [reflexivity|]. cbn [concat fold_right]. rewrite op_app, IH. reflexivity. Qed.

  (* at least one partition: apply to every partition (first failure wins), concatenate *)
  Lemma hom_parts (parts : list (list value)) :
    parts <> [] -> op (concat parts) = rmap (@concat B) (mapM op parts).
  Proof.
    induction parts as [|p r IH]; [congruence|]. intros _.
    destruct r as [|q r].
    - cbn [concat mapM]. rewrite app_nil_r. destruct (op p) as [y|e]; cbn; [|reflexivity].
      rewrite app_nil_r. reflexivity.
    - cbn [concat] in *. rewrite op_app. rewrite IH by discriminate.
      change (mapM op (p :: q :: r)) with (do y <- op p; do ys <- mapM op (q :: r); Ok (y :: ys)).
      unfold lift2. destruct (op p) as [y|e]; cbn [bind rmap]; [|reflexivity].
      destruct (mapM op (q :: r)) as [ys|e]; reflexivity.
  Qed.
End Hom.

Section HomV.
  Variable op : list value -> res value.
  Hypothesis op_app : forall xs ys, op (xs ++ ys) = lift2 vapp (op xs) (op ys).

  Lemma homv_fold (parts : list (list value)) :
    op (concat parts) = fold_right (fun p acc => lift2 vapp (op p) acc) (op []) parts.
  Proof. induction parts as [|p r IH]; [reflexivity|]. cbn [concat fold_right]. rewrite op_app, IH. reflexivity. Qed.

  Lemma homv_vapp_nil y p : op p = Ok y -> vapp y (VList []) = y.
  Proof.
    intros Hp. pose proof (op_app p []) as H. rewrite app_nil_r, Hp in H.
    unfold lift2 in H. cbn [bind] in H. destruct (op []) as [e0|e0]; cbn [bind] in H; [|discriminate].
    injection H as H. destruct y; cbn; try reflexivity; try (destruct e0; discriminate).
    rewrite app_nil_r. reflexivity.
  Qed.

  Lemma homv_parts (parts : list (list value)) :
    parts <> [] -> op (concat parts) = rmap vconcat (mapM op parts).
  Proof.
    induction parts as [|p r IH]; [congruence|]. intros _.
    destruct r as [|q r].
    - cbn [concat mapM]. rewrite app_nil_r. destruct (op p) as [y|e] eqn:Hp; cbn; [|reflexivity].
      fold (vapp y (VList [])). rewrite (homv_vapp_nil y p Hp). reflexivity.
    - cbn [concat] in *. rewrite op_app. rewrite IH by discriminate.
      change (mapM op (p :: q :: r)) with (do y <- op p; do ys <- mapM op (q :: r); Ok (y :: ys)).
      unfold lift2. destruct (op p) as [y|e]; cbn [bind rmap]; [|reflexivity].
      destruct (mapM op (q :: r)) as [ys|e]; reflexivity.
  Qed.
End HomV.

(* ====================================================================== element-wise operations *)
Lemma mapM_app_lift2 {A B} (f : A -> res B) l m :
  mapM f (l ++ m) = lift2 (@app B) (mapM f l) (mapM f m).
Proof. apply mapM_app. Qed.

Lemma rmap_mapM_app (f : value -> res value) xs ys :
  rmap VList (mapM f (xs ++ ys)) = lift2 vapp (rmap VList (mapM f xs)) (rmap VList (mapM f ys)).
Proof. rewrite mapM_app_lift2. apply rmap_VList_lift2. Qed.

(* mapM followed by a post-processing that distributes over ++ *)
Lemma mapM_post_app {A B C} (f : A -> res B) (g : list B -> list C) xs ys :
  (forall a b, g (a ++ b) = g a ++ g b) ->
  (do ls <- mapM f (xs ++ ys); Ok (g ls)) =
  lift2 (@app C) (do ls <- mapM f xs; Ok (g ls)) (do ls <- mapM f ys; Ok (g ls)).
Proof.
  intro Hg. rewrite mapM_app. unfold lift2.
  destruct (mapM f xs) as [a|e]; cbn [bind]; [|reflexivity].
  destruct (mapM f ys) as [b|e]; cbn [bind]; [|reflexivity]. rewrite Hg. reflexivity.
Qed.

(* ====================================================================== the at-axis combinator *)
(* ANY per-list action, ANY axis: the type-level check is the same on both sides, the descent is per element *)
Theorem spec_ax_app_lemma (f : ty -> list value -> res value) (unk_ok : bool) (fchk : ty -> bool) (str_ok : bool)
        (t : ty) (axis : Z) (xs ys : list value) :
  spec_ax f unk_ok fchk str_ok t axis (xs ++ ys) =
  lift2 (@app value) (spec_ax f unk_ok fchk str_ok t axis xs) (spec_ax f unk_ok fchk str_ok t axis ys).
Proof.
  unfold spec_ax. destruct (check_ax unk_ok fchk str_ok t 0 axis) as [u|e]; cbn [bind]; [|reflexivity].
  apply mapM_app.
Qed.

Theorem spec_ax_parts_lemma (f : ty -> list value -> res value) (unk_ok : bool) (fchk : ty -> bool) (str_ok : bool)
        (t : ty) (axis : Z) (parts : list (list value)) :
  parts <> [] ->
  spec_ax f unk_ok fchk str_ok t axis (concat parts) =
  rmap (@concat value) (mapM (spec_ax f unk_ok fchk str_ok t axis) parts).
Proof. apply hom_parts. intros. apply spec_ax_app_lemma. Qed.

Theorem spec_ax_fold_lemma (f : ty -> list value -> res value) (unk_ok : bool) (fchk : ty -> bool) (str_ok : bool)
        (t : ty) (axis : Z) (parts : list (list value)) :
  spec_ax f unk_ok fchk str_ok t axis (concat parts) =
  fold_right (fun p acc => lift2 (@app value) (spec_ax f unk_ok fchk str_ok t axis p) acc)
             (spec_ax f unk_ok fchk str_ok t axis []) parts.
Proof. apply hom_fold. intros. apply spec_ax_app_lemma. Qed.

(* ====================================================================== "the axis is not the outermost one" *)
(* partition.py's test [first(self).axis_wrap_if_negative(axis) == 0] is false (an axis that cannot be resolved
   makes both sides fail with the same error) *)
Definition axis_below_top (t : ty) (axis : Z) : bool :=
  match resolve_axis_top t axis with Ok ax => negb (ax =? 0) | Err _ => true end.
(* the same for the operations specified in the core with [resolve_axis t 0] (sort, reduce, flatten) *)
Definition axis_inner (t : ty) (axis : Z) : bool :=
  match resolve_axis t 0 axis with Ok ax => negb (ax =? 0) | Err _ => true end.

(* when the whole-array resolution succeeds the two agree on "outermost or not" *)
Lemma top_resolved_inner t axis ax :
  resolve_axis_top t axis = Ok ax -> (ax =? 0) = false -> axis_inner t axis = true.
Proof.
  unfold resolve_axis_top, axis_inner, resolve_axis.
  remember (1 + pl_depth t) as pd eqn:Hpd. clear Hpd.
  destruct (0 <=? axis) eqn:Ea.
  - intros H Hz. injection H as ->. rewrite Hz. reflexivity.
  - destruct (minmax t) as [mn mx].
    destruct ((mn =? pd) && (mx =? pd)) eqn:Epd.
    + destruct (pd + axis <? 0) eqn:El; [discriminate|].
      intros H Hz. injection H as <-.
      assert (mn = mx) as -> by lia. rewrite Z.eqb_refl.
      destruct (mx + axis <? 0); [reflexivity|].
      replace (0 + mx + axis =? 0) with false by lia. reflexivity.
    + destruct (mn + axis =? 0) eqn:Em; [discriminate|].
      intros H Hz. injection H as <-.
      destruct (mn =? mx) eqn:Emm.
      * destruct (mx + axis <? 0); [reflexivity|].
        replace (0 + mx + axis =? 0) with false by lia. reflexivity.
      * rewrite Hz. reflexivity.
Qed.

Lemma axis_below_top_inner t axis :
  axis_below_top t axis = true -> (exists ax, resolve_axis_top t axis = Ok ax) -> axis_inner t axis = true.
Proof.
  unfold axis_below_top. intros H [ax Hax]. rewrite Hax in H.
  apply (top_resolved_inner t axis ax Hax). destruct (ax =? 0); [discriminate|reflexivity].
Qed.

(* ====================================================================== the operations: axis below the top *)
Ltac top_case H :=
  unfold axis_below_top in H;
  match type of H with
  | context [resolve_axis_top ?t ?a] =>
      destruct (resolve_axis_top t a) as [ax|e]; cbn [bind]; [|reflexivity];
      destruct (ax =? 0) eqn:Eax0; [discriminate H|]
  end.

(* ---- ak.num ---- *)
Theorem spec_num_app_lemma axis t xs ys :
  axis_below_top t axis = true ->
  spec_num axis t (xs ++ ys) = lift2 vapp (spec_num axis t xs) (spec_num axis t ys).
Proof.
  intro H. unfold spec_num. top_case H.
  unfold num_spec. rewrite spec_ax_app_lemma. apply rmap_VList_lift2.
Qed.
Theorem spec_num_parts_lemma axis t parts :
  axis_below_top t axis = true -> parts <> [] ->
  spec_num axis t (concat parts) = rmap vconcat (mapM (spec_num axis t) parts).
Proof. intros H. apply homv_parts. intros. apply spec_num_app_lemma, H. Qed.

(* ---- ak.local_index ---- *)
Theorem spec_local_index_app_lemma axis t xs ys :
  axis_below_top t axis = true ->
  spec_local_index axis t (xs ++ ys) = lift2 vapp (spec_local_index axis t xs) (spec_local_index axis t ys).
Proof.
  intro H. unfold spec_local_index. top_case H.
  unfold localindex_spec. rewrite spec_ax_app_lemma. apply rmap_VList_lift2.
Qed.
Theorem spec_local_index_parts_lemma axis t parts :
  axis_below_top t axis = true -> parts <> [] ->
  spec_local_index axis t (concat parts) = rmap vconcat (mapM (spec_local_index axis t) parts).
Proof. intros H. apply homv_parts. intros. apply spec_local_index_app_lemma, H. Qed.

(* ---- ak.pad_none, clip = False and clip = True ---- *)
Theorem spec_pad_none_app_lemma target axis clip t xs ys :
  axis_below_top t axis = true ->
  spec_pad_none target axis clip t (xs ++ ys) =
  lift2 vapp (spec_pad_none target axis clip t xs) (spec_pad_none target axis clip t ys).
Proof.
  intro H. unfold spec_pad_none. top_case H.
  destruct clip.
  - unfold rpadclip_spec. destruct (target <? 0); [reflexivity|].
    rewrite spec_ax_app_lemma. apply rmap_VList_lift2.
  - unfold rpad_spec. rewrite spec_ax_app_lemma. apply rmap_VList_lift2.
Qed.
Theorem spec_pad_none_parts_lemma target axis clip t parts :
  axis_below_top t axis = true -> parts <> [] ->
  spec_pad_none target axis clip t (concat parts) = rmap vconcat (mapM (spec_pad_none target axis clip t) parts).
Proof. intros H. apply homv_parts. intros. apply spec_pad_none_app_lemma, H. Qed.

(* ---- ak.combinations ---- *)
Theorem spec_combinations_app_lemma n repl axis fields t xs ys :
  axis_below_top t axis = true ->
  spec_combinations n repl axis fields t (xs ++ ys) =
  lift2 vapp (spec_combinations n repl axis fields t xs) (spec_combinations n repl axis fields t ys).
Proof.
  intro H. unfold spec_combinations.
  destruct (n <? 1); [reflexivity|]. destruct (negb (fields_ok n fields)); [reflexivity|].
  top_case H. rewrite spec_ax_app_lemma. apply rmap_VList_lift2.
Qed.
Theorem spec_combinations_parts_lemma n repl axis fields t parts :
  axis_below_top t axis = true -> parts <> [] ->
  spec_combinations n repl axis fields t (concat parts) =
  rmap vconcat (mapM (spec_combinations n repl axis fields t) parts).
Proof. intros H. apply homv_parts. intros. apply spec_combinations_app_lemma, H. Qed.

(* ---- ak.argcombinations (refuses negative axes; axis 0 is the outermost level) ---- *)
Theorem spec_argcombinations_app_lemma n repl axis fields t xs ys :
  axis_below_top t axis = true ->
  spec_argcombinations n repl axis fields t (xs ++ ys) =
  lift2 vapp (spec_argcombinations n repl axis fields t xs) (spec_argcombinations n repl axis fields t ys).
Proof.
  intro H. unfold spec_argcombinations.
  destruct (axis <? 0) eqn:En; [reflexivity|].
  destruct (n <? 1); [reflexivity|]. destruct (negb (fields_ok n fields)); [reflexivity|].
  destruct (axis =? 0) eqn:E0.
  - exfalso. unfold axis_below_top, resolve_axis_top in H.
    replace (0 <=? axis) with true in H by lia. rewrite E0 in H. discriminate.
  - rewrite spec_ax_app_lemma. apply rmap_VList_lift2.
Qed.
Theorem spec_argcombinations_parts_lemma n repl axis fields t parts :
  axis_below_top t axis = true -> parts <> [] ->
  spec_argcombinations n repl axis fields t (concat parts) =
  rmap vconcat (mapM (spec_argcombinations n repl axis fields t) parts).
Proof. intros H. apply homv_parts. intros. apply spec_argcombinations_app_lemma, H. Qed.

(* ---- ak.firsts ---- *)
Theorem spec_firsts_app_lemma axis t xs ys :
  axis_below_top t axis = true ->
  spec_firsts axis t (xs ++ ys) = lift2 vapp (spec_firsts axis t xs) (spec_firsts axis t ys).
Proof.
  intro H. unfold spec_firsts. top_case H.
  destruct (ax <? 0); [reflexivity|].
  destruct (rec_above (Z.to_nat (ax - 1)) t); [reflexivity|].
  rewrite spec_ax_app_lemma. apply rmap_VList_lift2.
Qed.
Theorem spec_firsts_parts_lemma axis t parts :
  axis_below_top t axis = true -> parts <> [] ->
  spec_firsts axis t (concat parts) = rmap vconcat (mapM (spec_firsts axis t) parts).
Proof. intros H. apply homv_parts. intros. apply spec_firsts_app_lemma, H. Qed.

(* ====================================================================== element-wise at EVERY axis *)
(* ---- ak.is_none: also at axis 0 (one Boolean per entry) and through unions ---- *)
Theorem spec_is_none_app_lemma axis t xs ys :
  spec_is_none axis t (xs ++ ys) = lift2 vapp (spec_is_none axis t xs) (spec_is_none axis t ys).
Proof.
  assert (Hgen : forall xs ys,
    (do ax <- resolve_axis_top t axis;
     if ax =? 0 then is_none_f t (xs ++ ys)
     else rmap VList (spec_ax is_none_f true (fun _ => true) false t axis (xs ++ ys))) =
    lift2 vapp
      (do ax <- resolve_axis_top t axis;
       if ax =? 0 then is_none_f t xs else rmap VList (spec_ax is_none_f true (fun _ => true) false t axis xs))
      (do ax <- resolve_axis_top t axis;
       if ax =? 0 then is_none_f t ys else rmap VList (spec_ax is_none_f true (fun _ => true) false t axis ys))).
  { intros a b. destruct (resolve_axis_top t axis) as [ax|e]; cbn [bind]; [|reflexivity].
    destruct (ax =? 0).
    - unfold is_none_f, lift2. cbn [bind vapp]. rewrite map_app. reflexivity.
    - rewrite spec_ax_app_lemma. apply rmap_VList_lift2. }
  unfold spec_is_none.
  destruct t; try apply Hgen.
  unfold spec_is_none_union. destruct (axis <? 0); [reflexivity|]. apply rmap_mapM_app.
Qed.
Theorem spec_is_none_parts_lemma axis t parts :
  parts <> [] -> spec_is_none axis t (concat parts) = rmap vconcat (mapM (spec_is_none axis t) parts).
Proof. apply homv_parts. intros. apply spec_is_none_app_lemma. Qed.

(* ---- ak.fill_none: axis given, axis=None, deprecated default ---- *)
Theorem spec_fill_none_app_lemma fa v0 t xs ys :
  spec_fill_none fa v0 t (xs ++ ys) = lift2 vapp (spec_fill_none fa v0 t xs) (spec_fill_none fa v0 t ys).
Proof.
  unfold spec_fill_none.
  destruct (mixes_bool_num [t; TNum DInt64]); [reflexivity|].
  destruct fa as [a| |].
  - destruct (resolve_axis_top t a) as [ax|e]; cbn [bind]; [|reflexivity]. apply rmap_mapM_app.
  - apply rmap_mapM_app.
  - destruct (is_flat t); [apply rmap_mapM_app|]. unfold fillna_spec. apply rmap_mapM_app.
Qed.
Theorem spec_fill_none_parts_lemma fa v0 t parts :
  parts <> [] -> spec_fill_none fa v0 t (concat parts) = rmap vconcat (mapM (spec_fill_none fa v0 t) parts).
Proof. apply homv_parts. intros. apply spec_fill_none_app_lemma. Qed.

(* ---- Content::flatten (core specification), axis below the top ---- *)
Lemma flatten_spec_app_lemma axis t xs ys :
  flatten_spec axis t (xs ++ ys) = lift2 (@app value) (flatten_spec axis t xs) (flatten_spec axis t ys).
Proof.
  unfold flatten_spec. destruct (resolve_axis t 0 axis) as [ax|e]; cbn [bind]; [|reflexivity].
  destruct (ax =? 0); [reflexivity|].
  destruct (ax =? 1).
  - destruct (is_plain_list t); [|reflexivity].
    apply (mapM_post_app elems_of (@concat value)). intros. apply concat_app.
  - apply spec_ax_app_lemma.
Qed.

(* ---- ak.flatten(array, axis): EVERY axis (axis 0 only drops the missing entries of the outer level; partition.py
        applies flatten to each partition whatever the axis) ---- *)
Theorem spec_flatten_axis_app_lemma a t xs ys :
  spec_flatten (Some a) t (xs ++ ys) = lift2 vapp (spec_flatten (Some a) t xs) (spec_flatten (Some a) t ys).
Proof.
  unfold spec_flatten. destruct (resolve_axis_top t a) as [ax|e]; cbn [bind]; [|reflexivity].
  destruct ((a =? 0) || (ax =? 0)).
  - destruct t; try reflexivity; unfold lift2; cbn [bind vapp]; try reflexivity.
    rewrite filter_app. reflexivity.
  - rewrite flatten_spec_app_lemma. apply rmap_VList_lift2.
Qed.
Theorem spec_flatten_axis_parts_lemma a t parts :
  parts <> [] -> spec_flatten (Some a) t (concat parts) = rmap vconcat (mapM (spec_flatten (Some a) t) parts).
Proof. apply homv_parts. intros. apply spec_flatten_axis_app_lemma. Qed.

(* ---- ak.singletons, ak.values_astype (no axis) ---- *)
Theorem spec_singletons_app_lemma t xs ys :
  spec_singletons t (xs ++ ys) = lift2 vapp (spec_singletons t xs) (spec_singletons t ys).
Proof. apply rmap_mapM_app. Qed.
Theorem spec_values_astype_app_lemma to t xs ys :
  spec_values_astype to t (xs ++ ys) = lift2 vapp (spec_values_astype to t xs) (spec_values_astype to t ys).
Proof. apply rmap_mapM_app. Qed.

(* ====================================================================== sort / argsort *)
Ltac inner_case H :=
  unfold axis_inner in H;
  match type of H with
  | context [resolve_axis ?t 0 ?a] =>
      destruct (resolve_axis t 0 a) as [ax|e]; cbn [bind]; [|reflexivity];
      destruct (ax =? 0) eqn:Eax0; [discriminate H|]
  end.

(* every axis below the top ("column sort" for a non-innermost axis) *)
Theorem sort_spec_app_lemma asc argsort axis t xs ys :
  axis_inner t axis = true ->
  sort_spec asc argsort axis t (xs ++ ys) =
  lift2 (@app value) (sort_spec asc argsort axis t xs) (sort_spec asc argsort axis t ys).
Proof.
  intro H. unfold sort_spec. inner_case H.
  destruct (negb (sortable t)); [reflexivity|]. apply spec_ax_app_lemma.
Qed.
Theorem sort_spec_parts_lemma asc argsort axis t parts :
  axis_inner t axis = true -> parts <> [] ->
  sort_spec asc argsort axis t (concat parts) = rmap (@concat value) (mapM (sort_spec asc argsort axis t) parts).
Proof. intros H. apply hom_parts. intros. apply sort_spec_app_lemma, H. Qed.

(* the innermost-axis specification used by the layout model *)
Theorem sort_spec_inner_app_lemma asc argsort axis t xs ys :
  axis_inner t axis = true ->
  sort_spec_inner asc argsort axis t (xs ++ ys) =
  lift2 (@app value) (sort_spec_inner asc argsort axis t xs) (sort_spec_inner asc argsort axis t ys).
Proof.
  intro H. unfold sort_spec_inner. inner_case H.
  destruct (negb (sortable t)); [reflexivity|]. apply spec_ax_app_lemma.
Qed.

(* ====================================================================== reducers with an axis *)
Theorem reduce_spec_app_lemma r axis mask keep t xs ys :
  axis_inner t axis = true ->
  reduce_spec r axis mask keep t (xs ++ ys) =
  lift2 (@app value) (reduce_spec r axis mask keep t xs) (reduce_spec r axis mask keep t ys).
Proof.
  intro H. unfold reduce_spec. inner_case H.
  destruct (negb (reducible t)); [reflexivity|]. apply spec_ax_app_lemma.
Qed.
Theorem reduce_spec_parts_lemma r axis mask keep t parts :
  axis_inner t axis = true -> parts <> [] ->
  reduce_spec r axis mask keep t (concat parts) =
  rmap (@concat value) (mapM (reduce_spec r axis mask keep t) parts).
Proof. intros H. apply hom_parts. intros. apply reduce_spec_app_lemma, H. Qed.

(* ak.sum / ak.min / ... (array, axis=a, keepdims, mask_identity) *)
Theorem spec_reduce_py_app_lemma r a mask keep t xs ys :
  axis_inner t a = true ->
  spec_reduce_py r (Some a) mask keep t (xs ++ ys) =
  lift2 vapp (spec_reduce_py r (Some a) mask keep t xs) (spec_reduce_py r (Some a) mask keep t ys).
Proof.
  intro H. unfold spec_reduce_py.
  rewrite (reduce_spec_app_lemma r a _ keep t xs ys H).
  unfold axis_inner in H.
  destruct (resolve_axis t 0 a) as [ax|e] eqn:Er.
  - destruct (ax =? 0) eqn:E0; [discriminate|]. cbn [andb bind].
    unfold lift2.
    destruct (reduce_spec r a _ keep t xs) as [ox|e]; cbn [bind]; [|reflexivity].
    destruct (reduce_spec r a _ keep t ys) as [oy|e]; cbn [bind]; rewrite ?E0; reflexivity.
  - (* the axis cannot be resolved: reduce_spec fails first, on both sides *)
    assert (Hf : forall vs m, reduce_spec r a m keep t vs = Err e).
    { intros vs m. unfold reduce_spec. rewrite Er. reflexivity. }
    rewrite !Hf. reflexivity.
Qed.
Theorem spec_reduce_py_parts_lemma r a mask keep t parts :
  axis_inner t a = true -> parts <> [] ->
  spec_reduce_py r (Some a) mask keep t (concat parts) =
  rmap vconcat (mapM (spec_reduce_py r (Some a) mask keep t) parts).
Proof. intros H. apply homv_parts. intros. apply spec_reduce_py_app_lemma, H. Qed.

(* partition.py's own test for reducers ("not branch and negaxis == depth" -> concatenate, else per partition):
   [branch] = the depths of the record fields differ, [depth] = the common depth otherwise *)
Definition py_reduce_whole (t : ty) (axis : Z) : bool :=
  let (mn, mx) := minmax t in
  let branch := negb (mn =? mx) in
  let negaxis := if negb branch && (- axis <=? 0) then - axis + mx else - axis in
  negb branch && (negaxis =? mx).

(* whenever that test sends the reducer to the partitions AND the axis is not literally 0, the axis is an inner one:
   the per-partition branch is then justified by [spec_reduce_py_app_lemma] *)
Theorem py_reduce_rule_sound_lemma t axis :
  py_reduce_whole t axis = false -> axis <> 0 -> axis_inner t axis = true.
Proof.
  unfold py_reduce_whole, axis_inner, resolve_axis. destruct (minmax t) as [mn mx].
  intros H Ha. destruct (mn =? mx) eqn:Emm; cbn [negb andb] in H.
  - destruct (0 <=? axis) eqn:E0.
    + replace (axis =? 0) with false by lia. reflexivity.
    + replace (- axis <=? 0) with false in H by lia.
      destruct (mx + axis <? 0); [reflexivity|].
      replace (0 + mx + axis =? 0) with false by lia. reflexivity.
  - destruct (0 <=? axis) eqn:E0.
    + replace (axis =? 0) with false by lia. reflexivity.
    + destruct (mn + axis =? 0); [reflexivity|]. replace (axis =? 0) with false by lia. reflexivity.
Qed.
