(** Reducers.  Spec [zipred]: combine, position by position, the values that differ only
    along the reduced axis (on type + value).  Model [zl]: the same on layouts, by index
    arithmetic over offsets (groups of (position-in-group, position-in-content)).
    Both are used through the at-axis descent of AtAxis.v.  No proofs here. *)
From AwkV Require Export AtAxis Carry.

Inductive reducer := RCount | RCountNonzero | RSum | RProd | RAny | RAll | RMin | RMax | RArgmin | RArgmax.

Definition two63 : Z := 9223372036854775808.
Definition two64 : Z := 18446744073709551616.
Definition wrap_s64 (z : Z) : Z := (z + two63) mod two64 - two63.
Definition wrap_u64 (z : Z) : Z := z mod two64.

Definition is_unsigned (dt : dtype) : bool :=
  match dt with DUInt8 | DUInt16 | DUInt32 | DUInt64 => true | _ => false end.
Definition is_float (dt : dtype) : bool :=
  match dt with DFloat32 | DFloat64 => true | _ => false end.
Definition wrap_acc (dt : dtype) (z : Z) : Z :=
  if is_float dt then z else if is_unsigned dt then wrap_u64 z else wrap_s64 z.

Definition int_max (dt : dtype) : Z :=
  match dt with
  | DBool => 1 | DInt8 => 127 | DInt16 => 32767 | DInt32 => 2147483647 | DInt64 => two63 - 1
  | DUInt8 => 255 | DUInt16 => 65535 | DUInt32 => 4294967295 | DUInt64 => two64 - 1
  | _ => 0
  end.
Definition int_min (dt : dtype) : Z :=
  match dt with
  | DInt8 => -128 | DInt16 => -32768 | DInt32 => -2147483648 | DInt64 => - two63
  | _ => 0
  end.

(* first position (in group numbering) of an extremal element *)
Fixpoint argbest (better : Z -> Z -> bool) (best : option (Z * Z)) (l : list (Z * Z)) : option (Z * Z) :=
  match l with
  | [] => best
  | (j, x) :: rest =>
      match best with
      | None => argbest better (Some (j, x)) rest
      | Some (_, bx) => if better x bx then argbest better (Some (j, x)) rest else argbest better best rest
      end
  end.

(* one group of integer leaves [(position in group, value)] -> reduced leaf.
   None = no value (empty group under mask_identity) *)
Definition leaf_reduce (r : reducer) (mask : bool) (dt : dtype) (l : list (Z * Z)) : option value :=
  let xs := map snd l in
  let isb := match dt with DBool => true | _ => false end in
  match l, mask with
  | [], true => None
  | _, _ =>
      Some (match r with
            | RCount => VNum (DZ (zlen l))
            | RCountNonzero => VNum (DZ (zlen (filter (fun x => negb (x =? 0)) xs)))
            | RSum => VNum (DZ (wrap_acc dt (fold_left Z.add xs 0)))
            | RProd => VNum (DZ (wrap_acc dt (fold_left Z.mul xs 1)))
            | RAny => VBool (existsb (fun x => negb (x =? 0)) xs)
            | RAll => VBool (forallb (fun x => negb (x =? 0)) xs)
            | RMin =>
                if isb then VBool (forallb (fun x => negb (x =? 0)) xs)
                else match xs with
                     | [] => if is_float dt then VNum (DInf false) else VNum (DZ (int_max dt))
                     | x :: rest => VNum (DZ (fold_left Z.min rest x))
                     end
            | RMax =>
                if isb then VBool (existsb (fun x => negb (x =? 0)) xs)
                else match xs with
                     | [] => if is_float dt then VNum (DInf true) else VNum (DZ (int_min dt))
                     | x :: rest => VNum (DZ (fold_left Z.max rest x))
                     end
            | RArgmin => match argbest Z.ltb None l with Some (j, _) => VNum (DZ j) | None => VNum (DZ (-1)) end
            | RArgmax => match argbest Z.gtb None l with Some (j, _) => VNum (DZ j) | None => VNum (DZ (-1)) end
            end)
  end.

Definition leaf_int (v : value) : res Z :=
  match v with
  | VNum (DZ z) => Ok z
  | VBool b => Ok (if b then 1 else 0)
  | _ => Err EOob        (* NaN / infinities are outside the modelled fragment of the reducers *)
  end.

(* ---------------------------------------------------------------- spec on (type, values) *)
Section Spec.
  Variable r : reducer.
  Variable mask : bool.

  Definition opt_val (o : option value) : value := match o with Some v => v | None => VNone end.

  Definition column (p : Z) (ls : list (Z * list value)) : list (Z * value) :=
    flat_map (fun jl : Z * list value =>
                match get (snd jl) p with Ok v => [(fst jl, v)] | Err _ => [] end) ls.

  Fixpoint zipred (t : ty) (xs : list (Z * value)) {struct t} : res value :=
    match t with
    | TNum dt =>
        do l <- mapM (fun jv : Z * value => do z <- leaf_int (snd jv); Ok (fst jv, z)) xs;
        Ok (opt_val (leaf_reduce r mask dt l))
    | TUnk =>
        match xs with [] => Ok (opt_val (leaf_reduce r mask DFloat64 [])) | _ => Err EValue end
    | TList _ (Some _) _ => Err EValue
    | TList _ None t' =>
        do ls <- mapM (fun jv : Z * value =>
                         match snd jv with VList l => Ok (fst jv, l) | _ => Err EValue end) xs;
        let maxlen := fold_left Z.max (map (fun jl => zlen (snd jl)) ls) 0 in
        rmap VList (mapM (fun p => zipred t' (column p ls)) (iota maxlen))
    | TOpt t' =>
        zipred t' (filter (fun jv : Z * value => match snd jv with VNone => false | _ => true end) xs)
    | TRec ks ts =>
        let field (i : Z) (jv : Z * value) : res (Z * value) :=
          match snd jv with
          | VRec fs => do kv <- get fs i; Ok (fst jv, snd kv)
          | VTup vs => do v <- get vs i; Ok (fst jv, v)
          | _ => Err EValue
          end in
        do outs <- (fix go (i : Z) (ts : list ty) : res (list value) :=
                      match ts with
                      | [] => Ok []
                      | t1 :: ts' =>
                          do col <- mapM (field i) xs;
                          do y <- zipred t1 col;
                          do ys <- go (i + 1) ts';
                          Ok (y :: ys)
                      end) 0 ts;
        match ks with
        | Some names => if Nat.eqb (length names) (length outs) then Ok (VRec (zip names outs)) else Err EValue
        | None => Ok (VTup outs)
        end
    | TUnion _ => Err EValue
    end.

  Definition enum {A} (l : list A) : list (Z * A) := zip (iota (zlen l)) l.
  Definition reduce_f (keepdims : bool) (t : ty) (l : list value) : res value :=
    do v <- zipred t (enum l); Ok (if keepdims then VList [v] else v).
End Spec.

Fixpoint reducible (t : ty) : bool :=
  match t with
  | TNum _ | TUnk => true
  | TList _ (Some _) _ => false
  | TList _ None t' | TOpt t' => reducible t'
  | TRec _ ts => forallb reducible ts
  | TUnion _ => false
  end.

(* result of the whole operation: [Some v] for axis 0 without keepdims (a single value), else an array *)
Definition reduce_spec (r : reducer) (axis : Z) (mask keepdims : bool) (t : ty) (vs : list value)
  : res (list value) :=
  do ax <- resolve_axis t 0 axis;
  if negb (reducible t) then Err EValue
  else if ax =? 0 then do v <- zipred r mask t (enum vs); Ok [v]
  else spec_ax (reduce_f r mask keepdims) false reducible true t ax vs.

(* ---------------------------------------------------------------- model on layouts *)
Section Model.
  Variable r : reducer.
  Variable mask : bool.

  Definition datum_int (dt : dtype) (d : datum) : res Z :=
    match d with DZ z => Ok (match dt with DBool => if z =? 0 then 0 else 1 | _ => z end) | _ => Err EOob end.

  Definition result_dtype (dt : dtype) : dtype :=
    match r with
    | RCount | RCountNonzero | RArgmin | RArgmax => DInt64
    | RAny | RAll => DBool
    | RSum | RProd => if is_float dt then dt else if is_unsigned dt then DUInt64 else DInt64
    | RMin | RMax => dt
    end.

  Definition datum_of_value (v : value) : datum :=
    match v with VNum d => d | VBool b => DZ (if b then 1 else 0) | _ => DZ 0 end.

  Definition leaves (dt : dtype) (outs : list (option value)) : content :=
    let data := map (fun o => match o with Some v => datum_of_value v | None => DZ 0 end) outs in
    let np := Numpy (result_dtype dt) [zlen outs] data in
    if mask then
      IndexedOption I64 (map (fun io : Z * option value => match snd io with Some _ => fst io | None => -1 end)
                             (zip (iota (zlen outs)) outs)) np
    else np.

  (* groups: for each output element the (position-in-group, position-in-content) pairs *)
  Fixpoint zl (p : option akind) (c : content) (groups : list (list (Z * Z))) {struct c} : res content :=
    match c with
    | Numpy dt shape data =>
        match shape with
        | [_] =>
            do outs <- mapM (fun G =>
                               do l <- mapM (fun jp : Z * Z => do d <- get data (snd jp);
                                                               do z <- datum_int dt d; Ok (fst jp, z)) G;
                               Ok (leaf_reduce r mask dt l)) groups;
            Ok (leaves dt outs)
        | _ => Err EValue
        end
    | Empty =>
        if forallb (fun G : list (Z * Z) => match G with [] => true | _ => false end) groups
        then Ok (leaves DFloat64 (map (fun _ => leaf_reduce r mask DFloat64 []) groups))
        else Err EOob
    | ListOffset _ _ c' | ListA _ _ _ c' | Regular c' _ _ =>
        if is_strk p then Err EValue else
        do bc <- list_bounds c;
        let b := fst bc in
        do subs <- mapM (fun G => mapM (fun jp : Z * Z => do se <- get b (snd jp); Ok (fst jp, se)) G) groups;
        let maxlen (sub : list (Z * (Z * Z))) :=
          fold_left Z.max (map (fun jse : Z * (Z * Z) => snd (snd jse) - fst (snd jse)) sub) 0 in
        let cols (sub : list (Z * (Z * Z))) : list (list (Z * Z)) :=
          map (fun q => flat_map (fun jse : Z * (Z * Z) =>
                                    let s := fst (snd jse) in let e := snd (snd jse) in
                                    if s + q <? e then [(fst jse, s + q)] else []) sub)
              (iota (maxlen sub)) in
        do inner <- zl None c' (concat (map cols subs));
        Ok (ListOffset I64 (offsets_from 0 (map maxlen subs)) inner)
    | Indexed _ ix c' =>
        do gs <- mapM (fun G => mapM (fun jp : Z * Z => do i <- get ix (snd jp); Ok (fst jp, i)) G) groups;
        zl None c' gs
    | IndexedOption _ _ c' | ByteMasked _ _ c' | BitMasked _ _ _ _ c' | Unmasked c' =>
        do oi <- option_index c;
        let ix := fst oi in
        do gs <- mapM (fun G =>
                         do l <- mapM (fun jp : Z * Z => do i <- get ix (snd jp); Ok (fst jp, i)) G;
                         Ok (filter (fun ji : Z * Z => 0 <=? snd ji) l)) groups;
        zl None c' gs
    | Record cs ks n =>
        do cs' <- (fix all (l : list content) : res (list content) :=
                     match l with
                     | [] => Ok []
                     | x :: xs => do y <- zl None x groups; do ys <- all xs; Ok (y :: ys)
                     end) cs;
        Ok (Record cs' ks (zlen groups))
    | Union _ _ _ _ => Err EValue
    | Par a _ c' => zl a c' groups
    end.

  Definition reduce_g (keepdims : bool) (_ : option akind) (c : content) : res content :=
    do bc <- list_bounds c;
    let groups := map (fun se : Z * Z => map (fun j => (j, fst se + j)) (iota (snd se - fst se))) (fst bc) in
    do out <- zl None (snd bc) groups;
    Ok (if keepdims then Regular out 1 (zlen groups) else out).
End Model.

Definition reduce_model (r : reducer) (axis : Z) (mask keepdims : bool) (c : content) : res content :=
  let t := type_of c in
  do ax <- resolve_axis t 0 axis;
  if negb (reducible t) then Err EValue
  else if ax =? 0 then
    let c' := expand c in
    zl r mask None c' [map (fun j => (j, j)) (iota (clen c'))]
  else model_ax (reduce_g r mask keepdims) (Err EValue) true c ax.
