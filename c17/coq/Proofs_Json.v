(** C17 proofs, part 4: a well-formed form survives Form -> JSON -> Form. *)
From Coq Require Import ZArith List Bool Lia.
From AwkV Require Import Base Layout.
From AwkTypes Require Import Json Forms.
Import ListNotations.
Open Scope Z_scope.

(* ---------------------------------------------------------------- byte strings *)
Lemma bytes_eqb_eq (a b : bytes) : bytes_eqb a b = true -> a = b.
Proof.
  revert b. unfold bytes_eqb. induction a as [|x a IH]; intros [|y b]; simpl; try discriminate; auto.
  intros H. apply andb_true_iff in H as [H1 H2]. apply Z.eqb_eq in H1. subst. f_equal. auto.
Qed.
Lemma bytes_eqb_refl (a : bytes) : bytes_eqb a a = true.
Proof. unfold bytes_eqb. induction a; simpl; [reflexivity|]. rewrite Z.eqb_refl. exact IHa. Qed.

Lemma bytes_ltb_irrefl a : bytes_ltb a a = false.
Proof. induction a as [|x a IH]; simpl; [reflexivity|]. rewrite Z.ltb_irrefl. exact IH. Qed.

Lemma bytes_ltb_trans a : forall b c, bytes_ltb a b = true -> bytes_ltb b c = true -> bytes_ltb a c = true.
Proof.
  induction a as [|x a IH]; intros [|y b] [|z c] H1 H2; simpl in *; try discriminate; try reflexivity.
  destruct (x <? y) eqn:Exy.
  - apply Z.ltb_lt in Exy. destruct (y <? z) eqn:Eyz.
    + apply Z.ltb_lt in Eyz. replace (x <? z) with true by (symmetry; apply Z.ltb_lt; lia). reflexivity.
    + destruct (z <? y) eqn:Ezy; [discriminate|]. apply Z.ltb_ge in Eyz, Ezy. assert (y = z) by lia. subst.
      replace (x <? z) with true by (symmetry; apply Z.ltb_lt; lia). reflexivity.
  - destruct (y <? x) eqn:Eyx; [discriminate|]. apply Z.ltb_ge in Exy, Eyx. assert (x = y) by lia. subst.
    destruct (y <? z) eqn:Eyz; [reflexivity|]. destruct (z <? y); [discriminate|]. eapply IH; eauto.
Qed.

Lemma bytes_ltb_asym a b : bytes_ltb a b = true -> bytes_ltb b a = false.
Proof.
  intros H. destruct (bytes_ltb b a) eqn:E; [|reflexivity].
  pose proof (bytes_ltb_trans _ _ _ H E) as Ht. rewrite bytes_ltb_irrefl in Ht. discriminate.
Qed.

Lemma cstr_nonul s : nonul s = true -> cstr s = s.
Proof.
  induction s as [|c s IH]; simpl; [reflexivity|]. intros H. apply andb_true_iff in H as [H1 H2].
  destruct (c =? 0); [discriminate|]. rewrite IH; auto.
Qed.

(* ---------------------------------------------------------------- rebuilding a std::map from its own listing *)
Section PSet.
  Context {V : Type}.
  Definition all_lt (acc : list (bytes * V)) (k : bytes) : Prop := forall k' v', In (k', v') acc -> bytes_ltb k' k = true.

  Lemma pset_append (acc : list (bytes * V)) k v : all_lt acc k -> pset k v acc = acc ++ [(k, v)].
  Proof.
    induction acc as [|[k' v'] acc IH]; intros H; simpl; [reflexivity|].
    assert (Hk : bytes_ltb k' k = true) by (apply (H k' v'); left; reflexivity).
    rewrite (bytes_ltb_asym _ _ Hk), Hk. f_equal. apply IH. intros k2 v2 Hin. apply (H k2 v2). right. exact Hin.
  Qed.

  Lemma psorted_cons k v (r : list (bytes * V)) :
    psorted ((k, v) :: r) = true -> psorted r = true /\ forall k' v', In (k', v') r -> bytes_ltb k k' = true.
  Proof.
    revert k v. induction r as [|[k1 v1] r IH]; intros k v H.
    - split; [reflexivity|]. intros k' v' [].
    - simpl in H. apply andb_true_iff in H as [H1 H2]. split; [exact H2|].
      intros k' v' [Heq|Hin]; [inversion Heq; subst; exact H1|].
      destruct (IH k1 v1 H2) as [_ Hlt]. eapply bytes_ltb_trans; [exact H1|]. eapply Hlt, Hin.
  Qed.

  Lemma rebuild_sorted (ps acc : list (bytes * V)) :
    psorted ps = true -> (forall k v, In (k, v) ps -> all_lt acc k) ->
    fold_left (fun a kv => pset (fst kv) (snd kv) a) ps acc = acc ++ ps.
  Proof.
    revert acc. induction ps as [|[k v] ps IH]; intros acc Hs Hacc; simpl; [rewrite app_nil_r; reflexivity|].
    rewrite pset_append by (apply (Hacc k v); left; reflexivity).
    destruct (psorted_cons k v ps Hs) as [Hs' Hlt].
    rewrite IH; [rewrite <- app_assoc; reflexivity|exact Hs'|].
    intros k2 v2 Hin k' v' Hin'. apply in_app_or in Hin' as [Hin'|[Heq|[]]].
    - eapply (Hacc k2 v2); [right; exact Hin|exact Hin'].
    - inversion Heq; subst. eapply Hlt, Hin.
  Qed.
End PSet.

(* ---------------------------------------------------------------- lookups *)
Lemma jfind_eq k k' v r : bytes_eqb k' k = true -> jfind k ((k', v) :: r) = Some v.
Proof. intros H. simpl. rewrite H. reflexivity. Qed.
Lemma jfind_ne k k' v r : bytes_eqb k' k = false -> jfind k ((k', v) :: r) = jfind k r.
Proof. intros H. simpl. rewrite H. reflexivity. Qed.
Lemma jfind_app k l1 l2 :
  jfind k (l1 ++ l2) = match jfind k l1 with Some v => Some v | None => jfind k l2 end.
Proof. induction l1 as [|[k' v] l1 IH]; simpl; [reflexivity|]. destruct (bytes_eqb k' k); auto. Qed.
Lemma jfind_map_spec {A} (f : json -> A) k m : jfind_map f k m = option_map f (jfind k m).
Proof. unfold jfind_map. induction m as [|[k' v] m IH]; simpl; [reflexivity|]. destruct (bytes_eqb k' k); auto. Qed.

Definition not_meta_key (k : bytes) : Prop :=
  bytes_eqb k_has_identities k = false /\ bytes_eqb k_parameters k = false /\ bytes_eqb k_form_key k = false.

Lemma jfind_tail_other verbose m k : not_meta_key k -> jfind k (j_tail verbose m) = None.
Proof.
  intros (H1 & H2 & H3). unfold j_tail, j_identities, j_parameters, j_form_key.
  destruct verbose, (m_hid m), (m_params m), (m_key m); cbn [orb app];
    repeat (first [rewrite jfind_ne by assumption | reflexivity]).
Qed.

Lemma jfind_tail_hid verbose m :
  jfind k_has_identities (j_tail verbose m) = if verbose || m_hid m then Some (JBool (m_hid m)) else None.
Proof.
  unfold j_tail, j_identities, j_parameters, j_form_key.
  destruct verbose, (m_hid m), (m_params m), (m_key m); cbn [orb app];
    repeat (first [rewrite jfind_eq by reflexivity | rewrite jfind_ne by reflexivity | reflexivity]).
Qed.

Lemma jfind_tail_params verbose m :
  jfind k_parameters (j_tail verbose m) =
  match m_params m with
  | [] => if verbose then Some (JObj []) else None
  | ps => Some (JObj (map (fun kv => (cstr (fst kv), snd kv)) ps))
  end.
Proof.
  unfold j_tail, j_identities, j_parameters, j_form_key.
  destruct verbose, (m_hid m), (m_params m), (m_key m); cbn [orb app];
    repeat (first [rewrite jfind_eq by reflexivity | rewrite jfind_ne by reflexivity | reflexivity]).
Qed.

Lemma jfind_tail_key verbose m :
  jfind k_form_key (j_tail verbose m) =
  match m_key m with
  | Some k => Some (JStr k)
  | None => if verbose then Some JNull else None
  end.
Proof.
  unfold j_tail, j_identities, j_parameters, j_form_key.
  destruct verbose, (m_hid m), (m_params m), (m_key m); cbn [orb app];
    repeat (first [rewrite jfind_eq by reflexivity | rewrite jfind_ne by reflexivity | reflexivity]).
Qed.

Lemma jfind_tail_identifier verbose m : jfind k_has_identifier (j_tail verbose m) = None.
Proof. apply jfind_tail_other. repeat split; reflexivity. Qed.

(* get_meta reads back what j_tail wrote, for any prefix of other members *)
Lemma get_hid_tail pre verbose m :
  jfind k_has_identifier pre = None -> jfind k_has_identities pre = None ->
  get_hid (pre ++ j_tail verbose m) = Ok (m_hid m).
Proof.
  intros P1 P2. unfold get_hid.
  rewrite !jfind_app, P1, P2, jfind_tail_identifier, jfind_tail_hid.
  destruct verbose, (m_hid m); reflexivity.
Qed.

Lemma map_cstr_id (ps : params) :
  forallb (fun kv => nonul (fst kv)) ps = true -> map (fun kv : bytes * json => (cstr (fst kv), snd kv)) ps = ps.
Proof.
  induction ps as [|[k v] l IH]; intros Hn; [reflexivity|].
  simpl in Hn. apply andb_true_iff in Hn as [H1 H2]. simpl. rewrite (cstr_nonul _ H1), (IH H2). reflexivity.
Qed.

Lemma fold_pset_cstr (l : params) : forall acc, forallb (fun kv => nonul (fst kv)) l = true ->
  fold_left (fun acc kv => pset (cstr (fst kv)) (snd kv) acc) l acc =
  fold_left (fun a kv => pset (fst kv) (snd kv) a) l acc.
Proof.
  induction l as [|[k v] l IH]; intros acc Hl; [reflexivity|].
  simpl in Hl. apply andb_true_iff in Hl as [H1 H2]. simpl. rewrite (cstr_nonul _ H1). apply IH, H2.
Qed.

Lemma get_params_tail pre verbose m :
  jfind k_parameters pre = None ->
  psorted (m_params m) = true -> forallb (fun kv => nonul (fst kv)) (m_params m) = true ->
  get_params (pre ++ j_tail verbose m) = Ok (m_params m).
Proof.
  intros P3 Hs Hn. unfold get_params. rewrite jfind_app, P3, jfind_tail_params.
  destruct (m_params m) as [|p ps'] eqn:Ep; [destruct verbose; reflexivity|].
  rewrite (map_cstr_id _ Hn), (fold_pset_cstr _ _ Hn).
  rewrite (rebuild_sorted (p :: ps') [] Hs); [reflexivity|]. intros k v _ k' v' [].
Qed.

Lemma get_form_key_tail pre verbose m :
  jfind k_form_key pre = None -> match m_key m with Some k => nonul k | None => true end = true ->
  get_form_key (pre ++ j_tail verbose m) = Ok (m_key m).
Proof.
  intros P4 Hk. unfold get_form_key. rewrite jfind_app, P4, jfind_tail_key.
  destruct (m_key m) as [k|]; [rewrite (cstr_nonul _ Hk); reflexivity|]. destruct verbose; reflexivity.
Qed.

Lemma get_meta_tail pre verbose m :
  jfind k_has_identifier pre = None -> jfind k_has_identities pre = None ->
  jfind k_parameters pre = None -> jfind k_form_key pre = None ->
  meta_wf m = true ->
  get_meta (pre ++ j_tail verbose m) = Ok m.
Proof.
  intros P1 P2 P3 P4 Hwf. unfold meta_wf in Hwf.
  apply andb_true_iff in Hwf as [Hwf Hk]. apply andb_true_iff in Hwf as [Hs Hn].
  unfold get_meta.
  rewrite (get_hid_tail _ _ _ P1 P2), (get_params_tail _ _ _ P3 Hs Hn), (get_form_key_tail _ _ _ P4 Hk).
  destruct m; reflexivity.
Qed.

(* ---------------------------------------------------------------- the round trip *)
Section FormInd.
  Variable P : form -> Prop.
  Hypothesis HNumpy : forall m inner itemsize format dt, P (FNumpy m inner itemsize format dt).
  Hypothesis HEmpty : forall m, P (FEmpty m).
  Hypothesis HListOffset : forall m o c, P c -> P (FListOffset m o c).
  Hypothesis HList : forall m s e c, P c -> P (FList m s e c).
  Hypothesis HRegular : forall m c size, P c -> P (FRegular m c size).
  Hypothesis HIndexed : forall m i c, P c -> P (FIndexed m i c).
  Hypothesis HIndexedOption : forall m i c, P c -> P (FIndexedOption m i c).
  Hypothesis HByteMasked : forall m k c vw, P c -> P (FByteMasked m k c vw).
  Hypothesis HBitMasked : forall m k c vw lsb, P c -> P (FBitMasked m k c vw lsb).
  Hypothesis HUnmasked : forall m c, P c -> P (FUnmasked m c).
  Hypothesis HUnion : forall m t i cs, Forall P cs -> P (FUnion m t i cs).
  Hypothesis HRecord : forall m ks cs, Forall P cs -> P (FRecord m ks cs).
  Hypothesis HVirtualNone : forall m hl, P (FVirtual m None hl).
  Hypothesis HVirtualSome : forall m g hl, P g -> P (FVirtual m (Some g) hl).
  Fixpoint form_ind' (f : form) : P f :=
    match f with
    | FNumpy m inner itemsize format dt => HNumpy m inner itemsize format dt
    | FEmpty m => HEmpty m
    | FListOffset m o c => HListOffset m o c (form_ind' c)
    | FList m s e c => HList m s e c (form_ind' c)
    | FRegular m c size => HRegular m c size (form_ind' c)
    | FIndexed m i c => HIndexed m i c (form_ind' c)
    | FIndexedOption m i c => HIndexedOption m i c (form_ind' c)
    | FByteMasked m k c vw => HByteMasked m k c vw (form_ind' c)
    | FBitMasked m k c vw lsb => HBitMasked m k c vw lsb (form_ind' c)
    | FUnmasked m c => HUnmasked m c (form_ind' c)
    | FUnion m t i cs =>
        HUnion m t i cs ((fix G (l : list form) : Forall P l :=
                            match l with [] => Forall_nil P | x :: xs => Forall_cons x (form_ind' x) (G xs) end) cs)
    | FRecord m ks cs =>
        HRecord m ks cs ((fix G (l : list form) : Forall P l :=
                            match l with [] => Forall_nil P | x :: xs => Forall_cons x (form_ind' x) (G xs) end) cs)
    | FVirtual m None hl => HVirtualNone m hl
    | FVirtual m (Some g) hl => HVirtualSome m g hl (form_ind' g)
    end.
End FormInd.

Ltac jf := repeat first [ rewrite jfind_eq by reflexivity | rewrite jfind_ne by reflexivity ].

Lemma get_meta_skip k v l :
  bytes_eqb k k_has_identifier = false -> bytes_eqb k k_has_identities = false ->
  bytes_eqb k k_parameters = false -> bytes_eqb k k_form_key = false ->
  get_meta ((k, v) :: l) = get_meta l.
Proof.
  intros H1 H2 H3 H4. unfold get_meta, get_hid, get_params, get_form_key.
  rewrite !jfind_ne by assumption. reflexivity.
Qed.

Lemma get_meta_tail0 verbose m : meta_wf m = true -> get_meta (j_tail verbose m) = Ok m.
Proof. intros H. apply (get_meta_tail [] verbose m); auto. Qed.

Ltac dispatch :=
  repeat match goal with
  | |- context [bytes_eqb (cstr ?a) ?b] =>
      let v := eval vm_compute in (bytes_eqb (cstr a) b) in change (bytes_eqb (cstr a) b) with v; cbv iota
  | |- context [width_preset (cstr ?a) ?g ?x ?y ?z] =>
      let v := eval vm_compute in (width_preset (cstr a) g x y z) in change (width_preset (cstr a) g x y z) with v; cbv iota
  | |- context [width_preset2 (cstr ?a) ?g ?x ?y] =>
      let v := eval vm_compute in (width_preset2 (cstr a) g x y) in change (width_preset2 (cstr a) g x y) with v; cbv iota
  end.

Ltac other := rewrite jfind_tail_other by (repeat split; reflexivity).

Lemma str2form_form2str o : str2form (cstr (form2str o)) = Ok o.
Proof. destruct o; reflexivity. Qed.
Lemma iform_eqb_refl o : iform_eqb o o = true.
Proof. destruct o; reflexivity. Qed.
Lemma iform_eqb_eq a b : iform_eqb a b = true -> a = b.
Proof. destruct a, b; simpl; congruence. Qed.

Lemma get_iform_hit pre field o m :
  jfind field m = Some (JStr (form2str o)) ->
  match pre with Some p => p = o | None => True end ->
  get_iform pre field m = Ok o.
Proof.
  intros H Hp. unfold get_iform. rewrite H, str2form_form2str. cbn [bind].
  destruct pre as [p|]; [subst; rewrite iform_eqb_refl|]; reflexivity.
Qed.

Lemma from_primitive_name_ok dt : fdtype_eqb dt FNotPrimitive = false ->
  from_primitive_name (dtype_to_name dt) = Ok (FNumpy meta0 [] (dtype_to_itemsize dt) (dtype_to_format dt) dt).
Proof. destruct dt as [[]| | | | | | | |]; intros H; try discriminate H; reflexivity. Qed.

Lemma format_to_dtype_canonical dt : fdtype_eqb dt FNotPrimitive = false ->
  format_to_dtype (dtype_to_format dt) (dtype_to_itemsize dt) = dt.
Proof. destruct dt as [[]| | | | | | | |]; intros H; try discriminate H; reflexivity. Qed.

Lemma mapM_ints (l : list Z) : forallb is_int32 l = true ->
  mapM (fun x : json => match x with JInt n => if is_int32 n then Ok n else Err EValue | _ => Err EValue end)
       (map JInt l) = Ok l.
Proof.
  induction l as [|n l IH]; simpl; [reflexivity|]. intros H. apply andb_true_iff in H as [H1 H2].
  rewrite H1. simpl. rewrite (IH H2). reflexivity.
Qed.

Definition rt (f : form) : Prop :=
  forall verbose toplevel, form_wf f = true -> form_fromjson (form_tojson_part verbose toplevel f) = Ok f.

Lemma rt_list (verbose : bool) (cs : list form) :
  Forall rt cs -> forallb form_wf cs = true ->
  mapM_id (map form_fromjson (map (form_tojson_part verbose false) cs)) = Ok cs.
Proof.
  induction 1 as [|c cs Hc Hcs IH]; intros Hwf; [reflexivity|].
  simpl in Hwf. apply andb_true_iff in Hwf as [H1 H2]. simpl.
  rewrite (Hc verbose false H1). simpl. rewrite (IH H2). reflexivity.
Qed.

Lemma rt_fields (verbose : bool) (cs : list form) : forall ks,
  Forall rt cs -> forallb form_wf cs = true -> length ks = length cs -> forallb nonul ks = true ->
  let fs := (fix go (cs : list form) (ks : list bytes) {struct cs} : list (bytes * json) :=
               match cs, ks with
               | c :: cs', k :: ks' => (cstr k, form_tojson_part verbose false c) :: go cs' ks'
               | _, _ => []
               end) cs ks in
  mapM_id (map (fun kv : bytes * json => form_fromjson (snd kv)) fs) = Ok cs /\
  map (fun kv : bytes * json => cstr (fst kv)) fs = ks.
Proof.
  intros ks H. revert ks. induction H as [|c cs Hc Hcs IH]; intros [|k ks] Hwf Hlen Hn; simpl in *; try discriminate.
  - split; reflexivity.
  - apply andb_true_iff in Hwf as [H1 H2]. apply andb_true_iff in Hn as [N1 N2].
    destruct (IH ks H2 (f_equal pred Hlen) N2) as [E1 E2].
    rewrite (Hc verbose false H1). simpl. rewrite E1. simpl. rewrite E2, !(cstr_nonul _ N1). split; reflexivity.
Qed.

Ltac iform := unfold get_iform; jf; rewrite !str2form_form2str; cbn [bind iform_eqb].
Ltac meta Hm := repeat rewrite get_meta_skip by reflexivity; rewrite (get_meta_tail0 _ _ Hm); cbn [bind].
Ltac content IH :=
  rewrite jfind_map_spec; jf; cbn [option_map req]; rewrite IH by assumption; cbn [bind].

Theorem form_roundtrip_all f : rt f.
Proof.
  induction f as [m inner itemsize format dt|m|m o c IH|m s e c IH|m c size IH|m i c IH|m i c IH|m k c vw IH
                 |m k c vw lsb IH|m c IH|m t i cs IH|m ks cs IH|m hl|m g hl IH] using form_ind';
    intros verbose toplevel Hwf; simpl in Hwf.
  - (* NumpyForm *)
    apply andb_true_iff in Hwf as [Hwf Hf]. apply andb_true_iff in Hwf as [Hwf Hi].
    apply andb_true_iff in Hwf as [Hwf Hd]. apply andb_true_iff in Hwf as [Hm Hin].
    apply Z.eqb_eq in Hi. apply bytes_eqb_eq in Hf. apply negb_true_iff in Hd. subst itemsize format.
    cbn [form_tojson_part].
    destruct (verbose || toplevel || negb match inner with [] => true | _ => false end || negb (is_plain_meta m)) eqn:Eobj.
    + (* written as an object *)
      cbn [form_fromjson]. unfold fromjson_obj.
      destruct (verbose || negb match inner with [] => true | _ => false end) eqn:Eshape; cbn [app]; jf.
      * meta Hm. dispatch. jf. rewrite (from_primitive_name_ok dt Hd). cbn [bind].
        rewrite (mapM_ints inner Hin). cbn [bind]. rewrite (format_to_dtype_canonical dt Hd). reflexivity.
      * meta Hm. dispatch. jf. rewrite (from_primitive_name_ok dt Hd). cbn [bind].
        other. cbn [bind]. rewrite (format_to_dtype_canonical dt Hd).
        destruct inner; [reflexivity|]. destruct verbose; discriminate Eshape.
    + (* written as the bare primitive name *)
      cbn [form_fromjson]. rewrite (from_primitive_name_ok dt Hd).
      destruct verbose; [discriminate|]. destruct toplevel; [discriminate|].
      destruct inner; [|discriminate]. destruct m as [hid ps key]. unfold is_plain_meta in Eobj. simpl in Eobj.
      destruct hid; [discriminate|]. destruct ps; [|discriminate]. destruct key; [discriminate|]. reflexivity.
  - (* EmptyForm *)
    cbn [form_tojson_part form_fromjson]. unfold fromjson_obj. jf. meta Hwf. dispatch. reflexivity.
  - (* ListOffsetForm *)
    apply andb_true_iff in Hwf as [Hwf Hc]. apply andb_true_iff in Hwf as [Hm Ho].
    cbn [form_tojson_part form_fromjson]. unfold fromjson_obj. cbn [app]. jf. meta Hm.
    destruct o; try discriminate Ho; dispatch;
      (iform; content IH; reflexivity).
  - (* ListForm *)
    apply andb_true_iff in Hwf as [Hwf Hc]. apply andb_true_iff in Hwf as [Hwf He]. apply andb_true_iff in Hwf as [Hm Hs].
    apply iform_eqb_eq in He. subst e.
    cbn [form_tojson_part form_fromjson]. unfold fromjson_obj. cbn [app]. jf. meta Hm.
    destruct s; try discriminate Hs; dispatch;
      (iform; content IH; reflexivity).
  - (* RegularForm *)
    apply andb_true_iff in Hwf as [Hwf Hc]. apply andb_true_iff in Hwf as [Hm Hs].
    cbn [form_tojson_part form_fromjson]. unfold fromjson_obj. cbn [app]. jf. meta Hm. dispatch.
    content IH. jf. rewrite Hs. reflexivity.
  - (* IndexedForm *)
    apply andb_true_iff in Hwf as [Hwf Hc]. apply andb_true_iff in Hwf as [Hm Hi].
    cbn [form_tojson_part form_fromjson]. unfold fromjson_obj. cbn [app]. jf. meta Hm.
    destruct i; try discriminate Hi; dispatch;
      (iform; content IH; reflexivity).
  - (* IndexedOptionForm *)
    apply andb_true_iff in Hwf as [Hwf Hc]. apply andb_true_iff in Hwf as [Hm Hi].
    cbn [form_tojson_part form_fromjson]. unfold fromjson_obj. cbn [app]. jf. meta Hm.
    destruct i; try discriminate Hi; dispatch;
      (iform; content IH; reflexivity).
  - (* ByteMaskedForm *)
    apply andb_true_iff in Hwf as [Hm Hc].
    cbn [form_tojson_part form_fromjson]. unfold fromjson_obj. cbn [app]. jf. meta Hm. dispatch.
    iform. content IH. unfold get_bool. jf. reflexivity.
  - (* BitMaskedForm *)
    apply andb_true_iff in Hwf as [Hm Hc].
    cbn [form_tojson_part form_fromjson]. unfold fromjson_obj. cbn [app]. jf. meta Hm. dispatch.
    iform. content IH. unfold get_bool. jf. reflexivity.
  - (* UnmaskedForm *)
    apply andb_true_iff in Hwf as [Hm Hc].
    cbn [form_tojson_part form_fromjson]. unfold fromjson_obj. cbn [app]. jf. meta Hm. dispatch.
    content IH. reflexivity.
  - (* UnionForm *)
    apply andb_true_iff in Hwf as [Hwf Hc]. apply andb_true_iff in Hwf as [Hwf Hi]. apply andb_true_iff in Hwf as [Hm Ht].
    apply iform_eqb_eq in Ht. subst t.
    cbn [form_tojson_part form_fromjson]. unfold fromjson_obj. cbn [app]. jf. meta Hm.
    destruct i; try discriminate Hi; dispatch;
      (iform;
       rewrite jfind_map_spec; jf; cbn [option_map req];
       rewrite (rt_list verbose cs IH Hc); reflexivity).
  - (* RecordForm *)
    apply andb_true_iff in Hwf as [Hwf Hk]. apply andb_true_iff in Hwf as [Hm Hc].
    destruct ks as [ks|].
    + apply andb_true_iff in Hk as [Hl Hn]. apply Nat.eqb_eq in Hl.
      cbn [form_tojson_part form_fromjson]. unfold fromjson_obj. cbn [app]. jf. meta Hm. dispatch.
      rewrite jfind_map_spec; jf; cbn [option_map req].
      destruct (rt_fields verbose cs ks IH Hc Hl Hn) as [E1 E2]. rewrite E1. cbn [bind]. rewrite E2. reflexivity.
    + cbn [form_tojson_part form_fromjson]. unfold fromjson_obj. cbn [app]. jf. meta Hm. dispatch.
      rewrite jfind_map_spec; jf; cbn [option_map req]. rewrite (rt_list verbose cs IH Hc). reflexivity.
  - (* VirtualForm without a form *)
    cbn [form_tojson_part form_fromjson]. unfold fromjson_obj. cbn [app]. jf.
    apply andb_true_iff in Hwf as [Hm _]. meta Hm. dispatch.
    rewrite jfind_map_spec; jf; cbn [option_map req bind]. unfold get_bool. jf. reflexivity.
  - (* VirtualForm with a form *)
    apply andb_true_iff in Hwf as [Hm Hg].
    cbn [form_tojson_part form_fromjson]. unfold fromjson_obj. cbn [app]. jf. meta Hm. dispatch.
    rewrite jfind_map_spec; jf; cbn [option_map req].
    assert (Hne : forall j, form_fromjson j = Ok g ->
              match j with JNull => Ok None | _ => do g0 <- form_fromjson j; Ok (Some g0) end = Ok (Some g)).
    { intros j Hj. destruct j; try (rewrite Hj; reflexivity). discriminate Hj. }
    rewrite (Hne _ (IH verbose false Hg)). cbn [bind]. unfold get_bool. jf. reflexivity.
Qed.

Theorem form_json_roundtrip_thm : forall f verbose, form_wf f = true -> form_fromjson (form_tojson verbose f) = Ok f.
Proof. intros f verbose H. exact (form_roundtrip_all f verbose true H). Qed.
