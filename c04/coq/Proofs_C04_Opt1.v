(** C04 — model = specification, the other option encodings at the TOP of an input: ByteMaskedArray (both polarities),
    BitMaskedArray (both polarities, both bit orders), UnmaskedArray and IndexedOptionArray over a non-option layout of [jag],
    one such array and any number of Python scalars.  The option step only looks at [option_index] / [bytemask_of], which the
    core relates to [to_list] for every encoding (Proofs_Fillna.option_index_spec). *)
From AwkV Require Import LayoutInd Proofs_Lists Proofs_ToList Proofs_Typing Proofs_Carry Proofs_AtAxisOps Proofs_C05 Ops_Struct.
From AwkV Require Proofs_Fillna.
From AwkBroadcast Require Import Broadcast Proofs_C04 Proofs_C04_Model1 Proofs_C04_Model2 Proofs_C04_Model3 Proofs_C04_Model4
  Proofs_C04_Model5 Proofs_C04_Model6 Proofs_C04_Scal1 Proofs_C04_Scal2 Proofs_C04_Scal3.
From Coq Require Import Lia ZifyBool.

(* a layout of [jag], or an option node of any encoding over a non-option layout of [jag] *)
Definition jagO (c : content) : bool :=
  match c with
  | IndexedOption _ _ c' | ByteMasked _ _ c' | BitMasked _ _ _ _ c' | Unmasked c' => jag c' && negb (is_option_node c')
  | _ => jag c
  end.
Definition ocontent (c : content) : content :=
  match c with IndexedOption _ _ c' | ByteMasked _ _ c' | BitMasked _ _ _ _ c' | Unmasked c' => c' | _ => c end.
(* calls of apply: one for the option node, one per node below *)
Definition osize (c : content) : nat := if is_option_node c then S (csize (ocontent c)) else csize c.

Lemma jag_jagO c : jag c = true -> jagO c = true.
Proof. destruct c; try discriminate; cbn [jag jagO]; auto. Qed.

Lemma pick_kept0 vs' : forall idx vs mask,
  mapM (fun i => pick_opt vs' (0 <=? i) i) idx = Ok vs ->
  Forall2 (fun (v : value) (b : bool) => is_none v = true -> b = true) vs mask ->
  mapM (get vs') (kept idx mask) = Ok (kept vs mask) /\ Forall (fun i => 0 <= i < zlen vs') (kept idx mask).
Proof.
  induction idx as [|i idx IH]; intros vs mask Hm Hsub.
  - cbn in Hm. inversion Hm; subst. inversion Hsub; subst. split; [reflexivity|constructor].
  - rewrite mapM_cons in Hm. apply bind_Ok in Hm as (v & Hv & Hm). apply bind_Ok in Hm as (vs0 & Hvs & Hm). inversion Hm; subst.
    inversion Hsub as [|? b ? mask' Hb Hsub']; subst. destruct (IH _ _ Hvs Hsub') as [IH1 IH2].
    rewrite !kept_cons. destruct b; cbn [app]; [split; assumption|].
    unfold pick_opt in Hv. destruct (0 <=? i) eqn:E.
    + rewrite mapM_cons, Hv. cbn [bind]. rewrite IH1. split; [reflexivity|].
      constructor; [|exact IH2]. apply get_range in Hv. exact Hv.
    + inversion Hv; subst v. specialize (Hb eq_refl). discriminate.
Qed.
Lemma own_mask0 vs' : forall idx vs,
  mapM (fun i => pick_opt vs' (0 <=? i) i) idx = Ok vs -> Forall (fun v => is_none v = false) vs' ->
  map (fun i => i <? 0) idx = map is_none vs.
Proof.
  induction idx as [|i idx IH]; intros vs Hm Hnn.
  - cbn in Hm. now inversion Hm.
  - rewrite mapM_cons in Hm. apply bind_Ok in Hm as (v & Hv & Hm). apply bind_Ok in Hm as (vs0 & Hvs & Hm). inversion Hm; subst.
    cbn [map]. rewrite (IH _ Hvs Hnn). f_equal. unfold pick_opt in Hv. destruct (0 <=? i) eqn:E.
    + destruct (i <? 0) eqn:E2; [lia|]. rewrite Forall_forall in Hnn. apply get_In in Hv. now rewrite (Hnn v Hv).
    + inversion Hv; subst. destruct (i <? 0) eqn:E2; [reflexivity|lia].
Qed.

(* every encoding: the index with -1, the content, the values *)
Lemma option_view c vs :
  jagO c = true -> is_option_node c = true -> to_list c = Ok vs ->
  exists ix vs0, option_index c = Ok (ix, ocontent c) /\ jag (ocontent c) = true /\ is_option_node (ocontent c) = false /\
                 to_list (ocontent c) = Ok vs0 /\ mapM (fun i => pick_opt vs0 (0 <=? i) i) ix = Ok vs /\
                 type_of c = TOpt (type_of (ocontent c)).
Proof.
  intros Hj Ho Hl. destruct (Proofs_Fillna.option_index_spec c vs Ho Hl) as (ix & vs0 & Hoi & Hl0 & Hp).
  exists ix, vs0.
  assert (Hc : jag (ocontent c) = true /\ is_option_node (ocontent c) = false /\ type_of c = TOpt (type_of (ocontent c))).
  { destruct c; try discriminate; cbn [jagO ocontent] in *; apply andb_prop in Hj as [Hj Hn]; apply negb_true_iff in Hn; auto. }
  destruct Hc as (Hjc & Hoc & Ht). repeat split; assumption.
Qed.

Lemma bytemask_jagO c vs :
  jagO c = true -> is_option_node c = true -> to_list c = Ok vs -> bytemask_of c = Ok (map is_none vs).
Proof.
  intros Hj Ho Hl. destruct (option_view c vs Hj Ho Hl) as (ix & vs0 & Hoi & Hjc & Hoc & Hl0 & Hp & _).
  unfold bytemask_of. rewrite Hoi. cbn [bind fst]. f_equal.
  apply (own_mask0 vs0 ix vs Hp). exact (jag_nonopt_values _ _ Hjc Hoc Hl0).
Qed.

Lemma opt_nextO c vs mask :
  jagO c = true -> is_option_node c = true -> to_list c = Ok vs ->
  Forall2 (fun (v : value) (b : bool) => is_none v = true -> b = true) vs mask ->
  exists next, opt_proj mask c = Ok next /\ jag next = true /\ is_option_node next = false /\
               to_list next = Ok (kept vs mask) /\ type_of next = strip_opt_t (type_of c) /\ csize next = csize (ocontent c).
Proof.
  intros Hj Ho Hl Hsub. destruct (option_view c vs Hj Ho Hl) as (ix & vs0 & Hoi & Hjc & Hoc & Hl0 & Hp & Ht).
  destruct (pick_kept0 vs0 ix vs mask Hp Hsub) as [Hg Hr].
  destruct (ccarry_jag (ocontent c) vs0 (kept ix mask) Hjc Hl0) as (next & Hc & Hjn & Hln & Htn & Hsn & _ & Hon & _ & _).
  { rewrite <- (to_list_len _ _ Hl0). exact Hr. }
  exists next. unfold opt_proj. rewrite Ho, Hoi. cbn [bind fst snd]. rewrite Hc. split; [reflexivity|].
  repeat split; try assumption; try congruence. rewrite Ht. cbn [strip_opt_t]. exact Htn.
Qed.

Lemma to_nparr_option c : is_option_node c = true -> to_nparr (MC c) = Ok None.
Proof. destruct c; try discriminate; reflexivity. Qed.

(* PARTIAL (what remains excluded): the option node of the new encodings must be the TOP node of the array (its content is
   a non-option layout of [jag]); ByteMasked / BitMasked / Unmasked nodes at inner levels are not covered (they need the
   range / carry lemmas of the fragment for these node classes; sample agreements in Proofs_C04_Probes.option_encodings_test);
   one array and scalars (for two arrays see [model_refines_spec]); apply on the array as a variable-length list. *)
Theorem option_encodings_scalars_refine_spec_partial_lemma op fuel pre post c vs :
  forallb sc_ok pre = true -> forallb sc_ok post = true -> jagO c = true -> to_list c = Ok vs -> (osize c <= fuel)%nat ->
  agrees_c (Broadcast.apply op None fuel (ins pre c post))
           (unlist (spec_v op false (S fuel) (map ssc pre ++ arr_arg c vs :: map ssc post))).
Proof.
  intros Hpre Hpost Hj Hl Hf. unfold osize in Hf. destruct (is_option_node c) eqn:Ho.
  2:{ apply scalars_refine_spec_strong_lemma; try assumption. destruct c; try discriminate; exact Hj. }
  destruct fuel as [|f]; [lia|]. assert (Hf' : (csize (ocontent c) <= f)%nat) by lia. clear Hf.
  unfold arr_arg. change (map ssc pre ++ _ :: map ssc post) with (row1 pre post (TList None None (type_of c)) (VList vs)).
  rewrite spec_list_row1, unlist_rmap.
  set (mask := map is_none vs).
  destruct (opt_nextO c vs mask Hj Ho Hl (own_mask_sub vs)) as (n & P & Jn & NOn & Tn & Tyn & Sn).
  destruct (option_view c vs Hj Ho Hl) as (_ & _ & _ & _ & _ & _ & _ & ET).
  assert (Hlm : length mask = length vs) by (unfold mask; apply map_length).
  destruct (apply_rows1 op pre post Hpre Hpost f n _ Jn Tn ltac:(rewrite Sn; exact Hf')) as [IHa IHj].
  assert (Hd : Broadcast.apply op None (S f) (ins pre c post) =
               do out <- Broadcast.apply op None f (ins pre n post); Ok (IndexedOption I64 (count_index 0 mask) out)).
  { rewrite apply_S, dispatch1_pre, getfunction_ins, (to_nparr_option c Ho). cbn [bind].
    assert (Hfl : is_empty_node c = false /\ is_numpy_nd c = false /\ is_indexed_node c = false /\ is_union_node c = false)
      by (destruct c; try discriminate; auto).
    destruct Hfl as (F1 & F2 & F3 & F4). rewrite F1, F2, F3, F4, Ho.
    unfold opt_branch. rewrite contents_of_ins. cbn [filter]. rewrite Ho. cbn [mapM]. rewrite (bytemask_jagO c vs Hj Ho Hl). cbn [bind fold_left].
    rewrite map_c_ins. cbv beta. change (if is_option_node c then _ else _) with (opt_proj mask c). rewrite P. reflexivity. }
  rewrite Hd, ET. rewrite ET in Tyn. cbn [strip_opt_t] in Tyn. set (t' := type_of (ocontent c)) in *.
  unfold rows1 at 1. rewrite mapM_map.
  pose proof (mapM_scatter (fun v => spec_v op false (S f) (row1 pre post (TOpt t') v))
                           (fun v => spec_v op false f (row1 pre post t' v)) is_none vs) as Hsc.
  fold mask in Hsc. specialize (Hsc (fun v _ => spec_opt_row1 op false f pre post t' v)).
  rewrite Tyn in IHa. unfold rows1 in IHa. rewrite mapM_map in IHa.
  destruct (mapM (fun v => spec_v op false f (row1 pre post t' v)) (kept vs mask)) as [ys|e] eqn:Einner.
  - rewrite Hsc. cbn [agrees_c] in IHa |- *. destruct IHa as (out & Hrec & Hout). rewrite Hrec. cbn [bind].
    eexists. split; [reflexivity|]. rewrite to_list_IndexedOption, Hout. cbn [bind].
    assert (Hny : nfalse mask = zlen ys) by (rewrite (mapM_zlen _ _ _ Einner); symmetry; now apply zlen_kept).
    exact (count_index_scatter ys mask [] Hny).
  - rewrite Hsc. cbn [agrees_c] in IHa |- *. destruct IHa as [-> IHa]. split; [reflexivity|]. rewrite IHa. reflexivity.
Qed.

Theorem option_encodings_scalars_refine_spec_lemma op fuel pre post c vs :
  forallb sc_ok pre = true -> forallb sc_ok post = true -> jagO c = true -> to_list c = Ok vs -> (osize c <= fuel)%nat ->
  agrees (obs (Broadcast.apply op None fuel (ins pre c post)))
         (unlist (spec_v op false (S fuel) (map ssc pre ++ arr_arg c vs :: map ssc post))).
Proof. intros. apply agrees_c_obs. now apply option_encodings_scalars_refine_spec_partial_lemma. Qed.

(* [1, None, 3] as a ByteMaskedArray with valid_when = false, as a BitMaskedArray (lsb order), an UnmaskedArray of lists *)
Definition exo_byte : content := ByteMasked [0; 1; 0] false (Numpy DInt64 [3] (map DZ [1; 2; 3])).
Definition exo_bit : content := BitMasked [5] true true 3 (Numpy DInt64 [3] (map DZ [1; 2; 3])).
Definition exo_unm : content := Unmasked (ListOffset I64 [0; 2; 3] (Numpy DInt64 [3] (map DZ [1; 2; 3]))).
Example option_encodings_scalars_nonvacuous :
  jagO exo_byte = true /\ jagO exo_bit = true /\ jagO exo_unm = true /\ jag exo_byte = false /\
  to_list exo_byte = Ok [VNum (DZ 1); VNone; VNum (DZ 3)] /\ to_list exo_bit = Ok [VNum (DZ 1); VNone; VNum (DZ 3)] /\
  to_list exo_unm = Ok [VList [VNum (DZ 1); VNum (DZ 2)]; VList [VNum (DZ 3)]] /\
  (osize exo_byte <= 3)%nat /\ (osize exo_bit <= 3)%nat /\ (osize exo_unm <= 3)%nat /\
  obs (Broadcast.apply (ufn_op UClip) None 3 (ins [] exo_byte [(false, 2); (false, 2)])) = Ok [VNum (DZ 2); VNone; VNum (DZ 2)] /\
  unlist (spec_v (ufn_op UClip) false 4 (map ssc [] ++ arr_arg exo_byte [VNum (DZ 1); VNone; VNum (DZ 3)] :: map ssc [(false, 2); (false, 2)])) =
    Ok [VNum (DZ 2); VNone; VNum (DZ 2)] /\
  obs (Broadcast.apply (ufn_op USub) None 3 (ins [(false, 10)] exo_bit [])) = Ok [VNum (DZ 9); VNone; VNum (DZ 7)] /\
  obs (Broadcast.apply (ufn_op UMul) None 3 (ins [] exo_unm [(false, 10)])) = Ok [VList [VNum (DZ 10); VNum (DZ 20)]; VList [VNum (DZ 30)]].
Proof. repeat split; vm_compute; try reflexivity; lia. Qed.
