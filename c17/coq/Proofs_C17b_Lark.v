(** C17 proofs about the model of the repository's Lark parser (Lark.v): on the fragment [lark_ok hl] the parser
    brings a printed type back ([lark_roundtrip]); it agrees there with the reference parser. *)
From Coq Require Import ZArith List Bool Lia.
From AwkV Require Import Base Layout.
From AwkTypes Require Import Json Forms TypeStr Proofs_Json Proofs_Parse Lark.
Import ListNotations.
Open Scope Z_scope.

(* ---------------------------------------------------------------- lexing *)
Lemma skip_ws_nows c r : is_ws c = false -> skip_ws (c :: r) = c :: r.
Proof. intros H. cbn [skip_ws]. rewrite H. reflexivity. Qed.

Lemma skip_ws_follow rest : follow_ok rest -> skip_ws rest = rest.
Proof. destruct rest as [|c r]; [reflexivity|]. intros [->|[->|[->| ->]]]; reflexivity. Qed.

Lemma letter_tests c : is_letter c = true ->
  is_ws c = false /\ (c =? 63) = false /\ (c =? 40) = false /\ (c =? 123) = false /\ (c =? 91) = false /\
  is_numstart c = false.
Proof.
  unfold is_letter. intros H.
  assert (Hr : (97 <= c <= 122) \/ (65 <= c <= 90)).
  { apply orb_true_iff in H as [H|H]; apply andb_true_iff in H as [H1 H2]; apply Z.leb_le in H1, H2; lia. }
  unfold is_ws, is_numstart, is_digit.
  repeat split; repeat (apply orb_false_iff; split); try (apply Z.eqb_neq; lia).
  apply andb_false_iff. destruct (48 <=? c) eqn:E; [right; apply Z.leb_gt; lia|left; reflexivity].
Qed.

Lemma digit_tests2 c : is_digit c = true ->
  is_ws c = false /\ (c =? 63) = false /\ (c =? 40) = false /\ (c =? 123) = false /\ (c =? 91) = false /\
  is_numstart c = true /\ (c =? 43) = false /\ (c =? 45) = false /\ (112 =? c) = false.
Proof.
  unfold is_digit. intros H. assert (Hr : 48 <= c <= 57) by (apply andb_true_iff in H as [H1 H2]; apply Z.leb_le in H1, H2; lia).
  unfold is_ws, is_numstart, is_digit. rewrite H.
  repeat split; repeat (apply orb_false_iff; split); try (apply Z.eqb_neq; lia).
Qed.

Lemma strip_prefix_comparable k : forall w x r,
  strip_prefix k (w ++ x) = Some r -> is_prefix k w = true \/ is_prefix w k = true.
Proof.
  induction k as [|a k IH]; intros w x r H; [left; destruct w; reflexivity|].
  destruct w as [|b w]; [right; reflexivity|].
  cbn [app strip_prefix] in H. cbn [is_prefix]. destruct (a =? b) eqn:E; [|discriminate].
  rewrite (Z.eqb_sym b a), E. cbn [andb]. exact (IH w x r H).
Qed.

Lemma strip_prefix_incomparable k w x :
  negb (is_prefix k w) && negb (is_prefix w k) = true -> strip_prefix k (w ++ x) = None.
Proof.
  intros H. apply andb_true_iff in H as [H1 H2]. apply negb_true_iff in H1, H2.
  destruct (strip_prefix k (w ++ x)) eqn:E; [|reflexivity].
  destruct (strip_prefix_comparable k w x _ E); congruence.
Qed.

Lemma lex_kw_none tbl w x :
  forallb (fun k => negb (is_prefix k w) && negb (is_prefix w k)) (map fst tbl) = true -> lex_kw tbl (w ++ x) = None.
Proof.
  induction tbl as [|[k v] tbl IH]; intros H; [reflexivity|].
  cbn [map fst forallb] in H. apply andb_true_iff in H as [H1 H2].
  cbn [lex_kw]. rewrite (strip_prefix_incomparable k w x H1). exact (IH H2).
Qed.

(* ---------------------------------------------------------------- keys *)
Lemma escape_plain c : (32 <=? c) && (c <=? 255) && negb (c =? 34) && negb (c =? 92) = true -> escape_char c = [c].
Proof.
  intros H. repeat (apply andb_true_iff in H as [H ?]).
  apply Z.leb_le in H. apply negb_true_iff in H0, H1.
  unfold escape_char. rewrite H1, H0.
  replace (c =? 8) with false by (symmetry; apply Z.eqb_neq; lia).
  replace (c =? 12) with false by (symmetry; apply Z.eqb_neq; lia).
  replace (c =? 10) with false by (symmetry; apply Z.eqb_neq; lia).
  replace (c =? 13) with false by (symmetry; apply Z.eqb_neq; lia).
  replace (c =? 9) with false by (symmetry; apply Z.eqb_neq; lia).
  replace (c <? 32) with false by (symmetry; apply Z.ltb_ge; lia). reflexivity.
Qed.

Lemma quote_plain k : lkey_ok k = true -> quote k = 34 :: k ++ [34].
Proof.
  intros H. unfold quote. f_equal. f_equal.
  induction k as [|c k IH]; [reflexivity|]. cbn [lkey_ok forallb] in H. apply andb_true_iff in H as [H1 H2].
  cbn [flat_map]. rewrite (escape_plain c H1), (IH H2). reflexivity.
Qed.

Lemma lkey_key_ok k : lkey_ok k = true -> key_ok k = true.
Proof.
  unfold lkey_ok, key_ok. rewrite !forallb_forall. intros H c Hc. specialize (H c Hc).
  repeat (apply andb_true_iff in H as [H ?]). apply Z.leb_le in H, H2. apply andb_true_iff. split; apply Z.leb_le; lia.
Qed.

Lemma lk_string_body_plain k : forall fuel rest, lkey_ok k = true -> (length k < fuel)%nat ->
  lk_string_body fuel (k ++ 34 :: rest) = Ok (k, rest).
Proof.
  induction k as [|c k IH]; intros fuel rest Hk Hf; (destruct fuel as [|fuel]; [inversion Hf|]).
  - reflexivity.
  - cbn [lkey_ok forallb] in Hk. apply andb_true_iff in Hk as [H1 H2].
    repeat (apply andb_true_iff in H1 as [H1 ?]). apply Z.leb_le in H1. apply negb_true_iff in H, H0.
    cbn [app lk_string_body]. rewrite H0, H.
    replace (c =? 10) with false by (symmetry; apply Z.eqb_neq; lia).
    replace (c =? 13) with false by (symmetry; apply Z.eqb_neq; lia). cbn [orb].
    rewrite (IH fuel rest H2) by (simpl in Hf; lia). reflexivity.
Qed.

Lemma lk_string_quote k rest : lkey_ok k = true -> lk_string (quote k ++ rest) = Ok (k, rest).
Proof.
  intros Hk. rewrite (quote_plain k Hk). cbn [app]. unfold lk_string. rewrite skip_ws_nows by reflexivity.
  change (34 =? 34) with true. cbv iota. rewrite <- app_assoc. cbn [app].
  apply lk_string_body_plain; [exact Hk|]. rewrite app_length. simpl. lia.
Qed.

Lemma lk_string_space x : lk_string (32 :: x) = lk_string x.
Proof. reflexivity. Qed.

(* ---------------------------------------------------------------- options after a type *)
Lemma lk_opt_options_follow rest : follow_ok rest -> lk_opt_options rest = Ok ([], rest).
Proof. destruct rest as [|c r]; [reflexivity|]. intros [->|[->|[->| ->]]]; reflexivity. Qed.

(* ---------------------------------------------------------------- lists *)
Section Lists.
  Variable sub : bool -> bytes -> res pres.
  Hypothesis sub_space : forall cat x, sub cat (32 :: x) = sub cat x.

  Definition lparses (t : rty) : Prop :=
    forall rest, follow_ok rest -> sub false (type_tostring t ++ rest) = Ok (t, false, rest).
  Definition nopar (t : rty) : Prop :=
    forall x, strip_prefix w_parameters (skip_ws (type_tostring t ++ x)) = None.

  Lemma lk_list_space fuel close x : lk_list sub fuel close (32 :: x) = lk_list sub fuel close x.
  Proof. destruct fuel; [reflexivity|]. cbn [lk_list]. rewrite sub_space. reflexivity. Qed.
  Lemma lk_ulist_space fuel x : lk_ulist sub fuel (32 :: x) = lk_ulist sub fuel x.
  Proof. destruct fuel; [reflexivity|]. cbn [lk_ulist]. rewrite sub_space. reflexivity. Qed.
  Lemma lk_fields_space fuel close x : lk_fields sub fuel close (32 :: x) = lk_fields sub fuel close x.
  Proof. destruct fuel; [reflexivity|]. cbn [lk_fields]. rewrite lk_string_space. reflexivity. Qed.

  Lemma lk_list_ok close : close = 93 \/ close = 41 ->
    forall l fuel rest, l <> [] -> Forall lparses l -> (length l <= fuel)%nat ->
    lk_list sub fuel close (sep_concat p_comma (map type_tostring l) ++ close :: rest) = Ok (l, false, rest).
  Proof.
    intros Hc.
    assert (H44 : (44 =? close) = false) by (destruct Hc as [->| ->]; reflexivity).
    assert (Hws : is_ws close = false) by (destruct Hc as [->| ->]; reflexivity).
    induction l as [|t l IH]; intros fuel rest Hne HF Hf; [congruence|].
    inversion HF as [|? ? Ht HF']; subst. destruct fuel as [|fuel]; [simpl in Hf; lia|].
    destruct l as [|t2 l].
    - cbn [map sep_concat lk_list]. rewrite (Ht (close :: rest)) by (simpl; destruct Hc as [->| ->]; auto).
      cbn [bind snd fst]. rewrite (skip_ws_nows close rest Hws). rewrite Z.eqb_refl. reflexivity.
    - cbn [map]. rewrite sep_concat_cons2.
      change (map type_tostring (t2 :: l)) with (type_tostring t2 :: map type_tostring l) in IH.
      rewrite <- !app_assoc. cbn [lk_list].
      rewrite (Ht (p_comma ++ sep_concat p_comma (type_tostring t2 :: map type_tostring l) ++ close :: rest)) by (simpl; auto).
      cbn [bind snd fst]. change (p_comma ++ ?x) with (44 :: 32 :: x).
      rewrite (skip_ws_nows 44) by reflexivity. cbv iota beta. rewrite H44. change (44 =? 44) with true. cbv iota.
      rewrite lk_list_space.
      rewrite (IH fuel rest); [reflexivity|discriminate|exact HF'|simpl in *; lia].
  Qed.

  Lemma lk_ulist_ok :
    forall l fuel rest, l <> [] -> Forall lparses l -> Forall nopar l -> (length l <= fuel)%nat ->
    lk_ulist sub fuel (sep_concat p_comma (map type_tostring l) ++ 93 :: rest) = Ok (l, None, false, rest).
  Proof.
    induction l as [|t l IH]; intros fuel rest Hne HF HN Hf; [congruence|].
    inversion HF as [|? ? Ht HF']; subst. inversion HN as [|? ? _ HN']; subst.
    destruct fuel as [|fuel]; [simpl in Hf; lia|].
    destruct l as [|t2 l].
    - cbn [map sep_concat lk_ulist]. rewrite (Ht (93 :: rest)) by (simpl; auto).
      cbn [bind snd fst]. rewrite (skip_ws_nows 93) by reflexivity. change (93 =? 93) with true. reflexivity.
    - cbn [map]. rewrite sep_concat_cons2.
      change (map type_tostring (t2 :: l)) with (type_tostring t2 :: map type_tostring l) in IH.
      rewrite <- !app_assoc. cbn [lk_ulist].
      rewrite (Ht (p_comma ++ sep_concat p_comma (type_tostring t2 :: map type_tostring l) ++ 93 :: rest)) by (simpl; auto).
      cbn [bind snd fst]. change (p_comma ++ ?x) with (44 :: 32 :: x).
      rewrite (skip_ws_nows 44) by reflexivity. cbv iota beta. change (44 =? 93) with false. change (44 =? 44) with true. cbv iota.
      assert (Hnp : strip_prefix w_parameters
                      (skip_ws (32 :: sep_concat p_comma (type_tostring t2 :: map type_tostring l) ++ 93 :: rest)) = None).
      { change (skip_ws (32 :: ?x)) with (skip_ws x).
        inversion HN' as [|? ? Hn2 _]; subst.
        destruct (map type_tostring l) as [|q qs]; cbn [sep_concat]; rewrite <- ?app_assoc; apply Hn2. }
      rewrite Hnp. rewrite lk_ulist_space.
      rewrite (IH fuel rest); [reflexivity|discriminate|exact HF'|exact HN'|simpl in *; lia].
  Qed.

  Lemma lk_fields_ok close : close = 93 \/ close = 125 ->
    forall kts fuel rest, kts <> [] -> Forall (fun kt => lparses (snd kt)) kts ->
    forallb lkey_ok (map fst kts) = true -> (length kts <= fuel)%nat ->
    lk_fields sub fuel close
      (sep_concat p_comma (map (fun kt : bytes * rty => quote (fst kt) ++ p_colon ++ type_tostring (snd kt)) kts) ++ close :: rest)
    = Ok (kts, false, rest).
  Proof.
    intros Hc.
    assert (H44 : (44 =? close) = false) by (destruct Hc as [->| ->]; reflexivity).
    assert (Hws : is_ws close = false) by (destruct Hc as [->| ->]; reflexivity).
    induction kts as [|[k t] kts IH]; intros fuel rest Hne HF Hk Hf; [congruence|].
    inversion HF as [|? ? Ht HF']; subst. simpl in Ht. simpl in Hk. apply andb_true_iff in Hk as [Hk1 Hk2].
    destruct fuel as [|fuel]; [simpl in Hf; lia|].
    destruct kts as [|kt2 kts].
    - cbn [map sep_concat fst snd]. rewrite <- !app_assoc. cbn [lk_fields].
      rewrite (lk_string_quote k _ Hk1). cbn [bind snd fst].
      change (expect [58] (p_colon ++ ?x)) with (@Ok bytes (32 :: x)). cbn [bind]. rewrite sub_space.
      rewrite (Ht (close :: rest)) by (simpl; destruct Hc as [->| ->]; auto).
      cbn [bind snd fst]. rewrite (skip_ws_nows close rest Hws). rewrite Z.eqb_refl. reflexivity.
    - cbn [map]. rewrite sep_concat_cons2. cbn [fst snd]. rewrite <- !app_assoc. cbn [lk_fields].
      rewrite (lk_string_quote k _ Hk1). cbn [bind snd fst].
      change (expect [58] (p_colon ++ ?x)) with (@Ok bytes (32 :: x)). cbn [bind]. rewrite sub_space.
      rewrite Ht by (simpl; auto).
      cbn [bind snd fst]. change (p_comma ++ ?x) with (44 :: 32 :: x).
      rewrite (skip_ws_nows 44) by reflexivity. cbv iota beta. rewrite H44. change (44 =? 44) with true. cbv iota.
      rewrite lk_fields_space.
      change ((quote (fst kt2) ++ p_colon ++ type_tostring (snd kt2)) :: map (fun kt : bytes * rty => quote (fst kt) ++ p_colon ++ type_tostring (snd kt)) kts)
        with (map (fun kt : bytes * rty => quote (fst kt) ++ p_colon ++ type_tostring (snd kt)) (kt2 :: kts)).
      rewrite (IH fuel rest); [reflexivity|discriminate|exact HF'|exact Hk2|simpl in *; lia].
  Qed.
End Lists.

(* ---------------------------------------------------------------- one step of the parser *)
Lemma lk_ty_space hl fuel cat x : lk_ty hl fuel cat (32 :: x) = lk_ty hl fuel cat x.
Proof. destruct fuel; reflexivity. Qed.

Lemma lk_ty_kw hl fuel cat k v x :
  (exists c k', k = c :: k' /\ is_letter c = true) -> lex_kw kw_table (k ++ x) = Some (v, x) ->
  lk_ty hl (S fuel) cat (k ++ x) = lk_keyword hl (lk_ty hl fuel) fuel cat v x.
Proof.
  intros (c & k' & -> & Hc) Hlex. destruct (letter_tests c Hc) as (Hws & H63 & H40 & H123 & H91 & Hnum).
  cbn [lk_ty]. unfold lk_input. change ((c :: k') ++ x) with (c :: (k' ++ x)) in *.
  rewrite (skip_ws_nows c _ Hws). cbv zeta. cbv iota beta. rewrite H63, H40, H123, H91, Hnum, Hc, Hlex. reflexivity.
Qed.

Lemma lk_ty_name hl fuel cat w x :
  (exists c w', w = c :: w' /\ is_letter c = true) -> lex_kw kw_table (w ++ x) = None ->
  lk_ty hl (S fuel) cat (w ++ x) = lk_named hl (lk_ty hl fuel) fuel cat (w ++ x).
Proof.
  intros (c & k' & -> & Hc) Hlex. destruct (letter_tests c Hc) as (Hws & H63 & H40 & H123 & H91 & Hnum).
  cbn [lk_ty]. unfold lk_input. change ((c :: k') ++ x) with (c :: (k' ++ x)) in *.
  rewrite (skip_ws_nows c _ Hws). cbv zeta. cbv iota beta. rewrite H63, H40, H123, H91, Hnum, Hc, Hlex. reflexivity.
Qed.

Lemma lk_ty_num hl fuel cat ds x :
  (exists c ds', ds = c :: ds' /\ is_digit c = true) ->
  lk_ty hl (S fuel) cat (ds ++ x) = lk_regular hl (lk_ty hl fuel) cat (ds ++ x).
Proof.
  intros (c & k' & -> & Hc). destruct (digit_tests2 c Hc) as (Hws & H63 & H40 & H123 & H91 & Hnum & _).
  cbn [lk_ty]. unfold lk_input. change ((c :: k') ++ x) with (c :: (k' ++ x)) in *.
  rewrite (skip_ws_nows c _ Hws). cbv zeta. cbv iota beta. rewrite H63, H40, H123, H91, Hnum. reflexivity.
Qed.

Lemma lk_number_digits u x : u <> Decimal.Nil ->
  lk_number (uint_digits u ++ p_star ++ x) = Ok (JInt (Z_of_digits (uint_digits u)), p_star ++ x).
Proof.
  intros Hnil. destruct (uint_digits_head u Hnil) as (c & r & Hcr & Hd).
  destruct (digit_tests2 c Hd) as (Hws & _ & _ & _ & _ & _ & H43 & H45 & _).
  unfold lk_number. rewrite Hcr. change ((c :: r) ++ ?y) with (c :: (r ++ y)).
  rewrite (skip_ws_nows c _ Hws). rewrite H43, H45.
  change (c :: r ++ p_star ++ x) with ((c :: r) ++ p_star ++ x). rewrite <- Hcr.
  rewrite (span_word is_digit _ _ (uint_digits_digits u)) by reflexivity.
  change (match p_star ++ x with c0 :: _ => c0 =? 46 | [] => false end) with false. cbv iota.
  rewrite Hcr. change (lk_exp (p_star ++ x)) with (@nil Z, p_star ++ x). reflexivity.
Qed.

(* ---------------------------------------------------------------- keyword hits *)
Lemma lex_hit_var x : lex_kw kw_table (w_var ++ x) = Some (KVar, x). Proof. reflexivity. Qed.
Lemma lex_hit_option x : lex_kw kw_table (w_option ++ x) = Some (KOption, x). Proof. reflexivity. Qed.
Lemma lex_hit_union x : lex_kw kw_table (w_union ++ x) = Some (KUnion, x). Proof. reflexivity. Qed.
Lemma lex_hit_unknown x : lex_kw kw_table (n_unknown ++ x) = Some (KUnknown, x). Proof. reflexivity. Qed.
Lemma lex_hit_prim d x : lex_kw kw_table (dtype_to_name (FD d) ++ x) = Some (KPrim (Some (FD d)), x).
Proof. destruct d; reflexivity. Qed.
Lemma prim_letter d : exists c k', dtype_to_name (FD d) = c :: k' /\ is_letter c = true.
Proof. destruct d; eexists; eexists; split; reflexivity. Qed.

Lemma letter_alpha c : is_letter c = true -> is_alpha_ c = true /\ is_alnum_ c = true.
Proof. unfold is_letter, is_alnum_, is_alpha_. intros ->. split; reflexivity. Qed.

Lemma lname_parts w : lname_ok w = true ->
  (exists c w', w = c :: w' /\ is_letter c = true) /\ forallb is_letter w = true /\ is_name w = true /\
  existsb (bytes_eqb w) reserved_words = false /\
  negb (is_prefix w_parameters w) && negb (is_prefix w w_parameters) = true /\
  forallb (fun k => negb (is_prefix k w) && negb (is_prefix w k)) (map fst kw_table) = true.
Proof.
  unfold lname_ok. intros H. repeat (apply andb_true_iff in H as [H ?]).
  cbn [forallb] in H0. apply andb_true_iff in H0 as [Hp Htbl]. apply negb_true_iff in H1.
  destruct w as [|c w']; [discriminate|]. pose proof H2 as Hall. cbn [forallb] in H2. apply andb_true_iff in H2 as [Hc Hw'].
  repeat split; try assumption.
  - exists c, w'. split; [reflexivity|exact Hc].
  - cbn [is_name]. rewrite (proj1 (letter_alpha c Hc)). cbn [andb]. apply forallb_forall. intros x Hx.
    rewrite forallb_forall in Hw'. apply letter_alpha, Hw', Hx.
Qed.

(* ---------------------------------------------------------------- the text of a type of the fragment does not start
   like the keyword "parameters" (union members are read where that keyword is acceptable) *)
Lemma nopar_ok hl t : lark_ok hl t = true -> nopar t.
Proof.
  intros H x. destruct t as [p s dt|p s|p s t'|p s n t'|p s t'|p s ks l|p s l]; cbn [lark_ok] in H;
    apply orb_true_iff in H as [H|H];
    try (destruct (hardcoded_cases _ H) as [->|[->|[->| ->]]]; reflexivity).
  - destruct p; [|discriminate]. destruct s; [|discriminate]. destruct dt as [d| | | | | | | |]; try discriminate.
    rewrite print_num. destruct d; reflexivity.
  - destruct p; [|discriminate]. destruct s; [|discriminate]. reflexivity.
  - destruct p; [|discriminate]. destruct s; [|discriminate]. rewrite print_list. reflexivity.
  - destruct p; [|discriminate]. destruct s; [|discriminate]. rewrite print_reg.
    apply andb_true_iff in H as [H _]. apply andb_true_iff in H as [_ Hn]. apply Z.leb_le in Hn.
    destruct (Z_of_digits_dec n Hn) as (u & Hu & Hnil & _). rewrite Hu.
    destruct (uint_digits_head u Hnil) as (c & r & Hcr & Hd). rewrite Hcr.
    destruct (digit_tests2 c Hd) as (Hws & _ & _ & _ & _ & _ & _ & _ & H112).
    rewrite <- !app_assoc. change ((c :: r) ++ ?y) with (c :: (r ++ y)). rewrite (skip_ws_nows c _ Hws).
    change w_parameters with (112 :: tl w_parameters). cbn [strip_prefix]. rewrite H112. reflexivity.
  - destruct p; [|discriminate]. destruct s; [|discriminate]. rewrite print_opt. destruct (is_listlike t'); reflexivity.
  - destruct s; [|destruct p as [|[? []] []]; try discriminate H; destruct ks; discriminate H].
    destruct p as [|[k v] p'].
    + destruct ks as [ks|]; [rewrite print_rec|rewrite print_tuple]; reflexivity.
    + destruct v as [| | | |w| |]; try discriminate H. destruct p'; [|discriminate H]. destruct ks as [ks|]; [|discriminate H].
      repeat (apply andb_true_iff in H as [H ?]).
      match goal with Hx : bytes_eqb k k_record = true |- _ => apply bytes_eqb_eq in Hx; subst k end.
      match goal with Hx : lname_ok w = true |- _ =>
        destruct (lname_parts w Hx) as ((c & w' & Hw & Hc) & _ & Hn & Hres & Hpar & _) end.
      rewrite (print_named w (Some ks) l Hn Hres). rewrite <- app_assoc.
      destruct (letter_tests c Hc) as (Hws & _). rewrite Hw. change ((c :: w') ++ ?y) with (c :: (w' ++ y)).
      rewrite (skip_ws_nows c _ Hws). change (c :: w' ++ ?y) with ((c :: w') ++ y). rewrite <- Hw.
      apply strip_prefix_incomparable, Hpar.
  - destruct p; [|discriminate]. destruct s; [|discriminate]. rewrite print_union. reflexivity.
Qed.

(* ---------------------------------------------------------------- the round trip *)
Definition lpp (hl : bool) (t : rty) : Prop :=
  lark_ok hl t = true -> forall fuel rest, (rty_size t <= fuel)%nat -> follow_ok rest ->
  lk_ty hl fuel false (type_tostring t ++ rest) = Ok (t, false, rest).

Lemma lhardcoded_pp hl t : hardcoded t = true -> forall fuel rest, (1 <= fuel)%nat -> follow_ok rest ->
  lk_ty hl fuel false (type_tostring t ++ rest) = Ok (t, false, rest).
Proof.
  intros H fuel rest Hf Hr. destruct fuel as [|fuel]; [lia|].
  destruct (hardcoded_cases t H) as [->|[->|[->| ->]]].
  - change (type_tostring t_string) with p_string.
    rewrite (lk_ty_kw hl fuel false p_string (KHard t_string) rest); [reflexivity|eexists; eexists; split; reflexivity|reflexivity].
  - change (type_tostring t_bytes) with p_bytes.
    rewrite (lk_ty_kw hl fuel false p_bytes (KHard t_bytes) rest); [reflexivity|eexists; eexists; split; reflexivity|reflexivity].
  - change (type_tostring t_char) with p_char.
    rewrite (lk_ty_kw hl fuel false p_char (KHard t_char) rest); [reflexivity|eexists; eexists; split; reflexivity|reflexivity].
  - change (type_tostring t_byte) with p_byte.
    rewrite (lk_ty_kw hl fuel false p_byte (KHard t_byte) rest); [reflexivity|eexists; eexists; split; reflexivity|].
    destruct rest as [|c r]; [reflexivity|]. destruct Hr as [->|[->|[->| ->]]]; reflexivity.
Qed.

Lemma lparses_of_lpp hl fuel l :
  Forall (lpp hl) l -> forallb (lark_ok hl) l = true ->
  (fold_right (fun t n => (rty_size t + n)%nat) O l <= fuel)%nat ->
  Forall (lparses (lk_ty hl fuel)) l /\ Forall nopar l /\ (length l <= fuel)%nat.
Proof.
  intros HF Hp Hs. destruct (size_sum_ge l) as [Hlen Hsz].
  split; [|split; [|lia]].
  - apply Forall_forall. intros t Ht rest Hr. rewrite Forall_forall in HF. rewrite forallb_forall in Hp.
    apply (HF t Ht (Hp t Ht)); [specialize (Hsz t Ht); lia|exact Hr].
  - apply Forall_forall. intros t Ht. rewrite forallb_forall in Hp. apply (nopar_ok hl), Hp, Ht.
Qed.

Theorem lark_parse_print_all hl t : lpp hl t.
Proof.
  induction t as [p s dt|p s|p s t' IH|p s n t' IH|p s t' IH|p s ks l IH|p s l IH] using rty_ind';
    intros Hp fuel rest Hf Hr; cbn [lark_ok] in Hp;
    apply orb_true_iff in Hp as [Hp|Hp];
    try (apply lhardcoded_pp; [exact Hp|pose proof (rty_size_pos (RNum p s dt)); simpl in *; lia|exact Hr]);
    try (apply lhardcoded_pp; [exact Hp|simpl in *; lia|exact Hr]).
  - (* primitive: TYPE *)
    destruct p; [|discriminate]. destruct s; [|discriminate]. destruct dt as [d| | | | | | | |]; try discriminate.
    rewrite print_num. destruct fuel as [|fuel]; [simpl in Hf; lia|].
    rewrite (lk_ty_kw hl fuel false _ _ rest (prim_letter d) (lex_hit_prim d rest)).
    cbn [lk_keyword]. rewrite (lk_opt_options_follow rest Hr). reflexivity.
  - (* unknown *)
    destruct p; [|discriminate]. destruct s; [|discriminate]. rewrite print_unk.
    destruct fuel as [|fuel]; [simpl in Hf; lia|].
    rewrite (lk_ty_kw hl fuel false n_unknown KUnknown rest); [|eexists; eexists; split; reflexivity|reflexivity].
    cbn [lk_keyword]. rewrite (lk_opt_options_follow rest Hr). reflexivity.
  - (* list_single: var * T *)
    destruct p; [|discriminate]. destruct s; [|discriminate]. rewrite print_list.
    destruct fuel as [|fuel]; [simpl in Hf; lia|]. simpl in Hf.
    rewrite <- !app_assoc.
    rewrite (lk_ty_kw hl fuel false w_var KVar); [|eexists; eexists; split; reflexivity|reflexivity].
    cbn [lk_keyword]. change (expect [42] (p_star ++ ?x)) with (@Ok bytes (32 :: x)). cbn [bind].
    rewrite lk_ty_space. rewrite (IH Hp fuel rest) by (try lia; exact Hr). reflexivity.
  - (* regular_inparm: N * T, low-level only *)
    destruct p; [|discriminate]. destruct s; [|discriminate]. rewrite print_reg.
    apply andb_true_iff in Hp as [Hn Hp]. apply andb_true_iff in Hn as [Hhl Hn].
    apply negb_true_iff in Hhl. subst hl. apply Z.leb_le in Hn.
    destruct fuel as [|fuel]; [simpl in Hf; lia|]. simpl in Hf.
    destruct (Z_of_digits_dec n Hn) as (u & Hu & Hnil & Hval). rewrite Hu.
    destruct (uint_digits_head u Hnil) as (c & r & Hcr & Hd).
    rewrite <- !app_assoc.
    rewrite lk_ty_num by (exists c, r; split; [exact Hcr|exact Hd]).
    unfold lk_regular. rewrite (lk_number_digits u _ Hnil). cbn [bind fst snd].
    change (expect [42] (p_star ++ ?x)) with (@Ok bytes (32 :: x)). cbn [bind].
    rewrite lk_ty_space. rewrite (IH Hp fuel rest) by (try lia; exact Hr).
    cbn [bind fst snd orb]. rewrite Hval. reflexivity.
  - (* option_single ?T / option_highlevel option[T] *)
    destruct p; [|discriminate]. destruct s; [|discriminate]. rewrite print_opt.
    apply andb_true_iff in Hp as [Hmode Hp].
    destruct fuel as [|fuel]; [simpl in Hf; lia|]. simpl in Hf.
    destruct (is_listlike t') eqn:El.
    + rewrite orb_false_r in Hmode. subst hl.
      rewrite <- !app_assoc.
      rewrite (lk_ty_kw true fuel false w_option KOption); [|eexists; eexists; split; reflexivity|reflexivity].
      cbn [lk_keyword]. cbn [app]. change (expect [91] (91 :: ?x)) with (@Ok bytes x). cbn [bind].
      rewrite <- app_assoc. cbn [app].
      rewrite (IH Hp fuel (93 :: rest)) by (try lia; simpl; auto).
      cbn [bind fst snd]. rewrite (skip_ws_nows 93) by reflexivity. reflexivity.
    + change (lk_ty hl (S fuel) false ((63 :: type_tostring t') ++ rest))
        with (lk_question (lk_ty hl fuel) false (type_tostring t' ++ rest)).
      unfold lk_question. rewrite (IH Hp fuel rest) by (try lia; exact Hr).
      cbn [bind fst snd]. rewrite (lk_opt_options_follow rest Hr). reflexivity.
  - (* records and tuples *)
    destruct s; [|destruct p as [|[? []] []]; try discriminate Hp; destruct ks; discriminate Hp].
    destruct fuel as [|fuel]; [simpl in Hf; lia|]. simpl in Hf.
    destruct p as [|[k v] p'].
    + destruct ks as [ks|].
      * (* record_dict *)
        repeat (apply andb_true_iff in Hp as [Hp ?]).
        match goal with Hx : forallb (lark_ok hl) l = true |- _ =>
          destruct (lparses_of_lpp hl fuel l IH Hx ltac:(lia)) as (Hparses & _ & Hlen) end.
        match goal with Hx : Nat.eqb _ _ = true |- _ => apply Nat.eqb_eq in Hx; rename Hx into Hl end.
        rewrite print_rec, (keyed_map ks l Hl).
        change (lk_ty hl (S fuel) false ((123 :: ?x) ++ rest)) with (lk_brace (lk_ty hl fuel) fuel false (x ++ rest)).
        unfold lk_brace. rewrite <- app_assoc. cbn [app].
        destruct (zip_fst_snd ks l Hl) as [E1 E2].
        rewrite (lk_fields_ok (lk_ty hl fuel) (lk_ty_space hl fuel) 125 (or_intror eq_refl) (zip ks l) fuel rest).
        -- cbn [bind fst snd]. rewrite E1, E2. reflexivity.
        -- destruct l; [discriminate|]. destruct ks; [discriminate|]. discriminate.
        -- apply Forall_forall. intros [k0 t0] Hin. simpl. rewrite Forall_forall in Hparses. apply Hparses.
           rewrite <- E2. apply (in_map snd _ _ Hin).
        -- rewrite E1. assumption.
        -- assert (length (zip ks l) = length l) by (rewrite <- E2 at 2; rewrite map_length; reflexivity). lia.
      * (* record_tuple *)
        apply andb_true_iff in Hp as [Hne Hall].
        destruct (lparses_of_lpp hl fuel l IH Hall ltac:(lia)) as (Hparses & _ & Hlen).
        rewrite print_tuple.
        change (lk_ty hl (S fuel) false ((40 :: ?x) ++ rest)) with (lk_paren (lk_ty hl fuel) fuel false (x ++ rest)).
        unfold lk_paren. rewrite <- app_assoc. cbn [app].
        rewrite (lk_list_ok (lk_ty hl fuel) (lk_ty_space hl fuel) 41 (or_intror eq_refl) l fuel rest);
          [reflexivity|destruct l; [discriminate|discriminate]|exact Hparses|exact Hlen].
    + (* record_highlevel *)
      destruct v as [| | | |w| |]; try discriminate Hp. destruct p'; [|discriminate Hp]. destruct ks as [ks|]; [|discriminate Hp].
      repeat (apply andb_true_iff in Hp as [Hp ?]). subst hl.
      match goal with Hx : bytes_eqb k k_record = true |- _ => apply bytes_eqb_eq in Hx; subst k end.
      match goal with Hx : lname_ok w = true |- _ =>
        destruct (lname_parts w Hx) as (Hhead & Hletters & Hn & Hres & _ & Htbl) end.
      match goal with Hx : forallb (lark_ok true) l = true |- _ =>
        destruct (lparses_of_lpp true fuel l IH Hx ltac:(lia)) as (Hparses & _ & Hlen) end.
      match goal with Hx : Nat.eqb _ _ = true |- _ => apply Nat.eqb_eq in Hx; rename Hx into Hl end.
      rewrite (print_named w (Some ks) l Hn Hres). rewrite (keyed_map ks l Hl).
      rewrite <- !app_assoc. cbn [app]. rewrite <- ?app_assoc. cbn [app].
      rewrite (lk_ty_name true fuel false w _ Hhead (lex_kw_none kw_table w _ Htbl)).
      unfold lk_named. rewrite (span_word is_letter w _ Hletters) by reflexivity.
      change (expect [91] (91 :: ?x)) with (@Ok bytes x). cbn [bind].
      destruct (zip_fst_snd ks l Hl) as [E1 E2].
      rewrite (lk_fields_ok (lk_ty true fuel) (lk_ty_space true fuel) 93 (or_introl eq_refl) (zip ks l) fuel rest).
      * cbn [bind fst snd]. rewrite E1, E2. reflexivity.
      * destruct l; [discriminate|]. destruct ks; [discriminate|]. discriminate.
      * apply Forall_forall. intros [k0 t0] Hin. simpl. rewrite Forall_forall in Hparses. apply Hparses.
        rewrite <- E2. apply (in_map snd _ _ Hin).
      * rewrite E1. assumption.
      * assert (length (zip ks l) = length l) by (rewrite <- E2 at 2; rewrite map_length; reflexivity). lia.
  - (* union_single *)
    destruct p; [|discriminate]. destruct s; [|discriminate]. rewrite print_union.
    apply andb_true_iff in Hp as [Hne Hall].
    destruct fuel as [|fuel]; [simpl in Hf; lia|]. simpl in Hf.
    destruct (lparses_of_lpp hl fuel l IH Hall ltac:(lia)) as (Hparses & Hnopar & Hlen).
    rewrite <- !app_assoc. cbn [app].
    rewrite (lk_ty_kw hl fuel false w_union KUnion); [|eexists; eexists; split; reflexivity|reflexivity].
    cbn [lk_keyword]. change (expect [91] (91 :: ?x)) with (@Ok bytes x). cbn [bind].
    rewrite <- app_assoc. cbn [app].
    rewrite (lk_ulist_ok (lk_ty hl fuel) (lk_ty_space hl fuel) l fuel rest);
      [reflexivity|destruct l; [discriminate|discriminate]|exact Hparses|exact Hnopar|exact Hlen].
Qed.

(* ---------------------------------------------------------------- the fragment is part of [printable] *)
Lemma forallb_impl {A} (f g : A -> bool) l : Forall (fun x => f x = true -> g x = true) l -> forallb f l = true -> forallb g l = true.
Proof.
  induction 1 as [|x l Hx Hl IH]; intros H; [reflexivity|]. simpl in *. apply andb_true_iff in H as [H1 H2].
  rewrite (Hx H1), (IH H2). reflexivity.
Qed.

Lemma lkeys_keys ks : forallb lkey_ok ks = true -> forallb key_ok ks = true.
Proof. apply forallb_impl, Forall_forall. intros k _. apply lkey_key_ok. Qed.

Theorem lark_ok_printable hl t : lark_ok hl t = true -> printable t = true.
Proof.
  induction t as [p s dt|p s|p s t' IH|p s n t' IH|p s t' IH|p s ks l IH|p s l IH] using rty_ind';
    intros Hp; cbn [lark_ok] in Hp; cbn [printable]; apply orb_true_iff in Hp as [Hp|Hp];
    try (rewrite Hp; reflexivity); apply orb_true_iff; right.
  - destruct p; [|discriminate]. destruct s; [|discriminate]. destruct dt as [d| | | | | | | |]; try discriminate. reflexivity.
  - destruct p; [|discriminate]. destruct s; [|discriminate]. exact (IH Hp).
  - destruct p; [|discriminate]. destruct s; [|discriminate].
    apply andb_true_iff in Hp as [Hn Hp]. apply andb_true_iff in Hn as [_ Hn]. rewrite Hn, (IH Hp). reflexivity.
  - destruct p; [|discriminate]. destruct s; [|discriminate]. apply andb_true_iff in Hp as [_ Hp]. exact (IH Hp).
  - destruct s; [|destruct p as [|[? []] []]; try discriminate Hp; destruct ks; discriminate Hp].
    destruct p as [|[k v] p'].
    + destruct ks as [ks|].
      * repeat (apply andb_true_iff in Hp as [Hp ?]).
        match goal with Hx : forallb (lark_ok hl) l = true |- _ => rewrite (forallb_impl _ _ l IH Hx) end.
        match goal with Hx : forallb lkey_ok ks = true |- _ => rewrite (lkeys_keys ks Hx) end.
        match goal with Hx : Nat.eqb _ _ = true |- _ => rewrite Hx end. reflexivity.
      * apply andb_true_iff in Hp as [_ Hall]. rewrite (forallb_impl _ _ l IH Hall). reflexivity.
    + destruct v as [| | | |w| |]; try discriminate Hp. destruct p'; [|discriminate Hp]. destruct ks as [ks|]; [|discriminate Hp].
      repeat (apply andb_true_iff in Hp as [Hp ?]).
      match goal with Hx : lname_ok w = true |- _ => destruct (lname_parts w Hx) as (_ & _ & Hn & Hres & _) end.
      match goal with Hx : forallb (lark_ok hl) l = true |- _ => rewrite (forallb_impl _ _ l IH Hx) end.
      match goal with Hx : forallb lkey_ok ks = true |- _ => rewrite (lkeys_keys ks Hx) end.
      match goal with Hx : Nat.eqb _ _ = true |- _ => rewrite Hx end.
      match goal with Hx : bytes_eqb k k_record = true |- _ => rewrite Hx end.
      rewrite Hn, Hres. reflexivity.
  - destruct p; [|discriminate]. destruct s; [|discriminate]. apply andb_true_iff in Hp as [_ Hall].
    exact (forallb_impl _ _ l IH Hall).
Qed.

(* ---------------------------------------------------------------- the theorems *)
(* (a) a type of the fragment survives printing and re-parsing with the repository's parser, in the stated mode *)
Theorem lark_roundtrip_full hl t : lark_ok hl t = true -> lark_parse_full hl (type_tostring t) = Ok (t, false).
Proof.
  intros Hp. unfold lark_parse_full.
  rewrite <- (app_nil_r (type_tostring t)) at 2.
  rewrite (lark_parse_print_all hl t Hp (S (length (type_tostring t))) []).
  - reflexivity.
  - pose proof (size_le_print t (lark_ok_printable hl t Hp)). lia.
  - exact I.
Qed.

Theorem lark_roundtrip hl t : lark_ok hl t = true -> lark_parse hl (type_tostring t) = Ok t.
Proof. intros Hp. unfold lark_parse. rewrite (lark_roundtrip_full hl t Hp). reflexivity. Qed.

(* what the harness counts: some mode brings the type back, without ArrayType *)
Theorem lark_roundtrip_some_mode t : lark_ok false t || lark_ok true t = true ->
  lark_parse false (type_tostring t) = Ok t \/ lark_parse true (type_tostring t) = Ok t.
Proof. intros H. apply orb_true_iff in H as [H|H]; [left|right]; apply lark_roundtrip, H. Qed.

(* (d) on the fragment the repository's parser and the reference parser of TypeStr.v agree *)
Theorem lark_agrees_with_reference hl t : lark_ok hl t = true ->
  lark_parse hl (type_tostring t) = type_parse (type_tostring t).
Proof.
  intros Hp. rewrite (lark_roundtrip hl t Hp).
  symmetry. apply type_print_parse_roundtrip_thm, (lark_ok_printable hl t Hp).
Qed.
