(* C19 — AwkwardForth: the control-flow laws of the run loop (`internal_run f true false p e t`, i.e. run / resume / call)
   for ALL programs whose bytecode has the stated shape at the current position:
     if..then, if..else..then, do..loop, do..+loop, begin..until, begin..while..repeat, begin..again, exit, i j k, word calls.
   Model files are frozen; this file contains proofs only (plus the small vocabulary used in the statements). *)
From Coq Require Import ZArith Bool List Lia ZifyBool.
From AwkForth Require Import Forth Proofs_C19.
Import ListNotations.
Open Scope Z_scope.

(* ================================================================== 0. vocabulary of the statements *)
(* the data part of a machine state: what a Forth word can change *)
Record data := mkD { d_stack : list Z; d_vars : list Z; d_inpos : list Z; d_outs : list outbuf }.

Definition with_stack (d : data) (s : list Z) : data := mkD s (d_vars d) (d_inpos d) (d_outs d).

(* a machine state = control constants (targets, ready, error) + data + frames + do-stack *)
Definition St (tg : list Z) (rd : bool) (er : Z) (d : data) (fr : list (Z * Z)) (dos : list (Z * Z * Z)) : machine :=
  mkM (d_stack d) (d_vars d) (d_inpos d) (d_outs d) fr dos tg rd er.

Definition data_of (m : machine) : data := mkD (m_stack m) (m_vars m) (m_inpos m) (m_outs m).

(* the bytecode cell at position ip of segment `which` *)
Definition code (p : prog) (which ip : Z) : option Z :=
  match znth (p_segs p) which with Some seg => znth seg ip | None => None end.

(* no do-loop header is pending at recursion depth dp (the innermost do entry belongs to another depth) *)
Definition free_at (dos : list (Z * Z * Z)) (dp : Z) : bool :=
  match dos with (dd, _, _) :: _ => negb (abs_depth dd =? dp) | [] => true end.

(* m reaches m' in the run loop: running from m with enough fuel is running from m' *)
Definition goes (p : prog) (e : env) (t : Z) (m m' : machine) : Prop :=
  exists k, forall f, internal_run (k + f) true false p e t m = internal_run f true false p e t m'.

(* the run loop started in m returns r (a final state with its error code, or a fault) *)
Definition ends (p : prog) (e : env) (t : Z) (m : machine) (r : result machine) : Prop :=
  exists k, forall f, internal_run (S k + f) true false p e t m = r.

(* segment sg, entered from the frames fr, runs to its end and turns the data d into d' (do-stack restored) *)
Definition seg_goes (p : prog) (e : env) (t : Z) (tg : list Z) (rd : bool) (er : Z)
           (sg : Z) (fr : list (Z * Z)) (dos : list (Z * Z * Z)) (d d' : data) : Prop :=
  exists len, seg_len p sg = Some len /\
              goes p e t (St tg rd er d ((sg, 0) :: fr) dos) (St tg rd er d' ((sg, len) :: fr) dos).

(* ---- do-loops *)
Definition do_code (is_step : bool) : Z := if is_step then CODE_DO_STEP else CODE_DO.       (* do..+loop | do..loop *)
Definition do_mark (is_step : bool) (D : Z) : Z := if is_step then - D - 1 else D.          (* the do-stack depth marker *)

(* the loop bookkeeping after one pass through the body: `loop` adds 1, `+loop` pops the step *)
Definition loop_next (is_step : bool) (i : Z) (d : data) : option (Z * data) :=
  if is_step then match d_stack d with v :: s => Some (wrap 64 (i + v), with_stack d s) | [] => None end
  else Some (wrap 64 (i + 1), d).

(* the iterations of a do-loop whose body relation is `bodyrun i before after`; the test `stop <= i` comes first *)
Inductive do_iter (is_step : bool) (bodyrun : Z -> data -> data -> Prop) (stop : Z) : Z -> data -> data -> Prop :=
| DI_done : forall i d, stop <= i -> do_iter is_step bodyrun stop i d d
| DI_more : forall i d d1 i' d2 d3, i < stop -> bodyrun i d d1 -> loop_next is_step i d1 = Some (i', d2) ->
            do_iter is_step bodyrun stop i' d2 d3 -> do_iter is_step bodyrun stop i d d3.

(* body B applied for i = i0, i0+1, ... (k times) *)
Fixpoint iter_from (B : Z -> data -> data) (i : Z) (k : nat) (d : data) : data :=
  match k with O => d | S k' => iter_from B (i + 1) k' (B i d) end.

(* do .. +loop as the model runs it: test `stop <= i` first, then the body, then the popped step is added (64-bit wrap) *)
Fixpoint ploop (B : Z -> data -> data) (stop i : Z) (fuel : nat) (d : data) : option data :=
  if stop <=? i then Some d
  else match fuel with
       | O => None
       | S k => match d_stack (B i d) with
                | v :: s => ploop B stop (wrap 64 (i + v)) k (with_stack (B i d) s)
                | [] => None
                end
       end.


(* ---- begin-loops *)
Inductive until_iter (bodyrun : data -> data -> Prop) : data -> data -> Prop :=
| UI_exit : forall d d1 v s, bodyrun d d1 -> d_stack d1 = v :: s -> v <> 0 -> until_iter bodyrun d (with_stack d1 s)
| UI_again : forall d d1 s d', bodyrun d d1 -> d_stack d1 = 0 :: s -> until_iter bodyrun (with_stack d1 s) d' ->
             until_iter bodyrun d d'.

Inductive while_iter (prerun postrun : data -> data -> Prop) : data -> data -> Prop :=
| WI_exit : forall d d1 s, prerun d d1 -> d_stack d1 = 0 :: s -> while_iter prerun postrun d (with_stack d1 s)
| WI_again : forall d d1 v s d2 d', prerun d d1 -> d_stack d1 = v :: s -> v <> 0 -> postrun (with_stack d1 s) d2 ->
             while_iter prerun postrun d2 d' -> while_iter prerun postrun d d'.

(* begin B until: B, pop the flag, repeat while it is zero *)
Fixpoint until_loop (B : data -> data) (fuel : nat) (d : data) : option data :=
  match fuel with
  | O => None
  | S k => match d_stack (B d) with
           | [] => None
           | v :: s => if v =? 0 then until_loop B k (with_stack (B d) s) else Some (with_stack (B d) s)
           end
  end.

(* begin Pre while Post repeat: Pre, pop the flag, zero: leave, else Post and repeat *)
Fixpoint while_loop (Pre Post : data -> data) (fuel : nat) (d : data) : option data :=
  match fuel with
  | O => None
  | S k => match d_stack (Pre d) with
           | [] => None
           | v :: s => if v =? 0 then Some (with_stack (Pre d) s) else while_loop Pre Post k (Post (with_stack (Pre d) s))
           end
  end.

(* at least one pass of the run loop *)
Definition goes1 (p : prog) (e : env) (t : Z) (m m' : machine) : Prop :=
  exists k, forall f, internal_run (S k + f) true false p e t m = internal_run f true false p e t m'.

(* ================================================================== 1. reachability *)
Lemma goes_refl : forall p e t m, goes p e t m m.
Proof. intros; exists 0%nat; reflexivity. Qed.

Lemma goes_trans : forall p e t a b c, goes p e t a b -> goes p e t b c -> goes p e t a c.
Proof.
  intros p e t a b c [k1 H1] [k2 H2]. exists (k1 + k2)%nat. intros f.
  rewrite <- Nat.add_assoc, H1, H2. reflexivity.
Qed.

Lemma goes_ends : forall p e t a b r, goes p e t a b -> ends p e t b r -> ends p e t a r.
Proof.
  intros p e t a b r [k1 H1] [k2 H2]. exists (k1 + k2)%nat. intros f.
  replace (S (k1 + k2) + f)%nat with (k1 + (S k2 + f))%nat by lia. rewrite H1. apply H2.
Qed.

(* what `goes` / `ends` mean for a run with given fuel *)
Lemma goes_run : forall p e t a b f r, goes p e t a b -> internal_run f true false p e t b = r -> r <> OutOfFuel ->
  exists f', internal_run f' true false p e t a = r.
Proof. intros p e t a b f r [k H] Hb _. exists (k + f)%nat. rewrite H. exact Hb. Qed.

Lemma ends_run : forall p e t a r, ends p e t a r -> exists f0, forall f, internal_run (f0 + f) true false p e t a = r.
Proof. intros p e t a r [k H]. exists (S k). exact H. Qed.

Lemma goes_target : forall p e t a b, goes p e t a b -> depth b = t -> ends p e t a (Ok b).
Proof.
  intros p e t a b [k H] Hd. exists k. intros f. replace (S k + f)%nat with (k + S f)%nat by lia.
  rewrite H, IR_S. rewrite (proj2 (Z.eqb_eq _ _) Hd). reflexivity.
Qed.

Lemma exec_instr_run : forall p e t m,
  exec_instr true false p e t m =
  match fetch_instr p m with
  | Ok (LoopEnd m') => continue m'
  | Ok (Instr bc m1) => exec_op true false p e m1 bc
  | Fault k => Fault k
  | OutOfFuel => OutOfFuel
  end.
Proof.
  intros. unfold exec_instr. destruct (fetch_instr p m) as [[m'|bc m1]|k|]; try reflexivity.
  destruct (exec_op true false p e m1 bc) as [[[|] m2]|k|]; reflexivity.
Qed.

Lemma goes_instr : forall p e t m m1, depth m <> t -> segment_done p m = Ok false ->
  exec_instr true false p e t m = Ok (Continue, m1) -> goes p e t m m1.
Proof.
  intros p e t m m1 Hd Hs He. exists 1%nat. intros f. change (1 + f)%nat with (S f). rewrite IR_S.
  rewrite (proj2 (Z.eqb_neq _ _) Hd), Hs, He. reflexivity.
Qed.

Lemma ends_instr : forall p e t m m1, depth m <> t -> segment_done p m = Ok false ->
  exec_instr true false p e t m = Ok (Return, m1) -> ends p e t m (Ok m1).
Proof.
  intros p e t m m1 Hd Hs He. exists 0%nat. intros f. change (1 + f)%nat with (S f). rewrite IR_S.
  rewrite (proj2 (Z.eqb_neq _ _) Hd), Hs, He. reflexivity.
Qed.

Lemma ends_fault : forall p e t m k, depth m <> t -> segment_done p m = Ok false ->
  exec_instr true false p e t m = Fault k -> ends p e t m (Fault k).
Proof.
  intros p e t m m1 Hd Hs He. exists 0%nat. intros f. change (1 + f)%nat with (S f). rewrite IR_S.
  rewrite (proj2 (Z.eqb_neq _ _) Hd), Hs, He. reflexivity.
Qed.

Lemma goes_pop : forall p e t m m1, depth m <> t -> segment_done p m = Ok true ->
  pop_incr m = Ok (Continue, m1) -> goes p e t m m1.
Proof.
  intros p e t m m1 Hd Hs He. exists 1%nat. intros f. change (1 + f)%nat with (S f). rewrite IR_S.
  rewrite (proj2 (Z.eqb_neq _ _) Hd), Hs, He. reflexivity.
Qed.

Lemma ends_pop : forall p e t m m1, depth m <> t -> segment_done p m = Ok true ->
  pop_incr m = Ok (Return, m1) -> ends p e t m (Ok m1).
Proof.
  intros p e t m m1 Hd Hs He. exists 0%nat. intros f. change (1 + f)%nat with (S f). rewrite IR_S.
  rewrite (proj2 (Z.eqb_neq _ _) Hd), Hs, He. reflexivity.
Qed.

(* ================================================================== 2. lists, positions *)
Lemma zlen_cons : forall A (x : A) l, zlen (x :: l) = zlen l + 1.
Proof. intros. unfold zlen. cbn [length]. lia. Qed.

Lemma zlen_nonneg : forall A (l : list A), 0 <= zlen l.
Proof. intros. unfold zlen. lia. Qed.

Lemma znth_range : forall A (l : list A) i x, znth l i = Some x -> 0 <= i < zlen l.
Proof.
  intros A l i x H. unfold znth in H. destruct (i <? 0) eqn:E; [discriminate|].
  assert (Hn : (Z.to_nat i < length l)%nat) by (apply nth_error_Some; congruence).
  unfold zlen. lia.
Qed.

Lemma code_inv : forall p which ip b, code p which ip = Some b ->
  exists seg, znth (p_segs p) which = Some seg /\ znth seg ip = Some b /\ seg_len p which = Some (zlen seg) /\
              0 <= ip < zlen seg.
Proof.
  intros p which ip b H. unfold code in H. destruct (znth (p_segs p) which) as [seg|] eqn:E; [|discriminate].
  exists seg. repeat split; try assumption.
  - unfold seg_len. rewrite E. reflexivity.
  - apply znth_range in H. lia.
  - apply znth_range in H. lia.
Qed.

Lemma seg_len_nonneg : forall p sg len, seg_len p sg = Some len -> 0 <= sg /\ 0 <= len.
Proof.
  intros p sg len H. unfold seg_len in H. destruct (znth (p_segs p) sg) as [seg|] eqn:E; [|discriminate].
  inv H. apply znth_range in E. split; [lia|apply zlen_nonneg].
Qed.

Lemma abs_depth_pos : forall D, 0 <= D -> abs_depth D = D.
Proof. intros. unfold abs_depth. destruct (D <? 0) eqn:E; lia. Qed.

Lemma abs_depth_neg : forall D, 0 <= D -> abs_depth (- D - 1) = D.
Proof. intros. unfold abs_depth. destruct (- D - 1 <? 0) eqn:E; lia. Qed.

(* ================================================================== 3. one pass of the loop on a state `St` *)
Section Laws.
  Variables (p : prog) (e : env) (t : Z) (tg : list Z) (rd : bool) (er : Z).

  Notation S_ := (St tg rd er).
  Notation G := (goes p e t).
  Notation SG := (seg_goes p e t tg rd er).

  Lemma depth_St : forall er' d fr dos, depth (St tg rd er' d fr dos) = zlen fr.
  Proof. reflexivity. Qed.

  Lemma seg_done_St : forall d which ip fr dos b, code p which ip = Some b ->
    segment_done p (S_ d ((which, ip) :: fr) dos) = Ok false.
  Proof.
    intros d which ip fr dos b H. destruct (code_inv _ _ _ _ H) as (seg & H1 & H2 & H3 & H4).
    unfold segment_done, St. cbn [m_frames]. rewrite H3. f_equal. lia.
  Qed.

  Lemma seg_done_end : forall d sg len fr dos, seg_len p sg = Some len ->
    segment_done p (S_ d ((sg, len) :: fr) dos) = Ok true.
  Proof.
    intros. unfold segment_done, St. cbn [m_frames]. rewrite H. f_equal. lia.
  Qed.

  (* fetch_instr where no do-loop header is pending at this depth: the opcode, ip advanced *)
  Lemma fetch_instr_free : forall d which ip fr dos b, code p which ip = Some b ->
    free_at dos (zlen fr + 1) = true ->
    fetch_instr p (S_ d ((which, ip) :: fr) dos) = Ok (Instr b (S_ d ((which, ip + 1) :: fr) dos)).
  Proof.
    intros d which ip fr dos b H Hf. destruct (code_inv _ _ _ _ H) as (seg & H1 & H2 & _).
    unfold fetch_instr, St. cbn [m_frames m_dos]. rewrite H1, H2.
    destruct dos as [|[[dd ds] di] dos']; [reflexivity|].
    unfold free_at in Hf. unfold depth. cbn [m_frames]. rewrite zlen_cons.
    destruct (abs_depth dd =? zlen fr + 1); [discriminate|]. reflexivity.
  Qed.

  (* fetch_instr at a pending do-loop header *)
  Lemma fetch_instr_header : forall d which ip fr dd ds di dos b, code p which ip = Some b ->
    abs_depth dd = zlen fr + 1 ->
    fetch_instr p (S_ d ((which, ip) :: fr) ((dd, ds, di) :: dos)) =
    Ok (if ds <=? di then LoopEnd (S_ d ((which, ip + 1) :: fr) dos)
        else Instr b (S_ d ((which, ip) :: fr) ((dd, ds, di) :: dos))).
  Proof.
    intros d which ip fr dd ds di dos b H Ha. destruct (code_inv _ _ _ _ H) as (seg & H1 & H2 & _).
    unfold fetch_instr, St. cbn [m_frames m_dos]. rewrite H1, H2.
    unfold depth. cbn [m_frames]. rewrite zlen_cons, Ha, Z.eqb_refl.
    destruct (ds <=? di); reflexivity.
  Qed.

  Lemma fetch_St : forall er' d which ip fr dos b, code p which ip = Some b ->
    fetch p (St tg rd er' d ((which, ip) :: fr) dos) = Ok (b, St tg rd er' d ((which, ip + 1) :: fr) dos).
  Proof.
    intros er' d which ip fr dos b H. destruct (code_inv _ _ _ _ H) as (seg & H1 & H2 & _).
    unfold fetch, St. cbn [m_frames]. rewrite H1, H2. reflexivity.
  Qed.

  (* one instruction (not a loop header): exec_op on the advanced state *)
  Lemma step_free : forall d which ip fr dos b m1, code p which ip = Some b ->
    free_at dos (zlen fr + 1) = true -> t <= zlen fr ->
    exec_op true false p e (S_ d ((which, ip + 1) :: fr) dos) b = Ok (Continue, m1) ->
    G (S_ d ((which, ip) :: fr) dos) m1.
  Proof.
    intros d which ip fr dos b m1 H Hf Ht Hx. apply goes_instr.
    - rewrite depth_St, zlen_cons. lia.
    - eapply seg_done_St; eassumption.
    - rewrite exec_instr_run, (fetch_instr_free _ _ _ _ _ _ H Hf). exact Hx.
  Qed.

  Lemma stop_free : forall d which ip fr dos b m1, code p which ip = Some b ->
    free_at dos (zlen fr + 1) = true -> t <= zlen fr ->
    exec_op true false p e (S_ d ((which, ip + 1) :: fr) dos) b = Ok (Return, m1) ->
    ends p e t (S_ d ((which, ip) :: fr) dos) (Ok m1).
  Proof.
    intros d which ip fr dos b m1 H Hf Ht Hx. apply ends_instr.
    - rewrite depth_St, zlen_cons. lia.
    - eapply seg_done_St; eassumption.
    - rewrite exec_instr_run, (fetch_instr_free _ _ _ _ _ _ H Hf). exact Hx.
  Qed.

  Lemma fault_free : forall d which ip fr dos b k, code p which ip = Some b ->
    free_at dos (zlen fr + 1) = true -> t <= zlen fr ->
    exec_op true false p e (S_ d ((which, ip + 1) :: fr) dos) b = Fault k ->
    ends p e t (S_ d ((which, ip) :: fr) dos) (Fault k).
  Proof.
    intros d which ip fr dos b m1 H Hf Ht Hx. apply ends_fault.
    - rewrite depth_St, zlen_cons. lia.
    - eapply seg_done_St; eassumption.
    - rewrite exec_instr_run, (fetch_instr_free _ _ _ _ _ _ H Hf). exact Hx.
  Qed.

  Lemma pop_incr_St : forall d x fr dos,
    pop_incr (S_ d (x :: fr) dos) =
    match dos with
    | (dd, ds, di) :: dos' =>
      if abs_depth dd =? zlen fr then
        if dd <? 0 then
          match d_stack d with
          | [] => stop (S_ d fr dos) E_underflow
          | v :: s => continue (S_ (with_stack d s) fr ((dd, ds, wrap 64 (di + v)) :: dos'))
          end
        else continue (S_ d fr ((dd, ds, wrap 64 (di + 1)) :: dos'))
      else continue (S_ d fr dos)
    | [] => continue (S_ d fr dos)
    end.
  Proof. intros d x fr dos. destruct dos as [|[[dd ds] di] dos']; reflexivity. Qed.

  (* the end of a segment that is not a do-loop body: the frame is popped, nothing else *)
  Lemma pop_free : forall d sg len fr dos, seg_len p sg = Some len ->
    free_at dos (zlen fr) = true -> t <= zlen fr ->
    G (S_ d ((sg, len) :: fr) dos) (S_ d fr dos).
  Proof.
    intros d sg len fr dos Hl Hf Ht. apply goes_pop.
    - rewrite depth_St, zlen_cons. lia.
    - apply seg_done_end; assumption.
    - unfold pop_incr, St. cbn [m_frames set_frames m_dos m_stack m_vars m_inpos m_outs m_targets m_ready m_err].
      destruct dos as [|[[dd ds] di] dos']; [reflexivity|].
      unfold free_at in Hf. unfold depth. cbn [m_frames set_frames].
      destruct (abs_depth dd =? zlen fr); [discriminate|]. reflexivity.
  Qed.

  (* opcodes of calls *)
  Lemma exec_op_call : forall m sg, 0 <= sg ->
    exec_op true false p e m (sg + BOUND_DICTIONARY) = push_frame p m sg.
  Proof.
    intros m sg H. unfold exec_op, BOUND_DICTIONARY.
    destruct (sg + 66 <? 0) eqn:E1; [lia|]. destruct (66 <=? sg + 66) eqn:E2; [|lia].
    f_equal. lia.
  Qed.

  (* ================================================================ 4. calling a segment (user word) *)
  (* entering: the frame of the segment is pushed, the caller's ip is past the call *)
  Theorem call_enter_proof : forall d which ip fr dos sg len,
    code p which ip = Some (sg + BOUND_DICTIONARY) -> seg_len p sg = Some len ->
    free_at dos (zlen fr + 1) = true -> t <= zlen fr -> zlen fr + 1 <> p_rec_max p ->
    G (S_ d ((which, ip) :: fr) dos) (S_ d ((sg, 0) :: (which, ip + 1) :: fr) dos).
  Proof.
    intros d which ip fr dos sg len Hc Hl Hf Ht Hr. eapply step_free; try eassumption.
    rewrite exec_op_call by (apply seg_len_nonneg in Hl; lia).
    unfold push_frame. rewrite depth_St, zlen_cons. rewrite (proj2 (Z.eqb_neq _ _) Hr). reflexivity.
  Qed.

  Theorem call_recursion_limit_proof : forall d which ip fr dos sg len,
    code p which ip = Some (sg + BOUND_DICTIONARY) -> seg_len p sg = Some len ->
    free_at dos (zlen fr + 1) = true -> t <= zlen fr -> zlen fr + 1 = p_rec_max p ->
    ends p e t (S_ d ((which, ip) :: fr) dos) (Ok (St tg rd E_recursion d ((which, ip + 1) :: fr) dos)).
  Proof.
    intros d which ip fr dos sg len Hc Hl Hf Ht Hr. eapply stop_free; try eassumption.
    rewrite exec_op_call by (apply seg_len_nonneg in Hl; lia).
    unfold push_frame. rewrite depth_St, zlen_cons. rewrite (proj2 (Z.eqb_eq _ _) Hr). reflexivity.
  Qed.

  (* a call whose segment runs to its end: the data is transformed, the caller continues after the call *)
  Theorem call_spec_proof : forall d d' which ip fr dos sg,
    code p which ip = Some (sg + BOUND_DICTIONARY) ->
    free_at dos (zlen fr + 1) = true -> t <= zlen fr -> zlen fr + 1 <> p_rec_max p ->
    SG sg ((which, ip + 1) :: fr) dos d d' ->
    G (S_ d ((which, ip) :: fr) dos) (S_ d' ((which, ip + 1) :: fr) dos).
  Proof.
    intros d d' which ip fr dos sg Hc Hf Ht Hr (len & Hl & Hg).
    eapply goes_trans; [eapply call_enter_proof; eassumption|].
    eapply goes_trans; [exact Hg|].
    apply pop_free; try assumption.
    - rewrite zlen_cons. exact Hf.
    - rewrite zlen_cons. lia.
  Qed.

  (* ================================================================ 5. if .. then, if .. else .. then *)
  Lemma exec_op_IF : forall m, exec_op true false p e m CODE_IF =
    match m_stack m with
    | [] => stop m E_underflow
    | v :: s => let m1 := set_stack m s in
                if v =? 0 then match move_ip m1 1 with Ok m2 => continue m2 | _ => Fault F_internal end else continue m1
    end.
  Proof. reflexivity. Qed.

  Lemma exec_op_IF_ELSE : forall m, exec_op true false p e m CODE_IF_ELSE =
    match m_stack m with
    | [] => stop m E_underflow
    | v :: s => let m1 := set_stack m s in
                if v =? 0 then match move_ip m1 1 with Ok m2 => continue m2 | _ => Fault F_internal end
                else match fetch p m1 with
                     | Ok (consequent, m2) =>
                       match move_ip m2 1 with
                       | Ok m3 => push_frame p m3 (consequent - BOUND_DICTIONARY)
                       | _ => Fault F_internal
                       end
                     | Fault k => Fault k
                     | OutOfFuel => OutOfFuel
                     end
    end.
  Proof. reflexivity. Qed.

  (* the flag is popped; zero skips the cell holding the consequent, non-zero leaves ip on it *)
  Lemma if_test : forall d v s which ip fr dos, code p which ip = Some CODE_IF ->
    free_at dos (zlen fr + 1) = true -> t <= zlen fr -> d_stack d = v :: s ->
    G (S_ d ((which, ip) :: fr) dos) (S_ (with_stack d s) ((which, if v =? 0 then ip + 2 else ip + 1) :: fr) dos).
  Proof.
    intros d v s which ip fr dos Hc Hf Ht Hs. eapply step_free; try eassumption.
    rewrite exec_op_IF. unfold St at 1. cbn [m_stack]. rewrite Hs. cbv zeta.
    destruct (v =? 0).
    - change (set_stack _ s) with (S_ (with_stack d s) ((which, ip + 1) :: fr) dos).
      change (move_ip _ 1) with (Ok (S_ (with_stack d s) ((which, ip + 1 + 1) :: fr) dos)). cbv iota.
      replace (ip + 1 + 1) with (ip + 2) by lia. reflexivity.
    - reflexivity.
  Qed.

  Theorem if_then_spec_proof : forall d d' v s which ip fr dos sg,
    code p which ip = Some CODE_IF -> code p which (ip + 1) = Some (sg + BOUND_DICTIONARY) ->
    free_at dos (zlen fr + 1) = true -> t <= zlen fr ->
    d_stack d = v :: s ->
    (v <> 0 -> zlen fr + 1 <> p_rec_max p /\ SG sg ((which, ip + 2) :: fr) dos (with_stack d s) d') ->
    (v = 0 -> d' = with_stack d s) ->
    G (S_ d ((which, ip) :: fr) dos) (S_ d' ((which, ip + 2) :: fr) dos).
  Proof.
    intros d d' v s which ip fr dos sg Hc1 Hc2 Hf Ht Hs Hnz Hz.
    eapply goes_trans; [eapply if_test; eassumption|].
    destruct (v =? 0) eqn:E.
    - rewrite Hz by lia. apply goes_refl.
    - destruct Hnz as [Hr Hb]; [lia|].
      replace (ip + 2) with (ip + 1 + 1) in * by lia.
      eapply call_spec_proof; eassumption.
  Qed.

  Theorem if_underflow_proof : forall d which ip fr dos c,
    code p which ip = Some c -> c = CODE_IF \/ c = CODE_IF_ELSE ->
    free_at dos (zlen fr + 1) = true -> t <= zlen fr -> d_stack d = [] ->
    ends p e t (S_ d ((which, ip) :: fr) dos) (Ok (St tg rd E_underflow d ((which, ip + 1) :: fr) dos)).
  Proof.
    intros d which ip fr dos c Hc Hcc Hf Ht Hs. eapply stop_free; try eassumption.
    destruct Hcc; subst c; [rewrite exec_op_IF|rewrite exec_op_IF_ELSE]; unfold St at 1; cbn [m_stack]; rewrite Hs; reflexivity.
  Qed.

  Theorem if_recursion_limit_proof : forall d v s which ip fr dos sg len,
    code p which ip = Some CODE_IF -> code p which (ip + 1) = Some (sg + BOUND_DICTIONARY) -> seg_len p sg = Some len ->
    free_at dos (zlen fr + 1) = true -> t <= zlen fr ->
    d_stack d = v :: s -> v <> 0 -> zlen fr + 1 = p_rec_max p ->
    ends p e t (S_ d ((which, ip) :: fr) dos) (Ok (St tg rd E_recursion (with_stack d s) ((which, ip + 2) :: fr) dos)).
  Proof.
    intros d v s which ip fr dos sg len Hc1 Hc2 Hl Hf Ht Hs Hv Hr.
    eapply goes_ends; [eapply if_test; eassumption|].
    destruct (v =? 0) eqn:E; [lia|].
    replace (ip + 2) with (ip + 1 + 1) by lia.
    eapply call_recursion_limit_proof; eassumption.
  Qed.

  Lemma if_else_test : forall d v s which ip fr dos s1 len,
    code p which ip = Some CODE_IF_ELSE -> code p which (ip + 1) = Some (s1 + BOUND_DICTIONARY) ->
    seg_len p s1 = Some len ->
    free_at dos (zlen fr + 1) = true -> t <= zlen fr -> d_stack d = v :: s -> zlen fr + 1 <> p_rec_max p ->
    G (S_ d ((which, ip) :: fr) dos)
      (S_ (with_stack d s) (if v =? 0 then (which, ip + 2) :: fr else (s1, 0) :: (which, ip + 3) :: fr) dos).
  Proof.
    intros d v s which ip fr dos s1 len Hc1 Hc2 Hl Hf Ht Hs Hr. eapply step_free; try eassumption.
    rewrite exec_op_IF_ELSE. unfold St at 1. cbn [m_stack]. rewrite Hs. cbv zeta.
    destruct (v =? 0).
    - change (set_stack _ s) with (S_ (with_stack d s) ((which, ip + 1) :: fr) dos).
      change (move_ip _ 1) with (Ok (S_ (with_stack d s) ((which, ip + 1 + 1) :: fr) dos)). cbv iota.
      replace (ip + 1 + 1) with (ip + 2) by lia. reflexivity.
    - change (set_stack _ s) with (S_ (with_stack d s) ((which, ip + 1) :: fr) dos).
      rewrite (fetch_St _ _ _ _ _ _ _ Hc2).
      change (move_ip _ 1) with (Ok (S_ (with_stack d s) ((which, ip + 1 + 1 + 1) :: fr) dos)). cbv iota.
      unfold push_frame. rewrite depth_St, zlen_cons, (proj2 (Z.eqb_neq _ _) Hr).
      replace (s1 + BOUND_DICTIONARY - BOUND_DICTIONARY) with s1 by lia.
      replace (ip + 1 + 1 + 1) with (ip + 3) by lia. reflexivity.
  Qed.

  (* v <> 0 runs the consequent, v = 0 the alternative; both continue after the construct *)
  Theorem if_else_then_spec_proof : forall d d' v s which ip fr dos s1 s2,
    code p which ip = Some CODE_IF_ELSE -> code p which (ip + 1) = Some (s1 + BOUND_DICTIONARY) ->
    code p which (ip + 2) = Some (s2 + BOUND_DICTIONARY) ->
    free_at dos (zlen fr + 1) = true -> t <= zlen fr -> zlen fr + 1 <> p_rec_max p ->
    d_stack d = v :: s ->
    SG (if v =? 0 then s2 else s1) ((which, ip + 3) :: fr) dos (with_stack d s) d' ->
    G (S_ d ((which, ip) :: fr) dos) (S_ d' ((which, ip + 3) :: fr) dos).
  Proof.
    intros d d' v s which ip fr dos s1 s2 Hc1 Hc2 Hc3 Hf Ht Hr Hs Hb.
    destruct (v =? 0) eqn:E.
    - eapply goes_trans.
      + eapply step_free; try eassumption.
        rewrite exec_op_IF_ELSE. unfold St at 1. cbn [m_stack]. rewrite Hs. cbv zeta. rewrite E.
        change (set_stack _ s) with (S_ (with_stack d s) ((which, ip + 1) :: fr) dos).
        change (move_ip _ 1) with (Ok (S_ (with_stack d s) ((which, ip + 1 + 1) :: fr) dos)). reflexivity.
      + replace (ip + 1 + 1) with (ip + 2) by lia. replace (ip + 3) with (ip + 2 + 1) in * by lia.
        eapply call_spec_proof; eassumption.
    - destruct Hb as (len & Hl & Hg).
      eapply goes_trans; [eapply if_else_test; eassumption|]. rewrite E.
      eapply goes_trans; [exact Hg|].
      apply pop_free; try assumption; rewrite zlen_cons; [exact Hf|lia].
  Qed.

  Theorem if_else_recursion_limit_proof : forall d v s which ip fr dos s1 s2 len1 len2,
    code p which ip = Some CODE_IF_ELSE -> code p which (ip + 1) = Some (s1 + BOUND_DICTIONARY) ->
    code p which (ip + 2) = Some (s2 + BOUND_DICTIONARY) -> seg_len p s1 = Some len1 -> seg_len p s2 = Some len2 ->
    free_at dos (zlen fr + 1) = true -> t <= zlen fr -> zlen fr + 1 = p_rec_max p ->
    d_stack d = v :: s ->
    ends p e t (S_ d ((which, ip) :: fr) dos) (Ok (St tg rd E_recursion (with_stack d s) ((which, ip + 3) :: fr) dos)).
  Proof.
    intros d v s which ip fr dos s1 s2 len1 len2 Hc1 Hc2 Hc3 Hl1 Hl2 Hf Ht Hr Hs.
    destruct (v =? 0) eqn:E.
    - eapply goes_ends.
      + eapply step_free; try eassumption.
        rewrite exec_op_IF_ELSE. unfold St at 1. cbn [m_stack]. rewrite Hs. cbv zeta. rewrite E.
        change (set_stack _ s) with (S_ (with_stack d s) ((which, ip + 1) :: fr) dos).
        change (move_ip _ 1) with (Ok (S_ (with_stack d s) ((which, ip + 1 + 1) :: fr) dos)). reflexivity.
      + replace (ip + 1 + 1) with (ip + 2) by lia. replace (ip + 3) with (ip + 2 + 1) by lia.
        eapply call_recursion_limit_proof; eassumption.
    - eapply stop_free; try eassumption.
      rewrite exec_op_IF_ELSE. unfold St at 1. cbn [m_stack]. rewrite Hs. cbv zeta. rewrite E.
      change (set_stack _ s) with (S_ (with_stack d s) ((which, ip + 1) :: fr) dos).
      rewrite (fetch_St _ _ _ _ _ _ _ Hc2).
      change (move_ip _ 1) with (Ok (S_ (with_stack d s) ((which, ip + 1 + 1 + 1) :: fr) dos)). cbv iota.
      unfold push_frame. rewrite depth_St, zlen_cons, (proj2 (Z.eqb_eq _ _) Hr).
      replace (ip + 1 + 1 + 1) with (ip + 3) by lia. reflexivity.
  Qed.

  (* ================================================================ 6. do .. loop, do .. +loop *)
  Lemma exec_op_DO : forall is_step m, exec_op true false p e m (do_code is_step) =
    match m_stack m with
    | start :: stp :: s =>
      let m1 := set_stack m s in
      if zlen (m_dos m1) =? p_rec_max p then stop m1 E_recursion
      else continue (set_dos m1 ((do_mark is_step (depth m1), stp, start) :: m_dos m1))
    | _ => stop m E_underflow
    end.
  Proof. intros [|] m; reflexivity. Qed.

  Lemma abs_depth_mark : forall is_step D, 0 <= D -> abs_depth (do_mark is_step D) = D.
  Proof. intros [|] D H; unfold do_mark; [apply abs_depth_neg|apply abs_depth_pos]; assumption. Qed.

  Lemma mark_neg : forall is_step D, 0 <= D -> (do_mark is_step D <? 0) = is_step.
  Proof. intros [|] D H; unfold do_mark; lia. Qed.

  Section DoLoop.
    Variables (is_step : bool) (which ip : Z) (fr : list (Z * Z)) (dos0 : list (Z * Z * Z)) (body : Z) (stp : Z).
    Hypothesis Hc1 : code p which ip = Some (do_code is_step).
    Hypothesis Hc2 : code p which (ip + 1) = Some (body + BOUND_DICTIONARY).
    Hypothesis Hf : free_at dos0 (zlen fr + 1) = true.
    Hypothesis Ht : t <= zlen fr.

    Let mark := do_mark is_step (zlen fr + 1).
    Let H (i : Z) (d : data) := S_ d ((which, ip + 1) :: fr) ((mark, stp, i) :: dos0).
    Let bodyrun (i : Z) (a b : data) := SG body ((which, ip + 1) :: fr) ((mark, stp, i) :: dos0) a b.

    Lemma Hmark : abs_depth mark = zlen fr + 1.
    Proof. apply abs_depth_mark. pose proof (zlen_nonneg _ fr). lia. Qed.

    (* `do`: the two cells are popped, the do-stack gets (marker, stop, start) *)
    Lemma do_enter : forall d start s, d_stack d = start :: stp :: s -> zlen dos0 <> p_rec_max p ->
      G (S_ d ((which, ip) :: fr) dos0) (H start (with_stack d s)).
    Proof.
      intros d start s Hs Hr. eapply step_free; try eassumption.
      rewrite exec_op_DO. unfold St at 1. cbn [m_stack]. rewrite Hs. cbv zeta.
      change (set_stack _ s) with (S_ (with_stack d s) ((which, ip + 1) :: fr) dos0).
      unfold St at 1. cbn [m_dos]. rewrite (proj2 (Z.eqb_neq _ _) Hr).
      rewrite depth_St, zlen_cons. reflexivity.
    Qed.

    Lemma header_end : forall i d, stp <= i -> G (H i d) (S_ d ((which, ip + 2) :: fr) dos0).
    Proof.
      intros i d Hi. unfold H. apply goes_instr.
      - rewrite depth_St, zlen_cons. lia.
      - eapply seg_done_St; eassumption.
      - rewrite exec_instr_run. rewrite (fetch_instr_header _ _ _ _ _ _ _ _ _ Hc2 Hmark).
        rewrite (proj2 (Z.leb_le _ _) Hi). replace (ip + 1 + 1) with (ip + 2) by lia. reflexivity.
    Qed.

    Lemma header_body : forall i d len, i < stp -> seg_len p body = Some len -> zlen fr + 1 <> p_rec_max p ->
      G (H i d) (S_ d ((body, 0) :: (which, ip + 1) :: fr) ((mark, stp, i) :: dos0)).
    Proof.
      intros i d len Hi Hl Hr. unfold H. apply goes_instr.
      - rewrite depth_St, zlen_cons. lia.
      - eapply seg_done_St; eassumption.
      - rewrite exec_instr_run. rewrite (fetch_instr_header _ _ _ _ _ _ _ _ _ Hc2 Hmark).
        rewrite (proj2 (Z.leb_gt _ _) Hi).
        rewrite exec_op_call by (apply seg_len_nonneg in Hl; lia).
        unfold push_frame. rewrite depth_St, zlen_cons, (proj2 (Z.eqb_neq _ _) Hr). reflexivity.
    Qed.

    Lemma header_body_limit : forall i d len, i < stp -> seg_len p body = Some len -> zlen fr + 1 = p_rec_max p ->
      ends p e t (H i d) (Ok (St tg rd E_recursion d ((which, ip + 1) :: fr) ((mark, stp, i) :: dos0))).
    Proof.
      intros i d len Hi Hl Hr. unfold H. apply ends_instr.
      - rewrite depth_St, zlen_cons. lia.
      - eapply seg_done_St; eassumption.
      - rewrite exec_instr_run. rewrite (fetch_instr_header _ _ _ _ _ _ _ _ _ Hc2 Hmark).
        rewrite (proj2 (Z.leb_gt _ _) Hi).
        rewrite exec_op_call by (apply seg_len_nonneg in Hl; lia).
        unfold push_frame. rewrite depth_St, zlen_cons, (proj2 (Z.eqb_eq _ _) Hr). reflexivity.
    Qed.

    (* the end of the body: the frame is popped and the counter advanced *)
    Lemma body_end : forall i d len i' d', seg_len p body = Some len -> loop_next is_step i d = Some (i', d') ->
      G (S_ d ((body, len) :: (which, ip + 1) :: fr) ((mark, stp, i) :: dos0)) (H i' d').
    Proof.
      intros i d len i' d' Hl Hn. apply goes_pop.
      - rewrite depth_St, !zlen_cons. lia.
      - apply seg_done_end; assumption.
      - rewrite pop_incr_St. rewrite zlen_cons, Hmark, Z.eqb_refl.
        unfold mark at 1. rewrite mark_neg by (pose proof (zlen_nonneg _ fr); lia).
        unfold loop_next in Hn. destruct is_step.
        + destruct (d_stack d) as [|v s]; [discriminate|]. inv Hn. reflexivity.
        + inv Hn. reflexivity.
    Qed.

    Lemma body_end_underflow : forall i d len, seg_len p body = Some len -> is_step = true -> d_stack d = [] ->
      ends p e t (S_ d ((body, len) :: (which, ip + 1) :: fr) ((mark, stp, i) :: dos0))
           (Ok (St tg rd E_underflow d ((which, ip + 1) :: fr) ((mark, stp, i) :: dos0))).
    Proof.
      intros i d len Hl Hst Hs. apply ends_pop.
      - rewrite depth_St, !zlen_cons. lia.
      - apply seg_done_end; assumption.
      - rewrite pop_incr_St. rewrite zlen_cons, Hmark, Z.eqb_refl.
        unfold mark at 1. rewrite mark_neg by (pose proof (zlen_nonneg _ fr); lia).
        rewrite Hst, Hs. reflexivity.
    Qed.

    Lemma loop_from_header : forall i d d', zlen fr + 1 <> p_rec_max p ->
      do_iter is_step bodyrun stp i d d' -> G (H i d) (S_ d' ((which, ip + 2) :: fr) dos0).
    Proof.
      intros i d d' Hr Hit. induction Hit as [i d Hi|i d d1 i' d2 d3 Hi Hb Hn _ IH].
      - apply header_end; assumption.
      - destruct Hb as (len & Hl & Hg).
        eapply goes_trans; [eapply header_body; eassumption|].
        eapply goes_trans; [exact Hg|].
        eapply goes_trans; [eapply body_end; eassumption|]. exact IH.
    Qed.

    Theorem do_loop_general_proof : forall d d' start s,
      d_stack d = start :: stp :: s -> zlen dos0 <> p_rec_max p -> (start < stp -> zlen fr + 1 <> p_rec_max p) ->
      do_iter is_step bodyrun stp start (with_stack d s) d' ->
      G (S_ d ((which, ip) :: fr) dos0) (S_ d' ((which, ip + 2) :: fr) dos0).
    Proof.
      intros d d' start s Hs Hr1 Hr2 Hit.
      eapply goes_trans; [eapply do_enter; eassumption|].
      inversion Hit; subst.
      - apply header_end; assumption.
      - apply loop_from_header; [apply Hr2; assumption|exact Hit].
    Qed.
  End DoLoop.
End Laws.

(* ================================================================== 7. do-loops with a body given as a function *)
Section Loops.
  Variables (p : prog) (e : env) (t : Z) (tg : list Z) (rd : bool) (er : Z).

  Notation S_ := (St tg rd er).
  Notation G := (goes p e t).
  Notation SG := (seg_goes p e t tg rd er).

  Lemma wrap64_id : forall z, - 2 ^ 63 <= z < 2 ^ 63 -> wrap 64 z = z.
  Proof. intros z H. apply wrap_id; [lia|]. change (64 - 1) with 63. exact H. Qed.

  Lemma do_iter_count : forall (bodyrun : Z -> data -> data -> Prop) (B : Z -> data -> data) (Inv : Z -> data -> Prop) n k m d,
    Z.of_nat k = n - m -> - 2 ^ 63 <= m -> n < 2 ^ 63 -> Inv m d ->
    (forall i di, m <= i < n -> Inv i di -> bodyrun i di (B i di) /\ Inv (i + 1) (B i di)) ->
    do_iter false bodyrun n m d (iter_from B m k d) /\ Inv n (iter_from B m k d).
  Proof.
    intros bodyrun B Inv n k. induction k as [|k IH]; intros m d Hk Hm Hn Hi Hb.
    - assert (n = m) by lia. subst n. split; [apply DI_done; lia|exact Hi].
    - cbn [iter_from]. destruct (Hb m d) as [Hb1 Hb2]; [lia|exact Hi|].
      destruct (IH (m + 1) (B m d)) as [IH1 IH2]; try lia; try assumption.
      + intros i di Hr Hv. apply Hb; [lia|exact Hv].
      + split; [|exact IH2].
        eapply DI_more; [lia|exact Hb1| |exact IH1].
        unfold loop_next. rewrite wrap64_id by lia. reflexivity.
  Qed.

  (* `n m do BODY loop`: the body runs max 0 (n-m) times, for i = m, m+1, ..., n-1, then the run continues after the
     construct with the do-stack as before *)
  Theorem do_loop_iterates_proof : forall which ip fr dos0 body (B : Z -> data -> data) (Inv : Z -> data -> Prop) n m s d,
    code p which ip = Some CODE_DO -> code p which (ip + 1) = Some (body + BOUND_DICTIONARY) ->
    free_at dos0 (zlen fr + 1) = true -> t <= zlen fr ->
    zlen dos0 <> p_rec_max p -> (m < n -> zlen fr + 1 <> p_rec_max p /\ - 2 ^ 63 <= m /\ n < 2 ^ 63) ->
    d_stack d = m :: n :: s ->
    Inv m (with_stack d s) ->
    (forall i di, m <= i < n -> Inv i di ->
       SG body ((which, ip + 1) :: fr) ((zlen fr + 1, n, i) :: dos0) di (B i di) /\ Inv (i + 1) (B i di)) ->
    G (S_ d ((which, ip) :: fr) dos0) (S_ (iter_from B m (Z.to_nat (n - m)) (with_stack d s)) ((which, ip + 2) :: fr) dos0)
    /\ Inv (Z.max m n) (iter_from B m (Z.to_nat (n - m)) (with_stack d s)).
  Proof.
    intros which ip fr dos0 body B Inv n m s d Hc1 Hc2 Hf Ht Hr1 Hr2 Hs Hi Hb.
    destruct (Z_lt_le_dec m n) as [Hlt|Hge].
    - destruct (Hr2 Hlt) as (Hr & Hm & Hn).
      destruct (do_iter_count (fun i a b => SG body ((which, ip + 1) :: fr) ((zlen fr + 1, n, i) :: dos0) a b)
                              B Inv n (Z.to_nat (n - m)) m (with_stack d s)) as [H1 H2]; try assumption; try lia.
      split; [|replace (Z.max m n) with n by lia; exact H2].
      eapply (do_loop_general_proof p e t tg rd er false); try eassumption. intros _; exact Hr.
    - replace (Z.to_nat (n - m)) with 0%nat by lia. cbn [iter_from].
      split; [|replace (Z.max m n) with m by lia; exact Hi].
      eapply (do_loop_general_proof p e t tg rd er false); try eassumption; [lia|].
      apply DI_done. lia.
  Qed.

  (* `stop start do .. loop` / `+loop` with stop <= start never runs its body (the test comes first), whatever the step *)
  Theorem do_loop_no_iteration_proof : forall is_step which ip fr dos0 body start stp s d,
    code p which ip = Some (do_code is_step) -> code p which (ip + 1) = Some (body + BOUND_DICTIONARY) ->
    free_at dos0 (zlen fr + 1) = true -> t <= zlen fr -> zlen dos0 <> p_rec_max p ->
    d_stack d = start :: stp :: s -> stp <= start ->
    G (S_ d ((which, ip) :: fr) dos0) (S_ (with_stack d s) ((which, ip + 2) :: fr) dos0).
  Proof.
    intros is_step which ip fr dos0 body start stp s d Hc1 Hc2 Hf Ht Hr Hs Hle.
    eapply (do_loop_general_proof p e t tg rd er is_step); try eassumption; [lia|]. apply DI_done. exact Hle.
  Qed.

  Lemma do_iter_ploop : forall (bodyrun : Z -> data -> data -> Prop) (B : Z -> data -> data) (Inv : Z -> data -> Prop) stp fuel i d d',
    Inv i d ->
    (forall i di, i < stp -> Inv i di -> bodyrun i di (B i di) /\
       forall v s', d_stack (B i di) = v :: s' -> Inv (wrap 64 (i + v)) (with_stack (B i di) s')) ->
    ploop B stp i fuel d = Some d' ->
    do_iter true bodyrun stp i d d'.
  Proof.
    intros bodyrun B Inv stp fuel. induction fuel as [|k IH]; intros i d d' Hi Hb Hp.
    - cbn [ploop] in Hp. destruct (stp <=? i) eqn:E; [|discriminate]. inv Hp. apply DI_done. lia.
    - cbn [ploop] in Hp. destruct (stp <=? i) eqn:E; [inv Hp; apply DI_done; lia|].
      destruct (Hb i d) as [Hb1 Hb2]; [lia|exact Hi|].
      destruct (d_stack (B i d)) as [|v s'] eqn:Es; [discriminate|].
      eapply DI_more; [lia|exact Hb1| |].
      + unfold loop_next. rewrite Es. reflexivity.
      + apply IH; try assumption. apply Hb2. reflexivity.
  Qed.

  (* `n m do BODY +loop` exactly as the model runs it (function ploop): before each pass `stop <= i` ends the loop;
     after the body the step is popped and added to i with 64-bit wrap-around *)
  Theorem plus_loop_iterates_proof : forall which ip fr dos0 body (B : Z -> data -> data) (Inv : Z -> data -> Prop) n m s d fuel d',
    code p which ip = Some CODE_DO_STEP -> code p which (ip + 1) = Some (body + BOUND_DICTIONARY) ->
    free_at dos0 (zlen fr + 1) = true -> t <= zlen fr ->
    zlen dos0 <> p_rec_max p -> (m < n -> zlen fr + 1 <> p_rec_max p) ->
    d_stack d = m :: n :: s ->
    Inv m (with_stack d s) ->
    (forall i di, i < n -> Inv i di ->
       SG body ((which, ip + 1) :: fr) ((- (zlen fr + 1) - 1, n, i) :: dos0) di (B i di) /\
       forall v s', d_stack (B i di) = v :: s' -> Inv (wrap 64 (i + v)) (with_stack (B i di) s')) ->
    ploop B n m fuel (with_stack d s) = Some d' ->
    G (S_ d ((which, ip) :: fr) dos0) (S_ d' ((which, ip + 2) :: fr) dos0).
  Proof.
    intros which ip fr dos0 body B Inv n m s d fuel d' Hc1 Hc2 Hf Ht Hr1 Hr2 Hs Hi Hb Hp.
    eapply (do_loop_general_proof p e t tg rd er true); try eassumption.
    eapply do_iter_ploop; eassumption.
  Qed.

  (* errors of `do` *)
  Theorem do_underflow_proof : forall is_step which ip fr dos0 d,
    code p which ip = Some (do_code is_step) ->
    free_at dos0 (zlen fr + 1) = true -> t <= zlen fr -> (length (d_stack d) < 2)%nat ->
    ends p e t (S_ d ((which, ip) :: fr) dos0) (Ok (St tg rd E_underflow d ((which, ip + 1) :: fr) dos0)).
  Proof.
    intros is_step which ip fr dos0 d Hc Hf Ht Hs. eapply stop_free; try eassumption.
    rewrite exec_op_DO. unfold St at 1. cbn [m_stack].
    destruct (d_stack d) as [|a [|b s]]; try reflexivity. cbn [length] in Hs. lia.
  Qed.

  Theorem do_recursion_limit_proof : forall is_step which ip fr dos0 d start stp s,
    code p which ip = Some (do_code is_step) ->
    free_at dos0 (zlen fr + 1) = true -> t <= zlen fr -> d_stack d = start :: stp :: s ->
    zlen dos0 = p_rec_max p ->
    ends p e t (S_ d ((which, ip) :: fr) dos0) (Ok (St tg rd E_recursion (with_stack d s) ((which, ip + 1) :: fr) dos0)).
  Proof.
    intros is_step which ip fr dos0 d start stp s Hc Hf Ht Hs Hr. eapply stop_free; try eassumption.
    rewrite exec_op_DO. unfold St at 1. cbn [m_stack]. rewrite Hs. cbv zeta.
    change (set_stack _ s) with (S_ (with_stack d s) ((which, ip + 1) :: fr) dos0).
    unfold St at 1. cbn [m_dos]. rewrite (proj2 (Z.eqb_eq _ _) Hr). reflexivity.
  Qed.

  (* the body cannot be entered at the recursion limit: the do entry stays on the do-stack *)
  Theorem do_body_recursion_limit_proof : forall is_step which ip fr dos0 body len d start stp s,
    code p which ip = Some (do_code is_step) -> code p which (ip + 1) = Some (body + BOUND_DICTIONARY) ->
    seg_len p body = Some len ->
    free_at dos0 (zlen fr + 1) = true -> t <= zlen fr -> d_stack d = start :: stp :: s ->
    zlen dos0 <> p_rec_max p -> start < stp -> zlen fr + 1 = p_rec_max p ->
    ends p e t (S_ d ((which, ip) :: fr) dos0)
         (Ok (St tg rd E_recursion (with_stack d s) ((which, ip + 1) :: fr)
                 ((do_mark is_step (zlen fr + 1), stp, start) :: dos0))).
  Proof.
    intros is_step which ip fr dos0 body len d start stp s Hc1 Hc2 Hl Hf Ht Hs Hr1 Hlt Hr2.
    eapply goes_ends; [eapply do_enter; eassumption|].
    eapply header_body_limit; eassumption.
  Qed.

  (* `+loop` with nothing left on the stack for the step *)
  Theorem plus_loop_underflow_proof : forall which ip fr dos0 body d d1 start stp s,
    code p which ip = Some CODE_DO_STEP -> code p which (ip + 1) = Some (body + BOUND_DICTIONARY) ->
    free_at dos0 (zlen fr + 1) = true -> t <= zlen fr -> d_stack d = start :: stp :: s ->
    zlen dos0 <> p_rec_max p -> start < stp -> zlen fr + 1 <> p_rec_max p ->
    SG body ((which, ip + 1) :: fr) ((- (zlen fr + 1) - 1, stp, start) :: dos0) (with_stack d s) d1 -> d_stack d1 = [] ->
    ends p e t (S_ d ((which, ip) :: fr) dos0)
         (Ok (St tg rd E_underflow d1 ((which, ip + 1) :: fr) ((- (zlen fr + 1) - 1, stp, start) :: dos0))).
  Proof.
    intros which ip fr dos0 body d d1 start stp s Hc1 Hc2 Hf Ht Hs Hr1 Hlt Hr2 (len & Hl & Hg) Hs1.
    eapply goes_ends; [eapply (do_enter p e t tg rd er true); eassumption|].
    eapply goes_ends; [eapply (header_body p e t tg rd er true); eassumption|].
    eapply goes_ends; [exact Hg|].
    eapply (body_end_underflow p e t tg rd er true); try eassumption. reflexivity.
  Qed.
End Loops.

(* ================================================================== 8. begin-loops, exit, halt, i j k *)
Section Begin.
  Variables (p : prog) (e : env) (t : Z) (tg : list Z) (rd : bool) (er : Z).

  Notation S_ := (St tg rd er).
  Notation G := (goes p e t).
  Notation SG := (seg_goes p e t tg rd er).

  Lemma goes1_goes : forall a b, goes1 p e t a b -> G a b.
  Proof. intros a b [k H]. exists (S k). exact H. Qed.

  Lemma goes1_trans : forall a b c, goes1 p e t a b -> G b c -> goes1 p e t a c.
  Proof.
    intros a b c [k1 H1] [k2 H2]. exists (k1 + k2)%nat. intros f.
    replace (S (k1 + k2) + f)%nat with (S k1 + (k2 + f))%nat by lia. rewrite H1, H2. reflexivity.
  Qed.

  Lemma call_enter1 : forall d which ip fr dos sg len,
    code p which ip = Some (sg + BOUND_DICTIONARY) -> seg_len p sg = Some len ->
    free_at dos (zlen fr + 1) = true -> t <= zlen fr -> zlen fr + 1 <> p_rec_max p ->
    goes1 p e t (S_ d ((which, ip) :: fr) dos) (S_ d ((sg, 0) :: (which, ip + 1) :: fr) dos).
  Proof.
    intros d which ip fr dos sg len Hc Hl Hf Ht Hr. exists 0%nat. intros f. change (1 + f)%nat with (S f).
    rewrite IR_S. rewrite depth_St, zlen_cons. destruct (zlen fr + 1 =? t) eqn:E; [lia|].
    rewrite (seg_done_St p tg rd er _ _ _ _ _ _ Hc), exec_instr_run, (fetch_instr_free p tg rd er _ _ _ _ _ _ Hc Hf).
    rewrite exec_op_call by (apply seg_len_nonneg in Hl; lia).
    unfold push_frame. rewrite depth_St, zlen_cons, (proj2 (Z.eqb_neq _ _) Hr). reflexivity.
  Qed.

  Lemma exec_op_UNTIL : forall m, exec_op true false p e m CODE_UNTIL =
    match m_stack m with
    | [] => stop m E_underflow
    | v :: s => let m1 := set_stack m s in
                if v =? 0 then match move_ip m1 (-2) with Ok m2 => continue m2 | _ => Fault F_internal end else continue m1
    end.
  Proof. reflexivity. Qed.

  Lemma exec_op_AGAIN : forall m, exec_op true false p e m CODE_AGAIN =
    match move_ip m (-2) with Ok m1 => continue m1 | _ => Fault F_internal end.
  Proof. reflexivity. Qed.

  Lemma exec_op_WHILE : forall m, exec_op true false p e m CODE_WHILE =
    match m_stack m with
    | [] => stop m E_underflow
    | v :: s => let m1 := set_stack m s in
                if v =? 0 then match move_ip m1 1 with Ok m2 => continue m2 | _ => Fault F_internal end
                else match fetch p m1 with
                     | Ok (posttest, m2) =>
                       match move_ip m2 (-3) with
                       | Ok m3 => push_frame p m3 (posttest - BOUND_DICTIONARY)
                       | _ => Fault F_internal
                       end
                     | Fault k => Fault k
                     | OutOfFuel => OutOfFuel
                     end
    end.
  Proof. reflexivity. Qed.

  (* ---------------------------------------------------------------- begin .. until *)
  Section Until.
    Variables (which ip : Z) (fr : list (Z * Z)) (dos : list (Z * Z * Z)) (body : Z).
    Hypothesis Hc1 : code p which ip = Some (body + BOUND_DICTIONARY).
    Hypothesis Hc2 : code p which (ip + 1) = Some CODE_UNTIL.
    Hypothesis Hf : free_at dos (zlen fr + 1) = true.
    Hypothesis Ht : t <= zlen fr.

    Lemma until_test : forall d v s, d_stack d = v :: s ->
      G (S_ d ((which, ip + 1) :: fr) dos) (S_ (with_stack d s) ((which, if v =? 0 then ip else ip + 2) :: fr) dos).
    Proof.
      intros d v s Hs. eapply step_free; try eassumption.
      rewrite exec_op_UNTIL. unfold St at 1. cbn [m_stack]. rewrite Hs. cbv zeta.
      change (set_stack _ s) with (S_ (with_stack d s) ((which, ip + 1 + 1) :: fr) dos).
      destruct (v =? 0).
      - change (move_ip _ (-2)) with (Ok (S_ (with_stack d s) ((which, ip + 1 + 1 + -2) :: fr) dos)). cbv iota.
        replace (ip + 1 + 1 + -2) with ip by lia. reflexivity.
      - replace (ip + 1 + 1) with (ip + 2) by lia. reflexivity.
    Qed.

    Theorem until_underflow_proof : forall d, d_stack d = [] ->
      ends p e t (S_ d ((which, ip + 1) :: fr) dos) (Ok (St tg rd E_underflow d ((which, ip + 2) :: fr) dos)).
    Proof.
      intros d Hs. eapply stop_free; try eassumption.
      rewrite exec_op_UNTIL. unfold St at 1. cbn [m_stack]. rewrite Hs.
      replace (ip + 2) with (ip + 1 + 1) by lia. reflexivity.
    Qed.

    Theorem begin_until_general_proof : forall d d', zlen fr + 1 <> p_rec_max p ->
      until_iter (SG body ((which, ip + 1) :: fr) dos) d d' ->
      G (S_ d ((which, ip) :: fr) dos) (S_ d' ((which, ip + 2) :: fr) dos).
    Proof.
      intros d d' Hr Hit. induction Hit as [d d1 v s Hb Hs Hv|d d1 s d' Hb Hs _ IH].
      - eapply goes_trans; [eapply call_spec_proof; eassumption|].
        eapply goes_trans; [eapply until_test; eassumption|].
        destruct (v =? 0) eqn:E; [lia|]. apply goes_refl.
      - eapply goes_trans; [eapply call_spec_proof; eassumption|].
        eapply goes_trans; [eapply until_test; eassumption|].
        rewrite Z.eqb_refl. exact IH.
    Qed.
  End Until.

  Lemma until_iter_loop : forall (bodyrun : data -> data -> Prop) (B : data -> data) (Inv : data -> Prop) fuel d d',
    Inv d ->
    (forall di, Inv di -> bodyrun di (B di) /\ forall s', d_stack (B di) = 0 :: s' -> Inv (with_stack (B di) s')) ->
    until_loop B fuel d = Some d' -> until_iter bodyrun d d'.
  Proof.
    intros bodyrun B Inv fuel. induction fuel as [|k IH]; intros d d' Hi Hb Hp; [discriminate|].
    cbn [until_loop] in Hp. destruct (Hb d Hi) as [Hb1 Hb2].
    destruct (d_stack (B d)) as [|v s] eqn:Es; [discriminate|].
    destruct (v =? 0) eqn:E.
    - assert (v = 0) by lia. subst v. eapply UI_again; [exact Hb1|exact Es|].
      apply IH; try assumption. apply Hb2. reflexivity.
    - inv Hp. eapply UI_exit; [exact Hb1|exact Es|lia].
  Qed.

  (* begin BODY until: the body is repeated until the popped flag is non-zero *)
  Theorem begin_until_proof : forall which ip fr dos body (B : data -> data) (Inv : data -> Prop) fuel d d',
    code p which ip = Some (body + BOUND_DICTIONARY) -> code p which (ip + 1) = Some CODE_UNTIL ->
    free_at dos (zlen fr + 1) = true -> t <= zlen fr -> zlen fr + 1 <> p_rec_max p ->
    Inv d ->
    (forall di, Inv di -> SG body ((which, ip + 1) :: fr) dos di (B di) /\
                          forall s', d_stack (B di) = 0 :: s' -> Inv (with_stack (B di) s')) ->
    until_loop B fuel d = Some d' ->
    G (S_ d ((which, ip) :: fr) dos) (S_ d' ((which, ip + 2) :: fr) dos).
  Proof.
    intros which ip fr dos body B Inv fuel d d' Hc1 Hc2 Hf Ht Hr Hi Hb Hp.
    eapply begin_until_general_proof; try eassumption. eapply until_iter_loop; eassumption.
  Qed.

  (* ---------------------------------------------------------------- begin .. while .. repeat *)
  Section While.
    Variables (which ip : Z) (fr : list (Z * Z)) (dos : list (Z * Z * Z)) (pre post : Z).
    Hypothesis Hc1 : code p which ip = Some (pre + BOUND_DICTIONARY).
    Hypothesis Hc2 : code p which (ip + 1) = Some CODE_WHILE.
    Hypothesis Hc3 : code p which (ip + 2) = Some (post + BOUND_DICTIONARY).
    Hypothesis Hf : free_at dos (zlen fr + 1) = true.
    Hypothesis Ht : t <= zlen fr.
    Hypothesis Hr : zlen fr + 1 <> p_rec_max p.

    Lemma while_test : forall d v s, d_stack d = v :: s ->
      G (S_ d ((which, ip + 1) :: fr) dos)
        (S_ (with_stack d s) (if v =? 0 then (which, ip + 3) :: fr else (post, 0) :: (which, ip) :: fr) dos).
    Proof.
      intros d v s Hs. eapply step_free; try eassumption.
      rewrite exec_op_WHILE. unfold St at 1. cbn [m_stack]. rewrite Hs. cbv zeta.
      change (set_stack _ s) with (S_ (with_stack d s) ((which, ip + 1 + 1) :: fr) dos).
      destruct (v =? 0).
      - change (move_ip _ 1) with (Ok (S_ (with_stack d s) ((which, ip + 1 + 1 + 1) :: fr) dos)). cbv iota.
        replace (ip + 1 + 1 + 1) with (ip + 3) by lia. reflexivity.
      - replace (ip + 1 + 1) with (ip + 2) by lia. rewrite (fetch_St p tg rd _ _ _ _ _ _ _ Hc3).
        change (move_ip _ (-3)) with (Ok (S_ (with_stack d s) ((which, ip + 2 + 1 + -3) :: fr) dos)). cbv iota.
        unfold push_frame. rewrite depth_St, zlen_cons, (proj2 (Z.eqb_neq _ _) Hr).
        replace (post + BOUND_DICTIONARY - BOUND_DICTIONARY) with post by lia.
        replace (ip + 2 + 1 + -3) with ip by lia. reflexivity.
    Qed.

    Theorem while_underflow_proof : forall d, d_stack d = [] ->
      ends p e t (S_ d ((which, ip + 1) :: fr) dos) (Ok (St tg rd E_underflow d ((which, ip + 2) :: fr) dos)).
    Proof.
      intros d Hs. eapply stop_free; try eassumption.
      rewrite exec_op_WHILE. unfold St at 1. cbn [m_stack]. rewrite Hs.
      replace (ip + 2) with (ip + 1 + 1) by lia. reflexivity.
    Qed.

    Theorem begin_while_repeat_general_proof : forall d d',
      while_iter (SG pre ((which, ip + 1) :: fr) dos) (SG post ((which, ip) :: fr) dos) d d' ->
      G (S_ d ((which, ip) :: fr) dos) (S_ d' ((which, ip + 3) :: fr) dos).
    Proof.
      intros d d' Hit. induction Hit as [d d1 s Hb Hs|d d1 v s d2 d' Hb Hs Hv Hpost _ IH].
      - eapply goes_trans; [eapply call_spec_proof; eassumption|].
        eapply goes_trans; [eapply while_test; eassumption|].
        rewrite Z.eqb_refl. apply goes_refl.
      - eapply goes_trans; [eapply call_spec_proof; eassumption|].
        eapply goes_trans; [eapply while_test; eassumption|].
        destruct (v =? 0) eqn:E; [lia|].
        destruct Hpost as (len & Hl & Hg).
        eapply goes_trans; [exact Hg|].
        eapply goes_trans; [|exact IH].
        apply pop_free; try assumption; rewrite zlen_cons; [exact Hf|lia].
    Qed.
  End While.

  Lemma while_iter_loop : forall (prerun postrun : data -> data -> Prop) (Pre Post : data -> data) (Inv : data -> Prop) fuel d d',
    Inv d ->
    (forall di, Inv di -> prerun di (Pre di) /\
       forall v s', d_stack (Pre di) = v :: s' -> v <> 0 ->
                    postrun (with_stack (Pre di) s') (Post (with_stack (Pre di) s')) /\ Inv (Post (with_stack (Pre di) s'))) ->
    while_loop Pre Post fuel d = Some d' -> while_iter prerun postrun d d'.
  Proof.
    intros prerun postrun Pre Post Inv fuel. induction fuel as [|k IH]; intros d d' Hi Hb Hp; [discriminate|].
    cbn [while_loop] in Hp. destruct (Hb d Hi) as [Hb1 Hb2].
    destruct (d_stack (Pre d)) as [|v s] eqn:Es; [discriminate|].
    destruct (v =? 0) eqn:E.
    - assert (v = 0) by lia. subst v. inv Hp. eapply WI_exit; [exact Hb1|exact Es].
    - destruct (Hb2 v s eq_refl) as [Hq1 Hq2]; [lia|].
      eapply WI_again; [exact Hb1|exact Es|lia|exact Hq1|]. apply IH; assumption.
  Qed.

  (* begin PRE while POST repeat: PRE; pop the flag; zero: continue after the construct, else POST and again *)
  Theorem begin_while_repeat_proof : forall which ip fr dos pre post (Pre Post : data -> data) (Inv : data -> Prop) fuel d d',
    code p which ip = Some (pre + BOUND_DICTIONARY) -> code p which (ip + 1) = Some CODE_WHILE ->
    code p which (ip + 2) = Some (post + BOUND_DICTIONARY) ->
    free_at dos (zlen fr + 1) = true -> t <= zlen fr -> zlen fr + 1 <> p_rec_max p ->
    Inv d ->
    (forall di, Inv di -> SG pre ((which, ip + 1) :: fr) dos di (Pre di) /\
       forall v s', d_stack (Pre di) = v :: s' -> v <> 0 ->
          SG post ((which, ip) :: fr) dos (with_stack (Pre di) s') (Post (with_stack (Pre di) s')) /\
          Inv (Post (with_stack (Pre di) s'))) ->
    while_loop Pre Post fuel d = Some d' ->
    G (S_ d ((which, ip) :: fr) dos) (S_ d' ((which, ip + 3) :: fr) dos).
  Proof.
    intros which ip fr dos pre post Pre Post Inv fuel d d' Hc1 Hc2 Hc3 Hf Ht Hr Hi Hb Hp.
    eapply begin_while_repeat_general_proof; try eassumption. eapply while_iter_loop; eassumption.
  Qed.

  (* ---------------------------------------------------------------- begin .. again *)
  Section Again.
    Variables (which ip : Z) (fr : list (Z * Z)) (dos : list (Z * Z * Z)) (body : Z).
    Hypothesis Hc1 : code p which ip = Some (body + BOUND_DICTIONARY).
    Hypothesis Hc2 : code p which (ip + 1) = Some CODE_AGAIN.
    Hypothesis Hf : free_at dos (zlen fr + 1) = true.
    Hypothesis Ht : t <= zlen fr.
    Hypothesis Hr : zlen fr + 1 <> p_rec_max p.

    (* one pass: when the body runs to its end the machine is back at the head of the loop *)
    Theorem begin_again_pass1 : forall d d', SG body ((which, ip + 1) :: fr) dos d d' ->
      goes1 p e t (S_ d ((which, ip) :: fr) dos) (S_ d' ((which, ip) :: fr) dos).
    Proof.
      intros d d' (len & Hl & Hg).
      eapply goes1_trans; [eapply call_enter1; eassumption|].
      eapply goes_trans; [exact Hg|].
      eapply goes_trans; [apply pop_free; try assumption; rewrite zlen_cons; [exact Hf|lia]|].
      eapply step_free; try eassumption.
      rewrite exec_op_AGAIN.
      change (move_ip _ (-2)) with (Ok (S_ d' ((which, ip + 1 + 1 + -2) :: fr) dos)). cbv iota.
      replace (ip + 1 + 1 + -2) with ip by lia. reflexivity.
    Qed.

    Theorem begin_again_pass_proof : forall d d', SG body ((which, ip + 1) :: fr) dos d d' ->
      G (S_ d ((which, ip) :: fr) dos) (S_ d' ((which, ip) :: fr) dos).
    Proof. intros. apply goes1_goes, begin_again_pass1. assumption. Qed.

    Theorem begin_again_n_proof : forall (B : data -> data) (Inv : nat -> data -> Prop) n,
      (forall j di, (j < n)%nat -> Inv j di -> SG body ((which, ip + 1) :: fr) dos di (B di) /\ Inv (S j) (B di)) ->
      forall d, Inv 0%nat d ->
      G (S_ d ((which, ip) :: fr) dos) (S_ (Nat.iter n B d) ((which, ip) :: fr) dos) /\ Inv n (Nat.iter n B d).
    Proof.
      intros B Inv n. induction n as [|n IH]; intros Hb d Hi.
      - split; [apply goes_refl|exact Hi].
      - destruct (IH (fun j di Hj => Hb j di (Nat.lt_lt_succ_r _ _ Hj)) d Hi) as [H1 H2].
        destruct (Hb n _ (Nat.lt_succ_diag_r n) H2) as [H3 H4]. cbn [Nat.iter]. split; [|exact H4].
        eapply goes_trans; [exact H1|]. apply begin_again_pass_proof. exact H3.
    Qed.

    (* a body that always runs to its end (no exit, halt or error) never leaves the loop: the run does not end *)
    Theorem begin_again_diverges_proof : forall (B : data -> data) (Inv : data -> Prop),
      (forall di, Inv di -> SG body ((which, ip + 1) :: fr) dos di (B di) /\ Inv (B di)) ->
      forall f d, Inv d -> internal_run f true false p e t (S_ d ((which, ip) :: fr) dos) = OutOfFuel.
    Proof.
      intros B Inv Hb f. induction f as [|f IH]; intros d Hi; [reflexivity|].
      destruct (Hb d Hi) as [H1 H2]. destruct (begin_again_pass1 _ _ H1) as [k Hk].
      destruct (internal_run (S f) true false p e t (S_ d ((which, ip) :: fr) dos)) as [m|c|] eqn:E; [| |reflexivity].
      - pose proof (irun_mono _ _ _ _ _ _ _ _ E ltac:(discriminate) k) as Hm.
        replace (k + S f)%nat with (S k + f)%nat in Hm by lia. rewrite Hk, (IH _ H2) in Hm. discriminate.
      - pose proof (irun_mono _ _ _ _ _ _ _ _ E ltac:(discriminate) k) as Hm.
        replace (k + S f)%nat with (S k + f)%nat in Hm by lia. rewrite Hk, (IH _ H2) in Hm. discriminate.
    Qed.
  End Again.

  (* ---------------------------------------------------------------- exit *)
  Lemma exec_op_EXIT : forall m, exec_op true false p e m CODE_EXIT = exec_exit false p m.
  Proof. reflexivity. Qed.

  Lemma skipn_cons_ex : forall A n (x : A) l, (n <= length l)%nat -> exists y, skipn n (x :: l) = y :: skipn n l.
  Proof.
    intros A n. induction n as [|n IH]; intros x l H.
    - exists x. reflexivity.
    - destruct l as [|a l]; [cbn in H; lia|]. cbn [length] in H.
      destruct (IH a l) as [y Hy]; [lia|]. exists y. exact Hy.
  Qed.

  Lemma zlen_skipn : forall A n (l : list A), (n <= length l)%nat -> zlen (skipn n l) = zlen l - Z.of_nat n.
  Proof. intros A n l H. unfold zlen. rewrite skipn_length. lia. Qed.

  Lemma exec_exit_St : forall d which ip fr dos k, code p which ip = Some k ->
    exec_exit false p (S_ d ((which, ip) :: fr) dos) =
    if (k <? 0) || (zlen fr + 1 <? k) then Fault F_exitdepth
    else pop_incr (S_ d (skipn (Z.to_nat k) ((which, ip + 1) :: fr))
                      (drop_dos dos (zlen (skipn (Z.to_nat k) ((which, ip + 1) :: fr))))).
  Proof.
    intros d which ip fr dos k Hc. unfold exec_exit. rewrite (fetch_St p tg rd _ _ _ _ _ _ _ Hc).
    rewrite depth_St, zlen_cons. reflexivity.
  Qed.

  (* `exit` with exitdepth k leaves k+1 frames: its own segment and k enclosing ones (the k control segments of the
     word being defined and the word's segment); the do-stack is cut by drop_dos — see the remark on exit inside do-loops *)
  Theorem exit_spec_proof : forall d which ip fr dos k dos',
    code p which ip = Some CODE_EXIT -> code p which (ip + 1) = Some k ->
    free_at dos (zlen fr + 1) = true -> t <= zlen fr ->
    0 <= k <= zlen fr ->
    drop_dos dos (zlen fr + 1 - k) = dos' -> free_at dos' (zlen fr - k) = true ->
    G (S_ d ((which, ip) :: fr) dos) (S_ d (skipn (Z.to_nat k) fr) dos').
  Proof.
    intros d which ip fr dos k dos' Hc1 Hc2 Hf Ht Hk Hd Hf'. eapply step_free; try eassumption.
    rewrite exec_op_EXIT, (exec_exit_St _ _ _ _ _ _ Hc2).
    destruct ((k <? 0) || (zlen fr + 1 <? k)) eqn:E; [lia|].
    assert (Hn : (Z.to_nat k <= length fr)%nat) by (unfold zlen in Hk; lia).
    destruct (skipn_cons_ex _ (Z.to_nat k) (which, ip + 1 + 1) fr Hn) as [y Hy].
    rewrite !Hy.
    rewrite zlen_cons, zlen_skipn by exact Hn. rewrite Z2Nat.id by lia.
    replace (zlen fr - k + 1) with (zlen fr + 1 - k) by lia. rewrite Hd.
    rewrite pop_incr_St. rewrite zlen_skipn by exact Hn. rewrite Z2Nat.id by lia.
    destruct dos' as [|[[dd ds] di] dos'']; [reflexivity|].
    unfold free_at in Hf'. destruct (abs_depth dd =? zlen fr - k); [discriminate|]. reflexivity.
  Qed.

  (* ---------------------------------------------------------------- halt *)
  Theorem halt_spec_proof : forall d which ip fr dos,
    code p which ip = Some CODE_HALT -> free_at dos (zlen fr + 1) = true -> t <= zlen fr ->
    ends p e t (S_ d ((which, ip) :: fr) dos)
         (Ok (St (match rev tg with [] => [] | x :: _ => [x] end) false E_user_halt d [] [])).
  Proof. intros d which ip fr dos Hc Hf Ht. eapply stop_free; try eassumption. reflexivity. Qed.

  (* ---------------------------------------------------------------- i j k *)
  Lemma exec_op_index : forall m k, (k < 3)%nat -> exec_op true false p e m (CODE_I + Z.of_nat k) =
    if can_push p m then match do_index m k with Some i => push p m (wrap (p_w p) i) | None => Fault F_loopindex end
    else stop m E_overflow.
  Proof. intros m [|[|[|k]]] H; try reflexivity. lia. Qed.

  (* i, j, k (n = 0, 1, 2) push the counter of the innermost, second, third do-loop *)
  Theorem loop_index_spec_proof : forall d which ip fr dos n dd ds i,
    (n < 3)%nat -> code p which ip = Some (CODE_I + Z.of_nat n) ->
    free_at dos (zlen fr + 1) = true -> t <= zlen fr ->
    nth_error dos n = Some (dd, ds, i) -> zlen (d_stack d) <> p_stack_max p ->
    G (S_ d ((which, ip) :: fr) dos) (S_ (with_stack d (wrap (p_w p) i :: d_stack d)) ((which, ip + 1) :: fr) dos).
  Proof.
    intros d which ip fr dos n dd ds i Hn Hc Hf Ht Hi Hs. eapply step_free; try eassumption.
    rewrite exec_op_index by exact Hn. unfold push, can_push, do_index, St at 1 2 3. cbn [m_stack m_dos].
    rewrite (proj2 (Z.eqb_neq _ _) Hs), Hi. reflexivity.
  Qed.

  Theorem loop_index_overflow_proof : forall d which ip fr dos n,
    (n < 3)%nat -> code p which ip = Some (CODE_I + Z.of_nat n) ->
    free_at dos (zlen fr + 1) = true -> t <= zlen fr -> zlen (d_stack d) = p_stack_max p ->
    ends p e t (S_ d ((which, ip) :: fr) dos) (Ok (St tg rd E_overflow d ((which, ip + 1) :: fr) dos)).
  Proof.
    intros d which ip fr dos n Hn Hc Hf Ht Hs. eapply stop_free; try eassumption.
    rewrite exec_op_index by exact Hn. unfold can_push, St at 1. cbn [m_stack].
    rewrite (proj2 (Z.eqb_eq _ _) Hs). reflexivity.
  Qed.

  (* outside enough nested do-loops (refused by the compiler, reachable through a word called from a loop-free context) *)
  Theorem loop_index_fault_proof : forall d which ip fr dos n,
    (n < 3)%nat -> code p which ip = Some (CODE_I + Z.of_nat n) ->
    free_at dos (zlen fr + 1) = true -> t <= zlen fr -> zlen (d_stack d) <> p_stack_max p ->
    nth_error dos n = None ->
    ends p e t (S_ d ((which, ip) :: fr) dos) (Fault F_loopindex).
  Proof.
    intros d which ip fr dos n Hn Hc Hf Ht Hs Hi. eapply fault_free; try eassumption.
    rewrite exec_op_index by exact Hn. unfold can_push, do_index, St at 1 2. cbn [m_stack m_dos].
    rewrite (proj2 (Z.eqb_neq _ _) Hs), Hi. reflexivity.
  Qed.
End Begin.

(* ================================================================== 9. a few stack words (used by the examples) *)
Section Words.
  Variables (p : prog) (e : env) (t : Z) (tg : list Z) (rd : bool) (er : Z).

  Notation S_ := (St tg rd er).
  Notation G := (goes p e t).

  Lemma push_St : forall d fr dos v, zlen (d_stack d) <> p_stack_max p ->
    push p (S_ d fr dos) v = continue (S_ (with_stack d (v :: d_stack d)) fr dos).
  Proof.
    intros d fr dos v H. unfold push, can_push, St at 1. cbn [m_stack]. rewrite (proj2 (Z.eqb_neq _ _) H). reflexivity.
  Qed.

  Lemma literal_spec : forall d which ip fr dos num, code p which ip = Some CODE_LITERAL -> code p which (ip + 1) = Some num ->
    free_at dos (zlen fr + 1) = true -> t <= zlen fr -> zlen (d_stack d) <> p_stack_max p ->
    G (S_ d ((which, ip) :: fr) dos) (S_ (with_stack d (wrap (p_w p) num :: d_stack d)) ((which, ip + 2) :: fr) dos).
  Proof.
    intros d which ip fr dos num Hc1 Hc2 Hf Ht Hs. eapply step_free; try eassumption.
    change (exec_op true false p e (S_ d ((which, ip + 1) :: fr) dos) CODE_LITERAL)
      with (with_arg p (S_ d ((which, ip + 1) :: fr) dos) (fun num m1 => push p m1 (wrap (p_w p) num))).
    unfold with_arg. rewrite (fetch_St p tg rd _ _ _ _ _ _ _ Hc2). rewrite push_St by exact Hs.
    replace (ip + 1 + 1) with (ip + 2) by lia. reflexivity.
  Qed.

  Lemma unop_spec : forall b f d a s which ip fr dos, (forall m, exec_op true false p e m b = un_op m f) ->
    code p which ip = Some b -> free_at dos (zlen fr + 1) = true -> t <= zlen fr -> d_stack d = a :: s ->
    G (S_ d ((which, ip) :: fr) dos) (S_ (with_stack d (f a :: s)) ((which, ip + 1) :: fr) dos).
  Proof.
    intros b f d a s which ip fr dos Hop Hc Hf Ht Hs. eapply step_free; try eassumption.
    rewrite Hop. unfold un_op, St at 1. cbn [m_stack]. rewrite Hs. reflexivity.
  Qed.

  Lemma binop_spec : forall b f d x y s which ip fr dos, (forall m, exec_op true false p e m b = bin_op m f) ->
    code p which ip = Some b -> free_at dos (zlen fr + 1) = true -> t <= zlen fr -> d_stack d = y :: x :: s ->
    G (S_ d ((which, ip) :: fr) dos) (S_ (with_stack d (f x y :: s)) ((which, ip + 1) :: fr) dos).
  Proof.
    intros b f d x y s which ip fr dos Hop Hc Hf Ht Hs. eapply step_free; try eassumption.
    rewrite Hop. unfold bin_op, St at 1. cbn [m_stack]. rewrite Hs. reflexivity.
  Qed.

  Lemma dup_spec : forall d a s which ip fr dos,
    code p which ip = Some CODE_DUP -> free_at dos (zlen fr + 1) = true -> t <= zlen fr -> d_stack d = a :: s ->
    zlen (d_stack d) <> p_stack_max p ->
    G (S_ d ((which, ip) :: fr) dos) (S_ (with_stack d (a :: a :: s)) ((which, ip + 1) :: fr) dos).
  Proof.
    intros d a s which ip fr dos Hc Hf Ht Hs Hr. eapply step_free; try eassumption.
    change (exec_op true false p e (S_ d ((which, ip + 1) :: fr) dos) CODE_DUP)
      with (match m_stack (S_ d ((which, ip + 1) :: fr) dos) with
            | [] => stop (S_ d ((which, ip + 1) :: fr) dos) E_underflow
            | a :: _ => push p (S_ d ((which, ip + 1) :: fr) dos) a end).
    unfold St at 1. cbn [m_stack]. rewrite Hs. rewrite push_St by exact Hr. rewrite Hs. reflexivity.
  Qed.

  (* the end of the run: the last frame above the target depth is popped *)
  Lemma run_end : forall d sg len fr dos, seg_len p sg = Some len -> free_at dos (zlen fr) = true -> t = zlen fr ->
    ends p e t (S_ d ((sg, len) :: fr) dos) (Ok (S_ d fr dos)).
  Proof.
    intros d sg len fr dos Hl Hf Ht. eapply goes_target; [|rewrite depth_St; symmetry; exact Ht].
    apply pop_free; try assumption. lia.
  Qed.
End Words.

(* ================================================================== 10. the laws instantiated on compiled programs *)
From Coq Require Import String.
Import List ListNotations.

Definition d_of (stack : list Z) : data := mkD stack [] [] [].
Definition begun := St [0] true 0 (d_of []) [(0, 0)] [].             (* the state after begin() *)
Definition finished (stack : list Z) := St [0] true 0 (d_of stack) [] [].  (* internal_run returns at depth 0 *)

(* ---- 10 0 do i loop *)
Definition p_do := mkProg 64 [[0; 10; 0; 0; 5; 67]; [29]] [] [] [] [] 64 16.

Example ex_do_loop_proof :
  compile 64 64 16 (bytes "10 0 do i loop"%string) = COk p_do /\
  api_begin p_do (mkEnv []) (init_machine p_do) = Ok begun /\
  ends p_do (mkEnv []) 0 begun (Ok (finished [9; 8; 7; 6; 5; 4; 3; 2; 1; 0])) /\
  api_run 100 true p_do (mkEnv []) (init_machine p_do) = Ok (St [] true 0 (d_of [9; 8; 7; 6; 5; 4; 3; 2; 1; 0]) [] []).
Proof.
  split; [vm_compute; reflexivity|]. split; [reflexivity|]. split; [|vm_compute; reflexivity].
  unfold begun, finished.
  eapply goes_ends; [apply literal_spec with (num := 10); try reflexivity; try discriminate; cbn; lia|].
  eapply goes_ends; [apply literal_spec with (num := 0); try reflexivity; try discriminate; cbn; lia|].
  pose (B := fun (i : Z) (d : data) => with_stack d (wrap 64 i :: d_stack d)).
  pose (Inv := fun (i : Z) (d : data) => zlen (d_stack d) = i).
  destruct (do_loop_iterates_proof p_do (mkEnv []) 0 [0] true 0 0 4 [] [] 1 B Inv 10 0 []
              (with_stack (with_stack (d_of []) [wrap 64 10]) [wrap 64 0; wrap 64 10])) as [Hg Hi];
    try reflexivity; try (cbn; lia).
  - intros i di Hr Hv. unfold Inv in *. split.
    + exists 1. split; [reflexivity|].
      apply (loop_index_spec_proof p_do (mkEnv []) 0 [0] true 0 di 1 0 [(0, 5)] [(1, 10, i)] 0%nat 1 10 i);
        try reflexivity; try (cbn; lia).
    + unfold B. cbn [d_stack with_stack]. rewrite zlen_cons. lia.
  - eapply goes_ends; [exact Hg|].
    apply run_end; reflexivity.
Qed.

Ltac side := first [reflexivity | discriminate | (cbn; lia) | (unfold zlen in *; cbn in *; lia) | (unfold zlen in *; cbn -[Z.mul Z.add Z.sub] in *; lia)].

(* ---- 0 begin 1+ dup 5 = until *)
Definition p_until := mkProg 64 [[0; 0; 67; 8]; [46; 32; 0; 5; 51]] [] [] [] [] 64 16.

Definition B_until (d : data) : data :=
  match d_stack d with
  | a :: s => with_stack d (bool_cell (wrap 64 (a + 1) =? wrap 64 5) :: wrap 64 (a + 1) :: s)
  | [] => d
  end.

Example ex_begin_until_proof :
  compile 64 64 16 (bytes "0 begin 1+ dup 5 = until"%string) = COk p_until /\
  ends p_until (mkEnv []) 0 begun (Ok (finished [5])) /\
  api_run 100 true p_until (mkEnv []) (init_machine p_until) = Ok (St [] true 0 (d_of [5]) [] []).
Proof.
  split; [vm_compute; reflexivity|]. split; [|vm_compute; reflexivity].
  unfold begun, finished.
  eapply goes_ends; [apply literal_spec with (num := 0); side|].
  eapply goes_ends.
  - apply (begin_until_proof p_until (mkEnv []) 0 [0] true 0 0 2 [] [] 1 B_until
             (fun d => exists a, d = d_of [a]) 10%nat _ (d_of [5])); try side.
    + exists (wrap 64 0). reflexivity.
    + intros di [a ->]. split.
      * exists 5. split; [reflexivity|].
        eapply goes_trans; [apply unop_spec with (b := CODE_ADD1) (f := fun a => wrap 64 (a + 1)) (a := a) (s := []); side|].
        eapply goes_trans; [eapply dup_spec; side|].
        eapply goes_trans; [apply literal_spec with (num := 5); side|].
        eapply goes_trans; [apply binop_spec with (b := CODE_EQ) (f := fun a b => bool_cell (a =? b)); side|].
        apply goes_refl.
      * intros s' Hs. unfold B_until in *. cbn in Hs. inv Hs. eexists. reflexivity.
  - apply run_end; side.
Qed.

(* ---- 0 begin dup 5 < while 1+ repeat *)
Definition p_while := mkProg 64 [[0; 0; 67; 9; 68]; [32; 0; 5; 55]; [46]] [] [] [] [] 64 16.

Definition Pre_while (d : data) : data :=
  match d_stack d with a :: s => with_stack d (bool_cell (a <? wrap 64 5) :: a :: s) | [] => d end.
Definition Post_while (d : data) : data :=
  match d_stack d with a :: s => with_stack d (wrap 64 (a + 1) :: s) | [] => d end.

Example ex_begin_while_repeat_proof :
  compile 64 64 16 (bytes "0 begin dup 5 < while 1+ repeat"%string) = COk p_while /\
  ends p_while (mkEnv []) 0 begun (Ok (finished [5])) /\
  api_run 100 true p_while (mkEnv []) (init_machine p_while) = Ok (St [] true 0 (d_of [5]) [] []).
Proof.
  split; [vm_compute; reflexivity|]. split; [|vm_compute; reflexivity].
  unfold begun, finished.
  eapply goes_ends; [apply literal_spec with (num := 0); side|].
  eapply goes_ends.
  - apply (begin_while_repeat_proof p_while (mkEnv []) 0 [0] true 0 0 2 [] [] 1 2 Pre_while Post_while
             (fun d => exists a, d = d_of [a]) 10%nat _ (d_of [5])); try side.
    + exists (wrap 64 0). reflexivity.
    + intros di [a ->]. split.
      * exists 4. split; [reflexivity|].
        eapply goes_trans; [eapply dup_spec; side|].
        eapply goes_trans; [apply literal_spec with (num := 5); side|].
        eapply goes_trans; [apply binop_spec with (b := CODE_LT) (f := fun a b => bool_cell (a <? b)); side|].
        apply goes_refl.
      * intros v s' Hs Hv. cbn in Hs. inv Hs. split.
        -- exists 1. split; [reflexivity|].
           eapply goes_trans; [apply unop_spec with (b := CODE_ADD1) (f := fun a => wrap 64 (a + 1)) (a := a) (s := []); side|].
           apply goes_refl.
        -- eexists. reflexivity.
  - apply run_end; side.
Qed.

(* ---- 10 0 do i 3 +loop *)
Definition p_ploop := mkProg 64 [[0; 10; 0; 0; 6; 67]; [29; 0; 3]] [] [] [] [] 64 16.

Definition B_ploop (i : Z) (d : data) : data := with_stack d (wrap 64 3 :: wrap 64 i :: d_stack d).

Example ex_plus_loop_proof :
  compile 64 64 16 (bytes "10 0 do i 3 +loop"%string) = COk p_ploop /\
  ends p_ploop (mkEnv []) 0 begun (Ok (finished [9; 6; 3; 0])) /\
  api_run 100 true p_ploop (mkEnv []) (init_machine p_ploop) = Ok (St [] true 0 (d_of [9; 6; 3; 0]) [] []).
Proof.
  split; [vm_compute; reflexivity|]. split; [|vm_compute; reflexivity].
  unfold begun, finished.
  eapply goes_ends; [apply literal_spec with (num := 10); side|].
  eapply goes_ends; [apply literal_spec with (num := 0); side|].
  eapply goes_ends.
  - apply (plus_loop_iterates_proof p_ploop (mkEnv []) 0 [0] true 0 0 4 [] [] 1 B_ploop
             (fun i d => 0 <= i /\ zlen (d_stack d) <= i) 10 0 [] _ 10%nat (d_of [9; 6; 3; 0])); try side.
    intros i di Hi Hv. split.
    + exists 3. split; [reflexivity|].
      eapply goes_trans.
      { apply (loop_index_spec_proof p_ploop (mkEnv []) 0 [0] true 0 di 1 0 [(0, 5)] [(-2, 10, i)] 0%nat (-2) 10 i); side. }
      eapply goes_trans; [apply literal_spec with (num := 3); side|].
      apply goes_refl.
    + intros v s' Hs. cbn in Hs. inv Hs. cbn [d_stack with_stack]. rewrite zlen_cons.
      change (wrap 64 3) with 3. rewrite wrap64_id by lia. lia.
  - apply run_end; side.
Qed.

(* ---- if 10 else 20 then  /  if 10 then : for every flag v and every stack below (with room for one cell) *)
Definition p_ifelse := mkProg 64 [[4; 67; 68]; [0; 10]; [0; 20]] [] [] [] [] 64 16.
Definition p_ifthen := mkProg 64 [[3; 67]; [0; 10]] [] [] [] [] 64 16.

Example ex_if_else_then_proof : forall v s, zlen s < 64 ->
  compile 64 64 16 (bytes "if 10 else 20 then"%string) = COk p_ifelse /\
  ends p_ifelse (mkEnv []) 0 (St [0] true 0 (d_of (v :: s)) [(0, 0)] [])
       (Ok (finished ((if v =? 0 then 20 else 10) :: s))).
Proof.
  intros v s Hs. split; [vm_compute; reflexivity|]. unfold finished.
  eapply goes_ends.
  - apply (if_else_then_spec_proof p_ifelse (mkEnv []) 0 [0] true 0 (d_of (v :: s))
             (d_of ((if v =? 0 then 20 else 10) :: s)) v s 0 0 [] [] 1 2); try side.
    exists 2. destruct (v =? 0); (split; [reflexivity|]).
    + apply literal_spec with (num := 20); side.
    + apply literal_spec with (num := 10); side.
  - apply run_end; side.
Qed.

Example ex_if_then_proof : forall v s, zlen s < 64 ->
  compile 64 64 16 (bytes "if 10 then"%string) = COk p_ifthen /\
  ends p_ifthen (mkEnv []) 0 (St [0] true 0 (d_of (v :: s)) [(0, 0)] [])
       (Ok (finished (if v =? 0 then s else 10 :: s))).
Proof.
  intros v s Hs. split; [vm_compute; reflexivity|]. unfold finished.
  eapply goes_ends.
  - apply (if_then_spec_proof p_ifthen (mkEnv []) 0 [0] true 0 (d_of (v :: s))
             (d_of (if v =? 0 then s else 10 :: s)) v s 0 0 [] [] 1); try side.
    + intros Hv. split; [side|]. exists 2. split; [reflexivity|].
      destruct (v =? 0) eqn:E; [lia|]. apply literal_spec with (num := 10); side.
    + intros ->. reflexivity.
  - apply run_end; side.
Qed.

(* empty stack: stack underflow; at the recursion limit: recursion depth exceeded *)
Example ex_if_errors_proof :
  ends p_ifthen (mkEnv []) 0 (St [0] true 0 (d_of []) [(0, 0)] []) (Ok (St [0] true E_underflow (d_of []) [(0, 1)] [])) /\
  api_run 100 true p_ifthen (mkEnv []) (init_machine p_ifthen) = Ok (St [0] true E_underflow (d_of []) [(0, 1)] []) /\
  let p1 := mkProg 64 [[0; 1; 3; 67]; [0; 10]] [] [] [] [] 64 1 in
  compile 64 64 1 (bytes "1 if 10 then"%string) = COk p1 /\
  ends p1 (mkEnv []) 0 (St [0] true 0 (d_of [1]) [(0, 2)] []) (Ok (St [0] true E_recursion (d_of []) [(0, 4)] [])) /\
  api_run 100 true p1 (mkEnv []) (init_machine p1) = Ok (St [0] true E_recursion (d_of []) [(0, 4)] []).
Proof.
  split; [apply if_underflow_proof with (c := CODE_IF); try side; left; reflexivity|].
  split; [vm_compute; reflexivity|]. cbv zeta.
  split; [vm_compute; reflexivity|].
  split; [|vm_compute; reflexivity].
  apply (if_recursion_limit_proof _ (mkEnv []) 0 [0] true 0 (d_of [1]) 1 [] 0 2 [] [] 1 2); side.
Qed.

(* ---- : f 0 begin 1+ dup 5 = if exit then again ; f 100   — begin..again is left only through exit *)
Definition p_again :=
  mkProg 64 [[67; 0; 100]; [0; 0; 68; 7]; [46; 32; 0; 5; 51; 3; 69]; [10; 2]] [([102], 67)] [] [] [] 64 16.

Definition B_again (d : data) : data :=
  match d_stack d with a :: s => with_stack d (wrap 64 (a + 1) :: s) | [] => d end.

Example ex_begin_again_exit_proof :
  compile 64 64 16 (bytes ": f 0 begin 1+ dup 5 = if exit then again ; f 100"%string) = COk p_again /\
  ends p_again (mkEnv []) 0 begun (Ok (finished [100; 5])) /\
  api_run 100 true p_again (mkEnv []) (init_machine p_again) = Ok (St [] true 0 (d_of [100; 5]) [] []).
Proof.
  split; [vm_compute; reflexivity|]. split; [|vm_compute; reflexivity].
  unfold begun, finished.
  (* the call of f *)
  eapply goes_ends; [apply call_enter_proof with (sg := 1) (len := 4); side|].
  eapply goes_ends; [apply literal_spec with (num := 0); side|].
  (* four complete passes through the body *)
  destruct (begin_again_n_proof p_again (mkEnv []) 0 [0] true 0 1 2 [(0, 1)] [] 2 ltac:(reflexivity) ltac:(reflexivity)
              ltac:(reflexivity) ltac:(side) ltac:(side) B_again (fun j d => d = d_of [Z.of_nat j]) 4%nat) with (d := d_of [0])
    as [Hg _].
  { intros j di Hj ->. split; [|destruct j as [|[|[|[|j]]]]; [reflexivity..|lia]].
    exists 7. split; [reflexivity|].
    eapply goes_trans; [apply unop_spec with (b := CODE_ADD1) (f := fun a => wrap 64 (a + 1)) (a := Z.of_nat j) (s := []); side|].
    eapply goes_trans; [eapply dup_spec; side|].
    eapply goes_trans; [apply literal_spec with (num := 5); side|].
    eapply goes_trans; [apply binop_spec with (b := CODE_EQ) (f := fun a b => bool_cell (a =? b)); side|].
    eapply (if_then_spec_proof p_again (mkEnv []) 0 [0] true 0 _ _ 0 [wrap 64 (Z.of_nat j + 1)] 2 5 _ [] 3); try side.
    destruct j as [|[|[|[|j]]]]; [reflexivity..|lia]. }
  { reflexivity. }
  eapply goes_ends; [exact Hg|].
  (* the fifth pass ends in `exit` (exitdepth 2): the frames of `then`-segment, loop body and f are left *)
  eapply goes_ends; [apply call_enter_proof with (sg := 2) (len := 7); side|].
  eapply goes_ends; [apply unop_spec with (b := CODE_ADD1) (f := fun a => wrap 64 (a + 1)) (a := 4) (s := []); side|].
  eapply goes_ends; [eapply dup_spec; side|].
  eapply goes_ends; [apply literal_spec with (num := 5); side|].
  eapply goes_ends; [apply binop_spec with (b := CODE_EQ) (f := fun a b => bool_cell (a =? b)); side|].
  eapply goes_ends; [apply if_test with (v := -1) (s := [5]); side|].
  eapply goes_ends; [apply call_enter_proof with (sg := 3) (len := 2); side|].
  eapply goes_ends; [apply exit_spec_proof with (k := 2) (dos' := []); side|].
  eapply goes_ends; [apply literal_spec with (num := 100); side|].
  apply run_end; side.
Qed.

(* ---- 2 0 do 3 0 do i j + loop loop : nested loops, i = inner counter, j = outer counter *)
Definition p_nested := mkProg 64 [[0; 2; 0; 0; 5; 67]; [0; 3; 0; 0; 5; 68]; [29; 30; 39]] [] [] [] [] 64 16.

Definition B_in (j i : Z) (d : data) : data := with_stack d (wrap 64 (wrap 64 i + wrap 64 j) :: d_stack d).
Definition B_out (j : Z) (d : data) : data := iter_from (B_in j) 0 3 d.

Example ex_nested_do_loops_proof :
  compile 64 64 16 (bytes "2 0 do 3 0 do i j + loop loop"%string) = COk p_nested /\
  ends p_nested (mkEnv []) 0 begun (Ok (finished [3; 2; 1; 2; 1; 0])) /\
  api_run 100 true p_nested (mkEnv []) (init_machine p_nested) = Ok (St [] true 0 (d_of [3; 2; 1; 2; 1; 0]) [] []).
Proof.
  split; [vm_compute; reflexivity|]. split; [|vm_compute; reflexivity].
  unfold begun, finished.
  eapply goes_ends; [apply literal_spec with (num := 2); side|].
  eapply goes_ends; [apply literal_spec with (num := 0); side|].
  destruct (do_loop_iterates_proof p_nested (mkEnv []) 0 [0] true 0 0 4 [] [] 1 B_out
              (fun j d => zlen (d_stack d) = 3 * j) 2 0 [] (d_of [0; 2])) as [Hg _]; try side.
  - intros j [st vs ins os] Hj Hv. cbn [d_stack] in Hv.
    destruct (do_loop_iterates_proof p_nested (mkEnv []) 0 [0] true 0 1 4 [(0, 5)] [(1, 2, j)] 2 (B_in j)
                (fun i d => zlen (d_stack d) = 3 * j + i) 3 0 st (mkD (0 :: 3 :: st) vs ins os)) as [Hg' Hi']; try side.
    + intros i di Hi Hv'. split.
      * exists 3. split; [reflexivity|].
        eapply goes_trans.
        { apply (loop_index_spec_proof p_nested (mkEnv []) 0 [0] true 0 di 2 0 [(1, 5); (0, 5)] [(2, 3, i); (1, 2, j)]
                   0%nat 2 3 i); side. }
        eapply goes_trans.
        { apply (loop_index_spec_proof p_nested (mkEnv []) 0 [0] true 0 _ 2 1 [(1, 5); (0, 5)] [(2, 3, i); (1, 2, j)]
                   1%nat 1 2 j); side. }
        eapply goes_trans; [apply binop_spec with (b := CODE_ADD) (f := fun a b => wrap 64 (a + b)); side|].
        apply goes_refl.
      * unfold B_in. cbn [d_stack with_stack]. rewrite zlen_cons. lia.
    + split.
      * exists 6. split; [reflexivity|].
        eapply goes_trans; [apply literal_spec with (num := 3); side|].
        eapply goes_trans; [apply literal_spec with (num := 0); side|].
        exact Hg'.
      * change (Z.max 0 3) with 3 in Hi'. unfold B_out. cbn [d_stack with_stack] in *.
        change (Z.to_nat (3 - 0)) with 3%nat in Hi'. replace (3 * (j + 1)) with (3 * j + 3) by lia. exact Hi'.
  - eapply goes_ends; [exact Hg|]. apply run_end; side.
Qed.

(* ---- i j k on a do-stack with three entries (n = 0, 1, 2 selects the innermost, second, third counter) *)
Definition p_ijk := mkProg 64 [[29; 30; 31]] [] [] [] [] 64 16.

Example ex_i_j_k_proof : forall a b c s, zlen s < 60 ->
  goes p_ijk (mkEnv []) 0 (St [0] true 0 (d_of s) [(0, 0); (9, 9)] [(5, 100, a); (4, 100, b); (3, 100, c)])
       (St [0] true 0 (d_of (wrap 64 c :: wrap 64 b :: wrap 64 a :: s)) [(0, 3); (9, 9)] [(5, 100, a); (4, 100, b); (3, 100, c)]).
Proof.
  intros a b c s Hs.
  eapply goes_trans; [apply (loop_index_spec_proof p_ijk (mkEnv []) 0 [0] true 0 _ 0 0 [(9, 9)] _ 0%nat 5 100 a); side|].
  eapply goes_trans; [apply (loop_index_spec_proof p_ijk (mkEnv []) 0 [0] true 0 _ 0 1 [(9, 9)] _ 1%nat 4 100 b); side|].
  eapply goes_trans; [apply (loop_index_spec_proof p_ijk (mkEnv []) 0 [0] true 0 _ 0 2 [(9, 9)] _ 2%nat 3 100 c); side|].
  apply goes_refl.
Qed.

(* ================================================================== 11. where the model leaves standard Forth *)
(* (1) `+loop` with a negative step.  Forth-2012 (6.1.0140): the loop ends when the index crosses the boundary between
   limit-1 and limit, so `0 10 do i -1 +loop` leaves 10 9 8 7 6 5 4 3 2 1 0.  The machine tests `stop <= i` BEFORE every
   pass, whatever the sign of the step: with start >= stop the body never runs. *)
Definition p_negstep := mkProg 64 [[0; 0; 0; 10; 6; 67]; [29; 0; -1]] [] [] [] [] 64 16.

Example plus_loop_negative_step_refuted_proof :
  compile 64 64 16 (bytes "0 10 do i -1 +loop"%string) = COk p_negstep /\
  ends p_negstep (mkEnv []) 0 begun (Ok (finished [])) /\
  (exists mf, api_run 100 true p_negstep (mkEnv []) (init_machine p_negstep) = Ok mf /\ m_err mf = E_none /\
              m_stack mf = [] /\ m_stack mf <> [0; 1; 2; 3; 4; 5; 6; 7; 8; 9; 10]).
Proof.
  split; [vm_compute; reflexivity|]. split.
  - unfold begun, finished.
    eapply goes_ends; [apply literal_spec with (num := 0); side|].
    eapply goes_ends; [apply literal_spec with (num := 10); side|].
    eapply goes_ends; [apply (do_loop_no_iteration_proof p_negstep (mkEnv []) 0 [0] true 0 true 0 4 [] [] 1 10 0 []); side|].
    apply run_end; side.
  - eexists. split; [vm_compute; reflexivity|]. repeat split. discriminate.
Qed.

(* (2) a negative step from start < stop counts downwards, away from the limit: the loop only ends through an error
   (here stack overflow after 8 passes) or when the index wraps around at -2^63 *)
Example plus_loop_negative_step_runs_away_proof :
  let p := mkProg 64 [[0; 10; 0; 0; 6; 67]; [29; 0; -1]] [] [] [] [] 8 16 in
  compile 64 8 16 (bytes "10 0 do i -1 +loop"%string) = COk p /\
  exists mf, api_run 1000 true p (mkEnv []) (init_machine p) = Ok mf /\ m_err mf = E_overflow /\
             m_stack mf = [-7; -6; -5; -4; -3; -2; -1; 0] /\ m_dos mf = [(-2, 10, -7)].
Proof. cbv zeta. split; [vm_compute; reflexivity|]. eexists. split; [vm_compute; reflexivity|]. repeat split. Qed.

(* (3) `do` behaves like Forth's `?do`: with start = stop the body is skipped (Forth-2012 `do` would run 2^64 passes) *)
Example do_loop_empty_range_proof :
  let p := mkProg 64 [[0; 5; 0; 5; 5; 67]; [29]] [] [] [] [] 64 16 in
  compile 64 64 16 (bytes "5 5 do i loop"%string) = COk p /\
  ends p (mkEnv []) 0 begun (Ok (finished [])) /\
  api_run 100 true p (mkEnv []) (init_machine p) = Ok (St [] true 0 (d_of []) [] []).
Proof.
  cbv zeta. split; [vm_compute; reflexivity|]. split; [|vm_compute; reflexivity].
  unfold begun, finished.
  eapply goes_ends; [apply literal_spec with (num := 5); side|].
  eapply goes_ends; [apply literal_spec with (num := 5); side|].
  eapply goes_ends; [apply (do_loop_no_iteration_proof _ (mkEnv []) 0 [0] true 0 false 0 4 [] [] 1 5 5 []); side|].
  apply run_end; side.
Qed.

(* errors of `do`: too few cells, do-stack full *)
Example ex_do_errors_proof :
  let p := mkProg 64 [[0; 1; 5; 67]; [29]] [] [] [] [] 64 16 in
  compile 64 64 16 (bytes "1 do i loop"%string) = COk p /\
  ends p (mkEnv []) 0 (St [0] true 0 (d_of [1]) [(0, 2)] []) (Ok (St [0] true E_underflow (d_of [1]) [(0, 3)] [])) /\
  api_run 100 true p (mkEnv []) (init_machine p) = Ok (St [0] true E_underflow (d_of [1]) [(0, 3)] []) /\
  let q := mkProg 64 [[0; 2; 0; 0; 5; 67]; [0; 2; 0; 0; 5; 68]; [29]] [] [] [] [] 64 1 in
  ends q (mkEnv []) 0 (St [0] true 0 (d_of [0; 2]) [(1, 4); (0, 5)] [(1, 2, 0)])
       (Ok (St [0] true E_recursion (d_of []) [(1, 5); (0, 5)] [(1, 2, 0)])).
Proof.
  cbv zeta. split; [vm_compute; reflexivity|].
  split; [apply (do_underflow_proof _ (mkEnv []) 0 [0] true 0 false); side|].
  split; [vm_compute; reflexivity|].
  apply (do_recursion_limit_proof _ (mkEnv []) 0 [0] true 0 false 1 4 [(0, 5)] [(1, 2, 0)] (d_of [0; 2]) 0 2 []); side.
Qed.
