
val negb : bool -> bool

type nat =
| O
| S of nat

val fst : ('a1 * 'a2) -> 'a1

val snd : ('a1 * 'a2) -> 'a2

val length : 'a1 list -> nat

val app : 'a1 list -> 'a1 list -> 'a1 list

type comparison =
| Eq
| Lt
| Gt

val compOpp : comparison -> comparison

val add : nat -> nat -> nat

type positive =
| XI of positive
| XO of positive
| XH

type n =
| N0
| Npos of positive

type z =
| Z0
| Zpos of positive
| Zneg of positive

val eqb : bool -> bool -> bool

module Nat :
 sig
  val eqb : nat -> nat -> bool

  val leb : nat -> nat -> bool

  val ltb : nat -> nat -> bool
 end

module Pos :
 sig
  val succ : positive -> positive

  val add : positive -> positive -> positive

  val add_carry : positive -> positive -> positive

  val pred_double : positive -> positive

  val pred_N : positive -> n

  val mul : positive -> positive -> positive

  val compare_cont : comparison -> positive -> positive -> comparison

  val compare : positive -> positive -> comparison

  val eqb : positive -> positive -> bool

  val testbit : positive -> n -> bool

  val iter_op : ('a1 -> 'a1 -> 'a1) -> positive -> 'a1 -> 'a1

  val to_nat : positive -> nat

  val of_succ_nat : nat -> positive
 end

module N :
 sig
  val testbit : n -> n -> bool
 end

module Z :
 sig
  val double : z -> z

  val succ_double : z -> z

  val pred_double : z -> z

  val pos_sub : positive -> positive -> z

  val add : z -> z -> z

  val opp : z -> z

  val sub : z -> z -> z

  val mul : z -> z -> z

  val compare : z -> z -> comparison

  val leb : z -> z -> bool

  val ltb : z -> z -> bool

  val eqb : z -> z -> bool

  val max : z -> z -> z

  val to_nat : z -> nat

  val of_nat : nat -> z

  val pos_div_eucl : positive -> z -> z * z

  val div_eucl : z -> z -> z * z

  val div : z -> z -> z

  val modulo : z -> z -> z

  val odd : z -> bool

  val testbit : z -> z -> bool
 end

val tl : 'a1 list -> 'a1 list

val nth_error : 'a1 list -> nat -> 'a1 option

val map : ('a1 -> 'a2) -> 'a1 list -> 'a2 list

val flat_map : ('a1 -> 'a2 list) -> 'a1 list -> 'a2 list

val fold_left : ('a1 -> 'a2 -> 'a1) -> 'a2 list -> 'a1 -> 'a1

val fold_right : ('a2 -> 'a1 -> 'a1) -> 'a1 -> 'a2 list -> 'a1

val existsb : ('a1 -> bool) -> 'a1 list -> bool

val forallb : ('a1 -> bool) -> 'a1 list -> bool

val firstn : nat -> 'a1 list -> 'a1 list

val skipn : nat -> 'a1 list -> 'a1 list

val repeat : 'a1 -> nat -> 'a1 list

type err =
| EValue
| EOob
| EFuel

type 'a res =
| Ok of 'a
| Err of err

val bind : 'a1 res -> ('a1 -> 'a2 res) -> 'a2 res

val rmap : ('a1 -> 'a2) -> 'a1 res -> 'a2 res

val mapM : ('a1 -> 'a2 res) -> 'a1 list -> 'a2 list res

val zlen : 'a1 list -> z

val get : 'a1 list -> z -> 'a1 res

val take : z -> 'a1 list -> 'a1 list

val drop : z -> 'a1 list -> 'a1 list

val slice : 'a1 list -> z -> z -> 'a1 list res

val iota_nat : z -> nat -> z list

val iota : z -> z list

val zip : 'a1 list -> 'a2 list -> ('a1 * 'a2) list

val pairs : z list -> (z * z) list

val list_eqb : ('a1 -> 'a1 -> bool) -> 'a1 list -> 'a1 list -> bool

val opt_eqb : ('a1 -> 'a1 -> bool) -> 'a1 option -> 'a1 option -> bool

val chunks_nat : 'a1 list -> z -> nat -> 'a1 list list

type width =
| I32
| U32
| I64

type dtype =
| DBool
| DInt8
| DInt16
| DInt32
| DInt64
| DUInt8
| DUInt16
| DUInt32
| DUInt64
| DFloat32
| DFloat64

type datum =
| DZ of z
| DNaN
| DInf of bool

type name = z list

type akind =
| AString
| ABytestring
| AChar
| AByte
| ACategorical

type value =
| VNum of datum
| VBool of bool
| VStr of bool * z list
| VNone
| VList of value list
| VRec of (name * value) list
| VTup of value list

type content =
| Numpy of dtype * z list * datum list
| Empty
| ListOffset of width * z list * content
| ListA of width * z list * z list * content
| Regular of content * z * z
| Indexed of width * z list * content
| IndexedOption of width * z list * content
| ByteMasked of z list * bool * content
| BitMasked of z list * bool * bool * z * content
| Unmasked of content
| Union of width * z list * z list * content list
| Record of content list * name list option * z
| Par of akind option * name option * content

val prodZ : z list -> z

val clen : content -> z

val cut1 : 'a1 list -> (z * z) -> 'a1 list res

val cut : 'a1 list -> z list -> 'a1 list list res

val cut2 : 'a1 list -> z list -> z list -> 'a1 list list res

val chunks : 'a1 list -> z -> z -> 'a1 list list res

val bit_at : z list -> bool -> z -> bool res

val pick_opt : value list -> bool -> z -> value res

val nest : z list -> z -> value list -> value list res

val leaf : dtype -> datum -> value

val bytes_of : value -> z list res

val row : name list option -> value list list -> z -> value res

val to_list : content -> value list res

val datum_eqb : datum -> datum -> bool

val value_eqb : value -> value -> bool

val strip : content -> content

val optionlike : content -> bool

val unionlike : content -> bool

val pair_okb : z -> (z * z) -> bool

val is_chars : akind -> content -> bool

val list_content : content -> content option

val paramcheck : akind option -> content -> bool

val is_strk : akind option -> bool

val union_okb : z list -> (z * z) -> bool

val validb : akind option -> content -> bool

val valid_b : content -> bool

type ty =
| TNum of dtype
| TUnk
| TList of z option * bool option * ty
| TOpt of ty
| TRec of name list option * ty list
| TUnion of ty list

val numpy_ty : dtype -> z list -> ty

val strflag : akind option -> bool option

val type_of_p : akind option -> content -> ty

val type_of : content -> ty

type cmd =
| CNull
| CBool of bool
| CInt of z
| CReal of z
| CStr of bool * z list
| CBeginList
| CEndList
| CBeginTuple of z
| CIndex of z
| CEndTuple
| CBeginRecord of name option
| CField of name
| CEndRecord

type scmd =
| SC of cmd
| SSnapshot
| SClear

type ckind =
| KNull
| KAtom
| KBegin
| KEnd
| KInner

val kind_of : cmd -> ckind

type opts = { initial : z; grow : (z -> z); junk : z }

type gb = { gid : nat; gdata : z list; glen : z; gres : z }

val fill : z -> z -> z list

val upd_nth : 'a1 list -> nat -> 'a1 -> 'a1 list

val gb_list : gb -> z list

val gb_make : opts -> z list -> z -> gb res

val gb_empty : opts -> gb res

val gb_full : opts -> z -> z -> gb res

val gb_arange : opts -> z -> gb res

val gb_set_reserved : opts -> gb -> z -> gb

val gb_append : opts -> gb -> z -> gb res

val gb_extend : opts -> gb -> z list -> gb res

val gb_clear : opts -> gb -> gb res

val gb_convert : opts -> gb -> gb res

type builder =
| BUnknown of z
| BBool of gb
| BInt of gb
| BFloat of gb
| BString of bool * gb * gb
| BOption of gb * builder
| BList of gb * builder * bool
| BRecord of builder list * name list * name * bool * z * bool * z * z
| BTuple of builder list * z * bool * z
| BUnion of gb * gb * builder list * z

type sres =
| SOk of builder * builder option
| SErr of err * builder

val blen : builder -> z

val active : builder -> bool

val name_eqb : name -> name -> bool

val pick : builder -> builder option -> builder

val mu : sres -> (builder -> builder) -> sres

val dr : sres -> (builder -> builder) -> sres

val withgb : gb res -> builder -> (gb -> sres) -> sres

val withb : builder res -> builder -> (builder -> sres) -> sres

val at_nth : ('a1 -> 'a2) -> 'a1 list -> nat -> 'a2 option

val find_app :
  ('a1 -> 'a2) -> ('a1 -> bool) -> 'a1 list -> nat -> ((nat * 'a1) * 'a2)
  option

val mapMs : ('a1 -> 'a2 res) -> 'a1 list -> 'a2 list res

val nth_z : 'a1 list -> z -> 'a1 option

val string_after : opts -> bool -> gb -> gb -> z list -> builder res

val fresh_after : opts -> cmd -> builder res

val option_null : opts -> builder -> sres

val union_wrap : opts -> builder -> cmd -> sres

val unknown_start : opts -> z -> cmd -> sres

val takes : cmd -> builder -> bool

val is_int : builder -> bool

val find_key : name -> name list -> z -> z option

val rr_find : name -> name list -> z -> z option

val fill_loop :
  (builder -> sres) -> z -> builder list -> builder list * err option

val step : opts -> builder -> cmd -> sres

val offsets0 : opts -> gb res

val clear : opts -> builder -> builder res

val numpy1 : dtype -> gb -> content

val snapshot : builder -> content res

val ab_step : opts -> builder -> cmd -> builder * err option

val ab_init : builder

type event =
| EvErr of nat * err
| EvSnap of nat * z * content res

val run_session : opts -> builder -> nat -> scmd list -> event list * builder

type pyval =
| PNone
| PBool of bool
| PInt of z
| PFloat of z
| PStr of bool * z list
| PList of pyval list
| PTup of pyval list
| PRec of name option * (name * pyval) list

val encode : pyval -> cmd list

val encode_all : pyval list -> cmd list

val val_of : pyval -> value

type pos =
| Pos of pos option * (z * pos list) list
   * (name option * (name * pos) list) list

val p0 : pos

val oname_eqb : name option -> name option -> bool

val upd_assoc :
  ('a1 -> 'a1 -> bool) -> 'a1 -> ('a2 option -> 'a2) -> ('a1 * 'a2) list ->
  ('a1 * 'a2) list

val assoc : ('a1 -> 'a1 -> bool) -> 'a1 -> ('a1 * 'a2) list -> 'a2 option

val opos : pos option -> pos

val join : pos -> pyval -> pos

val coerce : pos -> pyval -> value

val positions : pyval list -> pos

val unify : pyval list -> value list

val keys_nodup : name list -> bool

val pywf : pyval -> bool

val no_struct : pyval -> bool
