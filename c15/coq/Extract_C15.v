(** Extraction of the executable JSON model (ExtrOcamlBasic only; Z stays inductive). *)
From Coq Require Import Extraction ExtrOcamlBasic.
From AwkV Require Import Layout Valid.
From AwkJson Require Import Json.
Extraction Language OCaml.
Extraction "model.ml" Z.add Z.mul Z.sub Z.div Z.modulo Z.eqb Z.ltb Z.leb Z.of_nat Z.to_nat Z.opp
  to_list value_eqb valid_b clen
  tojson_events json_value wf printable render parse do_parse unwrap.
