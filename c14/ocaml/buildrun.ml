(* buildrun: runs the extracted builder model (Builder.v) and the specification (Spec.v) on the sessions the
   implementation ran (impl/drv/builddrv.cpp) and compares what an observer sees.

   input : (id build (opts INITIAL RESIZE_PERCENT) (cmds CMD...) [(vals V...) | (valsafterclear V...)]
                    [(impl ok (events..) (final..)) | (impl crash|timeout|err C)])
   output: (id VERDICT (k v)...)   VERDICT in
     agree      implementation = model (= specification where one is given)
     viol       implementation differs from the specification / from itself (snapshot changed) / crashed / the model
                predicts undefined behaviour for this session
     modeldiff  implementation = specification but the model differs from the implementation
     bad        the case could not be evaluated (harness / syntax)
   Without (impl ...) the model's and the specification's observations are printed:
     (id model (events (e POS CLASS) (s POS LEN VALUE TYPE)...) [(spec VALUE)])

   Values are compared with the extracted [value_eqb] after the extracted core [to_list] has been applied to the
   implementation's dumped layout; never buffers.  Types ([type_of]) are compared modulo [norm_ty], the value-preserving
   normalisation simplify_uniontype performs at snapshot time (numeric alternatives of a union collapse, unknown
   alternatives vanish), which the model does not perform. *)
open C14model
open Sx
open Rd

(* ---------------------------------------------------------------- readers *)
let name_of_sx = function A "%empty" -> name_of_string "" | A k -> name_of_string k | x -> bad ("name expected: " ^ Sx.to_string x)

let cmd_of_sx (x : Sx.t) : scmd =
  match x with
  | A "null" -> SC CNull
  | A "beginlist" -> SC CBeginList
  | A "endlist" -> SC CEndList
  | A "endtuple" -> SC CEndTuple
  | A "endrecord" -> SC CEndRecord
  | A "snapshot" -> SSnapshot
  | A "clear" -> SClear
  | L [A "bool"; v] -> SC (CBool (bool_of_sx v))
  | L [A "int"; v] -> SC (CInt (z_of_sx v))
  | L [A "real"; v] -> SC (CReal (z_of_sx v))
  | L (A "str" :: bs) -> SC (CStr (true, List.map z_of_sx bs))
  | L (A "bytes" :: bs) -> SC (CStr (false, List.map z_of_sx bs))
  | L [A "begintuple"; n] -> SC (CBeginTuple (z_of_sx n))
  | L [A "index"; i] -> SC (CIndex (z_of_sx i))
  | L [A "beginrecord"; A "none"] -> SC (CBeginRecord None)
  | L [A "beginrecord"; nm] -> SC (CBeginRecord (Some (name_of_sx nm)))
  | L [A "field"; k] -> SC (CField (name_of_sx k))
  | _ -> bad ("command: " ^ Sx.to_string x)

let rec pyval_of_sx (x : Sx.t) : pyval =
  match x with
  | A "none" -> PNone
  | A "true" -> PBool true
  | A "false" -> PBool false
  | L [A "i"; v] -> PInt (z_of_sx v)
  | L [A "f"; v] -> PFloat (z_of_sx v)
  | L (A "s" :: bs) -> PStr (true, List.map z_of_sx bs)
  | L (A "b" :: bs) -> PStr (false, List.map z_of_sx bs)
  | L (A "l" :: vs) -> PList (List.map pyval_of_sx vs)
  | L (A "t" :: vs) -> PTup (List.map pyval_of_sx vs)
  | L (A "r" :: nm :: fs) ->
    let nm = (match nm with A "none" -> None | n -> Some (name_of_sx n)) in
    PRec (nm, List.map (function L [k; v] -> (name_of_sx k, pyval_of_sx v) | y -> bad ("field: " ^ Sx.to_string y)) fs)
  | _ -> bad ("value: " ^ Sx.to_string x)

let rec nat_of_int n = if n <= 0 then O else S (nat_of_int (n - 1))
let rec int_of_nat = function O -> 0 | S n -> 1 + int_of_nat n

let opts_of_sx = function
  | L [A "opts"; i; r] ->
    let pct = z_of_sx r in
    let hundred = z_of_int 100 in
    (* ceil(r * pct / 100) *)
    { initial = z_of_sx i; grow = (fun r -> Z.div (Z.add (Z.mul r pct) (z_of_int 99)) hundred); junk = z_of_int (-777) }
  | x -> bad ("opts: " ^ Sx.to_string x)

(* ---------------------------------------------------------------- types *)
let string_of_dtype = function
  | DBool -> "bool" | DInt8 -> "int8" | DInt16 -> "int16" | DInt32 -> "int32" | DInt64 -> "int64"
  | DUInt8 -> "uint8" | DUInt16 -> "uint16" | DUInt32 -> "uint32" | DUInt64 -> "uint64"
  | DFloat32 -> "float32" | DFloat64 -> "float64"
let rec string_of_ty (t : ty) : string =
  match t with
  | TNum dt -> string_of_dtype dt
  | TUnk -> "unknown"
  | TList (Some n, _, t') -> "(reg " ^ string_of_z n ^ " " ^ string_of_ty t' ^ ")"
  | TList (None, Some true, _) -> "string"
  | TList (None, Some false, _) -> "bytes"
  | TList (None, None, t') -> "(var " ^ string_of_ty t' ^ ")"
  | TOpt t' -> "(opt " ^ string_of_ty t' ^ ")"
  | TRec (None, ts) -> "(tuple" ^ String.concat "" (List.map (fun t -> " " ^ string_of_ty t) ts) ^ ")"
  | TRec (Some ks, ts) ->
    "(rec" ^ String.concat "" (List.map2 (fun k t -> " (" ^ string_of_name k ^ " " ^ string_of_ty t ^ ")")
                                 ks (if List.length ks = List.length ts then ts else List.map (fun _ -> TUnk) ks)) ^ ")"
  | TUnion ts -> "(union" ^ String.concat "" (List.map (fun t -> " " ^ string_of_ty t) ts) ^ ")"

let is_numeric = function TNum DBool -> false | TNum _ -> true | _ -> false
let is_float = function TNum DFloat32 | TNum DFloat64 -> true | _ -> false
let uncertain = ref false
let rec norm_ty (t : ty) : ty =
  match t with
  | TNum _ | TUnk -> t
  | TList (n, s, t') -> TList (n, s, norm_ty t')
  | TOpt t' -> TOpt (norm_ty t')
  | TRec (ks, ts) -> TRec (ks, List.map norm_ty ts)
  | TUnion ts ->
    let ts = List.concat_map (fun t -> match norm_ty t with TUnion us -> us | u -> [u]) ts in
    let known = List.filter (fun t -> t <> TUnk) ts in
    (* an unknown-typed alternative (cleared record/tuple) is merged away by simplify_uniontype in an order that
       is C08's subject, not modelled here: the comparison of this type is skipped *)
    if List.length known <> List.length ts && known <> [] then uncertain := true;
    let ts = if known = [] then (match ts with [] -> [] | t :: _ -> [t]) else known in
    (* two alternatives simplify_uniontype may merge (same-arity tuples, same-keyed records, two lists): skip too *)
    let cls = function
      | TRec (None, l) -> "t" ^ string_of_int (List.length l)
      | TRec (Some ks, _) -> "r" ^ String.concat "," (List.map string_of_name ks)
      | TList (_, None, _) -> "l" | TList (_, Some b, _) -> if b then "s" else "b"
      | TOpt _ -> "o" | TUnion _ -> "u" | TUnk -> "?" | TNum DBool -> "bool" | TNum _ -> "num" in
    let cl = List.filter (fun c -> c <> "num") (List.map cls ts) in
    if List.length (List.sort_uniq compare cl) <> List.length cl then uncertain := true;
    let anyfloat = List.exists is_float ts in
    let seen = ref false in
    let ts = List.filter_map (fun t ->
        if is_numeric t then (if !seen then None else (seen := true; Some (if anyfloat then TNum DFloat64 else t)))
        else Some t) ts in
    (match ts with [t] -> t | _ -> TUnion ts)

(* ---------------------------------------------------------------- observations *)
type snapobs = { pos : int; len : string; v : obs; t : string; raw : string; valid : bool }
type evobs = OE of int * string | OS of snapobs

let errclass = function EValue -> "value" | EOob -> "ub" | EFuel -> "diverge"

let model_events (o : opts) (cmds : scmd list) : evobs list =
  let evs, _ = run_session o ab_init O cmds in
  List.map (function
      | EvErr (p, e) -> OE (int_of_nat p, errclass e)
      | EvSnap (p, len, Ok c) ->
        uncertain := false;
        let t = string_of_ty (norm_ty (type_of c)) in
        OS { pos = int_of_nat p; len = string_of_z len; v = obs_of_list (to_list c);
             t = (if !uncertain then "?" else t); raw = ""; valid = valid_b c }
      | EvSnap (p, len, Err e) ->
        OS { pos = int_of_nat p; len = string_of_z len; v = OBad (errclass e); t = "?"; raw = ""; valid = false }) evs

let impl_snap (pos : Sx.t) (len : Sx.t) (d : Sx.t) : snapobs =
  let p = small_int_of_z (z_of_sx pos) in
  let len = (match len with A l -> l | _ -> "?") in
  try
    let c = content_of_sx d in
    { pos = p; len; v = obs_of_list (to_list c); t = string_of_ty (norm_ty (type_of c)); raw = Sx.to_string d; valid = valid_b c }
  with Bad s -> { pos = p; len; v = OBad s; t = "?"; raw = Sx.to_string d; valid = false }

let impl_events (evs : Sx.t list) : evobs list =
  List.map (function
      | L [A "e"; p; A c] -> OE (small_int_of_z (z_of_sx p), c)
      | L [A "s"; p; len; d] -> OS (impl_snap p len d)
      | x -> bad ("impl event: " ^ Sx.to_string x)) evs

let string_of_ev = function
  | OE (p, c) -> Printf.sprintf "(e %d %s)" p c
  | OS s -> Printf.sprintf "(s %d %s %s %s)" s.pos s.len (string_of_obs s.v) s.t

(* ---------------------------------------------------------------- verdict *)
let find_field (h : string) (l : Sx.t list) : Sx.t option =
  List.find_opt (fun x -> Sx.head x = h) l

let scmd_eq (a : scmd) (b : scmd) = (a = b)

let verdict (id : string) (rest : Sx.t list) : string =
  let o = (match find_field "opts" rest with Some x -> opts_of_sx x | None -> bad "no opts") in
  let cmds = (match find_field "cmds" rest with Some (L (_ :: cs)) -> List.map cmd_of_sx cs | _ -> bad "no cmds") in
  let vals = (match find_field "vals" rest with Some (L (_ :: vs)) -> Some (List.map pyval_of_sx vs) | _ -> None) in
  let mev = model_events o cmds in
  (* the specification: only for sessions that are the encoding of well-formed values *)
  (* (valsafterclear V...): the session is  <anything> clear <encoding of V... with snapshots> ; the specification
     applies to what follows the last clear *)
  let after_clear = (match find_field "valsafterclear" rest with Some (L (_ :: vs)) -> Some (List.map pyval_of_sx vs) | _ -> None) in
  let rec drop_to_last_clear l acc = match l with
    | [] -> acc
    | SClear :: t -> drop_to_last_clear t t
    | _ :: t -> drop_to_last_clear t acc in
  let vals, spec_cmds = (match vals, after_clear with
      | Some vs, _ -> Some vs, cmds
      | None, Some vs -> Some vs, drop_to_last_clear cmds cmds
      | None, None -> None, cmds) in
  let spec = (match vals with
      | None -> None
      | Some vs ->
        let enc = List.map (fun c -> SC c) (encode_all vs) in
        let plain = List.filter (function SC _ -> true | _ -> false) spec_cmds in
        if List.length enc <> List.length plain || not (List.for_all2 scmd_eq enc plain) then bad "cmds are not the encoding of vals";
        if not (List.for_all pywf vs) then bad "vals not well-formed";
        Some (OVal (VList (unify vs)))) in
  let last_model_snap = List.fold_left (fun acc e -> match e with OS s -> Some s | _ -> acc) None mev in
  let model_ub = List.exists (function OE (_, ("ub" | "diverge")) -> true | OS { v = OBad ("ub" | "diverge"); _ } -> true | _ -> false) mev in
  let stats = Printf.sprintf "(nsnap %d) (nerr %d)"
      (List.length (List.filter (function OS _ -> true | _ -> false) mev))
      (List.length (List.filter (function OE _ -> true | _ -> false) mev)) in
  match find_field "impl" rest with
  | None ->
    Printf.sprintf "(%s model (events%s)%s)" id (String.concat "" (List.map (fun e -> " " ^ string_of_ev e) mev))
      (match spec with Some s -> " (spec " ^ string_of_obs s ^ ")" | None -> "")
  | Some (L (A "impl" :: A ("crash" | "timeout" as w) :: _)) ->
    Printf.sprintf "(%s viol %s (model-predicts-ub %b) %s)" id w model_ub stats
  | Some (L [A "impl"; A "err"; A c]) ->
    Printf.sprintf "(%s viol session-exception-%s %s)" id c stats
  | Some (L [A "impl"; A "ok"; L (A "events" :: ievs); L (A "final" :: fins)]) ->
    let iev = impl_events ievs in
    let problems = ref [] in
    let kinds = ref [] in
    let add k s = kinds := k :: !kinds; problems := s :: !problems in
    if model_ub then add "viol" "(model-predicts-ub)";
    (* (ii) immutability on the real code: dumped when taken vs dumped at the end *)
    let isnaps = List.filter_map (function OS s -> Some s | _ -> None) iev in
    if List.length fins <> List.length isnaps then bad "final/snapshot count";
    List.iter2 (fun s f ->
        match f with
        | L [p; len; d] ->
          let f = impl_snap p len d in
          if f.pos <> s.pos then bad "final order";
          if f.raw <> s.raw then
            add "viol" (Printf.sprintf "(snapshot-changed %d (taken %s) (final %s))" s.pos s.raw f.raw)
        | _ -> bad "final entry") isnaps fins;
    (* (iii) + (i): event by event against the model *)
    let rec cmp (m : evobs list) (i : evobs list) =
      match m, i with
      | [], [] -> ()
      | OE (p, c) :: m', OE (q, d) :: i' when p = q -> ignore c; ignore d; cmp m' i'
      | OS a :: m', OS b :: i' when a.pos = b.pos ->
        (match b.v with
         | OVal _ -> if not b.valid then add "viol" (Printf.sprintf "(snapshot-invalid-layout %d %s)" b.pos b.raw)
         | _ -> add "viol" (Printf.sprintf "(snapshot-unreadable-layout %d %s)" b.pos b.raw));
        if string_of_obs a.v = string_of_obs b.v && (match b.v with OVal _ -> false | _ -> true) then ()
        else if not (obs_eq a.v b.v) then
          add "modeldiff" (Printf.sprintf "(snapshot-value %d (impl %s) (model %s))" a.pos (string_of_obs b.v) (string_of_obs a.v))
        else if a.len <> b.len then
          add "modeldiff" (Printf.sprintf "(snapshot-length %d (impl %s) (model %s))" a.pos b.len a.len)
        else if a.t <> b.t && a.t <> "?" then
          add "modeldiff" (Printf.sprintf "(snapshot-type %d (impl %s) (model %s))" a.pos b.t a.t);
        cmp m' i'
      | OE (p, c) :: m', _ when (match i with OE (q, _) :: _ -> p < q | OS b :: _ -> p < b.pos | [] -> true) ->
        add "modeldiff" (Printf.sprintf "(error-only-in-model %d %s)" p c); cmp m' i
      | _, OE (q, d) :: i' ->
        add "modeldiff" (Printf.sprintf "(error-only-in-impl %d %s)" q d); cmp m i'
      | _ -> add "bad" "(event streams out of step)" in
    cmp mev iev;
    (* (i) against the specification: the last snapshot of a value session *)
    (match spec with
     | None -> ()
     | Some sp ->
       let last_impl = List.fold_left (fun acc e -> match e with OS s -> Some s | _ -> acc) None iev in
       let first_pos = List.length cmds - List.length spec_cmds in
       let ierrs = List.filter_map (function OE (p, c) when p >= first_pos -> Some (Printf.sprintf "%d:%s" p c) | _ -> None) iev in
       (match last_impl with
        | None -> ()
        | Some s ->
          if ierrs <> [] then
            add "viol" (Printf.sprintf "(well-nested-session-raised %s)" (String.concat "," ierrs))
          else if not (obs_eq s.v sp) then
            add "viol" (Printf.sprintf "(value (impl %s) (spec %s))" (string_of_obs s.v) (string_of_obs sp)));
       (match last_model_snap with
        | Some s when not (obs_eq s.v sp) && not (List.mem "viol" !kinds) ->
          add "modeldiff" (Printf.sprintf "(model-vs-spec (model %s) (spec %s))" (string_of_obs s.v) (string_of_obs sp))
        | _ -> ()));
    let k = if List.mem "bad" !kinds then "bad" else if List.mem "viol" !kinds then "viol"
      else if List.mem "modeldiff" !kinds then "modeldiff" else "agree" in
    Printf.sprintf "(%s %s%s %s)" id k (String.concat "" (List.map (fun s -> " " ^ s) (List.rev !problems))) stats
  | Some x -> bad ("impl: " ^ Sx.to_string x)

let () =
  try
    while true do
      let line = input_line stdin in
      if String.length line > 0 && line.[0] <> '#' then begin
        let id = ref "?" in
        (try
           match Sx.parse line with
           | L (A i :: A "build" :: rest) -> id := i; print_endline (verdict i rest)
           | _ -> bad "case syntax"
         with
         | Bad s -> Printf.printf "(%s bad (%s))\n" !id s
         | Sx.Parse s -> Printf.printf "(%s bad (parse %s))\n" !id s
         | Stack_overflow -> Printf.printf "(%s bad (stack overflow))\n" !id
         | Invalid_argument s -> Printf.printf "(%s bad (invalid_argument %s))\n" !id s
         | Not_found -> Printf.printf "(%s bad (not found))\n" !id)
      end
    done
  with End_of_file -> ()
