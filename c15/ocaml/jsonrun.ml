(* jsonrun: evaluates the extracted C15 model on the cases the implementation ran.
   input (one per line):
     (id tojson (opts PRETTY MAXDEC (nan B..|none) (inf ..) (minf ..) (creal ..) (cimag ..)) LAYOUT)
     (id fromjson (opts (nan ..) (inf ..) (minf ..) INITIAL RESIZE BUFSIZE) (text B...))
   output:
     (id ok (bytes B...) (value V) (wf 0|1) (printable 0|1) (rt 0|1))   compact rendering of the model's events,
                                   their value, well-formedness, and parse(render evs) = evs (run-time instance of
                                   Theorem parse_render; 1 when not printable)
     (id err value|oob|fuel)       the model's tojson_events failed
     (id skip REASON)              outside the model (complex, non-integral doubles)
     (id docs (d EV...) ...)       model's do_parse: one entry per document, events after Handler
     (id fail incomplete|invalid|fuel) *)
open Model
open Sx
open Rd

let bytes_of_sx (l : Sx.t list) : z list = List.map z_of_sx l
let optstr name = function
  | L [A n; A "none"] when n = name -> None
  | L (A n :: bs) when n = name -> Some (bytes_of_sx bs)
  | x -> bad ("option " ^ name ^ ": " ^ Sx.to_string x)

let sz (x : z) = string_of_z x
let sbytes tag (s : z list) = "(" ^ tag ^ String.concat "" (List.map (fun c -> " " ^ sz c) s) ^ ")"
let string_of_ev = function
  | ENull -> "null"
  | EBool b -> if b then "(bool 1)" else "(bool 0)"
  | EInt x -> "(int " ^ sz x ^ ")"
  | EReal (RZ x) -> "(real " ^ sz x ^ ")"
  | EReal RNaN -> "(real nan)"
  | EReal (RInf false) -> "(real inf)"
  | EReal (RInf true) -> "(real -inf)"
  | EReal RFrac -> "(real frac)"
  | EStr s -> sbytes "str" s
  | EKey s -> sbytes "key" s
  | ESA -> "sa" | EEA -> "ea" | ESO -> "so" | EEO -> "eo"

let rec mentions a = function
  | A x -> x = a
  | L l -> List.exists (mentions a) l
let rec has_hexfloat = function
  | A x -> String.length x > 2 && x.[0] = 'f' && x.[1] = ':'
  | L l -> List.exists has_hexfloat l

let b01 b = if b then "1" else "0"
let errname = function EValue -> "value" | EOob -> "oob" | EFuel -> "fuel"

let run id op args =
  match op, args with
  | "tojson", [L (A "opts" :: _pretty :: _maxdec :: nan :: inf :: minf :: _creal :: _cimag :: []); lay] ->
    if mentions "npc" lay then "skip complex"
    else if has_hexfloat lay then "skip nonintegral"
    else begin
      let o = { nan_s = optstr "nan" nan; inf_s = optstr "inf" inf; minf_s = optstr "minf" minf } in
      let c = content_of_sx lay in
      match tojson_events o c with
      | Err e -> "err " ^ errname e
      | Ok evs ->
        let txt = render evs in
        let v = (match json_value evs with
            | Ok (v, []) -> string_of_value v
            | Ok (_, _) -> "(bad trailing)"
            | Err e -> "(bad " ^ errname e ^ ")") in
        let pr = printable evs in
        let rt = if not pr then true else
            (match Model.parse txt with Ok (e2, []) -> e2 = evs | _ -> false) in
        Printf.sprintf "ok %s (value %s) (wf %s) (printable %s) (rt %s) (valid %s)" (sbytes "bytes" txt) v (b01 (wf evs)) (b01 pr) (b01 rt)
          (b01 (valid_b c))
    end
  | "fromjson", [L [A "opts"; nan; inf; minf; _; _; _]; L (A "text" :: bs)] ->
    let o = { nan_s = optstr "nan" nan; inf_s = optstr "inf" inf; minf_s = optstr "minf" minf } in
    (match do_parse o (bytes_of_sx bs) with
     | JDocs ds ->
       "docs" ^ String.concat "" (List.map (fun d -> " (d" ^ String.concat "" (List.map (fun e -> " " ^ string_of_ev e) d) ^ ")") ds)
     | JErr JIncomplete -> "fail incomplete"
     | JErr JInvalid -> "fail invalid"
     | JErr JFuel -> "fail fuel")
  | _ -> bad ("unknown case " ^ op)

let () =
  try
    while true do
      let line = input_line stdin in
      if String.length line > 0 && line.[0] <> '#' then begin
        let id, out =
          (try
             match Sx.parse line with
             | L (A id :: A op :: args) ->
               (id, try run id op args with Bad s -> "bad (" ^ s ^ ")" | Stack_overflow -> "bad (stack)")
             | _ -> ("?", "bad (case syntax)")
           with Sx.Parse s -> ("?", "bad (" ^ s ^ ")")) in
        print_string ("(" ^ id ^ " " ^ out ^ ")\n")
      end
    done
  with End_of_file -> ()
