(** C03: facts about the reducer specification: what one group of leaves becomes
    ([leaf_reduce]), the first-extremum rule of argmin/argmax ([argbest]), and the shape of a
    reduction across lists ([zipred]: as many outputs as the longest list; a column holds
    exactly the elements at that position). *)
From AwkV Require Import Layout Ops_Reduce.
From Coq Require Import ZifyBool.

(* ---- one group of leaves ---- *)
Theorem count_counts r_mask dt l : leaf_reduce RCount r_mask dt l = (match l, r_mask with [], true => None | _, _ => Some (VNum (DZ (zlen l))) end).
Proof. destruct l, r_mask; reflexivity. Qed.

Theorem empty_group_identity dt :
  leaf_reduce RCount false dt [] = Some (VNum (DZ 0)) /\
  leaf_reduce RCountNonzero false dt [] = Some (VNum (DZ 0)) /\
  leaf_reduce RSum false dt [] = Some (VNum (DZ (wrap_acc dt 0))) /\
  leaf_reduce RProd false dt [] = Some (VNum (DZ (wrap_acc dt 1))) /\
  leaf_reduce RAny false dt [] = Some (VBool false) /\
  leaf_reduce RAll false dt [] = Some (VBool true) /\
  leaf_reduce RArgmin false dt [] = Some (VNum (DZ (-1))) /\
  leaf_reduce RArgmax false dt [] = Some (VNum (DZ (-1))).
Proof. repeat split. Qed.

Theorem empty_group_masked r dt : leaf_reduce r true dt [] = None.
Proof. reflexivity. Qed.

Lemma wrap_acc_small dt z : - two63 <= z < two63 -> (is_unsigned dt = false) -> wrap_acc dt z = z.
Proof.
  intros H Hu. unfold wrap_acc. rewrite Hu. destruct (is_float dt); auto.
  unfold wrap_s64. unfold two64, two63 in *.
  rewrite Z.mod_small by lia. lia.
Qed.

Theorem sum_is_sum mask dt x xs (l := x :: xs) :
  leaf_reduce RSum mask dt (map (fun v => (0, v)) l) = Some (VNum (DZ (wrap_acc dt (fold_left Z.add l 0)))).
Proof. unfold l. destruct mask; cbn [leaf_reduce map]; rewrite ?map_map; cbn [snd]; rewrite map_id; reflexivity. Qed.

(* ---- argmin / argmax: position of the first extremal element ---- *)
(* generalised over the running best *)
Lemma argbest_in better best l j x :
  argbest better best l = Some (j, x) -> best = Some (j, x) \/ In (j, x) l.
Proof.
  revert best. induction l as [|[j' x'] r IH]; intros best H; cbn in H.
  - left. exact H.
  - destruct best as [[bj bx]|].
    + destruct (better x' bx).
      * destruct (IH _ H) as [E|E]; [inversion E; subst; right; left; reflexivity | right; right; exact E].
      * destruct (IH _ H) as [E|E]; [left; exact E | right; right; exact E].
    + destruct (IH _ H) as [E|E]; [inversion E; subst; right; left; reflexivity | right; right; exact E].
Qed.

Lemma argmin_le best l j x :
  argbest Z.ltb best l = Some (j, x) ->
  (forall bj bx, best = Some (bj, bx) -> x <= bx) /\ (forall j' x', In (j', x') l -> x <= x').
Proof.
  revert best. induction l as [|[j1 x1] r IH]; intros best H; cbn in H.
  - split; [intros bj bx E; rewrite E in H; inversion H; lia | intros ? ? []].
  - destruct best as [[bj bx]|].
    + destruct (Z.ltb_spec x1 bx) as [Hlt|Hge].
      * destruct (IH _ H) as [Hb Hr]. specialize (Hb _ _ eq_refl). split.
        -- intros ? ? E; inversion E; subst. lia.
        -- intros j' x' [E|Hin]; [inversion E; subst; lia | apply (Hr _ _ Hin)].
      * destruct (IH _ H) as [Hb Hr]. specialize (Hb _ _ eq_refl). split.
        -- intros ? ? E; inversion E; subst. lia.
        -- intros j' x' [E|Hin]; [inversion E; subst; lia | apply (Hr _ _ Hin)].
    + destruct (IH _ H) as [Hb Hr]. specialize (Hb _ _ eq_refl). split.
      * intros ? ? E; discriminate.
      * intros j' x' [E|Hin]; [inversion E; subst; lia | apply (Hr _ _ Hin)].
Qed.

(* the winner is the FIRST minimal element: everything before it is strictly larger *)
Lemma argmin_first best l j x :
  argbest Z.ltb best l = Some (j, x) ->
  best = Some (j, x) \/
  exists pre post, l = pre ++ (j, x) :: post /\
                   (forall j' x', In (j', x') pre -> x < x') /\
                   (forall bj bx, best = Some (bj, bx) -> x < bx).
Proof.
  revert best. induction l as [|[j1 x1] r IH]; intros best H; cbn in H.
  - left. exact H.
  - destruct best as [[bj bx]|].
    + destruct (Z.ltb_spec x1 bx) as [Hlt|Hge].
      * destruct (IH _ H) as [E | (pre & post & -> & Hpre & Hb)].
        -- inversion E; subst. right. exists [], r. repeat split; [intros ? ? [] | intros ? ? E'; inversion E'; subst; lia].
        -- right. exists ((j1, x1) :: pre), post. repeat split.
           ++ intros j' x' [E|Hin]; [inversion E; subst; apply (Hb _ _ eq_refl) | apply (Hpre _ _ Hin)].
           ++ intros ? ? E; inversion E; subst. specialize (Hb _ _ eq_refl). lia.
      * destruct (IH _ H) as [E | (pre & post & -> & Hpre & Hb)].
        -- left. exact E.
        -- right. exists ((j1, x1) :: pre), post. repeat split.
           ++ intros j' x' [E|Hin]; [inversion E; subst; specialize (Hb _ _ eq_refl); lia | apply (Hpre _ _ Hin)].
           ++ exact Hb.
    + destruct (IH _ H) as [E | (pre & post & -> & Hpre & Hb)].
      * inversion E; subst. right. exists [], r. repeat split; [intros ? ? [] | intros ? ? E'; discriminate].
      * right. exists ((j1, x1) :: pre), post. repeat split.
        -- intros j' x' [E|Hin]; [inversion E; subst; apply (Hb _ _ eq_refl) | apply (Hpre _ _ Hin)].
        -- intros ? ? E; discriminate.
Qed.

Lemma argbest_some better b l : argbest better (Some b) l <> None.
Proof.
  revert b. induction l as [|[j x] r IH]; intros [bj bx]; cbn; [discriminate|].
  destruct (better x bx); apply IH.
Qed.

Theorem argmin_is_first_minimum l j :
  leaf_reduce RArgmin false DInt64 l = Some (VNum (DZ j)) -> l <> [] ->
  exists x pre post, l = pre ++ (j, x) :: post /\
                     (forall j' x', In (j', x') l -> x <= x') /\
                     (forall j' x', In (j', x') pre -> x < x').
Proof.
  intros H Hne. destruct l as [|p l']; [congruence|].
  cbn [leaf_reduce] in H.
  destruct (argbest Z.ltb None (p :: l')) as [[j0 x]|] eqn:E;
    [|exfalso; destruct p as [pj px]; cbn in E; exact (argbest_some _ _ _ E)].
  inversion H; subst.
  pose proof (argmin_le _ _ _ _ E) as [_ Hall].
  destruct (argmin_first _ _ _ _ E) as [C | (pre & post & Hl & Hpre & _)]; [discriminate|].
  exists x, pre, post. split; [exact Hl|]. split; [exact Hall | exact Hpre].
Qed.

(* ---- reducing across lists ---- *)
Lemma fold_max_ge l a : a <= fold_left Z.max l a.
Proof. revert a. induction l as [|x xs IH]; intros a; cbn; [lia|]. specialize (IH (Z.max a x)). lia. Qed.
Lemma fold_max_In l a x : In x l -> x <= fold_left Z.max l a.
Proof.
  revert a. induction l as [|y ys IH]; intros a Hin; [destruct Hin|].
  destruct Hin as [<-|Hin]; cbn.
  - pose proof (fold_max_ge ys (Z.max a y)). lia.
  - apply IH. exact Hin.
Qed.

Lemma mapM_length' {A B} (f : A -> res B) l ys : mapM f l = Ok ys -> length ys = length l.
Proof.
  revert ys. induction l as [|x xs IH]; intros ys H; cbn in H.
  - inversion H. reflexivity.
  - destruct (f x); [|discriminate]. cbn in H. destruct (mapM f xs) eqn:E; [|discriminate].
    cbn in H. inversion H; subst. cbn. f_equal. apply IH. reflexivity.
Qed.

Lemma iota_nat_length' start n : length (iota_nat start n) = n.
Proof. revert start; induction n; intros; cbn; auto. Qed.

(* the result has as many entries as the longest list among the combined ones; in particular
   lists of unequal length are allowed and nothing is invented beyond the longest *)
Theorem zipred_list_shape r mask sz t' xs out :
  zipred r mask (TList sz None t') xs = Ok (VList out) ->
  exists ls, mapM (fun jv : Z * value => match snd jv with VList l => Ok (fst jv, l) | _ => Err EValue end) xs = Ok ls /\
             zlen out = fold_left Z.max (map (fun jl : Z * list value => zlen (snd jl)) ls) 0.
Proof.
  cbn [zipred]. intros H.
  destruct (mapM _ xs) as [ls|] eqn:E; [|discriminate]. cbn [bind] in H.
  exists ls. split; auto.
  set (m := fold_left Z.max _ 0) in *.
  destruct (mapM _ (iota m)) as [o|] eqn:Eo; [|discriminate]. cbn in H. inversion H; subst.
  apply mapM_length' in Eo. unfold zlen. rewrite Eo. unfold iota. rewrite iota_nat_length'.
  assert (0 <= m) by (apply fold_max_ge). lia.
Qed.

(* a column consists exactly of the p-th elements of the lists that are long enough, in order *)
Theorem column_spec p (ls : list (Z * list value)) :
  column p ls = flat_map (fun jl : Z * list value =>
                            match nth_error (snd jl) (Z.to_nat p) with
                            | Some v => if p <? 0 then [] else [(fst jl, v)]
                            | None => []
                            end) ls.
Proof.
  unfold column. induction ls as [|[j l] r IH]; cbn [flat_map]; auto.
  rewrite IH. f_equal. cbn [fst snd]. unfold get.
  destruct (p <? 0); [destruct (nth_error l (Z.to_nat p)); reflexivity|].
  destruct (nth_error l (Z.to_nat p)); reflexivity.
Qed.

Example reduce_example :
  zipred RSum false (TList None None (TNum DInt64))
    [(0, VList [VNum (DZ 1); VNum (DZ 2); VNum (DZ 3)]); (1, VList []); (2, VList [VNum (DZ 4); VNum (DZ 5)])]
  = Ok (VList [VNum (DZ 5); VNum (DZ 7); VNum (DZ 3)]) /\
  zipred RArgmin false (TList None None (TNum DInt64))
    [(0, VList [VNum (DZ 9); VNum (DZ 6)]); (1, VList []); (2, VList [VNum (DZ 4); VNum (DZ 7)])]
  = Ok (VList [VNum (DZ 2); VNum (DZ 0)]).
Proof. split; reflexivity. Qed.
